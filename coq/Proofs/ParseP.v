(* ParseP.v — the parser model of Model/Parse.v:
   - print / parse round trip (C09) for PL, CTL*, LTL and (in CTL* notation) CTL,
   - totality of the fuelled parsers with the fuel used by [parse] (no OutOfFuel, only Ok / ParseErr),
   - every accepted string yields a formula of the parser's logic (C10).
   Axiom-free. *)
From Coq Require Import List Arith Bool Lia String Ascii.
From PMC Require Import Model.Base Model.Syntax Model.Print Model.Parse Proofs.PrintP.
Import ListNotations.
Local Open Scope string_scope.

(* ------------------------------------------------------------------ *)
(** * Sanity examples (contextual keywords, rejected inputs) *)

Example ex_ctl_AFG_q : parse_string CTL "A F G q" = ParseErr.
Proof. vm_compute. reflexivity. Qed.
Example ex_ltl_EF : parse_string LTL "E F q" = ParseErr.
Proof. vm_compute. reflexivity. Qed.
Example ex_ltl_A_not_root : parse_string LTL "A (a U b) or c" = ParseErr.
Proof. vm_compute. reflexivity. Qed.
Example ex_ctl_AFG : parse_string CTL "A F G" = Ok (FA (FF (FAtom "G"))).
Proof. vm_compute. reflexivity. Qed.
Example ex_ctls_UUU : parse_string CTLS "U U U" = Ok (FU (FAtom "U") (FAtom "U")).
Proof. vm_compute. reflexivity. Qed.
Example ex_pl_mixed : parse_string PL "p or q and r" = ParseErr.
Proof. vm_compute. reflexivity. Qed.
Example ex_pl_orb : parse_string PL "p orb" = Ok (FOr [FAtom "p"; FAtom "b"]).
Proof. vm_compute. reflexivity. Qed.
(* CTL's own compact notation is not read back by the CTL parser: "AX" is one identifier *)
Example ex_ctl_compact_not_roundtrip :
  parse_string CTL (print_ctl (FA (FX (FAtom "p")))) <> Ok (FA (FX (FAtom "p"))).
Proof. vm_compute. discriminate. Qed.

(* ------------------------------------------------------------------ *)
(** * Characters: the classes of Parse.v and of PrintP.v coincide *)

Lemma word_start_ident c : is_word_start c = ident_start c.
Proof. destruct c as [[] [] [] [] [] [] [] []]; reflexivity. Qed.
Lemma word_char_ident c : is_word_char c = ident_char c.
Proof. destruct c as [[] [] [] [] [] [] [] []]; reflexivity. Qed.
Lemma ident_start_not_ws c : ident_start c = true -> is_ws c = false.
Proof. destruct c as [[] [] [] [] [] [] [] []]; vm_compute; congruence. Qed.

Lemma omap_id {A} (x : option (list A)) : option_map (app []) x = x.
Proof. destruct x; reflexivity. Qed.
Lemma omap_comp {A} (a b : list A) (x : option (list A)) :
  option_map (app a) (option_map (app b) x) = option_map (app (a ++ b)) x.
Proof. destruct x; simpl; [rewrite app_assoc|]; reflexivity. Qed.
Lemma omap_cons_app {A} (a : A) (b : list A) (x : option (list A)) :
  option_map (cons a) (option_map (app b) x) = option_map (app (a :: b)) x.
Proof. destruct x; reflexivity. Qed.

(* ------------------------------------------------------------------ *)
(** * Lexing a printed formula *)

Lemma lex_word_go w : forall acc r, all_ic w = true -> delim r = true ->
  lex_go (LSWord acc) (w ++ r) = option_map (cons (PWord (acc ++ w))) (lex_go LS0 r).
Proof.
  induction w as [|c w IH]; intros acc r Hw Hr.
  - simpl. rewrite sapp_nil_r. destruct r as [|d r]; [reflexivity|].
    simpl in Hr. cbn [lex_go lex_step]. rewrite word_char_ident.
    destruct (ident_char d); [discriminate|].
    destruct (lex_start d) as [[out st]|]; [|reflexivity].
    destruct (lex_go st r); reflexivity.
  - simpl in Hw. apply andb_true_iff in Hw. destruct Hw as [Hc Hw].
    change (String c w ++ r) with (String c (w ++ r)). cbn [lex_go lex_step].
    rewrite word_char_ident, Hc. rewrite omap_id. rewrite IH by assumption.
    unfold snoc. rewrite sapp_assoc. reflexivity.
Qed.

Lemma lx_word w r tr : is_ident w = true -> delim r = true -> lex_go LS0 r = Some tr ->
  lex_go LS0 (w ++ r) = Some (PWord w :: tr).
Proof.
  intros Hw Hr Htr. destruct w as [|c w]; [discriminate|].
  simpl in Hw. apply andb_true_iff in Hw. destruct Hw as [Hc Hw].
  change (String c w ++ r) with (String c (w ++ r)). cbn [lex_go lex_step]. unfold lex_start.
  rewrite (ident_start_not_ws c Hc), word_start_ident, Hc, omap_id.
  rewrite lex_word_go by assumption. rewrite Htr. reflexivity.
Qed.

Lemma lx_sp s tr : lex_go LS0 s = Some tr -> lex_go LS0 (String " " s) = Some tr.
Proof.
  intros H. change (lex_go LS0 (String " " s)) with (option_map (app []) (lex_go LS0 s)).
  rewrite H. reflexivity.
Qed.
Lemma lx_lp s tr : lex_go LS0 s = Some tr -> lex_go LS0 (String "(" s) = Some (PLp :: tr).
Proof.
  intros H. change (lex_go LS0 (String "(" s)) with (option_map (app [PLp]) (lex_go LS0 s)).
  rewrite H. reflexivity.
Qed.
Lemma lx_rp s tr : lex_go LS0 s = Some tr -> lex_go LS0 (String ")" s) = Some (PRp :: tr).
Proof.
  intros H. change (lex_go LS0 (String ")" s)) with (option_map (app [PRp]) (lex_go LS0 s)).
  rewrite H. reflexivity.
Qed.
Lemma lx_imp s tr : lex_go LS0 s = Some tr -> lex_go LS0 ("--> " ++ s) = Some (PSym SImp :: tr).
Proof.
  intros H.
  change (lex_go LS0 ("--> " ++ s))
    with (option_map (app []) (option_map (app []) (option_map (app [PSym SImp])
           (option_map (app []) (lex_go LS0 s))))).
  rewrite H. reflexivity.
Qed.

(* the token list of a printed formula *)
Fixpoint tchain (sep : ptok) (l : list (list ptok)) : list ptok :=
  match l with
  | [] => []
  | x :: r => sep :: (x ++ tchain sep r)%list
  end.
Definition tnary (sep : ptok) (l : list (list ptok)) : list ptok :=
  match l with
  | [] => [PLp; PRp]
  | x :: r => PLp :: (x ++ tchain sep r ++ [PRp])%list
  end.
Fixpoint toks (f : form) : list ptok :=
  match f with
  | FBool true => [PWord "true"]
  | FBool false => [PWord "false"]
  | FAtom a => [PWord a]
  | FNot g => PWord "not" :: toks g
  | FOr fs => tnary (PWord "or") (map toks fs)
  | FAnd fs => tnary (PWord "and") (map toks fs)
  | FImp g h => PLp :: (toks g ++ PSym SImp :: toks h ++ [PRp])%list
  | FX g => PWord "X" :: PLp :: (toks g ++ [PRp])%list
  | FF g => PWord "F" :: PLp :: (toks g ++ [PRp])%list
  | FG g => PWord "G" :: PLp :: (toks g ++ [PRp])%list
  | FU g h => PLp :: (toks g ++ PWord "U" :: toks h ++ [PRp])%list
  | FR g h => PLp :: (toks g ++ PWord "R" :: toks h ++ [PRp])%list
  | FA g => PWord "A" :: PLp :: (toks g ++ [PRp])%list
  | FE g => PWord "E" :: PLp :: (toks g ++ [PRp])%list
  end.

(* right-nested normal forms of [toks f ++ r] *)
Lemma tk_nary sep x y l (r : list ptok) :
  (tnary sep (map toks (x :: y :: l)) ++ r
   = PLp :: toks x ++ sep :: toks y ++ tchain sep (map toks l) ++ PRp :: r)%list.
Proof.
  simpl. rewrite <- !app_assoc. simpl. rewrite <- !app_assoc. reflexivity.
Qed.
Lemma tk_or x y l (r : list ptok) :
  (toks (FOr (x :: y :: l)) ++ r
   = PLp :: toks x ++ PWord "or" :: toks y ++ tchain (PWord "or") (map toks l) ++ PRp :: r)%list.
Proof. exact (tk_nary _ x y l r). Qed.
Lemma tk_and x y l (r : list ptok) :
  (toks (FAnd (x :: y :: l)) ++ r
   = PLp :: toks x ++ PWord "and" :: toks y ++ tchain (PWord "and") (map toks l) ++ PRp :: r)%list.
Proof. exact (tk_nary _ x y l r). Qed.
Lemma tk_bin (sep : ptok) g h (r : list ptok) :
  ((PLp :: toks g ++ sep :: toks h ++ [PRp]) ++ r = PLp :: toks g ++ sep :: toks h ++ PRp :: r)%list.
Proof. simpl. rewrite <- !app_assoc. simpl. rewrite <- !app_assoc. reflexivity. Qed.
Lemma tk_imp g h (r : list ptok) :
  (toks (FImp g h) ++ r = PLp :: toks g ++ PSym SImp :: toks h ++ PRp :: r)%list.
Proof. exact (tk_bin _ g h r). Qed.
Lemma tk_u g h (r : list ptok) :
  (toks (FU g h) ++ r = PLp :: toks g ++ PWord "U" :: toks h ++ PRp :: r)%list.
Proof. exact (tk_bin _ g h r). Qed.
Lemma tk_r g h (r : list ptok) :
  (toks (FR g h) ++ r = PLp :: toks g ++ PWord "R" :: toks h ++ PRp :: r)%list.
Proof. exact (tk_bin _ g h r). Qed.
Lemma tk_un (k : ptok) g (r : list ptok) :
  ((k :: PLp :: toks g ++ [PRp]) ++ r = k :: PLp :: toks g ++ PRp :: r)%list.
Proof. simpl. rewrite <- app_assoc. reflexivity. Qed.
Lemma tk_x g (r : list ptok) : (toks (FX g) ++ r = PWord "X" :: PLp :: toks g ++ PRp :: r)%list.
Proof. exact (tk_un _ g r). Qed.
Lemma tk_f g (r : list ptok) : (toks (FF g) ++ r = PWord "F" :: PLp :: toks g ++ PRp :: r)%list.
Proof. exact (tk_un _ g r). Qed.
Lemma tk_g g (r : list ptok) : (toks (FG g) ++ r = PWord "G" :: PLp :: toks g ++ PRp :: r)%list.
Proof. exact (tk_un _ g r). Qed.
Lemma tk_a g (r : list ptok) : (toks (FA g) ++ r = PWord "A" :: PLp :: toks g ++ PRp :: r)%list.
Proof. exact (tk_un _ g r). Qed.
Lemma tk_e g (r : list ptok) : (toks (FE g) ++ r = PWord "E" :: PLp :: toks g ++ PRp :: r)%list.
Proof. exact (tk_un _ g r). Qed.

Definition LX (f : form) : Prop :=
  forall r tr, delim r = true -> lex_go LS0 r = Some tr ->
               lex_go LS0 (print_std f ++ r) = Some (toks f ++ tr)%list.

Lemma lx_joinr (sep : string) (septok : ptok)
  (Hsep : forall s tr, lex_go LS0 s = Some tr -> lex_go LS0 (sep ++ s) = Some (septok :: tr))
  (Hd : forall s, delim (sep ++ s) = true) :
  forall l y, Forall LX (y :: l) -> forall r tr, lex_go LS0 r = Some tr ->
    lex_go LS0 (joinr print_std sep y l r)
    = Some (toks y ++ tchain septok (map toks l) ++ PRp :: tr)%list.
Proof.
  induction l as [|z l IH]; intros y HF r tr Hr; inversion HF as [|? ? Hy HF']; subst.
  - simpl. apply Hy; [reflexivity|]. apply lx_rp. exact Hr.
  - simpl. rewrite <- app_assoc. apply Hy; [apply Hd|]. apply Hsep. apply (IH z HF' r tr Hr).
Qed.

Lemma lx_kw_sp (k : string) s tr : is_ident k = true -> lex_go LS0 s = Some tr ->
  lex_go LS0 (String " " (k ++ String " " s)) = Some (PWord k :: tr).
Proof.
  intros Hk H. apply lx_sp. apply lx_word; [exact Hk|reflexivity|]. apply lx_sp. exact H.
Qed.

Lemma lx_un (k : string) g r tr : is_ident k = true -> LX g -> lex_go LS0 r = Some tr ->
  lex_go LS0 (k ++ String "(" (print_std g ++ String ")" r)) = Some (PWord k :: PLp :: toks g ++ PRp :: tr)%list.
Proof.
  intros Hk Hg Hr. apply lx_word; [exact Hk|reflexivity|]. apply lx_lp.
  apply Hg; [reflexivity|]. apply lx_rp. exact Hr.
Qed.

Lemma lex_std : forall f, okstd f = true -> LX f.
Proof.
  induction f as [b|a|f0 IH|fs IH|fs IH|f1 f2 IH1 IH2|f0 IH|f0 IH|f0 IH
                  |f1 f2 IH1 IH2|f1 f2 IH1 IH2|f0 IH|f0 IH] using form_ind';
    intros Hof r tr Hd Hr.
  - destruct b; simpl toks.
    + apply (lx_word "true"); [reflexivity|exact Hd|exact Hr].
    + apply (lx_word "false"); [reflexivity|exact Hd|exact Hr].
  - destruct (okstd_atom a Hof) as [Ha _]. simpl. apply lx_word; assumption.
  - rewrite std_not. change ("not " ++ (print_std f0 ++ r)) with ("not" ++ String " " (print_std f0 ++ r)).
    simpl toks. simpl app. apply (lx_word "not"); [reflexivity|reflexivity|].
    apply lx_sp. apply (IH Hof); assumption.
  - destruct (okstd_list fs Hof) as (x & y & l & Ef & Hfs). subst fs.
    assert (HD := Forall_imp_forallb _ _ _ IH Hfs).
    rewrite std_or, tk_or. inversion HD as [|? ? Hx HD']; subst.
    apply lx_lp. apply Hx; [reflexivity|].
    apply (lx_kw_sp "or"); [reflexivity|].
    apply (lx_joinr " or " (PWord "or")); try assumption.
    + intros s t Hs. apply (lx_kw_sp "or"); [reflexivity|exact Hs].
    + reflexivity.
  - destruct (okstd_list fs Hof) as (x & y & l & Ef & Hfs). subst fs.
    assert (HD := Forall_imp_forallb _ _ _ IH Hfs).
    rewrite std_and, tk_and. inversion HD as [|? ? Hx HD']; subst.
    apply lx_lp. apply Hx; [reflexivity|].
    apply (lx_kw_sp "and"); [reflexivity|].
    apply (lx_joinr " and " (PWord "and")); try assumption.
    + intros s t Hs. apply (lx_kw_sp "and"); [reflexivity|exact Hs].
    + reflexivity.
  - destruct (okstd_bin _ _ Hof) as [Hf1 Hf2]. rewrite std_imp, tk_imp.
    apply lx_lp. apply (IH1 Hf1); [reflexivity|]. apply lx_sp. apply lx_imp.
    apply (IH2 Hf2); [reflexivity|]. apply lx_rp. exact Hr.
  - rewrite std_x, tk_x. apply (lx_un "X"); [reflexivity|exact (IH Hof)|exact Hr].
  - rewrite std_f, tk_f. apply (lx_un "F"); [reflexivity|exact (IH Hof)|exact Hr].
  - rewrite std_g, tk_g. apply (lx_un "G"); [reflexivity|exact (IH Hof)|exact Hr].
  - destruct (okstd_bin _ _ Hof) as [Hf1 Hf2]. rewrite std_u, tk_u.
    apply lx_lp. apply (IH1 Hf1); [reflexivity|]. apply (lx_kw_sp "U"); [reflexivity|].
    apply (IH2 Hf2); [reflexivity|]. apply lx_rp. exact Hr.
  - destruct (okstd_bin _ _ Hof) as [Hf1 Hf2]. rewrite std_r, tk_r.
    apply lx_lp. apply (IH1 Hf1); [reflexivity|]. apply (lx_kw_sp "R"); [reflexivity|].
    apply (IH2 Hf2); [reflexivity|]. apply lx_rp. exact Hr.
  - rewrite std_a, tk_a. apply (lx_un "A"); [reflexivity|exact (IH Hof)|exact Hr].
  - rewrite std_e, tk_e. apply (lx_un "E"); [reflexivity|exact (IH Hof)|exact Hr].
Qed.

Theorem lex_print_std f : okstd f = true -> lex (print_std f) = Some (toks f).
Proof.
  intros Hof. unfold lex. rewrite <- (sapp_nil_r (print_std f)).
  rewrite (lex_std f Hof "" [] eq_refl eq_refl). rewrite app_nil_r. reflexivity.
Qed.

(* ------------------------------------------------------------------ *)
(** * One-step unfoldings of the fuelled parsers *)

Definition chain_step (operand : list ptok -> pres form) (chain : list ptok -> pres (list form))
           (op : bop) (ts : list ptok) : pres (list form) :=
  match binop false ts with
  | Some (op', r) =>
      if bop_eqb op' op
      then rbind (operand r) (fun '(g, r1) =>
           rbind (chain r1) (fun '(gs, r2) => Ok (g :: gs, r2)))
      else Ok ([], ts)
  | None => Ok ([], ts)
  end.

Definition gu_body (L : lang) (n' : nat) (ts : list ptok) : pres form :=
  match ts with
  | [] => ParseErr
  | t :: r =>
      match classify (pre_ok L) t with
      | HBool b => Ok (FBool b, r)
      | HAtom a => Ok (FAtom a, r)
      | HPre u => rbind (gu L n' r) (fun '(f, r1) => Ok (apply_uop u f, r1))
      | HLp => rbind (gp L n' r) (fun '(f, r1) => expect_rp f r1)
      | HBad => ParseErr
      end
  end.
Lemma gu_S L n ts : gu L (S n) ts = gu_body L n ts.
Proof. reflexivity. Qed.
Lemma gp_S L n ts :
  gp L (S n) ts = rbind (gu L n ts) (fun '(f, r) => tail (has_ur L) (gu L n) (gchain L n) f r).
Proof. reflexivity. Qed.
Lemma gchain_S L n op ts : gchain L (S n) op ts = chain_step (gu L n) (gchain L n op) op ts.
Proof. reflexivity. Qed.

Definition cs_body (n' : nat) (ts : list ptok) : pres form :=
  match ts with
  | [] => ParseErr
  | t :: r =>
      match classify ctl_s_ok t with
      | HBool b => Ok (FBool b, r)
      | HAtom a => Ok (FAtom a, r)
      | HPre UNot => rbind (cs n' r) (fun '(f, r1) => Ok (FNot f, r1))
      | HPre UA => rbind (cf n' r) (fun '(f, r1) =>
                     if is_path_root f then Ok (FA f, r1) else ParseErr)
      | HPre UE => rbind (cf n' r) (fun '(f, r1) =>
                     if is_path_root f then Ok (FE f, r1) else ParseErr)
      | HPre _ => ParseErr
      | HLp => rbind (cu n' r) (fun '(f, r1) => expect_rp f r1)
      | HBad => ParseErr
      end
  end.
Definition cf_body (n' : nat) (ts : list ptok) : pres form :=
  match ts with
  | [] => ParseErr
  | t :: r =>
      match classify ctl_p_ok t with
      | HPre UX => rbind (cs n' r) (fun '(f, r1) => Ok (FX f, r1))
      | HPre UF => rbind (cs n' r) (fun '(f, r1) => Ok (FF f, r1))
      | HPre UG => rbind (cs n' r) (fun '(f, r1) => Ok (FG f, r1))
      | HLp =>
          rbind (cf n' r) (fun '(f, r1) =>
          rbind (expect_rp f r1) (fun '(f, r2) =>
            if is_path_root f then Ok (f, r2)
            else tail true (cs n') (cchain n') f r2))
      | HBad => ParseErr
      | _ => rbind (cs n' ts) (fun '(f, r1) => tail true (cs n') (cchain n') f r1)
      end
  end.
Lemma cs_S n ts : cs (S n) ts = cs_body n ts.
Proof. reflexivity. Qed.
Lemma cu_S n ts : cu (S n) ts = rbind (cs n ts) (fun '(f, r) => tail false (cs n) (cchain n) f r).
Proof. reflexivity. Qed.
Lemma cchain_S n op ts : cchain (S n) op ts = chain_step (cs n) (cchain n op) op ts.
Proof. reflexivity. Qed.
Lemma cf_S n ts : cf (S n) ts = cf_body n ts.
Proof. reflexivity. Qed.

(* ------------------------------------------------------------------ *)
(** * The infix operator at the head of a token list *)

Lemma strip_prefix_len k : forall w r, strip_prefix k w = Some r ->
  String.length w = String.length k + String.length r.
Proof.
  induction k as [|a k IH]; intros w r H; simpl in H.
  - injection H as H. subst. reflexivity.
  - destruct w as [|b w]; [discriminate|]. destruct (Ascii.eqb a b); [|discriminate].
    simpl. rewrite (IH w r H). reflexivity.
Qed.

Lemma split_kw_len ur w b rest : split_kw ur w = Some (b, rest) ->
  String.length rest < String.length w.
Proof.
  unfold split_kw. intros H.
  destruct (strip_prefix "or" w) as [r1|] eqn:E1.
  { destruct (rest_ok r1); [|discriminate]. injection H as _ H. subst.
    apply strip_prefix_len in E1. simpl in E1. lia. }
  destruct (strip_prefix "and" w) as [r2|] eqn:E2.
  { destruct (rest_ok r2); [|discriminate]. injection H as _ H. subst.
    apply strip_prefix_len in E2. simpl in E2. lia. }
  destruct ur; [|discriminate].
  destruct (strip_prefix "U" w) as [r3|] eqn:E3.
  { destruct (rest_ok r3); [|discriminate]. injection H as _ H. subst.
    apply strip_prefix_len in E3. simpl in E3. lia. }
  destruct (strip_prefix "R" w) as [r4|] eqn:E4; [|discriminate].
  destruct (rest_ok r4); [|discriminate]. injection H as _ H. subst.
  apply strip_prefix_len in E4. simpl in E4. lia.
Qed.

Lemma split_kw_false w b rest : split_kw false w = Some (b, rest) -> b = BOr \/ b = BAnd.
Proof.
  unfold split_kw. intros H.
  destruct (strip_prefix "or" w) as [r1|].
  { destruct (rest_ok r1); [|discriminate]. injection H as H _. auto. }
  destruct (strip_prefix "and" w) as [r2|]; [|discriminate].
  destruct (rest_ok r2); [|discriminate]. injection H as H _. auto.
Qed.

Lemma binop_size ur ts b r : binop ur ts = Some (b, r) -> toks_size r < toks_size ts.
Proof.
  destruct ts as [|t ts]; [discriminate|]. simpl.
  destruct t as [w|s| | |y]; try discriminate.
  - destruct (split_kw ur w) as [[b' rest]|] eqn:E; [|discriminate].
    apply split_kw_len in E.
    destruct rest as [|c rest]; intros H; injection H as _ H; subst r; simpl in *; lia.
  - destruct y; try discriminate; intros H; injection H as _ H; subst r; simpl; lia.
Qed.

Lemma binop_false_kind ts b r : binop false ts = Some (b, r) -> b = BOr \/ b = BAnd \/ b = BImp.
Proof.
  destruct ts as [|t ts]; [discriminate|]. simpl.
  destruct t as [w|s| | |y]; try discriminate.
  - destruct (split_kw false w) as [[b' rest]|] eqn:E; [|discriminate].
    apply split_kw_false in E.
    destruct rest as [|c rest]; intros H; injection H as H _; subst b'; tauto.
  - destruct y; try discriminate; intros H; injection H as H _; subst b; tauto.
Qed.

Lemma binop_or ur ts : binop ur (PWord "or" :: ts) = Some (BOr, ts).
Proof. destruct ur; reflexivity. Qed.
Lemma binop_and ur ts : binop ur (PWord "and" :: ts) = Some (BAnd, ts).
Proof. destruct ur; reflexivity. Qed.
Lemma binop_imp ur ts : binop ur (PSym SImp :: ts) = Some (BImp, ts).
Proof. reflexivity. Qed.
Lemma binop_u ts : binop true (PWord "U" :: ts) = Some (BU, ts).
Proof. reflexivity. Qed.
Lemma binop_r ts : binop true (PWord "R" :: ts) = Some (BR, ts).
Proof. reflexivity. Qed.
Lemma binop_rp ur ts : binop ur (PRp :: ts) = None.
Proof. reflexivity. Qed.
Lemma binop_nil ur : binop ur [] = None.
Proof. reflexivity. Qed.

(* ------------------------------------------------------------------ *)
(** * Results that do not depend on the fuel *)

Definition ext {A B} (F G : A -> result B) : Prop := forall a, F a <> OutOfFuel -> G a = F a.

Lemma rbind_ext {A B} (r1 r2 : result A) (k1 k2 : A -> result B) :
  (r1 <> OutOfFuel -> r2 = r1) -> (forall x, k1 x <> OutOfFuel -> k2 x = k1 x) ->
  rbind r1 k1 <> OutOfFuel -> rbind r2 k2 = rbind r1 k1.
Proof.
  intros H1 H2 H.
  destruct r1 as [a| | | | | |]; try (rewrite H1 by discriminate; reflexivity).
  - rewrite H1 by discriminate. simpl. apply H2. exact H.
  - exfalso. apply H. reflexivity.
Qed.

Lemma expect_rp_nofuel {A} (x : A) ts : expect_rp x ts <> OutOfFuel.
Proof. destruct ts as [|[] ts]; discriminate. Qed.

Lemma tail_ext ur o1 c1 o2 c2 f ts :
  ext o1 o2 -> (forall op, ext (c1 op) (c2 op)) ->
  tail ur o1 c1 f ts <> OutOfFuel -> tail ur o2 c2 f ts = tail ur o1 c1 f ts.
Proof.
  intros Ho Hc. unfold tail.
  destruct (binop ur ts) as [[[] r]|]; try reflexivity; intros H.
  - apply rbind_ext; [apply Ho| |exact H]. intros [g r1] H1.
    apply rbind_ext; [apply Hc| |exact H1]. intros [gs r2] _. reflexivity.
  - apply rbind_ext; [apply Ho| |exact H]. intros [g r1] H1.
    apply rbind_ext; [apply Hc| |exact H1]. intros [gs r2] _. reflexivity.
  - apply rbind_ext; [apply Ho| |exact H]. intros [g r1] _. reflexivity.
  - apply rbind_ext; [apply Ho| |exact H]. intros [g r1] _. reflexivity.
  - apply rbind_ext; [apply Ho| |exact H]. intros [g r1] _. reflexivity.
Qed.

Lemma chain_step_ext o1 c1 o2 c2 op :
  ext o1 o2 -> ext c1 c2 -> ext (chain_step o1 c1 op) (chain_step o2 c2 op).
Proof.
  intros Ho Hc ts. unfold chain_step.
  destruct (binop false ts) as [[op' r]|]; [|reflexivity].
  destruct (bop_eqb op' op); [|reflexivity]. intros H.
  apply rbind_ext; [apply Ho| |exact H]. intros [g r1] H1.
  apply rbind_ext; [apply Hc| |exact H1]. intros [gs r2] _. reflexivity.
Qed.

Lemma g_mono_step L : forall n,
  ext (gu L n) (gu L (S n)) /\ ext (gp L n) (gp L (S n)) /\
  (forall op, ext (gchain L n op) (gchain L (S n) op)).
Proof.
  induction n as [|n (IHu & IHp & IHc)].
  - repeat split; intros; intros ? H; exfalso; apply H; reflexivity.
  - split; [|split].
    + intros ts. rewrite !gu_S. unfold gu_body. destruct ts as [|t r]; [reflexivity|].
      destruct (classify (pre_ok L) t); try reflexivity; intros H.
      * apply rbind_ext; [apply IHu| |exact H]. intros [f r1] _. reflexivity.
      * apply rbind_ext; [apply IHp| |exact H]. intros [f r1] _. reflexivity.
    + intros ts. rewrite !gp_S. intros H.
      apply rbind_ext; [apply IHu| |exact H]. intros [f r] H1.
      apply tail_ext; assumption.
    + intros op ts. rewrite !gchain_S. apply chain_step_ext; [exact IHu|apply IHc].
Qed.

Lemma ext_le {A B} (F : nat -> A -> result B) :
  (forall n, ext (F n) (F (S n))) -> forall n m, n <= m -> ext (F n) (F m).
Proof.
  intros HS n m Hle. induction Hle as [|m Hle IH]; intros a H; [reflexivity|].
  rewrite <- (IH a H). apply HS. rewrite (IH a H). exact H.
Qed.

Lemma gu_mono L n m : n <= m -> ext (gu L n) (gu L m).
Proof. apply ext_le. intros k. apply g_mono_step. Qed.
Lemma gp_mono L n m : n <= m -> ext (gp L n) (gp L m).
Proof. apply ext_le. intros k. apply g_mono_step. Qed.

Lemma c_mono_step : forall n,
  ext (cs n) (cs (S n)) /\ ext (cu n) (cu (S n)) /\
  (forall op, ext (cchain n op) (cchain (S n) op)) /\ ext (cf n) (cf (S n)).
Proof.
  induction n as [|n (IHs & IHu & IHc & IHf)].
  - repeat split; intros; intros ? H; exfalso; apply H; reflexivity.
  - assert (Hs : ext (cs (S n)) (cs (S (S n)))).
    { intros ts. rewrite !cs_S. unfold cs_body. destruct ts as [|t r]; [reflexivity|].
      destruct (classify ctl_s_ok t) as [b|a|[]| |]; try reflexivity; intros H.
      - apply rbind_ext; [apply IHs| |exact H]. intros [f r1] _. reflexivity.
      - apply rbind_ext; [apply IHf| |exact H]. intros [f r1] _. reflexivity.
      - apply rbind_ext; [apply IHf| |exact H]. intros [f r1] _. reflexivity.
      - apply rbind_ext; [apply IHu| |exact H]. intros [f r1] _. reflexivity. }
    assert (Hc : forall op, ext (cchain (S n) op) (cchain (S (S n)) op)).
    { intros op ts. rewrite !cchain_S. apply chain_step_ext; [exact IHs|apply IHc]. }
    split; [exact Hs|]. split; [|split; [exact Hc|]].
    + intros ts. rewrite !cu_S. intros H.
      apply rbind_ext; [apply IHs| |exact H]. intros [f r] H1.
      apply tail_ext; assumption.
    + intros ts. rewrite !cf_S. unfold cf_body. destruct ts as [|t r]; [reflexivity|].
      destruct (classify ctl_p_ok t) as [b|a|[]| |]; try reflexivity; intros H;
        try (apply rbind_ext; [apply IHs| |exact H]; intros [f r1] H1;
             first [reflexivity | apply tail_ext; assumption]).
      apply rbind_ext; [apply IHf| |exact H]. intros [f r1] H1.
      apply rbind_ext; [intros _; reflexivity| |exact H1]. intros [f' r2] H2.
      destruct (is_path_root f'); [reflexivity|]. apply tail_ext; assumption.
Qed.

Lemma cf_mono n m : n <= m -> ext (cf n) (cf m).
Proof. apply ext_le. intros k. apply c_mono_step. Qed.

(* ------------------------------------------------------------------ *)
(** * Totality: the fuel of [parse] suffices, only Ok / ParseErr occur *)

Definition tres {A} (P : A -> Prop) (r : result A) : Prop :=
  match r with Ok x => P x | ParseErr => True | _ => False end.

Lemma tres_bind {A B} (P : A -> Prop) (Q : B -> Prop) (r : result A) (k : A -> result B) :
  tres P r -> (forall x, P x -> tres Q (k x)) -> tres Q (rbind r k).
Proof. destruct r as [a| | | | | |]; simpl; intros H1 H2; try contradiction; auto. Qed.

Lemma tres_weaken {A} (P Q : A -> Prop) (r : result A) :
  tres P r -> (forall x, P x -> Q x) -> tres Q r.
Proof. destruct r as [a| | | | | |]; simpl; intros H1 H2; auto. Qed.

Notation tsz := toks_size.
Definition shorter (ts : list ptok) (x : form * list ptok) : Prop := tsz (snd x) < tsz ts.
Definition shorter_eq {A} (ts : list ptok) (x : A * list ptok) : Prop := tsz (snd x) <= tsz ts.

Lemma tsz_cons t r : tsz r < tsz (t :: r).
Proof. unfold toks_size. simpl. destruct t; simpl; lia. Qed.

Lemma expect_rp_tres f ts : tres (shorter ts) (expect_rp f ts).
Proof.
  destruct ts as [|[] ts]; simpl; try exact I. unfold shorter. simpl. lia.
Qed.

Lemma tail_tres ur operand chain f ts :
  (forall r, tsz r < tsz ts -> tres (shorter r) (operand r)) ->
  (forall op r, tsz r + 1 < tsz ts -> tres (shorter_eq r) (chain op r)) ->
  tres (shorter_eq ts) (tail ur operand chain f ts).
Proof.
  intros Ho Hc. unfold tail.
  destruct (binop ur ts) as [[b r]|] eqn:E; [|simpl; unfold shorter_eq; simpl; lia].
  apply binop_size in E.
  assert (Hbin : forall k : form -> form,
            tres (shorter_eq ts) (rbind (operand r) (fun '(g, r1) => Ok (k g, r1)))).
  { intros k. apply (tres_bind (shorter r)); [apply Ho; exact E|].
    intros [g r1] H1. unfold shorter, shorter_eq in *. simpl in *. lia. }
  assert (Hn : forall k : list form -> form,
            tres (shorter_eq ts) (rbind (operand r) (fun '(g, r1) =>
               rbind (chain b r1) (fun '(gs, r2) => Ok (k (g :: gs), r2))))).
  { intros k. apply (tres_bind (shorter r)); [apply Ho; exact E|].
    intros [g r1] H1. unfold shorter in H1. simpl in H1.
    apply (tres_bind (shorter_eq r1)); [apply Hc; lia|].
    intros [gs r2] H2. unfold shorter_eq in *. simpl in *. lia. }
  destruct b.
  - exact (Hn (fun l => FOr (f :: l))).
  - exact (Hn (fun l => FAnd (f :: l))).
  - exact (Hbin (FImp f)).
  - exact (Hbin (FU f)).
  - exact (Hbin (FR f)).
Qed.

Lemma chain_step_tres operand chain op ts :
  (forall r, tsz r < tsz ts -> tres (shorter r) (operand r)) ->
  (forall r, tsz r + 1 < tsz ts -> tres (shorter_eq r) (chain r)) ->
  tres (shorter_eq ts) (chain_step operand chain op ts).
Proof.
  intros Ho Hc. unfold chain_step.
  destruct (binop false ts) as [[b r]|] eqn:E; [|simpl; unfold shorter_eq; simpl; lia].
  apply binop_size in E.
  destruct (bop_eqb b op); [|simpl; unfold shorter_eq; simpl; lia].
  apply (tres_bind (shorter r)); [apply Ho; exact E|].
  intros [g r1] H1. unfold shorter in H1. simpl in H1.
  apply (tres_bind (shorter_eq r1)); [apply Hc; lia|].
  intros [gs r2] H2. unfold shorter_eq in *. simpl in *. lia.
Qed.

Lemma g_total L : forall n,
  (forall ts, 2 * tsz ts + 1 <= n -> tres (shorter ts) (gu L n ts)) /\
  (forall ts, 2 * tsz ts + 2 <= n -> tres (shorter ts) (gp L n ts)) /\
  (forall op ts, 2 * tsz ts + 1 <= n -> tres (shorter_eq ts) (gchain L n op ts)).
Proof.
  induction n as [|n (IHu & IHp & IHc)].
  - repeat split; intros; lia.
  - split; [|split].
    + intros ts Hn. rewrite gu_S. unfold gu_body. destruct ts as [|t r]; [exact I|].
      assert (Hr := tsz_cons t r).
      destruct (classify (pre_ok L) t); try exact I; try exact Hr.
      * apply (tres_bind (shorter r)); [apply IHu; lia|].
        intros [f r1] H1. unfold shorter in *. simpl in *. lia.
      * apply (tres_bind (shorter r)); [apply IHp; lia|].
        intros [f r1] H1. apply (tres_weaken (shorter r1)); [apply expect_rp_tres|].
        intros [f' r2]. unfold shorter in *. simpl in *. lia.
    + intros ts Hn. rewrite gp_S.
      apply (tres_bind (shorter ts)); [apply IHu; lia|].
      intros [f r] H1. unfold shorter in H1. simpl in H1.
      apply (tres_weaken (shorter_eq r)).
      * apply tail_tres.
        -- intros r' Hr'. apply IHu. lia.
        -- intros op r' Hr'. apply IHc. lia.
      * intros [f' r']. unfold shorter, shorter_eq. simpl. lia.
    + intros op ts Hn. rewrite gchain_S. apply chain_step_tres.
      * intros r Hr. apply IHu. lia.
      * intros r Hr. apply IHc. lia.
Qed.

Lemma c_total : forall n,
  (forall ts, 2 * tsz ts + 1 <= n -> tres (shorter ts) (cs n ts)) /\
  (forall ts, 2 * tsz ts + 2 <= n -> tres (shorter ts) (cu n ts)) /\
  (forall op ts, 2 * tsz ts + 1 <= n -> tres (shorter_eq ts) (cchain n op ts)) /\
  (forall ts, 2 * tsz ts + 2 <= n -> tres (shorter ts) (cf n ts)).
Proof.
  induction n as [|n (IHs & IHu & IHc & IHf)].
  - repeat split; intros; lia.
  - assert (Htail : forall f ts r, 2 * tsz ts + 2 <= S n -> tsz r < tsz ts -> forall ur,
              tres (shorter ts) (tail ur (cs n) (cchain n) f r)).
    { intros f ts r Hn Hr ur. apply (tres_weaken (shorter_eq r)).
      - apply tail_tres.
        + intros r' Hr'. apply IHs. lia.
        + intros op r' Hr'. apply IHc. lia.
      - intros [f' r']. unfold shorter, shorter_eq. simpl. lia. }
    split; [|split; [|split]].
    + intros ts Hn. rewrite cs_S. unfold cs_body. destruct ts as [|t r]; [exact I|].
      assert (Hr := tsz_cons t r).
      destruct (classify ctl_s_ok t) as [b|a|[]| |]; try exact I; try exact Hr.
      * apply (tres_bind (shorter r)); [apply IHs; lia|].
        intros [f r1] H1. unfold shorter in *. simpl in *. lia.
      * apply (tres_bind (shorter r)); [apply IHf; lia|].
        intros [f r1] H1. destruct (is_path_root f); [|exact I].
        unfold shorter in *. simpl in *. lia.
      * apply (tres_bind (shorter r)); [apply IHf; lia|].
        intros [f r1] H1. destruct (is_path_root f); [|exact I].
        unfold shorter in *. simpl in *. lia.
      * apply (tres_bind (shorter r)); [apply IHu; lia|].
        intros [f r1] H1. apply (tres_weaken (shorter r1)); [apply expect_rp_tres|].
        intros [f' r2]. unfold shorter in *. simpl in *. lia.
    + intros ts Hn. rewrite cu_S.
      apply (tres_bind (shorter ts)); [apply IHs; lia|].
      intros [f r] H1. unfold shorter in H1. simpl in H1. apply Htail; assumption.
    + intros op ts Hn. rewrite cchain_S. apply chain_step_tres.
      * intros r Hr. apply IHs. lia.
      * intros r Hr. apply IHc. lia.
    + intros ts Hn. rewrite cf_S. unfold cf_body. destruct ts as [|t r]; [exact I|].
      assert (Hr := tsz_cons t r).
      assert (Hdef : tres (shorter (t :: r))
                (rbind (cs n (t :: r)) (fun '(f, r1) => tail true (cs n) (cchain n) f r1))).
      { apply (tres_bind (shorter (t :: r))); [apply IHs; lia|].
        intros [f r1] H1. unfold shorter in H1. simpl in H1. apply Htail; assumption. }
      assert (Hun : forall k : form -> form,
                tres (shorter (t :: r)) (rbind (cs n r) (fun '(f, r1) => Ok (k f, r1)))).
      { intros k. apply (tres_bind (shorter r)); [apply IHs; lia|].
        intros [f r1] H1. unfold shorter in *. simpl in *. lia. }
      destruct (classify ctl_p_ok t) as [b|a|[]| |]; try exact I; try exact Hdef.
      * exact (Hun FX).
      * exact (Hun FF).
      * exact (Hun FG).
      * apply (tres_bind (shorter r)); [apply IHf; lia|].
        intros [f r1] H1. unfold shorter in H1. simpl in H1.
        apply (tres_bind (shorter r1)); [apply expect_rp_tres|].
        intros [f' r2] H2. unfold shorter in H2. simpl in H2.
        destruct (is_path_root f').
        -- unfold shorter. simpl. lia.
        -- apply Htail; [exact Hn|lia].
Qed.

Lemma finish_tres P (r : pres form) : tres P r -> finish r = ParseErr \/ exists f, finish r = Ok f.
Proof.
  destruct r as [[f [|t ts]]| | | | | |]; simpl; intros H; try contradiction; eauto.
Qed.

Theorem parse_total : forall L ts, parse L ts = ParseErr \/ exists f, parse L ts = Ok f.
Proof.
  intros L ts. unfold parse, parse_fuel.
  destruct L.
  - apply (finish_tres (shorter ts)). apply g_total. lia.
  - apply (finish_tres (shorter ts)). apply g_total. lia.
  - apply (finish_tres (shorter ts)). apply c_total. lia.
  - assert (Hgp : finish (gp LTL (2 * tsz ts + 2) ts) = ParseErr \/
                  exists f, finish (gp LTL (2 * tsz ts + 2) ts) = Ok f).
    { apply (finish_tres (shorter ts)). apply g_total. lia. }
    destruct ts as [|[w|s| | |y] r]; try exact Hgp.
    destruct (w =? "A"); [|exact Hgp].
    apply (finish_tres (shorter r)).
    apply (tres_bind (shorter r)).
    + apply g_total. assert (Hr := tsz_cons (PWord w) r). lia.
    + intros [f r1] H1. exact H1.
Qed.

Theorem parse_string_total : forall L s,
  parse_string L s = ParseErr \/ exists f, parse_string L s = Ok f.
Proof.
  intros L s. unfold parse_string. destruct (lex s) as [ts|]; [apply parse_total|auto].
Qed.

(* ------------------------------------------------------------------ *)
(** * C10: every accepted input yields a formula of the parser's logic *)

Definition ires {A} (P : A -> Prop) (r : result A) : Prop :=
  match r with Ok x => P x | _ => True end.

Lemma ires_bind {A B} (P : A -> Prop) (Q : B -> Prop) (r : result A) (k : A -> result B) :
  ires P r -> (forall x, P x -> ires Q (k x)) -> ires Q (rbind r k).
Proof. destruct r as [a| | | | | |]; simpl; intros H1 H2; auto. Qed.

Lemma expect_rp_ires (f : form) ts : ires (fun x => fst x = f) (expect_rp f ts).
Proof. destruct ts as [|[] ts]; simpl; auto. Qed.

Lemma classify_pre ok t u : classify ok t = HPre u -> ok UNot = true -> ok u = true.
Proof.
  intros H Hn. destruct t as [w|s| | |y]; simpl in H; try discriminate.
  - destruct (w =? "true"); [discriminate|]. destruct (w =? "false"); [discriminate|].
    destruct (uop_of_word w) as [u'|]; [|discriminate].
    destruct (ok u') eqn:E; [|discriminate]. injection H as H. subst. exact E.
  - destruct y; try discriminate. injection H as H. subst. exact Hn.
Qed.

Section TailInv.
  Variables (S Q : form -> Prop).
  Variables (operand : list ptok -> pres form) (chain : bop -> list ptok -> pres (list form)).
  Hypothesis Hop : forall r, ires (fun x => S (fst x)) (operand r).
  Hypothesis Hch : forall op r, ires (fun x => Forall S (fst x)) (chain op r).

  Lemma tail_ires ur f ts :
    S f -> Q f ->
    (forall l, Forall S l -> 2 <= List.length l -> Q (FOr l) /\ Q (FAnd l)) ->
    (forall g h, S g -> S h -> Q (FImp g h)) ->
    (ur = true -> forall g h, S g -> S h -> Q (FU g h) /\ Q (FR g h)) ->
    ires (fun x => Q (fst x)) (tail ur operand chain f ts).
  Proof.
    intros Sf Qf Hn Hi Hur. unfold tail.
    destruct (binop ur ts) as [[b r]|] eqn:E; [|exact Qf].
    assert (Hb : ur = true \/ (b = BOr \/ b = BAnd \/ b = BImp)).
    { destruct ur; [left; reflexivity|right; exact (binop_false_kind _ _ _ E)]. }
    assert (Hnary : forall k : list form -> form,
              (forall l, Forall S l -> 2 <= List.length l -> Q (k l)) ->
              ires (fun x => Q (fst x)) (rbind (operand r) (fun '(g, r1) =>
                 rbind (chain b r1) (fun '(gs, r2) => Ok (k (f :: g :: gs), r2))))).
    { intros k Hk. apply (ires_bind (fun x => S (fst x))); [apply Hop|].
      intros [g r1] Sg. apply (ires_bind (fun x => Forall S (fst x))); [apply Hch|].
      intros [gs r2] Sgs. simpl in *. apply Hk; [|simpl; lia].
      constructor; [exact Sf|constructor; assumption]. }
    assert (Hbin : forall k : form -> form -> form,
              (forall g h, S g -> S h -> Q (k g h)) ->
              ires (fun x => Q (fst x)) (rbind (operand r) (fun '(g, r1) => Ok (k f g, r1)))).
    { intros k Hk. apply (ires_bind (fun x => S (fst x))); [apply Hop|].
      intros [g r1] Sg. simpl in *. apply Hk; assumption. }
    destruct b.
    - apply (Hnary FOr). intros l H1 H2. apply Hn; assumption.
    - apply (Hnary FAnd). intros l H1 H2. apply Hn; assumption.
    - apply (Hbin FImp). exact Hi.
    - destruct Hb as [Hb|[Hb|[Hb|Hb]]]; try discriminate Hb.
      apply (Hbin FU). intros g h Sg Sh. apply (Hur Hb); assumption.
    - destruct Hb as [Hb|[Hb|[Hb|Hb]]]; try discriminate Hb.
      apply (Hbin FR). intros g h Sg Sh. apply (Hur Hb); assumption.
  Qed.
End TailInv.

Lemma chain_step_ires (S : form -> Prop) operand chain op ts :
  (forall r, ires (fun x => S (fst x)) (operand r)) ->
  (forall r, ires (fun x => Forall S (fst x)) (chain r)) ->
  ires (fun x => Forall S (fst x)) (chain_step operand chain op ts).
Proof.
  intros Hop Hch. unfold chain_step.
  destruct (binop false ts) as [[b r]|]; [|constructor].
  destruct (bop_eqb b op); [|constructor].
  apply (ires_bind (fun x => S (fst x))); [apply Hop|].
  intros [g r1] Sg. apply (ires_bind (fun x => Forall S (fst x))); [apply Hch|].
  intros [gs r2] Sgs. simpl in *. constructor; assumption.
Qed.

Lemma Forall_forallb {A} (p : A -> bool) l : Forall (fun x => p x = true) l -> forallb p l = true.
Proof. induction 1 as [|x l Hx _ IH]; simpl; [reflexivity|]. rewrite Hx, IH. reflexivity. Qed.

(* PL, CTL*, LTL *)
Definition std_inv (L : lang) (f : form) : bool :=
  match L with PL => pl_ok f | LTL => ltl_path f | _ => true end.
Definition inv (L : lang) (f : form) : Prop := std_inv L f && arity_ok f = true.

Lemma forallb_and2 (p q : form -> bool) l :
  Forall (fun x => p x && q x = true) l -> forallb p l = true /\ forallb q l = true.
Proof.
  induction 1 as [|x l Hx _ [IH1 IH2]]; simpl; [auto|].
  apply andb_true_iff in Hx. destruct Hx as [H1 H2]. rewrite H1, H2, IH1, IH2. auto.
Qed.

Lemma arity_or l : arity_ok (FOr l) = ((2 <=? List.length l)%nat && forallb arity_ok l).
Proof. reflexivity. Qed.
Lemma arity_and l : arity_ok (FAnd l) = ((2 <=? List.length l)%nat && forallb arity_ok l).
Proof. reflexivity. Qed.

Lemma inv_nary L l : Forall (inv L) l -> 2 <= List.length l -> inv L (FOr l) /\ inv L (FAnd l).
Proof.
  intros H Hl. destruct (forallb_and2 _ _ _ H) as [H1 H2].
  assert (H3 : (2 <=? List.length l)%nat = true) by (apply Nat.leb_le; exact Hl).
  unfold inv. rewrite arity_or, arity_and, H2, H3.
  destruct L; simpl; try (split; reflexivity);
    [change (forallb pl_ok l = true) in H1 | change (forallb ltl_path l = true) in H1];
    rewrite H1; auto.
Qed.
Lemma inv_imp L g h : inv L g -> inv L h -> inv L (FImp g h).
Proof.
  unfold inv. intros H1 H2. apply andb_true_iff in H1. apply andb_true_iff in H2.
  destruct H1 as [A1 B1], H2 as [A2 B2]. simpl arity_ok. rewrite B1, B2.
  destruct L; simpl in *; rewrite ?A1, ?A2; reflexivity.
Qed.
Lemma inv_ur L g h : has_ur L = true -> inv L g -> inv L h -> inv L (FU g h) /\ inv L (FR g h).
Proof.
  unfold inv. intros Hu H1 H2. apply andb_true_iff in H1. apply andb_true_iff in H2.
  destruct H1 as [A1 B1], H2 as [A2 B2]. simpl arity_ok. rewrite B1, B2.
  destruct L; simpl in *; try discriminate Hu; rewrite ?A1, ?A2; auto.
Qed.
Lemma inv_uop L u f : pre_ok L u = true -> inv L f -> inv L (apply_uop u f).
Proof.
  unfold inv. intros Hu H1. apply andb_true_iff in H1. destruct H1 as [A1 B1].
  destruct L, u; simpl in *; try discriminate Hu; rewrite ?A1, ?B1; reflexivity.
Qed.
Lemma inv_leaf L : (forall b, inv L (FBool b)) /\ (forall a, inv L (FAtom a)).
Proof. split; intros; destruct L; reflexivity. Qed.

Lemma g_member L : forall n,
  (forall ts, ires (fun x => inv L (fst x)) (gu L n ts)) /\
  (forall ts, ires (fun x => inv L (fst x)) (gp L n ts)) /\
  (forall op ts, ires (fun x => Forall (inv L) (fst x)) (gchain L n op ts)).
Proof.
  induction n as [|n (IHu & IHp & IHc)].
  - repeat split; intros; exact I.
  - split; [|split].
    + intros ts. rewrite gu_S. unfold gu_body. destruct ts as [|t r]; [exact I|].
      destruct (classify (pre_ok L) t) as [b|a|u| |] eqn:Ec; try exact I.
      * apply inv_leaf.
      * apply inv_leaf.
      * apply (ires_bind (fun x => inv L (fst x))); [apply IHu|].
        intros [f r1] Hf. simpl in *. apply inv_uop; [|exact Hf].
        apply (classify_pre _ _ _ Ec). destruct L; reflexivity.
      * apply (ires_bind (fun x => inv L (fst x))); [apply IHp|].
        intros [f r1] Hf. simpl in Hf.
        destruct r1 as [|[] r1]; simpl; auto.
    + intros ts. rewrite gp_S.
      apply (ires_bind (fun x => inv L (fst x))); [apply IHu|].
      intros [f r] Hf. simpl in Hf.
      apply (tail_ires (inv L) (inv L)); auto.
      * apply inv_nary.
      * apply inv_imp.
      * intros Hu g h. apply inv_ur. exact Hu.
    + intros op ts. rewrite gchain_S. apply chain_step_ires; [exact IHu|apply IHc].
Qed.

(* CTL *)
Definition sinv (f : form) : Prop := ctl_state f && arity_ok f = true.
Definition finv (f : form) : Prop :=
  (if is_path_root f then ctl_path f else ctl_state f) && arity_ok f = true.

Lemma ctl_state_not_path_root f : ctl_state f = true -> is_path_root f = false.
Proof. destruct f; simpl; try discriminate; reflexivity. Qed.
Lemma ctl_state_A f : ctl_state (FA f) = ctl_path f.
Proof. destruct f; reflexivity. Qed.
Lemma ctl_state_E f : ctl_state (FE f) = ctl_path f.
Proof. destruct f; reflexivity. Qed.

Lemma sinv_finv f : sinv f -> finv f.
Proof.
  unfold sinv, finv. intros H. apply andb_true_iff in H. destruct H as [H1 H2].
  rewrite (ctl_state_not_path_root f H1), H1, H2. reflexivity.
Qed.
Lemma sinv_nary l : Forall sinv l -> 2 <= List.length l -> sinv (FOr l) /\ sinv (FAnd l).
Proof.
  intros H Hl. destruct (forallb_and2 _ _ _ H) as [H1 H2].
  assert (H3 : (2 <=? List.length l)%nat = true) by (apply Nat.leb_le; exact Hl).
  unfold sinv. rewrite arity_or, arity_and, H2, H3. simpl. rewrite H1. auto.
Qed.
Lemma sinv_imp g h : sinv g -> sinv h -> sinv (FImp g h).
Proof.
  unfold sinv. intros H1 H2. apply andb_true_iff in H1. apply andb_true_iff in H2.
  destruct H1 as [A1 B1], H2 as [A2 B2]. simpl. rewrite A1, A2, B1, B2. reflexivity.
Qed.
Lemma finv_ur g h : sinv g -> sinv h -> finv (FU g h) /\ finv (FR g h).
Proof.
  unfold sinv, finv. intros H1 H2. apply andb_true_iff in H1. apply andb_true_iff in H2.
  destruct H1 as [A1 B1], H2 as [A2 B2]. simpl. rewrite A1, A2, B1, B2. auto.
Qed.
Lemma finv_un g : sinv g -> finv (FX g) /\ finv (FF g) /\ finv (FG g).
Proof. unfold sinv, finv. simpl. auto. Qed.
Lemma sinv_quant f : finv f -> is_path_root f = true -> sinv (FA f) /\ sinv (FE f).
Proof.
  unfold sinv, finv. intros H Hr. rewrite Hr in H.
  rewrite ctl_state_A, ctl_state_E. simpl arity_ok. auto.
Qed.
Lemma finv_sinv f : finv f -> is_path_root f = false -> sinv f.
Proof. unfold sinv, finv. intros H Hr. rewrite Hr in H. exact H. Qed.

Lemma c_member : forall n,
  (forall ts, ires (fun x => sinv (fst x)) (cs n ts)) /\
  (forall ts, ires (fun x => sinv (fst x)) (cu n ts)) /\
  (forall op ts, ires (fun x => Forall sinv (fst x)) (cchain n op ts)) /\
  (forall ts, ires (fun x => finv (fst x)) (cf n ts)).
Proof.
  induction n as [|n (IHs & IHu & IHc & IHf)].
  - repeat split; intros; exact I.
  - assert (Htail : forall f r, sinv f ->
              ires (fun x => finv (fst x)) (tail true (cs n) (cchain n) f r)).
    { intros f r Hf. apply (tail_ires sinv finv); auto.
      - apply sinv_finv. exact Hf.
      - intros l H1 H2. destruct (sinv_nary l H1 H2). split; apply sinv_finv; assumption.
      - intros g h H1 H2. apply sinv_finv. apply sinv_imp; assumption.
      - intros _ g h. apply finv_ur. }
    split; [|split; [|split]].
    + intros ts. rewrite cs_S. unfold cs_body. destruct ts as [|t r]; [exact I|].
      destruct (classify ctl_s_ok t) as [b|a|[]| |]; try exact I; try reflexivity.
      * apply (ires_bind (fun x => sinv (fst x))); [apply IHs|].
        intros [f r1] Hf. exact Hf.
      * apply (ires_bind (fun x => finv (fst x))); [apply IHf|].
        intros [f r1] Hf. simpl in Hf. destruct (is_path_root f) eqn:E; [|exact I].
        apply (sinv_quant f Hf E).
      * apply (ires_bind (fun x => finv (fst x))); [apply IHf|].
        intros [f r1] Hf. simpl in Hf. destruct (is_path_root f) eqn:E; [|exact I].
        apply (sinv_quant f Hf E).
      * apply (ires_bind (fun x => sinv (fst x))); [apply IHu|].
        intros [f r1] Hf. simpl in Hf. destruct r1 as [|[] r1]; simpl; auto.
    + intros ts. rewrite cu_S.
      apply (ires_bind (fun x => sinv (fst x))); [apply IHs|].
      intros [f r] Hf. simpl in Hf.
      apply (tail_ires sinv sinv); auto.
      * apply sinv_nary.
      * apply sinv_imp.
    + intros op ts. rewrite cchain_S. apply chain_step_ires; [exact IHs|apply IHc].
    + intros ts. rewrite cf_S. unfold cf_body. destruct ts as [|t r]; [exact I|].
      assert (Hdef : ires (fun x => finv (fst x))
                (rbind (cs n (t :: r)) (fun '(f, r1) => tail true (cs n) (cchain n) f r1))).
      { apply (ires_bind (fun x => sinv (fst x))); [apply IHs|].
        intros [f r1] Hf. apply Htail. exact Hf. }
      destruct (classify ctl_p_ok t) as [b|a|[]| |]; try exact I; try exact Hdef.
      * apply (ires_bind (fun x => sinv (fst x))); [apply IHs|].
        intros [f r1] Hf. apply (finv_un f Hf).
      * apply (ires_bind (fun x => sinv (fst x))); [apply IHs|].
        intros [f r1] Hf. apply (finv_un f Hf).
      * apply (ires_bind (fun x => sinv (fst x))); [apply IHs|].
        intros [f r1] Hf. apply (finv_un f Hf).
      * apply (ires_bind (fun x => finv (fst x))); [apply IHf|].
        intros [f r1] Hf. simpl in Hf.
        apply (ires_bind (fun x => fst x = f)); [apply expect_rp_ires|].
        intros [f' r2] Ef. simpl in Ef. subst f'.
        destruct (is_path_root f) eqn:E; [exact Hf|].
        apply Htail. exact (finv_sinv f Hf E).
Qed.

Lemma finish_ok (r : pres form) f : finish r = Ok f -> r = Ok (f, []).
Proof.
  destruct r as [[f' [|t ts]]| | | | | |]; simpl; intros H; try discriminate.
  injection H as H. subst. reflexivity.
Qed.

Lemma inv_member L f : L <> CTL -> inv L f -> member L f = true /\ arity_ok f = true.
Proof.
  unfold inv. intros HL H. apply andb_true_iff in H. destruct H as [H1 H2].
  split; [|exact H2]. destruct L; simpl in *; try congruence. rewrite H1. reflexivity.
Qed.

Theorem parse_member : forall L ts f, parse L ts = Ok f -> member L f = true /\ arity_ok f = true.
Proof.
  intros L ts f H. unfold parse in H.
  assert (Hgp : forall L' n, L' <> CTL -> finish (gp L' n ts) = Ok f ->
                member L' f = true /\ arity_ok f = true).
  { intros L' n HL' H'. apply finish_ok in H'.
    assert (Hi := proj1 (proj2 (g_member L' n)) ts). rewrite H' in Hi.
    exact (inv_member L' f HL' Hi). }
  destruct L.
  - apply (Hgp PL _ ltac:(discriminate) H).
  - apply (Hgp CTLS _ ltac:(discriminate) H).
  - apply finish_ok in H.
    assert (Hi := proj2 (proj2 (proj2 (c_member (parse_fuel ts)))) ts). rewrite H in Hi.
    unfold finv in Hi. simpl in Hi. apply andb_true_iff in Hi. destruct Hi as [H1 H2].
    split; [|exact H2]. simpl. destruct (is_path_root f); rewrite H1; auto using orb_true_r.
  - assert (Hdef := Hgp LTL (parse_fuel ts) ltac:(discriminate)).
    destruct ts as [|[w|s| | |y] r]; try (apply Hdef; exact H).
    destruct (w =? "A"); [|apply Hdef; exact H].
    apply finish_ok in H.
    destruct (gu LTL (parse_fuel (PWord w :: r)) r) as [[g r1]| | | | | |] eqn:E; try discriminate H.
    simpl in H. injection H as H1 H2. subst.
    assert (Hi := proj1 (g_member LTL (parse_fuel (PWord w :: r))) r). rewrite E in Hi.
    unfold inv in Hi. simpl in Hi. apply andb_true_iff in Hi. destruct Hi as [A1 A2].
    simpl. auto.
Qed.

Theorem C10_member : forall L s f,
  parse_string L s = Ok f -> member L f = true /\ arity_ok f = true.
Proof.
  intros L s f H. unfold parse_string in H. destruct (lex s) as [ts|]; [|discriminate].
  exact (parse_member L ts f H).
Qed.

(* ------------------------------------------------------------------ *)
(** * Parsing the tokens of a printed formula: generic part *)

Lemma tail_or ur operand chain x ts g r1 gs r2 :
  operand ts = Ok (g, r1) -> chain BOr r1 = Ok (gs, r2) ->
  tail ur operand chain x (PWord "or" :: ts) = Ok (FOr (x :: g :: gs), r2).
Proof. intros H1 H2. unfold tail. rewrite binop_or, H1. cbn [rbind]. rewrite H2. reflexivity. Qed.
Lemma tail_and ur operand chain x ts g r1 gs r2 :
  operand ts = Ok (g, r1) -> chain BAnd r1 = Ok (gs, r2) ->
  tail ur operand chain x (PWord "and" :: ts) = Ok (FAnd (x :: g :: gs), r2).
Proof. intros H1 H2. unfold tail. rewrite binop_and, H1. cbn [rbind]. rewrite H2. reflexivity. Qed.
Lemma tail_imp ur operand chain x ts g r1 :
  operand ts = Ok (g, r1) -> tail ur operand chain x (PSym SImp :: ts) = Ok (FImp x g, r1).
Proof. intros H1. unfold tail. rewrite binop_imp, H1. reflexivity. Qed.
Lemma tail_u operand chain x ts g r1 :
  operand ts = Ok (g, r1) -> tail true operand chain x (PWord "U" :: ts) = Ok (FU x g, r1).
Proof. intros H1. unfold tail. rewrite binop_u, H1. reflexivity. Qed.
Lemma tail_r operand chain x ts g r1 :
  operand ts = Ok (g, r1) -> tail true operand chain x (PWord "R" :: ts) = Ok (FR x g, r1).
Proof. intros H1. unfold tail. rewrite binop_r, H1. reflexivity. Qed.
Lemma tail_rp ur operand chain x ts : tail ur operand chain x (PRp :: ts) = Ok (x, PRp :: ts).
Proof. reflexivity. Qed.
Lemma tail_nil ur operand chain x : tail ur operand chain x [] = Ok (x, []).
Proof. reflexivity. Qed.

Section Eval.
  Variable ur : bool.
  Variables U GP : nat -> list ptok -> pres form.
  Variable CH : nat -> bop -> list ptok -> pres (list form).
  Hypothesis CH_S : forall n op ts, CH (S n) op ts = chain_step (U n) (CH n op) op ts.
  Hypothesis GP_S : forall n ts,
    GP (S n) ts = rbind (U n ts) (fun '(f, r) => tail ur (U n) (CH n) f r).
  Hypothesis U_lp : forall n ts,
    U (S n) (PLp :: ts) = rbind (GP n ts) (fun '(f, r1) => expect_rp f r1).

  (* a printed [f] in front of anything is read as [f] *)
  Definition PU (f : form) : Prop :=
    exists n0, forall n, n0 <= n -> forall r, U n (toks f ++ r)%list = Ok (f, r).

  Lemma chain_eval sep op :
    (forall ts, binop false (sep :: ts) = Some (op, ts)) -> bop_eqb op op = true ->
    forall l, Forall PU l -> exists n0, forall n, n0 <= n -> forall r,
      CH n op (tchain sep (map toks l) ++ PRp :: r)%list = Ok (l, PRp :: r).
  Proof.
    intros Hsep Hop l HF. induction HF as [|z l [nz Hz] _ [nl Hl]].
    - exists 1. intros [|n] Hn r; [lia|]. rewrite CH_S. reflexivity.
    - exists (S (Nat.max nz nl)). intros [|n] Hn r; [lia|]. rewrite CH_S.
      cbn [map tchain app]. rewrite <- app_assoc. unfold chain_step.
      rewrite Hsep, Hop, Hz by lia. cbn [rbind]. rewrite Hl by lia. reflexivity.
  Qed.

  Lemma gp_or x y l : PU x -> PU y -> Forall PU l -> exists n0, forall n, n0 <= n -> forall r,
    GP n (toks x ++ PWord "or" :: toks y ++ tchain (PWord "or") (map toks l) ++ PRp :: r)%list
    = Ok (FOr (x :: y :: l), PRp :: r).
  Proof.
    intros [nx Hx] [ny Hy] Hl.
    destruct (chain_eval (PWord "or") BOr (fun ts => eq_refl) eq_refl l Hl) as [nl Hl'].
    exists (S (Nat.max nx (Nat.max ny nl))). intros [|n] Hn r; [lia|].
    rewrite GP_S, Hx by lia. cbn [rbind].
    eapply tail_or; [apply Hy; lia|apply Hl'; lia].
  Qed.

  Lemma gp_and x y l : PU x -> PU y -> Forall PU l -> exists n0, forall n, n0 <= n -> forall r,
    GP n (toks x ++ PWord "and" :: toks y ++ tchain (PWord "and") (map toks l) ++ PRp :: r)%list
    = Ok (FAnd (x :: y :: l), PRp :: r).
  Proof.
    intros [nx Hx] [ny Hy] Hl.
    destruct (chain_eval (PWord "and") BAnd (fun ts => eq_refl) eq_refl l Hl) as [nl Hl'].
    exists (S (Nat.max nx (Nat.max ny nl))). intros [|n] Hn r; [lia|].
    rewrite GP_S, Hx by lia. cbn [rbind].
    eapply tail_and; [apply Hy; lia|apply Hl'; lia].
  Qed.

  Lemma gp_bin (sep : ptok) (k : form -> form -> form) :
    (forall operand chain x ts g r1, operand ts = Ok (g, r1) ->
        tail ur operand chain x (sep :: ts) = Ok (k x g, r1)) ->
    forall x y, PU x -> PU y -> exists n0, forall n, n0 <= n -> forall r,
      GP n (toks x ++ sep :: toks y ++ PRp :: r)%list = Ok (k x y, PRp :: r).
  Proof.
    intros Ht x y [nx Hx] [ny Hy].
    exists (S (Nat.max nx ny)). intros [|n] Hn r; [lia|].
    rewrite GP_S, Hx by lia. cbn [rbind]. apply Ht. apply Hy. lia.
  Qed.

  Lemma gp_single f : PU f -> exists n0, forall n, n0 <= n ->
    (forall r, GP n (toks f ++ PRp :: r)%list = Ok (f, PRp :: r)) /\ GP n (toks f) = Ok (f, []).
  Proof.
    intros [nf Hf]. exists (S nf). intros [|n] Hn; [lia|]. split.
    - intros r. rewrite GP_S, Hf by lia. reflexivity.
    - rewrite GP_S. rewrite <- (app_nil_r (toks f)) at 1. rewrite Hf by lia. reflexivity.
  Qed.

  Lemma u_paren_eq n ts f r : GP n ts = Ok (f, PRp :: r) -> U (S n) (PLp :: ts) = Ok (f, r).
  Proof. intros H. rewrite U_lp, H. reflexivity. Qed.

  Lemma pu_paren f : PU f -> exists n0, forall n, n0 <= n -> forall r,
    U n (PLp :: toks f ++ PRp :: r)%list = Ok (f, r).
  Proof.
    intros Hf. destruct (gp_single f Hf) as [n0 H0].
    exists (S n0). intros [|n] Hn r; [lia|]. apply u_paren_eq. apply H0. lia.
  Qed.

  Lemma pu_or x y l : PU x -> PU y -> Forall PU l -> PU (FOr (x :: y :: l)).
  Proof.
    intros Hx Hy Hl. destruct (gp_or x y l Hx Hy Hl) as [n0 H0].
    exists (S n0). intros [|n] Hn r; [lia|]. rewrite tk_or. apply u_paren_eq. apply H0. lia.
  Qed.
  Lemma pu_and x y l : PU x -> PU y -> Forall PU l -> PU (FAnd (x :: y :: l)).
  Proof.
    intros Hx Hy Hl. destruct (gp_and x y l Hx Hy Hl) as [n0 H0].
    exists (S n0). intros [|n] Hn r; [lia|]. rewrite tk_and. apply u_paren_eq. apply H0. lia.
  Qed.
  Lemma pu_imp x y : PU x -> PU y -> PU (FImp x y).
  Proof.
    intros Hx Hy.
    destruct (gp_bin (PSym SImp) FImp (tail_imp ur) x y Hx Hy) as [n0 H0].
    exists (S n0). intros [|n] Hn r; [lia|]. rewrite tk_imp. apply u_paren_eq. apply H0. lia.
  Qed.
  Lemma pu_u x y : ur = true -> PU x -> PU y -> PU (FU x y).
  Proof.
    intros Hur Hx Hy.
    assert (Ht : forall operand chain x ts g r1, operand ts = Ok (g, r1) ->
                 tail ur operand chain x (PWord "U" :: ts) = Ok (FU x g, r1))
      by (rewrite Hur; exact tail_u).
    destruct (gp_bin (PWord "U") FU Ht x y Hx Hy) as [n0 H0].
    exists (S n0). intros [|n] Hn r; [lia|]. rewrite tk_u. apply u_paren_eq. apply H0. lia.
  Qed.
  Lemma pu_r x y : ur = true -> PU x -> PU y -> PU (FR x y).
  Proof.
    intros Hur Hx Hy.
    assert (Ht : forall operand chain x ts g r1, operand ts = Ok (g, r1) ->
                 tail ur operand chain x (PWord "R" :: ts) = Ok (FR x g, r1))
      by (rewrite Hur; exact tail_r).
    destruct (gp_bin (PWord "R") FR Ht x y Hx Hy) as [n0 H0].
    exists (S n0). intros [|n] Hn r; [lia|]. rewrite tk_r. apply u_paren_eq. apply H0. lia.
  Qed.
End Eval.

(* ------------------------------------------------------------------ *)
(** * Round trip for PL, CTL*, LTL *)

Lemma reserved_false a : reserved a = false ->
  (a =? "true") = false /\ (a =? "false") = false /\ (a =? "not") = false /\
  (a =? "A") = false /\ (a =? "E") = false /\ (a =? "X") = false /\
  (a =? "F") = false /\ (a =? "G") = false.
Proof.
  unfold reserved, mema. cbn [existsb]. intros H.
  repeat (apply orb_false_iff in H; destruct H as [? H]). repeat split; assumption.
Qed.

Lemma classify_atom ok a : reserved a = false -> classify ok (PWord a) = HAtom a.
Proof.
  intros H. destruct (reserved_false a H) as (H1 & H2 & H3 & H4 & H5 & H6 & H7 & H8).
  unfold classify, uop_of_word. rewrite H1, H2, H3, H4, H5, H6, H7, H8. reflexivity.
Qed.

Lemma classify_kw ok w u :
  uop_of_word w = Some u -> (w =? "true") = false -> (w =? "false") = false -> ok u = true ->
  classify ok (PWord w) = HPre u.
Proof. intros H1 H2 H3 H4. unfold classify. rewrite H1, H2, H3, H4. reflexivity. Qed.

Lemma gu_lp L n ts : gu L (S n) (PLp :: ts) = rbind (gp L n ts) (fun '(f, r1) => expect_rp f r1).
Proof. reflexivity. Qed.

Lemma gu_pre_ok L n w u ts f r :
  classify (pre_ok L) (PWord w) = HPre u -> gu L n ts = Ok (f, r) ->
  gu L (S n) (PWord w :: ts) = Ok (apply_uop u f, r).
Proof. intros H1 H2. rewrite gu_S. unfold gu_body. rewrite H1, H2. reflexivity. Qed.

Definition GU (L : lang) : form -> Prop := PU (gu L).

Lemma std_inv_un L u g : L <> CTL -> std_inv L (apply_uop u g) = true ->
  pre_ok L u = true /\ std_inv L g = true.
Proof. intros HL. destruct L, u; simpl; try discriminate; try congruence; auto. Qed.
Lemma std_inv_bin L g h : std_inv L (FImp g h) = true -> std_inv L g = true /\ std_inv L h = true.
Proof. destruct L; simpl; auto; intros H; apply andb_true_iff in H; exact H. Qed.
Lemma std_inv_ur L g h : L <> CTL -> std_inv L (FU g h) = true \/ std_inv L (FR g h) = true ->
  has_ur L = true /\ std_inv L g = true /\ std_inv L h = true.
Proof.
  intros HL. destruct L; simpl; try congruence; auto.
  - intros [H|H]; discriminate H.
  - intros [H|H]; apply andb_true_iff in H; tauto.
Qed.
Lemma std_inv_nary L fs : std_inv L (FOr fs) = true \/ std_inv L (FAnd fs) = true ->
  Forall (fun f => std_inv L f = true) fs.
Proof.
  destruct L; simpl; intros H; apply Forall_forall; intros x Hx; try reflexivity.
  - assert (H' : forallb pl_ok fs = true) by (destruct H; assumption).
    exact (proj1 (forallb_forall _ _) H' x Hx).
  - assert (H' : forallb ltl_path fs = true) by (destruct H; assumption).
    exact (proj1 (forallb_forall _ _) H' x Hx).
Qed.

Lemma Forall_mp2 (A B : form -> bool) (P : form -> Prop) l :
  Forall (fun f => A f = true -> B f = true -> P f) l ->
  Forall (fun f => A f = true) l -> forallb B l = true -> Forall P l.
Proof.
  induction 1 as [|x l Hx _ IH]; intros HA HB; [constructor|].
  inversion HA as [|? ? Ax HA']; subst. simpl in HB. apply andb_true_iff in HB.
  destruct HB as [Bx HB']. constructor; [exact (Hx Ax Bx)|exact (IH HA' HB')].
Qed.

Ltac gu_unary L w u tk IH HL Hinv Hof :=
  let Hp := fresh "Hp" in let Hg := fresh "Hg" in let n0 := fresh "n0" in
  let H0 := fresh "H0" in let n := fresh "n" in let Hn := fresh "Hn" in let r := fresh "r" in
  destruct (std_inv_un L u _ HL Hinv) as [Hp Hg];
  destruct (pu_paren (has_ur L) (gu L) (gp L) (gchain L) (gp_S L) (gu_lp L) _ (IH Hg Hof))
    as [n0 H0];
  exists (S n0); intros [|n] Hn r; [lia|]; rewrite tk;
  apply (gu_pre_ok L n w u);
  [apply classify_kw; [reflexivity|reflexivity|reflexivity|exact Hp] | apply H0; lia].

Lemma gu_toks L : L <> CTL -> forall f, std_inv L f = true -> okstd f = true -> GU L f.
Proof.
  intros HL. unfold GU.
  induction f as [b|a|f0 IH|fs IH|fs IH|f1 f2 IH1 IH2|f0 IH|f0 IH|f0 IH
                  |f1 f2 IH1 IH2|f1 f2 IH1 IH2|f0 IH|f0 IH] using form_ind';
    intros Hinv Hof.
  - exists 1. intros [|n] Hn r; [lia|]. destruct b; reflexivity.
  - destruct (okstd_atom a Hof) as [_ Hres].
    exists 1. intros [|n] Hn r; [lia|]. cbn [toks app]. rewrite gu_S. unfold gu_body.
    rewrite (classify_atom _ a Hres). reflexivity.
  - destruct (std_inv_un L UNot f0 HL Hinv) as [_ Hg].
    destruct (IH Hg Hof) as [n0 H0].
    exists (S n0). intros [|n] Hn r; [lia|].
    change (toks (FNot f0) ++ r)%list with (PWord "not" :: toks f0 ++ r)%list.
    apply (gu_pre_ok L n "not" UNot); [destruct L; reflexivity|apply H0; lia].
  - destruct (okstd_list fs Hof) as (x & y & l & Ef & Hfs).
    assert (HF := Forall_mp2 _ _ _ _ IH (std_inv_nary L fs (or_introl Hinv)) Hfs).
    subst fs. inversion HF as [|? ? Hx HF1]; subst. inversion HF1 as [|? ? Hy HF2]; subst.
    exact (pu_or _ _ _ _ (gchain_S L) (gp_S L) (gu_lp L) x y l Hx Hy HF2).
  - destruct (okstd_list fs Hof) as (x & y & l & Ef & Hfs).
    assert (HF := Forall_mp2 _ _ _ _ IH (std_inv_nary L fs (or_intror Hinv)) Hfs).
    subst fs. inversion HF as [|? ? Hx HF1]; subst. inversion HF1 as [|? ? Hy HF2]; subst.
    exact (pu_and _ _ _ _ (gchain_S L) (gp_S L) (gu_lp L) x y l Hx Hy HF2).
  - destruct (okstd_bin _ _ Hof) as [Hf1 Hf2]. destruct (std_inv_bin L _ _ Hinv) as [Hi1 Hi2].
    exact (pu_imp _ _ _ _ (gp_S L) (gu_lp L) f1 f2 (IH1 Hi1 Hf1) (IH2 Hi2 Hf2)).
  - gu_unary L "X" UX tk_x IH HL Hinv Hof.
  - gu_unary L "F" UF tk_f IH HL Hinv Hof.
  - gu_unary L "G" UG tk_g IH HL Hinv Hof.
  - destruct (okstd_bin _ _ Hof) as [Hf1 Hf2].
    destruct (std_inv_ur L _ _ HL (or_introl Hinv)) as (Hur & Hi1 & Hi2).
    exact (pu_u _ _ _ _ (gp_S L) (gu_lp L) f1 f2 Hur (IH1 Hi1 Hf1) (IH2 Hi2 Hf2)).
  - destruct (okstd_bin _ _ Hof) as [Hf1 Hf2].
    destruct (std_inv_ur L _ _ HL (or_intror Hinv)) as (Hur & Hi1 & Hi2).
    exact (pu_r _ _ _ _ (gp_S L) (gu_lp L) f1 f2 Hur (IH1 Hi1 Hf1) (IH2 Hi2 Hf2)).
  - gu_unary L "A" UA tk_a IH HL Hinv Hof.
  - gu_unary L "E" UE tk_e IH HL Hinv Hof.
Qed.

Lemma tres_nofuel {A} (P : A -> Prop) (r : result A) : tres P r -> r <> OutOfFuel.
Proof. destruct r; simpl; intros H; try contradiction; discriminate. Qed.

(* a result obtained with enough fuel is the result with any fuel that does not run out *)
Lemma fuel_enough {A B} (F : nat -> A -> result B) a x n1 :
  (forall n m, n <= m -> ext (F n) (F m)) -> F n1 a <> OutOfFuel ->
  (exists n0, forall n, n0 <= n -> F n a = Ok x) -> F n1 a = Ok x.
Proof.
  intros Hm Hn [n0 H0].
  rewrite <- (Hm n1 (Nat.max n0 n1) (Nat.le_max_r _ _) a Hn).
  apply H0. apply Nat.le_max_l.
Qed.

Lemma good_okstd L f : good L f = true -> okstd f = true.
Proof.
  intros H. destruct (good_split L f H) as (_ & H1 & H2). unfold okstd. rewrite H1, H2. reflexivity.
Qed.

Lemma gp_top L f : GU L f -> gp L (parse_fuel (toks f)) (toks f) = Ok (f, []).
Proof.
  intros Hf. apply (fuel_enough (gp L)).
  - intros n m. apply gp_mono.
  - apply (tres_nofuel (shorter (toks f))). apply g_total. unfold parse_fuel. lia.
  - destruct (gp_single (has_ur L) (gu L) (gp L) (gchain L) (gp_S L) f Hf) as [n0 H0].
    exists n0. intros n Hn. apply (H0 n Hn).
Qed.

Lemma ltl_first_not_A f : ltl_path f = true -> okstd f = true ->
  match toks f with PWord w :: _ => (w =? "A") = false | _ => True end.
Proof.
  intros Hp Hof.
  destruct f as [b|a|g|fs|fs|g h|g|g|g|g h|g h|g|g]; try discriminate Hp; try reflexivity.
  - destruct b; reflexivity.
  - destruct (okstd_atom a Hof) as [_ Hres]. simpl. apply (reserved_false a Hres).
  - simpl. destruct (map toks fs); exact I.
  - simpl. destruct (map toks fs); exact I.
Qed.

Theorem parse_toks_std : forall L f, L <> CTL -> good L f = true -> parse L (toks f) = Ok f.
Proof.
  intros L f HL Hg. assert (Hof := good_okstd L f Hg).
  destruct (good_split L f Hg) as (Hm & Hi & Ha).
  destruct L; try congruence.
  - unfold parse. rewrite (gp_top PL f (gu_toks PL HL f Hm Hof)). reflexivity.
  - unfold parse. rewrite (gp_top CTLS f (gu_toks CTLS HL f eq_refl Hof)). reflexivity.
  - simpl in Hm. destruct (ltl_path f) eqn:Hp.
    + assert (Hgp := gp_top LTL f (gu_toks LTL HL f Hp Hof)).
      assert (H1 := ltl_first_not_A f Hp Hof).
      unfold parse. destruct (toks f) as [|[w|s| | |y] r]; try (rewrite Hgp; reflexivity).
      rewrite H1, Hgp. reflexivity.
    + simpl in Hm. destruct f as [b|a|g|fs|fs|g h|g|g|g|g h|g h|g|g]; try discriminate Hm.
      simpl in Hm.
      assert (Hog : okstd g = true) by exact Hof.
      assert (HG := gu_toks LTL HL g Hm Hog).
      unfold parse.
      change (toks (FA g)) with (PWord "A" :: PLp :: toks g ++ [PRp])%list.
      cbv iota beta. change ("A" =? "A") with true. cbv iota.
      set (n1 := parse_fuel (PWord "A" :: PLp :: (toks g ++ [PRp])%list)).
      assert (E : gu LTL n1 (PLp :: toks g ++ [PRp])%list = Ok (g, [])).
      { apply (fuel_enough (gu LTL)).
        - intros n m. apply gu_mono.
        - apply (tres_nofuel (shorter (PLp :: toks g ++ [PRp])%list)). apply g_total.
          unfold n1, parse_fuel.
          assert (Hc := tsz_cons (PWord "A") (PLp :: toks g ++ [PRp])%list). lia.
        - destruct (pu_paren _ _ _ _ (gp_S LTL) (gu_lp LTL) g HG) as [n0 H0].
          exists n0. intros n Hn. apply (H0 n Hn []). }
      rewrite E. reflexivity.
Qed.

Theorem C09_roundtrip_std : forall L f, L <> CTL -> good L f = true ->
  parse_string L (print_std f) = Ok f.
Proof.
  intros L f HL Hg. unfold parse_string.
  rewrite (lex_print_std f (good_okstd L f Hg)). exact (parse_toks_std L f HL Hg).
Qed.

(* ------------------------------------------------------------------ *)
(** * Round trip for CTL formulas printed in CTL* notation *)

Lemma cs_lp n ts : cs (S n) (PLp :: ts) = rbind (cu n ts) (fun '(f, r1) => expect_rp f r1).
Proof. reflexivity. Qed.
Lemma cs_not n ts f r : cs n ts = Ok (f, r) -> cs (S n) (PWord "not" :: ts) = Ok (FNot f, r).
Proof.
  intros H. change (cs (S n) (PWord "not" :: ts)) with (rbind (cs n ts) (fun '(f, r1) => Ok (FNot f, r1))).
  rewrite H. reflexivity.
Qed.
Lemma cs_A n ts f r : cf n ts = Ok (f, r) -> is_path_root f = true ->
  cs (S n) (PWord "A" :: ts) = Ok (FA f, r).
Proof.
  intros H Hr.
  change (cs (S n) (PWord "A" :: ts))
    with (rbind (cf n ts) (fun '(f, r1) => if is_path_root f then Ok (FA f, r1) else ParseErr)).
  rewrite H. cbn [rbind]. rewrite Hr. reflexivity.
Qed.
Lemma cs_E n ts f r : cf n ts = Ok (f, r) -> is_path_root f = true ->
  cs (S n) (PWord "E" :: ts) = Ok (FE f, r).
Proof.
  intros H Hr.
  change (cs (S n) (PWord "E" :: ts))
    with (rbind (cf n ts) (fun '(f, r1) => if is_path_root f then Ok (FE f, r1) else ParseErr)).
  rewrite H. cbn [rbind]. rewrite Hr. reflexivity.
Qed.
Lemma cf_lp n ts :
  cf (S n) (PLp :: ts)
  = rbind (cf n ts) (fun '(f, r1) => rbind (expect_rp f r1) (fun '(f, r2) =>
      if is_path_root f then Ok (f, r2) else tail true (cs n) (cchain n) f r2)).
Proof. reflexivity. Qed.
Lemma cf_paren_state n ts f r : cf n ts = Ok (f, PRp :: r) -> is_path_root f = false ->
  cf (S n) (PLp :: ts) = tail true (cs n) (cchain n) f r.
Proof. intros H Hr. rewrite cf_lp, H. cbn [rbind expect_rp]. rewrite Hr. reflexivity. Qed.
Lemma cf_paren_path n ts f r : cf n ts = Ok (f, PRp :: r) -> is_path_root f = true ->
  cf (S n) (PLp :: ts) = Ok (f, r).
Proof. intros H Hr. rewrite cf_lp, H. cbn [rbind expect_rp]. rewrite Hr. reflexivity. Qed.
Lemma cf_X n ts f r : cs n ts = Ok (f, r) -> cf (S n) (PWord "X" :: ts) = Ok (FX f, r).
Proof.
  intros H. change (cf (S n) (PWord "X" :: ts)) with (rbind (cs n ts) (fun '(f, r1) => Ok (FX f, r1))).
  rewrite H. reflexivity.
Qed.
Lemma cf_F n ts f r : cs n ts = Ok (f, r) -> cf (S n) (PWord "F" :: ts) = Ok (FF f, r).
Proof.
  intros H. change (cf (S n) (PWord "F" :: ts)) with (rbind (cs n ts) (fun '(f, r1) => Ok (FF f, r1))).
  rewrite H. reflexivity.
Qed.
Lemma cf_G n ts f r : cs n ts = Ok (f, r) -> cf (S n) (PWord "G" :: ts) = Ok (FG f, r).
Proof.
  intros H. change (cf (S n) (PWord "G" :: ts)) with (rbind (cs n ts) (fun '(f, r1) => Ok (FG f, r1))).
  rewrite H. reflexivity.
Qed.

Definition CS : form -> Prop := PU cs.
Definition PF (f : form) : Prop :=
  exists n0, forall n, n0 <= n -> forall r, cf n (toks f ++ r)%list = Ok (f, r).
(* a printed state formula where [cf] starts: what follows decides (U / R, or / and / -->, nothing) *)
Definition CFS (f : form) : Prop :=
  exists n0, forall n, n0 <= n -> forall r,
    cf (S n) (toks f ++ r)%list = tail true (cs n) (cchain n) f r.
Definition PC (f : form) : Prop :=
  okstd f = true ->
  (ctl_state f = true -> CS f /\ CFS f) /\ (ctl_path f = true -> PF f).

Lemma cfs_of_cs f : CS f ->
  (forall n r, cf (S n) (toks f ++ r)%list
               = rbind (cs n (toks f ++ r)%list) (fun '(f, r1) => tail true (cs n) (cchain n) f r1)) ->
  CFS f.
Proof.
  intros [n0 H0] Hd. exists n0. intros n Hn r. rewrite Hd, H0 by lia. reflexivity.
Qed.

Lemma Forall_PC fs : Forall PC fs -> forallb okstd fs = true -> forallb ctl_state fs = true ->
  Forall (fun f => CS f /\ CFS f) fs.
Proof.
  induction 1 as [|x l Hx _ IH]; intros H1 H2; [constructor|].
  simpl in H1, H2. apply andb_true_iff in H1. apply andb_true_iff in H2.
  destruct H1 as [A1 B1], H2 as [A2 B2].
  constructor; [exact (proj1 (Hx A1) A2)|exact (IH B1 B2)].
Qed.

Lemma ctl_path_root p : ctl_path p = true -> is_path_root p = true.
Proof. destruct p; simpl; try discriminate; reflexivity. Qed.

Notation cs_paren := (pu_paren false cs cu cchain cu_S cs_lp).

Lemma pc_quant (k : form -> form) (w : string) p :
  (forall n ts f r, cf n ts = Ok (f, r) -> is_path_root f = true ->
                    cs (S n) (PWord w :: ts) = Ok (k f, r)) ->
  (forall r, (toks (k p) ++ r = PWord w :: PLp :: toks p ++ PRp :: r)%list) ->
  (forall n r, cf (S n) (toks (k p) ++ r)%list
               = rbind (cs n (toks (k p) ++ r)%list)
                       (fun '(f, r1) => tail true (cs n) (cchain n) f r1)) ->
  PF p -> ctl_path p = true -> CS (k p) /\ CFS (k p).
Proof.
  intros Hk Htk Hd [n0 H0] Hp. assert (Hr := ctl_path_root p Hp).
  assert (HC : CS (k p)).
  { exists (S (S n0)). intros [|[|n]] Hn r; try lia. rewrite Htk.
    apply Hk; [|exact Hr]. apply cf_paren_path; [|exact Hr]. apply H0. lia. }
  split; [exact HC|]. apply cfs_of_cs; [exact HC|exact Hd].
Qed.

Lemma pc_un (k : form -> form) (w : string) g :
  (forall n ts f r, cs n ts = Ok (f, r) -> cf (S n) (PWord w :: ts) = Ok (k f, r)) ->
  (forall r, (toks (k g) ++ r = PWord w :: PLp :: toks g ++ PRp :: r)%list) ->
  CS g -> PF (k g).
Proof.
  intros Hk Htk Hg. destruct (cs_paren g Hg) as [n0 H0].
  exists (S n0). intros [|n] Hn r; [lia|]. rewrite Htk. apply Hk. apply H0. lia.
Qed.

Lemma pc_all : forall f, PC f.
Proof.
  induction f as [b|a|f0 IH|fs IH|fs IH|f1 f2 IH1 IH2|f0 IH|f0 IH|f0 IH
                  |f1 f2 IH1 IH2|f1 f2 IH1 IH2|f0 IH|f0 IH] using form_ind';
    intros Hof; (split; [intros Hs|intros Hp]); try discriminate.
  - (* FBool *)
    assert (HC : CS (FBool b)).
    { exists 1. intros [|n] Hn r; [lia|]. destruct b; reflexivity. }
    split; [exact HC|]. apply cfs_of_cs; [exact HC|]. intros n r. destruct b; reflexivity.
  - (* FAtom *)
    destruct (okstd_atom a Hof) as [_ Hres].
    assert (HC : CS (FAtom a)).
    { exists 1. intros [|n] Hn r; [lia|]. cbn [toks app]. rewrite cs_S. unfold cs_body.
      rewrite (classify_atom _ a Hres). reflexivity. }
    split; [exact HC|]. apply cfs_of_cs; [exact HC|]. intros n r.
    cbn [toks app]. rewrite cf_S. unfold cf_body. rewrite (classify_atom _ a Hres). reflexivity.
  - (* FNot *)
    destruct (proj1 (IH Hof) Hs) as [[n0 H0] _].
    assert (HC : CS (FNot f0)).
    { exists (S n0). intros [|n] Hn r; [lia|].
      change (toks (FNot f0) ++ r)%list with (PWord "not" :: toks f0 ++ r)%list.
      apply cs_not. apply H0. lia. }
    split; [exact HC|]. apply cfs_of_cs; [exact HC|]. intros n r. reflexivity.
  - (* FOr *)
    destruct (okstd_list fs Hof) as (x & y & l & Ef & Hfs).
    assert (HF := Forall_PC fs IH Hfs Hs). subst fs.
    inversion HF as [|? ? [Hx [n1 H1]] HF1]; subst. inversion HF1 as [|? ? [Hy _] HF2]; subst.
    assert (HL : Forall CS l) by (apply (Forall_impl _ (fun f H => proj1 H) HF2)).
    split; [exact (pu_or _ _ _ _ cchain_S cu_S cs_lp x y l Hx Hy HL)|].
    destruct Hy as [ny Hy].
    destruct (chain_eval cs cchain cchain_S (PWord "or") BOr (fun ts => eq_refl) eq_refl l HL)
      as [nl Hl].
    exists (S (Nat.max n1 (Nat.max ny nl))). intros [|n] Hn r; [lia|]. rewrite tk_or.
    apply cf_paren_state; [|reflexivity]. rewrite H1 by lia.
    eapply tail_or; [apply Hy; lia|apply Hl; lia].
  - (* FAnd *)
    destruct (okstd_list fs Hof) as (x & y & l & Ef & Hfs).
    assert (HF := Forall_PC fs IH Hfs Hs). subst fs.
    inversion HF as [|? ? [Hx [n1 H1]] HF1]; subst. inversion HF1 as [|? ? [Hy _] HF2]; subst.
    assert (HL : Forall CS l) by (apply (Forall_impl _ (fun f H => proj1 H) HF2)).
    split; [exact (pu_and _ _ _ _ cchain_S cu_S cs_lp x y l Hx Hy HL)|].
    destruct Hy as [ny Hy].
    destruct (chain_eval cs cchain cchain_S (PWord "and") BAnd (fun ts => eq_refl) eq_refl l HL)
      as [nl Hl].
    exists (S (Nat.max n1 (Nat.max ny nl))). intros [|n] Hn r; [lia|]. rewrite tk_and.
    apply cf_paren_state; [|reflexivity]. rewrite H1 by lia.
    eapply tail_and; [apply Hy; lia|apply Hl; lia].
  - (* FImp *)
    destruct (okstd_bin _ _ Hof) as [Hf1 Hf2].
    simpl in Hs. apply andb_true_iff in Hs. destruct Hs as [Hs1 Hs2].
    destruct (proj1 (IH1 Hf1) Hs1) as [Hx [n1 H1]]. destruct (proj1 (IH2 Hf2) Hs2) as [Hy _].
    split; [exact (pu_imp _ _ _ _ cu_S cs_lp f1 f2 Hx Hy)|].
    destruct Hy as [ny Hy].
    exists (S (Nat.max n1 ny)). intros [|n] Hn r; [lia|]. rewrite tk_imp.
    apply cf_paren_state; [|reflexivity]. rewrite H1 by lia.
    apply tail_imp. apply Hy. lia.
  - (* FX *)
    exact (pc_un FX "X" f0 cf_X (tk_x f0) (proj1 (proj1 (IH Hof) Hp))).
  - (* FF *)
    exact (pc_un FF "F" f0 cf_F (tk_f f0) (proj1 (proj1 (IH Hof) Hp))).
  - (* FG *)
    exact (pc_un FG "G" f0 cf_G (tk_g f0) (proj1 (proj1 (IH Hof) Hp))).
  - (* FU *)
    destruct (okstd_bin _ _ Hof) as [Hf1 Hf2].
    simpl in Hp. apply andb_true_iff in Hp. destruct Hp as [Hs1 Hs2].
    destruct (proj1 (IH1 Hf1) Hs1) as [_ [n1 H1]]. destruct (proj1 (IH2 Hf2) Hs2) as [[ny Hy] _].
    exists (S (S (Nat.max n1 ny))). intros [|[|n]] Hn r; try lia. rewrite tk_u.
    apply cf_paren_path; [|reflexivity]. rewrite H1 by lia.
    apply tail_u. apply Hy. lia.
  - (* FR *)
    destruct (okstd_bin _ _ Hof) as [Hf1 Hf2].
    simpl in Hp. apply andb_true_iff in Hp. destruct Hp as [Hs1 Hs2].
    destruct (proj1 (IH1 Hf1) Hs1) as [_ [n1 H1]]. destruct (proj1 (IH2 Hf2) Hs2) as [[ny Hy] _].
    exists (S (S (Nat.max n1 ny))). intros [|[|n]] Hn r; try lia. rewrite tk_r.
    apply cf_paren_path; [|reflexivity]. rewrite H1 by lia.
    apply tail_r. apply Hy. lia.
  - (* FA *)
    rewrite ctl_state_A in Hs.
    apply (pc_quant FA "A" f0 cs_A (tk_a f0)); [|exact (proj2 (IH Hof) Hs)|exact Hs].
    intros n r. reflexivity.
  - (* FE *)
    rewrite ctl_state_E in Hs.
    apply (pc_quant FE "E" f0 cs_E (tk_e f0)); [|exact (proj2 (IH Hof) Hs)|exact Hs].
    intros n r. reflexivity.
Qed.

Theorem parse_toks_ctl : forall f, good CTL f = true -> parse CTL (toks f) = Ok f.
Proof.
  intros f Hg. assert (Hof := good_okstd CTL f Hg).
  destruct (good_split CTL f Hg) as (Hm & _ & _). simpl in Hm.
  assert (E : cf (parse_fuel (toks f)) (toks f) = Ok (f, [])).
  { apply (fuel_enough cf).
    - intros n m. apply cf_mono.
    - apply (tres_nofuel (shorter (toks f))). apply c_total. unfold parse_fuel. lia.
    - destruct (pc_all f Hof) as [HS HP]. apply orb_true_iff in Hm. destruct Hm as [Hm|Hm].
      + destruct (proj2 (HS Hm)) as [n0 H0]. exists (S n0). intros [|n] Hn; [lia|].
        rewrite <- (app_nil_r (toks f)). rewrite H0 by lia. reflexivity.
      + destruct (HP Hm) as [n0 H0]. exists n0. intros n Hn.
        rewrite <- (app_nil_r (toks f)). apply H0. exact Hn. }
  unfold parse. rewrite E. reflexivity.
Qed.

Theorem C09_roundtrip_ctl : forall f, good CTL f = true -> parse_string CTL (print_std f) = Ok f.
Proof.
  intros f Hg. unfold parse_string.
  rewrite (lex_print_std f (good_okstd CTL f Hg)). exact (parse_toks_ctl f Hg).
Qed.

(* every CTL formula (state or path) is read to the same tree by the CTL* parser *)
Corollary C09_ctl_by_ctls : forall f, good CTL f = true -> parse_string CTLS (print_std f) = Ok f.
Proof.
  intros f Hg. apply C09_roundtrip_std; [discriminate|].
  destruct (good_split CTL f Hg) as (_ & H1 & H2). unfold good. simpl. rewrite H1, H2. reflexivity.
Qed.

(* a CTL state formula is read to the same tree by the CTL* parser *)
Corollary C09_ctl_state_by_ctls : forall f, good CTL f = true -> ctl_state f = true ->
  parse_string CTLS (print_std f) = Ok f /\ parse_string CTL (print_std f) = Ok f.
Proof.
  intros f Hg _. split; [|exact (C09_roundtrip_ctl f Hg)].
  apply C09_roundtrip_std; [discriminate|].
  destruct (good_split CTL f Hg) as (_ & H1 & H2). unfold good. simpl. rewrite H1, H2. reflexivity.
Qed.

Print Assumptions C09_roundtrip_std.
Print Assumptions C09_roundtrip_ctl.
Print Assumptions parse_total.
Print Assumptions parse_string_total.
Print Assumptions C10_member.
