(* HeapP.v — the clone-then-label discipline of the modelcheck entry points, proved on
   the heap model (Model/Heap.v):
     FRAME       no cell that existed before a call is changed by it;
     REFINEMENT  the result is the pure model's result on the abstract value of the
                 argument object (nothing else in the heap matters);
     HISTORY     calls executed in sequence do not influence each other;
     NON-VACUITY without the clone, or with a shallow clone, the frame property fails.
   Axiom-free. *)
From PMC Require Import Model.Heap.
From PMC Require Import Spec.GraphSpec Spec.Semantics.
From PMC Require Import Proofs.KripkeP.
From PMC Require Proofs.GraphP.
From Coq Require Import Lia.

(* ------------------------------------------------------------------ *)
(* 0. heaps                                                            *)
(* ------------------------------------------------------------------ *)
Definition allocated (h : heap) (l : loc) : Prop := In l (map fst h).

Lemma hallocated_iff h l : hallocated h l = true <-> allocated h l.
Proof. unfold hallocated, allocated. apply kp_memb_In. Qed.

Lemma hget_unallocated h l : ~ allocated h l -> hget h l = [].
Proof.
  unfold allocated. induction h as [|[x c] r IH]; simpl; intros H; auto.
  destruct (Nat.eqb x l) eqn:E.
  - apply Nat.eqb_eq in E. tauto.
  - apply IH. tauto.
Qed.

Lemma hget_hset_same h l c : hget (hset h l c) l = c.
Proof. unfold hset. simpl. rewrite Nat.eqb_refl. reflexivity. Qed.

Lemma hget_hset_other h l c l' : l' <> l -> hget (hset h l c) l' = hget h l'.
Proof.
  intros H. unfold hset. simpl. destruct (Nat.eqb l l') eqn:E; auto.
  apply Nat.eqb_eq in E. congruence.
Qed.

Lemma allocated_hset h l c l' : allocated (hset h l c) l' <-> l = l' \/ allocated h l'.
Proof. unfold allocated, hset. simpl. tauto. Qed.

Lemma allocated_lt_hfresh h l : allocated h l -> l < hfresh h.
Proof.
  unfold allocated, hfresh. induction (map fst h) as [|x r IH]; simpl; intros H; [tauto|].
  destruct H as [H|H]; [subst; lia|]. apply IH in H. lia.
Qed.

Lemma hfresh_not_allocated h : ~ allocated h (hfresh h).
Proof. intros H. apply allocated_lt_hfresh in H. lia. Qed.
Local Opaque hfresh.

(* [ext P h h']: going from h to h' only cells satisfying P were written and the set of
   allocated locations did not change *)
Definition only_wrote (P : loc -> Prop) (h h' : heap) : Prop :=
  (forall l, ~ P l -> hget h' l = hget h l) /\ (forall l, allocated h' l <-> allocated h l).

Lemma only_wrote_refl P h : only_wrote P h h.
Proof. split; intros; tauto. Qed.

Lemma only_wrote_trans P h1 h2 h3 :
  only_wrote P h1 h2 -> only_wrote P h2 h3 -> only_wrote P h1 h3.
Proof.
  intros [A1 B1] [A2 B2]. split; intros l.
  - intros H. rewrite A2, A1; auto.
  - rewrite B2, B1. tauto.
Qed.

(* ------------------------------------------------------------------ *)
(* 1. objects: validity, abstraction                                   *)
(* ------------------------------------------------------------------ *)
(* the cells of the object exist and no two states share a cell *)
Definition owns (h : heap) (k : hk) : Prop :=
  (forall l, In l (locs k) -> allocated h l) /\ NoDup (locs k).

Definition valid (h : heap) (k : hk) : Prop :=
  (forall l, In l (locs k) -> allocated h l) /\
  NoDup (locs k) /\
  map fst (hlab k) = nodes (hgraph k).

Lemma valid_owns h k : valid h k -> owns h k.
Proof. intros (A & B & _). split; auto. Qed.

Definition ext (k : hk) (h h' : heap) : Prop := only_wrote (fun l => In l (locs k)) h h'.

Lemma owns_ext h h' k : owns h k -> ext k h h' -> owns h' k.
Proof. intros [A B] [_ C]. split; auto. intros l Hl. apply C. auto. Qed.

(* validity only depends on the allocation status of the object's cells *)
Lemma valid_mono h h' k :
  valid h k -> (forall l, allocated h l -> allocated h' l) -> valid h' k.
Proof. intros (A & B & C) H. split; [|split]; auto. Qed.

(* the abstract value only depends on the contents of the object's cells *)
Lemma abs_cells_eq h h' k :
  (forall l, In l (locs k) -> hget h' l = hget h l) -> abs h' k = abs h k.
Proof.
  intros H. unfold abs. f_equal. unfold locs in H.
  induction (hlab k) as [|[s l] r IH]; simpl; auto.
  rewrite H by (simpl; auto). f_equal. apply IH. intros l' Hl'. apply H. simpl. auto.
Qed.

Lemma abs_frame h h' k :
  (forall l, allocated h l -> hget h' l = hget h l) ->
  (forall l, In l (locs k) -> allocated h l) -> abs h' k = abs h k.
Proof. intros H A. apply abs_cells_eq. intros l Hl. apply H. auto. Qed.

Lemma abs_states h k : states (abs h k) = nodes (hgraph k).
Proof. reflexivity. Qed.

Lemma abs_klab_fst h k : map fst (klab (abs h k)) = map fst (hlab k).
Proof.
  unfold abs. simpl. rewrite map_map. apply map_ext. intros [s l]. reflexivity.
Qed.

(* ------------------------------------------------------------------ *)
(* 2. add_label_h refines add_label                                    *)
(* ------------------------------------------------------------------ *)
Lemma add_label_cells_frame m X a : forall h l,
  ~ In l (map snd m) -> hget (add_label_cells h m X a) l = hget h l.
Proof.
  induction m as [|[s l0] r IH]; simpl; intros h l H; auto.
  rewrite IH by tauto.
  destruct (memb s X && negb (mema a (hget h l0))); auto.
  apply hget_hset_other. intros E. subst. tauto.
Qed.

Lemma add_label_cells_alloc m X a : forall h,
  (forall l, In l (map snd m) -> allocated h l) ->
  forall l, allocated (add_label_cells h m X a) l <-> allocated h l.
Proof.
  induction m as [|[s l0] r IH]; simpl; intros h H l; [tauto|].
  assert (H0 : allocated h l0) by auto.
  destruct (memb s X && negb (mema a (hget h l0))).
  - rewrite IH.
    + rewrite allocated_hset. split; [intros [E|E]; subst; auto | auto].
    + intros l' Hl'. apply allocated_hset. auto.
  - apply IH. auto.
Qed.

Lemma add_label_cells_abs m X a : forall h, NoDup (map snd m) ->
  map (fun '(s, l) => (s, hget (add_label_cells h m X a) l)) m =
  map (add_label_fn X a) (map (fun '(s, l) => (s, hget h l)) m).
Proof.
  induction m as [|[s l0] r IH]; simpl; intros h Hnd; auto.
  inversion Hnd as [|x y Hnotin Hnd']; subst.
  set (h1 := if memb s X && negb (mema a (hget h l0)) then hset h l0 (hget h l0 ++ [a]) else h).
  assert (Htail : map (fun '(s0, l) => (s0, hget h1 l)) r = map (fun '(s0, l) => (s0, hget h l)) r).
  { clear IH Hnd Hnd'. induction r as [|[s' l'] r' IHr]; simpl; auto.
    simpl in Hnotin. f_equal.
    - f_equal. unfold h1. destruct (memb s X && negb (mema a (hget h l0))); auto.
      apply hget_hset_other. intros E. subst. tauto.
    - apply IHr. tauto. }
  f_equal.
  - rewrite add_label_cells_frame by exact Hnotin.
    unfold add_label_fn, h1. simpl.
    destruct (memb s X && negb (mema a (hget h l0))); auto.
    rewrite hget_hset_same. reflexivity.
  - rewrite IH by exact Hnd'. rewrite Htail. reflexivity.
Qed.

Theorem add_label_h_refines h k X a : owns h k ->
  ext k h (add_label_h h k X a) /\
  abs (add_label_h h k X a) k = add_label (abs h k) X a.
Proof.
  intros [Hal Hnd]. unfold add_label_h. split; [split|].
  - intros l Hl. apply add_label_cells_frame. exact Hl.
  - apply add_label_cells_alloc. exact Hal.
  - unfold abs, add_label. simpl. f_equal.
    rewrite add_label_cells_abs by exact Hnd. reflexivity.
Qed.

Theorem label_fair_states_h_refines h k F h' a : owns h k ->
  label_fair_states_h h k F = (h', a) ->
  ext k h h' /\ label_fair_states (abs h k) F = (abs h' k, a).
Proof.
  intros Ho H. unfold label_fair_states_h in H. inversion H; subst. clear H.
  destruct (add_label_h_refines h k (get_fair_states (abs h k) F) (fair_label (abs h k)) Ho)
    as [He Ha].
  split; [exact He|]. unfold label_fair_states. rewrite Ha. reflexivity.
Qed.

(* ------------------------------------------------------------------ *)
(* 3. clone_h: fresh cells, same abstract value as kclone              *)
(* ------------------------------------------------------------------ *)
Lemma alloc_cells_spec L : forall h h' m, alloc_cells h L = (h', m) ->
  map fst m = map fst L /\
  (forall l, allocated h l -> hget h' l = hget h l) /\
  (forall l, allocated h' l <-> allocated h l \/ In l (map snd m)) /\
  (forall l, In l (map snd m) -> ~ allocated h l) /\
  NoDup (map snd m) /\
  map (fun '(s, l) => (s, hget h' l)) m = L.
Proof.
  induction L as [|[s c] r IH]; simpl; intros h h' m H.
  - inversion H; subst. simpl. repeat split; auto; try tauto. constructor.
  - destruct (alloc_cells ((hfresh h, c) :: h) r) as [h2 m2] eqn:E.
    inversion H; subst. clear H.
    destruct (IH _ _ _ E) as (A & B & C & D & N & V). clear IH.
    pose proof (hfresh_not_allocated h) as Hf.
    assert (Hnew : allocated ((hfresh h, c) :: h) (hfresh h)) by (unfold allocated; simpl; auto).
    assert (Hold : forall l, allocated h l -> allocated ((hfresh h, c) :: h) l)
      by (unfold allocated; simpl; auto).
    simpl. split; [f_equal; exact A|]. split; [|split; [|split; [|split]]].
    + intros l Hl. rewrite B by auto. simpl.
      destruct (Nat.eqb (hfresh h) l) eqn:E1; auto.
      apply Nat.eqb_eq in E1. subst. tauto.
    + intros l. rewrite C. unfold allocated at 1. simpl. fold (allocated h l). tauto.
    + intros l [Hl|Hl]; [subst; exact Hf|].
      intros Hc. apply (D l Hl). auto.
    + constructor; auto. intros Hc. apply (D _ Hc). exact Hnew.
    + f_equal; [|exact V]. f_equal. rewrite B by exact Hnew. simpl.
      rewrite Nat.eqb_refl. reflexivity.
Qed.

Lemma mk_kripke_klab_fst St St0 R L K :
  mk_kripke St St0 R L = Ok K -> map fst (klab K) = nodes (kg K).
Proof.
  unfold mk_kripke. destruct (forallb _ _); [|discriminate].
  intros H. inversion H; subst. simpl.
  apply (kp_map_fst_graph (fun v => dedupa (lookup_lab L v))).
Qed.

(* the clone lives in cells that did not exist before, nothing that existed is touched,
   and its abstract value is EXACTLY what the pure [kclone] returns *)
Theorem clone_h_spec h k h1 rc : clone_h h k = (h1, rc) ->
  (forall l, allocated h l -> hget h1 l = hget h l) /\
  (forall l, allocated h l -> allocated h1 l) /\
  match rc with
  | Ok kc =>
      kclone (abs h k) = Ok (abs h1 kc) /\
      valid h1 kc /\
      (forall l, In l (locs kc) -> ~ allocated h l)
  | TypeErr => kclone (abs h k) = TypeErr /\ h1 = h
  | RuntimeErr => kclone (abs h k) = RuntimeErr /\ h1 = h
  | SyntaxErr => kclone (abs h k) = SyntaxErr /\ h1 = h
  | ValueErr => kclone (abs h k) = ValueErr /\ h1 = h
  | ParseErr => kclone (abs h k) = ParseErr /\ h1 = h
  | OutOfFuel => kclone (abs h k) = OutOfFuel /\ h1 = h
  end.
Proof.
  unfold clone_h. destruct (kclone (abs h k)) as [KC| | | | | |] eqn:E; simpl; intros H;
    try (inversion H; subst; repeat split; auto; fail).
  destruct (alloc_cells h (klab KC)) as [h' m] eqn:Ea.
  inversion H; subst. clear H.
  destruct (alloc_cells_spec _ _ _ _ Ea) as (A & B & C & D & N & V).
  split; [exact B|]. split; [intros l Hl; apply C; auto|].
  split; [|split].
  - unfold abs. simpl. rewrite V. destruct KC; reflexivity.
  - split; [|split]; simpl.
    + intros l Hl. apply C. right. exact Hl.
    + exact N.
    + rewrite A. unfold kclone in E. apply (mk_kripke_klab_fst _ _ _ _ _ E).
  - exact D.
Qed.

Lemma clone_h_ok h k h1 kc : clone_h h k = (h1, Ok kc) ->
  (forall l, allocated h l -> hget h1 l = hget h l) /\
  (forall l, allocated h l -> allocated h1 l) /\
  kclone (abs h k) = Ok (abs h1 kc) /\ valid h1 kc /\
  (forall l, In l (locs kc) -> ~ allocated h l).
Proof. intros H. apply clone_h_spec in H. tauto. Qed.

(* ------------------------------------------------------------------ *)
(* 4. lock-step refinement of heap programs working on one object      *)
(* ------------------------------------------------------------------ *)
(* the heap program [x], started in h on object k, wrote only k's cells and computes
   what the pure program [p] computes, the pure structure being the abstract value of k
   in the final heap *)
Definition refines {A} (k : hk) (h : heap) (x : heap * result A) (p : result (kripke * A))
  : Prop :=
  ext k h (fst x) /\ p = rmap (fun a => (abs (fst x) k, a)) (snd x).

Lemma refines_bind {A B} k h (x : heap * result A) p
      (kh : heap -> A -> heap * result B) (kp : kripke * A -> result (kripke * B)) :
  refines k h x p ->
  (forall h1 a, ext k h h1 -> refines k h1 (kh h1 a) (kp (abs h1 k, a))) ->
  refines k h (hbind x kh) (rbind p kp).
Proof.
  intros [He Hp] Hk. destruct x as [h1 r]. simpl in He, Hp. subst p.
  destruct r as [a| | | | | |]; simpl; try (split; [exact He|reflexivity]).
  destruct (Hk h1 a He) as [He2 Hp2]. split.
  - eapply only_wrote_trans; eauto.
  - exact Hp2.
Qed.

Lemma refines_ret {A} k h (a : A) : refines k h (h, Ok a) (Ok (abs h k, a)).
Proof. split; [apply only_wrote_refl|reflexivity]. Qed.

(* a read-only sub-query on the current abstract value *)
Lemma refines_query {A} k h (q : kripke -> result A) :
  refines k h (h, q (abs h k)) (rmap (fun a => (abs h k, a)) (q (abs h k))).
Proof. split; [apply only_wrote_refl|reflexivity]. Qed.

Lemma refines_err {A} k h (e : result A) (e' : result (kripke * A)) :
  e' = rmap (fun a => (abs h k, a)) e -> refines k h (h, e) e'.
Proof. intros H. split; [apply only_wrote_refl|exact H]. Qed.

Lemma refines_add_label {A} k h X a (f : A) : owns h k ->
  refines k h (add_label_h h k X a, Ok f) (Ok (add_label (abs h k) X a, f)).
Proof.
  intros Ho. destruct (add_label_h_refines h k X a Ho) as [He Ha].
  split; [exact He|]. simpl. rewrite Ha. reflexivity.
Qed.

(* the list traversal inside elim / elim_fair, for any element function *)
Section ElimList.
  Variable k : hk.
  Variable eh : heap -> form -> heap * result form.
  Variable ep : kripke -> form -> result (kripke * form).
  Let goh := fix go (h : heap) (fs : list form) : heap * result (list form) :=
    match fs with
    | [] => (h, Ok [])
    | g :: r => hbind (eh h g) (fun h1 g' =>
                hbind (go h1 r) (fun h2 r' => (h2, Ok (g' :: r'))))
    end.
  Let gop := fix go (K : kripke) (fs : list form) : result (kripke * list form) :=
    match fs with
    | [] => Ok (K, [])
    | g :: r => rbind (ep K g) (fun '(K1, g') =>
                rbind (go K1 r) (fun '(K2, r') => Ok (K2, g' :: r')))
    end.
  Lemma elim_list_refines fs : forall h, owns h k ->
    (forall h f, owns h k -> refines k h (eh h f) (ep (abs h k) f)) ->
    refines k h (goh h fs) (gop (abs h k) fs).
  Proof.
    induction fs as [|g r IH]; intros h Ho He; simpl.
    - apply refines_ret.
    - apply refines_bind; [apply He; exact Ho|].
      intros h1 g' E1. cbn beta iota.
      assert (Ho1 : owns h1 k) by (eapply owns_ext; eauto).
      apply refines_bind; [apply IH; auto|].
      intros h2 r' E2. cbn beta iota. apply refines_ret.
  Qed.
End ElimList.

Lemma elim_h_S n L h k f :
  elim_h (S n) L h k f =
  match f with
  | FBool _ | FAtom _ => (h, Ok f)
  | FA g | FE g =>
      hbind (check_quantified_h n L h k f) (fun h1 Sat =>
        (add_label_h h1 k Sat (fresh_name L (abs h k) f), Ok (FAtom (fresh_name L (abs h k) f))))
  | _ => hbind ((fix go (h : heap) (fs : list form) : heap * result (list form) :=
            match fs with
            | [] => (h, Ok [])
            | g :: r => hbind (elim_h n L h k g) (fun h1 g' =>
                        hbind (go h1 r) (fun h2 r' => (h2, Ok (g' :: r'))))
            end) h (children f)) (fun h1 gs => (h1, Ok (build (root_op f) gs)))
  end.
Proof. destruct f; reflexivity. Qed.

Lemma elim_S n L K f :
  elim (S n) L K f =
  match f with
  | FBool _ | FAtom _ => Ok (K, f)
  | FA g | FE g =>
      rbind (check_quantified n L K f) (fun '(K1, Sat) =>
        Ok (add_label K1 Sat (fresh_name L K f), FAtom (fresh_name L K f)))
  | _ => rbind ((fix go (K : kripke) (fs : list form) : result (kripke * list form) :=
            match fs with
            | [] => Ok (K, [])
            | g :: r => rbind (elim n L K g) (fun '(K1, g') =>
                        rbind (go K1 r) (fun '(K2, r') => Ok (K2, g' :: r')))
            end) K (children f)) (fun '(K1, gs) => Ok (K1, build (root_op f) gs))
  end.
Proof. destruct f; reflexivity. Qed.

Lemma check_quantified_h_S n L h k f :
  check_quantified_h (S n) L h k f =
  match f with
  | FA g | FE g =>
      hbind (elim_h n L h k g) (fun h1 g' =>
        let q := match f with FA _ => FA g' | _ => FE g' end in
        if ctl_castable_state q then (h1, ctl_modelcheck (abs h1 k) q)
        else
          match f with
          | FA _ => (h1, ltl_modelcheck (abs h1 k) q)
          | _ =>
              hbind (elim_h n L h1 k (LNot (FA (LNot g')))) (fun h2 hh =>
                (h2, ctl_modelcheck (abs h2 k) hh))
          end)
  | _ => (h, TypeErr)
  end.
Proof. destruct f; reflexivity. Qed.

Lemma check_quantified_S n L K f :
  check_quantified (S n) L K f =
  match f with
  | FA g | FE g =>
      rbind (elim n L K g) (fun '(K1, g') =>
        let q := match f with FA _ => FA g' | _ => FE g' end in
        if ctl_castable_state q then rmap (fun Sat => (K1, Sat)) (ctl_modelcheck K1 q)
        else
          match f with
          | FA _ => rmap (fun Sat => (K1, Sat)) (ltl_modelcheck K1 q)
          | _ =>
              rbind (elim n L K1 (LNot (FA (LNot g')))) (fun '(K2, h) =>
                rmap (fun Sat => (K2, Sat)) (ctl_modelcheck K2 h))
          end)
  | _ => TypeErr
  end.
Proof. destruct f; reflexivity. Qed.

Theorem elim_h_refines n :
  (forall L h k f, owns h k -> refines k h (elim_h n L h k f) (elim n L (abs h k) f)) /\
  (forall L h k f, owns h k ->
     refines k h (check_quantified_h n L h k f) (check_quantified n L (abs h k) f)).
Proof.
  induction n as [|n [IHe IHc]].
  - split; intros L h k f Ho; simpl; apply refines_err; reflexivity.
  - assert (Hlist : forall L h k f, owns h k ->
      refines k h
        (hbind ((fix go (h : heap) (fs : list form) : heap * result (list form) :=
            match fs with
            | [] => (h, Ok [])
            | g :: r => hbind (elim_h n L h k g) (fun h1 g' =>
                        hbind (go h1 r) (fun h2 r' => (h2, Ok (g' :: r'))))
            end) h (children f)) (fun h1 gs => (h1, Ok (build (root_op f) gs))))
        (rbind ((fix go (K : kripke) (fs : list form) : result (kripke * list form) :=
            match fs with
            | [] => Ok (K, [])
            | g :: r => rbind (elim n L K g) (fun '(K1, g') =>
                        rbind (go K1 r) (fun '(K2, r') => Ok (K2, g' :: r')))
            end) (abs h k) (children f)) (fun '(K1, gs) => Ok (K1, build (root_op f) gs)))).
    { intros L h k f Ho. apply refines_bind.
      - apply (elim_list_refines k (fun h g => elim_h n L h k g) (fun K g => elim n L K g));
          auto.
      - intros h1 gs E1. cbn beta iota. apply refines_ret. }
    assert (Hquant : forall L h k f, owns h k ->
      refines k h
        (hbind (check_quantified_h n L h k f) (fun h1 Sat =>
           (add_label_h h1 k Sat (fresh_name L (abs h k) f),
            Ok (FAtom (fresh_name L (abs h k) f)))))
        (rbind (check_quantified n L (abs h k) f) (fun '(K1, Sat) =>
           Ok (add_label K1 Sat (fresh_name L (abs h k) f),
               FAtom (fresh_name L (abs h k) f))))).
    { intros L h k f Ho. apply refines_bind; [apply IHc; exact Ho|].
      intros h1 Sat E1. cbn beta iota. apply refines_add_label. eapply owns_ext; eauto. }
    split; intros L h k f Ho.
    + rewrite elim_h_S, elim_S.
      destruct f; try (apply Hlist; exact Ho); try (apply Hquant; exact Ho);
        apply refines_ret.
    + rewrite check_quantified_h_S, check_quantified_S.
      destruct f; try (apply refines_err; reflexivity).
      * (* FA *)
        apply refines_bind; [apply IHe; exact Ho|].
        intros h1 g' E1. cbn beta iota zeta.
        destruct (ctl_castable_state (FA g')); (apply refines_err; reflexivity).
      * (* FE *)
        apply refines_bind; [apply IHe; exact Ho|].
        intros h1 g' E1. cbn beta iota zeta.
        destruct (ctl_castable_state (FE g')); [apply refines_err; reflexivity|].
        apply refines_bind; [apply IHe; eapply owns_ext; eauto|].
        intros h2 hh E2. cbn beta iota. (apply refines_err; reflexivity).
Qed.

(* the CTLS elimination with a fair label (Model/Fair.v [elim_fair]) *)
Theorem elim_fair_h_refines n : forall a h k f, owns h k ->
  refines k h (elim_fair_h n a h k f) (elim_fair n a (abs h k) f).
Proof.
  induction n as [|n IH]; intros a h k f Ho.
  - simpl. apply refines_err. reflexivity.
  - assert (Hlist : forall fs (o : op),
      refines k h
        (hbind ((fix go (h : heap) (fs : list form) : heap * result (list form) :=
            match fs with
            | [] => (h, Ok [])
            | g :: r => hbind (elim_fair_h n a h k g) (fun h1 g' =>
                        hbind (go h1 r) (fun h2 r' => (h2, Ok (g' :: r'))))
            end) h fs) (fun h1 gs => (h1, Ok (build o gs))))
        (rbind ((fix go (K : kripke) (fs : list form) : result (kripke * list form) :=
            match fs with
            | [] => Ok (K, [])
            | g :: r => rbind (elim_fair n a K g) (fun '(K1, g') =>
                        rbind (go K1 r) (fun '(K2, r') => Ok (K2, g' :: r')))
            end) (abs h k) fs) (fun '(K1, gs) => Ok (K1, build o gs)))).
    { intros fs o. apply refines_bind.
      - apply (elim_list_refines k (fun h g => elim_fair_h n a h k g)
                                   (fun K g => elim_fair n a K g)); auto.
      - intros h1 gs E1. cbn beta iota. apply refines_ret. }
    assert (Hq : forall (g : form) (isA : bool) (nm : atom),
      refines k h
        (hbind (elim_fair_h n a h k g) (fun h1 g' =>
            hbind
              (if ctl_castable_state (if isA then FA g' else FE g') then
                 match unfair_ctl a (if isA then FA g' else FE g') with
                 | Some q' => (h1, ctl_modelcheck (abs h1 k) q')
                 | None => (h1, TypeErr)
                 end
               else
                 match unfair_ctls a (if isA then FA g' else FE g') with
                 | FA x => (h1, ltl_modelcheck (abs h1 k) (FA x))
                 | FE hh => hbind (elim_h n CTLS h1 k (LNot (FA (LNot hh)))) (fun h2 h' =>
                              (h2, ctl_modelcheck (abs h2 k) h'))
                 | _ => (h1, TypeErr)
                 end)
              (fun h3 Sat => (add_label_h h3 k Sat nm, Ok (FAtom nm)))))
        (rbind (elim_fair n a (abs h k) g) (fun '(K1, g') =>
            rbind
              (if ctl_castable_state (if isA then FA g' else FE g') then
                 match unfair_ctl a (if isA then FA g' else FE g') with
                 | Some q' => rmap (fun Sat => (K1, Sat)) (ctl_modelcheck K1 q')
                 | None => TypeErr
                 end
               else
                 match unfair_ctls a (if isA then FA g' else FE g') with
                 | FA x => rmap (fun Sat => (K1, Sat)) (ltl_modelcheck K1 (FA x))
                 | FE hh => rbind (elim n CTLS K1 (LNot (FA (LNot hh)))) (fun '(K2, h') =>
                             rmap (fun Sat => (K2, Sat)) (ctl_modelcheck K2 h'))
                 | _ => TypeErr
                 end)
              (fun '(K3, Sat) => Ok (add_label K3 Sat nm, FAtom nm))))).
    { intros g isA nm. apply refines_bind; [apply IH; exact Ho|].
      intros h1 g' E1. cbn beta iota.
      assert (Ho1 : owns h1 k) by (eapply owns_ext; eauto).
      apply refines_bind.
      - destruct (ctl_castable_state (if isA then FA g' else FE g')).
        + destruct (unfair_ctl a (if isA then FA g' else FE g'));
            apply refines_err; reflexivity.
        + destruct (unfair_ctls a (if isA then FA g' else FE g'));
            try (apply refines_err; reflexivity).
          apply refines_bind; [apply (proj1 (elim_h_refines n)); exact Ho1|].
          intros h2 hh E2. cbn beta iota. apply refines_err. reflexivity.
      - intros h3 Sat E3. cbn beta iota. apply refines_add_label.
        eapply owns_ext; eauto. }
    destruct f; cbn [elim_fair_h elim_fair]; try apply refines_ret; try apply Hlist.
    + exact (Hq f true (fresh_name CTLS (abs h k) (FA f))).
    + exact (Hq f false (fresh_name CTLS (abs h k) (FE f))).
Qed.

(* ------------------------------------------------------------------ *)
(* 5. the entry points: FRAME and REFINEMENT                           *)
(* ------------------------------------------------------------------ *)
(* every cell that existed in h still exists in h' with the same contents *)
Definition frame (h h' : heap) : Prop :=
  (forall l, allocated h l -> hget h' l = hget h l) /\
  (forall l, allocated h l -> allocated h' l).

Lemma frame_refl h : frame h h.
Proof. split; auto. Qed.

Lemma frame_trans h1 h2 h3 : frame h1 h2 -> frame h2 h3 -> frame h1 h3.
Proof.
  intros [A1 B1] [A2 B2]. split; intros l Hl; auto.
  rewrite A2 by auto. auto.
Qed.

(* consequences of the frame property for ANY object living in the old heap *)
Lemma frame_abs h h' k : frame h h' -> (forall l, In l (locs k) -> allocated h l) ->
  abs h' k = abs h k.
Proof. intros [A _] H. apply abs_frame; auto. Qed.

Lemma frame_valid h h' k : frame h h' -> valid h k -> valid h' k /\ abs h' k = abs h k.
Proof.
  intros Hf Hv. split.
  - apply (valid_mono h h' k Hv). apply Hf.
  - apply frame_abs; auto. apply Hv.
Qed.

(* a heap program on one object that refines a pure function of the abstract value *)
Definition body_refines {A} (bh : heap -> hk -> heap * result A) (bp : kripke -> result A)
  : Prop :=
  forall h1 kc, owns h1 kc ->
    ext kc h1 (fst (bh h1 kc)) /\ snd (bh h1 kc) = bp (abs h1 kc).

(* the discipline: run the mutating body on a deep clone *)
Lemma clone_then_body {A} (bh : heap -> hk -> heap * result A) (bp : kripke -> result A)
      h k h' r :
  body_refines bh bp ->
  hbind (clone_h h k) bh = (h', r) ->
  frame h h' /\ r = rbind (kclone (abs h k)) bp.
Proof.
  intros Hb H. destruct (clone_h h k) as [h1 rc] eqn:E.
  pose proof (clone_h_spec _ _ _ _ E) as (F1 & F2 & S3).
  destruct rc as [kc| | | | | |]; simpl in H;
    try (destruct S3 as [S3 ->]; inversion H; subst; rewrite S3; split;
         [apply frame_refl|reflexivity]).
  destruct S3 as (Hk & Hv & Hfresh). rewrite Hk. simpl.
  destruct (Hb h1 kc (valid_owns _ _ Hv)) as [[E1 E2] E3].
  rewrite H in E1, E2, E3. simpl in E1, E2, E3. split; [split|].
  - intros l Hl. rewrite E1; auto. intros Hc. apply (Hfresh l Hc Hl).
  - intros l Hl. apply E2. auto.
  - exact E3.
Qed.

Lemma refines_final {A B} k h (x : heap * result A) p
      (fh : heap -> A -> result B) (fp : kripke * A -> result B) :
  refines k h x p -> (forall h2 a, fp (abs h2 k, a) = fh h2 a) ->
  ext k h (fst (hbind x (fun h2 a => (h2, fh h2 a)))) /\
  snd (hbind x (fun h2 a => (h2, fh h2 a))) = rbind p fp.
Proof.
  intros [He Hp] Hf. destruct x as [h2 r]. simpl in He, Hp. subst p.
  destruct r; simpl; split; auto.
Qed.

(* --- CTLS.modelcheck(kripke, formula) --- *)
Lemma ctls_body_refines L f :
  body_refines
    (fun h1 kc => hbind (elim_h (ctls_fuel f) L h1 kc f) (fun h2 g =>
                    (h2, ctl_modelcheck (abs h2 kc) g)))
    (fun KC => rbind (elim (ctls_fuel f) L KC f) (fun '(K1, g) => ctl_modelcheck K1 g)).
Proof.
  intros h1 kc Ho.
  apply (refines_final kc h1 _ _ (fun h2 g => ctl_modelcheck (abs h2 kc) g)
                       (fun '(K1, g) => ctl_modelcheck K1 g)).
  - apply (proj1 (elim_h_refines (ctls_fuel f))). exact Ho.
  - reflexivity.
Qed.

Theorem ctls_modelcheck_in_h_correct L h k f h' r :
  ctls_modelcheck_in_h L h k f = (h', r) ->
  frame h h' /\ r = ctls_modelcheck_in L (abs h k) f.
Proof.
  unfold ctls_modelcheck_in_h, ctls_modelcheck_in_with, ctls_modelcheck_in.
  apply clone_then_body. apply ctls_body_refines.
Qed.

Theorem ctls_modelcheck_h_frame h k f h' r :
  ctls_modelcheck_h h k f = (h', r) -> forall l, allocated h l -> hget h' l = hget h l.
Proof. intros H. apply (ctls_modelcheck_in_h_correct CTLS) in H. apply H. Qed.

Theorem ctls_modelcheck_h_refines h k f h' r :
  ctls_modelcheck_h h k f = (h', r) -> r = ctls_modelcheck (abs h k) f.
Proof. intros H. apply (ctls_modelcheck_in_h_correct CTLS) in H. apply H. Qed.

(* --- CTL.modelcheck(kripke, formula, F=F) --- *)
Lemma label_fair_body {A} F (bh : heap -> hk -> atom -> heap * result A)
      (bp : kripke -> atom -> result A) :
  (forall a h2 kc, owns h2 kc ->
     ext kc h2 (fst (bh h2 kc a)) /\ snd (bh h2 kc a) = bp (abs h2 kc) a) ->
  body_refines (fun h1 kc => let '(h2, a) := label_fair_states_h h1 kc F in bh h2 kc a)
               (fun KC => let '(K1, a) := label_fair_states KC F in bp K1 a).
Proof.
  intros Hb h1 kc Ho.
  destruct (label_fair_states_h h1 kc F) as [h2 a] eqn:E.
  destruct (label_fair_states_h_refines _ _ _ _ _ Ho E) as [He Hl]. rewrite Hl.
  destruct (Hb a h2 kc (owns_ext _ _ _ Ho He)) as [He2 Hr]. split; [|exact Hr].
  eapply only_wrote_trans; eauto.
Qed.

Theorem ctl_modelcheck_fair_h_correct h k f F h' r :
  ctl_modelcheck_fair_h h k f F = (h', r) ->
  frame h h' /\ r = ctl_modelcheck_fair (abs h k) f F.
Proof.
  unfold ctl_modelcheck_fair_h, ctl_modelcheck_fair_with, ctl_modelcheck_fair.
  destruct (ctl_state f).
  - apply clone_then_body.
    apply (label_fair_body F
             (fun h2 kc a => match unfair_ctl a f with
                             | Some f' => (h2, check (ctl_fuel f') (abs h2 kc) f')
                             | None => (h2, TypeErr)
                             end)
             (fun K1 a => match unfair_ctl a f with
                          | Some f' => check (ctl_fuel f') K1 f'
                          | None => TypeErr
                          end)).
    intros a h2 kc _. destruct (unfair_ctl a f); simpl; split;
      try apply only_wrote_refl; reflexivity.
  - intros H. inversion H; subst. split; [apply frame_refl|reflexivity].
Qed.

Theorem ctl_modelcheck_fair_h_frame h k f F h' r :
  ctl_modelcheck_fair_h h k f F = (h', r) -> forall l, allocated h l -> hget h' l = hget h l.
Proof. intros H. apply ctl_modelcheck_fair_h_correct in H. apply H. Qed.

Theorem ctl_modelcheck_fair_h_refines h k f F h' r :
  ctl_modelcheck_fair_h h k f F = (h', r) -> r = ctl_modelcheck_fair (abs h k) f F.
Proof. intros H. apply ctl_modelcheck_fair_h_correct in H. apply H. Qed.

(* --- LTL.modelcheck(kripke, formula, F=F) --- *)
Theorem ltl_modelcheck_fair_h_correct h k f F h' r :
  ltl_modelcheck_fair_h h k f F = (h', r) ->
  frame h h' /\ r = ltl_modelcheck_fair (abs h k) f F.
Proof.
  unfold ltl_modelcheck_fair_h, ltl_modelcheck_fair_with, ltl_modelcheck_fair.
  destruct f; try (intros H; inversion H; subst; split; [apply frame_refl|reflexivity]).
  destruct (ltl_path f).
  - apply clone_then_body.
    apply (label_fair_body F
             (fun h2 kc a =>
                (h2, Ok (compl (abs h2 kc) (checkE_path (abs h2 kc)
                       (restrict (FAnd [FAtom a; unfair_ctls a (restrict (LNot f))]))))))
             (fun K1 a =>
                Ok (compl K1 (checkE_path K1
                       (restrict (FAnd [FAtom a; unfair_ctls a (restrict (LNot f))])))))).
    intros a h2 kc _. simpl. split; [apply only_wrote_refl|reflexivity].
  - intros H. inversion H; subst. split; [apply frame_refl|reflexivity].
Qed.

(* --- CTLS.modelcheck(kripke, formula, F=F) --- *)
Theorem ctls_modelcheck_fair_h_correct h k f F h' r :
  ctls_modelcheck_fair_h h k f F = (h', r) ->
  frame h h' /\ r = ctls_modelcheck_fair (abs h k) f F.
Proof.
  unfold ctls_modelcheck_fair_h, ctls_modelcheck_fair_with, ctls_modelcheck_fair.
  apply clone_then_body.
  apply (label_fair_body F
           (fun h2 kc a => hbind (elim_fair_h (ctls_fuel f) a h2 kc f) (fun h3 g =>
                             (h3, ctl_modelcheck (abs h3 kc) (unfair_ctls a g))))
           (fun K0 a => rbind (elim_fair (ctls_fuel f) a K0 f) (fun '(K1, g) =>
                          ctl_modelcheck K1 (unfair_ctls a g)))).
  intros a h2 kc Ho.
  apply (refines_final kc h2 _ _ (fun h3 g => ctl_modelcheck (abs h3 kc) (unfair_ctls a g))
                       (fun '(K1, g) => ctl_modelcheck K1 (unfair_ctls a g))).
  - apply elim_fair_h_refines. exact Ho.
  - reflexivity.
Qed.

(* --- every API call --- *)
Theorem run_call_correct h c h' r :
  run_call h c = (h', r) -> frame h h' /\ r = pure_call h c.
Proof.
  destruct c as [k f|k f|k f|k f F|k f F|k f F]; simpl.
  - apply (ctls_modelcheck_in_h_correct CTLS).
  - unfold ctl_modelcheck_h. intros H. inversion H; subst. split; [apply frame_refl|reflexivity].
  - unfold ltl_modelcheck_h. intros H. inversion H; subst. split; [apply frame_refl|reflexivity].
  - apply ctls_modelcheck_fair_h_correct.
  - apply ctl_modelcheck_fair_h_correct.
  - apply ltl_modelcheck_fair_h_correct.
Qed.

(* C07 on the heap model: the caller's object (and any other object in the heap) is
   unchanged: same graph and initial states (they are values of the object), same
   contents of every label cell; the result is a function of the arguments' value *)
Corollary run_call_caller_unchanged h c h' r : valid h (call_obj c) ->
  run_call h c = (h', r) ->
  valid h' (call_obj c) /\ abs h' (call_obj c) = abs h (call_obj c) /\
  (forall l, In l (locs (call_obj c)) -> hget h' l = hget h l) /\
  r = pure_call h c.
Proof.
  intros Hv H. apply run_call_correct in H. destruct H as [Hf Hr].
  destruct (frame_valid _ _ _ Hf Hv) as [Hv' Ha].
  split; [exact Hv'|]. split; [exact Ha|]. split; [|exact Hr].
  intros l Hl. apply Hf. apply Hv. exact Hl.
Qed.

Corollary run_call_others_unchanged h c h' r k2 : valid h k2 ->
  run_call h c = (h', r) -> valid h' k2 /\ abs h' k2 = abs h k2.
Proof. intros Hv H. apply run_call_correct in H. apply frame_valid; tauto. Qed.

(* the result does not depend on the rest of the heap: two heaps in which the argument
   object has the same abstract value give the same answer *)
Corollary run_call_depends_on_value_only h1 h2 c h1' h2' r1 r2 :
  abs h1 (call_obj c) = abs h2 (call_obj c) ->
  run_call h1 c = (h1', r1) -> run_call h2 c = (h2', r2) -> r1 = r2.
Proof.
  intros Ha H1 H2. apply run_call_correct in H1, H2.
  destruct H1 as [_ ->], H2 as [_ ->].
  destruct c; simpl in *; rewrite Ha; reflexivity.
Qed.

(* ------------------------------------------------------------------ *)
(* 6. HISTORY: calls in sequence do not influence each other           *)
(* ------------------------------------------------------------------ *)
Lemma pure_call_abs h1 h0 c :
  abs h1 (call_obj c) = abs h0 (call_obj c) -> pure_call h1 c = pure_call h0 c.
Proof. destruct c; simpl; intros ->; reflexivity. Qed.

Theorem history_cells cs : forall h0 h' rs,
  (forall c, In c cs -> forall l, In l (locs (call_obj c)) -> allocated h0 l) ->
  run_calls h0 cs = (h', rs) ->
  frame h0 h' /\ rs = map (pure_call h0) cs.
Proof.
  induction cs as [|c r IH]; simpl; intros h0 h' rs Hal H.
  - inversion H; subst. split; [apply frame_refl|reflexivity].
  - destruct (run_call h0 c) as [h1 x] eqn:E1.
    destruct (run_calls h1 r) as [h2 xs] eqn:E2.
    inversion H; subst. clear H.
    apply run_call_correct in E1. destruct E1 as [F1 ->].
    assert (Hal1 : forall c0, In c0 r -> forall l, In l (locs (call_obj c0)) -> allocated h1 l).
    { intros c0 Hc0 l Hl. apply F1. apply (Hal c0); auto. }
    destruct (IH h1 h' xs Hal1 E2) as [F2 ->].
    split; [eapply frame_trans; eauto|]. f_equal.
    apply map_ext_in. intros c0 Hc0. apply pure_call_abs.
    apply frame_abs; [exact F1|]. intros l Hl. apply (Hal c0); auto.
Qed.

(* as asked: several valid objects in the initial heap; the i-th answer is the pure
   model's answer on the INITIAL abstract value of the i-th argument, and at the end
   every object is still valid with its initial abstract value *)
Theorem history h0 cs h' rs :
  (forall c, In c cs -> valid h0 (call_obj c)) ->
  run_calls h0 cs = (h', rs) ->
  rs = map (pure_call h0) cs /\
  (forall l, allocated h0 l -> hget h' l = hget h0 l) /\
  (forall k, valid h0 k -> valid h' k /\ abs h' k = abs h0 k).
Proof.
  intros Hv H.
  destruct (history_cells cs h0 h' rs) as [Hf Hr]; auto.
  { intros c Hc l Hl. apply (Hv c Hc). exact Hl. }
  split; [exact Hr|]. split; [apply Hf|].
  intros k Hk. apply frame_valid; auto.
Qed.

(* the CTLS-only instance spelled out *)
Corollary history_ctls h0 (qs : list (hk * form)) h' rs :
  (forall k f, In (k, f) qs -> valid h0 k) ->
  run_calls h0 (map (fun '(k, f) => CallCTLS k f) qs) = (h', rs) ->
  rs = map (fun '(k, f) => ctls_modelcheck (abs h0 k) f) qs.
Proof.
  intros Hv H. apply history in H.
  - destruct H as [-> _]. rewrite map_map. apply map_ext. intros [k f]. reflexivity.
  - intros c Hc. apply in_map_iff in Hc. destruct Hc as [[k f] [<- Hin]]. simpl. eauto.
Qed.

(* ------------------------------------------------------------------ *)
(* 7. validity is preserved by every operation (for every object)      *)
(* ------------------------------------------------------------------ *)
Lemma valid_ext h h' k k2 : ext k h h' -> valid h k2 -> valid h' k2.
Proof. intros [_ B] Hv. apply (valid_mono h h' k2 Hv). intros l. apply B. Qed.

Lemma valid_add_label_h h k X a k2 : owns h k -> valid h k2 -> valid (add_label_h h k X a) k2.
Proof.
  intros Ho. apply (valid_ext h _ k k2). apply (add_label_h_refines h k X a Ho).
Qed.

Lemma valid_label_fair_states_h h k F k2 :
  owns h k -> valid h k2 -> valid (fst (label_fair_states_h h k F)) k2.
Proof. intros Ho. unfold label_fair_states_h. simpl. apply valid_add_label_h. exact Ho. Qed.

Lemma valid_elim_h n L h k f k2 : owns h k -> valid h k2 -> valid (fst (elim_h n L h k f)) k2.
Proof.
  intros Ho. apply (valid_ext h _ k k2). apply (proj1 (elim_h_refines n) L h k f Ho).
Qed.

Lemma valid_elim_fair_h n a h k f k2 :
  owns h k -> valid h k2 -> valid (fst (elim_fair_h n a h k f)) k2.
Proof.
  intros Ho. apply (valid_ext h _ k k2). apply (elim_fair_h_refines n a h k f Ho).
Qed.

Lemma valid_clone_h h k h1 rc k2 : clone_h h k = (h1, rc) ->
  valid h k2 -> valid h1 k2 /\ abs h1 k2 = abs h k2.
Proof.
  intros H Hv. apply clone_h_spec in H. destruct H as (F1 & F2 & _).
  apply frame_valid; auto. split; auto.
Qed.

(* for a well-formed abstract value the clone exists and is, observably, the same
   structure: same state list, same transitions, same initial states, same labels *)
Theorem clone_h_wf h k h1 rc : wf_K (abs h k) -> clone_h h k = (h1, rc) ->
  exists kc, rc = Ok kc /\ valid h1 kc /\ wf_K (abs h1 kc) /\
    (forall l, In l (locs kc) -> ~ allocated h l) /\
    states (abs h1 kc) = states (abs h k) /\
    (forall x y, edge (kg (abs h1 kc)) x y <-> edge (kg (abs h k)) x y) /\
    (forall x, In x (kinit (abs h1 kc)) <-> In x (kinit (abs h k))) /\
    (forall s a, labelled (abs h1 kc) s a <-> labelled (abs h k) s a).
Proof.
  intros Hwf H. apply clone_h_spec in H. destruct H as (_ & _ & H).
  destruct (kclone_spec GraphP.mk_graph_spec GraphP.edges_spec (abs h k) Hwf)
    as (K' & HK' & Hwf' & _ & He & Hi & Hl).
  rewrite HK' in H. destruct rc as [kc| | | | | |]; try (destruct H; discriminate).
  destruct H as (Hk & Hv & Hfr). injection Hk as Hk'. subst K'.
  exists kc. split; [reflexivity|]. split; [exact Hv|]. split; [exact Hwf'|].
  split; [exact Hfr|].
  split; [apply (kclone_states_eq GraphP.edges_spec (abs h k) _ Hwf HK')|].
  split; [exact He|]. split; [exact Hi|exact Hl].
Qed.

(* ------------------------------------------------------------------ *)
(* 8. NON-VACUITY: the clone matters                                   *)
(* ------------------------------------------------------------------ *)
Module Examples.
Import String.
Local Open Scope string_scope.

(* states 0 and 1, transitions 0->0, 0->1, 1->0, p labels 1; cell 0 / cell 1 *)
Definition h0 : heap := [(1, ["p"]); (0, [])].
Definition k0 : hk := mkHK [(0, [0; 1]); (1, [0])] [0] [(0, 0); (1, 1)].
Definition f0 : form := FNot (FE (FX (FE (FX (FAtom "p"))))).

Example k0_valid : valid h0 k0.
Proof.
  split; [|split].
  - intros l [H|[H|[]]]; subst; unfold allocated; simpl; auto.
  - repeat constructor; simpl; intuition discriminate.
  - reflexivity.
Qed.

(* with the clone: answer of the pure model, the caller's cells 0 and 1 untouched
   (the labelling went to the new cells 2 and 3) *)
Example ctls_clone_ok :
  let '(h', r) := ctls_modelcheck_h h0 k0 f0 in
  (r, hget h' 0, hget h' 1, hget h' 2, hget h' 3, abs h' k0) =
  (ctls_modelcheck (abs h0 k0) f0, [], ["p"],
   ["[E(X(p))]"; "[E(X(E(X(p))))]"], ["p"; "[E(X(E(X(p))))]"], abs h0 k0).
Proof. vm_compute. reflexivity. Qed.

(* WITHOUT the clone the caller's label sets are changed: the frame property fails *)
Example ctls_noclone_breaks_frame :
  let '(h', r) := ctls_modelcheck_noclone_h h0 k0 f0 in
  allocated h0 0 /\ hget h0 0 = [] /\
  hget h' 0 = ["[E(X(p))]"; "[E(X(E(X(p))))]"] /\
  hget h' 1 = ["p"; "[E(X(E(X(p))))]"] /\
  abs h' k0 <> abs h0 k0.
Proof.
  vm_compute. repeat split; auto. intros H. discriminate H.
Qed.

Example ctls_noclone_not_frame :
  ~ (forall h k f h' r, ctls_modelcheck_noclone_h h k f = (h', r) ->
       forall l, allocated h l -> hget h' l = hget h l).
Proof.
  intros H.
  specialize (H h0 k0 f0 _ _ eq_refl 0). vm_compute in H.
  specialize (H (or_intror (or_introl eq_refl))). discriminate H.
Qed.

(* a SHALLOW clone (new object, same cells) is just as wrong *)
Example ctls_shallow_breaks_frame :
  let '(h', r) := ctls_modelcheck_shallow_h h0 k0 f0 in
  hget h' 0 = ["[E(X(p))]"; "[E(X(E(X(p))))]"] /\ abs h' k0 <> abs h0 k0.
Proof. vm_compute. split; auto. intros H. discriminate H. Qed.

Example ctls_shallow_not_frame :
  ~ (forall h k f h' r, ctls_modelcheck_shallow_h h k f = (h', r) ->
       forall l, allocated h l -> hget h' l = hget h l).
Proof.
  intros H.
  specialize (H h0 k0 f0 _ _ eq_refl 0). vm_compute in H.
  specialize (H (or_intror (or_introl eq_refl))). discriminate H.
Qed.

(* and the damage is observable through the API: a later query about the atom that the
   first call left behind gets a different answer than on the initial structure, i.e.
   the HISTORY property fails without the clone *)
Definition f1 : form := FAtom "[E(X(p))]".
Example noclone_history_fails :
  let '(h1, r1) := ctls_modelcheck_noclone_h h0 k0 f0 in
  let '(h2, r2) := ctls_modelcheck_noclone_h h1 k0 f1 in
  r2 = Ok [0] /\ ctls_modelcheck (abs h0 k0) f1 = Ok [].
Proof. vm_compute. split; reflexivity. Qed.

Example clone_history_holds :
  snd (run_calls h0 [CallCTLS k0 f0; CallCTLS k0 f1]) =
  [ctls_modelcheck (abs h0 k0) f0; ctls_modelcheck (abs h0 k0) f1].
Proof. vm_compute. reflexivity. Qed.

(* the fairness entry point: label_fair_states mutates the object it is called on *)
Definition g0 : form := FE (FG (FBool true)).
Example ctl_fair_clone_ok :
  let '(h', r) := ctl_modelcheck_fair_h h0 k0 g0 [[0]] in
  (r, hget h' 0, hget h' 1, hget h' 2, hget h' 3) =
  (ctl_modelcheck_fair (abs h0 k0) g0 [[0]], [], ["p"], ["fair"], ["p"; "fair"]).
Proof. vm_compute. reflexivity. Qed.

Example ctl_fair_noclone_breaks_frame :
  let '(h', r) := ctl_modelcheck_fair_noclone_h h0 k0 g0 [[0]] in
  hget h' 0 = ["fair"] /\ hget h' 1 = ["p"; "fair"] /\ abs h' k0 <> abs h0 k0.
Proof. vm_compute. repeat split; auto. intros H. discriminate H. Qed.

Example ctl_fair_shallow_breaks_frame :
  let '(h', r) := ctl_modelcheck_fair_shallow_h h0 k0 g0 [[0]] in
  hget h' 0 = ["fair"] /\ abs h' k0 <> abs h0 k0.
Proof. vm_compute. split; auto. intros H. discriminate H. Qed.

(* aliasing: an object k0' sharing k0's cells is damaged by a clone-free call on k0, but
   is safe (frame for ANY object in the heap) with the real entry point *)
Definition k0' : hk := mkHK [(0, [0; 1]); (1, [0])] [1] [(0, 0); (1, 1)].
Example alias_damaged_without_clone :
  abs (fst (ctls_modelcheck_noclone_h h0 k0 f0)) k0' <> abs h0 k0'.
Proof. vm_compute. intros H. discriminate H. Qed.
Example alias_safe_with_clone :
  abs (fst (ctls_modelcheck_h h0 k0 f0)) k0' = abs h0 k0'.
Proof. vm_compute. reflexivity. Qed.
End Examples.

Print Assumptions add_label_h_refines.
Print Assumptions clone_h_spec.
Print Assumptions clone_h_wf.
Print Assumptions elim_h_refines.
Print Assumptions elim_fair_h_refines.
Print Assumptions ctls_modelcheck_in_h_correct.
Print Assumptions ctls_modelcheck_h_frame.
Print Assumptions ctls_modelcheck_h_refines.
Print Assumptions ctl_modelcheck_fair_h_correct.
Print Assumptions ctl_modelcheck_fair_h_frame.
Print Assumptions ctl_modelcheck_fair_h_refines.
Print Assumptions ltl_modelcheck_fair_h_correct.
Print Assumptions ctls_modelcheck_fair_h_correct.
Print Assumptions run_call_correct.
Print Assumptions run_call_caller_unchanged.
Print Assumptions run_call_others_unchanged.
Print Assumptions run_call_depends_on_value_only.
Print Assumptions history_cells.
Print Assumptions history.
Print Assumptions history_ctls.
Print Assumptions Examples.ctls_noclone_not_frame.
Print Assumptions Examples.ctls_shallow_not_frame.
Print Assumptions Examples.noclone_history_fails.
