(* SyntaxP.v — the model of formula construction / casting in Model/Syntax.v accepts
   exactly the documented grammars.  Axiom-free. *)
From PMC Require Import Model.Base Model.Syntax Model.Kripke Model.CTLmc Model.LTLmc.
From Coq Require Import Lia.

(* ------------------------------------------------------------------------- *)
(* nested induction principle for [form]                                      *)
(* ------------------------------------------------------------------------- *)
Section FormInd.
  Variable P : form -> Prop.
  Hypothesis HBool : forall b, P (FBool b).
  Hypothesis HAtom : forall a, P (FAtom a).
  Hypothesis HNot : forall f, P f -> P (FNot f).
  Hypothesis HOr : forall fs, Forall P fs -> P (FOr fs).
  Hypothesis HAnd : forall fs, Forall P fs -> P (FAnd fs).
  Hypothesis HImp : forall f g, P f -> P g -> P (FImp f g).
  Hypothesis HX : forall f, P f -> P (FX f).
  Hypothesis HF : forall f, P f -> P (FF f).
  Hypothesis HG : forall f, P f -> P (FG f).
  Hypothesis HU : forall f g, P f -> P g -> P (FU f g).
  Hypothesis HR : forall f g, P f -> P g -> P (FR f g).
  Hypothesis HA : forall f, P f -> P (FA f).
  Hypothesis HE : forall f, P f -> P (FE f).

  Fixpoint form_ind' (f : form) : P f :=
    let fix all (fs : list form) : Forall P fs :=
        match fs with
        | [] => Forall_nil P
        | g :: r => Forall_cons g (form_ind' g) (all r)
        end in
    match f with
    | FBool b => HBool b
    | FAtom a => HAtom a
    | FNot g => HNot g (form_ind' g)
    | FOr fs => HOr fs (all fs)
    | FAnd fs => HAnd fs (all fs)
    | FImp g h => HImp g h (form_ind' g) (form_ind' h)
    | FX g => HX g (form_ind' g)
    | FF g => HF g (form_ind' g)
    | FG g => HG g (form_ind' g)
    | FU g h => HU g h (form_ind' g) (form_ind' h)
    | FR g h => HR g h (form_ind' g) (form_ind' h)
    | FA g => HA g (form_ind' g)
    | FE g => HE g (form_ind' g)
    end.
End FormInd.

(* ------------------------------------------------------------------------- *)
(* membership in the language of a module                                      *)
(* ------------------------------------------------------------------------- *)
Definition member (L : lang) (f : form) : bool :=
  match L with
  | PL => pl_ok f
  | CTLS => true
  | CTL => ctl_state f || ctl_path f
  | LTL => ltl_path f || ltl_state f
  end.
Definition wf_obj (o : obj) : Prop := member (fst o) (snd o) = true.

(* ------------------------------------------------------------------------- *)
(* a one-step characterisation of [cast]                                       *)
(* ------------------------------------------------------------------------- *)
Definition ok_child (L : lang) (o : op) (g : form) : bool :=
  match cast L g with Ok _ => isinst L (root_op g) (required L o) | _ => false end.

Lemma cast_unfold : forall L f,
  cast L f =
  if negb (in_alphabet L (root_op f)) then TypeErr
  else if forallb (ok_child L (root_op f)) (children f) then Ok f else TypeErr.
Proof.
  intros L f.
  destruct f as [b|a|g|fs|fs|g h|g|g|g|g h|g h|g|g];
    cbn [cast root_op children forallb]; fold (ok_child L);
    try rewrite !andb_true_r; try reflexivity.
Qed.

(* Theorem 1 *)
Theorem cast_result : forall L f, cast L f = Ok f \/ cast L f = TypeErr.
Proof.
  intros L f. rewrite cast_unfold.
  destruct (negb (in_alphabet L (root_op f))); [right; reflexivity|].
  destruct (forallb (ok_child L (root_op f)) (children f)); [left|right]; reflexivity.
Qed.

(* boolean view of castability *)
Definition okb (L : lang) (f : form) : bool :=
  match cast L f with Ok _ => true | _ => false end.

Lemma okb_true : forall L f, okb L f = true <-> cast L f = Ok f.
Proof.
  intros L f. unfold okb. destruct (cast_result L f) as [H|H]; rewrite H; split; intro H0;
    try reflexivity; discriminate.
Qed.

Lemma okb_false : forall L f, okb L f = false <-> cast L f = TypeErr.
Proof.
  intros L f. unfold okb. destruct (cast_result L f) as [H|H]; rewrite H; split; intro H0;
    try reflexivity; discriminate.
Qed.

Lemma ok_child_okb : forall L o g,
  ok_child L o g = okb L g && isinst L (root_op g) (required L o).
Proof.
  intros L o g. unfold ok_child, okb. destruct (cast L g); reflexivity.
Qed.

Lemma forallb_ext_Forall : forall (A : Type) (p q : A -> bool) (l : list A),
  Forall (fun x => p x = q x) l -> forallb p l = forallb q l.
Proof.
  intros A p q l H. induction H as [|x xs Hx _ IH]; [reflexivity|].
  cbn [forallb]. rewrite Hx, IH. reflexivity.
Qed.

Lemma okb_unfold : forall L f,
  okb L f = in_alphabet L (root_op f) &&
            forallb (fun g => okb L g && isinst L (root_op g) (required L (root_op f))) (children f).
Proof.
  intros L f. unfold okb at 1. rewrite cast_unfold.
  rewrite (forallb_ext_Forall _ (ok_child L (root_op f))
             (fun g => okb L g && isinst L (root_op g) (required L (root_op f)))).
  2:{ apply Forall_forall. intros g _. apply ok_child_okb. }
  destruct (in_alphabet L (root_op f)); cbn [negb andb]; [|reflexivity].
  match goal with |- context [if ?b then _ else _] => destruct b end; reflexivity.
Qed.

(* ------------------------------------------------------------------------- *)
(* per-language characterisations                                              *)
(* ------------------------------------------------------------------------- *)
Lemma Forall_impl' : forall (A : Type) (P Q : A -> Prop) (l : list A),
  (forall x, P x -> Q x) -> Forall P l -> Forall Q l.
Proof. intros A P Q l H HF. induction HF; constructor; auto. Qed.

Lemma okb_PL : forall f, okb PL f = pl_ok f.
Proof.
  induction f as [b|a|g IHg|fs IHfs|fs IHfs|g h IHg IHh|g IHg|g IHg|g IHg|g h IHg IHh|g h IHg IHh|g IHg|g IHg]
    using form_ind'; rewrite okb_unfold;
    cbn [root_op children in_alphabet forallb isinst required pl_ok andb];
    try reflexivity.
  - rewrite IHg. rewrite !andb_true_r. reflexivity.
  - apply forallb_ext_Forall. eapply Forall_impl'; [|exact IHfs].
    cbv beta. intros x Hx. rewrite Hx. apply andb_true_r.
  - apply forallb_ext_Forall. eapply Forall_impl'; [|exact IHfs].
    cbv beta. intros x Hx. rewrite Hx. apply andb_true_r.
  - rewrite IHg, IHh. rewrite !andb_true_r. reflexivity.
Qed.

Lemma okb_CTLS : forall f, okb CTLS f = true.
Proof.
  induction f as [b|a|g IHg|fs IHfs|fs IHfs|g h IHg IHh|g IHg|g IHg|g IHg|g h IHg IHh|g h IHg IHh|g IHg|g IHg]
    using form_ind'; rewrite okb_unfold;
    cbn [root_op children in_alphabet forallb isinst required andb];
    try reflexivity;
    try (rewrite ?IHg, ?IHh; reflexivity);
    (apply forallb_forall; intros x Hx; rewrite Forall_forall in IHfs;
     rewrite (IHfs x Hx); reflexivity).
Qed.

Lemma okb_CTL : forall f,
  okb CTL f && negb (is_temporal_op (root_op f)) = ctl_state f /\
  okb CTL f && is_temporal_op (root_op f) = ctl_path f.
Proof.
  induction f as [b|a|g IHg|fs IHfs|fs IHfs|g h IHg IHh|g IHg|g IHg|g IHg|g h IHg IHh|g h IHg IHh|g IHg|g IHg]
    using form_ind'; rewrite okb_unfold;
    cbn [root_op children in_alphabet forallb isinst required is_quant_op is_temporal_op
         negb andb ctl_path];
    try (destruct IHg as [IHg1 IHg2]); try (destruct IHh as [IHh1 IHh2]);
    rewrite ?andb_true_r, ?andb_false_r.
  - split; reflexivity.
  - split; reflexivity.
  - split; [|reflexivity]. rewrite IHg1. reflexivity.
  - split; [|reflexivity]. cbn [ctl_state]. apply forallb_ext_Forall.
    eapply Forall_impl'; [|exact IHfs]. cbv beta. intros x [Hx _]. exact Hx.
  - split; [|reflexivity]. cbn [ctl_state]. apply forallb_ext_Forall.
    eapply Forall_impl'; [|exact IHfs]. cbv beta. intros x [Hx _]. exact Hx.
  - split; [|reflexivity]. rewrite IHg1, IHh1. reflexivity.
  - split; [reflexivity|]. exact IHg1.
  - split; [reflexivity|]. exact IHg1.
  - split; [reflexivity|]. exact IHg1.
  - split; [reflexivity|]. rewrite IHg1, IHh1. reflexivity.
  - split; [reflexivity|]. rewrite IHg1, IHh1. reflexivity.
  - split; [|reflexivity]. rewrite IHg2. reflexivity.
  - split; [|reflexivity]. rewrite IHg2. reflexivity.
Qed.

Lemma okb_LTL : forall f,
  okb LTL f && negb (is_quant_op (root_op f)) = ltl_path f /\
  okb LTL f && is_quant_op (root_op f) = ltl_state f.
Proof.
  induction f as [b|a|g IHg|fs IHfs|fs IHfs|g h IHg IHh|g IHg|g IHg|g IHg|g h IHg IHh|g h IHg IHh|g IHg|g IHg]
    using form_ind'; rewrite okb_unfold;
    cbn [root_op children in_alphabet forallb isinst required is_quant_op
         negb andb ltl_state];
    try (destruct IHg as [IHg1 IHg2]); try (destruct IHh as [IHh1 IHh2]);
    rewrite ?andb_true_r, ?andb_false_r.
  - split; reflexivity.
  - split; reflexivity.
  - split; [|reflexivity]. rewrite IHg1. reflexivity.
  - split; [|reflexivity]. cbn [ltl_path]. apply forallb_ext_Forall.
    eapply Forall_impl'; [|exact IHfs]. cbv beta. intros x [Hx _]. exact Hx.
  - split; [|reflexivity]. cbn [ltl_path]. apply forallb_ext_Forall.
    eapply Forall_impl'; [|exact IHfs]. cbv beta. intros x [Hx _]. exact Hx.
  - split; [|reflexivity]. rewrite IHg1, IHh1. reflexivity.
  - split; [|reflexivity]. rewrite IHg1. reflexivity.
  - split; [|reflexivity]. rewrite IHg1. reflexivity.
  - split; [|reflexivity]. rewrite IHg1. reflexivity.
  - split; [|reflexivity]. rewrite IHg1, IHh1. reflexivity.
  - split; [|reflexivity]. rewrite IHg1, IHh1. reflexivity.
  - split; [reflexivity|]. exact IHg1.
  - split; reflexivity.
Qed.

Lemma split_bool : forall b c, b = b && negb c || b && c.
Proof. intros [|] [|]; reflexivity. Qed.

Theorem okb_member : forall L f, okb L f = member L f.
Proof.
  intros L f. destruct L; cbn [member].
  - apply okb_PL.
  - apply okb_CTLS.
  - destruct (okb_CTL f) as [H1 H2]. rewrite <- H1, <- H2. apply split_bool.
  - destruct (okb_LTL f) as [H1 H2]. rewrite <- H1, <- H2. apply split_bool.
Qed.

(* Theorem 2 *)
Theorem cast_member : forall L f, cast L f = Ok f <-> member L f = true.
Proof. intros L f. rewrite <- okb_member. symmetry. apply okb_true. Qed.

Theorem cast_not_member : forall L f, cast L f = TypeErr <-> member L f = false.
Proof. intros L f. rewrite <- okb_member. symmetry. apply okb_false. Qed.

(* the class of a member, used by the constructors *)
Lemma ctl_state_not_temporal : forall f, ctl_state f = true -> is_temporal_op (root_op f) = false.
Proof.
  intros f H. destruct (okb_CTL f) as [H1 _]. rewrite H in H1.
  apply andb_true_iff in H1. destruct H1 as [_ H1]. apply negb_true_iff in H1. exact H1.
Qed.
Lemma ctl_path_temporal : forall f, ctl_path f = true -> is_temporal_op (root_op f) = true.
Proof.
  intros f H. destruct (okb_CTL f) as [_ H2]. rewrite H in H2.
  apply andb_true_iff in H2. tauto.
Qed.
Theorem member_CTL_state : forall f,
  ctl_state f = member CTL f && isinst CTL (root_op f) TState.
Proof. intros f. rewrite <- okb_member. cbn [isinst]. symmetry. apply okb_CTL. Qed.
Theorem member_CTL_path : forall f,
  ctl_path f = member CTL f && isinst CTL (root_op f) TPath.
Proof. intros f. rewrite <- okb_member. cbn [isinst]. symmetry. apply okb_CTL. Qed.
Theorem member_LTL_path : forall f,
  ltl_path f = member LTL f && isinst LTL (root_op f) TPath.
Proof. intros f. rewrite <- okb_member. cbn [isinst]. symmetry. apply okb_LTL. Qed.
Theorem member_LTL_state : forall f,
  ltl_state f = member LTL f && isinst LTL (root_op f) TState.
Proof. intros f. rewrite <- okb_member. cbn [isinst]. symmetry. apply okb_LTL. Qed.

(* one-step (grammar-rule) reading of membership *)
Theorem member_unfold : forall L f,
  member L f = in_alphabet L (root_op f) &&
               forallb (fun g => member L g && isinst L (root_op g) (required L (root_op f)))
                       (children f).
Proof.
  intros L f. rewrite <- okb_member, okb_unfold. f_equal.
  apply forallb_ext_Forall. apply Forall_forall. intros g _. rewrite okb_member. reflexivity.
Qed.

(* ------------------------------------------------------------------------- *)
(* Theorem 3: cast_to                                                          *)
(* ------------------------------------------------------------------------- *)
Theorem cast_to_spec : forall L o,
  (forall o', cast_to L o = Ok o' -> fst o' = L /\ snd o' = snd o /\ wf_obj o') /\
  (cast_to L o = TypeErr <-> member L (snd o) = false).
Proof.
  intros L [L0 f]. unfold cast_to, rmap, wf_obj. cbn [snd].
  destruct (cast_result L f) as [H|H]; rewrite H; cbn [rbind].
  - split.
    + intros o' Ho'. injection Ho' as <-. cbn [fst snd].
      repeat split. apply cast_member. exact H.
    + apply cast_member in H. rewrite H. split; discriminate.
  - split.
    + intros o' Ho'. discriminate.
    + apply cast_not_member in H. rewrite H. split; reflexivity.
Qed.

Corollary cast_to_ok : forall L o o',
  cast_to L o = Ok o' -> fst o' = L /\ snd o' = snd o /\ wf_obj o'.
Proof. intros L o. apply (proj1 (cast_to_spec L o)). Qed.

Corollary cast_to_typeerr : forall L o,
  cast_to L o = TypeErr <-> member L (snd o) = false.
Proof. intros L o. apply (proj2 (cast_to_spec L o)). Qed.

Corollary cast_to_total : forall L o,
  cast_to L o = Ok (L, snd o) \/ cast_to L o = TypeErr.
Proof.
  intros L [L0 f]. unfold cast_to, rmap. cbn [snd].
  destruct (cast_result L f) as [H|H]; rewrite H; [left|right]; reflexivity.
Qed.

Corollary cast_to_ok_iff : forall L o,
  cast_to L o = Ok (L, snd o) <-> member L (snd o) = true.
Proof.
  intros L o. destruct (cast_to_total L o) as [H|H].
  - split; [intros _|intros _; exact H].
    destruct (member L (snd o)) eqn:E; [reflexivity|].
    apply cast_to_typeerr in E. rewrite E in H. discriminate.
  - split; [intros H'; rewrite H' in H; discriminate|].
    apply cast_to_typeerr in H. intros H'. rewrite H' in H. discriminate.
Qed.

(* ------------------------------------------------------------------------- *)
(* Theorem 4: mk                                                               *)
(* ------------------------------------------------------------------------- *)
Definition wrap (L : lang) (o : op) (a : obj) : result form :=
  rbind (if lang_eqb (fst a) L then Ok (snd a) else cast L (snd a))
        (fun g => if isinst L (root_op g) (required L o) then Ok g else TypeErr).

Lemma lang_eqb_eq : forall a b, lang_eqb a b = true -> a = b.
Proof. intros [] []; cbn; intro H; try reflexivity; discriminate. Qed.

Lemma wrap_spec : forall L o a, wf_obj a ->
  wrap L o a =
  if member L (snd a) && isinst L (root_op (snd a)) (required L o) then Ok (snd a) else TypeErr.
Proof.
  intros L o [La f] Hwf. unfold wrap, wf_obj in *. cbn [fst snd] in *.
  destruct (lang_eqb La L) eqn:E.
  - apply lang_eqb_eq in E. subst La. rewrite Hwf. cbn [rbind andb]. reflexivity.
  - destruct (member L f) eqn:M.
    + apply cast_member in M. rewrite M. cbn [rbind andb]. reflexivity.
    + apply cast_not_member in M. rewrite M. reflexivity.
Qed.

Lemma rmapM_wrap : forall L o args, Forall wf_obj args ->
  rmapM (wrap L o) args =
  if forallb (fun g => member L g && isinst L (root_op g) (required L o)) (map snd args)
  then Ok (map snd args) else TypeErr.
Proof.
  intros L o args H. induction H as [|a r Ha _ IH]; [reflexivity|].
  cbn [rmapM map forallb]. rewrite (wrap_spec L o a Ha), IH.
  destruct (member L (snd a) && isinst L (root_op (snd a)) (required L o)); cbn [rbind andb];
    [|reflexivity].
  match goal with |- context [if ?b then _ else _] => destruct b end; reflexivity.
Qed.

Lemma build_root_children : forall o gs, arity_matches o (length gs) = true ->
  root_op (build o gs) = o /\ children (build o gs) = gs.
Proof.
  intros o gs H.
  destruct o; cbn [arity_matches] in H;
    try (destruct gs as [|g1 [|g2 [|g3 gs]]]; cbn in H; try discriminate H; split; reflexivity);
    split; reflexivity.
Qed.

Lemma mk_eq : forall L o args, Forall wf_obj args ->
  mk L o args =
  if in_alphabet L o && arity_matches o (length args) && member L (build o (map snd args))
  then Ok (L, build o (map snd args)) else TypeErr.
Proof.
  intros L o args H. unfold mk. fold (wrap L o).
  destruct (in_alphabet L o) eqn:EA; cbn [negb orb andb]; [|reflexivity].
  destruct (arity_matches o (length args)) eqn:EM; cbn [negb andb]; [|reflexivity].
  rewrite (rmapM_wrap L o args H).
  rewrite (member_unfold L (build o (map snd args))).
  assert (EM' : arity_matches o (length (map snd args)) = true) by (rewrite map_length; exact EM).
  destruct (build_root_children o (map snd args) EM') as [Hr Hc].
  rewrite Hr, Hc, EA. cbn [andb].
  match goal with |- context [if ?b then _ else _] => destruct b end; reflexivity.
Qed.

Theorem mk_spec : forall L o args, Forall wf_obj args ->
  (mk L o args = Ok (L, build o (map snd args)) /\
   member L (build o (map snd args)) = true /\
   arity_matches o (length args) = true /\
   in_alphabet L o = true)
  \/ mk L o args = TypeErr.
Proof.
  intros L o args H. rewrite (mk_eq L o args H).
  destruct (in_alphabet L o); cbn [andb]; [|right; reflexivity].
  destruct (arity_matches o (length args)); cbn [andb]; [|right; reflexivity].
  destruct (member L (build o (map snd args))); [left|right]; repeat split; reflexivity.
Qed.

Theorem mk_ok_iff : forall L o args r, Forall wf_obj args ->
  (mk L o args = Ok r <->
   r = (L, build o (map snd args)) /\
   in_alphabet L o = true /\
   arity_matches o (length args) = true /\
   member L (build o (map snd args)) = true).
Proof.
  intros L o args r H. rewrite (mk_eq L o args H).
  destruct (in_alphabet L o); cbn [andb].
  2:{ split; [discriminate|]. intros (_ & H0 & _). discriminate. }
  destruct (arity_matches o (length args)); cbn [andb].
  2:{ split; [discriminate|]. intros (_ & _ & H0 & _). discriminate. }
  destruct (member L (build o (map snd args))).
  - split.
    + intros H0. injection H0 as <-. repeat split; reflexivity.
    + intros (-> & _). reflexivity.
  - split; [discriminate|]. intros (_ & _ & _ & H0). discriminate.
Qed.

(* the form asked for: existence of a result *)
Theorem mk_ok_iff_ex : forall L o args, Forall wf_obj args ->
  ((exists r, mk L o args = Ok r) <->
   in_alphabet L o = true /\
   arity_matches o (length args) = true /\
   member L (build o (map snd args)) = true).
Proof.
  intros L o args H. split.
  - intros [r Hr]. apply (mk_ok_iff L o args r H) in Hr. tauto.
  - intros H0. exists (L, build o (map snd args)). apply (mk_ok_iff L o args _ H). tauto.
Qed.

Theorem mk_typeerr_iff : forall L o args, Forall wf_obj args ->
  (mk L o args = TypeErr <->
   in_alphabet L o = false \/
   arity_matches o (length args) = false \/
   member L (build o (map snd args)) = false).
Proof.
  intros L o args H. rewrite (mk_eq L o args H).
  destruct (in_alphabet L o); cbn [andb]; [|split; auto].
  destruct (arity_matches o (length args)); cbn [andb]; [|split; auto].
  destruct (member L (build o (map snd args))).
  - split; [discriminate|]. intros [H0|[H0|H0]]; discriminate.
  - split; auto.
Qed.

(* every object that can be built is a member of its language *)
Theorem mk_wf : forall L o args r, Forall wf_obj args -> mk L o args = Ok r -> wf_obj r.
Proof.
  intros L o args r H Hr. apply (mk_ok_iff L o args r H) in Hr.
  destruct Hr as (-> & _ & _ & Hm). exact Hm.
Qed.

(* every (arity-correct) well-formed tree can be built from well-formed operands *)
Lemma member_children : forall L f g, member L f = true -> In g (children f) -> member L g = true.
Proof.
  intros L f g H Hin. rewrite member_unfold in H. apply andb_true_iff in H.
  destruct H as [_ H]. rewrite forallb_forall in H. specialize (H g Hin).
  apply andb_true_iff in H. tauto.
Qed.

Lemma build_root_children_id : forall f, build (root_op f) (children f) = f.
Proof. destruct f; reflexivity. Qed.

Theorem mk_complete : forall L f,
  member L f = true ->
  arity_matches (root_op f) (length (children f)) = true ->
  mk L (root_op f) (map (fun g => (L, g)) (children f)) = Ok (L, f).
Proof.
  intros L f Hm Ha.
  assert (Hs : map snd (map (fun g => (L, g)) (children f)) = children f).
  { rewrite map_map. cbn [snd]. apply map_id. }
  apply mk_ok_iff.
  - apply Forall_forall. intros a Ha'. apply in_map_iff in Ha'.
    destruct Ha' as (g & <- & Hg). unfold wf_obj. cbn [fst snd].
    eapply member_children; eauto.
  - rewrite Hs, build_root_children_id, map_length.
    repeat split; try assumption.
    rewrite member_unfold in Hm. apply andb_true_iff in Hm. tauto.
Qed.

(* arity_ok trees have matching arity at the root *)
Lemma arity_ok_root : forall f, arity_ok f = true ->
  arity_matches (root_op f) (length (children f)) = true.
Proof.
  intros f H. destruct f; cbn in *; try reflexivity;
    apply andb_true_iff in H; tauto.
Qed.

(* ------------------------------------------------------------------------- *)
(* Theorem 5: guards of the model checkers                                     *)
(* ------------------------------------------------------------------------- *)
Theorem ctl_modelcheck_guard : forall K f,
  ctl_modelcheck K f <> TypeErr -> ctl_state f = true.
Proof.
  intros K f H. unfold ctl_modelcheck in H.
  destruct (ctl_state f); [reflexivity|]. exfalso. apply H. reflexivity.
Qed.

Theorem ctl_modelcheck_reject : forall K f,
  ctl_state f = false -> ctl_modelcheck K f = TypeErr.
Proof. intros K f H. unfold ctl_modelcheck. rewrite H. reflexivity. Qed.

Theorem ltl_modelcheck_guard : forall K f,
  ltl_modelcheck K f = TypeErr <-> ltl_state f = false.
Proof.
  intros K f. unfold ltl_modelcheck, ltl_state.
  destruct f; try (split; reflexivity).
  destruct (ltl_path f); split; intro H; try reflexivity; discriminate.
Qed.

(* objects accepted by the model checkers are exactly the state formulas of the module *)
Corollary ctl_state_member : forall f, ctl_state f = true -> member CTL f = true.
Proof. intros f H. cbn [member]. rewrite H. reflexivity. Qed.
Corollary ltl_state_member : forall f, ltl_state f = true -> member LTL f = true.
Proof. intros f H. cbn [member]. rewrite H. apply orb_true_r. Qed.

(* ------------------------------------------------------------------------- *)
(* Theorem 6: inclusions between the grammars                                  *)
(* ------------------------------------------------------------------------- *)
Lemma forallb_impl_Forall : forall (A : Type) (p q : A -> bool) (l : list A),
  Forall (fun x => p x = true -> q x = true) l -> forallb p l = true -> forallb q l = true.
Proof.
  intros A p q l H. induction H as [|x xs Hx _ IH]; [reflexivity|].
  cbn [forallb]. intros H0. apply andb_true_iff in H0. destruct H0 as [H1 H2].
  rewrite (Hx H1), (IH H2). reflexivity.
Qed.

Theorem pl_incl : forall f, pl_ok f = true ->
  ctl_state f = true /\ ltl_path f = true /\ ctls_state f = true.
Proof.
  induction f as [b|a|g IHg|fs IHfs|fs IHfs|g h IHg IHh|g IHg|g IHg|g IHg|g h IHg IHh|g h IHg IHh|g IHg|g IHg]
    using form_ind'; cbn [pl_ok ctl_state ltl_path ctls_state]; intro H;
    try discriminate H; try (repeat split; reflexivity).
  - apply IHg. exact H.
  - repeat split; (eapply forallb_impl_Forall; [|exact H]);
      (eapply Forall_impl'; [|exact IHfs]); cbv beta; intros x Hx Hp; apply Hx; exact Hp.
  - repeat split; (eapply forallb_impl_Forall; [|exact H]);
      (eapply Forall_impl'; [|exact IHfs]); cbv beta; intros x Hx Hp; apply Hx; exact Hp.
  - apply andb_true_iff in H. destruct H as [H1 H2].
    destruct (IHg H1) as (A1 & A2 & A3). destruct (IHh H2) as (B1 & B2 & B3).
    rewrite A1, A2, A3, B1, B2, B3. repeat split; reflexivity.
Qed.

Theorem ctl_state_ctls_state : forall f, ctl_state f = true -> ctls_state f = true.
Proof.
  induction f as [b|a|g IHg|fs IHfs|fs IHfs|g h IHg IHh|g IHg|g IHg|g IHg|g h IHg IHh|g h IHg IHh|g IHg|g IHg]
    using form_ind'; cbn [ctl_state ctls_state]; intro H;
    try discriminate H; try reflexivity.
  - apply IHg. exact H.
  - eapply forallb_impl_Forall; [|exact H]. exact IHfs.
  - eapply forallb_impl_Forall; [|exact H]. exact IHfs.
  - apply andb_true_iff in H. destruct H as [H1 H2]. rewrite (IHg H1), (IHh H2). reflexivity.
Qed.

Theorem ltl_state_ctls_state : forall f, ltl_state f = true -> ctls_state f = true.
Proof. intros f H. destruct f; try discriminate H. reflexivity. Qed.

(* the module inclusions: PL objects cast to every module, everything casts to CTLS *)
Corollary member_PL_all : forall L f, member PL f = true -> member L f = true.
Proof.
  intros L f H. cbn [member] in H. destruct (pl_incl f H) as (H1 & H2 & H3).
  destruct L; cbn [member]; try assumption; try reflexivity.
  - rewrite H1. reflexivity.
  - rewrite H2. reflexivity.
Qed.
Corollary member_CTLS_top : forall L f, member L f = true -> member CTLS f = true.
Proof. reflexivity. Qed.

(* ------------------------------------------------------------------------- *)
(* Theorem 7: non-vacuity                                                      *)
(* ------------------------------------------------------------------------- *)
Import Coq.Strings.String.StringSyntax.
Local Open Scope string_scope.

Example ex_mk_ctl_ok :
  rbind (mk CTL OG [(CTL, FAtom "p")]) (fun g => mk CTL OA [g]) = Ok (CTL, FA (FG (FAtom "p"))).
Proof. vm_compute. reflexivity. Qed.

Example ex_mk_ctl_from_pl :
  mk CTL OU [(PL, FOr [FAtom "p"; FAtom "q"]); (CTL, FE (FX (FAtom "q")))]
  = Ok (CTL, FU (FOr [FAtom "p"; FAtom "q"]) (FE (FX (FAtom "q")))).
Proof. vm_compute. reflexivity. Qed.

Example ex_mk_ctl_A_atom : mk CTL OA [(CTL, FAtom "p")] = TypeErr.
Proof. vm_compute. reflexivity. Qed.

Example ex_mk_ctl_nested_path : mk CTL OX [(CTL, FG (FAtom "p"))] = TypeErr.
Proof. vm_compute. reflexivity. Qed.

Example ex_mk_ltl_E : forall args, mk LTL OE args = TypeErr.
Proof. intros args. reflexivity. Qed.

Example ex_mk_ltl_A_inside : mk LTL ONot [(LTL, FA (FAtom "p"))] = TypeErr.
Proof. vm_compute. reflexivity. Qed.

Example ex_mk_pl_X : mk PL OX [(PL, FAtom "p")] = TypeErr.
Proof. vm_compute. reflexivity. Qed.

Example ex_mk_arity : mk CTLS OOr [(CTLS, FAtom "p")] = TypeErr.
Proof. vm_compute. reflexivity. Qed.

Example ex_cast_ctl_ok :
  cast_to CTL (CTLS, FA (FG (FAtom "p"))) = Ok (CTL, FA (FG (FAtom "p"))).
Proof. vm_compute. reflexivity. Qed.

Example ex_cast_ctl_err : cast_to CTL (CTLS, FA (FAtom "p")) = TypeErr.
Proof. vm_compute. reflexivity. Qed.

Example ex_cast_ltl_err : cast_to LTL (CTLS, FNot (FA (FAtom "p"))) = TypeErr.
Proof. vm_compute. reflexivity. Qed.

Example ex_cast_ltl_ok :
  cast_to LTL (CTLS, FA (FU (FAtom "p") (FX (FAtom "q")))) = Ok (LTL, FA (FU (FAtom "p") (FX (FAtom "q")))).
Proof. vm_compute. reflexivity. Qed.

(* cast does not look at arities: a unary "or" is a member although it cannot be built *)
Example ex_cast_unary_or : cast_to PL (CTLS, FOr [FAtom "p"]) = Ok (PL, FOr [FAtom "p"]).
Proof. vm_compute. reflexivity. Qed.

Print Assumptions cast_result.
Print Assumptions cast_member.
Print Assumptions cast_to_spec.
Print Assumptions mk_spec.
Print Assumptions mk_ok_iff.
Print Assumptions mk_wf.
Print Assumptions mk_complete.
Print Assumptions ltl_modelcheck_guard.
Print Assumptions pl_incl.
