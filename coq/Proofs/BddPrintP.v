(* BddPrintP.v — print -> parse round trip of Model/BExp.v:
   [pyparse (print_root s n)] succeeds, denotes the same Boolean function as the
   node, mentions only variables of reachable nodes; and
   [reparse_root] (OBDD(str(o.root), o.ordering)) gives back the identical root.
   Axiom-free. *)
From PMC Require Import Spec.BoolFun Proofs.BddP.
From Coq Require Import Lia.

(* ------------------------------------------------------------------ *)
(** * Variables of an expression, absence of [BBad] (obvious structural definitions) *)

Fixpoint bvars (e : bexp) : list var :=
  match e with
  | BVar v => [v]
  | BConst _ => []
  | BNot e1 => bvars e1
  | BAnd e1 e2 => bvars e1 ++ bvars e2
  | BOr e1 e2 => bvars e1 ++ bvars e2
  | BAndL es => flat_map bvars es
  | BOrL es => flat_map bvars es
  | BBad => []
  end.

Fixpoint no_bad (e : bexp) : bool :=
  match e with
  | BVar _ => true
  | BConst _ => true
  | BNot e1 => no_bad e1
  | BAnd e1 e2 => no_bad e1 && no_bad e2
  | BOr e1 e2 => no_bad e1 && no_bad e2
  | BAndL es => forallb no_bad es
  | BOrL es => forallb no_bad es
  | BBad => false
  end.

(* ------------------------------------------------------------------ *)
(** * Top-level copies of the local loops of the parser *)

Definition and_tail (f : nat) : nat -> bexp -> list tok -> option (bexp * list tok) :=
  fix and_tail (k : nat) (acc : bexp) (ts : list tok) : option (bexp * list tok) :=
    match k with
    | 0 => None
    | S k' =>
        match ts with
        | TAnd :: r => match pyparse_not f r with
                       | Some (e, r') => and_tail k' (BAnd acc e) r'
                       | None => None
                       end
        | _ => Some (acc, ts)
        end
    end.

Definition or_tail (f : nat) : nat -> bexp -> list tok -> option (bexp * list tok) :=
  fix or_tail (k : nat) (acc : bexp) (ts : list tok) : option (bexp * list tok) :=
    match k with
    | 0 => None
    | S k' =>
        match ts with
        | TOr :: r => match pyparse_and f r with
                      | Some (e, r') => or_tail k' (BOr acc e) r'
                      | None => None
                      end
        | _ => Some (acc, ts)
        end
    end.

Lemma pyparse_or_S f ts : pyparse_or (S f) ts =
  match pyparse_and f ts with
  | Some (e, r) => or_tail f (S (List.length r)) e r
  | None => None
  end.
Proof. reflexivity. Qed.

Lemma pyparse_and_S f ts : pyparse_and (S f) ts =
  match pyparse_not f ts with
  | Some (e, r) => and_tail f (S (List.length r)) e r
  | None => None
  end.
Proof. reflexivity. Qed.

Lemma pyparse_not_S f ts : pyparse_not (S f) ts =
  match ts with
  | TNot :: r => match pyparse_not f r with
                 | Some (e, r') => Some (BNot e, r')
                 | None => None
                 end
  | TVar v :: r => Some (BVar v, r)
  | TOne :: r => Some (BConst true, r)
  | TZero :: r => Some (BConst false, r)
  | TLp :: r => match pyparse_or f r with
                | Some (e, TRp :: r') => Some (e, r')
                | _ => None
                end
  | _ => None
  end.
Proof. reflexivity. Qed.

(* ------------------------------------------------------------------ *)
(** * The shapes the printer produces, as trees *)

Inductive ptree : Type :=
| PLit (neg : bool) (v : var)                (* v   or  ~v *)
| PAnd (neg : bool) (v : var) (c : ptree)    (* lit & c    (c parenthesised iff it is a POr) *)
| POr (a b : ptree).                         (* (a) | (b) *)

Definition lit_toks (neg : bool) (v : var) : list tok :=
  if neg then [TNot; TVar v] else [TVar v].
Definition lit_exp (neg : bool) (v : var) : bexp :=
  if neg then BNot (BVar v) else BVar v.
Definition is_or (t : ptree) : bool := match t with POr _ _ => true | _ => false end.

Fixpoint ptoks (t : ptree) : list tok :=
  match t with
  | PLit neg v => lit_toks neg v
  | PAnd neg v c =>
      lit_toks neg v ++ [TAnd] ++ (if is_or c then [TLp] ++ ptoks c ++ [TRp] else ptoks c)
  | POr a b => [TLp] ++ ptoks a ++ [TRp; TOr; TLp] ++ ptoks b ++ [TRp]
  end.
Definition ptoks' (t : ptree) : list tok :=
  if is_or t then [TLp] ++ ptoks t ++ [TRp] else ptoks t.

(* what the (left-associative) parser makes of it *)
Fixpoint pexp (t : ptree) : bexp :=
  match t with
  | PLit neg v => lit_exp neg v
  | PAnd neg v c => chain (lit_exp neg v) c
  | POr a b => BOr (pexp a) (pexp b)
  end
with chain (acc : bexp) (t : ptree) : bexp :=
  match t with
  | PLit neg v => BAnd acc (lit_exp neg v)
  | PAnd neg v c => chain (BAnd acc (lit_exp neg v)) c
  | POr a b => BAnd acc (BOr (pexp a) (pexp b))
  end.

(* meaning and variables of a tree *)
Definition lit_sem (neg : bool) (v : var) (en : env) : bool := if neg then negb (en v) else en v.
Fixpoint psem (t : ptree) (en : env) : bool :=
  match t with
  | PLit neg v => lit_sem neg v en
  | PAnd neg v c => lit_sem neg v en && psem c en
  | POr a b => psem a en || psem b en
  end.
Fixpoint pvars (t : ptree) : list var :=
  match t with
  | PLit _ v => [v]
  | PAnd _ v c => v :: pvars c
  | POr a b => pvars a ++ pvars b
  end.

Lemma lit_exp_sem neg v en : beval (lit_exp neg v) en = lit_sem neg v en.
Proof. destruct neg; reflexivity. Qed.
Lemma lit_exp_vars neg v : bvars (lit_exp neg v) = [v].
Proof. destruct neg; reflexivity. Qed.
Lemma lit_exp_no_bad neg v : no_bad (lit_exp neg v) = true.
Proof. destruct neg; reflexivity. Qed.

Lemma pexp_sem t :
  (forall en, beval (pexp t) en = psem t en) /\
  (forall acc en, beval (chain acc t) en = beval acc en && psem t en).
Proof.
  induction t as [neg v|neg v c [IHc1 IHc2]|a [IHa _] b [IHb _]]; (split;
    [intros en|intros acc en]); cbn [pexp chain psem beval].
  - apply lit_exp_sem.
  - rewrite lit_exp_sem. reflexivity.
  - rewrite IHc2, lit_exp_sem. reflexivity.
  - rewrite IHc2. cbn [beval]. rewrite lit_exp_sem, andb_assoc. reflexivity.
  - rewrite IHa, IHb. reflexivity.
  - rewrite IHa, IHb. reflexivity.
Qed.

Lemma pexp_vars t :
  (forall x, In x (bvars (pexp t)) -> In x (pvars t)) /\
  (forall acc x, In x (bvars (chain acc t)) -> In x (bvars acc) \/ In x (pvars t)).
Proof.
  induction t as [neg v|neg v c [IHc1 IHc2]|a [IHa _] b [IHb _]]; (split;
    [intros x H|intros acc x H]); cbn [pexp chain pvars bvars] in *.
  - rewrite lit_exp_vars in H. exact H.
  - rewrite in_app_iff, lit_exp_vars in H. exact H.
  - apply IHc2 in H. rewrite lit_exp_vars in H. cbn in *. tauto.
  - apply IHc2 in H. cbn [bvars] in H. rewrite in_app_iff, lit_exp_vars in H. cbn in *. tauto.
  - rewrite in_app_iff in *. destruct H as [H|H]; [left; apply IHa|right; apply IHb]; exact H.
  - rewrite !in_app_iff in *. destruct H as [H|[H|H]]; auto.
Qed.

Lemma pexp_no_bad t :
  no_bad (pexp t) = true /\ (forall acc, no_bad acc = true -> no_bad (chain acc t) = true).
Proof.
  induction t as [neg v|neg v c [IHc1 IHc2]|a [IHa _] b [IHb _]]; (split;
    [|intros acc H]); cbn [pexp chain no_bad].
  - apply lit_exp_no_bad.
  - rewrite H, lit_exp_no_bad. reflexivity.
  - apply IHc2, lit_exp_no_bad.
  - apply IHc2. cbn [no_bad]. rewrite H, lit_exp_no_bad. reflexivity.
  - rewrite IHa, IHb. reflexivity.
  - rewrite H, IHa, IHb. reflexivity.
Qed.

(* ------------------------------------------------------------------ *)
(** * The parser inverts [ptoks] *)

(* what may follow a complete printed expression: the end or a closing parenthesis *)
Definition closing (r : list tok) : Prop :=
  match r with [] => True | TRp :: _ => True | _ => False end.
Definition no_and (r : list tok) : Prop :=
  match r with TAnd :: _ => False | _ => True end.
Definition no_or (r : list tok) : Prop :=
  match r with TOr :: _ => False | _ => True end.

Lemma closing_no_and r : closing r -> no_and r.
Proof. destruct r as [|[] r]; cbn; auto. Qed.
Lemma closing_no_or r : closing r -> no_or r.
Proof. destruct r as [|[] r]; cbn; auto. Qed.

Lemma and_tail_stop f k acc r : no_and r -> and_tail f (S k) acc r = Some (acc, r).
Proof. destruct r as [|[] r]; cbn; intros H; try reflexivity. contradiction. Qed.
Lemma or_tail_stop f k acc r : no_or r -> or_tail f (S k) acc r = Some (acc, r).
Proof. destruct r as [|[] r]; cbn; intros H; try reflexivity. contradiction. Qed.

Lemma and_tail_step f k acc r : and_tail f (S k) acc (TAnd :: r) =
  match pyparse_not f r with
  | Some (e, r') => and_tail f k (BAnd acc e) r'
  | None => None
  end.
Proof. reflexivity. Qed.
Lemma or_tail_step f k acc r : or_tail f (S k) acc (TOr :: r) =
  match pyparse_and f r with
  | Some (e, r') => or_tail f k (BOr acc e) r'
  | None => None
  end.
Proof. reflexivity. Qed.

Lemma parse_lit f neg v r : 2 <= f -> pyparse_not f (lit_toks neg v ++ r) = Some (lit_exp neg v, r).
Proof.
  intros Hf. destruct f as [|[|f]]; try lia. destruct neg; reflexivity.
Qed.

Lemma parse_paren f ts e r : pyparse_or f ts = Some (e, TRp :: r) ->
  pyparse_not (S f) (TLp :: ts) = Some (e, r).
Proof. intros H. rewrite pyparse_not_S, H. reflexivity. Qed.

Lemma parse_and_single f ts e r : pyparse_not f ts = Some (e, r) -> no_and r ->
  pyparse_and (S f) ts = Some (e, r).
Proof. intros H Hr. rewrite pyparse_and_S, H. apply and_tail_stop, Hr. Qed.

Lemma parse_or_single f ts e r : pyparse_and f ts = Some (e, r) -> no_or r ->
  pyparse_or (S f) ts = Some (e, r).
Proof. intros H Hr. rewrite pyparse_or_S, H. apply or_tail_stop, Hr. Qed.

Lemma ptoks_or_app a b rest :
  ptoks (POr a b) ++ rest = TLp :: ptoks a ++ TRp :: TOr :: TLp :: ptoks b ++ TRp :: rest.
Proof. cbn [ptoks]. repeat (rewrite <- ?app_assoc; cbn [app]). reflexivity. Qed.
Lemma ptoks_and_app neg v c rest :
  ptoks (PAnd neg v c) ++ rest = lit_toks neg v ++ TAnd :: ptoks' c ++ rest.
Proof. cbn [ptoks]. fold (ptoks' c). repeat (rewrite <- ?app_assoc; cbn [app]). reflexivity. Qed.
Lemma ptoks'_or_app a b rest :
  ptoks' (POr a b) ++ rest = TLp :: ptoks (POr a b) ++ TRp :: rest.
Proof. unfold ptoks'. cbn [is_or]. repeat (rewrite <- ?app_assoc; cbn [app]). reflexivity. Qed.

Lemma lit_toks_len neg v : 1 <= List.length (lit_toks neg v) <= 2.
Proof. destruct neg; cbn; lia. Qed.
Lemma ptoks_or_len a b :
  List.length (ptoks (POr a b)) = List.length (ptoks a) + List.length (ptoks b) + 5.
Proof. cbn [ptoks]. repeat (rewrite ?app_length; cbn [List.length app]). lia. Qed.
Lemma ptoks_and_len neg v c :
  List.length (ptoks (PAnd neg v c)) = List.length (lit_toks neg v) + 1 + List.length (ptoks' c).
Proof. cbn [ptoks]. fold (ptoks' c). repeat (rewrite ?app_length; cbn [List.length app]). lia. Qed.
Lemma ptoks'_len t : List.length (ptoks t) <= List.length (ptoks' t) <= List.length (ptoks t) + 2.
Proof. unfold ptoks'. destruct (is_or t); repeat (rewrite ?app_length; cbn [List.length app]); lia. Qed.
Lemma ptoks'_or_len a b : List.length (ptoks' (POr a b)) = List.length (ptoks (POr a b)) + 2.
Proof. unfold ptoks'. cbn [is_or]. repeat (rewrite ?app_length; cbn [List.length app]). lia. Qed.

Definition parse_or_ok (t : ptree) : Prop :=
  forall f rest, closing rest -> 3 * List.length (ptoks t) + 3 <= f ->
    pyparse_or f (ptoks t ++ rest) = Some (pexp t, rest).
Definition parse_chain_ok (t : ptree) : Prop :=
  forall f k acc rest, closing rest -> 3 * List.length (ptoks' t) + 1 <= f ->
    List.length (ptoks' t ++ rest) + 2 <= k ->
    and_tail f k acc (TAnd :: ptoks' t ++ rest) = Some (chain acc t, rest).

(* a parenthesised tree at the [not] level *)
Lemma parse_paren_tree t f rest : parse_or_ok t -> 3 * List.length (ptoks t) + 4 <= f ->
  pyparse_not f (TLp :: ptoks t ++ TRp :: rest) = Some (pexp t, rest).
Proof.
  intros Ht Hf. destruct f as [|f]; [lia|]. apply parse_paren. apply Ht; [exact I|lia].
Qed.

Lemma parse_or_ok_or a b : parse_or_ok a -> parse_or_ok b -> parse_or_ok (POr a b).
Proof.
  intros Ha Hb f rest Hc Hf. rewrite ptoks_or_len in Hf.
  destruct f as [|f]; [lia|]. rewrite ptoks_or_app, pyparse_or_S.
  destruct f as [|f]; [lia|].
  rewrite (parse_and_single f _ (pexp a) (TOr :: TLp :: ptoks b ++ TRp :: rest)); [| |exact I].
  2:{ apply parse_paren_tree; [exact Ha|lia]. }
  cbn [List.length]. rewrite or_tail_step.
  rewrite (parse_and_single f _ (pexp b) rest); [| |apply closing_no_and; exact Hc].
  2:{ apply parse_paren_tree; [exact Hb|lia]. }
  cbn [pexp]. apply or_tail_stop, closing_no_or, Hc.
Qed.

Lemma parse_chain_ok_or a b : parse_or_ok (POr a b) -> parse_chain_ok (POr a b).
Proof.
  intros Ht f k acc rest Hc Hf Hk. rewrite ptoks'_or_len in Hf.
  destruct k as [|[|k]]; [lia|lia|]. rewrite ptoks'_or_app, and_tail_step.
  rewrite (parse_paren_tree _ f rest Ht) by lia.
  cbn [chain pexp]. apply and_tail_stop, closing_no_and, Hc.
Qed.

Lemma parse_chain_ok_lit neg v : parse_chain_ok (PLit neg v).
Proof.
  intros f k acc rest Hc Hf Hk. unfold ptoks' in *. cbn [is_or ptoks] in *.
  pose proof (lit_toks_len neg v) as Hl.
  destruct k as [|[|k]]; [lia|lia|]. rewrite and_tail_step, parse_lit by lia.
  cbn [chain]. apply and_tail_stop, closing_no_and, Hc.
Qed.

Lemma ptoks'_and neg v c : ptoks' (PAnd neg v c) = ptoks (PAnd neg v c).
Proof. reflexivity. Qed.

Lemma parse_chain_ok_and neg v c : parse_chain_ok c -> parse_chain_ok (PAnd neg v c).
Proof.
  intros Hcc f k acc rest Hc Hf Hk. rewrite ptoks'_and in *.
  rewrite app_length, ptoks_and_len in Hk. rewrite ptoks_and_len in Hf.
  pose proof (lit_toks_len neg v) as Hl.
  destruct k as [|k]; [lia|]. rewrite ptoks_and_app, and_tail_step, parse_lit by lia.
  cbn [chain]. apply Hcc; [exact Hc|lia|rewrite app_length; lia].
Qed.

Lemma parse_or_ok_lit neg v : parse_or_ok (PLit neg v).
Proof.
  intros f rest Hc Hf. cbn [ptoks pexp] in *.
  pose proof (lit_toks_len neg v) as Hl.
  destruct f as [|[|f]]; try lia.
  apply parse_or_single; [|apply closing_no_or, Hc].
  apply parse_and_single; [|apply closing_no_and, Hc].
  apply parse_lit. lia.
Qed.

Lemma parse_or_ok_and neg v c : parse_chain_ok c -> parse_or_ok (PAnd neg v c).
Proof.
  intros Hcc f rest Hc Hf. rewrite ptoks_and_len in Hf.
  pose proof (lit_toks_len neg v) as Hl.
  destruct f as [|[|f]]; try lia.
  apply parse_or_single; [|apply closing_no_or, Hc].
  rewrite ptoks_and_app, pyparse_and_S, parse_lit by lia.
  cbn [pexp]. apply Hcc; [exact Hc|lia|cbn [List.length]; lia].
Qed.

Lemma parse_ptree t : parse_or_ok t /\ parse_chain_ok t.
Proof.
  induction t as [neg v|neg v c [IHc1 IHc2]|a [IHa _] b [IHb _]].
  - split; [apply parse_or_ok_lit|apply parse_chain_ok_lit].
  - split; [apply parse_or_ok_and|apply parse_chain_ok_and]; exact IHc2.
  - assert (H : parse_or_ok (POr a b)) by (apply parse_or_ok_or; assumption).
    split; [exact H|apply parse_chain_ok_or, H].
Qed.

Lemma pyparse_ptoks t : pyparse (ptoks t) = Some (pexp t).
Proof.
  unfold pyparse. rewrite <- (app_nil_r (ptoks t)) at 2.
  rewrite (proj1 (parse_ptree t)); [reflexivity|exact I|lia].
Qed.

(* ------------------------------------------------------------------ *)
(** * The tree printed for a node *)

Definition both (x : nat) : bool := negb (is_terminal x) || val_of x.

Definition ppart (f : nat) (s : store) (v : var) (neg : bool) (c : nat) : option (list tok) :=
  let lit := if neg then [TNot; TVar v] else [TVar v] in
  if is_terminal c then (if val_of c then Some lit else None)
  else
    let cs := print_node f s c in
    let cs := if both (nlow s c) && both (nhigh s c) then [TLp] ++ cs ++ [TRp] else cs in
    Some (lit ++ [TAnd] ++ cs).

Lemma print_node_S f s n : print_node (S f) s n =
  if is_terminal n then [if val_of n then TOne else TZero]
  else match ppart f s (nvar s n) true (nlow s n), ppart f s (nvar s n) false (nhigh s n) with
       | Some a, Some b => [TLp] ++ a ++ [TRp; TOr; TLp] ++ b ++ [TRp]
       | Some a, None => a
       | None, Some b => b
       | None, None => []
       end.
Proof. reflexivity. Qed.

Definition tpart (t : ptree) (v : var) (neg : bool) (c : nat) : option ptree :=
  if is_terminal c then (if val_of c then Some (PLit neg v) else None)
  else Some (PAnd neg v t).

Fixpoint ptree_of (fuel : nat) (s : store) (n : nat) : ptree :=
  match fuel with
  | 0 => PLit false 0
  | S f =>
      match tpart (ptree_of f s (nlow s n)) (nvar s n) true (nlow s n),
            tpart (ptree_of f s (nhigh s n)) (nvar s n) false (nhigh s n) with
      | Some a, Some b => POr a b
      | Some a, None => a
      | None, Some b => b
      | None, None => PLit false 0
      end
  end.

Definition reach_var (s : store) (n : nat) (x : var) : Prop :=
  exists m, reach s n m /\ is_terminal m = false /\ nvar s m = x.

Definition node_ok (f : nat) (s : store) (n : nat) : Prop :=
  print_node f s n = ptoks (ptree_of f s n) /\
  is_or (ptree_of f s n) = both (nlow s n) && both (nhigh s n) /\
  (forall en, psem (ptree_of f s n) en = denote s n en) /\
  (forall x, In x (pvars (ptree_of f s n)) -> reach_var s n x).

Lemma part_rel f s v neg c : wf_store s -> live s c = true ->
  (is_terminal c = false -> node_ok f s c) ->
  (c = 0 /\ ppart f s v neg c = None /\ tpart (ptree_of f s c) v neg c = None) \/
  (exists t, ppart f s v neg c = Some (ptoks t) /\ tpart (ptree_of f s c) v neg c = Some t /\
     is_or t = false /\ both c = true /\
     (forall en, psem t en = lit_sem neg v en && denote s c en) /\
     (forall x, In x (pvars t) -> x = v \/ reach_var s c x)).
Proof.
  intros Hw Hl IH. unfold ppart, tpart, both.
  destruct (is_terminal c) eqn:Ht.
  - clear IH. apply is_terminal_true in Ht.
    assert (Hc : c = 0 \/ c = 1) by lia. destruct Hc as [-> | ->]; cbn [val_of Nat.eqb].
    + left. auto.
    + right. exists (PLit neg v). cbn [ptoks is_or psem pvars negb orb].
      split; [destruct neg; reflexivity|]. repeat split.
      * intros en. rewrite denote_terminal; [|apply wf_sorted, Hw|reflexivity].
        cbn. rewrite andb_true_r. reflexivity.
      * intros x [Hx|[]]. left. auto.
  - right. destruct (IH eq_refl) as (Hp & Ho & Hs & Hv). exists (PAnd neg v (ptree_of f s c)).
    cbn [ptoks is_or psem pvars negb orb]. rewrite Hp.
    fold (both (nlow s c)). fold (both (nhigh s c)). rewrite <- Ho.
    split; [destruct neg; reflexivity|]. repeat split.
    + intros en. rewrite Hs. reflexivity.
    + intros x [Hx|Hx]; [left; auto|right; apply Hv, Hx].
Qed.

Lemma both_0 : both 0 = false.
Proof. reflexivity. Qed.

Lemma node_ok_all s : wf_store s -> forall f n, n < f -> live s n = true ->
  is_terminal n = false -> node_ok f s n.
Proof.
  intros Hw. induction f as [|f IH]; intros n Hn Hl Ht; [lia|].
  destruct (live_cases s n Hl) as [Ht'|[_ (v & l & h & Hk)]]; [congruence|].
  pose proof (wf_children s Hw _ _ _ _ Hk) as (Hne & Hll & Hlh & Hl1 & Hl2).
  assert (Hrl : forall x, reach_var s l x -> reach_var s n x).
  { intros x (m & Hr & Hm). exists m. split; [eapply reach_low; eauto|exact Hm]. }
  assert (Hrh : forall x, reach_var s h x -> reach_var s n x).
  { intros x (m & Hr & Hm). exists m. split; [eapply reach_high; eauto|exact Hm]. }
  assert (Hrn : reach_var s n v).
  { exists n. split; [apply reach_refl|]. split; [exact Ht|]. unfold nvar. rewrite Hk. reflexivity. }
  assert (Hd : forall en, denote s n en = if en v then denote s h en else denote s l en)
    by (intros en; apply denote_node; assumption).
  assert (H0 : forall en, denote s 0 en = false)
    by (intros en; apply denote_terminal; [apply wf_sorted, Hw|reflexivity]).
  unfold node_ok. rewrite print_node_S, Ht. cbn [ptree_of].
  assert (Ev : nvar s n = v) by (unfold nvar; rewrite Hk; reflexivity).
  assert (El : nlow s n = l) by (unfold nlow; rewrite Hk; reflexivity).
  assert (Eh : nhigh s n = h) by (unfold nhigh; rewrite Hk; reflexivity).
  rewrite Ev, El, Eh.
  destruct (part_rel f s v true l Hw Hll) as
    [(-> & -> & ->)|(ta & -> & -> & Hoa & Hba & Hsa & Hva)]; [intros Htl; apply IH; auto; lia| |];
  (destruct (part_rel f s v false h Hw Hlh) as
    [(-> & -> & ->)|(tb & -> & -> & Hob & Hbb & Hsb & Hvb)]; [intros Hth; apply IH; auto; lia| |]).
  - congruence.
  - rewrite both_0. split; [reflexivity|]. split; [exact Hob|]. split.
    + intros en. rewrite Hsb, Hd, H0. unfold lit_sem. destruct (en v); reflexivity.
    + intros x Hx. destruct (Hvb x Hx) as [->|Hx']; auto.
  - rewrite both_0, andb_false_r. split; [reflexivity|]. split; [exact Hoa|]. split.
    + intros en. rewrite Hsa, Hd, H0. unfold lit_sem. destruct (en v); reflexivity.
    + intros x Hx. destruct (Hva x Hx) as [->|Hx']; auto.
  - rewrite Hba, Hbb. split; [reflexivity|]. split; [reflexivity|]. split.
    + intros en. cbn [psem]. rewrite Hsa, Hsb, Hd. unfold lit_sem.
      destruct (en v); cbn; [reflexivity|apply orb_false_r].
    + intros x Hx. cbn [pvars] in Hx. apply in_app_iff in Hx. destruct Hx as [Hx|Hx].
      * destruct (Hva x Hx) as [->|Hx']; auto.
      * destruct (Hvb x Hx) as [->|Hx']; auto.
Qed.

(* ------------------------------------------------------------------ *)
(** * Theorem 1: parsing the printed node gives an expression for the node's function *)

Theorem print_parse_sem s n : wf_store s -> live s n = true ->
  exists e, pyparse (print_root s n) = Some e /\
    (forall env, beval e env = denote s n env) /\
    (forall v, In v (bvars e) ->
       exists m, reach s n m /\ is_terminal m = false /\ nvar s m = v) /\
    no_bad e = true.
Proof.
  intros Hw Hl. unfold print_root, nfuel.
  destruct (is_terminal n) eqn:Ht.
  - exists (BConst (val_of n)). rewrite print_node_S, Ht.
    split; [destruct (val_of n); reflexivity|]. split; [|split; [intros v []|reflexivity]].
    intros env. cbn [beval]. symmetry. apply denote_terminal; [apply wf_sorted, Hw|exact Ht].
  - destruct (node_ok_all s Hw (S n) n (Nat.lt_succ_diag_r n) Hl Ht) as (Hp & _ & Hs & Hv).
    exists (pexp (ptree_of (S n) s n)). rewrite Hp, pyparse_ptoks.
    split; [reflexivity|]. split; [|split].
    + intros env. rewrite (proj1 (pexp_sem _)). apply Hs.
    + intros v Hin. apply Hv. apply (proj1 (pexp_vars _)). exact Hin.
    + apply (proj1 (pexp_no_bad _)).
Qed.

(* ------------------------------------------------------------------ *)
(** * Theorem 2: OBDD(str(o.root), o.ordering) == o, with the identical root *)

Lemma ordered_reach O s n m : wf_store s -> ordered O s n -> reach s n m -> ordered O s m.
Proof.
  intros Hw Ho Hr. induction Hr as [n|n v l h m Hk Hr IH|n v l h m Hk Hr IH]; [exact Ho| |];
    destruct (ordered_inv O s n v l h Hw Ho Hk) as (_ & _ & _ & Hol & Hoh); auto.
Qed.

Lemma nodup_vars_NoDup O : nodup_vars O = true -> NoDup O.
Proof.
  induction O as [|x r IH]; cbn [nodup_vars]; intros H; [constructor|].
  apply andb_true_iff in H. destruct H as [H1 H2]. constructor; [|apply IH, H2].
  intros Hin. apply memb_In in Hin. rewrite Hin in H1. discriminate.
Qed.

Section Reparse.

Hypothesis bbuild_spec : forall O s e, wf_store s ->
  (forall v, In v (bvars e) -> in_ord O v = true) -> no_bad e = true ->
  exists s' n, bbuild O s e = Ok (s', n) /\ wf_store s' /\ extends s s' /\
    live s' n = true /\ ordered O s' n /\ forall env, denote s' n env = beval e env.

Theorem reparse_root_spec s r O : wf_store s -> nodup_vars O = true -> live s r = true ->
  ordered O s r ->
  exists s', reparse_root s (r, O) = Ok (s', (r, O)) /\ wf_store s' /\ extends s s'.
Proof.
  intros Hw Hnd Hl Ho.
  destruct (print_parse_sem s r Hw Hl) as (e & Hp & Hs & Hv & Hnb).
  destruct (bbuild_spec O s e Hw) as (s' & n & Hb & Hw' & He & Hl' & Ho' & Hd); [|exact Hnb|].
  { intros v Hin. destruct (Hv v Hin) as (m & Hr & Hm & <-).
    destruct (ordered_nonterm O s m Hw (ordered_reach O s r m Hw Ho Hr) Hm) as (_ & Hio & _).
    exact Hio. }
  assert (En : n = r).
  { apply (C16_canonical O s'); [exact Hw'| | exact Ho'| | exact Hl'| |].
    - apply nodup_vars_NoDup, Hnd.
    - apply (ordered_extends O s s' r Hw He Ho).
    - apply (live_extends s s' r He Hl).
    - intros env. rewrite Hd, Hs. symmetry. apply denote_extends; auto. }
  subst n. exists s'. split; [|split; assumption].
  unfold reparse_root, obdd_parse. cbn [fst snd]. rewrite Hp, Hnd, Hb. reflexivity.
Qed.

End Reparse.

(* ------------------------------------------------------------------ *)
(** * Regression: the printer before fix F6 (no parentheses around a disjunctive child)
      breaks the round trip *)

Fixpoint print_node_old (fuel : nat) (s : store) (n : nat) : list tok :=
  match fuel with
  | 0 => []
  | S f =>
      if is_terminal n then [if val_of n then TOne else TZero]
      else
        let v := nvar s n in
        let part (neg : bool) (c : nat) : option (list tok) :=
            let lit := if neg then [TNot; TVar v] else [TVar v] in
            if is_terminal c then (if val_of c then Some lit else None)
            else Some (lit ++ [TAnd] ++ print_node_old f s c) in
        match part true (nlow s n), part false (nhigh s n) with
        | Some a, Some b => [TLp] ++ a ++ [TRp; TOr; TLp] ++ b ++ [TRp]
        | Some a, None => a
        | None, Some b => b
        | None, None => []
        end
  end.

(* variables a = 0, b = 1, c = 2; node 3 is  b | c,  node 4 is  a & (b | c) *)
Definition ex_store : store := [(4, (0, 0, 3)); (3, (1, 2, 1)); (2, (2, 0, 1))].
Definition ex_env : env := fun x => Nat.eqb x 1.      (* a = 0, b = 1, c = 0 *)

(* old printer:  a & (~b & c) | (b)   parses as  (a & (~b & c)) | b *)
Example old_printer_breaks_round_trip :
  print_node_old (nfuel 4) ex_store 4 =
    [TVar 0; TAnd; TLp; TNot; TVar 1; TAnd; TVar 2; TRp; TOr; TLp; TVar 1; TRp] /\
  pyparse (print_node_old (nfuel 4) ex_store 4) =
    Some (BOr (BAnd (BVar 0) (BAnd (BNot (BVar 1)) (BVar 2))) (BVar 1)) /\
  beval (BOr (BAnd (BVar 0) (BAnd (BNot (BVar 1)) (BVar 2))) (BVar 1)) ex_env = true /\
  denote ex_store 4 ex_env = false.
Proof. vm_compute. repeat split. Qed.

(* the fixed printer on the same node:  a & ((~b & c) | (b)) *)
Example new_printer_round_trip :
  print_root ex_store 4 =
    [TVar 0; TAnd; TLp; TLp; TNot; TVar 1; TAnd; TVar 2; TRp; TOr; TLp; TVar 1; TRp; TRp] /\
  pyparse (print_root ex_store 4) =
    Some (BAnd (BVar 0) (BOr (BAnd (BNot (BVar 1)) (BVar 2)) (BVar 1))) /\
  beval (BAnd (BVar 0) (BOr (BAnd (BNot (BVar 1)) (BVar 2)) (BVar 1))) ex_env =
    denote ex_store 4 ex_env.
Proof. vm_compute. repeat split. Qed.

Print Assumptions print_parse_sem.
Print Assumptions reparse_root_spec.
Print Assumptions old_printer_breaks_round_trip.
