(* CorollariesP.v — corollaries of the exactness theorems C01 (CTL) and C02 (LTL):
     A. agreement between the two checkers and semantic laws at the result level (C04)
     B. invariance under presentation, renaming of states / atoms, unreachable extension (C06)
     C. totality and subset (C19)
   Results are compared as SETS ([same_set]).  Only axiom: Classical_Prop.classic. *)
From Coq Require Import List Arith Bool Lia Classical_Prop.
From PMC Require Import Spec.Lemmas.
From PMC Require Import Proofs.RewriteP.
From PMC Require Proofs.CTLP Proofs.KripkeP Proofs.Assemble.
Import ListNotations.

Definition ctl_exact := PMC.Proofs.Assemble.ctl_exact.
Definition ltl_exact := PMC.Proofs.Assemble.ltl_exact.

(* ------------------------------------------------------------------ *)
(** * Results as sets                                                   *)
(* ------------------------------------------------------------------ *)
Definition res_set (r : result (list nat)) (P : nat -> Prop) : Prop :=
  exists S, r = Ok S /\ forall s, In s S <-> P s.

(* two results are both [Ok] and denote the same set *)
Definition same_res (r1 r2 : result (list nat)) : Prop :=
  exists S1 S2, r1 = Ok S1 /\ r2 = Ok S2 /\ same_set S1 S2.

Lemma res_set_same r1 r2 P Q :
  res_set r1 P -> res_set r2 Q -> (forall s, P s <-> Q s) -> same_res r1 r2.
Proof.
  intros [S1 [E1 H1]] [S2 [E2 H2]] HPQ. exists S1, S2. split; [exact E1|]. split; [exact E2|].
  intros s. rewrite H1, H2. apply HPQ.
Qed.

Lemma res_set_ext r P Q : res_set r P -> (forall s, P s <-> Q s) -> res_set r Q.
Proof.
  intros [S [E H]] HPQ. exists S. split; [exact E|]. intros s. rewrite H. apply HPQ.
Qed.

(* the two exactness theorems in [res_set] form *)
Lemma ctl_res K f : wf_kripke K -> ctl_state f = true ->
  res_set (ctl_modelcheck K f) (fun s => In s (states K) /\ holds K s f).
Proof.
  intros W C. destruct (ctl_exact K f W C) as [S [E [_ H]]]. exists S. split; [exact E | exact H].
Qed.

Lemma ltl_res K g : wf_kripke K -> ltl_path g = true ->
  res_set (ltl_modelcheck K (FA g))
          (fun s => In s (states K) /\ forall p, is_path K p -> p 0 = s -> sat K p g).
Proof.
  intros W C. destruct (ltl_exact K g W C) as [S [E H]]. exists S. split; [exact E | exact H].
Qed.

(* ------------------------------------------------------------------ *)
(** * C. Totality and subset (C19)                                      *)
(* ------------------------------------------------------------------ *)
Theorem ctl_total_subset K f : wf_kripke K -> ctl_state f = true ->
  exists S, ctl_modelcheck K f = Ok S /\ NoDup S /\ incl S (states K).
Proof.
  intros W C. destruct (ctl_exact K f W C) as [S [E [ND H]]]. exists S.
  split; [exact E|]. split; [exact ND|]. intros s Hs. apply H in Hs. apply Hs.
Qed.

Lemma compl_NoDup K X : wf_kripke K -> NoDup (compl K X).
Proof.
  intros [[ND _] _]. unfold compl. apply NoDup_filter. exact ND.
Qed.

Lemma compl_incl K X : incl (compl K X) (states K).
Proof. intros s Hs. unfold compl in Hs. apply filter_In in Hs. apply Hs. Qed.

Theorem ltl_total_subset K g : wf_kripke K -> ltl_path g = true ->
  exists S, ltl_modelcheck K (FA g) = Ok S /\ NoDup S /\ incl S (states K).
Proof.
  intros W C. unfold ltl_modelcheck. rewrite C.
  eexists. split; [reflexivity|]. split; [apply compl_NoDup; exact W | apply compl_incl].
Qed.

(* ------------------------------------------------------------------ *)
(** * Generic tools                                                     *)
(* ------------------------------------------------------------------ *)
(* semantic equivalence of two formulas on the paths of one structure *)
Definition sequiv (K : kripke) (f g : form) : Prop :=
  forall p, is_path K p -> (sat K p f <-> sat K p g).

Lemma fequiv_sequiv K f g : fequiv f g -> sequiv K f g.
Proof. intros H p _. apply H. Qed.

Lemma sequiv_holds K f g s : sequiv K f g -> (holds K s f <-> holds K s g).
Proof.
  intros H. split; intros [p [Hp [E Hs]]]; exists p; (split; [exact Hp|]); (split; [exact E|]);
    apply (H p Hp); exact Hs.
Qed.

Theorem ctl_equiv_same_result K f g : wf_kripke K ->
  ctl_state f = true -> ctl_state g = true ->
  (forall s, In s (states K) -> (holds K s f <-> holds K s g)) ->
  same_res (ctl_modelcheck K f) (ctl_modelcheck K g).
Proof.
  intros W Cf Cg H.
  apply (res_set_same _ _ _ _ (ctl_res K f W Cf) (ctl_res K g W Cg)).
  intros s. split; intros [Hs Hh]; (split; [exact Hs|]); apply (H s Hs); exact Hh.
Qed.

Corollary ctl_sequiv_same_result K f g : wf_kripke K ->
  ctl_state f = true -> ctl_state g = true -> sequiv K f g ->
  same_res (ctl_modelcheck K f) (ctl_modelcheck K g).
Proof.
  intros W Cf Cg H. apply ctl_equiv_same_result; try assumption.
  intros s _. apply sequiv_holds. exact H.
Qed.

(* for a state of K, [holds] can be read on any path from it *)
Lemma holds_on_path K f p : ctl_state f = true -> is_path K p -> (holds K (p 0) f <-> sat K p f).
Proof. apply CTLP.holds_sat. Qed.

(* a characterisation of a CTL result by a pointwise condition on paths *)
Lemma ctl_res_char K f (P : nat -> Prop) : wf_kripke K -> ctl_state f = true ->
  (forall p, is_path K p -> (sat K p f <-> P (p 0))) ->
  res_set (ctl_modelcheck K f) (fun s => In s (states K) /\ P s).
Proof.
  intros W C H. apply (res_set_ext _ _ _ (ctl_res K f W C)).
  intros s. split; intros [Hs Hh]; (split; [exact Hs|]).
  - destruct Hh as [p [Hp [E Hsat]]]. rewrite <- E. apply (H p Hp). exact Hsat.
  - destruct (CTLP.exists_path K s W Hs) as [p [Hp E]]. exists p. split; [exact Hp|].
    split; [exact E|]. apply (H p Hp). rewrite E. exact Hh.
Qed.

(* ------------------------------------------------------------------ *)
(** * A.1  CTL and LTL agree on the common fragment  A g                *)
(* ------------------------------------------------------------------ *)
Theorem ctl_ltl_agree K g : wf_kripke K -> ctl_state (FA g) = true -> ltl_path g = true ->
  exists S1 S2, ctl_modelcheck K (FA g) = Ok S1 /\ ltl_modelcheck K (FA g) = Ok S2 /\
                same_set S1 S2.
Proof.
  intros W C L.
  apply (res_set_same _ _ _ _ (ctl_res K (FA g) W C) (ltl_res K g W L)).
  intros s. split; intros [Hs H]; (split; [exact Hs|]).
  - destruct H as [p [Hp [E Hsat]]]. cbn [sat] in Hsat. intros q Hq Eq. apply Hsat; [exact Hq|].
    rewrite Eq, E. reflexivity.
  - destruct (CTLP.exists_path K s W Hs) as [p [Hp E]]. exists p. split; [exact Hp|].
    split; [exact E|]. cbn [sat]. intros q Hq Eq. apply H; [exact Hq|]. rewrite Eq. exact E.
Qed.

(* ------------------------------------------------------------------ *)
(** * A.2  Boolean laws at the result level                             *)
(* ------------------------------------------------------------------ *)
Theorem ctl_not_compl K f : wf_kripke K -> ctl_state f = true ->
  exists S Sf, ctl_modelcheck K (FNot f) = Ok S /\ ctl_modelcheck K f = Ok Sf /\
               forall s, In s S <-> In s (states K) /\ ~ In s Sf.
Proof.
  intros W C.
  destruct (ctl_res K f W C) as [Sf [Ef Hf]].
  assert (C' : ctl_state (FNot f) = true) by exact C.
  destruct (ctl_res K (FNot f) W C') as [S [E H]].
  exists S, Sf. split; [exact E|]. split; [exact Ef|].
  intros s. rewrite H. split; intros [Hs Hh]; (split; [exact Hs|]).
  - rewrite Hf. intros [_ Hh']. apply (CTLP.holds_not K s f W Hs C) in Hh. contradiction.
  - apply (CTLP.holds_not K s f W Hs C). intros Hh'. apply Hh. apply Hf. split; assumption.
Qed.

(* binary connectives: read everything on one path from s *)
Lemma ctl_bin_law K f g h (R : Prop -> Prop -> Prop) : wf_kripke K ->
  ctl_state f = true -> ctl_state g = true -> ctl_state h = true ->
  (forall A A' B B', (A <-> A') -> (B <-> B') -> (R A B <-> R A' B')) ->
  (forall p, sat K p h <-> R (sat K p f) (sat K p g)) ->
  exists S Sf Sg, ctl_modelcheck K h = Ok S /\ ctl_modelcheck K f = Ok Sf /\
                  ctl_modelcheck K g = Ok Sg /\
                  forall s, In s S <-> In s (states K) /\ R (In s Sf) (In s Sg).
Proof.
  intros W Cf Cg Ch HR Hh.
  destruct (ctl_res K f W Cf) as [Sf [Ef Hf]].
  destruct (ctl_res K g W Cg) as [Sg [Eg Hg]].
  destruct (ctl_res K h W Ch) as [S [E H]].
  exists S, Sf, Sg. split; [exact E|]. split; [exact Ef|]. split; [exact Eg|].
  intros s. rewrite H.
  assert (X : In s (states K) -> (holds K s h <-> R (In s Sf) (In s Sg))).
  { intros Hs. destruct (CTLP.exists_path K s W Hs) as [p [Hp Ep]]. subst s.
    rewrite (holds_on_path K h p Ch Hp), Hh. apply HR.
    - rewrite Hf, (holds_on_path K f p Cf Hp). tauto.
    - rewrite Hg, (holds_on_path K g p Cg Hp). tauto. }
  split; intros [Hs Hx]; (split; [exact Hs|]); apply (X Hs); exact Hx.
Qed.

Theorem ctl_and_inter K f g : wf_kripke K -> ctl_state f = true -> ctl_state g = true ->
  exists S Sf Sg, ctl_modelcheck K (FAnd [f; g]) = Ok S /\ ctl_modelcheck K f = Ok Sf /\
                  ctl_modelcheck K g = Ok Sg /\
                  forall s, In s S <-> In s (states K) /\ (In s Sf /\ In s Sg).
Proof.
  intros W Cf Cg. apply (ctl_bin_law K f g (FAnd [f; g]) and W Cf Cg).
  - cbn [ctl_state forallb]. rewrite Cf, Cg. reflexivity.
  - intros A A' B B' HA HB. tauto.
  - intros p. cbn [sat fold_right]. tauto.
Qed.

Theorem ctl_or_union K f g : wf_kripke K -> ctl_state f = true -> ctl_state g = true ->
  exists S Sf Sg, ctl_modelcheck K (FOr [f; g]) = Ok S /\ ctl_modelcheck K f = Ok Sf /\
                  ctl_modelcheck K g = Ok Sg /\
                  forall s, In s S <-> In s (states K) /\ (In s Sf \/ In s Sg).
Proof.
  intros W Cf Cg. apply (ctl_bin_law K f g (FOr [f; g]) or W Cf Cg).
  - cbn [ctl_state forallb]. rewrite Cf, Cg. reflexivity.
  - intros A A' B B' HA HB. tauto.
  - intros p. cbn [sat fold_right]. tauto.
Qed.

Theorem ctl_imp_law K f g : wf_kripke K -> ctl_state f = true -> ctl_state g = true ->
  exists S Sf Sg, ctl_modelcheck K (FImp f g) = Ok S /\ ctl_modelcheck K f = Ok Sf /\
                  ctl_modelcheck K g = Ok Sg /\
                  forall s, In s S <-> In s (states K) /\ (~ In s Sf \/ In s Sg).
Proof.
  intros W Cf Cg. apply (ctl_bin_law K f g (FImp f g) (fun A B => ~ A \/ B) W Cf Cg).
  - cbn [ctl_state]. rewrite Cf, Cg. reflexivity.
  - intros A A' B B' HA HB. tauto.
  - intros p. cbn [sat]. tauto.
Qed.

(* ------------------------------------------------------------------ *)
(** * B.5 / B.8  [sat] depends only on the edge and labelling relations *)
(* ------------------------------------------------------------------ *)
(* Two structures that agree (edges out of, and labels of) on a domain D closed under
   the edges of both: [sat] coincides on every path that stays in D. *)
Section SatRel.
  Variables K K' : kripke.
  Variable D : nat -> Prop.
  Hypothesis Hedge : forall x y, D x -> (edge (kg K) x y <-> edge (kg K') x y).
  Hypothesis Hclosed : forall x y, D x -> edge (kg K) x y -> D y.
  Hypothesis Hlab : forall s a, D s -> (labelled K s a <-> labelled K' s a).

  Definition stays (p : path) : Prop := forall i, D (p i).

  Lemma stays_suffix p k : stays p -> stays (suffix p k).
  Proof. intros H i. apply H. Qed.

  Lemma rel_path_from p : D (p 0) -> (is_path K p <-> is_path K' p) /\ (is_path K p -> stays p).
  Proof.
    intros H0.
    assert (A : is_path K p -> stays p).
    { intros Hp i. induction i as [|i IH]; [exact H0|]. apply (Hclosed (p i)); [exact IH | apply Hp]. }
    split; [|exact A]. split.
    - intros Hp i. apply Hedge; [apply A; exact Hp | apply Hp].
    - intros Hp.
      assert (B : forall i, D (p i) /\ edge (kg K) (p i) (p (S i))).
      { intros i. induction i as [|i [IHd IHe]].
        - split; [exact H0|]. apply Hedge; [exact H0 | apply Hp].
        - assert (Dn : D (p (S i))) by (apply (Hclosed (p i)); assumption).
          split; [exact Dn|]. apply Hedge; [exact Dn | apply Hp]. }
      intros i. apply B.
  Qed.

  Lemma sat_rel f : forall p, stays p -> (sat K p f <-> sat K' p f).
  Proof.
    induction f as [b|a|g IH|fs IH|fs IH|g h IHg IHh|g IH|g IH|g IH|g h IHg IHh|g h IHg IHh|g IH|g IH]
      using form_ind'; intros p Hp.
    - reflexivity.
    - cbn [sat]. apply Hlab. apply Hp.
    - cbn [sat]. rewrite (IH p Hp). reflexivity.
    - rewrite !sat_FOr. rewrite Forall_forall in IH.
      split; intros [g [Hi Hg]]; exists g; (split; [exact Hi|]); apply (IH g Hi p Hp); exact Hg.
    - rewrite !sat_FAnd. rewrite Forall_forall in IH.
      split; intros Hall g Hi; apply (IH g Hi p Hp); apply Hall; exact Hi.
    - cbn [sat]. rewrite (IHg p Hp), (IHh p Hp). reflexivity.
    - cbn [sat]. apply IH. apply stays_suffix. exact Hp.
    - cbn [sat]. split; intros [k Hk]; exists k; apply (IH _ (stays_suffix p k Hp)); exact Hk.
    - cbn [sat]. split; intros Hk k; apply (IH _ (stays_suffix p k Hp)); apply Hk.
    - cbn [sat]. split; intros [k [Hk Hj]]; exists k; split.
      + apply (IHh _ (stays_suffix p k Hp)); exact Hk.
      + intros j Hlt. apply (IHg _ (stays_suffix p j Hp)). apply Hj; exact Hlt.
      + apply (IHh _ (stays_suffix p k Hp)); exact Hk.
      + intros j Hlt. apply (IHg _ (stays_suffix p j Hp)). apply Hj; exact Hlt.
    - cbn [sat]. split; intros HR k Hj.
      + apply (IHh _ (stays_suffix p k Hp)). apply HR.
        intros j Hlt Hs. apply (Hj j Hlt). apply (IHg _ (stays_suffix p j Hp)). exact Hs.
      + apply (IHh _ (stays_suffix p k Hp)). apply HR.
        intros j Hlt Hs. apply (Hj j Hlt). apply (IHg _ (stays_suffix p j Hp)). exact Hs.
    - cbn [sat]. split; intros H q Hq E.
      + assert (D0 : D (q 0)) by (rewrite E; apply Hp).
        destruct (rel_path_from q D0) as [Hiff Hst].
        apply (IH q (Hst (proj2 Hiff Hq))). apply H; [apply Hiff; exact Hq | exact E].
      + assert (D0 : D (q 0)) by (rewrite E; apply Hp).
        destruct (rel_path_from q D0) as [Hiff Hst].
        apply (IH q (Hst Hq)). apply H; [apply Hiff; exact Hq | exact E].
    - cbn [sat]. split; intros [q [Hq [E H]]]; exists q.
      + assert (D0 : D (q 0)) by (rewrite E; apply Hp).
        destruct (rel_path_from q D0) as [Hiff Hst].
        split; [apply Hiff; exact Hq|]. split; [exact E|]. apply (IH q (Hst Hq)). exact H.
      + assert (D0 : D (q 0)) by (rewrite E; apply Hp).
        destruct (rel_path_from q D0) as [Hiff Hst].
        split; [apply Hiff; exact Hq|]. split; [exact E|].
        apply (IH q (Hst (proj2 Hiff Hq))). exact H.
  Qed.

  Lemma holds_rel s f : D s -> (holds K s f <-> holds K' s f).
  Proof.
    intros Ds. split; intros [p [Hp [E H]]]; exists p.
    - assert (D0 : D (p 0)) by (rewrite E; exact Ds).
      destruct (rel_path_from p D0) as [Hiff Hst].
      split; [apply Hiff; exact Hp|]. split; [exact E|]. apply (sat_rel f p (Hst Hp)). exact H.
    - assert (D0 : D (p 0)) by (rewrite E; exact Ds).
      destruct (rel_path_from p D0) as [Hiff Hst].
      split; [apply Hiff; exact Hp|]. split; [exact E|].
      apply (sat_rel f p (Hst (proj2 Hiff Hp))). exact H.
  Qed.

  Lemma allpaths_rel s g : D s ->
    ((forall p, is_path K p -> p 0 = s -> sat K p g) <->
     (forall p, is_path K' p -> p 0 = s -> sat K' p g)).
  Proof.
    intros Ds. split; intros H p Hp E.
    - assert (D0 : D (p 0)) by (rewrite E; exact Ds).
      destruct (rel_path_from p D0) as [Hiff Hst].
      apply (sat_rel g p (Hst (proj2 Hiff Hp))). apply H; [apply Hiff; exact Hp | exact E].
    - assert (D0 : D (p 0)) by (rewrite E; exact Ds).
      destruct (rel_path_from p D0) as [Hiff Hst].
      apply (sat_rel g p (Hst Hp)). apply H; [apply Hiff; exact Hp | exact E].
  Qed.
End SatRel.

(* B.5: [sat] only depends on the edge relation and the labelling relation *)
Lemma sat_same K K' :
  (forall x y, edge (kg K) x y <-> edge (kg K') x y) ->
  (forall s a, labelled K s a <-> labelled K' s a) ->
  forall f p, sat K p f <-> sat K' p f.
Proof.
  intros He Hl f p.
  apply (sat_rel K K' (fun _ => True)); auto. intros i. exact I.
Qed.

Lemma holds_same K K' :
  (forall x y, edge (kg K) x y <-> edge (kg K') x y) ->
  (forall s a, labelled K s a <-> labelled K' s a) ->
  forall f s, holds K s f <-> holds K' s f.
Proof.
  intros He Hl f s. apply (holds_rel K K' (fun _ => True)); auto.
Qed.

Theorem presentation_invariance_ctl K K' f :
  wf_kripke K -> wf_kripke K' -> same_set (states K) (states K') ->
  (forall x y, edge (kg K) x y <-> edge (kg K') x y) ->
  (forall s a, labelled K s a <-> labelled K' s a) ->
  ctl_state f = true ->
  exists S S', ctl_modelcheck K f = Ok S /\ ctl_modelcheck K' f = Ok S' /\ same_set S S'.
Proof.
  intros W W' Hst He Hl C.
  apply (res_set_same _ _ _ _ (ctl_res K f W C) (ctl_res K' f W' C)).
  intros s. rewrite (Hst s), (holds_same K K' He Hl f s). reflexivity.
Qed.

Theorem presentation_invariance_ltl K K' g :
  wf_kripke K -> wf_kripke K' -> same_set (states K) (states K') ->
  (forall x y, edge (kg K) x y <-> edge (kg K') x y) ->
  (forall s a, labelled K s a <-> labelled K' s a) ->
  ltl_path g = true ->
  exists S S', ltl_modelcheck K (FA g) = Ok S /\ ltl_modelcheck K' (FA g) = Ok S' /\ same_set S S'.
Proof.
  intros W W' Hst He Hl C.
  apply (res_set_same _ _ _ _ (ltl_res K g W C) (ltl_res K' g W' C)).
  intros s. rewrite (Hst s).
  rewrite (allpaths_rel K K' (fun _ => True) (fun x y _ => He x y) (fun _ _ _ _ => I)
             (fun s a _ => Hl s a) s g I).
  reflexivity.
Qed.

(* B.8: extension by states that are unreachable from K *)
Section Extension.
  Variables K K' : kripke.
  Hypothesis WK : wf_graph (kg K).
  Hypothesis Hedge : forall x y, In x (states K) -> (edge (kg K) x y <-> edge (kg K') x y).
  Hypothesis Hlab : forall s a, In s (states K) -> (labelled K s a <-> labelled K' s a).

  Let closed : forall x y, In x (states K) -> edge (kg K) x y -> In y (states K).
  Proof. intros x y _ E. destruct WK as [_ [_ H]]. apply (H x y E). Qed.

  Theorem unreachable_extension_holds s f : In s (states K) -> (holds K' s f <-> holds K s f).
  Proof.
    intros Hs. symmetry.
    apply (holds_rel K K' (fun x => In x (states K)) Hedge closed Hlab s f Hs).
  Qed.

  Theorem unreachable_extension_allpaths s g : In s (states K) ->
    ((forall p, is_path K' p -> p 0 = s -> sat K' p g) <->
     (forall p, is_path K p -> p 0 = s -> sat K p g)).
  Proof.
    intros Hs. symmetry.
    apply (allpaths_rel K K' (fun x => In x (states K)) Hedge closed Hlab s g Hs).
  Qed.

  Hypothesis Hincl : incl (states K) (states K').
  Hypothesis W : wf_kripke K.
  Hypothesis W' : wf_kripke K'.

  (* the results coincide on the states of K *)
  Theorem unreachable_extension_ctl f : ctl_state f = true ->
    exists S S', ctl_modelcheck K f = Ok S /\ ctl_modelcheck K' f = Ok S' /\
                 forall s, In s S <-> In s (states K) /\ In s S'.
  Proof.
    intros C. destruct (ctl_res K f W C) as [S [E H]]. destruct (ctl_res K' f W' C) as [S' [E' H']].
    exists S, S'. split; [exact E|]. split; [exact E'|].
    intros s. rewrite H, H'. split.
    - intros [Hs Hh]. split; [exact Hs|]. split; [apply Hincl; exact Hs|].
      apply unreachable_extension_holds; assumption.
    - intros [Hs [_ Hh]]. split; [exact Hs|].
      apply (proj1 (unreachable_extension_holds s f Hs)). exact Hh.
  Qed.

  Theorem unreachable_extension_ltl g : ltl_path g = true ->
    exists S S', ltl_modelcheck K (FA g) = Ok S /\ ltl_modelcheck K' (FA g) = Ok S' /\
                 forall s, In s S <-> In s (states K) /\ In s S'.
  Proof.
    intros C. destruct (ltl_res K g W C) as [S [E H]]. destruct (ltl_res K' g W' C) as [S' [E' H']].
    exists S, S'. split; [exact E|]. split; [exact E'|].
    intros s. rewrite H, H'. split.
    - intros [Hs Hh]. split; [exact Hs|]. split; [apply Hincl; exact Hs|].
      apply unreachable_extension_allpaths; assumption.
    - intros [Hs [_ Hh]]. split; [exact Hs|].
      apply (proj1 (unreachable_extension_allpaths s g Hs)). exact Hh.
  Qed.
End Extension.

(* ------------------------------------------------------------------ *)
(** * A.3  Dualities  A = not E not                                     *)
(* ------------------------------------------------------------------ *)
Lemma dual_X f : fequiv (FX f) (FNot (FX (FNot f))).
Proof. intros K p. cbn [sat]. split; [tauto | apply NNPP]. Qed.

Lemma dual_F f : fequiv (FF f) (FNot (FG (FNot f))).
Proof.
  intros K p. cbn [sat]. split.
  - intros [k Hk] H. exact (H k Hk).
  - intros H. apply NNPP. intros N. apply H. intros k Hk. apply N. exists k. exact Hk.
Qed.

Lemma dual_G f : fequiv (FG f) (FNot (FF (FNot f))).
Proof.
  intros K p. cbn [sat]. split.
  - intros H [k Hk]. exact (Hk (H k)).
  - intros H k. apply NNPP. intros N. apply H. exists k. exact N.
Qed.

Theorem AX_not_EX_not K f : wf_kripke K -> ctl_state f = true ->
  same_res (ctl_modelcheck K (FA (FX f))) (ctl_modelcheck K (FNot (FE (FX (FNot f))))).
Proof.
  intros W C. apply ctl_sequiv_same_result; [exact W | exact C | exact C |].
  apply fequiv_sequiv. apply rule_A_gen. apply dual_X.
Qed.

Theorem AF_not_EG_not K f : wf_kripke K -> ctl_state f = true ->
  same_res (ctl_modelcheck K (FA (FF f))) (ctl_modelcheck K (FNot (FE (FG (FNot f))))).
Proof.
  intros W C. apply ctl_sequiv_same_result; [exact W | exact C | exact C |].
  apply fequiv_sequiv. apply rule_A_gen. apply dual_F.
Qed.

Theorem AG_not_EF_not K f : wf_kripke K -> ctl_state f = true ->
  same_res (ctl_modelcheck K (FA (FG f))) (ctl_modelcheck K (FNot (FE (FF (FNot f))))).
Proof.
  intros W C. apply ctl_sequiv_same_result; [exact W | exact C | exact C |].
  apply fequiv_sequiv. apply rule_A_gen. apply dual_G.
Qed.

Theorem AR_not_EU_not K f g : wf_kripke K -> ctl_state f = true -> ctl_state g = true ->
  same_res (ctl_modelcheck K (FA (FR f g)))
           (ctl_modelcheck K (FNot (FE (FU (FNot f) (FNot g))))).
Proof.
  intros W Cf Cg.
  assert (C : ctl_state f && ctl_state g = true) by (rewrite Cf, Cg; reflexivity).
  apply ctl_sequiv_same_result; [exact W | exact C | exact C |].
  apply fequiv_sequiv. apply rule_A_gen.
  eapply fequiv_trans; [apply rule_R|].
  apply fequiv_FNot. apply fequiv_FU; apply LNot_fequiv.
Qed.

(* the LTL-level statement: the result of  A g  is the complement of the set of states
   with a path satisfying  not g *)
Theorem ltl_A_not_E_not K g : wf_kripke K -> ltl_path g = true ->
  res_set (ltl_modelcheck K (FA g))
          (fun s => In s (states K) /\
                    ~ exists p, is_path K p /\ p 0 = s /\ sat K p (FNot g)).
Proof.
  intros W C. apply (res_set_ext _ _ _ (ltl_res K g W C)).
  intros s. split; intros [Hs H]; (split; [exact Hs|]).
  - intros [p [Hp [E N]]]. apply N. apply H; assumption.
  - intros p Hp E. apply NNPP. intros N. apply H. exists p. auto.
Qed.

(* ------------------------------------------------------------------ *)
(** * A.4  Fixpoint expansion laws                                      *)
(* ------------------------------------------------------------------ *)
Section Expansion.
  Variable K : kripke.
  Hypothesis W : wf_kripke K.
  Notation pcons := CTLP.pcons.

  Let WG : wf_graph (kg K) := proj1 W.

  Lemma edge_target_state s y : edge (kg K) s y -> In y (states K).
  Proof. intros E. destruct WG as [_ [_ H]]. apply (H s y E). Qed.

  Lemma pcons_path s q : is_path K q -> edge (kg K) s (q 0) -> is_path K (pcons s q).
  Proof. apply CTLP.pcons_is_path. Qed.

  Lemma tail_path q : is_path K q -> is_path K (suffix q 1).
  Proof. apply is_path_suffix. Qed.

  (* [holds] for the binary connectives and for A, at a state of K *)
  Lemma holds_or2 s a b : holds K s (FOr [a; b]) <-> holds K s a \/ holds K s b.
  Proof.
    rewrite CTLP.holds_or. split.
    - intros [g [[E | [E | []]] H]]; subst; auto.
    - intros [H | H]; [exists a | exists b]; cbn [In]; auto.
  Qed.

  Lemma holds_and2 s a b : In s (states K) -> ctl_state a = true -> ctl_state b = true ->
    (holds K s (FAnd [a; b]) <-> holds K s a /\ holds K s b).
  Proof.
    intros Hs Ca Cb. destruct (CTLP.exists_path K s W Hs) as [p [Hp E]]. subst s.
    assert (C : ctl_state (FAnd [a; b]) = true) by (cbn [ctl_state forallb]; rewrite Ca, Cb; reflexivity).
    rewrite (holds_on_path K _ p C Hp), (holds_on_path K a p Ca Hp), (holds_on_path K b p Cb Hp).
    cbn [sat fold_right]. tauto.
  Qed.

  Lemma holds_A s g : In s (states K) ->
    (holds K s (FA g) <-> forall q, is_path K q -> q 0 = s -> sat K q g).
  Proof.
    intros Hs. split.
    - intros [p [Hp [E H]]] q Hq Eq. cbn [sat] in H. apply H; [exact Hq | congruence].
    - intros H. destruct (CTLP.exists_path K s W Hs) as [p [Hp E]]. exists p.
      split; [exact Hp|]. split; [exact E|]. cbn [sat]. intros q Hq Eq. apply H; [exact Hq | congruence].
  Qed.

  Lemma holds_AX s g : In s (states K) -> ctl_state g = true ->
    (holds K s (FA (FX g)) <-> forall y, edge (kg K) s y -> holds K y g).
  Proof.
    intros Hs C. rewrite (holds_A s _ Hs). split.
    - intros H y Ey. destruct (CTLP.exists_path K y W (edge_target_state s y Ey)) as [q [Hq Eq]].
      assert (Hq' : is_path K (pcons s q)) by (apply pcons_path; [exact Hq | rewrite Eq; exact Ey]).
      specialize (H (pcons s q) Hq' eq_refl). cbn [sat] in H.
      apply (CTLP.holds_suffix K g _ 1 C Hq') in H. cbn in H. rewrite Eq in H. exact H.
    - intros H q Hq Eq. cbn [sat]. apply (CTLP.holds_suffix K g q 1 C Hq). apply H.
      rewrite <- Eq. apply Hq.
  Qed.

  Lemma holds_AU s f g : In s (states K) -> ctl_state f = true -> ctl_state g = true ->
    (holds K s (FA (FU f g)) <->
     forall q, is_path K q -> q 0 = s ->
               exists k, holds K (q k) g /\ forall j, j < k -> holds K (q j) f).
  Proof.
    intros Hs Cf Cg. rewrite (holds_A s _ Hs).
    split; intros H q Hq Eq; destruct (H q Hq Eq) as [k [Hk Hj]]; exists k; split.
    - apply (CTLP.holds_suffix K g q k Cg Hq). exact Hk.
    - intros j Lt. apply (CTLP.holds_suffix K f q j Cf Hq). apply Hj. exact Lt.
    - apply (CTLP.holds_suffix K g q k Cg Hq). exact Hk.
    - intros j Lt. apply (CTLP.holds_suffix K f q j Cf Hq). apply Hj. exact Lt.
  Qed.

  Lemma holds_AG s f : In s (states K) -> ctl_state f = true ->
    (holds K s (FA (FG f)) <-> forall q, is_path K q -> q 0 = s -> forall k, holds K (q k) f).
  Proof.
    intros Hs C. rewrite (holds_A s _ Hs).
    split; intros H q Hq Eq k; apply (CTLP.holds_suffix K f q k C Hq); apply (H q Hq Eq).
  Qed.

  Lemma holds_AF s f : In s (states K) -> ctl_state f = true ->
    (holds K s (FA (FF f)) <-> forall q, is_path K q -> q 0 = s -> exists k, holds K (q k) f).
  Proof.
    intros Hs C. rewrite (holds_A s _ Hs).
    split; intros H q Hq Eq; destruct (H q Hq Eq) as [k Hk]; exists k;
      apply (CTLP.holds_suffix K f q k C Hq); exact Hk.
  Qed.

  Lemma holds_EF s f : ctl_state f = true ->
    (holds K s (FE (FF f)) <-> exists q, is_path K q /\ q 0 = s /\ exists k, holds K (q k) f).
  Proof.
    intros C. split.
    - intros [p [Hp [E [q [Hq [E2 [k Hk]]]]]]]. exists q. split; [exact Hq|]. split; [congruence|].
      exists k. apply (CTLP.holds_suffix K f q k C Hq). exact Hk.
    - intros [q [Hq [E [k Hk]]]]. exists q. split; [exact Hq|]. split; [exact E|].
      exists q. split; [exact Hq|]. split; [reflexivity|]. exists k.
      apply (CTLP.holds_suffix K f q k C Hq). exact Hk.
  Qed.

  (* --- the six expansions at the level of [holds] --- *)
  Lemma exp_EU s f g : In s (states K) -> ctl_state f = true -> ctl_state g = true ->
    (holds K s (FE (FU f g)) <->
     holds K s g \/ (holds K s f /\ exists y, edge (kg K) s y /\ holds K y (FE (FU f g)))).
  Proof.
    intros Hs Cf Cg. rewrite (CTLP.holds_EU K s f g Cf Cg). split.
    - intros [q [Hq [E [k [Hk Hj]]]]]. destruct k as [|k].
      + left. rewrite <- E. exact Hk.
      + right. split; [rewrite <- E; apply Hj; lia|].
        exists (q 1). split; [rewrite <- E; apply Hq|].
        apply (CTLP.holds_EU K (q 1) f g Cf Cg). exists (suffix q 1).
        split; [apply tail_path; exact Hq|]. split; [reflexivity|].
        exists k. split; [exact Hk|]. intros j Lt. apply (Hj (S j)). lia.
    - intros [H | [Hf [y [Ey Hy]]]].
      + destruct (CTLP.exists_path K s W Hs) as [q [Hq E]]. exists q. split; [exact Hq|].
        split; [exact E|]. exists 0. split; [rewrite E; exact H | intros j Lt; lia].
      + apply (CTLP.holds_EU K y f g Cf Cg) in Hy. destruct Hy as [q [Hq [E [k [Hk Hj]]]]].
        exists (pcons s q). split; [apply pcons_path; [exact Hq | rewrite E; exact Ey]|].
        split; [reflexivity|]. exists (S k). split; [exact Hk|].
        intros [|j] Lt; [exact Hf | apply Hj; lia].
  Qed.

  Lemma exp_EG s f : ctl_state f = true ->
    (holds K s (FE (FG f)) <->
     holds K s f /\ exists y, edge (kg K) s y /\ holds K y (FE (FG f))).
  Proof.
    intros C. rewrite (CTLP.holds_EG K s f C). split.
    - intros [q [Hq [E H]]]. split; [rewrite <- E; apply H|].
      exists (q 1). split; [rewrite <- E; apply Hq|].
      apply (CTLP.holds_EG K (q 1) f C). exists (suffix q 1).
      split; [apply tail_path; exact Hq|]. split; [reflexivity|]. intros k. apply (H (S k)).
    - intros [Hf [y [Ey Hy]]]. apply (CTLP.holds_EG K y f C) in Hy. destruct Hy as [q [Hq [E H]]].
      exists (pcons s q). split; [apply pcons_path; [exact Hq | rewrite E; exact Ey]|].
      split; [reflexivity|]. intros [|k]; [exact Hf | apply H].
  Qed.

  Lemma exp_EF s f : In s (states K) -> ctl_state f = true ->
    (holds K s (FE (FF f)) <->
     holds K s f \/ exists y, edge (kg K) s y /\ holds K y (FE (FF f))).
  Proof.
    intros Hs C. rewrite (holds_EF s f C). split.
    - intros [q [Hq [E [k Hk]]]]. destruct k as [|k].
      + left. rewrite <- E. exact Hk.
      + right. exists (q 1). split; [rewrite <- E; apply Hq|].
        apply (holds_EF (q 1) f C). exists (suffix q 1).
        split; [apply tail_path; exact Hq|]. split; [reflexivity|]. exists k. exact Hk.
    - intros [H | [y [Ey Hy]]].
      + destruct (CTLP.exists_path K s W Hs) as [q [Hq E]]. exists q. split; [exact Hq|].
        split; [exact E|]. exists 0. rewrite E. exact H.
      + apply (holds_EF y f C) in Hy. destruct Hy as [q [Hq [E [k Hk]]]].
        exists (pcons s q). split; [apply pcons_path; [exact Hq | rewrite E; exact Ey]|].
        split; [reflexivity|]. exists (S k). exact Hk.
  Qed.

  Lemma exp_AG s f : In s (states K) -> ctl_state f = true ->
    (holds K s (FA (FG f)) <->
     holds K s f /\ forall y, edge (kg K) s y -> holds K y (FA (FG f))).
  Proof.
    intros Hs C. rewrite (holds_AG s f Hs C). split.
    - intros H. split.
      + destruct (CTLP.exists_path K s W Hs) as [q [Hq E]]. rewrite <- E. apply (H q Hq E 0).
      + intros y Ey. apply (holds_AG y f (edge_target_state s y Ey) C). intros q Hq E k.
        apply (H (pcons s q) (pcons_path s q Hq ltac:(rewrite E; exact Ey)) eq_refl (S k)).
    - intros [Hf H] q Hq E [|k]; [rewrite E; exact Hf|].
      assert (Ey : edge (kg K) s (q 1)) by (rewrite <- E; apply Hq).
      apply (proj1 (holds_AG (q 1) f (edge_target_state s _ Ey) C) (H _ Ey) (suffix q 1) (tail_path q Hq) eq_refl k).
  Qed.

  Lemma exp_AF s f : In s (states K) -> ctl_state f = true ->
    (holds K s (FA (FF f)) <->
     holds K s f \/ forall y, edge (kg K) s y -> holds K y (FA (FF f))).
  Proof.
    intros Hs C. rewrite (holds_AF s f Hs C). split.
    - intros H. destruct (classic (holds K s f)) as [Hf | Nf]; [left; exact Hf | right].
      intros y Ey. apply (holds_AF y f (edge_target_state s y Ey) C). intros q Hq E.
      destruct (H (pcons s q) (pcons_path s q Hq ltac:(rewrite E; exact Ey)) eq_refl) as [[|k] Hk].
      + contradiction.
      + exists k. exact Hk.
    - intros [Hf | H] q Hq E.
      + exists 0. rewrite E. exact Hf.
      + assert (Ey : edge (kg K) s (q 1)) by (rewrite <- E; apply Hq).
        destruct (proj1 (holds_AF (q 1) f (edge_target_state s _ Ey) C) (H _ Ey)
                    (suffix q 1) (tail_path q Hq) eq_refl) as [k Hk].
        exists (S k). exact Hk.
  Qed.

  Lemma exp_AU s f g : In s (states K) -> ctl_state f = true -> ctl_state g = true ->
    (holds K s (FA (FU f g)) <->
     holds K s g \/ (holds K s f /\ forall y, edge (kg K) s y -> holds K y (FA (FU f g)))).
  Proof.
    intros Hs Cf Cg. rewrite (holds_AU s f g Hs Cf Cg). split.
    - intros H. destruct (classic (holds K s g)) as [Hg | Ng]; [left; exact Hg | right]. split.
      + destruct (CTLP.exists_path K s W Hs) as [q [Hq E]].
        destruct (H q Hq E) as [[|k] [Hk Hj]].
        * rewrite E in Hk. contradiction.
        * rewrite <- E. apply Hj. lia.
      + intros y Ey. apply (holds_AU y f g (edge_target_state s y Ey) Cf Cg). intros q Hq E.
        destruct (H (pcons s q) (pcons_path s q Hq ltac:(rewrite E; exact Ey)) eq_refl)
          as [[|k] [Hk Hj]].
        * contradiction.
        * exists k. split; [exact Hk|]. intros j Lt. apply (Hj (S j)). lia.
    - intros [Hg | [Hf H]] q Hq E.
      + exists 0. split; [rewrite E; exact Hg | intros j Lt; lia].
      + assert (Ey : edge (kg K) s (q 1)) by (rewrite <- E; apply Hq).
        destruct (proj1 (holds_AU (q 1) f g (edge_target_state s _ Ey) Cf Cg) (H _ Ey)
                    (suffix q 1) (tail_path q Hq) eq_refl) as [k [Hk Hj]].
        exists (S k). split; [exact Hk|].
        intros [|j] Lt; [rewrite E; exact Hf | apply (Hj j); lia].
  Qed.

  (* --- the six expansions at the level of results --- *)
  Ltac cs := cbn [ctl_state forallb andb]; repeat match goal with H : ctl_state _ = true |- _ => rewrite H end; reflexivity.

  Theorem EU_expansion f g : ctl_state f = true -> ctl_state g = true ->
    same_res (ctl_modelcheck K (FE (FU f g)))
             (ctl_modelcheck K (FOr [g; FAnd [f; FE (FX (FE (FU f g)))]])).
  Proof.
    intros Cf Cg.
    assert (C1 : ctl_state (FE (FU f g)) = true) by cs.
    assert (C2 : ctl_state (FE (FX (FE (FU f g)))) = true) by cs.
    apply ctl_equiv_same_result; [exact W | exact C1 | cs |].
    intros s Hs. rewrite holds_or2, (holds_and2 s _ _ Hs Cf C2), (CTLP.holds_EX K s _ C1).
    apply exp_EU; assumption.
  Qed.

  Theorem AU_expansion f g : ctl_state f = true -> ctl_state g = true ->
    same_res (ctl_modelcheck K (FA (FU f g)))
             (ctl_modelcheck K (FOr [g; FAnd [f; FA (FX (FA (FU f g)))]])).
  Proof.
    intros Cf Cg.
    assert (C1 : ctl_state (FA (FU f g)) = true) by cs.
    assert (C2 : ctl_state (FA (FX (FA (FU f g)))) = true) by cs.
    apply ctl_equiv_same_result; [exact W | exact C1 | cs |].
    intros s Hs. rewrite holds_or2, (holds_and2 s _ _ Hs Cf C2), (holds_AX s _ Hs C1).
    apply exp_AU; assumption.
  Qed.

  Theorem EG_expansion f : ctl_state f = true ->
    same_res (ctl_modelcheck K (FE (FG f)))
             (ctl_modelcheck K (FAnd [f; FE (FX (FE (FG f)))])).
  Proof.
    intros Cf.
    assert (C1 : ctl_state (FE (FG f)) = true) by cs.
    assert (C2 : ctl_state (FE (FX (FE (FG f)))) = true) by cs.
    apply ctl_equiv_same_result; [exact W | exact C1 | cs |].
    intros s Hs. rewrite (holds_and2 s _ _ Hs Cf C2), (CTLP.holds_EX K s _ C1).
    apply exp_EG; assumption.
  Qed.

  Theorem AG_expansion f : ctl_state f = true ->
    same_res (ctl_modelcheck K (FA (FG f)))
             (ctl_modelcheck K (FAnd [f; FA (FX (FA (FG f)))])).
  Proof.
    intros Cf.
    assert (C1 : ctl_state (FA (FG f)) = true) by cs.
    assert (C2 : ctl_state (FA (FX (FA (FG f)))) = true) by cs.
    apply ctl_equiv_same_result; [exact W | exact C1 | cs |].
    intros s Hs. rewrite (holds_and2 s _ _ Hs Cf C2), (holds_AX s _ Hs C1).
    apply exp_AG; assumption.
  Qed.

  Theorem EF_expansion f : ctl_state f = true ->
    same_res (ctl_modelcheck K (FE (FF f)))
             (ctl_modelcheck K (FOr [f; FE (FX (FE (FF f)))])).
  Proof.
    intros Cf.
    assert (C1 : ctl_state (FE (FF f)) = true) by cs.
    apply ctl_equiv_same_result; [exact W | exact C1 | cs |].
    intros s Hs. rewrite holds_or2, (CTLP.holds_EX K s _ C1).
    apply exp_EF; assumption.
  Qed.

  Theorem AF_expansion f : ctl_state f = true ->
    same_res (ctl_modelcheck K (FA (FF f)))
             (ctl_modelcheck K (FOr [f; FA (FX (FA (FF f)))])).
  Proof.
    intros Cf.
    assert (C1 : ctl_state (FA (FF f)) = true) by cs.
    apply ctl_equiv_same_result; [exact W | exact C1 | cs |].
    intros s Hs. rewrite holds_or2, (holds_AX s _ Hs C1).
    apply exp_AF; assumption.
  Qed.
End Expansion.

(* ------------------------------------------------------------------ *)
(** * B.6  Renaming of states                                           *)
(* ------------------------------------------------------------------ *)
Definition rename_g (rho : nat -> nat) (g : graph) : graph :=
  map (fun '(x, ds) => (rho x, map rho ds)) g.
Definition rename_K (rho : nat -> nat) (K : kripke) : kripke :=
  mkK (map (fun '(x, ds) => (rho x, map rho ds)) (kg K))
      (map rho (kinit K))
      (map (fun '(x, l) => (rho x, l)) (klab K)).

Definition injective (rho : nat -> nat) : Prop := forall x y, rho x = rho y -> x = y.

(* an inverse of rho on a list *)
Fixpoint rfind (rho : nat -> nat) (l : list nat) (y : nat) : nat :=
  match l with
  | [] => 0
  | x :: r => if Nat.eqb (rho x) y then x else rfind rho r y
  end.

Lemma rfind_spec rho l y : In y (map rho l) -> In (rfind rho l y) l /\ rho (rfind rho l y) = y.
Proof.
  induction l as [|x r IH]; cbn [map In rfind]; [intros []|].
  intros H. destruct (Nat.eqb (rho x) y) eqn:E.
  - apply Nat.eqb_eq in E. auto.
  - destruct H as [H | H]; [apply Nat.eqb_neq in E; contradiction|].
    destruct (IH H) as [H1 H2]. auto.
Qed.

Section Rename.
  Variable rho : nat -> nat.
  Hypothesis inj : injective rho.

  Lemma eqb_rho x y : Nat.eqb (rho x) (rho y) = Nat.eqb x y.
  Proof.
    destruct (Nat.eqb x y) eqn:E.
    - apply Nat.eqb_eq in E. subst. apply Nat.eqb_refl.
    - apply Nat.eqb_neq. intros H. apply inj in H. apply Nat.eqb_neq in E. contradiction.
  Qed.

  Lemma succs_rename g x : succs (rename_g rho g) (rho x) = map rho (succs g x).
  Proof.
    induction g as [|[x' ds] g IH]; [reflexivity|].
    cbn [rename_g map succs]. rewrite eqb_rho. destruct (Nat.eqb x' x); [reflexivity | exact IH].
  Qed.

  Lemma nodes_rename g : nodes (rename_g rho g) = map rho (nodes g).
  Proof.
    unfold nodes, rename_g. rewrite !map_map. apply map_ext. intros [x ds]. reflexivity.
  Qed.

  Variable K : kripke.
  Notation K' := (rename_K rho K).

  Lemma kg_rename : kg K' = rename_g rho (kg K).
  Proof. reflexivity. Qed.

  Lemma states_rename : states K' = map rho (states K).
  Proof. unfold states. rewrite kg_rename. apply nodes_rename. Qed.

  Lemma labels_rename s : labels_of K' (rho s) = labels_of K s.
  Proof.
    unfold labels_of. cbn [klab rename_K].
    induction (klab K) as [|[x l] L IH]; [reflexivity|].
    cbn [map lookup_lab]. rewrite eqb_rho. destruct (Nat.eqb x s); [reflexivity | exact IH].
  Qed.

  Lemma edge_rename x y : edge (kg K') (rho x) y <-> exists x', y = rho x' /\ edge (kg K) x x'.
  Proof.
    unfold edge. rewrite kg_rename, succs_rename, in_map_iff. split.
    - intros [x' [E H]]. exists x'. auto.
    - intros [x' [E H]]. exists x'. auto.
  Qed.

  Lemma edge_rename_img x y : edge (kg K') (rho x) (rho y) <-> edge (kg K) x y.
  Proof.
    rewrite edge_rename. split.
    - intros [x' [E H]]. apply inj in E. subst. exact H.
    - intros H. exists y. auto.
  Qed.

  Definition img (p : path) : path := fun i => rho (p i).

  Lemma img_path p : is_path K p <-> is_path K' (img p).
  Proof. split; intros H i; apply edge_rename_img; apply H. Qed.

  (* pulling a path of the renamed structure back *)
  Fixpoint pull (s : nat) (q : path) (i : nat) : nat :=
    match i with
    | 0 => s
    | S j => rfind rho (succs (kg K) (pull s q j)) (q (S j))
    end.

  Lemma pull_spec s q : is_path K' q -> q 0 = rho s ->
    forall i, rho (pull s q i) = q i /\ edge (kg K) (pull s q i) (pull s q (S i)).
  Proof.
    intros Hq E.
    assert (A : forall i, rho (pull s q i) = q i ->
                          rho (pull s q (S i)) = q (S i) /\ edge (kg K) (pull s q i) (pull s q (S i))).
    { intros i Hi. specialize (Hq i). rewrite <- Hi in Hq.
      unfold edge in Hq. rewrite kg_rename, succs_rename in Hq.
      destruct (rfind_spec rho _ _ Hq) as [H1 H2]. cbn [pull]. split; [exact H2 | exact H1]. }
    assert (B : forall i, rho (pull s q i) = q i).
    { intros i. induction i as [|i IH]; [cbn [pull]; symmetry; exact E | apply (A i IH)]. }
    intros i. split; [apply B | apply (A i (B i))].
  Qed.

  Lemma pull_path s q : is_path K' q -> q 0 = rho s ->
    is_path K (pull s q) /\ pull s q 0 = s /\ forall i, img (pull s q) i = q i.
  Proof.
    intros Hq E. split; [intros i; apply (pull_spec s q Hq E i)|]. split; [reflexivity|].
    intros i. apply (pull_spec s q Hq E i).
  Qed.

  Lemma sat_rename f : forall p, sat K' (img p) f <-> sat K p f.
  Proof.
    induction f as [b|a|g IH|fs IH|fs IH|g h IHg IHh|g IH|g IH|g IH|g h IHg IHh|g h IHg IHh|g IH|g IH]
      using form_ind'; intros p.
    - reflexivity.
    - cbn [sat]. unfold labelled, img. rewrite labels_rename. reflexivity.
    - cbn [sat]. rewrite (IH p). reflexivity.
    - rewrite !sat_FOr. rewrite Forall_forall in IH.
      split; intros [g [Hi Hg]]; exists g; (split; [exact Hi|]); apply (IH g Hi p); exact Hg.
    - rewrite !sat_FAnd. rewrite Forall_forall in IH.
      split; intros Hall g Hi; apply (IH g Hi p); apply Hall; exact Hi.
    - cbn [sat]. rewrite (IHg p), (IHh p). reflexivity.
    - cbn [sat]. apply (IH (suffix p 1)).
    - cbn [sat]. split; intros [k Hk]; exists k; apply (IH (suffix p k)); exact Hk.
    - cbn [sat]. split; intros Hk k; apply (IH (suffix p k)); apply Hk.
    - cbn [sat]. split; intros [k [Hk Hj]]; exists k; split.
      + apply (IHh (suffix p k)); exact Hk.
      + intros j Hlt. apply (IHg (suffix p j)). apply Hj; exact Hlt.
      + apply (IHh (suffix p k)); exact Hk.
      + intros j Hlt. apply (IHg (suffix p j)). apply Hj; exact Hlt.
    - cbn [sat]. split; intros HR k Hj.
      + apply (IHh (suffix p k)). apply HR.
        intros j Hlt Hs. apply (Hj j Hlt). apply (IHg (suffix p j)). exact Hs.
      + apply (IHh (suffix p k)). apply HR.
        intros j Hlt Hs. apply (Hj j Hlt). apply (IHg (suffix p j)). exact Hs.
    - cbn [sat]. split; intros H q Hq E.
      + apply (IH q). apply H; [apply img_path; exact Hq | unfold img; rewrite E; reflexivity].
      + destruct (pull_path (p 0) q Hq E) as [Hp' [E' Himg]].
        apply (sat_ext K' g (img (pull (p 0) q)) q Himg). apply (IH (pull (p 0) q)).
        apply H; [exact Hp' | exact E'].
    - cbn [sat]. split.
      + intros [q [Hq [E H]]]. destruct (pull_path (p 0) q Hq E) as [Hp' [E' Himg]].
        exists (pull (p 0) q). split; [exact Hp'|]. split; [exact E'|].
        apply (IH (pull (p 0) q)). apply (sat_ext K' g (img (pull (p 0) q)) q Himg). exact H.
      + intros [q [Hq [E H]]]. exists (img q). split; [apply img_path; exact Hq|].
        split; [unfold img; rewrite E; reflexivity|]. apply (IH q). exact H.
  Qed.

  Lemma holds_rename s f : holds K' (rho s) f <-> holds K s f.
  Proof.
    split.
    - intros [q [Hq [E H]]]. destruct (pull_path s q Hq E) as [Hp' [E' Himg]].
      exists (pull s q). split; [exact Hp'|]. split; [exact E'|].
      apply (sat_rename f (pull s q)). apply (sat_ext K' f (img (pull s q)) q Himg). exact H.
    - intros [p [Hp [E H]]]. exists (img p). split; [apply img_path; exact Hp|].
      split; [unfold img; rewrite E; reflexivity|]. apply sat_rename. exact H.
  Qed.

  Lemma allpaths_rename s g :
    (forall q, is_path K' q -> q 0 = rho s -> sat K' q g) <->
    (forall p, is_path K p -> p 0 = s -> sat K p g).
  Proof.
    split.
    - intros H p Hp E. apply sat_rename. apply H; [apply img_path; exact Hp|].
      unfold img. rewrite E. reflexivity.
    - intros H q Hq E. destruct (pull_path s q Hq E) as [Hp' [E' Himg]].
      apply (sat_ext K' g (img (pull s q)) q Himg). apply sat_rename. apply H; assumption.
  Qed.

  (* well-formedness is preserved *)
  Lemma succs_rename_notimg y : ~ In y (map rho (states K)) -> succs (kg K') y = [].
  Proof.
    intros H. apply KripkeP.kp_succs_notin. fold (states K'). rewrite states_rename. exact H.
  Qed.

  Lemma NoDup_map_rho l : NoDup l -> NoDup (map rho l).
  Proof.
    induction 1 as [|x l Hx ND IH]; cbn [map]; constructor; [|exact IH].
    intros H. apply in_map_iff in H. destruct H as [x' [E H]]. apply inj in E. subst. contradiction.
  Qed.

  Lemma rename_wf : wf_kripke K -> wf_kripke K'.
  Proof.
    intros [[ND [NDs Hn]] T].
    assert (Dec : forall y, In y (map rho (states K)) \/ ~ In y (map rho (states K))).
    { intros y. destruct (in_dec Nat.eq_dec y (map rho (states K))); auto. }
    split; [split; [|split]|].
    - fold (states K'). rewrite states_rename. apply NoDup_map_rho. exact ND.
    - intros y. destruct (Dec y) as [H | H].
      + apply in_map_iff in H. destruct H as [x [E _]]. subst y.
        rewrite kg_rename, succs_rename. apply NoDup_map_rho. apply NDs.
      + rewrite (succs_rename_notimg y H). constructor.
    - intros x y E. fold (states K'). rewrite states_rename.
      destruct (Dec x) as [H | H].
      + apply in_map_iff in H. destruct H as [x0 [E0 H0]]. subst x.
        apply edge_rename in E. destruct E as [y0 [Ey E]]. subst y.
        destruct (Hn x0 y0 E) as [H1 H2]. split; apply in_map; assumption.
      + unfold edge in E. rewrite (succs_rename_notimg x H) in E. destruct E.
    - intros y Hy. rewrite states_rename in Hy. apply in_map_iff in Hy.
      destruct Hy as [x [E Hx]]. subst y. rewrite kg_rename, succs_rename.
      specialize (T x Hx). destruct (succs (kg K) x); [congruence | discriminate].
  Qed.

  Theorem rename_states_ctl f : wf_kripke K -> ctl_state f = true ->
    exists S S', ctl_modelcheck K f = Ok S /\ ctl_modelcheck K' f = Ok S' /\
                 forall s', In s' S' <-> exists s, s' = rho s /\ In s S.
  Proof.
    intros W C. destruct (ctl_res K f W C) as [S [E H]].
    destruct (ctl_res K' f (rename_wf W) C) as [S' [E' H']].
    exists S, S'. split; [exact E|]. split; [exact E'|].
    intros s'. rewrite H', states_rename, in_map_iff. split.
    - intros [[s [Es Hs]] Hh]. subst s'. exists s. split; [reflexivity|]. apply H.
      split; [exact Hs|]. apply holds_rename. exact Hh.
    - intros [s [Es Hs]]. subst s'. apply H in Hs. destruct Hs as [Hs Hh].
      split; [exists s; auto|]. apply holds_rename. exact Hh.
  Qed.

  Theorem rename_states_ltl g : wf_kripke K -> ltl_path g = true ->
    exists S S', ltl_modelcheck K (FA g) = Ok S /\ ltl_modelcheck K' (FA g) = Ok S' /\
                 forall s', In s' S' <-> exists s, s' = rho s /\ In s S.
  Proof.
    intros W C. destruct (ltl_res K g W C) as [S [E H]].
    destruct (ltl_res K' g (rename_wf W) C) as [S' [E' H']].
    exists S, S'. split; [exact E|]. split; [exact E'|].
    intros s'. rewrite H', states_rename, in_map_iff. split.
    - intros [[s [Es Hs]] Hh]. subst s'. exists s. split; [reflexivity|]. apply H.
      split; [exact Hs|]. apply allpaths_rename. exact Hh.
    - intros [s [Es Hs]]. subst s'. apply H in Hs. destruct Hs as [Hs Hh].
      split; [exists s; auto|]. apply allpaths_rename. exact Hh.
  Qed.
End Rename.

(* ------------------------------------------------------------------ *)
(** * B.7  Renaming of atomic propositions                              *)
(* ------------------------------------------------------------------ *)
Fixpoint atoms_of (f : form) : list atom :=
  match f with
  | FBool _ => []
  | FAtom a => [a]
  | FNot g | FX g | FF g | FG g | FA g | FE g => atoms_of g
  | FOr fs | FAnd fs => flat_map atoms_of fs
  | FImp g h | FU g h | FR g h => atoms_of g ++ atoms_of h
  end.

Fixpoint map_atoms (sigma : atom -> atom) (f : form) : form :=
  match f with
  | FBool b => FBool b
  | FAtom a => FAtom (sigma a)
  | FNot g => FNot (map_atoms sigma g)
  | FOr fs => FOr (map (map_atoms sigma) fs)
  | FAnd fs => FAnd (map (map_atoms sigma) fs)
  | FImp g h => FImp (map_atoms sigma g) (map_atoms sigma h)
  | FX g => FX (map_atoms sigma g)
  | FF g => FF (map_atoms sigma g)
  | FG g => FG (map_atoms sigma g)
  | FU g h => FU (map_atoms sigma g) (map_atoms sigma h)
  | FR g h => FR (map_atoms sigma g) (map_atoms sigma h)
  | FA g => FA (map_atoms sigma g)
  | FE g => FE (map_atoms sigma g)
  end.

Definition relabel (sigma : atom -> atom) (K : kripke) : kripke :=
  mkK (kg K) (kinit K) (map (fun '(x, l) => (x, map sigma l)) (klab K)).

Definition inj_on (sigma : atom -> atom) (D : atom -> Prop) : Prop :=
  forall a b, D a -> D b -> sigma a = sigma b -> a = b.

Lemma labels_relabel sigma K s : labels_of (relabel sigma K) s = map sigma (labels_of K s).
Proof.
  unfold labels_of. cbn [klab relabel].
  induction (klab K) as [|[x l] L IH]; [reflexivity|].
  cbn [map lookup_lab]. destruct (Nat.eqb x s); [reflexivity | exact IH].
Qed.

Lemma forallb_map_eq {A} (Q : A -> bool) (h : A -> A) l :
  Forall (fun x => Q (h x) = Q x) l -> forallb Q (map h l) = forallb Q l.
Proof.
  induction 1 as [|x l Hx _ IH]; [reflexivity|]. cbn [map forallb]. rewrite Hx, IH. reflexivity.
Qed.

Lemma map_atoms_ctl sigma f :
  ctl_state (map_atoms sigma f) = ctl_state f /\ ctl_path (map_atoms sigma f) = ctl_path f.
Proof.
  induction f as [b|a|g IH|fs IH|fs IH|g h IHg IHh|g IH|g IH|g IH|g h IHg IHh|g h IHg IHh|g IH|g IH]
    using form_ind'; cbn [map_atoms]; try (split; reflexivity).
  - split; [cbn [ctl_state]; apply IH | reflexivity].
  - split; [|reflexivity]. cbn [ctl_state]. apply forallb_map_eq.
    eapply Forall_impl; [|exact IH]. intros x Hx. apply Hx.
  - split; [|reflexivity]. cbn [ctl_state]. apply forallb_map_eq.
    eapply Forall_impl; [|exact IH]. intros x Hx. apply Hx.
  - split; [|reflexivity]. cbn [ctl_state]. rewrite (proj1 IHg), (proj1 IHh). reflexivity.
  - split; [reflexivity|]. cbn [ctl_path]. apply IH.
  - split; [reflexivity|]. cbn [ctl_path]. apply IH.
  - split; [reflexivity|]. cbn [ctl_path]. apply IH.
  - split; [reflexivity|]. cbn [ctl_path]. rewrite (proj1 IHg), (proj1 IHh). reflexivity.
  - split; [reflexivity|]. cbn [ctl_path]. rewrite (proj1 IHg), (proj1 IHh). reflexivity.
  - split; [|reflexivity]. exact (proj2 IH).
  - split; [|reflexivity]. exact (proj2 IH).
Qed.

Lemma map_atoms_ltl sigma f : ltl_path (map_atoms sigma f) = ltl_path f.
Proof.
  induction f as [b|a|g IH|fs IH|fs IH|g h IHg IHh|g IH|g IH|g IH|g h IHg IHh|g h IHg IHh|g IH|g IH]
    using form_ind'; cbn [map_atoms ltl_path]; try reflexivity; try exact IH;
    try (rewrite IHg, IHh; reflexivity).
  - apply forallb_map_eq. exact IH.
  - apply forallb_map_eq. exact IH.
Qed.

Section Relabel.
  Variable sigma : atom -> atom.
  Variable K : kripke.
  Variable D : atom -> Prop.
  Hypothesis injD : inj_on sigma D.
  Hypothesis labD : forall s a, labelled K s a -> D a.
  Notation K' := (relabel sigma K).

  Lemma labelled_relabel s a : D a -> (labelled K' s (sigma a) <-> labelled K s a).
  Proof.
    intros Da. unfold labelled. rewrite labels_relabel, in_map_iff. split.
    - intros [b [E Hb]]. assert (b = a) by (apply injD; [apply (labD s b Hb) | exact Da | exact E]).
      subst. exact Hb.
    - intros H. exists a. auto.
  Qed.

  Lemma sat_relabel f : (forall a, In a (atoms_of f) -> D a) ->
    forall p, sat K' p (map_atoms sigma f) <-> sat K p f.
  Proof.
    induction f as [b|a|g IH|fs IH|fs IH|g h IHg IHh|g IH|g IH|g IH|g h IHg IHh|g h IHg IHh|g IH|g IH]
      using form_ind'; cbn [atoms_of map_atoms]; intros HD p.
    - reflexivity.
    - cbn [sat]. apply labelled_relabel. apply HD. left. reflexivity.
    - cbn [sat]. rewrite (IH HD p). reflexivity.
    - rewrite !sat_FOr. rewrite Forall_forall in IH.
      assert (HD' : forall g, In g fs -> forall a, In a (atoms_of g) -> D a).
      { intros g Hg a Ha. apply HD. apply in_flat_map. exists g. auto. }
      split.
      + intros [g' [Hi Hg]]. apply in_map_iff in Hi. destruct Hi as [g [E Hi]]. subst g'.
        exists g. split; [exact Hi|]. apply (IH g Hi (HD' g Hi) p). exact Hg.
      + intros [g [Hi Hg]]. exists (map_atoms sigma g). split; [apply in_map; exact Hi|].
        apply (IH g Hi (HD' g Hi) p). exact Hg.
    - rewrite !sat_FAnd. rewrite Forall_forall in IH.
      assert (HD' : forall g, In g fs -> forall a, In a (atoms_of g) -> D a).
      { intros g Hg a Ha. apply HD. apply in_flat_map. exists g. auto. }
      split.
      + intros H g Hi. apply (IH g Hi (HD' g Hi) p). apply H. apply in_map. exact Hi.
      + intros H g' Hi. apply in_map_iff in Hi. destruct Hi as [g [E Hi]]. subst g'.
        apply (IH g Hi (HD' g Hi) p). apply H. exact Hi.
    - cbn [sat].
      rewrite (IHg (fun a Ha => HD a (in_or_app _ _ a (or_introl Ha))) p),
              (IHh (fun a Ha => HD a (in_or_app _ _ a (or_intror Ha))) p). reflexivity.
    - cbn [sat]. apply (IH HD).
    - cbn [sat]. split; intros [k Hk]; exists k; apply (IH HD); exact Hk.
    - cbn [sat]. split; intros Hk k; apply (IH HD); apply Hk.
    - pose proof (IHg (fun a Ha => HD a (in_or_app _ _ a (or_introl Ha)))) as Ig.
      pose proof (IHh (fun a Ha => HD a (in_or_app _ _ a (or_intror Ha)))) as Ih.
      cbn [sat]. split; intros [k [Hk Hj]]; exists k; split.
      + apply Ih; exact Hk.
      + intros j Hlt. apply Ig. apply Hj; exact Hlt.
      + apply Ih; exact Hk.
      + intros j Hlt. apply Ig. apply Hj; exact Hlt.
    - pose proof (IHg (fun a Ha => HD a (in_or_app _ _ a (or_introl Ha)))) as Ig.
      pose proof (IHh (fun a Ha => HD a (in_or_app _ _ a (or_intror Ha)))) as Ih.
      cbn [sat]. split; intros HR k Hj.
      + apply Ih. apply HR. intros j Hlt Hs. apply (Hj j Hlt). apply Ig. exact Hs.
      + apply Ih. apply HR. intros j Hlt Hs. apply (Hj j Hlt). apply Ig. exact Hs.
    - cbn [sat]. split; intros H q Hq E; apply (IH HD); apply H; assumption.
    - cbn [sat]. split; intros [q [Hq [E H]]]; exists q; (split; [exact Hq|]); (split; [exact E|]);
        apply (IH HD); exact H.
  Qed.

  Lemma relabel_wf : wf_kripke K -> wf_kripke K'.
  Proof. intros W. exact W. Qed.
End Relabel.

(* sigma is injective on the atoms of f together with the labels of K *)
Definition rel_atoms (K : kripke) (f : form) (a : atom) : Prop :=
  In a (atoms_of f) \/ exists s, labelled K s a.

Theorem rename_atoms_ctl sigma K f : wf_kripke K -> ctl_state f = true ->
  inj_on sigma (rel_atoms K f) ->
  exists S S', ctl_modelcheck K f = Ok S /\
               ctl_modelcheck (relabel sigma K) (map_atoms sigma f) = Ok S' /\ same_set S S'.
Proof.
  intros W C I.
  assert (C' : ctl_state (map_atoms sigma f) = true) by (rewrite (proj1 (map_atoms_ctl sigma f)); exact C).
  apply (res_set_same _ _ _ _ (ctl_res K f W C) (ctl_res _ _ (relabel_wf sigma K W) C')).
  assert (X : forall p, sat (relabel sigma K) p (map_atoms sigma f) <-> sat K p f).
  { apply (sat_relabel sigma K (rel_atoms K f) I).
    - intros s a H. right. exists s. exact H.
    - intros a H. left. exact H. }
  intros s. change (states (relabel sigma K)) with (states K).
  split; intros [Hs [p [Hp [E H]]]]; (split; [exact Hs|]); exists p; (split; [exact Hp|]);
    (split; [exact E|]); apply X; exact H.
Qed.

Theorem rename_atoms_ltl sigma K g : wf_kripke K -> ltl_path g = true ->
  inj_on sigma (rel_atoms K g) ->
  exists S S', ltl_modelcheck K (FA g) = Ok S /\
               ltl_modelcheck (relabel sigma K) (FA (map_atoms sigma g)) = Ok S' /\ same_set S S'.
Proof.
  intros W C I.
  assert (C' : ltl_path (map_atoms sigma g) = true) by (rewrite map_atoms_ltl; exact C).
  apply (res_set_same _ _ _ _ (ltl_res K g W C) (ltl_res _ _ (relabel_wf sigma K W) C')).
  assert (X : forall p, sat (relabel sigma K) p (map_atoms sigma g) <-> sat K p g).
  { apply (sat_relabel sigma K (rel_atoms K g) I).
    - intros s a H. right. exists s. exact H.
    - intros a H. left. exact H. }
  intros s. change (states (relabel sigma K)) with (states K).
  split; intros [Hs H]; (split; [exact Hs|]); intros p Hp E; apply X; apply H; assumption.
Qed.

(* ------------------------------------------------------------------ *)
(** * Complements                                                       *)
(* ------------------------------------------------------------------ *)
(* result-level equality is the same thing as semantic equivalence on the paths of K *)
Theorem same_res_sequiv K f g : wf_kripke K -> ctl_state f = true -> ctl_state g = true ->
  (same_res (ctl_modelcheck K f) (ctl_modelcheck K g) <-> sequiv K f g).
Proof.
  intros W Cf Cg. split; [|apply ctl_sequiv_same_result; assumption].
  intros [S1 [S2 [E1 [E2 HS]]]] p Hp.
  destruct (ctl_res K f W Cf) as [Sf [Ef Hf]]. destruct (ctl_res K g W Cg) as [Sg [Eg Hg]].
  rewrite E1 in Ef. rewrite E2 in Eg. injection Ef as <-. injection Eg as <-.
  assert (H0 : In (p 0) (states K)) by (apply CTLP.path_states; [apply W | exact Hp]).
  rewrite <- (holds_on_path K f p Cf Hp), <- (holds_on_path K g p Cg Hp).
  specialize (Hf (p 0)). specialize (Hg (p 0)). specialize (HS (p 0)). tauto.
Qed.

(* the expansion laws as semantic equivalences on the paths of a well-formed structure *)
Section ExpansionSem.
  Variable K : kripke.
  Hypothesis W : wf_kripke K.
  Ltac cs := cbn [ctl_state forallb andb];
             repeat match goal with H : ctl_state _ = true |- _ => rewrite H end; reflexivity.

  Corollary EU_expansion_sem f g : ctl_state f = true -> ctl_state g = true ->
    sequiv K (FE (FU f g)) (FOr [g; FAnd [f; FE (FX (FE (FU f g)))]]).
  Proof. intros Cf Cg. apply same_res_sequiv; [exact W | cs | cs | apply EU_expansion; assumption]. Qed.
  Corollary AU_expansion_sem f g : ctl_state f = true -> ctl_state g = true ->
    sequiv K (FA (FU f g)) (FOr [g; FAnd [f; FA (FX (FA (FU f g)))]]).
  Proof. intros Cf Cg. apply same_res_sequiv; [exact W | cs | cs | apply AU_expansion; assumption]. Qed.
  Corollary EG_expansion_sem f : ctl_state f = true ->
    sequiv K (FE (FG f)) (FAnd [f; FE (FX (FE (FG f)))]).
  Proof. intros Cf. apply same_res_sequiv; [exact W | cs | cs | apply EG_expansion; assumption]. Qed.
  Corollary AG_expansion_sem f : ctl_state f = true ->
    sequiv K (FA (FG f)) (FAnd [f; FA (FX (FA (FG f)))]).
  Proof. intros Cf. apply same_res_sequiv; [exact W | cs | cs | apply AG_expansion; assumption]. Qed.
  Corollary EF_expansion_sem f : ctl_state f = true ->
    sequiv K (FE (FF f)) (FOr [f; FE (FX (FE (FF f)))]).
  Proof. intros Cf. apply same_res_sequiv; [exact W | cs | cs | apply EF_expansion; assumption]. Qed.
  Corollary AF_expansion_sem f : ctl_state f = true ->
    sequiv K (FA (FF f)) (FOr [f; FA (FX (FA (FF f)))]).
  Proof. intros Cf. apply same_res_sequiv; [exact W | cs | cs | apply AF_expansion; assumption]. Qed.
End ExpansionSem.

(* B.8 with the hypotheses in their literal form: K' has the states of K and more, the
   same edges between and the same labels on states of K, and no edge from a state of K
   to a state outside K *)
Theorem unreachable_extension K K' :
  wf_kripke K -> wf_kripke K' -> incl (states K) (states K') ->
  (forall x y, In x (states K) -> In y (states K) -> (edge (kg K) x y <-> edge (kg K') x y)) ->
  (forall x y, In x (states K) -> edge (kg K') x y -> In y (states K)) ->
  (forall s a, In s (states K) -> (labelled K s a <-> labelled K' s a)) ->
  (forall s f, In s (states K) -> (holds K' s f <-> holds K s f)) /\
  (forall s g, In s (states K) ->
     ((forall p, is_path K' p -> p 0 = s -> sat K' p g) <->
      (forall p, is_path K p -> p 0 = s -> sat K p g))) /\
  (forall f, ctl_state f = true ->
     exists S S', ctl_modelcheck K f = Ok S /\ ctl_modelcheck K' f = Ok S' /\
                  forall s, In s S <-> In s (states K) /\ In s S') /\
  (forall g, ltl_path g = true ->
     exists S S', ltl_modelcheck K (FA g) = Ok S /\ ltl_modelcheck K' (FA g) = Ok S' /\
                  forall s, In s S <-> In s (states K) /\ In s S').
Proof.
  intros W W' Hincl He Hno Hl.
  assert (WG : wf_graph (kg K)) by apply W.
  assert (Hedge : forall x y, In x (states K) -> (edge (kg K) x y <-> edge (kg K') x y)).
  { intros x y Hx. split; intros E.
    - apply He; [exact Hx | | exact E]. destruct WG as [_ [_ H]]. apply (H x y E).
    - apply He; [exact Hx | apply (Hno x y Hx E) | exact E]. }
  split; [|split; [|split]].
  - intros s f. apply (unreachable_extension_holds K K' WG Hedge Hl).
  - intros s g. apply (unreachable_extension_allpaths K K' WG Hedge Hl).
  - intros f. apply (unreachable_extension_ctl K K' WG Hedge Hl Hincl W W').
  - intros g. apply (unreachable_extension_ltl K K' WG Hedge Hl Hincl W W').
Qed.

(* ------------------------------------------------------------------ *)
Print Assumptions ctl_total_subset.
Print Assumptions ltl_total_subset.
Print Assumptions ctl_ltl_agree.
Print Assumptions ctl_not_compl.
Print Assumptions ctl_and_inter.
Print Assumptions ctl_or_union.
Print Assumptions ctl_imp_law.
Print Assumptions AX_not_EX_not.
Print Assumptions AF_not_EG_not.
Print Assumptions AG_not_EF_not.
Print Assumptions AR_not_EU_not.
Print Assumptions ltl_A_not_E_not.
Print Assumptions EU_expansion.
Print Assumptions AU_expansion.
Print Assumptions EG_expansion.
Print Assumptions AG_expansion.
Print Assumptions EF_expansion.
Print Assumptions AF_expansion.
Print Assumptions ctl_equiv_same_result.
Print Assumptions presentation_invariance_ctl.
Print Assumptions presentation_invariance_ltl.
Print Assumptions unreachable_extension_ctl.
Print Assumptions unreachable_extension_ltl.
Print Assumptions unreachable_extension.
Print Assumptions same_res_sequiv.
Print Assumptions EU_expansion_sem.
Print Assumptions rename_wf.
Print Assumptions rename_states_ctl.
Print Assumptions rename_states_ltl.
Print Assumptions rename_atoms_ctl.
Print Assumptions rename_atoms_ltl.
