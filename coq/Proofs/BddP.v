(* BddP.v — canonicity (C16) and functional correctness (C17) of the hash-consed
   BDD store of Model/Bdd.v.  Axiom-free. *)
From PMC Require Import Spec.BoolFun.
From Coq Require Import Lia.

(* ------------------------------------------------------------------ *)
(** * Well-formed stores *)

Fixpoint sorted_ids (s : store) : Prop :=
  match s with
  | [] => True
  | (m, _) :: r => fresh r <= m /\ sorted_ids r
  end.

Definition children_ok (s : store) : Prop :=
  forall n v l h, lookup s n = Some (v, l, h) ->
    l <> h /\ live s l = true /\ live s h = true /\ l < n /\ h < n.

Definition wf_store (s : store) : Prop :=
  sorted_ids s /\ children_ok s /\ no_dup_triples s = true.

Definition extends (s s' : store) : Prop :=
  forall n t, lookup s n = Some t -> lookup s' n = Some t.

(* [x] strictly precedes the root variable of [n] (or [n] is a terminal) *)
Definition below (O : ordering) (s : store) (x : var) (n : nat) : Prop :=
  is_terminal n = true \/ in_order O x (nvar s n) = true.

Inductive ordered (O : ordering) (s : store) : nat -> Prop :=
| ord_term n : is_terminal n = true -> ordered O s n
| ord_node n v l h :
    lookup s n = Some (v, l, h) -> in_ord O v = true ->
    below O s v l -> below O s v h ->
    ordered O s l -> ordered O s h -> ordered O s n.

(* ------------------------------------------------------------------ *)
(** * Basic facts *)

Lemma is_terminal_true n : is_terminal n = true <-> n < 2.
Proof. unfold is_terminal. apply Nat.ltb_lt. Qed.
Lemma is_terminal_false n : is_terminal n = false <-> 2 <= n.
Proof. unfold is_terminal. rewrite Nat.ltb_ge. tauto. Qed.

Lemma wf_nil : wf_store [].
Proof. repeat split; cbn; try discriminate; auto. Qed.

Lemma extends_refl s : extends s s.
Proof. intros n t H; exact H. Qed.
Lemma extends_trans s1 s2 s3 : extends s1 s2 -> extends s2 s3 -> extends s1 s3.
Proof. intros H1 H2 n t H; auto. Qed.

Lemma fresh_ge2 s : sorted_ids s -> 2 <= fresh s.
Proof.
  induction s as [|[m t] r IH]; cbn; [lia|].
  intros [Hm Hr]. specialize (IH Hr). lia.
Qed.

Lemma sorted_fresh_le s : sorted_ids s -> forall m t r, s = (m, t) :: r -> 2 <= m.
Proof.
  intros Hs m t r ->. cbn in Hs. destruct Hs as [Hm Hr].
  pose proof (fresh_ge2 r Hr). lia.
Qed.

Lemma lookup_bounds s : sorted_ids s -> forall n t, lookup s n = Some t -> 2 <= n < fresh s.
Proof.
  induction s as [|[m t'] r IH]; cbn; intros Hs n t H; [discriminate|].
  destruct Hs as [Hm Hr].
  destruct (Nat.eqb_spec m n) as [->|Hne].
  - pose proof (fresh_ge2 r Hr). lia.
  - specialize (IH Hr n t H). lia.
Qed.

Lemma lookup_terminal s n : sorted_ids s -> is_terminal n = true -> lookup s n = None.
Proof.
  intros Hs Ht. destruct (lookup s n) as [t|] eqn:E; auto.
  apply (lookup_bounds s Hs) in E. apply is_terminal_true in Ht. lia.
Qed.

Lemma live_lt_fresh s n : sorted_ids s -> live s n = true -> n < fresh s.
Proof.
  intros Hs H. unfold live in H. apply orb_true_iff in H. destruct H as [H|H].
  - apply is_terminal_true in H. pose proof (fresh_ge2 s Hs). lia.
  - destruct (lookup s n) as [t|] eqn:E; [|discriminate].
    apply (lookup_bounds s Hs) in E. lia.
Qed.

Lemma live_terminal s n : is_terminal n = true -> live s n = true.
Proof. intros H. unfold live. rewrite H. reflexivity. Qed.

Lemma live_lookup s n t : lookup s n = Some t -> live s n = true.
Proof. intros H. unfold live. rewrite H. apply orb_true_r. Qed.

Lemma live_cases s n : live s n = true ->
  is_terminal n = true \/ (is_terminal n = false /\ exists v l h, lookup s n = Some (v, l, h)).
Proof.
  unfold live. destruct (is_terminal n); [auto|]. cbn.
  destruct (lookup s n) as [[[v l] h]|]; [|discriminate].
  intros _. right. split; auto. eauto.
Qed.

Lemma live_extends s s' n : extends s s' -> live s n = true -> live s' n = true.
Proof.
  intros He H. apply live_cases in H. destruct H as [H|[_ (v & l & h & H)]].
  - apply live_terminal; auto.
  - apply He in H. eapply live_lookup; eauto.
Qed.

Lemma wf_sorted s : wf_store s -> sorted_ids s.
Proof. intros H; apply H. Qed.
Lemma wf_children s : wf_store s -> children_ok s.
Proof. intros H; apply H. Qed.
Lemma wf_nodup s : wf_store s -> no_dup_triples s = true.
Proof. intros H; apply H. Qed.

Lemma wf_child_live s n v l h : wf_store s -> lookup s n = Some (v, l, h) ->
  live s l = true /\ live s h = true.
Proof. intros Hw H. apply (wf_children s Hw) in H. tauto. Qed.

Lemma wf_tail p r : wf_store (p :: r) -> wf_store r.
Proof.
  destruct p as [m t]. intros (Hs & Hc & Hn). cbn in Hs. destruct Hs as [Hm Hr].
  split; [exact Hr|]. split.
  - intros n v l h H.
    pose proof (lookup_bounds r Hr _ _ H) as Hb.
    assert (Hl : lookup ((m, t) :: r) n = Some (v, l, h)).
    { cbn. destruct (Nat.eqb_spec m n); [lia|exact H]. }
    apply Hc in Hl. destruct Hl as (Hd & Hll & Hlh & Hl1 & Hl2).
    repeat split; auto.
    + unfold live in *. cbn in Hll. destruct (Nat.eqb_spec m l); [lia|exact Hll].
    + unfold live in *. cbn in Hlh. destruct (Nat.eqb_spec m h); [lia|exact Hlh].
  - cbn in Hn. destruct t as [[v l] h]. apply andb_true_iff in Hn. tauto.
Qed.

(* ------------------------------------------------------------------ *)
(** * Unfolding [denote] *)

Lemma denote_ext s : forall n e1 e2, (forall x, e1 x = e2 x) -> denote s n e1 = denote s n e2.
Proof.
  induction s as [|[m [[v l] h]] r IH]; cbn; intros n e1 e2 He; [reflexivity|].
  rewrite (He v), (IH h e1 e2 He), (IH l e1 e2 He), (IH n e1 e2 He). reflexivity.
Qed.

Lemma denote_cons_ne m t r n e : n <> m -> denote ((m, t) :: r) n e = denote r n e.
Proof.
  intros H. destruct t as [[v l] h]. cbn. destruct (Nat.eqb_spec n m); [contradiction|reflexivity].
Qed.

Lemma denote_terminal s n e : sorted_ids s -> is_terminal n = true -> denote s n e = val_of n.
Proof.
  intros Hs Ht. apply is_terminal_true in Ht.
  induction s as [|[m t] r IH]; [reflexivity|].
  pose proof (sorted_fresh_le _ Hs m t r eq_refl).
  rewrite denote_cons_ne by lia. apply IH. apply Hs.
Qed.

Lemma denote_node s n v l h e : wf_store s -> lookup s n = Some (v, l, h) ->
  denote s n e = if e v then denote s h e else denote s l e.
Proof.
  induction s as [|[m t] r IH]; intros Hw H; [discriminate|].
  pose proof (wf_children _ Hw _ _ _ _ H) as (_ & _ & _ & Hl & Hh).
  pose proof (lookup_bounds _ (wf_sorted _ Hw) _ _ H) as Hb. cbn [fresh] in Hb.
  cbn in H. destruct (Nat.eqb_spec m n) as [->|Hne].
  - injection H as ->. rewrite (denote_cons_ne n (v, l, h) r h) by lia.
    rewrite (denote_cons_ne n (v, l, h) r l) by lia.
    cbn. rewrite Nat.eqb_refl. reflexivity.
  - rewrite (denote_cons_ne m t r n), (denote_cons_ne m t r h), (denote_cons_ne m t r l) by lia.
    apply IH; [eapply wf_tail; eauto|exact H].
Qed.

Lemma denote_dead s n e : sorted_ids s -> live s n = false -> denote s n e = false.
Proof.
  intros Hs. unfold live. intros H. apply orb_false_iff in H. destruct H as [Ht Hl].
  apply is_terminal_false in Ht.
  induction s as [|[m t] r IH]; cbn.
  - destruct (Nat.eqb_spec n 1); [lia|reflexivity].
  - cbn in Hl. destruct (Nat.eqb_spec m n) as [->|Hne]; [discriminate|].
    destruct t as [[v l] h]. destruct (Nat.eqb_spec n m); [congruence|].
    apply IH; [apply Hs|exact Hl].
Qed.

(* ------------------------------------------------------------------ *)
(** * The variable ordering *)

Lemma in_order_trans O x y z :
  in_order O x y = true -> in_order O y z = true -> in_order O x z = true.
Proof.
  unfold in_order. destruct (index_of O x), (index_of O y), (index_of O z); try discriminate.
  rewrite !Nat.ltb_lt. lia.
Qed.

Lemma in_order_in_ord O x y : in_order O x y = true -> in_ord O x = true /\ in_ord O y = true.
Proof.
  unfold in_order, in_ord. destruct (index_of O x), (index_of O y); try discriminate. auto.
Qed.

Lemma index_of_inj O : forall x y i, index_of O x = Some i -> index_of O y = Some i -> x = y.
Proof.
  induction O as [|z r IH]; cbn; intros x y i Hx Hy; [discriminate|].
  destruct (Nat.eqb_spec z x) as [Hzx|Hzx], (Nat.eqb_spec z y) as [Hzy|Hzy]; [congruence| | |].
  - injection Hx as <-. destruct (index_of r y); discriminate.
  - injection Hy as <-. destruct (index_of r x); discriminate.
  - destruct (index_of r x) as [a|] eqn:Ea, (index_of r y) as [b|] eqn:Eb; try discriminate.
    cbn in *. apply (IH x y a); congruence.
Qed.

Lemma in_order_ne O x y : in_order O x y = true -> x <> y.
Proof.
  unfold in_order. intros H ->. destruct (index_of O y); [|discriminate].
  apply Nat.ltb_lt in H. lia.
Qed.

Lemma in_order_asym O x y : in_order O x y = true -> in_order O y x = false.
Proof.
  unfold in_order. destruct (index_of O x), (index_of O y); try discriminate.
  rewrite Nat.ltb_lt, Nat.ltb_ge. lia.
Qed.

Lemma in_order_total O x y : in_ord O x = true -> in_ord O y = true ->
  x = y \/ in_order O x y = true \/ in_order O y x = true.
Proof.
  unfold in_ord, in_order.
  destruct (index_of O x) as [i|] eqn:Ei; [|discriminate].
  destruct (index_of O y) as [j|] eqn:Ej; [|discriminate]. intros _ _.
  destruct (lt_eq_lt_dec i j) as [[H|H]|H].
  - right; left. apply Nat.ltb_lt; exact H.
  - left. subst j. eapply index_of_inj; eauto.
  - right; right. apply Nat.ltb_lt; exact H.
Qed.

(* ------------------------------------------------------------------ *)
(** * Hash-consing: [find_iso], [no_dup_triples] *)

Lemma triple_eqb_eq a b : triple_eqb a b = true <-> a = b.
Proof.
  destruct a as [[v l] h], b as [[v' l'] h']. cbn.
  rewrite !andb_true_iff, !Nat.eqb_eq. split.
  - intros [[-> ->] ->]; reflexivity.
  - intros H; injection H as -> -> ->; auto.
Qed.

Lemma find_iso_lookup s t n : sorted_ids s -> find_iso s t = Some n -> lookup s n = Some t.
Proof.
  induction s as [|[m t'] r IH]; cbn; intros Hs H; [discriminate|].
  destruct Hs as [Hm Hr].
  destruct (triple_eqb t t') eqn:E.
  - injection H as ->. apply triple_eqb_eq in E. subst. rewrite Nat.eqb_refl. reflexivity.
  - specialize (IH Hr H). pose proof (lookup_bounds r Hr _ _ IH).
    destruct (Nat.eqb_spec m n); [lia|exact IH].
Qed.

Lemma find_iso_none s t : find_iso s t = None ->
  existsb (fun p => triple_eqb t (snd p)) s = false.
Proof.
  induction s as [|[m t'] r IH]; cbn; intros H; [reflexivity|].
  destruct (triple_eqb t t'); [discriminate|]. cbn. auto.
Qed.

Lemma lookup_existsb s n t : lookup s n = Some t ->
  existsb (fun p => triple_eqb t (snd p)) s = true.
Proof.
  induction s as [|[m t'] r IH]; cbn; intros H; [discriminate|].
  destruct (Nat.eqb_spec m n).
  - injection H as ->. replace (triple_eqb t t) with true; [reflexivity|].
    symmetry. apply triple_eqb_eq. reflexivity.
  - rewrite (IH H). apply orb_true_r.
Qed.

Lemma triple_unique s u v t : no_dup_triples s = true ->
  lookup s u = Some t -> lookup s v = Some t -> u = v.
Proof.
  induction s as [|[m t'] r IH]; cbn; intros Hn Hu Hv; [discriminate|].
  apply andb_true_iff in Hn. destruct Hn as [Hn1 Hn2]. apply negb_true_iff in Hn1.
  destruct (Nat.eqb_spec m u) as [Hmu|Hmu], (Nat.eqb_spec m v) as [Hmv|Hmv]; [congruence| | |auto].
  - injection Hu as ->. apply lookup_existsb in Hv. congruence.
  - injection Hv as ->. apply lookup_existsb in Hu. congruence.
Qed.

(* ------------------------------------------------------------------ *)
(** * Extensions of a store *)

Lemma nvar_extends s s' n t : extends s s' -> lookup s n = Some t -> nvar s' n = nvar s n.
Proof. intros He H. unfold nvar. rewrite (He _ _ H), H. reflexivity. Qed.

Lemma below_extends O s s' x n : extends s s' -> live s n = true ->
  below O s x n -> below O s' x n.
Proof.
  intros He Hl [H|H]; [left; exact H|].
  apply live_cases in Hl. destruct Hl as [Hl|[_ (v & l & h & Hl)]]; [left; exact Hl|].
  right. rewrite (nvar_extends s s' n _ He Hl). exact H.
Qed.

Lemma ordered_extends O s s' n : wf_store s -> extends s s' -> ordered O s n -> ordered O s' n.
Proof.
  intros Hw He H. induction H as [n Ht|n v l h Hl Hv Hbl Hbh Hol IHl Hoh IHh].
  - apply ord_term; exact Ht.
  - destruct (wf_child_live s n v l h Hw Hl) as [Hll Hlh].
    eapply ord_node; eauto using below_extends.
Qed.

Lemma denote_extends s s' e : wf_store s -> wf_store s' -> extends s s' ->
  forall n, live s n = true -> denote s' n e = denote s n e.
Proof.
  intros Hw Hw' He n. induction n as [n IH] using lt_wf_ind. intros Hl.
  apply live_cases in Hl. destruct Hl as [Hl|[_ (v & l & h & Hl)]].
  - rewrite !denote_terminal; auto using wf_sorted.
  - rewrite (denote_node s' n v l h e Hw' (He _ _ Hl)), (denote_node s n v l h e Hw Hl).
    pose proof (wf_children s Hw _ _ _ _ Hl) as (_ & Hll & Hlh & Hl1 & Hl2).
    rewrite (IH l Hl1 Hll), (IH h Hl2 Hlh). reflexivity.
Qed.

(* ------------------------------------------------------------------ *)
(** * [mknode] *)

Lemma wf_cons s v l h : wf_store s -> live s l = true -> live s h = true -> l <> h ->
  find_iso s (v, l, h) = None -> wf_store ((fresh s, (v, l, h)) :: s).
Proof.
  intros Hw Hll Hlh Hne Hf. pose proof (wf_sorted s Hw) as Hs.
  split; [cbn; split; [lia|exact Hs]|]. split.
  - intros n v' l' h' H. cbn in H.
    assert (Hext : extends s ((fresh s, (v, l, h)) :: s)).
    { intros k t Hk. cbn. pose proof (lookup_bounds s Hs _ _ Hk).
      destruct (Nat.eqb_spec (fresh s) k); [lia|exact Hk]. }
    destruct (Nat.eqb_spec (fresh s) n) as [<-|Hn].
    + injection H as <- <- <-.
      pose proof (live_lt_fresh s l Hs Hll). pose proof (live_lt_fresh s h Hs Hlh).
      repeat split; eauto using live_extends.
    + pose proof (wf_children s Hw _ _ _ _ H) as (H1 & H2 & H3 & H4 & H5).
      repeat split; eauto using live_extends.
  - cbn [no_dup_triples]. rewrite (find_iso_none s _ Hf). cbn [negb andb]. apply wf_nodup; exact Hw.
Qed.

Lemma extends_cons s t : sorted_ids s -> extends s ((fresh s, t) :: s).
Proof.
  intros Hs k t' Hk. cbn. pose proof (lookup_bounds s Hs _ _ Hk).
  destruct (Nat.eqb_spec (fresh s) k); [lia|exact Hk].
Qed.

Ltac splits := repeat match goal with |- _ /\ _ => split end.

Theorem mknode_spec s v l h s' n :
  wf_store s -> live s l = true -> live s h = true -> mknode s v l h = (s', n) ->
  wf_store s' /\ extends s s' /\ live s' n = true /\
  (forall m env, live s m = true -> denote s' m env = denote s m env) /\
  (forall env, denote s' n env = if env v then denote s h env else denote s l env).
Proof.
  intros Hw Hll Hlh Hmk. pose proof (wf_sorted s Hw) as Hs. unfold mknode in Hmk.
  destruct (Nat.eqb_spec l h) as [<-|Hne].
  - injection Hmk as <- <-. splits; auto using extends_refl.
    intros env. destruct (env v); reflexivity.
  - destruct (find_iso s (v, l, h)) as [k|] eqn:Ef.
    + injection Hmk as <- <-. apply find_iso_lookup in Ef; [|exact Hs].
      splits; auto using extends_refl.
      * eapply live_lookup; eauto.
      * intros env. apply denote_node; auto.
    + injection Hmk as <- <-.
      pose proof (wf_cons s v l h Hw Hll Hlh Hne Ef) as Hw'.
      pose proof (extends_cons s (v, l, h) Hs) as He.
      assert (Hd : forall m env, live s m = true ->
                 denote ((fresh s, (v, l, h)) :: s) m env = denote s m env).
      { intros m env Hm. apply denote_extends; auto. }
      splits; auto.
      * eapply live_lookup. cbn. rewrite Nat.eqb_refl. reflexivity.
      * intros env. rewrite (denote_node _ (fresh s) v l h env Hw').
        -- rewrite !Hd by auto. reflexivity.
        -- cbn. rewrite Nat.eqb_refl. reflexivity.
Qed.

(* the node returned by [mknode]: either the common son, or a node labelled (v, l, h) *)
Lemma mknode_shape s v l h s' n : sorted_ids s -> mknode s v l h = (s', n) ->
  (l = h /\ n = l /\ s' = s) \/ (l <> h /\ lookup s' n = Some (v, l, h)).
Proof.
  intros Hs Hmk. unfold mknode in Hmk.
  destruct (Nat.eqb_spec l h) as [<-|Hne].
  - injection Hmk as <- <-. auto.
  - right. split; auto. destruct (find_iso s (v, l, h)) as [k|] eqn:Ef.
    + injection Hmk as <- <-. apply find_iso_lookup; auto.
    + injection Hmk as <- <-. cbn. rewrite Nat.eqb_refl. reflexivity.
Qed.

Lemma mknode_ordered O s v l h s' n :
  wf_store s -> live s l = true -> live s h = true -> mknode s v l h = (s', n) ->
  in_ord O v = true -> below O s v l -> below O s v h ->
  ordered O s l -> ordered O s h ->
  ordered O s' n /\ (forall y, in_order O y v = true -> below O s' y n).
Proof.
  intros Hw Hll Hlh Hmk Hv Hbl Hbh Hol Hoh.
  destruct (mknode_spec s v l h s' n Hw Hll Hlh Hmk) as (Hw' & He & Hln & _ & _).
  destruct (mknode_shape s v l h s' n (wf_sorted s Hw) Hmk) as [(Heq & -> & ->)|[Hne Hlk]].
  - split; [exact Hol|]. intros y Hy. destruct Hbl as [Hbl|Hbl]; [left; exact Hbl|].
    right. eapply in_order_trans; eauto.
  - split.
    + eapply ord_node; eauto using below_extends, ordered_extends.
    + intros y Hy. right. unfold nvar. rewrite Hlk. exact Hy.
Qed.

(* ------------------------------------------------------------------ *)
(** * Inversion of [ordered] in terms of [nvar]/[nlow]/[nhigh] *)

Lemma ordered_nonterm O s n : wf_store s -> ordered O s n -> is_terminal n = false ->
  lookup s n = Some (nvar s n, nlow s n, nhigh s n) /\ in_ord O (nvar s n) = true /\
  below O s (nvar s n) (nlow s n) /\ below O s (nvar s n) (nhigh s n) /\
  ordered O s (nlow s n) /\ ordered O s (nhigh s n) /\
  live s (nlow s n) = true /\ live s (nhigh s n) = true /\
  nlow s n < n /\ nhigh s n < n /\ nlow s n <> nhigh s n.
Proof.
  intros Hw Ho Ht. destruct Ho as [n Ht'|n v l h Hl Hv Hbl Hbh Hol Hoh]; [congruence|].
  pose proof (wf_children s Hw _ _ _ _ Hl) as (H1 & H2 & H3 & H4 & H5).
  unfold nvar, nlow, nhigh. rewrite Hl. splits; auto.
Qed.

Lemma denote_nonterm s n e : wf_store s -> lookup s n = Some (nvar s n, nlow s n, nhigh s n) ->
  denote s n e = if e (nvar s n) then denote s (nhigh s n) e else denote s (nlow s n) e.
Proof. intros Hw H. apply denote_node; auto. Qed.

Lemma below_terminal O s x n : is_terminal n = true -> below O s x n.
Proof. intros H; left; exact H. Qed.

Lemma below_nonterm O s x n : is_terminal n = false -> below O s x n ->
  in_order O x (nvar s n) = true.
Proof. intros Ht [H|H]; [congruence|exact H]. Qed.

Lemma below_trans O s x y n : in_order O x y = true -> below O s y n -> below O s x n.
Proof. intros Hxy [H|H]; [left; exact H|right; eapply in_order_trans; eauto]. Qed.

(* ------------------------------------------------------------------ *)
(** * [apply] *)

Definition sons (f : nat) (O : ordering) (op : bool -> bool -> bool) (s : store)
           (x : var) (a1 b1 a2 b2 : nat) : result (store * nat) :=
  rbind (apply f O op s a1 b1) (fun '(s1, l) =>
  rbind (apply f O op s1 a2 b2) (fun '(s2, h) => Ok (mknode s2 x l h))).

Lemma apply_S f O op s a b :
  apply (S f) O op s a b =
  if is_terminal a then
    if is_terminal b then Ok (s, term_of (op (val_of a) (val_of b)))
    else sons f O op s (nvar s b) a (nlow s b) a (nhigh s b)
  else if is_terminal b || in_order O (nvar s a) (nvar s b)
       then sons f O op s (nvar s a) (nlow s a) b (nhigh s a) b
  else if Nat.eqb (nvar s a) (nvar s b)
       then sons f O op s (nvar s a) (nlow s a) (nlow s b) (nhigh s a) (nhigh s b)
  else if in_order O (nvar s b) (nvar s a)
       then sons f O op s (nvar s b) a (nlow s b) a (nhigh s b)
  else RuntimeErr.
Proof. reflexivity. Qed.

Definition apply_post (O : ordering) (op : bool -> bool -> bool) (s : store) (a b : nat)
           (r : result (store * nat)) : Prop :=
  exists s' n, r = Ok (s', n) /\ wf_store s' /\ extends s s' /\ live s' n = true /\
    ordered O s' n /\
    (forall x, below O s x a -> below O s x b -> below O s' x n) /\
    forall env, denote s' n env = op (denote s a env) (denote s b env).

Definition apply_ok (f : nat) (O : ordering) (op : bool -> bool -> bool) : Prop :=
  forall s a b, wf_store s -> ordered O s a -> ordered O s b ->
    live s a = true -> live s b = true -> nfuel a + nfuel b <= f ->
    apply_post O op s a b (apply f O op s a b).

Lemma sons_ok f O op s x a1 b1 a2 b2 :
  apply_ok f O op -> wf_store s ->
  ordered O s a1 -> ordered O s b1 -> ordered O s a2 -> ordered O s b2 ->
  live s a1 = true -> live s b1 = true -> live s a2 = true -> live s b2 = true ->
  nfuel a1 + nfuel b1 <= f -> nfuel a2 + nfuel b2 <= f ->
  in_ord O x = true ->
  below O s x a1 -> below O s x b1 -> below O s x a2 -> below O s x b2 ->
  exists s' n, sons f O op s x a1 b1 a2 b2 = Ok (s', n) /\ wf_store s' /\ extends s s' /\
    live s' n = true /\ ordered O s' n /\
    (forall y, in_order O y x = true -> below O s' y n) /\
    forall env, denote s' n env =
      if env x then op (denote s a2 env) (denote s b2 env)
      else op (denote s a1 env) (denote s b1 env).
Proof.
  intros IH Hw Hoa1 Hob1 Hoa2 Hob2 Hla1 Hlb1 Hla2 Hlb2 Hf1 Hf2 Hx Hba1 Hbb1 Hba2 Hbb2.
  destruct (IH s a1 b1 Hw Hoa1 Hob1 Hla1 Hlb1 Hf1)
    as (s1 & l & E1 & Hw1 & He1 & Hl1 & Ho1 & Hb1 & Hd1).
  destruct (IH s1 a2 b2 Hw1 (ordered_extends _ _ _ _ Hw He1 Hoa2)
              (ordered_extends _ _ _ _ Hw He1 Hob2)
              (live_extends _ _ _ He1 Hla2) (live_extends _ _ _ He1 Hlb2) Hf2)
    as (s2 & h & E2 & Hw2 & He2 & Hl2 & Ho2 & Hb2 & Hd2).
  destruct (mknode s2 x l h) as [s' n] eqn:Emk.
  pose proof (live_extends _ _ _ He2 Hl1) as Hl1'.
  assert (Hbl : below O s2 x l).
  { eapply below_extends; eauto. }
  assert (Hbh : below O s2 x h).
  { apply Hb2; eapply below_extends; eauto. }
  destruct (mknode_spec s2 x l h s' n Hw2 Hl1' Hl2 Emk) as (Hw' & He' & Hln & _ & Hd').
  destruct (mknode_ordered O s2 x l h s' n Hw2 Hl1' Hl2 Emk Hx Hbl Hbh
              (ordered_extends _ _ _ _ Hw1 He2 Ho1) Ho2) as [Ho' Hb'].
  exists s', n. splits; auto.
  - unfold sons. rewrite E1. cbn [rbind]. rewrite E2. cbn [rbind]. rewrite Emk. reflexivity.
  - eauto using extends_trans.
  - intros env. rewrite Hd', Hd2.
    rewrite (denote_extends s1 s2 env Hw1 Hw2 He2 l Hl1), Hd1.
    rewrite (denote_extends s s1 env Hw Hw1 He1 a2 Hla2).
    rewrite (denote_extends s s1 env Hw Hw1 He1 b2 Hlb2). reflexivity.
Qed.

Lemma val_term_of c : val_of (term_of c) = c.
Proof. destruct c; reflexivity. Qed.
Lemma term_of_terminal c : is_terminal (term_of c) = true.
Proof. destruct c; reflexivity. Qed.

Lemma apply_ok_all O op : forall f, apply_ok f O op.
Proof.
  induction f as [|f IH]; intros s a b Hw Hoa Hob Hla Hlb Hf; [unfold nfuel in Hf; lia|].
  unfold nfuel in Hf. rewrite apply_S.
  destruct (is_terminal a) eqn:Eta.
  - destruct (is_terminal b) eqn:Etb.
    + exists s, (term_of (op (val_of a) (val_of b))). pose proof (term_of_terminal (op (val_of a) (val_of b))).
      splits; auto using extends_refl, live_terminal, ord_term.
      * intros x _ _. left; auto.
      * intros env. rewrite !denote_terminal by auto using wf_sorted. apply val_term_of.
    + destruct (ordered_nonterm O s b Hw Hob Etb)
        as (Hkb & Hvb & Hbl & Hbh & Hol & Hoh & Hll & Hlh & Hl & Hh & _).
      destruct (sons_ok f O op s (nvar s b) a (nlow s b) a (nhigh s b) IH Hw)
        as (s' & n & E & Hw' & He & Hln & Ho & Hb & Hd);
        auto using below_terminal; try (unfold nfuel; lia).
      exists s', n. splits; auto.
      * intros x _ Hxb. apply Hb. apply (below_nonterm O s x b Etb Hxb).
      * intros env. rewrite Hd, (denote_nonterm s b env Hw Hkb).
        destruct (env (nvar s b)); reflexivity.
  - destruct (ordered_nonterm O s a Hw Hoa Eta)
      as (Hka & Hva & Hal & Hah & Hoal & Hoah & Hlal & Hlah & Hl & Hh & _).
    destruct (is_terminal b || in_order O (nvar s a) (nvar s b)) eqn:E1.
    + assert (Hab : below O s (nvar s a) b).
      { apply orb_true_iff in E1. exact E1. }
      destruct (sons_ok f O op s (nvar s a) (nlow s a) b (nhigh s a) b IH Hw)
        as (s' & n & E & Hw' & He & Hln & Ho & Hb & Hd); auto; try (unfold nfuel; lia).
      exists s', n. splits; auto.
      * intros x Hxa _. apply Hb. apply (below_nonterm O s x a Eta Hxa).
      * intros env. rewrite Hd, (denote_nonterm s a env Hw Hka).
        destruct (env (nvar s a)); reflexivity.
    + apply orb_false_iff in E1. destruct E1 as [Etb E1].
      destruct (ordered_nonterm O s b Hw Hob Etb)
        as (Hkb & Hvb & Hbl & Hbh & Hobl & Hobh & Hlbl & Hlbh & Hl' & Hh' & _).
      destruct (Nat.eqb_spec (nvar s a) (nvar s b)) as [Eq|Hne].
      * destruct (sons_ok f O op s (nvar s a) (nlow s a) (nlow s b) (nhigh s a) (nhigh s b) IH Hw)
          as (s' & n & E & Hw' & He & Hln & Ho & Hb & Hd); auto;
          try (unfold nfuel; lia); try (rewrite Eq; assumption).
        exists s', n. splits; auto.
        -- intros x Hxa _. apply Hb. apply (below_nonterm O s x a Eta Hxa).
        -- intros env. rewrite Hd, (denote_nonterm s a env Hw Hka), (denote_nonterm s b env Hw Hkb).
           rewrite <- Eq. destruct (env (nvar s a)); reflexivity.
      * destruct (in_order O (nvar s b) (nvar s a)) eqn:E2.
        -- assert (Hba : below O s (nvar s b) a) by (right; exact E2).
           destruct (sons_ok f O op s (nvar s b) a (nlow s b) a (nhigh s b) IH Hw)
             as (s' & n & E & Hw' & He & Hln & Ho & Hb & Hd); auto; try (unfold nfuel; lia).
           exists s', n. splits; auto.
           ++ intros x _ Hxb. apply Hb. apply (below_nonterm O s x b Etb Hxb).
           ++ intros env. rewrite Hd, (denote_nonterm s b env Hw Hkb).
              destruct (env (nvar s b)); reflexivity.
        -- destruct (in_order_total O _ _ Hva Hvb) as [H|[H|H]]; congruence.
Qed.

Theorem C17_apply O op fuel s a b :
  wf_store s -> NoDup O -> ordered O s a -> ordered O s b ->
  live s a = true -> live s b = true -> nfuel a + nfuel b <= fuel ->
  exists s' n, apply fuel O op s a b = Ok (s', n) /\ wf_store s' /\ extends s s' /\
    live s' n = true /\ ordered O s' n /\
    (forall x, below O s x a -> below O s x b -> below O s' x n) /\
    forall env, denote s' n env = op (denote s a env) (denote s b env).
Proof. intros Hw _ Hoa Hob Hla Hlb Hf. apply (apply_ok_all O op fuel); auto. Qed.

(* ------------------------------------------------------------------ *)
(** * Unary operations: [neg], [cofactor] *)

Definition un_post (O : ordering) (g : (env -> bool) -> env -> bool) (s : store) (a : nat)
           (r : result (store * nat)) : Prop :=
  exists s' n, r = Ok (s', n) /\ wf_store s' /\ extends s s' /\ live s' n = true /\
    ordered O s' n /\
    (forall x, below O s x a -> below O s' x n) /\
    forall env, denote s' n env = g (denote s a) env.

Lemma un_sons_ok O g (R : store -> nat -> result (store * nat)) N s x c1 c2 :
  (forall F F' env, (forall e, F e = F' e) -> g F env = g F' env) ->
  (forall s c, wf_store s -> ordered O s c -> live s c = true -> c < N -> un_post O g s c (R s c)) ->
  wf_store s -> ordered O s c1 -> ordered O s c2 -> live s c1 = true -> live s c2 = true ->
  c1 < N -> c2 < N -> in_ord O x = true -> below O s x c1 -> below O s x c2 ->
  exists s' n,
    rbind (R s c1) (fun '(s1, l) => rbind (R s1 c2) (fun '(s2, h) => Ok (mknode s2 x l h)))
      = Ok (s', n) /\ wf_store s' /\ extends s s' /\ live s' n = true /\ ordered O s' n /\
    (forall y, in_order O y x = true -> below O s' y n) /\
    forall env, denote s' n env = if env x then g (denote s c2) env else g (denote s c1) env.
Proof.
  intros Hg IH Hw Ho1 Ho2 Hlc1 Hlc2 Hn1 Hn2 Hx Hb1 Hb2.
  destruct (IH s c1 Hw Ho1 Hlc1 Hn1) as (s1 & l & E1 & Hw1 & He1 & Hl1 & Hol & Hbl1 & Hd1).
  destruct (IH s1 c2 Hw1 (ordered_extends _ _ _ _ Hw He1 Ho2) (live_extends _ _ _ He1 Hlc2) Hn2)
    as (s2 & h & E2 & Hw2 & He2 & Hl2 & Hoh & Hbh2 & Hd2).
  destruct (mknode s2 x l h) as [s' n] eqn:Emk.
  pose proof (live_extends _ _ _ He2 Hl1) as Hl1'.
  assert (Hbl : below O s2 x l) by (eapply below_extends; eauto).
  assert (Hbh : below O s2 x h) by (apply Hbh2; eapply below_extends; eauto).
  destruct (mknode_spec s2 x l h s' n Hw2 Hl1' Hl2 Emk) as (Hw' & He' & Hln & _ & Hd').
  destruct (mknode_ordered O s2 x l h s' n Hw2 Hl1' Hl2 Emk Hx Hbl Hbh
              (ordered_extends _ _ _ _ Hw1 He2 Hol) Hoh) as [Ho' Hb'].
  exists s', n. splits; auto.
  - rewrite E1. cbn [rbind]. rewrite E2. cbn [rbind]. rewrite Emk. reflexivity.
  - eauto using extends_trans.
  - intros env. rewrite Hd', Hd2.
    rewrite (denote_extends s1 s2 env Hw1 Hw2 He2 l Hl1), Hd1.
    rewrite (Hg (denote s1 c2) (denote s c2) env); [reflexivity|].
    intros e. apply denote_extends; auto.
Qed.

Definition g_neg (F : env -> bool) (e : env) : bool := negb (F e).
Definition g_cof (v : var) (b : bool) (F : env -> bool) (e : env) : bool := F (env_upd e v b).

Lemma neg_S f s n : neg (S f) s n =
  if is_terminal n then Ok (s, term_of (negb (val_of n)))
  else rbind (neg f s (nlow s n)) (fun '(s1, l) =>
       rbind (neg f s1 (nhigh s n)) (fun '(s2, h) => Ok (mknode s2 (nvar s n) l h))).
Proof. reflexivity. Qed.

Lemma neg_ok O : forall f s a, wf_store s -> ordered O s a -> live s a = true -> a < f ->
  un_post O g_neg s a (neg f s a).
Proof.
  induction f as [|f IH]; intros s a Hw Ho Hl Hf; [lia|].
  rewrite neg_S. destruct (is_terminal a) eqn:Et.
  - exists s, (term_of (negb (val_of a))). pose proof (term_of_terminal (negb (val_of a))).
    splits; auto using extends_refl, live_terminal, ord_term.
    + intros x _. left; auto.
    + intros env. unfold g_neg. rewrite !denote_terminal by auto using wf_sorted. apply val_term_of.
  - destruct (ordered_nonterm O s a Hw Ho Et)
      as (Hka & Hva & Hal & Hah & Hoal & Hoah & Hlal & Hlah & Hl1 & Hl2 & _).
    destruct (un_sons_ok O g_neg (neg f) f s (nvar s a) (nlow s a) (nhigh s a))
      as (s' & n & E & Hw' & He & Hln & Ho' & Hb & Hd); auto; try lia.
    { intros F F' env HF. unfold g_neg. rewrite HF. reflexivity. }
    exists s', n. splits; auto.
    + intros x Hxa. apply Hb. apply (below_nonterm O s x a Et Hxa).
    + intros env. rewrite Hd. unfold g_neg. rewrite (denote_nonterm s a env Hw Hka).
      destruct (env (nvar s a)); reflexivity.
Qed.

Theorem C17_neg O fuel s a :
  wf_store s -> ordered O s a -> live s a = true -> nfuel a <= fuel ->
  exists s' n, neg fuel s a = Ok (s', n) /\ wf_store s' /\ extends s s' /\
    live s' n = true /\ ordered O s' n /\
    (forall x, below O s x a -> below O s' x n) /\
    forall env, denote s' n env = negb (denote s a env).
Proof. intros Hw Ho Hl Hf. apply (neg_ok O fuel s a); auto. Qed.

Lemma cofactor_S f s n v b : cofactor (S f) s n v b =
  if is_terminal n then Ok (s, n)
  else if Nat.eqb (nvar s n) v then cofactor f s (if b then nhigh s n else nlow s n) v b
  else rbind (cofactor f s (nlow s n) v b) (fun '(s1, l) =>
       rbind (cofactor f s1 (nhigh s n) v b) (fun '(s2, h) => Ok (mknode s2 (nvar s n) l h))).
Proof. reflexivity. Qed.

Lemma env_upd_same e v b : env_upd e v b v = b.
Proof. unfold env_upd. rewrite Nat.eqb_refl. reflexivity. Qed.
Lemma env_upd_other e v b x : x <> v -> env_upd e v b x = e x.
Proof. unfold env_upd. intros H. destruct (Nat.eqb_spec x v); [contradiction|reflexivity]. Qed.

Lemma cofactor_ok O v b : forall f s a, wf_store s -> ordered O s a -> live s a = true -> a < f ->
  un_post O (g_cof v b) s a (cofactor f s a v b).
Proof.
  induction f as [|f IH]; intros s a Hw Ho Hl Hf; [lia|].
  rewrite cofactor_S. destruct (is_terminal a) eqn:Et.
  - exists s, a. splits; auto using extends_refl.
    intros env. unfold g_cof. rewrite !denote_terminal by auto using wf_sorted. reflexivity.
  - destruct (ordered_nonterm O s a Hw Ho Et)
      as (Hka & Hva & Hal & Hah & Hoal & Hoah & Hlal & Hlah & Hl1 & Hl2 & _).
    destruct (Nat.eqb_spec (nvar s a) v) as [Eq|Hne].
    + assert (Hc : exists c, c = (if b then nhigh s a else nlow s a) /\ ordered O s c /\
                live s c = true /\ c < f /\ below O s (nvar s a) c /\
                forall env, denote s a (env_upd env v b) = denote s c (env_upd env v b)).
      { exists (if b then nhigh s a else nlow s a).
        splits; auto; try (destruct b; auto; lia).
        intros env. rewrite (denote_nonterm s a _ Hw Hka). rewrite Eq, env_upd_same.
        destruct b; reflexivity. }
      destruct Hc as (c & <- & Hoc & Hlc & Hcf & Hbc & Hdc).
      destruct (IH s c Hw Hoc Hlc Hcf) as (s' & n & E & Hw' & He & Hln & Ho' & Hb & Hd).
      exists s', n. splits; auto.
      * intros x Hxa. apply Hb. eapply below_trans; [|exact Hbc].
        apply (below_nonterm O s x a Et Hxa).
      * intros env. rewrite Hd. unfold g_cof. symmetry. apply Hdc.
    + destruct (un_sons_ok O (g_cof v b) (fun s n => cofactor f s n v b) f s
                  (nvar s a) (nlow s a) (nhigh s a))
        as (s' & n & E & Hw' & He & Hln & Ho' & Hb & Hd); auto; try lia.
      { intros F F' env HF. unfold g_cof. apply HF. }
      exists s', n. splits; auto.
      * intros x Hxa. apply Hb. apply (below_nonterm O s x a Et Hxa).
      * intros env. rewrite Hd. unfold g_cof. rewrite (denote_nonterm s a _ Hw Hka).
        rewrite env_upd_other by exact Hne.
        destruct (env (nvar s a)); reflexivity.
Qed.

Theorem C17_cofactor O fuel s a v b :
  wf_store s -> ordered O s a -> live s a = true -> nfuel a <= fuel ->
  exists s' n, cofactor fuel s a v b = Ok (s', n) /\ wf_store s' /\ extends s s' /\
    live s' n = true /\ ordered O s' n /\
    (forall x, below O s x a -> below O s' x n) /\
    forall env, denote s' n env = denote s a (env_upd env v b).
Proof. intros Hw Ho Hl Hf. apply (cofactor_ok O v b fuel s a); auto. Qed.

(* ------------------------------------------------------------------ *)
(** * Canonicity *)

Lemma lookup_nonterminal s n t : sorted_ids s -> lookup s n = Some t -> is_terminal n = false.
Proof. intros Hs H. apply is_terminal_false. apply (lookup_bounds s Hs) in H. lia. Qed.

Lemma ordered_inv O s n v l h : wf_store s -> ordered O s n -> lookup s n = Some (v, l, h) ->
  in_ord O v = true /\ below O s v l /\ below O s v h /\ ordered O s l /\ ordered O s h.
Proof.
  intros Hw Ho Hl. destruct Ho as [n Ht|n v' l' h' Hl' Hv Hbl Hbh Hol Hoh].
  - rewrite (lookup_terminal s n (wf_sorted s Hw) Ht) in Hl. discriminate.
  - rewrite Hl in Hl'. injection Hl' as <- <- <-. auto.
Qed.

(* the function of an ordered diagram does not depend on variables preceding its root *)
Lemma ordered_indep O s n x : wf_store s -> ordered O s n -> below O s x n ->
  forall env b, denote s n (env_upd env x b) = denote s n env.
Proof.
  intros Hw Ho. induction Ho as [n Ht|n v l h Hl Hv Hbl Hbh Hol IHl Hoh IHh]; intros Hb env b.
  - rewrite !denote_terminal by auto using wf_sorted. reflexivity.
  - pose proof (lookup_nonterminal s n _ (wf_sorted s Hw) Hl) as Ht.
    apply (below_nonterm O s x n Ht) in Hb. unfold nvar in Hb. rewrite Hl in Hb.
    rewrite !(denote_node s n v l h _ Hw Hl).
    rewrite env_upd_other by (intros ->; eapply in_order_ne; eauto).
    rewrite IHl by (eapply below_trans; eauto). rewrite IHh by (eapply below_trans; eauto).
    reflexivity.
Qed.

Lemma node_cofactors O s n x l h env : wf_store s -> ordered O s n -> lookup s n = Some (x, l, h) ->
  denote s n (env_upd env x false) = denote s l env /\
  denote s n (env_upd env x true) = denote s h env.
Proof.
  intros Hw Ho Hl. destruct (ordered_inv O s n x l h Hw Ho Hl) as (_ & Hbl & Hbh & Hol & Hoh).
  rewrite !(denote_node s n x l h _ Hw Hl), !env_upd_same. split.
  - apply (ordered_indep O s l x Hw Hol Hbl).
  - apply (ordered_indep O s h x Hw Hoh Hbh).
Qed.

Lemma dep_vs_indep O s u x l h w : wf_store s -> ordered O s u -> lookup s u = Some (x, l, h) ->
  (exists env, denote s l env <> denote s h env) ->
  (forall env b, denote s w (env_upd env x b) = denote s w env) ->
  exists env, denote s u env <> denote s w env.
Proof.
  intros Hw Ho Hl [env Hd] Hi.
  destruct (node_cofactors O s u x l h env Hw Ho Hl) as [Hf Ht].
  destruct (bool_dec (denote s l env) (denote s w env)) as [E|E].
  - exists (env_upd env x true). rewrite Ht, Hi. congruence.
  - exists (env_upd env x false). rewrite Hf, Hi. exact E.
Qed.

Lemma distinguish_aux O s : wf_store s -> forall N u v, u < N -> v < N ->
  ordered O s u -> ordered O s v -> live s u = true -> live s v = true -> u <> v ->
  exists env, denote s u env <> denote s v env.
Proof.
  intros Hw. pose proof (wf_sorted s Hw) as Hs.
  induction N as [|N IH]; intros u v Hu Hv Hou Hov Hlu Hlv Hne; [lia|].
  assert (Hsym : forall a b, (exists env, denote s a env <> denote s b env) ->
                        exists env, denote s b env <> denote s a env).
  { intros a b [env H]. exists env. congruence. }
  assert (Hnode : forall n x l h, n < S N -> ordered O s n -> lookup s n = Some (x, l, h) ->
            exists env, denote s l env <> denote s h env).
  { intros n x l h Hn Ho Hl.
    destruct (ordered_inv O s n x l h Hw Ho Hl) as (_ & _ & _ & Hol & Hoh).
    pose proof (wf_children s Hw _ _ _ _ Hl) as (H1 & H2 & H3 & H4 & H5).
    apply IH; auto; lia. }
  destruct (live_cases s u Hlu) as [Htu|[Htu (x & l1 & h1 & Hku)]];
  destruct (live_cases s v Hlv) as [Htv|[Htv (y & l2 & h2 & Hkv)]].
  - exists (fun _ => false). rewrite !denote_terminal by auto.
    apply is_terminal_true in Htu, Htv. unfold val_of.
    destruct (Nat.eqb_spec u 1), (Nat.eqb_spec v 1); try discriminate; lia.
  - apply Hsym. eapply dep_vs_indep; eauto.
    intros env b. rewrite !denote_terminal by auto. reflexivity.
  - eapply dep_vs_indep; eauto.
    intros env b. rewrite !denote_terminal by auto. reflexivity.
  - destruct (ordered_inv O s u x l1 h1 Hw Hou Hku) as (Hx & _ & _ & Hol1 & Hoh1).
    destruct (ordered_inv O s v y l2 h2 Hw Hov Hkv) as (Hy & _ & _ & Hol2 & Hoh2).
    pose proof (wf_children s Hw _ _ _ _ Hku) as (_ & Hll1 & Hlh1 & Hl1 & Hh1).
    pose proof (wf_children s Hw _ _ _ _ Hkv) as (_ & Hll2 & Hlh2 & Hl2 & Hh2).
    destruct (in_order_total O x y Hx Hy) as [<-|[Hxy|Hyx]].
    + destruct (Nat.eq_dec l1 l2) as [<-|Hl].
      * destruct (Nat.eq_dec h1 h2) as [<-|Hh].
        -- exfalso. apply Hne. eapply triple_unique; eauto using wf_nodup.
        -- destruct (IH h1 h2) as [env Hd]; auto; try lia.
           exists (env_upd env x true).
           destruct (node_cofactors O s u x l1 h1 env Hw Hou Hku) as [_ ->].
           destruct (node_cofactors O s v x l1 h2 env Hw Hov Hkv) as [_ ->]. exact Hd.
      * destruct (IH l1 l2) as [env Hd]; auto; try lia.
        exists (env_upd env x false).
        destruct (node_cofactors O s u x l1 h1 env Hw Hou Hku) as [-> _].
        destruct (node_cofactors O s v x l2 h2 env Hw Hov Hkv) as [-> _]. exact Hd.
    + eapply dep_vs_indep; eauto.
      apply (ordered_indep O s v x Hw Hov). right. unfold nvar. rewrite Hkv. exact Hxy.
    + apply Hsym. eapply dep_vs_indep; eauto.
      apply (ordered_indep O s u y Hw Hou). right. unfold nvar. rewrite Hku. exact Hyx.
Qed.

(* constructive form of canonicity: distinct nodes are told apart by some environment *)
Theorem distinguish O s u v : wf_store s -> ordered O s u -> ordered O s v ->
  live s u = true -> live s v = true -> u <> v ->
  exists env, denote s u env <> denote s v env.
Proof.
  intros Hw Hou Hov Hlu Hlv Hne.
  apply (distinguish_aux O s Hw (S (max u v)) u v); auto; lia.
Qed.

Theorem C16_canonical O s u v :
  wf_store s -> NoDup O -> ordered O s u -> ordered O s v ->
  live s u = true -> live s v = true ->
  (forall env, denote s u env = denote s v env) -> u = v.
Proof.
  intros Hw _ Hou Hov Hlu Hlv Heq.
  destruct (Nat.eq_dec u v) as [E|E]; [exact E|].
  destruct (distinguish O s u v Hw Hou Hov Hlu Hlv E) as [env H]. elim H. apply Heq.
Qed.

(* a non-terminal node of an ordered diagram depends on its root variable *)
Lemma root_dependency O s n : wf_store s -> ordered O s n -> is_terminal n = false ->
  live s n = true ->
  exists env, denote s n (env_upd env (nvar s n) false) <> denote s n (env_upd env (nvar s n) true).
Proof.
  intros Hw Ho Ht Hl.
  destruct (ordered_nonterm O s n Hw Ho Ht) as (Hk & _ & _ & _ & Hol & Hoh & Hll & Hlh & _ & _ & Hne).
  destruct (distinguish O s _ _ Hw Hol Hoh Hll Hlh Hne) as [env Hd]. exists env.
  destruct (node_cofactors O s n _ _ _ env Hw Ho Hk) as [-> ->]. exact Hd.
Qed.

(* ------------------------------------------------------------------ *)
(** * Reachability, [descendents] *)

Inductive reach (s : store) : nat -> nat -> Prop :=
| reach_refl n : reach s n n
| reach_low n v l h m : lookup s n = Some (v, l, h) -> reach s l m -> reach s n m
| reach_high n v l h m : lookup s n = Some (v, l, h) -> reach s h m -> reach s n m.

Lemma reach_trans s a b c : reach s a b -> reach s b c -> reach s a c.
Proof.
  intros H1 H2. induction H1 as [n|n v l h m Hl Hr IH|n v l h m Hl Hr IH]; auto.
  - eapply reach_low; eauto.
  - eapply reach_high; eauto.
Qed.

Lemma reach_inv s n m : reach s n m ->
  m = n \/ exists v l h, lookup s n = Some (v, l, h) /\ (reach s l m \/ reach s h m).
Proof. intros H. destruct H; [left; reflexivity| |]; right; eauto 8. Qed.

Lemma reach_terminal s n m : sorted_ids s -> is_terminal n = true -> reach s n m -> m = n.
Proof.
  intros Hs Ht H. apply reach_inv in H. destruct H as [H|(v & l & h & Hl & _)]; auto.
  rewrite (lookup_terminal s n Hs Ht) in Hl. discriminate.
Qed.

Lemma reach_le s n m : wf_store s -> reach s n m -> m <= n.
Proof.
  intros Hw H. induction H as [n|n v l h m Hl Hr IH|n v l h m Hl Hr IH]; auto;
    pose proof (wf_children s Hw _ _ _ _ Hl) as (_ & _ & _ & H1 & H2); lia.
Qed.

Lemma reach_live s n m : wf_store s -> live s n = true -> reach s n m -> live s m = true.
Proof.
  intros Hw Hn H. induction H as [n|n v l h m Hl Hr IH|n v l h m Hl Hr IH]; auto;
    pose proof (wf_children s Hw _ _ _ _ Hl) as (_ & H1 & H2 & _ & _); auto.
Qed.

Lemma memb_In x l : memb x l = true <-> In x l.
Proof.
  unfold memb. rewrite existsb_exists. split.
  - intros (y & Hy & E). apply Nat.eqb_eq in E. subst; exact Hy.
  - intros H. exists x. split; auto. apply Nat.eqb_refl.
Qed.

Lemma In_dedup x l : In x (dedup l) <-> In x l.
Proof.
  induction l as [|y r IH]; cbn; [tauto|].
  destruct (memb y r) eqn:E.
  - rewrite IH. split; auto. intros [->|H]; auto. apply memb_In; exact E.
  - cbn. rewrite IH. tauto.
Qed.

Lemma desc_reach s m : wf_store s -> forall f n, n <= f -> live s n = true ->
  (In m (desc f s n) <-> reach s n m).
Proof.
  intros Hw. pose proof (wf_sorted s Hw) as Hs.
  assert (Hterm : forall n, is_terminal n = true -> (In m [n] <-> reach s n m)).
  { intros n Ht. cbn. split.
    - intros [<-|[]]. apply reach_refl.
    - intros H. left. symmetry. eapply reach_terminal; eauto. }
  induction f as [|f IH]; intros n Hn Hl.
  - cbn [desc]. apply Hterm. apply is_terminal_true. lia.
  - cbn [desc]. destruct (live_cases s n Hl) as [Ht|[Ht (v & l & h & Hk)]]; rewrite Ht.
    + apply Hterm; exact Ht.
    + pose proof (wf_children s Hw _ _ _ _ Hk) as (_ & Hll & Hlh & Hl1 & Hl2).
      unfold nlow, nhigh. rewrite Hk. cbn [In]. rewrite in_app_iff.
      rewrite (IH l) by (auto; lia). rewrite (IH h) by (auto; lia). split.
      * intros [<-|[H|H]]; [apply reach_refl|eapply reach_low; eauto|eapply reach_high; eauto].
      * intros H. apply reach_inv in H. destruct H as [->|(v' & l' & h' & Hk' & H)]; auto.
        rewrite Hk in Hk'. injection Hk' as <- <- <-. tauto.
Qed.

Lemma descendents_reach s n m : wf_store s -> live s n = true ->
  (In m (descendents s n) <-> reach s n m).
Proof.
  intros Hw Hl. unfold descendents. rewrite In_dedup. apply desc_reach; auto.
Qed.

(* two stores that agree below [n] give [n] the same meaning *)
Lemma denote_agree s s' e : wf_store s -> wf_store s' -> forall n,
  (forall m, reach s n m -> lookup s' m = lookup s m) -> denote s' n e = denote s n e.
Proof.
  intros Hw Hw' n. induction n as [n IH] using lt_wf_ind. intros Hag.
  pose proof (Hag n (reach_refl s n)) as Hn.
  destruct (lookup s n) as [[[v l] h]|] eqn:Hk.
  - rewrite (denote_node s' n v l h e Hw' Hn), (denote_node s n v l h e Hw Hk).
    pose proof (wf_children s Hw _ _ _ _ Hk) as (_ & _ & _ & Hl1 & Hl2).
    rewrite (IH l Hl1), (IH h Hl2); auto.
    + intros m Hm. apply Hag. eapply reach_high; eauto.
    + intros m Hm. apply Hag. eapply reach_low; eauto.
  - destruct (is_terminal n) eqn:Ht.
    + rewrite !denote_terminal by auto using wf_sorted. reflexivity.
    + rewrite !denote_dead; auto using wf_sorted; unfold live; rewrite Ht; [rewrite Hk|rewrite Hn]; reflexivity.
Qed.

Lemma ordered_agree O s s' n : wf_store s -> ordered O s n ->
  (forall m, reach s n m -> lookup s' m = lookup s m) -> ordered O s' n.
Proof.
  intros Hw Ho. induction Ho as [n Ht|n v l h Hl Hv Hbl Hbh Hol IHl Hoh IHh]; intros Hag.
  - apply ord_term; exact Ht.
  - assert (Hrl : reach s n l) by (eapply reach_low; eauto using reach_refl).
    assert (Hrh : reach s n h) by (eapply reach_high; eauto using reach_refl).
    apply (ord_node O s' n v l h).
    + rewrite (Hag n (reach_refl s n)). exact Hl.
    + exact Hv.
    + destruct Hbl as [H|H]; [left; exact H|right]. unfold nvar in *. rewrite (Hag l Hrl). exact H.
    + destruct Hbh as [H|H]; [left; exact H|right]. unfold nvar in *. rewrite (Hag h Hrh). exact H.
    + apply IHl. intros m Hm. apply Hag. apply (reach_trans s n l m); auto.
    + apply IHh. intros m Hm. apply Hag. apply (reach_trans s n h m); auto.
Qed.

(* ------------------------------------------------------------------ *)
(** * Garbage collection *)

Lemma lookup_filter (g : nat -> bool) s n :
  lookup (filter (fun p => g (fst p)) s) n = if g n then lookup s n else None.
Proof.
  induction s as [|[m t] r IH]; cbn; [destruct (g n); reflexivity|].
  destruct (g m) eqn:Em; cbn; destruct (Nat.eqb_spec m n) as [->|Hne]; auto.
  - rewrite Em. reflexivity.
  - rewrite IH, Em. reflexivity.
Qed.

Lemma fresh_filter_le (P : nat * triple -> bool) s : sorted_ids s -> fresh (filter P s) <= fresh s.
Proof.
  induction s as [|[m t] r IH]; cbn; intros Hs; [lia|].
  destruct Hs as [Hm Hr]. destruct (P (m, t)); cbn; [lia|]. specialize (IH Hr). lia.
Qed.

Lemma sorted_filter (P : nat * triple -> bool) s : sorted_ids s -> sorted_ids (filter P s).
Proof.
  induction s as [|[m t] r IH]; cbn; intros Hs; [exact I|].
  destruct Hs as [Hm Hr]. destruct (P (m, t)); cbn; auto.
  split; auto. pose proof (fresh_filter_le P r Hr). lia.
Qed.

Lemma existsb_filter_false {A} (f P : A -> bool) l :
  existsb f l = false -> existsb f (filter P l) = false.
Proof.
  induction l as [|x r IH]; cbn; intros H; [reflexivity|].
  apply orb_false_iff in H. destruct H as [H1 H2].
  destruct (P x); cbn; rewrite ?H1; auto.
Qed.

Lemma nodup_filter (P : nat * triple -> bool) s :
  no_dup_triples s = true -> no_dup_triples (filter P s) = true.
Proof.
  induction s as [|[m t] r IH]; cbn [no_dup_triples filter]; intros H; [reflexivity|].
  apply andb_true_iff in H. destruct H as [H1 H2]. apply negb_true_iff in H1.
  destruct (P (m, t)); cbn [no_dup_triples]; auto.
  rewrite (existsb_filter_false _ P r H1). cbn. auto.
Qed.

Definition reachable_from (s : store) (roots : list nat) (n : nat) : Prop :=
  exists r, In r roots /\ reach s r n.

Lemma keep_reachable s roots n : wf_store s -> (forall r, In r roots -> live s r = true) ->
  (memb n (flat_map (descendents s) roots) = true <-> reachable_from s roots n).
Proof.
  intros Hw Hr. rewrite memb_In, in_flat_map. unfold reachable_from.
  split; intros (r & Hin & H); exists r; split; auto; apply (descendents_reach s r n Hw (Hr r Hin)); exact H.
Qed.

Lemma lookup_collect s roots n : wf_store s -> (forall r, In r roots -> live s r = true) ->
  reachable_from s roots n -> lookup (collect s roots) n = lookup s n.
Proof.
  intros Hw Hr Hn. unfold collect.
  rewrite (lookup_filter (fun k => memb k (flat_map (descendents s) roots))).
  apply (keep_reachable s roots n Hw Hr) in Hn. rewrite Hn. reflexivity.
Qed.

Lemma lookup_collect_inv s roots n t : wf_store s -> (forall r, In r roots -> live s r = true) ->
  lookup (collect s roots) n = Some t -> lookup s n = Some t /\ reachable_from s roots n.
Proof.
  intros Hw Hr. unfold collect.
  rewrite (lookup_filter (fun k => memb k (flat_map (descendents s) roots))).
  destruct (memb n (flat_map (descendents s) roots)) eqn:E; [|discriminate].
  intros H. split; auto. apply (keep_reachable s roots n Hw Hr); exact E.
Qed.

Lemma wf_collect s roots : wf_store s -> (forall r, In r roots -> live s r = true) ->
  wf_store (collect s roots).
Proof.
  intros Hw Hr. split; [|split].
  - apply sorted_filter. apply wf_sorted; exact Hw.
  - intros n v l h H. destruct (lookup_collect_inv s roots n _ Hw Hr H) as [Hk (r & Hin & Hrn)].
    pose proof (wf_children s Hw _ _ _ _ Hk) as (H1 & H2 & H3 & H4 & H5).
    assert (Hch : forall c, live s c = true -> reach s n c -> live (collect s roots) c = true).
    { intros c Hc Hnc. unfold live in *. rewrite lookup_collect; auto.
      exists r. split; auto. eapply reach_trans; eauto. }
    splits; auto.
    + apply Hch; auto. eapply reach_low; eauto using reach_refl.
    + apply Hch; auto. eapply reach_high; eauto using reach_refl.
  - apply nodup_filter. apply wf_nodup; exact Hw.
Qed.

Theorem collect_spec s roots :
  wf_store s -> (forall r, In r roots -> live s r = true) ->
  wf_store (collect s roots) /\
  (forall n t, lookup (collect s roots) n = Some t ->
               lookup s n = Some t /\ reachable_from s roots n) /\
  (forall n, reachable_from s roots n ->
     live (collect s roots) n = true /\
     lookup (collect s roots) n = lookup s n /\
     (forall env, denote (collect s roots) n env = denote s n env) /\
     (forall O, ordered O s n -> ordered O (collect s roots) n)).
Proof.
  intros Hw Hr. pose proof (wf_collect s roots Hw Hr) as Hw'.
  split; [exact Hw'|]. split; [intros n t; apply lookup_collect_inv; auto|].
  intros n (r & Hin & Hrn).
  assert (Hag : forall m, reach s n m -> lookup (collect s roots) m = lookup s m).
  { intros m Hm. apply lookup_collect; auto. exists r. split; auto. eapply reach_trans; eauto. }
  splits.
  - pose proof (reach_live s r n Hw (Hr r Hin) Hrn) as Hl. unfold live in *.
    rewrite (Hag n (reach_refl s n)). exact Hl.
  - apply Hag. apply reach_refl.
  - intros env. apply denote_agree; auto.
  - intros O Ho. apply (ordered_agree O s); auto.
Qed.

(* ------------------------------------------------------------------ *)
(** * [respects_ord] decides [ordered] *)

Lemma respects_ord_S f O s n : respects_ord (S f) O s n =
  if is_terminal n then Ok true
  else if negb (in_ord O (nvar s n)) then RuntimeErr
  else if negb ((is_terminal (nlow s n) || in_order O (nvar s n) (nvar s (nlow s n))) &&
                (is_terminal (nhigh s n) || in_order O (nvar s n) (nvar s (nhigh s n))))
       then Ok false
  else rbind (respects_ord f O s (nhigh s n)) (fun bh =>
       if bh then respects_ord f O s (nlow s n) else Ok false).
Proof. reflexivity. Qed.

Lemma below_orb O s x n : below O s x n <-> is_terminal n || in_order O x (nvar s n) = true.
Proof. unfold below. rewrite orb_true_iff. tauto. Qed.

Lemma ordered_respects O s n : wf_store s -> ordered O s n ->
  forall f, n < f -> respects_ord f O s n = Ok true.
Proof.
  intros Hw Ho. induction Ho as [n Ht|n v l h Hl Hv Hbl Hbh Hol IHl Hoh IHh]; intros f Hf.
  - destruct f as [|f]; [lia|]. rewrite respects_ord_S, Ht. reflexivity.
  - destruct f as [|f]; [lia|]. rewrite respects_ord_S.
    rewrite (lookup_nonterminal s n _ (wf_sorted s Hw) Hl).
    pose proof (wf_children s Hw _ _ _ _ Hl) as (_ & _ & _ & H1 & H2).
    unfold nvar at 1 2 4, nlow, nhigh. rewrite Hl, Hv. cbn [negb].
    apply below_orb in Hbl, Hbh. rewrite Hbl, Hbh. cbn [negb andb].
    rewrite IHh by lia. cbn [rbind]. apply IHl. lia.
Qed.

Lemma respects_ordered O s : wf_store s -> forall f n, live s n = true ->
  respects_ord f O s n = Ok true -> ordered O s n.
Proof.
  intros Hw. induction f as [|f IH]; intros n Hl H; [discriminate|].
  rewrite respects_ord_S in H.
  destruct (live_cases s n Hl) as [Ht|[Ht (v & l & h & Hk)]]; [apply ord_term; exact Ht|].
  rewrite Ht in H. unfold nvar at 1 2 4, nlow, nhigh in H. rewrite Hk in H.
  pose proof (wf_children s Hw _ _ _ _ Hk) as (_ & Hll & Hlh & _ & _).
  destruct (in_ord O v) eqn:Hv; [|discriminate]. cbn [negb] in H.
  destruct (is_terminal l || in_order O v (nvar s l)) eqn:Hbl; [|discriminate].
  destruct (is_terminal h || in_order O v (nvar s h)) eqn:Hbh; [|discriminate].
  cbn [negb andb] in H.
  destruct (respects_ord f O s h) as [[|]| | | | | |] eqn:Eh; try discriminate.
  cbn [rbind] in H.
  apply (ord_node O s n v l h); auto; apply below_orb; auto.
Qed.

Theorem respects_ord_spec O s n : wf_store s -> live s n = true ->
  (respects_ord (nfuel n) O s n = Ok true <-> ordered O s n).
Proof.
  intros Hw Hl. split.
  - apply respects_ordered; auto.
  - intros Ho. apply ordered_respects; auto.
Qed.

Corollary obdd_of_node_ordered O s n : wf_store s -> ordered O s n ->
  obdd_of_node s n O = Ok (n, O).
Proof.
  intros Hw Ho. unfold obdd_of_node.
  rewrite (ordered_respects O s n Hw Ho) by (unfold nfuel; lia). reflexivity.
Qed.

(* ------------------------------------------------------------------ *)
(** * [apply] on incomparable root variables *)

Theorem C17_apply_err f O op s a b :
  is_terminal a = false -> is_terminal b = false -> nvar s a <> nvar s b ->
  in_order O (nvar s a) (nvar s b) = false -> in_order O (nvar s b) (nvar s a) = false ->
  apply (S f) O op s a b = RuntimeErr.
Proof.
  intros Ha Hb Hne H1 H2. rewrite apply_S, Ha, Hb, H1, H2. cbn [orb].
  destruct (Nat.eqb_spec (nvar s a) (nvar s b)); [contradiction|reflexivity].
Qed.

(* ------------------------------------------------------------------ *)
(** * [variables] is the support of the function *)

Lemma variables_reach s a v : wf_store s -> live s a = true ->
  (In v (variables s a) <->
   exists m, reach s a m /\ is_terminal m = false /\ nvar s m = v).
Proof.
  intros Hw Hl. unfold variables. rewrite In_dedup, in_map_iff. split.
  - intros (m & Hv & Hm). apply filter_In in Hm. destruct Hm as [Hm Ht].
    exists m. splits; auto.
    + apply (descendents_reach s a m Hw Hl); exact Hm.
    + apply negb_true_iff; exact Ht.
  - intros (m & Hr & Ht & Hv). exists m. split; auto. apply filter_In. split.
    + apply (descendents_reach s a m Hw Hl); exact Hr.
    + apply negb_true_iff; exact Ht.
Qed.

Lemma support_reach s v env : wf_store s -> forall a, live s a = true ->
  denote s a env <> denote s a (env_upd env v (negb (env v))) ->
  exists m, reach s a m /\ is_terminal m = false /\ nvar s m = v.
Proof.
  intros Hw a. induction a as [a IH] using lt_wf_ind. intros Hl Hd.
  destruct (live_cases s a Hl) as [Ht|[Ht (x & l & h & Hk)]].
  - rewrite !denote_terminal in Hd by auto using wf_sorted. congruence.
  - destruct (Nat.eq_dec x v) as [->|Hxv].
    + exists a. splits; auto using reach_refl. unfold nvar. rewrite Hk. reflexivity.
    + pose proof (wf_children s Hw _ _ _ _ Hk) as (_ & Hll & Hlh & Hl1 & Hl2).
      rewrite !(denote_node s a x l h _ Hw Hk) in Hd. rewrite env_upd_other in Hd by exact Hxv.
      destruct (env x).
      * destruct (IH h Hl2 Hlh Hd) as (m & Hr & Hm). exists m. split; auto.
        eapply reach_high; eauto.
      * destruct (IH l Hl1 Hll Hd) as (m & Hr & Hm). exists m. split; auto.
        eapply reach_low; eauto.
Qed.

Lemma reach_below O s x n m : wf_store s -> ordered O s n -> reach s n m ->
  below O s x n -> below O s x m.
Proof.
  intros Hw Ho Hr. revert Ho.
  induction Hr as [n|n v l h m Hl Hr IH|n v l h m Hl Hr IH]; intros Ho Hb; auto.
  - destruct (ordered_inv O s n v l h Hw Ho Hl) as (_ & Hbl & _ & Hol & _).
    apply IH; auto. eapply below_trans; eauto.
    apply (below_nonterm O s x n (lookup_nonterminal s n _ (wf_sorted s Hw) Hl)) in Hb.
    unfold nvar in Hb. rewrite Hl in Hb. exact Hb.
  - destruct (ordered_inv O s n v l h Hw Ho Hl) as (_ & _ & Hbh & _ & Hoh).
    apply IH; auto. eapply below_trans; eauto.
    apply (below_nonterm O s x n (lookup_nonterminal s n _ (wf_sorted s Hw) Hl)) in Hb.
    unfold nvar in Hb. rewrite Hl in Hb. exact Hb.
Qed.

Lemma upd_flip_comm env x b v y : x <> v ->
  env_upd (env_upd env x b) v (negb (env_upd env x b v)) y =
  env_upd (env_upd env v (negb (env v))) x b y.
Proof.
  intros Hne. unfold env_upd.
  destruct (Nat.eqb_spec y v), (Nat.eqb_spec y x), (Nat.eqb_spec v x); subst; try congruence; reflexivity.
Qed.

Lemma reach_support O s a m : wf_store s -> ordered O s a -> live s a = true ->
  reach s a m -> is_terminal m = false ->
  exists env, denote s a env <> denote s a (env_upd env (nvar s m) (negb (env (nvar s m)))).
Proof.
  intros Hw Ho Hl Hr Hm. revert Ho Hl.
  induction Hr as [n|n x l h m Hk Hr IH|n x l h m Hk Hr IH]; intros Ho Hl.
  - destruct (root_dependency O s n Hw Ho Hm Hl) as [env Hd].
    exists (env_upd env (nvar s n) false). rewrite env_upd_same. cbn [negb].
    intros E. apply Hd. rewrite E. apply denote_ext. intros y. unfold env_upd.
    destruct (Nat.eqb y (nvar s n)); reflexivity.
  - destruct (ordered_inv O s n x l h Hw Ho Hk) as (_ & Hbl & _ & Hol & _).
    pose proof (wf_children s Hw _ _ _ _ Hk) as (_ & Hll & _ & _ & _).
    destruct (IH Hm Hol Hll) as [env Hd].
    pose proof (reach_below O s x l m Hw Hol Hr Hbl) as Hxm.
    apply (below_nonterm O s x m Hm), in_order_ne in Hxm.
    exists (env_upd env x false).
    rewrite (denote_ext s n _ _ (fun y => upd_flip_comm env x false (nvar s m) y Hxm)).
    destruct (node_cofactors O s n x l h env Hw Ho Hk) as [-> _].
    destruct (node_cofactors O s n x l h (env_upd env (nvar s m) (negb (env (nvar s m)))) Hw Ho Hk)
      as [-> _]. exact Hd.
  - destruct (ordered_inv O s n x l h Hw Ho Hk) as (_ & _ & Hbh & _ & Hoh).
    pose proof (wf_children s Hw _ _ _ _ Hk) as (_ & _ & Hlh & _ & _).
    destruct (IH Hm Hoh Hlh) as [env Hd].
    pose proof (reach_below O s x h m Hw Hoh Hr Hbh) as Hxm.
    apply (below_nonterm O s x m Hm), in_order_ne in Hxm.
    exists (env_upd env x true).
    rewrite (denote_ext s n _ _ (fun y => upd_flip_comm env x true (nvar s m) y Hxm)).
    destruct (node_cofactors O s n x l h env Hw Ho Hk) as [_ ->].
    destruct (node_cofactors O s n x l h (env_upd env (nvar s m) (negb (env (nvar s m)))) Hw Ho Hk)
      as [_ ->]. exact Hd.
Qed.

Theorem variables_support O s a :
  wf_store s -> NoDup O -> ordered O s a -> live s a = true ->
  forall v, In v (variables s a) <->
            exists env, denote s a env <> denote s a (env_upd env v (negb (env v))).
Proof.
  intros Hw _ Ho Hl v. rewrite (variables_reach s a v Hw Hl). split.
  - intros (m & Hr & Ht & <-). eapply reach_support; eauto.
  - intros [env Hd]. eapply support_reach; eauto.
Qed.

(* ------------------------------------------------------------------ *)
(** * The OBDD-level operations *)

Lemma ordering_eqb_eq a : forall b, ordering_eqb a b = true <-> a = b.
Proof.
  induction a as [|x r IH]; intros [|y r']; cbn; try (split; [discriminate|discriminate]); [tauto|].
  rewrite andb_true_iff, Nat.eqb_eq, IH. split.
  - intros [-> ->]; reflexivity.
  - intros H; injection H as -> ->; auto.
Qed.

Theorem obdd_apply_spec op s ra rb O :
  wf_store s -> ordered O s ra -> ordered O s rb -> live s ra = true -> live s rb = true ->
  exists s' n, obdd_apply op s (ra, O) (rb, O) = Ok (s', (n, O)) /\ wf_store s' /\ extends s s' /\
    live s' n = true /\ ordered O s' n /\
    forall env, denote s' n env = op (denote s ra env) (denote s rb env).
Proof.
  intros Hw Hoa Hob Hla Hlb. unfold obdd_apply. cbn [fst snd].
  replace (ordering_eqb O O) with true by (symmetry; apply ordering_eqb_eq; reflexivity).
  cbn [negb].
  destruct (apply_ok_all O op (nfuel ra + nfuel rb) s ra rb Hw Hoa Hob Hla Hlb (le_n _))
    as (s' & n & E & Hw' & He & Hl & Ho & _ & Hd).
  exists s', n. rewrite E. cbn. auto 10.
Qed.

Theorem obdd_apply_mismatch op s a b : snd a <> snd b -> obdd_apply op s a b = RuntimeErr.
Proof.
  intros H. unfold obdd_apply. destruct (ordering_eqb (snd a) (snd b)) eqn:E; [|reflexivity].
  apply ordering_eqb_eq in E. contradiction.
Qed.

Theorem obdd_neg_spec s ra O :
  wf_store s -> ordered O s ra -> live s ra = true ->
  exists s' n, obdd_neg s (ra, O) = Ok (s', (n, O)) /\ wf_store s' /\ extends s s' /\
    live s' n = true /\ ordered O s' n /\
    forall env, denote s' n env = negb (denote s ra env).
Proof.
  intros Hw Ho Hl. unfold obdd_neg. cbn [fst snd].
  destruct (C17_neg O (nfuel ra) s ra Hw Ho Hl (le_n _))
    as (s' & n & E & Hw' & He & Hl' & Ho' & _ & Hd).
  exists s', n. rewrite E. cbn [rbind]. rewrite (obdd_of_node_ordered O s' n Hw' Ho'). cbn. auto 10.
Qed.

Theorem obdd_restrict_spec s ra O v b :
  wf_store s -> ordered O s ra -> live s ra = true ->
  exists s' n, obdd_restrict s (ra, O) v b = Ok (s', (n, O)) /\ wf_store s' /\ extends s s' /\
    live s' n = true /\ ordered O s' n /\
    forall env, denote s' n env = denote s ra (env_upd env v b).
Proof.
  intros Hw Ho Hl. unfold obdd_restrict. cbn [fst snd].
  destruct (C17_cofactor O (nfuel ra) s ra v b Hw Ho Hl (le_n _))
    as (s' & n & E & Hw' & He & Hl' & Ho' & _ & Hd).
  exists s', n. rewrite E. cbn [rbind]. rewrite (obdd_of_node_ordered O s' n Hw' Ho'). cbn. auto 10.
Qed.

Print Assumptions mknode_spec.
Print Assumptions C16_canonical.
Print Assumptions C17_apply.
Print Assumptions C17_neg.
Print Assumptions C17_cofactor.
Print Assumptions C17_apply_err.
Print Assumptions collect_spec.
Print Assumptions respects_ord_spec.
Print Assumptions variables_support.
Print Assumptions obdd_apply_spec.
Print Assumptions obdd_neg_spec.
Print Assumptions obdd_restrict_spec.
Print Assumptions distinguish.
