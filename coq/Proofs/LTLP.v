(* LTLP.v — exactness of the LTL tableau model checker (Model/LTLmc.v) with respect
   to the path semantics of Spec/Semantics.v. *)
From PMC Require Import Spec.Lemmas.
From Coq Require Import Lia Classical_Prop Classical_Pred_Type.

(* ================================================================== *)
(* 0. Infrastructure                                                   *)
(* ================================================================== *)

(* ---- nested induction principle for [form] ---- *)
Section FormInd.
  Variable P : form -> Prop.
  Hypothesis HBool : forall b, P (FBool b).
  Hypothesis HAtom : forall a, P (FAtom a).
  Hypothesis HNot : forall f, P f -> P (FNot f).
  Hypothesis HOr : forall fs, Forall P fs -> P (FOr fs).
  Hypothesis HAnd : forall fs, Forall P fs -> P (FAnd fs).
  Hypothesis HImp : forall f g, P f -> P g -> P (FImp f g).
  Hypothesis HX : forall f, P f -> P (FX f).
  Hypothesis HF : forall f, P f -> P (FF f).
  Hypothesis HG : forall f, P f -> P (FG f).
  Hypothesis HU : forall f g, P f -> P g -> P (FU f g).
  Hypothesis HR : forall f g, P f -> P g -> P (FR f g).
  Hypothesis HA : forall f, P f -> P (FA f).
  Hypothesis HE : forall f, P f -> P (FE f).

  Fixpoint form_ind' (f : form) : P f :=
    match f with
    | FBool b => HBool b
    | FAtom a => HAtom a
    | FNot g => HNot g (form_ind' g)
    | FOr fs => HOr fs ((fix go (l : list form) : Forall P l :=
                           match l with
                           | [] => Forall_nil P
                           | x :: r => Forall_cons x (form_ind' x) (go r)
                           end) fs)
    | FAnd fs => HAnd fs ((fix go (l : list form) : Forall P l :=
                           match l with
                           | [] => Forall_nil P
                           | x :: r => Forall_cons x (form_ind' x) (go r)
                           end) fs)
    | FImp g h => HImp g h (form_ind' g) (form_ind' h)
    | FX g => HX g (form_ind' g)
    | FF g => HF g (form_ind' g)
    | FG g => HG g (form_ind' g)
    | FU g h => HU g h (form_ind' g) (form_ind' h)
    | FR g h => HR g h (form_ind' g) (form_ind' h)
    | FA g => HA g (form_ind' g)
    | FE g => HE g (form_ind' g)
    end.
End FormInd.

(* ---- reflection of [form_eqb], [memf], [dedupf], [memb], [mema] ---- *)
Lemma form_eqb_refl : forall f, form_eqb f f = true.
Proof.
  induction f using form_ind'; simpl; auto.
  - apply Bool.eqb_reflx.
  - apply String.eqb_refl.
  - induction H as [|x r Hx _ IH]; simpl; auto. rewrite Hx, IH. reflexivity.
  - induction H as [|x r Hx _ IH]; simpl; auto. rewrite Hx, IH. reflexivity.
  - rewrite IHf1, IHf2. reflexivity.
  - rewrite IHf1, IHf2. reflexivity.
  - rewrite IHf1, IHf2. reflexivity.
Qed.

Lemma form_eqb_eq : forall f g, form_eqb f g = true -> f = g.
Proof.
  induction f using form_ind'; intros g0 E; destruct g0; simpl in E; try discriminate.
  - apply Bool.eqb_prop in E. congruence.
  - apply String.eqb_eq in E. congruence.
  - f_equal. auto.
  - f_equal. revert fs0 E. induction H as [|x r Hx _ IH]; intros [|b r2] E; try discriminate; auto.
    apply andb_prop in E. destruct E as [E1 E2]. f_equal; auto.
  - f_equal. revert fs0 E. induction H as [|x r Hx _ IH]; intros [|b r2] E; try discriminate; auto.
    apply andb_prop in E. destruct E as [E1 E2]. f_equal; auto.
  - apply andb_prop in E. destruct E as [E1 E2]. f_equal; auto.
  - f_equal; auto.
  - f_equal; auto.
  - f_equal; auto.
  - apply andb_prop in E. destruct E as [E1 E2]. f_equal; auto.
  - apply andb_prop in E. destruct E as [E1 E2]. f_equal; auto.
  - f_equal; auto.
  - f_equal; auto.
Qed.

Lemma form_eqb_iff : forall f g, form_eqb f g = true <-> f = g.
Proof. intros f g. split. apply form_eqb_eq. intros ->. apply form_eqb_refl. Qed.

Lemma memf_In : forall f l, memf f l = true <-> In f l.
Proof.
  intros f l. unfold memf. rewrite existsb_exists. split.
  - intros [x [Hx E]]. apply form_eqb_eq in E. subst. exact Hx.
  - intros H. exists f. split; auto. apply form_eqb_refl.
Qed.

Lemma dedupf_In : forall f l, In f (dedupf l) <-> In f l.
Proof.
  intros f l. induction l as [|x r IH]; simpl. tauto.
  destruct (memf x r) eqn:E.
  - rewrite IH. split; auto. intros [->|H]; auto. apply memf_In. exact E.
  - simpl. rewrite IH. tauto.
Qed.

Lemma memb_In : forall x l, memb x l = true <-> In x l.
Proof.
  intros x l. unfold memb. rewrite existsb_exists. split.
  - intros [y [Hy E]]. apply Nat.eqb_eq in E. subst. exact Hy.
  - intros H. exists x. split; auto. apply Nat.eqb_refl.
Qed.

Lemma mema_In : forall x l, mema x l = true <-> In x l.
Proof.
  intros x l. unfold mema. rewrite existsb_exists. split.
  - intros [y [Hy E]]. apply String.eqb_eq in E. subst. exact Hy.
  - intros H. exists x. split; auto. apply String.eqb_refl.
Qed.

Lemma dedup_In : forall x l, In x (dedup l) <-> In x l.
Proof.
  intros x l. induction l as [|y r IH]; simpl. tauto.
  destruct (memb y r) eqn:E.
  - rewrite IH. split; auto. intros [->|H]; auto. apply memb_In. exact E.
  - simpl. rewrite IH. tauto.
Qed.

(* ================================================================== *)
(* normal formulas: Bool/Atom/Not/Or/X/U only, no double negation      *)
(* ================================================================== *)
Definition notneg (f : form) : bool := match f with FNot _ => false | _ => true end.

Fixpoint normalb (f : form) : bool :=
  match f with
  | FBool _ | FAtom _ => true
  | FNot g => notneg g && normalb g
  | FOr fs => forallb normalb fs
  | FX g => normalb g
  | FU g h => normalb g && normalb h
  | _ => false
  end.
Definition normal (f : form) : Prop := normalb f = true.

Lemma LNot_notneg : forall g, notneg g = true -> LNot g = FNot g.
Proof. intros g H. destruct g; try reflexivity. discriminate. Qed.

Lemma LNot_FNot : forall h, notneg h = true -> LNot (FNot h) = h.
Proof. intros h H. destruct h; try reflexivity. discriminate. Qed.

Lemma normalb_FNot : forall g, normalb (FNot g) = true -> notneg g = true /\ normalb g = true.
Proof. intros g H. simpl in H. apply andb_prop in H. exact H. Qed.

Lemma LNot_normal : forall f, normalb f = true -> normalb (LNot f) = true.
Proof.
  intros f H. destruct (notneg f) eqn:E.
  - rewrite LNot_notneg by exact E. simpl. rewrite E. exact H.
  - destruct f; try discriminate. apply normalb_FNot in H. destruct H as [H1 H2].
    rewrite LNot_FNot by exact H1. exact H2.
Qed.

Lemma normal_tableau_ok : forall f, normalb f = true -> tableau_ok f = true.
Proof.
  induction f using form_ind'; simpl; intros Hn; try discriminate; auto.
  - apply andb_prop in Hn. destruct Hn as [_ Hn]. auto.
  - rewrite forallb_forall in *. intros x Hx. rewrite Forall_forall in H. auto.
  - apply andb_prop in Hn. destruct Hn as [H1 H2]. rewrite IHf1, IHf2; auto.
Qed.

(* LNot stays inside the LTL path formulas *)
Lemma LNot_ltl_path_aux : forall f,
  (ltl_path f = true -> ltl_path (LNot f) = true) /\
  (ltl_path (FNot f) = true -> ltl_path (LNot (FNot f)) = true).
Proof.
  induction f using form_ind'; try (split; intros Hl; exact Hl).
  destruct IHf as [IH1 IH2]. split. exact IH2. exact IH1.
Qed.

Lemma LNot_ltl_path_proved : forall f, ltl_path f = true -> ltl_path (LNot f) = true.
Proof. intros f. apply LNot_ltl_path_aux. Qed.

(* restrict produces normal formulas on LTL path formulas *)
Lemma restrict_normal : forall f, ltl_path f = true -> normalb (restrict f) = true.
Proof.
  induction f using form_ind'; simpl; intros Hl; try discriminate; auto.
  - apply LNot_normal. auto.
  - rewrite forallb_forall in *. intros x Hx. apply in_map_iff in Hx.
    destruct Hx as [y [<- Hy]]. rewrite Forall_forall in H. auto.
  - rewrite forallb_forall in *. intros x Hx. apply in_map_iff in Hx.
    destruct Hx as [y [<- Hy]]. rewrite Forall_forall in H. apply LNot_normal. auto.
  - apply andb_prop in Hl. destruct Hl as [H1 H2].
    rewrite LNot_normal by auto. rewrite IHf2 by auto. reflexivity.
  - apply LNot_normal. auto.
  - apply andb_prop in Hl. destruct Hl as [H1 H2]. rewrite IHf1, IHf2; auto.
  - apply andb_prop in Hl. destruct Hl as [H1 H2].
    rewrite !LNot_normal by auto. reflexivity.
Qed.

(* ================================================================== *)
(* closure facts                                                       *)
(* ================================================================== *)
(* what a closure must contain for one of its members *)
Definition req (cl : list form) (f : form) : Prop :=
  normalb f = true /\
  match f with
  | FNot g => In g cl
  | FOr fs => forall x, In x fs -> In x cl
  | FX g => In g cl /\ match g with FNot h => In (FX h) cl | _ => True end
  | FU g h => In g cl /\ In h cl /\ In (FX f) cl
  | _ => True
  end.
Definition closed (cl : list form) : Prop := forall f, In f cl -> req cl f.

Lemma req_mono : forall cl cl' f, incl cl cl' -> req cl f -> req cl' f.
Proof.
  intros cl cl' f Hi [Hn Hr]. split; auto.
  destruct f; auto.
  - destruct Hr as [H1 H2]. split; auto. destruct f; auto.
  - destruct Hr as [H1 [H2 H3]]. auto.
Qed.

Lemma closed_same : forall cl cl', (forall f, In f cl <-> In f cl') -> closed cl -> closed cl'.
Proof.
  intros cl cl' Hs Hc f Hf. apply req_mono with cl.
  - intros x Hx. apply Hs. exact Hx.
  - apply Hc. apply Hs. exact Hf.
Qed.

Lemma base_in_closure : forall g, notneg g = true -> incl (base g) (closure g).
Proof.
  intros g Hg x Hx. destruct g; try discriminate; cbn [closure]; try exact Hx;
    apply in_or_app; left; exact Hx.
Qed.

Lemma self_in_closure : forall p, normalb p = true -> In p (closure p) /\ In (LNot p) (closure p).
Proof.
  intros p Hn. destruct (notneg p) eqn:E.
  - split; apply base_in_closure; auto; unfold base; simpl; auto.
  - destruct p; try discriminate. apply normalb_FNot in Hn. destruct Hn as [H1 H2].
    rewrite LNot_FNot by exact H1. simpl closure.
    split; apply base_in_closure; auto; unfold base.
    + rewrite LNot_notneg by exact H1. simpl; auto.
    + simpl; auto.
Qed.

Lemma closure_closed : forall p, normalb p = true -> closed (closure p).
Proof.
  induction p using form_ind'; intros Hn; try discriminate.
  - (* FBool *) intros f Hf. simpl in Hf. destruct Hf as [<-|[<-|[]]]; split; simpl; auto.
  - (* FAtom *) intros f Hf. simpl in Hf. destruct Hf as [<-|[<-|[]]]; split; simpl; auto.
  - (* FNot *) apply normalb_FNot in Hn. destruct Hn as [H1 H2]. simpl closure. auto.
  - (* FOr *)
    assert (Hsub : forall x, In x fs -> incl (closure x) (closure (FOr fs))).
    { intros x Hx y Hy. simpl closure. right. right. apply in_flat_map. exists x. auto. }
    assert (Hall : forall x, In x fs -> normalb x = true).
    { simpl in Hn. rewrite forallb_forall in Hn. exact Hn. }
    intros f Hf. simpl closure in Hf. destruct Hf as [<-|[<-|Hf]].
    + split; auto. intros x Hx. apply (Hsub x Hx). apply self_in_closure. auto.
    + split. simpl. exact Hn. simpl. auto.
    + apply in_flat_map in Hf. destruct Hf as [x [Hx Hf]].
      apply req_mono with (closure x). auto.
      rewrite Forall_forall in H. apply H; auto.
  - (* FX *)
    simpl in Hn.
    assert (Hsub : incl (closure p) (closure (FX p))).
    { intros y Hy. simpl closure. do 4 right. exact Hy. }
    destruct (self_in_closure p Hn) as [Hs1 Hs2].
    intros f Hf. simpl closure in Hf.
    destruct Hf as [<-|[<-|[<-|[<-|Hf]]]].
    + split; auto. split. auto.
      destruct p; auto. apply normalb_FNot in Hn. destruct Hn as [H1 H2].
      cbn [closure base app]. right. right. left. rewrite LNot_FNot; auto.
    + split. simpl. exact Hn. simpl. auto.
    + split. simpl. apply LNot_normal. exact Hn.
      split. auto.
      destruct (LNot p) eqn:EL; auto.
      destruct (notneg p) eqn:E.
      * rewrite LNot_notneg in EL by exact E. inversion EL. subst. simpl. auto.
      * destruct p; try discriminate. apply normalb_FNot in Hn. destruct Hn as [H1 H2].
        rewrite LNot_FNot in EL by exact H1. subst. discriminate.
    + split. simpl. apply LNot_normal. exact Hn. simpl. auto.
    + apply req_mono with (closure p); auto. apply IHp; auto.
  - (* FU *)
    simpl in Hn. apply andb_prop in Hn. destruct Hn as [Hn1 Hn2].
    assert (Hsub1 : incl (closure p1) (closure (FU p1 p2))).
    { intros y Hy. simpl closure. right. right. apply in_or_app. left. exact Hy. }
    assert (Hsub2 : incl (closure p2) (closure (FU p1 p2))).
    { intros y Hy. simpl closure. right. right. apply in_or_app. right.
      apply in_or_app. left. exact Hy. }
    assert (Htail : forall y, In y [FX (FU p1 p2); FNot (FX (FU p1 p2));
                                    FX (FNot (FU p1 p2)); FNot (FX (FNot (FU p1 p2)))] ->
                              In y (closure (FU p1 p2))).
    { intros y Hy. simpl closure. right. right. apply in_or_app. right.
      apply in_or_app. right. exact Hy. }
    destruct (self_in_closure p1 Hn1) as [Hs1 _].
    destruct (self_in_closure p2 Hn2) as [Hs2 _].
    assert (Hnf : normalb (FU p1 p2) = true) by (simpl; rewrite Hn1, Hn2; reflexivity).
    assert (Hself : In (FU p1 p2) (closure (FU p1 p2))) by (simpl; auto).
    assert (Hnself : In (FNot (FU p1 p2)) (closure (FU p1 p2))) by (simpl; auto).
    intros f Hf. simpl closure in Hf. destruct Hf as [<-|[<-|Hf]].
    + split; auto. split; [|split]; auto. apply Htail. simpl; auto.
    + split; auto.
    + apply in_app_or in Hf. destruct Hf as [Hf|Hf].
      { apply req_mono with (closure p1); auto. apply IHp1; auto. }
      apply in_app_or in Hf. destruct Hf as [Hf|Hf].
      { apply req_mono with (closure p2); auto. apply IHp2; auto. }
      simpl in Hf. destruct Hf as [<-|[<-|[<-|[<-|[]]]]].
      * split; auto.
      * split; auto. apply Htail. simpl; auto.
      * split; auto. split; auto. apply Htail. simpl; auto.
      * split; auto. apply Htail. simpl; auto.
Qed.

(* ================================================================== *)
(* graphs: reachability helpers                                        *)
(* ================================================================== *)
Lemma reaches_trans : forall g x y z, reaches g x y -> reaches g y z -> reaches g x z.
Proof.
  intros g x y z Hxy Hyz. revert Hxy. induction Hyz as [y|y u z Hyu IH Huz]; intros Hxy.
  exact Hxy. eapply r_step; [apply IH; exact Hxy|exact Huz].
Qed.

Lemma reaches_edge : forall g x y, edge g x y -> reaches g x y.
Proof. intros g x y H. eapply r_step; [apply r_refl|exact H]. Qed.

Lemma reaches_step_l : forall g x y z, edge g x y -> reaches g y z -> reaches g x z.
Proof. intros g x y z H1 H2. eapply reaches_trans; [apply reaches_edge; exact H1|exact H2]. Qed.

Inductive reachesL (g : graph) : nat -> nat -> Prop :=
| rl_refl x : reachesL g x x
| rl_step x y z : edge g x y -> reachesL g y z -> reachesL g x z.

Lemma reachesL_trans : forall g x y z, reachesL g x y -> reachesL g y z -> reachesL g x z.
Proof.
  intros g x y z Hxy Hyz. revert Hyz. induction Hxy as [x|x u y Hxu Huy IH]; intros Hyz.
  exact Hyz. eapply rl_step; [exact Hxu|apply IH; exact Hyz].
Qed.

Lemma reaches_L : forall g x y, reaches g x y <-> reachesL g x y.
Proof.
  intros g x y. split; intros H.
  - induction H as [x|x y z Hxy IH Hyz]. apply rl_refl.
    eapply reachesL_trans; [exact IH|]. eapply rl_step; [exact Hyz|apply rl_refl].
  - induction H as [x|x y z Hxy Hyz IH]. apply r_refl.
    eapply reaches_step_l; eauto.
Qed.

Lemma reaches_flip : forall g g', (forall x y, edge g' x y <-> edge g y x) ->
  forall x y, reaches g' x y <-> reaches g y x.
Proof.
  intros g g' He x y. split; intros H.
  - induction H as [x|x y z Hxy IH Hyz]. apply r_refl.
    eapply reaches_step_l; [apply He; exact Hyz|exact IH].
  - apply reaches_L in H. induction H as [y|y u x Hyu Hux IH]. apply r_refl.
    eapply r_step; [exact IH|apply He; exact Hyu].
Qed.

Lemma reaches_nodes : forall g x y, wf_graph g -> reaches g x y -> In x (nodes g) -> In y (nodes g).
Proof.
  intros g x y [_ [_ Hw]] H Hx. induction H as [x|x y z Hxy IH Hyz]; auto.
  apply (Hw y z Hyz).
Qed.

Lemma succs_map : forall (F : nat -> list nat) l i,
  succs (map (fun i => (i, F i)) l) i = if memb i l then F i else [].
Proof.
  intros F l i. induction l as [|x r IH]; simpl; auto.
  rewrite (Nat.eqb_sym i x). destruct (Nat.eqb x i) eqn:E; simpl; auto.
  apply Nat.eqb_eq in E. subst. reflexivity.
Qed.

(* ================================================================== *)
(* semantics helpers                                                   *)
(* ================================================================== *)
Lemma sat_ext : forall K f p q, (forall j, p j = q j) -> (sat K p f <-> sat K q f).
Proof.
  intros K. induction f using form_ind'; intros p q Hpq; simpl.
  - tauto.
  - unfold labelled. rewrite (Hpq 0). tauto.
  - rewrite (IHf p q Hpq). tauto.
  - induction H as [|x r Hx _ IH]; simpl. tauto. rewrite (Hx p q Hpq), IH. tauto.
  - induction H as [|x r Hx _ IH]; simpl. tauto. rewrite (Hx p q Hpq), IH. tauto.
  - rewrite (IHf1 p q Hpq), (IHf2 p q Hpq). tauto.
  - apply IHf. intros j. unfold suffix. auto.
  - split; intros [k Hk]; exists k; (eapply IHf; [|exact Hk]); intros j; unfold suffix; auto.
  - split; intros Hk k; (eapply IHf; [|apply (Hk k)]); intros j; unfold suffix; auto.
  - split; intros [k [Hk Hj]]; exists k; split.
    + eapply IHf2; [|exact Hk]. intros j; unfold suffix; auto.
    + intros j Hlt. eapply IHf1; [|apply (Hj j Hlt)]. intros j'; unfold suffix; auto.
    + eapply IHf2; [|exact Hk]. intros j; unfold suffix; auto.
    + intros j Hlt. eapply IHf1; [|apply (Hj j Hlt)]. intros j'; unfold suffix; auto.
  - split; intros Hr k Hj.
    + eapply IHf2; [|apply (Hr k)]. intros j; unfold suffix; auto.
      intros j Hlt Hs. apply (Hj j Hlt). eapply IHf1; [|exact Hs]. intros j'; unfold suffix; auto.
    + eapply IHf2; [|apply (Hr k)]. intros j; unfold suffix; auto.
      intros j Hlt Hs. apply (Hj j Hlt). eapply IHf1; [|exact Hs]. intros j'; unfold suffix; auto.
  - rewrite (Hpq 0). tauto.
  - rewrite (Hpq 0). tauto.
Qed.

Lemma sat_suffix_0 : forall K pi f, sat K (suffix pi 0) f <-> sat K pi f.
Proof. intros K pi f. apply sat_ext. intros j. reflexivity. Qed.

Lemma sat_suffix_X : forall K pi i g,
  sat K (suffix pi i) (FX g) <-> sat K (suffix pi (S i)) g.
Proof.
  intros K pi i g. simpl. apply sat_ext. intros j. unfold suffix. f_equal. lia.
Qed.

Lemma sat_suffix_U : forall K pi i g h,
  sat K (suffix pi i) (FU g h) <->
  exists k, sat K (suffix pi (i + k)) h /\ forall j, j < k -> sat K (suffix pi (i + j)) g.
Proof.
  intros K pi i g h. simpl.
  assert (E : forall f k, sat K (suffix (suffix pi i) k) f <-> sat K (suffix pi (i + k)) f).
  { intros f k. apply sat_ext. intros j. unfold suffix. f_equal. lia. }
  split; intros [k [Hk Hj]]; exists k; split.
  - apply E. exact Hk.
  - intros j Hlt. apply E. auto.
  - apply E. exact Hk.
  - intros j Hlt. apply E. auto.
Qed.

Lemma sat_U_unfold : forall K pi i g h,
  sat K (suffix pi i) (FU g h) <->
  sat K (suffix pi i) h \/ (sat K (suffix pi i) g /\ sat K (suffix pi (S i)) (FU g h)).
Proof.
  intros K pi i g h. rewrite !sat_suffix_U. split.
  - intros [k [Hk Hj]]. destruct k as [|k].
    + left. rewrite Nat.add_0_r in Hk. exact Hk.
    + right. split.
      * specialize (Hj 0). rewrite Nat.add_0_r in Hj. apply Hj. lia.
      * exists k. split.
        -- replace (S i + k) with (i + S k) by lia. exact Hk.
        -- intros j Hlt. replace (S i + j) with (i + S j) by lia. apply Hj. lia.
  - intros [H0|[Hg [k [Hk Hj]]]].
    + exists 0. split. rewrite Nat.add_0_r. exact H0. intros j Hlt. lia.
    + exists (S k). split.
      * replace (i + S k) with (S i + k) by lia. exact Hk.
      * intros j Hlt. destruct j as [|j].
        -- rewrite Nat.add_0_r. exact Hg.
        -- replace (i + S j) with (S i + j) by lia. apply Hj. lia.
Qed.

Lemma sat_Or : forall K p fs, sat K p (FOr fs) <-> exists x, In x fs /\ sat K p x.
Proof.
  intros K p fs. simpl. induction fs as [|x r IH]; simpl.
  - split. tauto. intros [x [[] _]].
  - rewrite IH. split.
    + intros [H|[y [Hy Hs]]]. exists x; auto. exists y; auto.
    + intros [y [[->|Hy] Hs]]; eauto.
Qed.

(* ================================================================== *)
(* X_choices: any predicate on the free X-formulas is realised         *)
(* ================================================================== *)
Definition xstep (acc : list (list form)) (f : form) : list (list form) :=
  match f with
  | FX g => map (fun Xs => f :: Xs) acc ++ map (fun Xs => FX (LNot g) :: Xs) acc
  | _ => acc
  end.

Lemma X_choices_eq : forall cl, X_choices cl = fold_left xstep (filter free_X cl) [[]].
Proof. reflexivity. Qed.

Lemma xchoice_real : forall (P : form -> Prop) F acc Xs0, In Xs0 acc ->
  exists Xs, In Xs (fold_left xstep F acc) /\
    forall x, In x Xs <->
      In x Xs0 \/ exists g, In (FX g) F /\
                            ((P (FX g) /\ x = FX g) \/ (~ P (FX g) /\ x = FX (LNot g))).
Proof.
  intros P F. induction F as [|f F IH]; intros acc Xs0 H0.
  - exists Xs0. split. exact H0. intros x. split; auto. intros [H|[g [[] _]]]. exact H.
  - simpl fold_left.
    assert (Hother : (forall g, f <> FX g) -> xstep acc f = acc).
    { intros Hne. destruct f; try reflexivity. exfalso. apply (Hne f). reflexivity. }
    destruct (classic (exists g, f = FX g)) as [[g ->]|Hne].
    + destruct (classic (P (FX g))) as [HP|HP].
      * destruct (IH (xstep acc (FX g)) (FX g :: Xs0)) as [Xs [HXs Hm]].
        { simpl. apply in_or_app. left. apply in_map_iff. exists Xs0. auto. }
        exists Xs. split. exact HXs. intros x. rewrite Hm. simpl. split.
        -- intros [[<-|H]|[g' [Hg' Hc]]]; auto.
           ++ right. exists g. auto.
           ++ right. exists g'. auto.
        -- intros [H|[g' [[E|Hg'] Hc]]]; auto.
           ++ inversion E. subst g'. destruct Hc as [[_ ->]|[HnP _]]. auto. contradiction.
           ++ right. exists g'. auto.
      * destruct (IH (xstep acc (FX g)) (FX (LNot g) :: Xs0)) as [Xs [HXs Hm]].
        { simpl. apply in_or_app. right. apply in_map_iff. exists Xs0. auto. }
        exists Xs. split. exact HXs. intros x. rewrite Hm. simpl. split.
        -- intros [[<-|H]|[g' [Hg' Hc]]]; auto.
           ++ right. exists g. auto.
           ++ right. exists g'. auto.
        -- intros [H|[g' [[E|Hg'] Hc]]]; auto.
           ++ inversion E. subst g'. destruct Hc as [[HP' _]|[_ ->]]. contradiction. auto.
           ++ right. exists g'. auto.
    + rewrite Hother by (intros g E; apply Hne; exists g; exact E).
      destruct (IH acc Xs0 H0) as [Xs [HXs Hm]].
      exists Xs. split. exact HXs. intros x. rewrite Hm. split.
      * intros [H|[g [Hg Hc]]]; auto. right. exists g. split; auto. right. exact Hg.
      * intros [H|[g [[E|Hg] Hc]]]; auto.
        -- exfalso. apply Hne. exists g. exact E.
        -- right. exists g. auto.
Qed.

(* ================================================================== *)
(* atoms and the tableau graph                                         *)
(* ================================================================== *)
Section Tableau.
  Variable K : kripke.
  Variable cl : list form.
  Local Notation ats := (atoms K cl).
  Local Notation T := (tableau K cl (atoms K cl)).
  Local Notation N := (List.length (atoms K cl)).

  Definition mk_atom (s : nat) (Xs : list form) : tatom :=
    (s, filter (holds_in (labels_of K s) Xs) cl).

  Lemma atoms_form : forall a, In a ats <->
    exists s Xs, In s (states K) /\ In Xs (X_choices cl) /\ a = mk_atom s Xs.
  Proof.
    intros a. unfold atoms. rewrite in_flat_map. split.
    - intros [s [Hs Ha]]. apply in_map_iff in Ha. destruct Ha as [Xs [<- HXs]].
      exists s, Xs. auto.
    - intros [s [Xs [Hs [HXs ->]]]]. exists s. split; auto. apply in_map_iff. exists Xs. auto.
  Qed.

  Lemma atom_at_form : forall n, n < N ->
    exists s Xs, In s (states K) /\ In Xs (X_choices cl) /\ atom_at ats n = mk_atom s Xs.
  Proof. intros n Hn. apply atoms_form. unfold atom_at. apply nth_In. exact Hn. Qed.

  Lemma atom_index : forall a, In a ats -> exists n, n < N /\ atom_at ats n = a.
  Proof. intros a Ha. unfold atom_at. apply In_nth. exact Ha. Qed.

  Lemma idxs_In : forall n, In n (idxs ats) <-> n < N.
  Proof. intros n. unfold idxs. rewrite in_seq. lia. Qed.

  Lemma tableau_nodes : nodes T = idxs ats.
  Proof.
    unfold nodes, tableau. rewrite map_map. simpl. apply map_id.
  Qed.

  Lemma respects_spec : forall a b,
    respects (filter is_X cl) a b = true <->
    forall g, In (FX g) cl -> memf g b = memf (FX g) a.
  Proof.
    intros a b. unfold respects. rewrite forallb_forall. split.
    - intros H g Hg. apply Bool.eqb_prop. apply (H (FX g)). apply filter_In. auto.
    - intros H f Hf. apply filter_In in Hf. destruct Hf as [Hf Hx].
      destruct f; try discriminate. rewrite (H f Hf). apply Bool.eqb_reflx.
  Qed.

  Lemma tableau_edge : forall n m,
    edge T n m <->
    n < N /\ m < N /\
    edge (kg K) (fst (atom_at ats n)) (fst (atom_at ats m)) /\
    forall g, In (FX g) cl -> memf g (snd (atom_at ats m)) = memf (FX g) (snd (atom_at ats n)).
  Proof.
    intros n m. unfold edge at 1. unfold tableau.
    rewrite (succs_map (fun i => filter (fun j =>
               memb (fst (atom_at ats j)) (succs (kg K) (fst (atom_at ats i))) &&
               respects (filter is_X cl) (snd (atom_at ats i)) (snd (atom_at ats j)))
               (idxs ats)) (idxs ats) n).
    destruct (memb n (idxs ats)) eqn:E.
    - apply memb_In in E. apply idxs_In in E.
      rewrite filter_In, idxs_In, andb_true_iff, memb_In, respects_spec. unfold edge. tauto.
    - split. intros []. intros [Hn _]. apply idxs_In in Hn. apply memb_In in Hn. congruence.
  Qed.

  Lemma tableau_wf : wf_graph T.
  Proof.
    split; [|split].
    - rewrite tableau_nodes. apply seq_NoDup.
    - intros x. unfold tableau.
      rewrite (succs_map (fun i => filter (fun j =>
               memb (fst (atom_at ats j)) (succs (kg K) (fst (atom_at ats i))) &&
               respects (filter is_X cl) (snd (atom_at ats i)) (snd (atom_at ats j)))
               (idxs ats)) (idxs ats) x).
      destruct (memb x (idxs ats)). apply NoDup_filter. apply seq_NoDup. constructor.
    - intros x y H. apply tableau_edge in H. rewrite tableau_nodes, !idxs_In. tauto.
  Qed.
End Tableau.

(* ================================================================== *)
(* 1. atom consistency                                                 *)
(* ================================================================== *)
Section Atoms.
  Variable K : kripke.
  Variable cl : list form.
  Hypothesis Hcl : closed cl.
  Local Notation ats := (atoms K cl).
  Local Notation T := (tableau K cl (atoms K cl)).
  Local Notation N := (List.length (atoms K cl)).

  Definition inA (f : form) (n : nat) : Prop := memf f (snd (atom_at ats n)) = true.
  Definition st_of (n : nat) : nat := fst (atom_at ats n).

  Lemma inA_holds : forall n s Xs f, atom_at ats n = mk_atom K cl s Xs -> In f cl ->
    (inA f n <-> holds_in (labels_of K s) Xs f = true).
  Proof.
    intros n s Xs f E Hf. unfold inA. rewrite E. simpl. rewrite memf_In, filter_In. tauto.
  Qed.

  Lemma inA_lt : forall f n, inA f n -> n < N.
  Proof.
    intros f n H. destruct (Nat.lt_ge_cases n N) as [Hlt|Hge]; auto.
    unfold inA, atom_at in H. rewrite nth_overflow in H by exact Hge. discriminate.
  Qed.

  Lemma inA_cl : forall f n, inA f n -> In f cl.
  Proof.
    intros f n H. pose proof (inA_lt f n H) as Hn.
    destruct (atom_at_form K cl n Hn) as [s [Xs [_ [_ E]]]].
    unfold inA in H. rewrite E in H. simpl in H. apply memf_In in H. apply filter_In in H. tauto.
  Qed.

  Lemma st_of_states : forall n, n < N -> In (st_of n) (states K).
  Proof.
    intros n Hn. destruct (atom_at_form K cl n Hn) as [s [Xs [Hs [_ E]]]].
    unfold st_of. rewrite E. exact Hs.
  Qed.

  Lemma A_bool : forall n b, n < N -> In (FBool b) cl -> (inA (FBool b) n <-> b = true).
  Proof.
    intros n b Hn Hf. destruct (atom_at_form K cl n Hn) as [s [Xs [_ [_ E]]]].
    rewrite (inA_holds n s Xs _ E Hf). simpl. tauto.
  Qed.

  Lemma A_atom : forall n a, n < N -> In (FAtom a) cl ->
    (inA (FAtom a) n <-> In a (labels_of K (st_of n))).
  Proof.
    intros n a Hn Hf. destruct (atom_at_form K cl n Hn) as [s [Xs [_ [_ E]]]].
    rewrite (inA_holds n s Xs _ E Hf). unfold st_of. rewrite E. simpl. apply mema_In.
  Qed.

  Lemma A_not : forall n g, n < N -> In (FNot g) cl -> (inA (FNot g) n <-> ~ inA g n).
  Proof.
    intros n g Hn Hf. destruct (atom_at_form K cl n Hn) as [s [Xs [_ [_ E]]]].
    assert (Hg : In g cl) by (apply (Hcl _ Hf)).
    rewrite (inA_holds n s Xs _ E Hf), (inA_holds n s Xs _ E Hg). simpl.
    destruct (holds_in (labels_of K s) Xs g); simpl; split; congruence.
  Qed.

  Lemma A_or : forall n fs, n < N -> In (FOr fs) cl ->
    (inA (FOr fs) n <-> exists x, In x fs /\ inA x n).
  Proof.
    intros n fs Hn Hf. destruct (atom_at_form K cl n Hn) as [s [Xs [_ [_ E]]]].
    assert (Hg : forall x, In x fs -> In x cl) by (apply (Hcl _ Hf)).
    rewrite (inA_holds n s Xs _ E Hf). simpl. rewrite existsb_exists. split.
    - intros [x [Hx Hh]]. exists x. split; auto. apply (inA_holds n s Xs _ E (Hg x Hx)). exact Hh.
    - intros [x [Hx Hh]]. exists x. split; auto. apply (inA_holds n s Xs _ E (Hg x Hx)). exact Hh.
  Qed.

  Lemma A_U : forall n g h, n < N -> In (FU g h) cl ->
    (inA (FU g h) n <-> inA h n \/ (inA g n /\ inA (FX (FU g h)) n)).
  Proof.
    intros n g h Hn Hf. destruct (atom_at_form K cl n Hn) as [s [Xs [_ [_ E]]]].
    destruct (Hcl _ Hf) as [_ [Hg [Hh HX]]].
    rewrite (inA_holds n s Xs _ E Hf), (inA_holds n s Xs _ E Hg),
            (inA_holds n s Xs _ E Hh), (inA_holds n s Xs _ E HX).
    simpl. rewrite orb_true_iff, andb_true_iff. tauto.
  Qed.

  (* edges of the tableau in terms of inA *)
  Lemma T_edge : forall n m, edge T n m <->
    n < N /\ m < N /\ edge (kg K) (st_of n) (st_of m) /\
    forall g, In (FX g) cl -> (inA g m <-> inA (FX g) n).
  Proof.
    intros n m. rewrite tableau_edge. unfold inA, st_of. split.
    - intros [H1 [H2 [H3 H4]]]. repeat split; auto; intros Hx.
      + rewrite <- (H4 g H). exact Hx.
      + rewrite (H4 g H). exact Hx.
    - intros [H1 [H2 [H3 H4]]]. repeat split; auto. intros g Hg.
      specialize (H4 g Hg).
      destruct (memf g (snd (atom_at ats m))), (memf (FX g) (snd (atom_at ats n))); auto.
      + symmetry. apply H4. reflexivity.
      + apply H4. reflexivity.
  Qed.
End Atoms.

(* ================================================================== *)
(* 2. soundness: a fair infinite walk of the tableau is a model        *)
(* ================================================================== *)
Section Walk.
  Variable K : kripke.
  Variable cl : list form.
  Hypothesis Hcl : closed cl.
  Local Notation ats := (atoms K cl).
  Local Notation T := (tableau K cl (atoms K cl)).
  Local Notation N := (List.length (atoms K cl)).
  Local Notation inA := (inA K cl).
  Local Notation st_of := (st_of K cl).

  Variable w : nat -> nat.
  Hypothesis Hw : gpath T w.
  Hypothesis Hfair : forall g h, In (FU g h) cl ->
    forall i, exists j, i <= j /\ (~ inA (FU g h) (w j) \/ inA h (w j)).

  Definition wpath : path := fun i => st_of (w i).

  Lemma w_lt : forall i, w i < N.
  Proof. intros i. pose proof (Hw i) as H. apply (T_edge K cl) in H. tauto. Qed.

  Lemma wpath_is_path : is_path K wpath.
  Proof. intros i. pose proof (Hw i) as H. apply (T_edge K cl) in H. unfold wpath. tauto. Qed.

  Lemma w_X : forall i g, In (FX g) cl -> (inA (FX g) (w i) <-> inA g (w (S i))).
  Proof.
    intros i g Hg. pose proof (Hw i) as H. apply (T_edge K cl) in H.
    destruct H as [_ [_ [_ H]]]. symmetry. apply H. exact Hg.
  Qed.

  Lemma U_bwd : forall g h, In (FU g h) cl ->
    forall k i, inA h (w (i + k)) -> (forall j, j < k -> inA g (w (i + j))) -> inA (FU g h) (w i).
  Proof.
    intros g h Hf. destruct (Hcl _ Hf) as [_ [Hg [Hh HX]]].
    induction k as [|k IH]; intros i Hk Hj.
    - rewrite Nat.add_0_r in Hk. apply (A_U K cl Hcl); auto. apply w_lt.
    - apply (A_U K cl Hcl); auto. apply w_lt. right. split.
      + specialize (Hj 0). rewrite Nat.add_0_r in Hj. apply Hj. lia.
      + apply w_X; auto. apply IH.
        * replace (S i + k) with (i + S k) by lia. exact Hk.
        * intros j Hlt. replace (S i + j) with (i + S j) by lia. apply Hj. lia.
  Qed.

  Lemma U_fwd_aux : forall g h, In (FU g h) cl -> forall i, inA (FU g h) (w i) ->
    forall d, (exists k, inA h (w (i + k)) /\ forall j, j < k -> inA g (w (i + j))) \/
              (inA (FU g h) (w (i + d)) /\ forall j, j < d -> inA g (w (i + j))).
  Proof.
    intros g h Hf i Hi. destruct (Hcl _ Hf) as [_ [Hg [Hh HX]]].
    induction d as [|d IH].
    - right. rewrite Nat.add_0_r. split. exact Hi. intros j Hlt. lia.
    - destruct IH as [IH|[HU Hj]]. left; exact IH.
      apply (A_U K cl Hcl) in HU; auto; [|apply w_lt].
      destruct HU as [Hh'|[Hg' HX']].
      + left. exists d. auto.
      + right. split.
        * replace (i + S d) with (S (i + d)) by lia. apply w_X; auto.
        * intros j Hlt. destruct (Nat.eq_dec j d) as [->|Hne]. exact Hg'. apply Hj. lia.
  Qed.

  Lemma U_fwd : forall g h, In (FU g h) cl -> forall i, inA (FU g h) (w i) ->
    exists k, inA h (w (i + k)) /\ forall j, j < k -> inA g (w (i + j)).
  Proof.
    intros g h Hf i Hi. destruct (Hfair g h Hf i) as [j [Hij Hc]].
    destruct (U_fwd_aux g h Hf i Hi (j - i)) as [H|[HU Hj]]. exact H.
    replace (i + (j - i)) with j in HU by lia.
    destruct Hc as [Hc|Hc]. contradiction.
    exists (j - i). split; auto. replace (i + (j - i)) with j by lia. exact Hc.
  Qed.

  Lemma walk_sat : forall f, In f cl -> forall i, inA f (w i) <-> sat K (suffix wpath i) f.
  Proof.
    induction f using form_ind'; intros Hf i;
      try (destruct (Hcl _ Hf) as [Hn _]; discriminate Hn).
    - rewrite (A_bool K cl); auto. simpl. tauto. apply w_lt.
    - rewrite (A_atom K cl); auto; [|apply w_lt]. simpl. unfold labelled, suffix, wpath.
      rewrite Nat.add_0_r. tauto.
    - rewrite (A_not K cl Hcl); auto; [|apply w_lt]. simpl.
      assert (Hg : In f cl) by (apply (Hcl _ Hf)). rewrite (IHf Hg i). tauto.
    - rewrite (A_or K cl Hcl); auto; [|apply w_lt]. rewrite sat_Or.
      assert (Hg : forall x, In x fs -> In x cl) by (apply (Hcl _ Hf)).
      rewrite Forall_forall in H.
      split; intros [x [Hx Hs]]; exists x; split; auto; apply (H x Hx (Hg x Hx) i); exact Hs.
    - assert (Hg : In f cl) by (apply (Hcl _ Hf)).
      rewrite w_X by exact Hf. rewrite sat_suffix_X. apply IHf. exact Hg.
    - destruct (Hcl _ Hf) as [_ [Hg [Hh HX]]]. rewrite sat_suffix_U. split.
      + intros Hi. destruct (U_fwd f1 f2 Hf i Hi) as [k [Hk Hj]]. exists k. split.
        * apply IHf2; auto.
        * intros j Hlt. apply IHf1; auto.
      + intros [k [Hk Hj]]. apply (U_bwd f1 f2 Hf k i).
        * apply IHf2; auto.
        * intros j Hlt. apply IHf1; auto.
  Qed.
End Walk.

(* ================================================================== *)
(* self_fulfilling in terms of inA; U-propagation along tableau walks  *)
(* ================================================================== *)
Section SelfFul.
  Variable K : kripke.
  Variable cl : list form.
  Hypothesis Hcl : closed cl.
  Local Notation ats := (atoms K cl).
  Local Notation T := (tableau K cl (atoms K cl)).
  Local Notation N := (List.length (atoms K cl)).
  Local Notation inA := (inA K cl).

  Lemma memf_flat : forall f C,
    memf f (flat_map (fun i => snd (atom_at ats i)) C) = true <-> exists c, In c C /\ inA f c.
  Proof.
    intros f C. rewrite memf_In, in_flat_map. unfold LTLP.inA.
    split; intros [c [Hc H]]; exists c; split; auto; apply memf_In; exact H.
  Qed.

  Lemma self_fulfilling_spec : forall C,
    self_fulfilling cl ats T C = true <->
    nontrivial T C = true /\
    forall g h, In (FU g h) cl ->
      ((exists c, In c C /\ inA (FU g h) c) <-> (exists c, In c C /\ inA h c)).
  Proof.
    intros C. unfold self_fulfilling. rewrite andb_true_iff, forallb_forall.
    split; intros [Hnt H]; split; auto.
    - intros g h Hf. specialize (H _ Hf). simpl in H. apply Bool.eqb_prop in H.
      rewrite <- !memf_flat. rewrite H. tauto.
    - intros f Hf. destruct f; auto. specialize (H _ _ Hf). rewrite <- !memf_flat in H.
      destruct (memf (FU f1 f2) (flat_map (fun i => snd (atom_at ats i)) C)),
               (memf f2 (flat_map (fun i => snd (atom_at ats i)) C)); auto; simpl;
        apply H; reflexivity.
  Qed.

  Lemma U_prop : forall g h, In (FU g h) cl -> forall c d, reachesL T c d -> inA (FU g h) c ->
    (exists e, reaches T c e /\ reaches T e d /\ inA h e) \/ inA (FU g h) d.
  Proof.
    intros g h Hf c d Hr. destruct (Hcl _ Hf) as [_ [Hg [Hh HX]]].
    induction Hr as [c|c y d Hcy Hyd IH]; intros HU. right; exact HU.
    pose proof (inA_lt K cl _ _ HU) as Hc.
    apply (A_U K cl Hcl) in HU; auto. destruct HU as [Hh'|[Hg' HX']].
    - left. exists c. split. apply r_refl. split; auto.
      apply reaches_L. eapply rl_step; eauto.
    - pose proof Hcy as He. apply (T_edge K cl) in He. destruct He as [_ [_ [_ He]]].
      apply (He _ HX) in HX'. destruct (IH HX') as [[e [H1 [H2 H3]]]|H].
      + left. exists e. split; auto. eapply reaches_step_l; eauto.
      + right. exact H.
  Qed.
End SelfFul.

(* ================================================================== *)
(* infinite pigeonhole principle (classical)                           *)
(* ================================================================== *)
Lemma inf_pigeon : forall B (R : nat -> nat -> Prop),
  (forall i, exists n, n < B /\ R i n) ->
  exists n, n < B /\ forall i, exists j, i <= j /\ R j n.
Proof.
  induction B as [|B IH]; intros R H.
  - destruct (H 0) as [n [Hn _]]. lia.
  - destruct (classic (forall i, exists j, i <= j /\ R j B)) as [Hinf|Hfin].
    + exists B. split; auto.
    + apply not_all_ex_not in Hfin. destruct Hfin as [i0 Hi0].
      destruct (IH (fun i n => R (i0 + i) n)) as [n [Hn Hr]].
      * intros i. destruct (H (i0 + i)) as [n [Hn Hr]].
        exists n. split; auto. destruct (Nat.eq_dec n B) as [->|Hne]; [|lia].
        exfalso. apply Hi0. exists (i0 + i). split; auto. lia.
      * exists n. split. lia. intros i. destruct (Hr i) as [j [Hj Hrj]].
        exists (i0 + j). split; auto. lia.
Qed.

(* ================================================================== *)
(* 3. completeness: a path of K is described by a tableau walk          *)
(* ================================================================== *)
Lemma free_X_notneg : forall g, free_X (FX g) = notneg g.
Proof. intros g. destruct g; reflexivity. Qed.

Section Complete.
  Variable K : kripke.
  Variable cl : list form.
  Hypothesis HK : wf_kripke K.
  Hypothesis Hcl : closed cl.
  Local Notation ats := (atoms K cl).
  Local Notation T := (tableau K cl (atoms K cl)).
  Local Notation N := (List.length (atoms K cl)).
  Local Notation inA := (inA K cl).
  Local Notation st_of := (st_of K cl).

  Variable pi : path.
  Hypothesis Hpi : is_path K pi.

  Lemma pi_states : forall i, In (pi i) (states K).
  Proof.
    intros i. destruct HK as [[_ [_ Hw]] _]. apply (Hw (pi i) (pi (S i))). apply Hpi.
  Qed.

  (* the X-choice at position i agrees with the semantics on all X-formulas of cl *)
  Section Pos.
    Variable i : nat.
    Variable Xs : list form.
    Hypothesis HXs : forall x, In x Xs <->
      In x [] \/ exists g, In (FX g) (filter free_X cl) /\
                 ((sat K (suffix pi i) (FX g) /\ x = FX g) \/
                  (~ sat K (suffix pi i) (FX g) /\ x = FX (LNot g))).

    Lemma Xs_mem : forall g, In (FX g) cl -> (In (FX g) Xs <-> sat K (suffix pi i) (FX g)).
    Proof.
      intros g Hg. destruct (Hcl _ Hg) as [Hn [Hg' Hneg]]. simpl in Hn.
      rewrite HXs. destruct (notneg g) eqn:E.
      - split.
        + intros [[]|[g' [Hg'' [[Hs Ex]|[Hs Ex]]]]].
          * inversion Ex. subst g'. exact Hs.
          * apply filter_In in Hg''. destruct Hg'' as [_ Hfree].
            rewrite free_X_notneg in Hfree. rewrite LNot_notneg in Ex by exact Hfree.
            inversion Ex. subst g. discriminate.
        + intros Hs. right. exists g. split.
          * apply filter_In. split; [exact Hg|]. rewrite free_X_notneg. exact E.
          * left. auto.
      - destruct g as [| |h| | | | | | | | | |]; try discriminate.
        apply normalb_FNot in Hn. destruct Hn as [Hnh Hn].
        split.
        + intros [[]|[g' [Hg'' [[Hs Ex]|[Hs Ex]]]]].
          * inversion Ex. subst g'. apply filter_In in Hg''. destruct Hg'' as [_ Hfree].
            discriminate.
          * apply filter_In in Hg''. destruct Hg'' as [_ Hfree].
            rewrite free_X_notneg in Hfree. rewrite LNot_notneg in Ex by exact Hfree.
            inversion Ex. subst g'. exact Hs.
        + intros Hs. right. exists h. split.
          * apply filter_In. split; [exact Hneg|]. rewrite free_X_notneg. exact Hnh.
          * right. split. exact Hs. rewrite LNot_notneg by exact Hnh. reflexivity.
    Qed.

    Lemma holds_sat : forall f, In f cl ->
      (holds_in (labels_of K (pi i)) Xs f = true <-> sat K (suffix pi i) f).
    Proof.
      induction f using form_ind'; intros Hf;
        try (destruct (Hcl _ Hf) as [Hn _]; discriminate Hn).
      - simpl. tauto.
      - simpl. rewrite mema_In. unfold labelled, suffix. rewrite Nat.add_0_r. tauto.
      - assert (Hg : In f cl) by (apply (Hcl _ Hf)). simpl. rewrite <- (IHf Hg).
        destruct (holds_in (labels_of K (pi i)) Xs f); simpl; split; congruence.
      - assert (Hg : forall x, In x fs -> In x cl) by (apply (Hcl _ Hf)).
        rewrite sat_Or. simpl. rewrite existsb_exists. rewrite Forall_forall in H.
        split; intros [x [Hx Hs]]; exists x; split; auto; apply (H x Hx (Hg x Hx)); exact Hs.
      - simpl holds_in. rewrite memf_In. apply Xs_mem. exact Hf.
      - destruct (Hcl _ Hf) as [_ [Hg [Hh HX]]].
        simpl holds_in. rewrite orb_true_iff, andb_true_iff, memf_In.
        rewrite (IHf1 Hg), (IHf2 Hh), (Xs_mem _ HX), sat_U_unfold, sat_suffix_X. tauto.
    Qed.
  End Pos.

  Definition descr (i n : nat) : Prop :=
    n < N /\ st_of n = pi i /\ forall f, In f cl -> (inA f n <-> sat K (suffix pi i) f).

  Lemma descr_exists : forall i, exists n, n < N /\ descr i n.
  Proof.
    intros i.
    destruct (xchoice_real (fun x => sat K (suffix pi i) x) (filter free_X cl) [[]] [])
      as [Xs [HXs Hm]]. simpl; auto.
    rewrite <- X_choices_eq in HXs.
    assert (Ha : In (mk_atom K cl (pi i) Xs) ats).
    { apply atoms_form. exists (pi i), Xs. split. apply pi_states. auto. }
    destruct (atom_index K cl _ Ha) as [n [Hn E]].
    exists n. split; auto. split; auto. split.
    - unfold LTLP.st_of. rewrite E. reflexivity.
    - intros f Hf. rewrite (inA_holds K cl n (pi i) Xs f E Hf). apply holds_sat; auto.
  Qed.

  Lemma descr_edge : forall i n m, descr i n -> descr (S i) m -> edge T n m.
  Proof.
    intros i n m [Hn [Hsn Hfn]] [Hm [Hsm Hfm]]. apply (T_edge K cl).
    split; auto. split; auto. split.
    - rewrite Hsn, Hsm. apply Hpi.
    - intros g Hg. assert (Hg' : In g cl) by (apply (Hcl _ Hg)).
      rewrite (Hfm g Hg'), (Hfn _ Hg), sat_suffix_X. tauto.
  Qed.

  Lemma descr_reach : forall k i n m, descr i n -> descr (i + S k) m -> reaches T n m.
  Proof.
    induction k as [|k IH]; intros i n m Hn Hm.
    - apply reaches_edge. apply (descr_edge i); auto.
      replace (S i) with (i + 1) by lia. exact Hm.
    - destruct (descr_exists (i + S k)) as [m' [_ Hm']].
      eapply r_step. apply (IH i n m' Hn Hm').
      apply (descr_edge (i + S k)); auto.
      replace (S (i + S k)) with (i + S (S k)) by lia. exact Hm.
  Qed.

  Lemma descr_reach' : forall i j n m, i < j -> descr i n -> descr j m -> reaches T n m.
  Proof.
    intros i j n m Hlt Hn Hm. apply (descr_reach (j - i - 1) i); auto.
    replace (i + S (j - i - 1)) with j by lia. exact Hm.
  Qed.

  Variable cs : list (list nat).
  Hypothesis Hcs : scc_spec T cs.

  Lemma complete_core :
    exists n0 C c, descr 0 n0 /\ In C cs /\ self_fulfilling cl ats T C = true /\
                   In c C /\ reaches T n0 c.
  Proof.
    destruct (descr_exists 0) as [n0 [_ Hn0]].
    destruct (inf_pigeon N descr descr_exists) as [ns [Hns Hinf]].
    destruct Hcs as [_ [Hnodes Hmut]].
    assert (HinC : exists C, In C cs /\ In ns C).
    { assert (Hx : In ns (concat cs)).
      { apply Hnodes. rewrite tableau_nodes. apply idxs_In. exact Hns. }
      apply in_concat in Hx. destruct Hx as [C [HC Hx]]. exists C. auto. }
    destruct HinC as [C [HC HnsC]].
    pose proof (Hmut C ns HC HnsC) as HCm.
    destruct (Hinf 1) as [i0 [Hi0 Hd0]].
    (* every atom describing a later position is in C *)
    assert (Hlater : forall i m, i0 < i -> descr i m -> In m C).
    { intros i m Hlt Hm. apply HCm. split.
      - apply (descr_reach' i0 i); auto.
      - destruct (Hinf (S i)) as [j [Hj Hdj]]. apply (descr_reach' i j); auto. }
    exists n0, C, ns. split; auto. split; auto. split; [|split; auto].
    2:{ apply (descr_reach' 0 i0); auto. }
    apply (self_fulfilling_spec K cl). split.
    - (* nontrivial *)
      destruct C as [|v r]. destruct HnsC.
      simpl. destruct r as [|v' r']; auto.
      destruct HnsC as [->|[]].
      destruct (descr_exists (S i0)) as [m1 [_ Hm1]].
      assert (Hin : In m1 [ns]) by (apply (Hlater (S i0)); auto).
      destruct Hin as [<-|[]].
      apply memb_In. apply (descr_edge i0); auto.
    - intros g h Hf. destruct (Hcl _ Hf) as [_ [Hg [Hh HX]]]. split.
      + intros [c [Hc HU]].
        apply HCm in Hc. destruct Hc as [Hnc Hcn].
        apply reaches_L in Hcn.
        destruct (U_prop K cl Hcl g h Hf c ns Hcn HU) as [[e [H1 [H2 H3]]]|HUn].
        * exists e. split; auto. apply HCm. split; auto. eapply reaches_trans; eauto.
        * destruct Hd0 as [_ [_ Hsat]]. apply (Hsat _ Hf) in HUn.
          apply sat_suffix_U in HUn. destruct HUn as [k [Hk _]].
          destruct k as [|k].
          -- exists ns. split; auto. apply (Hsat _ Hh). rewrite Nat.add_0_r in Hk. exact Hk.
          -- destruct (descr_exists (i0 + S k)) as [m [_ Hm]].
             exists m. split. apply (Hlater (i0 + S k)); auto. lia.
             destruct Hm as [_ [_ Hsm]]. apply (Hsm _ Hh). exact Hk.
      + intros [c [Hc Hhc]]. exists c. split; auto.
        apply (A_U K cl Hcl); auto. apply (inA_lt K cl _ _ Hhc).
  Qed.
End Complete.

(* ================================================================== *)
(* 4. assembly                                                         *)
(* ================================================================== *)
Lemma compl_In : forall K X s, In s (compl K X) <-> In s (states K) /\ ~ In s X.
Proof.
  intros K X s. unfold compl. rewrite filter_In, negb_true_iff.
  rewrite <- (memb_In s X). destruct (memb s X); split; intros [H1 H2]; split; auto; congruence.
Qed.

(* acceptance sets of the generalised Buechi condition: one per U-formula *)
Definition PU (K : kripke) (cl : list form) (f : form) : list nat :=
  match f with
  | FU g h => filter (fun i => negb (memf f (snd (atom_at (atoms K cl) i))) ||
                               memf h (snd (atom_at (atoms K cl) i)))
                     (idxs (atoms K cl))
  | _ => idxs (atoms K cl)
  end.

Section LTL.
  Hypothesis reach_exact : reach_exact_stmt.
  Hypothesis reversed_spec : reversed_spec_stmt.
  Hypothesis scc_correct : scc_correct_stmt.
  Hypothesis gba : gba_stmt.
  Hypothesis LNot_sem : LNot_sem_stmt.
  Hypothesis restrict_sem : restrict_sem_stmt.
  (* The two further facts suggested as hypotheses,
       forall f, ltl_path f = true -> tableau_ok (restrict f) = true
       forall f, ltl_path f = true -> ltl_path (LNot f) = true
     are proved above (normal_tableau_ok + restrict_normal, LNot_ltl_path_proved). *)

  Section Spec.
    Variable K : kripke.
    Variable p : form.
    Hypothesis HK : wf_kripke K.
    Hypothesis Hnorm : normal p.
    Let cl := dedupf (closure p).
    Let ats := atoms K cl.
    Let T := tableau K cl ats.
    Let cs := compute_SCCs T.
    Let good := flat_map (fun C => if self_fulfilling cl ats T C then C else []) cs.

    Lemma cl_closed : closed cl.
    Proof.
      apply closed_same with (closure p).
      - intros f. symmetry. apply dedupf_In.
      - apply closure_closed. exact Hnorm.
    Qed.

    Lemma p_in_cl : In p cl.
    Proof. apply dedupf_In. apply self_in_closure. exact Hnorm. Qed.

    Lemma T_wf : wf_graph T.
    Proof. apply tableau_wf. Qed.

    Lemma cs_spec : scc_spec T cs.
    Proof. apply scc_correct. apply T_wf. Qed.

    Lemma good_spec : forall x, In x good <->
      exists C, In C cs /\ self_fulfilling cl ats T C = true /\ In x C.
    Proof.
      intros x. unfold good. rewrite in_flat_map. split; intros [C [HC H]]; exists C.
      - destruct (self_fulfilling cl ats T C). auto. destruct H.
      - destruct H as [H1 H2]. rewrite H1. auto.
    Qed.

    Lemma C_nodes : forall C x, In C cs -> In x C -> In x (nodes T).
    Proof.
      intros C x HC Hx. destruct cs_spec as [_ [Hn _]]. apply Hn.
      apply in_concat. exists C. auto.
    Qed.

    Lemma Rset_spec : forall n, In n (reach (reversed T) good) <->
      exists C c, In C cs /\ self_fulfilling cl ats T C = true /\ In c C /\ reaches T n c.
    Proof.
      intros n. destruct (reversed_spec _ T_wf) as [HwfR [HnR HeR]].
      assert (Hincl : incl good (nodes (reversed T))).
      { intros x Hx. apply good_spec in Hx. destruct Hx as [C [HC [_ Hx]]].
        apply HnR. apply (C_nodes C); auto. }
      destruct (reach_exact (reversed T) good HwfR Hincl) as [_ Hreach].
      rewrite Hreach. split.
      - intros [x [Hx Hr]]. apply good_spec in Hx. destruct Hx as [C [HC [Hsf Hx]]].
        exists C, x. repeat split; auto. apply (reaches_flip T (reversed T) HeR). exact Hr.
      - intros [C [c [HC [Hsf [Hc Hr]]]]]. exists c. split.
        + apply good_spec. exists C. auto.
        + apply (reaches_flip T (reversed T) HeR). exact Hr.
    Qed.

    Lemma check_unfold : forall s, In s (checkE_path K p) <->
      exists n, In n (reach (reversed T) good) /\ inA K cl p n /\ st_of K cl n = s.
    Proof.
      intros s.
      change (checkE_path K p) with
        (dedup (map (fun i => fst (atom_at ats i))
                    (filter (fun i => memf p (snd (atom_at ats i))) (reach (reversed T) good)))).
      rewrite dedup_In, in_map_iff. split.
      - intros [n [Hs Hn]]. apply filter_In in Hn. exists n. tauto.
      - intros [n [Hn [Hp Hs]]]. exists n. split; auto. apply filter_In. auto.
    Qed.

    (* a self-fulfilling SCC meets every acceptance set *)
    Lemma sf_meets : forall C, In C cs -> self_fulfilling cl ats T C = true ->
      forall P, In P (map (PU K cl) cl) -> exists x, In x C /\ In x P.
    Proof.
      intros C HC Hsf P HP. apply in_map_iff in HP. destruct HP as [f [<- Hf]].
      apply (self_fulfilling_spec K cl) in Hsf. destruct Hsf as [Hnt Hsf].
      assert (Hne : exists c0, In c0 C).
      { destruct C as [|v r]. discriminate Hnt. exists v. simpl; auto. }
      destruct Hne as [c0 Hc0].
      assert (Hidx : forall x, In x C -> In x (idxs ats)).
      { intros x Hx. unfold ats. rewrite <- tableau_nodes. apply (C_nodes C); auto. }
      destruct f; try (exists c0; split; [exact Hc0|apply Hidx; exact Hc0]).
      unfold PU. fold ats.
      destruct (memf (FU f1 f2) (flat_map (fun i => snd (atom_at ats i)) C)) eqn:E.
      - apply (memf_flat K cl) in E. apply (Hsf _ _ Hf) in E. destruct E as [c [Hc Hh]].
        exists c. split; auto. apply filter_In. split. apply Hidx; auto.
        unfold inA in Hh. fold ats in Hh. rewrite Hh. apply orb_true_r.
      - exists c0. split; auto. apply filter_In. split. apply Hidx; auto.
        destruct (memf (FU f1 f2) (snd (atom_at ats c0))) eqn:E0; auto.
        assert (E1 : memf (FU f1 f2) (flat_map (fun i => snd (atom_at ats i)) C) = true).
        { apply (memf_flat K cl). exists c0. split; auto. }
        congruence.
    Qed.

    Theorem checkE_path_sound : forall s, In s (checkE_path K p) ->
      In s (states K) /\ exists pi, is_path K pi /\ pi 0 = s /\ sat K pi p.
    Proof.
      intros s Hs. apply check_unfold in Hs. destruct Hs as [n [HR [Hp Hst]]].
      apply Rset_spec in HR. destruct HR as [C [c [HC [Hsf [Hc Hr]]]]].
      pose proof (inA_lt K cl _ _ Hp) as Hn.
      assert (Hnode : In n (nodes T)).
      { unfold T, ats. rewrite tableau_nodes. apply idxs_In. exact Hn. }
      pose proof (proj2 (gba T cs (map (PU K cl) cl) n T_wf cs_spec Hnode)) as Hg.
      destruct Hg as [w [Hw [Hw0 Hinf]]].
      { exists C. split; auto. split.
        - apply (self_fulfilling_spec K cl) in Hsf. tauto.
        - split. apply sf_meets; auto. exists c. auto. }
      assert (Hfair : forall g h, In (FU g h) cl ->
                forall i, exists j, i <= j /\ (~ inA K cl (FU g h) (w j) \/ inA K cl h (w j))).
      { intros g h Hf i. destruct (Hinf (PU K cl (FU g h))) with (i := i) as [j [Hj Hin]].
        - apply in_map. exact Hf.
        - exists j. split; auto. unfold PU in Hin. apply filter_In in Hin.
          destruct Hin as [_ Hin]. apply orb_true_iff in Hin. destruct Hin as [Hin|Hin].
          + left. apply negb_true_iff in Hin. unfold inA. rewrite Hin. discriminate.
          + right. exact Hin. }
      split.
      - rewrite <- Hst. apply st_of_states. exact Hn.
      - exists (wpath K cl w). split; [|split].
        + apply wpath_is_path. exact Hw.
        + unfold wpath. rewrite Hw0. exact Hst.
        + apply sat_suffix_0. apply (walk_sat K cl cl_closed w Hw Hfair p p_in_cl 0).
          rewrite Hw0. exact Hp.
    Qed.

    Theorem checkE_path_complete : forall s,
      In s (states K) -> (exists pi, is_path K pi /\ pi 0 = s /\ sat K pi p) ->
      In s (checkE_path K p).
    Proof.
      intros s Hs [pi [Hpi [H0 Hsat]]]. apply check_unfold.
      destruct (complete_core K cl HK cl_closed pi Hpi cs cs_spec)
        as [n0 [C [c [Hd [HC [Hsf [Hc Hr]]]]]]].
      exists n0. split; [|split].
      - apply Rset_spec. exists C, c. auto.
      - destruct Hd as [_ [_ Hd]]. apply (Hd p p_in_cl). apply sat_suffix_0. exact Hsat.
      - destruct Hd as [_ [Hd _]]. rewrite Hd. exact H0.
    Qed.
  End Spec.

  Theorem checkE_path_spec : forall K p, wf_kripke K -> tableau_ok p = true -> normal p ->
    forall s, In s (checkE_path K p) <->
              In s (states K) /\ exists pi, is_path K pi /\ pi 0 = s /\ sat K pi p.
  Proof.
    intros K p HK _ Hn s. split.
    - apply checkE_path_sound; auto.
    - intros [Hs Hex]. apply checkE_path_complete; auto.
  Qed.

  Theorem C02_exact : C02_stmt.
  Proof.
    intros K g HK Hl.
    exists (compl K (checkE_path K (restrict (LNot g)))). split.
    - simpl. rewrite Hl. reflexivity.
    - intros s. rewrite compl_In.
      assert (Hl' : ltl_path (LNot g) = true) by (apply LNot_ltl_path_proved; exact Hl).
      rewrite (checkE_path_spec K (restrict (LNot g)) HK
                                (normal_tableau_ok _ (restrict_normal _ Hl'))
                                (restrict_normal _ Hl') s).
      split.
      + intros [Hs Hno]. split; auto. intros pi Hpi H0.
        destruct (classic (sat K pi g)) as [Hy|Hnot]; auto.
        exfalso. apply Hno. split; auto. exists pi. split; auto. split; auto.
        apply (proj2 (restrict_sem K pi (LNot g))). apply (proj2 (LNot_sem K pi g)). exact Hnot.
      + intros [Hs Hall]. split; auto. intros [_ [pi [Hpi [H0 Hsat]]]].
        apply (proj1 (restrict_sem K pi (LNot g))) in Hsat.
        apply (proj1 (LNot_sem K pi g)) in Hsat. apply Hsat. apply Hall; auto.
  Qed.
End LTL.

Check checkE_path_sound.
Check checkE_path_complete.
Check checkE_path_spec.
Check C02_exact.
Print Assumptions checkE_path_spec.
Print Assumptions C02_exact.
