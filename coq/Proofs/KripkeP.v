(* KripkeP.v — the Kripke-structure model (Model/Kripke.v) meets its specification.
   The graph facts about [mk_graph] and [edges] are Section hypotheses
   (statements in Spec/Lemmas.v; proved in Proofs/GraphP.v by someone else). *)
From PMC Require Import Spec.Lemmas.
From Coq Require Import List Arith Bool Lia.
Import ListNotations.

(* ------------------------------------------------------------------ *)
(* boolean helpers                                                     *)
(* ------------------------------------------------------------------ *)
Lemma kp_memb_In x l : memb x l = true <-> In x l.
Proof.
  unfold memb. rewrite existsb_exists. split.
  - intros [y [Hy He]]. apply Nat.eqb_eq in He. subst; auto.
  - intros H. exists x. split; auto. apply Nat.eqb_refl.
Qed.

Lemma kp_memb_false x l : memb x l = false <-> ~ In x l.
Proof.
  rewrite <- kp_memb_In. destruct (memb x l); split; intro H; congruence.
Qed.

Lemma kp_mema_In a l : mema a l = true <-> In a l.
Proof.
  unfold mema. rewrite existsb_exists. split.
  - intros [y [Hy He]]. apply String.eqb_eq in He. subst; auto.
  - intros H. exists a. split; auto. apply String.eqb_refl.
Qed.

Lemma kp_mema_false a l : mema a l = false <-> ~ In a l.
Proof.
  rewrite <- kp_mema_In. destruct (mema a l); split; intro H; congruence.
Qed.

Lemma kp_dedupa_In a l : In a (dedupa l) <-> In a l.
Proof.
  induction l as [|x r IH]; simpl; [tauto|].
  destruct (mema x r) eqn:E; simpl; rewrite IH.
  - apply kp_mema_In in E. split; [auto|]. intros [Hx|Hr]; subst; auto.
  - tauto.
Qed.

Lemma kp_dedupa_NoDup l : NoDup (dedupa l).
Proof.
  induction l as [|x r IH]; simpl; [constructor|].
  destruct (mema x r) eqn:E; auto. constructor; auto.
  rewrite kp_dedupa_In. apply kp_mema_false; auto.
Qed.

Lemma kp_nonempty_ex {A} (l : list A) : l <> [] <-> exists d, In d l.
Proof.
  destruct l as [|x r]; split.
  - intros H; congruence.
  - intros [d []].
  - intros _. exists x; simpl; auto.
  - intros _; discriminate.
Qed.

(* ------------------------------------------------------------------ *)
(* association lists: succs / sources / lookup_lab                     *)
(* ------------------------------------------------------------------ *)
Lemma kp_succs_notin g v : ~ In v (nodes g) -> succs g v = [].
Proof.
  induction g as [|[x ds] r IH]; simpl; intros H; auto.
  destruct (Nat.eqb x v) eqn:E.
  - apply Nat.eqb_eq in E. exfalso; auto.
  - apply IH. intros Hr; auto.
Qed.

Lemma kp_succs_in_pair g v : In v (nodes g) -> In (v, succs g v) g.
Proof.
  induction g as [|[x ds] r IH]; simpl; intros H; [tauto|].
  destruct (Nat.eqb x v) eqn:E.
  - apply Nat.eqb_eq in E. subst. auto.
  - apply Nat.eqb_neq in E. destruct H as [H|H]; [congruence|]. right; auto.
Qed.

Lemma kp_in_pair_succs g v ds : NoDup (nodes g) -> In (v, ds) g -> succs g v = ds.
Proof.
  induction g as [|[x ds0] r IH]; simpl; intros Hnd H; [tauto|].
  inversion Hnd as [|x' l' Hnotin Hnd']; subst.
  destruct H as [H|H].
  - inversion H; subst. rewrite Nat.eqb_refl. reflexivity.
  - destruct (Nat.eqb x v) eqn:E.
    + apply Nat.eqb_eq in E. subst. exfalso. apply Hnotin.
      change v with (fst (v, ds)). apply in_map; auto.
    + apply IH; auto.
Qed.

Lemma kp_sources_In g v : NoDup (nodes g) -> (In v (sources g) <-> succs g v <> []).
Proof.
  intros Hnd. unfold sources. rewrite in_map_iff. split.
  - intros [[x ds] [Hfst Hin]]. simpl in Hfst. subst x.
    apply filter_In in Hin. destruct Hin as [Hin Hne]. simpl in Hne.
    rewrite (kp_in_pair_succs g v ds Hnd Hin). destruct ds; congruence.
  - intros Hne. exists (v, succs g v). split; auto.
    apply filter_In. split.
    + apply kp_succs_in_pair. destruct (in_dec Nat.eq_dec v (nodes g)) as [Hi|Hi]; auto.
      exfalso. apply Hne. apply kp_succs_notin; auto.
    + simpl. destruct (succs g v); congruence.
Qed.

Lemma kp_total_forallb g : NoDup (nodes g) ->
  (forallb (fun v => memb v (sources g)) (nodes g) = true <->
   forall v, In v (nodes g) -> succs g v <> []).
Proof.
  intros Hnd. rewrite forallb_forall. split; intros H v Hv.
  - apply kp_sources_In; auto. apply kp_memb_In; auto.
  - apply kp_memb_In. apply kp_sources_In; auto.
Qed.

Lemma kp_lookup_map (f : nat -> list atom) l s :
  In s l -> lookup_lab (map (fun v => (v, f v)) l) s = f s.
Proof.
  induction l as [|x r IH]; simpl; intros H; [tauto|].
  destruct (Nat.eqb x s) eqn:E.
  - apply Nat.eqb_eq in E. subst; auto.
  - apply Nat.eqb_neq in E. destruct H as [H|H]; [congruence|auto].
Qed.

Lemma kp_lookup_notin L s : ~ In s (map fst L) -> lookup_lab L s = [].
Proof.
  induction L as [|[x a] r IH]; simpl; intros H; auto.
  destruct (Nat.eqb x s) eqn:E.
  - apply Nat.eqb_eq in E. exfalso; auto.
  - apply IH. intros Hr; auto.
Qed.

Lemma kp_map_fst_graph (f : nat -> list atom) l : map fst (map (fun v => (v, f v)) l) = l.
Proof. rewrite map_map. simpl. apply map_id. Qed.

Lemma kp_lookup_filter (f : nat -> bool) L s :
  f s = true -> lookup_lab (filter (fun p => f (fst p)) L) s = lookup_lab L s.
Proof.
  intros Hs. induction L as [|[x a] r IH]; simpl; auto.
  destruct (f x) eqn:Ef; simpl.
  - destruct (Nat.eqb x s); auto.
  - destruct (Nat.eqb x s) eqn:E; auto.
    apply Nat.eqb_eq in E. congruence.
Qed.

(* ------------------------------------------------------------------ *)
(* 3. labels_r / knext_r                                               *)
(* ------------------------------------------------------------------ *)
Theorem labels_r_ok K s : In s (states K) -> labels_r K s = Ok (labels_of K s).
Proof. intros H. unfold labels_r. apply kp_memb_In in H. rewrite H. reflexivity. Qed.

Theorem labels_r_err K s : ~ In s (states K) -> labels_r K s = RuntimeErr.
Proof. intros H. unfold labels_r. apply kp_memb_false in H. rewrite H. reflexivity. Qed.

Theorem knext_r_ok K s : In s (states K) -> knext_r K s = Ok (succs (kg K) s).
Proof.
  intros H. unfold knext_r, next_r, has_node. apply kp_memb_In in H.
  unfold states in H. rewrite H. reflexivity.
Qed.

Theorem knext_r_err K s : ~ In s (states K) -> knext_r K s = RuntimeErr.
Proof.
  intros H. unfold knext_r, next_r, has_node. apply kp_memb_false in H.
  unfold states in H. rewrite H. reflexivity.
Qed.

(* ------------------------------------------------------------------ *)
(* the invariant of every constructed Kripke structure                 *)
(* ------------------------------------------------------------------ *)
Definition wf_K (K : kripke) : Prop :=
  wf_kripke K /\ map fst (klab K) = states K /\ (forall x, In x (kinit K) -> In x (states K)).

Lemma wf_K_labels_notin K s : wf_K K -> ~ In s (states K) -> labels_of K s = [].
Proof.
  intros (_ & Hl & _) H. unfold labels_of. apply kp_lookup_notin. rewrite Hl. auto.
Qed.

(* ------------------------------------------------------------------ *)
(* 6. add_label                                                        *)
(* ------------------------------------------------------------------ *)
Definition add_label_fn (X : list nat) (a : atom) (p : nat * list atom) : nat * list atom :=
  if memb (fst p) X && negb (mema a (snd p)) then (fst p, snd p ++ [a]) else p.

Lemma kp_add_label_fst X a p : fst (add_label_fn X a p) = fst p.
Proof. unfold add_label_fn. destruct (_ && _); reflexivity. Qed.

Lemma kp_add_label_map_fst X a L : map fst (map (add_label_fn X a) L) = map fst L.
Proof.
  rewrite map_map. apply map_ext. intros p. apply kp_add_label_fst.
Qed.

Lemma kp_add_label_lookup X a L s b :
  In b (lookup_lab (map (add_label_fn X a) L) s) <->
  In b (lookup_lab L s) \/ (b = a /\ In s X /\ In s (map fst L)).
Proof.
  induction L as [|[x l] r IH]; simpl.
  - tauto.
  - unfold add_label_fn at 1. simpl.
    destruct (Nat.eqb x s) eqn:E.
    + apply Nat.eqb_eq in E. subst x.
      destruct (memb s X) eqn:EX; simpl.
      * apply kp_memb_In in EX.
        destruct (mema a l) eqn:Ea; simpl; rewrite Nat.eqb_refl.
        -- apply kp_mema_In in Ea. split; [auto|]. intros [H|(Hb & _)]; subst; auto.
        -- rewrite in_app_iff. simpl. split.
           ++ intros [H|[H|[]]]; auto.
           ++ intros [H|(Hb & _)]; subst; auto.
      * rewrite Nat.eqb_refl. apply kp_memb_false in EX. tauto.
    + assert (Hfst : fst (if memb x X && negb (mema a l) then (x, l ++ [a]) else (x, l)) = x)
        by (destruct (_ && _); reflexivity).
      destruct (if memb x X && negb (mema a l) then (x, l ++ [a]) else (x, l)) as [x' l'].
      simpl in Hfst. subst x'. rewrite E. rewrite IH.
      apply Nat.eqb_neq in E. intuition congruence.
Qed.

Theorem add_label_spec K X a : wf_K K ->
  wf_K (add_label K X a) /\
  kg (add_label K X a) = kg K /\
  kinit (add_label K X a) = kinit K /\
  forall s b, labelled (add_label K X a) s b <->
              labelled K s b \/ (b = a /\ In s X /\ In s (states K)).
Proof.
  intros (Hwf & Hl & Hi).
  assert (Hk : klab (add_label K X a) = map (add_label_fn X a) (klab K)) by reflexivity.
  split; [|split; [reflexivity|split; [reflexivity|]]].
  - split; [exact Hwf|]. split; [|exact Hi].
    rewrite Hk, kp_add_label_map_fst. exact Hl.
  - intros s b. unfold labelled, labels_of. rewrite Hk, kp_add_label_lookup, Hl. tauto.
Qed.

(* ------------------------------------------------------------------ *)
(* 7. all_labels                                                       *)
(* ------------------------------------------------------------------ *)
Theorem all_labels_spec K a :
  In a (all_labels K) <-> exists p, In p (klab K) /\ In a (snd p).
Proof. unfold all_labels. rewrite kp_dedupa_In. apply in_flat_map. Qed.

(* under the invariant (distinct keys) this is "a labels some state" *)
Lemma kp_lookup_in_pair L s l : NoDup (map fst L) -> In (s, l) L -> lookup_lab L s = l.
Proof.
  induction L as [|[x l0] r IH]; simpl; intros Hnd H; [tauto|].
  inversion Hnd as [|x' l' Hnotin Hnd']; subst.
  destruct H as [H|H].
  - inversion H; subst. rewrite Nat.eqb_refl. reflexivity.
  - destruct (Nat.eqb x s) eqn:E.
    + apply Nat.eqb_eq in E. subst. exfalso. apply Hnotin.
      change s with (fst (s, l)). apply in_map; auto.
    + apply IH; auto.
Qed.

Lemma kp_lookup_pair_in L s : In s (map fst L) -> In (s, lookup_lab L s) L.
Proof.
  induction L as [|[x l] r IH]; simpl; intros H; [tauto|].
  destruct (Nat.eqb x s) eqn:E.
  - apply Nat.eqb_eq in E. subst. auto.
  - apply Nat.eqb_neq in E. destruct H as [H|H]; [congruence|]. right; auto.
Qed.

Theorem all_labels_labelled K a : wf_K K -> NoDup (states K) ->
  (In a (all_labels K) <-> exists s, In s (states K) /\ labelled K s a).
Proof.
  intros (_ & Hl & _) Hnd. rewrite all_labels_spec. unfold labelled, labels_of. split.
  - intros [[s l] [Hin Ha]]. simpl in Ha. exists s. split.
    + rewrite <- Hl. change s with (fst (s, l)). apply in_map; auto.
    + rewrite (kp_lookup_in_pair (klab K) s l); auto. rewrite Hl; auto.
  - intros [s [Hs Ha]]. exists (s, lookup_lab (klab K) s). split; auto.
    apply kp_lookup_pair_in. rewrite Hl; auto.
Qed.

(* ------------------------------------------------------------------ *)
(* the node ORDER of mk_graph on a closed, duplicate-free input          *)
(* (needed only for the strong form  states (clone K) = states K)       *)
(* ------------------------------------------------------------------ *)
Lemma kp_nodes_app (g h : graph) : nodes (g ++ h) = nodes g ++ nodes h.
Proof. unfold nodes. apply map_app. Qed.

Lemma kp_add_node_in g v : In v (nodes g) -> add_node g v = g.
Proof. intros H. unfold add_node, has_node. apply kp_memb_In in H. rewrite H. reflexivity. Qed.

Lemma kp_add_node_notin g v : ~ In v (nodes g) -> add_node g v = g ++ [(v, [])].
Proof. intros H. unfold add_node, has_node. apply kp_memb_false in H. rewrite H. reflexivity. Qed.

Lemma kp_nodes_add_succ_in g s d : In s (nodes g) -> nodes (add_succ g s d) = nodes g.
Proof.
  induction g as [|[x ds] r IH]; simpl; intros H; [tauto|].
  destruct (Nat.eqb x s) eqn:E; simpl; auto.
  apply Nat.eqb_neq in E. destruct H as [H|H]; [congruence|].
  f_equal. apply IH; auto.
Qed.

Lemma kp_fold_add_node V : forall g, NoDup V -> (forall v, In v V -> ~ In v (nodes g)) ->
  nodes (fold_left add_node V g) = nodes g ++ V.
Proof.
  induction V as [|v r IH]; simpl; intros g Hnd Hdis.
  - rewrite app_nil_r. reflexivity.
  - inversion Hnd as [|v' r' Hnotin Hnd']; subst.
    rewrite kp_add_node_notin by (apply Hdis; auto).
    rewrite IH; auto.
    + rewrite kp_nodes_app. simpl. rewrite <- app_assoc. reflexivity.
    + intros w Hw. rewrite kp_nodes_app. simpl. rewrite in_app_iff. simpl.
      intros [H|[H|[]]].
      * apply (Hdis w); auto.
      * subst. auto.
Qed.

Lemma kp_fold_edges E : forall g,
  (forall x y, In (x, y) E -> In x (nodes g) /\ In y (nodes g)) ->
  nodes (fold_left (fun g e => add_node (add_succ g (fst e) (snd e)) (snd e)) E g) = nodes g.
Proof.
  induction E as [|[s d] r IH]; simpl; intros g Hcl; auto.
  destruct (Hcl s d (or_introl eq_refl)) as [Hs Hd].
  assert (Hn : nodes (add_succ g s d) = nodes g) by (apply kp_nodes_add_succ_in; auto).
  rewrite kp_add_node_in by (rewrite Hn; auto).
  rewrite IH; auto. intros x y Hxy. rewrite Hn. apply Hcl; auto.
Qed.

Lemma kp_mk_graph_nodes V E : NoDup V ->
  (forall x y, In (x, y) E -> In x V /\ In y V) -> nodes (mk_graph V E) = V.
Proof.
  intros Hnd Hcl. unfold mk_graph.
  assert (H0 : nodes (fold_left add_node V []) = V).
  { rewrite kp_fold_add_node; auto. }
  rewrite kp_fold_edges; auto. rewrite H0. exact Hcl.
Qed.

(* ------------------------------------------------------------------ *)
(* constructor, clone, substructure                                    *)
(* ------------------------------------------------------------------ *)
Section Kripke.
  Hypothesis mk_graph_spec : mk_graph_spec_stmt.
  Hypothesis edges_spec : edges_spec_stmt.

  Lemma mk_kripke_cond St R :
    forallb (fun v => memb v (sources (mk_graph St R))) (nodes (mk_graph St R)) = true <->
    (forall v, (In v St \/ exists y, In (v, y) R \/ In (y, v) R) -> exists d, In (v, d) R).
  Proof.
    destruct (mk_graph_spec St R) as ((Hnd & Hsd & Hcl) & Hn & He).
    rewrite kp_total_forallb by exact Hnd. split; intros H v Hv.
    - apply Hn in Hv. apply H in Hv. apply kp_nonempty_ex in Hv.
      destruct Hv as [d Hd]. exists d. apply He. exact Hd.
    - apply Hn in Hv. apply H in Hv. destruct Hv as [d Hd].
      apply kp_nonempty_ex. exists d. apply He. exact Hd.
  Qed.

  (* 1 *)
  Theorem mk_kripke_ok_iff St St0 R L :
    (exists K, mk_kripke St St0 R L = Ok K) <->
    (forall v, (In v St \/ exists y, In (v, y) R \/ In (y, v) R) -> exists d, In (v, d) R).
  Proof.
    rewrite <- mk_kripke_cond. unfold mk_kripke.
    destruct (forallb _ _); split; auto.
    - intros _. eexists; reflexivity.
    - intros [K HK]; discriminate.
    - intros H; discriminate.
  Qed.

  Theorem mk_kripke_ok_or_err St St0 R L :
    (exists K, mk_kripke St St0 R L = Ok K) \/ mk_kripke St St0 R L = RuntimeErr.
  Proof.
    unfold mk_kripke. destruct (forallb _ _); [left; eexists; reflexivity | right; reflexivity].
  Qed.

  Theorem mk_kripke_err_iff St St0 R L :
    mk_kripke St St0 R L = RuntimeErr <->
    ~ (forall v, (In v St \/ exists y, In (v, y) R \/ In (y, v) R) -> exists d, In (v, d) R).
  Proof.
    rewrite <- (mk_kripke_ok_iff St St0 R L).
    destruct (mk_kripke_ok_or_err St St0 R L) as [[K HK]|HE].
    - rewrite HK. split; [discriminate|]. intros H. exfalso. apply H. exists K; reflexivity.
    - rewrite HE. split; auto. intros _ [K HK]; discriminate.
  Qed.

  (* 2 *)
  Theorem mk_kripke_shape St St0 R L K :
    mk_kripke St St0 R L = Ok K ->
    wf_kripke K /\
    (forall x, In x (states K) <-> In x St \/ exists y, In (x, y) R \/ In (y, x) R) /\
    (forall x y, edge (kg K) x y <-> In (x, y) R) /\
    (forall x, In x (kinit K) <-> In x St0 /\ In x (states K)) /\
    (forall s a, In s (states K) -> (labelled K s a <-> In a (lookup_lab L s))) /\
    NoDup (map fst (klab K)) /\
    map fst (klab K) = states K /\
    (forall s, NoDup (labels_of K s)).
  Proof.
    unfold mk_kripke. destruct (forallb _ _) eqn:E; [|discriminate].
    intros HK. inversion HK as [HK']. clear HK. subst K.
    destruct (mk_graph_spec St R) as (Hwf & Hn & He).
    unfold wf_kripke, total, states, labelled, labels_of. simpl.
    set (g := mk_graph St R) in *.
    assert (Hnd : NoDup (nodes g)) by (destruct Hwf as (H1 & _); exact H1).
    split; [split; [exact Hwf|]|].
    { apply kp_total_forallb; auto. }
    split; [exact Hn|]. split; [exact He|]. split.
    { intros x. rewrite filter_In, kp_memb_In. tauto. }
    split.
    { intros s a Hs. rewrite (kp_lookup_map (fun v => dedupa (lookup_lab L v))) by exact Hs.
      apply kp_dedupa_In. }
    rewrite (kp_map_fst_graph (fun v => dedupa (lookup_lab L v))).
    split; [exact Hnd|]. split; [reflexivity|].
    intros s. destruct (in_dec Nat.eq_dec s (nodes g)) as [Hi|Hi].
    - rewrite (kp_lookup_map (fun v => dedupa (lookup_lab L v))) by exact Hi.
      apply kp_dedupa_NoDup.
    - rewrite kp_lookup_notin.
      + constructor.
      + rewrite (kp_map_fst_graph (fun v => dedupa (lookup_lab L v))). exact Hi.
  Qed.

  Lemma mk_kripke_wf_K St St0 R L K : mk_kripke St St0 R L = Ok K -> wf_K K.
  Proof.
    intros H. apply mk_kripke_shape in H.
    destruct H as (Hwf & _ & _ & Hi & _ & _ & Hl & _).
    split; [exact Hwf|]. split; [exact Hl|]. intros x Hx. apply Hi in Hx. tauto.
  Qed.

  (* labels of a constructed structure, for every s (state or not) *)
  Lemma mk_kripke_labelled_all St St0 R L K :
    mk_kripke St St0 R L = Ok K ->
    forall s a, labelled K s a <-> In s (states K) /\ In a (lookup_lab L s).
  Proof.
    intros H s a. pose proof (mk_kripke_wf_K _ _ _ _ _ H) as HwfK.
    apply mk_kripke_shape in H. destruct H as (_ & _ & _ & _ & Hlab & _).
    destruct (in_dec Nat.eq_dec s (states K)) as [Hi|Hi].
    - rewrite (Hlab s a Hi). tauto.
    - unfold labelled. rewrite (wf_K_labels_notin K s HwfK Hi). simpl. tauto.
  Qed.

  (* 4 *)
  Theorem kclone_spec K : wf_K K ->
    exists K', kclone K = Ok K' /\ wf_K K' /\
      (forall x, In x (states K') <-> In x (states K)) /\
      (forall x y, edge (kg K') x y <-> edge (kg K) x y) /\
      (forall x, In x (kinit K') <-> In x (kinit K)) /\
      (forall s a, labelled K' s a <-> labelled K s a).
  Proof.
    intros HwfK. pose proof HwfK as ((Hwf & Htot) & Hl & Hi).
    pose proof Hwf as (Hnd & Hsd & Hcl).
    assert (Hends : forall x, In x (states K) \/
                (exists y, In (x, y) (edges (kg K)) \/ In (y, x) (edges (kg K))) <->
                In x (states K)).
    { intros x. split; [|auto]. intros [H|[y [H|H]]]; auto.
      - apply edges_spec in H; auto. apply Hcl in H. unfold states. tauto.
      - apply edges_spec in H; auto. apply Hcl in H. unfold states. tauto. }
    assert (Hex : exists K', kclone K = Ok K').
    { unfold kclone. apply mk_kripke_ok_iff. intros v Hv. apply Hends in Hv.
      apply Htot in Hv. apply kp_nonempty_ex in Hv. destruct Hv as [d Hd].
      exists d. apply edges_spec; auto. }
    destruct Hex as [K' HK']. exists K'. split; [exact HK'|].
    unfold kclone in HK'.
    pose proof (mk_kripke_wf_K _ _ _ _ _ HK') as HwfK'.
    pose proof (mk_kripke_labelled_all _ _ _ _ _ HK') as Hlab.
    apply mk_kripke_shape in HK'.
    destruct HK' as (_ & Hst & Hed & Hin & _).
    assert (Hst' : forall x, In x (states K') <-> In x (states K)).
    { intros x. rewrite Hst. apply Hends. }
    split; [exact HwfK'|]. split; [exact Hst'|]. split.
    { intros x y. rewrite Hed. apply edges_spec; auto. }
    split.
    { intros x. rewrite Hin, Hst'. split; [tauto|]. intros H. split; auto. }
    intros s a. rewrite Hlab, Hst'. fold (labels_of K s). fold (labelled K s a).
    split; [tauto|]. intros H. split; auto.
    destruct (in_dec Nat.eq_dec s (states K)) as [Hs|Hs]; auto.
    exfalso. unfold labelled in H. rewrite (wf_K_labels_notin K s HwfK Hs) in H. exact H.
  Qed.

  (* strong form: the clone enumerates the states in the same order *)
  Theorem kclone_states_eq K K' : wf_K K -> kclone K = Ok K' -> states K' = states K.
  Proof.
    intros ((Hwf & _) & _ & _) HK'. pose proof Hwf as (Hnd & _ & Hcl).
    unfold kclone, mk_kripke in HK'. destruct (forallb _ _); [|discriminate].
    inversion HK' as [HK'']. unfold states at 1. simpl.
    apply kp_mk_graph_nodes; auto.
    intros x y H. apply edges_spec in H; auto.
  Qed.

  (* 5 *)
  Lemma substructure_ends K V : wf_K K -> forall x,
    (In x (filter (fun v => memb v V) (states K)) \/
     exists y, In (x, y) (filter (fun e => memb (fst e) V && memb (snd e) V) (edges (kg K))) \/
               In (y, x) (filter (fun e => memb (fst e) V && memb (snd e) V) (edges (kg K)))) <->
    In x V /\ In x (states K).
  Proof.
    intros ((Hwf & _) & _ & _) x. pose proof Hwf as (_ & _ & Hcl).
    rewrite filter_In, kp_memb_In. split.
    - intros [H|[y [H|H]]]; [tauto| |];
        apply filter_In in H; destruct H as [H Hb]; simpl in Hb;
        apply andb_true_iff in Hb; destruct Hb as [Hb1 Hb2];
        apply kp_memb_In in Hb1; apply kp_memb_In in Hb2;
        apply edges_spec in H; auto; apply Hcl in H; unfold states; tauto.
    - tauto.
  Qed.

  Lemma substructure_edge K V : wf_K K -> forall x y,
    In (x, y) (filter (fun e => memb (fst e) V && memb (snd e) V) (edges (kg K))) <->
    edge (kg K) x y /\ In x V /\ In y V.
  Proof.
    intros ((Hwf & _) & _ & _) x y.
    rewrite filter_In. simpl. rewrite andb_true_iff, !kp_memb_In.
    rewrite (edges_spec (kg K) x y Hwf). tauto.
  Qed.

  Theorem substructure_ok_iff K V : wf_K K ->
    ((exists K', substructure K V = Ok K') <->
     (forall v, In v V -> In v (states K) -> exists d, In d V /\ edge (kg K) v d)).
  Proof.
    intros HwfK. unfold substructure. rewrite mk_kripke_ok_iff. split.
    - intros H v HV Hs. destruct (H v) as [d Hd].
      + apply substructure_ends; auto.
      + apply substructure_edge in Hd; auto. exists d. tauto.
    - intros H v Hv. apply substructure_ends in Hv; auto. destruct Hv as [HV Hs].
      destruct (H v HV Hs) as [d [HdV Hd]]. exists d. apply substructure_edge; auto.
  Qed.

  Theorem substructure_shape K V K' : wf_K K -> substructure K V = Ok K' ->
    wf_K K' /\
    (forall x, In x (states K') <-> In x V /\ In x (states K)) /\
    (forall x y, edge (kg K') x y <-> edge (kg K) x y /\ In x V /\ In y V) /\
    (forall s a, In s (states K') -> (labelled K' s a <-> labelled K s a)) /\
    (forall x, In x (kinit K') <-> In x (kinit K) /\ In x V).
  Proof.
    intros HwfK HK'. unfold substructure in HK'.
    pose proof (mk_kripke_wf_K _ _ _ _ _ HK') as HwfK'.
    apply mk_kripke_shape in HK'.
    destruct HK' as (_ & Hst & Hed & Hin & Hlab & _).
    assert (Hst' : forall x, In x (states K') <-> In x V /\ In x (states K)).
    { intros x. rewrite Hst. apply substructure_ends; auto. }
    split; [exact HwfK'|]. split; [exact Hst'|]. split.
    { intros x y. rewrite Hed. apply substructure_edge; auto. }
    split.
    { intros s a Hs. rewrite (Hlab s a Hs).
      rewrite (kp_lookup_filter (fun v => memb v V)).
      - reflexivity.
      - apply kp_memb_In. apply Hst' in Hs. tauto. }
    intros x. rewrite Hin, filter_In, kp_memb_In, Hst'.
    destruct HwfK as (_ & _ & Hi). split; [tauto|]. intros [H1 H2]. auto.
  Qed.

  Theorem substructure_spec K : wf_K K -> forall V,
    ((exists K', substructure K V = Ok K') <->
     (forall v, In v V -> In v (states K) -> exists d, In d V /\ edge (kg K) v d)) /\
    (forall K', substructure K V = Ok K' ->
       wf_K K' /\
       (forall x, In x (states K') <-> In x V /\ In x (states K)) /\
       (forall x y, edge (kg K') x y <-> edge (kg K) x y /\ In x V /\ In y V) /\
       (forall s a, In s (states K') -> (labelled K' s a <-> labelled K s a)) /\
       (forall x, In x (kinit K') <-> In x (kinit K) /\ In x V)) /\
    ((exists K', substructure K V = Ok K') \/ substructure K V = RuntimeErr).
  Proof.
    intros HwfK V. split; [apply substructure_ok_iff; auto|]. split.
    - intros K' HK'. apply substructure_shape; auto.
    - unfold substructure. apply mk_kripke_ok_or_err.
  Qed.

  (* outside the substructure's states nothing is labelled, so "same labels" restricted to
     V /\ states K is the whole story *)
  Corollary substructure_labelled_all K V K' : wf_K K -> substructure K V = Ok K' ->
    forall s a, labelled K' s a <-> In s V /\ labelled K s a.
  Proof.
    intros HwfK HK' s a.
    destruct (substructure_shape K V K' HwfK HK') as (HwfK' & Hst & _ & Hlab & _).
    destruct (in_dec Nat.eq_dec s (states K')) as [Hs|Hs].
    - rewrite (Hlab s a Hs). apply Hst in Hs. tauto.
    - unfold labelled at 1. rewrite (wf_K_labels_notin K' s HwfK' Hs). simpl.
      split; [tauto|]. intros [HV Hl]. apply Hs. apply Hst. split; auto.
      destruct (in_dec Nat.eq_dec s (states K)) as [Hk|Hk]; auto.
      exfalso. unfold labelled in Hl. rewrite (wf_K_labels_notin K s HwfK Hk) in Hl. exact Hl.
  Qed.
End Kripke.

(* ------------------------------------------------------------------ *)
(* 8. regression for defect D2 / fix F2                                *)
(* ------------------------------------------------------------------ *)
(* the pre-fix get_substructure took the "labels" of s from the successor map
   ({s: self._next[s] ...}); successors are rendered as strings to fit the atom type *)
Definition substructure_old (K : kripke) (V : list nat) : result kripke :=
  mk_kripke (filter (fun v => memb v V) (states K))
            (filter (fun v => memb v V) (kinit K))
            (filter (fun e => memb (fst e) V && memb (snd e) V) (edges (kg K)))
            (map (fun p => (fst p, map nat_to_string (snd p)))
                 (filter (fun p => memb (fst p) V) (kg K))).

Import String. (* only for the string literals below; nothing after this point uses list ++/length *)
Definition kp_ex_K : result kripke :=
  mk_kripke [0; 1] [0] [(0, 0); (0, 1); (1, 1)] [(0, ["p"%string]); (1, ["q"%string])].

Example substructure_keeps_labels :
  rbind kp_ex_K (fun K => rmap (fun K' => (labels_of K 0, labels_of K' 0)) (substructure K [0]))
  = Ok (["p"%string], ["p"%string]).
Proof. vm_compute. reflexivity. Qed.

Example substructure_old_loses_labels :
  rbind kp_ex_K (fun K => rmap (fun K' => (labels_of K 0, labels_of K' 0)) (substructure_old K [0]))
  = Ok (["p"%string], ["0"%string; "1"%string]).
Proof. vm_compute. reflexivity. Qed.

Print Assumptions labels_r_ok.
Print Assumptions labels_r_err.
Print Assumptions knext_r_ok.
Print Assumptions knext_r_err.
Print Assumptions add_label_spec.
Print Assumptions all_labels_spec.
Print Assumptions all_labels_labelled.
Print Assumptions mk_kripke_ok_iff.
Print Assumptions mk_kripke_ok_or_err.
Print Assumptions mk_kripke_err_iff.
Print Assumptions mk_kripke_shape.
Print Assumptions kclone_spec.
Print Assumptions kclone_states_eq.
Print Assumptions substructure_spec.
Print Assumptions substructure_labelled_all.
Print Assumptions substructure_keeps_labels.
Print Assumptions substructure_old_loses_labels.
