(* RewriteP.v — the formula rewriters of Model/Syntax.v (LNot, restrict, restrict_ctl)
   preserve the path semantics [sat] of Spec/Semantics.v and land in the restricted
   alphabets.  Only axiom: Classical_Prop.classic.

   Generally useful, exported lemmas:
     form_ind' form_height_ind height_In_lt
     sat_FOr sat_FAnd sat_FOr2 sat_ext suffix_0 suffix_suffix suffix_ext sat_suffix_suffix
     least_witness
     fequiv and its congruence lemmas fequiv_FNot, fequiv_FU, ...; LNot_elim, LNot_pres,
     LNot_height, LNot_sem, the rule lemmas rule_G, rule_F, ... *)
From Coq Require Import List Arith Bool Lia Classical_Prop.
From PMC Require Import Spec.Lemmas.
Import ListNotations.

(* ------------------------------------------------------------------ *)
(** * Induction principles for the nested inductive [form]             *)
(* ------------------------------------------------------------------ *)
Section FormInd.
  Variable P : form -> Prop.
  Hypothesis HBool : forall b, P (FBool b).
  Hypothesis HAtom : forall a, P (FAtom a).
  Hypothesis HNot : forall f, P f -> P (FNot f).
  Hypothesis HOr : forall fs, Forall P fs -> P (FOr fs).
  Hypothesis HAnd : forall fs, Forall P fs -> P (FAnd fs).
  Hypothesis HImp : forall f g, P f -> P g -> P (FImp f g).
  Hypothesis HX : forall f, P f -> P (FX f).
  Hypothesis HF : forall f, P f -> P (FF f).
  Hypothesis HG : forall f, P f -> P (FG f).
  Hypothesis HU : forall f g, P f -> P g -> P (FU f g).
  Hypothesis HR : forall f g, P f -> P g -> P (FR f g).
  Hypothesis HA : forall f, P f -> P (FA f).
  Hypothesis HE : forall f, P f -> P (FE f).

  Fixpoint form_ind' (f : form) : P f :=
    let go := fix go (l : list form) : Forall P l :=
                match l with
                | [] => Forall_nil P
                | x :: r => Forall_cons x (form_ind' x) (go r)
                end in
    match f as f0 return P f0 with
    | FBool b => HBool b
    | FAtom a => HAtom a
    | FNot g => HNot g (form_ind' g)
    | FOr fs => HOr fs (go fs)
    | FAnd fs => HAnd fs (go fs)
    | FImp g h => HImp g h (form_ind' g) (form_ind' h)
    | FX g => HX g (form_ind' g)
    | FF g => HF g (form_ind' g)
    | FG g => HG g (form_ind' g)
    | FU g h => HU g h (form_ind' g) (form_ind' h)
    | FR g h => HR g h (form_ind' g) (form_ind' h)
    | FA g => HA g (form_ind' g)
    | FE g => HE g (form_ind' g)
    end.
End FormInd.

Definition hmax (fs : list form) : nat := fold_right (fun g m => Nat.max (height g) m) 0 fs.

Lemma height_FOr fs : height (FOr fs) = S (hmax fs).
Proof. reflexivity. Qed.
Lemma height_FAnd fs : height (FAnd fs) = S (hmax fs).
Proof. reflexivity. Qed.

Lemma hmax_In g fs : In g fs -> height g <= hmax fs.
Proof.
  induction fs as [|a fs IH]; intros Hi; [destruct Hi|].
  unfold hmax in *; cbn [fold_right]. destruct Hi as [->|Hi]; [lia|].
  specialize (IH Hi). lia.
Qed.

Lemma hmax_le fs n : (forall g, In g fs -> height g <= n) -> hmax fs <= n.
Proof.
  induction fs as [|a fs IH]; intros Hb; unfold hmax in *; cbn [fold_right]; [lia|].
  assert (height a <= n) by (apply Hb; left; reflexivity).
  assert (fold_right (fun g m => Nat.max (height g) m) 0 fs <= n)
    by (apply IH; intros g Hg; apply Hb; right; exact Hg).
  lia.
Qed.

Lemma height_In_lt_Or g fs : In g fs -> height g < height (FOr fs).
Proof. intros Hi. rewrite height_FOr. pose proof (hmax_In g fs Hi). lia. Qed.
Lemma height_In_lt_And g fs : In g fs -> height g < height (FAnd fs).
Proof. intros Hi. rewrite height_FAnd. pose proof (hmax_In g fs Hi). lia. Qed.

(* strong induction on the height *)
Lemma form_height_ind (P : form -> Prop) :
  (forall f, (forall g, height g < height f -> P g) -> P f) -> forall f, P f.
Proof.
  intros Hstep.
  assert (H : forall n f, height f < n -> P f).
  { induction n as [|n IH]; intros f Hf; [lia|].
    apply Hstep. intros g Hg. apply IH. lia. }
  intros f. apply (H (S (height f))). lia.
Qed.

(* ------------------------------------------------------------------ *)
(** * Suffix algebra and basic facts about [sat]                       *)
(* ------------------------------------------------------------------ *)
Lemma suffix_0 p i : suffix p 0 i = p i.
Proof. reflexivity. Qed.

Lemma suffix_suffix p a b i : suffix (suffix p a) b i = suffix p (a + b) i.
Proof. unfold suffix. f_equal. lia. Qed.

Lemma suffix_ext p q k : (forall i, p i = q i) -> forall i, suffix p k i = suffix q k i.
Proof. intros Hpq i. unfold suffix. apply Hpq. Qed.

Lemma suffix_head p k : suffix p k 0 = p k.
Proof. unfold suffix. f_equal. lia. Qed.

Lemma is_path_suffix K p k : is_path K p -> is_path K (suffix p k).
Proof.
  intros Hp i. unfold suffix. replace (k + S i) with (S (k + i)) by lia. apply Hp.
Qed.

Lemma sat_FOr K p fs : sat K p (FOr fs) <-> exists g, In g fs /\ sat K p g.
Proof.
  cbn [sat]. induction fs as [|a fs IH]; cbn [fold_right In].
  - split; [intros [] | intros [g [[] _]]].
  - rewrite IH. split.
    + intros [Ha | [g [Hi Hg]]]; [exists a; auto | exists g; auto].
    + intros [g [[->|Hi] Hg]]; [left; exact Hg | right; exists g; auto].
Qed.

Lemma sat_FAnd K p fs : sat K p (FAnd fs) <-> forall g, In g fs -> sat K p g.
Proof.
  cbn [sat]. induction fs as [|a fs IH]; cbn [fold_right In].
  - split; [intros _ g [] | trivial].
  - rewrite IH. split.
    + intros [Ha Hr] g [<-|Hi]; auto.
    + intros Hall. split; [apply Hall; left; reflexivity | intros g Hi; apply Hall; right; exact Hi].
Qed.

Lemma sat_FOr2 K p a b : sat K p (FOr [a; b]) <-> sat K p a \/ sat K p b.
Proof. cbn [sat fold_right]. tauto. Qed.

Lemma sat_FOr_nil K p : ~ sat K p (FOr []).
Proof. cbn [sat fold_right]. tauto. Qed.

Lemma sat_FAnd_nil K p : sat K p (FAnd []).
Proof. cbn [sat fold_right]. exact I. Qed.

Lemma sat_true K p : sat K p (FBool true).
Proof. reflexivity. Qed.

Lemma sat_false K p : ~ sat K p (FBool false).
Proof. cbn [sat]. discriminate. Qed.

(* [sat] respects pointwise-equal paths (no functional extensionality) *)
Lemma sat_ext K f : forall p q, (forall i, p i = q i) -> (sat K p f <-> sat K q f).
Proof.
  induction f as [b|a|g IH|fs IH|fs IH|g h IHg IHh|g IH|g IH|g IH|g h IHg IHh|g h IHg IHh|g IH|g IH]
    using form_ind'; intros p q Hpq.
  - reflexivity.
  - cbn [sat]. rewrite (Hpq 0). reflexivity.
  - cbn [sat]. rewrite (IH p q Hpq). reflexivity.
  - rewrite !sat_FOr. rewrite Forall_forall in IH.
    split; intros [g [Hi Hg]]; exists g; (split; [exact Hi|]); apply (IH g Hi p q Hpq); exact Hg.
  - rewrite !sat_FAnd. rewrite Forall_forall in IH.
    split; intros Hall g Hi; apply (IH g Hi p q Hpq); apply Hall; exact Hi.
  - cbn [sat]. rewrite (IHg p q Hpq), (IHh p q Hpq). reflexivity.
  - cbn [sat]. apply IH. apply suffix_ext; exact Hpq.
  - cbn [sat]. split; intros [k Hk]; exists k;
      apply (IH (suffix p k) (suffix q k) (suffix_ext p q k Hpq)); exact Hk.
  - cbn [sat]. split; intros Hk k;
      apply (IH (suffix p k) (suffix q k) (suffix_ext p q k Hpq)); apply Hk.
  - cbn [sat]. split; intros [k [Hk Hj]]; exists k; split.
    + apply (IHh (suffix p k) (suffix q k) (suffix_ext p q k Hpq)); exact Hk.
    + intros j Hlt. apply (IHg (suffix p j) (suffix q j) (suffix_ext p q j Hpq)). apply Hj; exact Hlt.
    + apply (IHh (suffix p k) (suffix q k) (suffix_ext p q k Hpq)); exact Hk.
    + intros j Hlt. apply (IHg (suffix p j) (suffix q j) (suffix_ext p q j Hpq)). apply Hj; exact Hlt.
  - cbn [sat]. split; intros HR k Hj.
    + apply (IHh (suffix p k) (suffix q k) (suffix_ext p q k Hpq)). apply HR.
      intros j Hlt Hs. apply (Hj j Hlt).
      apply (IHg (suffix p j) (suffix q j) (suffix_ext p q j Hpq)). exact Hs.
    + apply (IHh (suffix p k) (suffix q k) (suffix_ext p q k Hpq)). apply HR.
      intros j Hlt Hs. apply (Hj j Hlt).
      apply (IHg (suffix p j) (suffix q j) (suffix_ext p q j Hpq)). exact Hs.
  - cbn [sat]. rewrite (Hpq 0). reflexivity.
  - cbn [sat]. rewrite (Hpq 0). reflexivity.
Qed.

Lemma sat_suffix_0 K p f : sat K (suffix p 0) f <-> sat K p f.
Proof. apply sat_ext. intros i. apply suffix_0. Qed.

Lemma sat_suffix_suffix K p a b f : sat K (suffix (suffix p a) b) f <-> sat K (suffix p (a + b)) f.
Proof. apply sat_ext. intros i. apply suffix_suffix. Qed.

(* a state formula only looks at the first state of the path *)
Lemma sat_state_head K f : ctls_state f = true ->
  forall p q, p 0 = q 0 -> (sat K p f <-> sat K q f).
Proof.
  induction f as [b|a|g IH|fs IH|fs IH|g h IHg IHh|g IH|g IH|g IH|g h IHg IHh|g h IHg IHh|g IH|g IH]
    using form_ind'; cbn [ctls_state]; intros Hs p q Hpq; try discriminate.
  - reflexivity.
  - cbn [sat]. rewrite Hpq. reflexivity.
  - cbn [sat]. rewrite (IH Hs p q Hpq). reflexivity.
  - rewrite !sat_FOr. rewrite Forall_forall in IH. rewrite forallb_forall in Hs.
    split; intros [g [Hi Hg]]; exists g; (split; [exact Hi|]); apply (IH g Hi (Hs g Hi) p q Hpq); exact Hg.
  - rewrite !sat_FAnd. rewrite Forall_forall in IH. rewrite forallb_forall in Hs.
    split; intros Hall g Hi; apply (IH g Hi (Hs g Hi) p q Hpq); apply Hall; exact Hi.
  - apply andb_true_iff in Hs. destruct Hs as [Hg Hh].
    cbn [sat]. rewrite (IHg Hg p q Hpq), (IHh Hh p q Hpq). reflexivity.
  - cbn [sat]. rewrite Hpq. reflexivity.
  - cbn [sat]. rewrite Hpq. reflexivity.
Qed.

(* ------------------------------------------------------------------ *)
(** * Least witness (classical)                                        *)
(* ------------------------------------------------------------------ *)
Lemma least_witness (P : nat -> Prop) :
  (exists n, P n) -> exists n, P n /\ forall m, m < n -> ~ P m.
Proof.
  intros [n Hn]. revert Hn.
  induction n as [n IH] using lt_wf_ind. intros Hn.
  destruct (classic (exists m, m < n /\ P m)) as [[m [Hlt Hm]] | Hno].
  - exact (IH m Hlt Hm).
  - exists n. split; [exact Hn|]. intros m Hlt Hm. apply Hno. exists m. split; assumption.
Qed.

(* ------------------------------------------------------------------ *)
(** * Pathwise dualities, stated on predicates over positions          *)
(* ------------------------------------------------------------------ *)
Section NatDualities.
  Variables G H : nat -> Prop.

  Lemma release_until_dual_nat :
    (forall k, (forall j, j < k -> ~ G j) -> H k) <->
    ~ (exists k, ~ H k /\ forall j, j < k -> ~ G j).
  Proof.
    split.
    - intros HR [k [Hk Hj]]. apply Hk. apply HR. exact Hj.
    - intros Hn k Hj. apply NNPP. intros Hk. apply Hn. exists k. split; assumption.
  Qed.

  Lemma globally_until_dual_nat :
    (forall k, G k) <-> ~ (exists k, ~ G k /\ forall j, j < k -> True).
  Proof.
    split.
    - intros HG [k [Hk _]]. apply Hk. apply HG.
    - intros Hn k. apply NNPP. intros Hk. apply Hn. exists k. split; [exact Hk | trivial].
  Qed.

  Lemma finally_globally_dual_nat : (exists k, G k) <-> ~ (forall k, ~ G k).
  Proof.
    split.
    - intros [k Hk] Hall. exact (Hall k Hk).
    - intros Hn. apply NNPP. intros Hex. apply Hn. intros k Hk. apply Hex. exists k. exact Hk.
  Qed.

  (* g U h  ==  ~ ( (~h U (~g /\ ~h))  \/  G ~h ) *)
  Lemma until_alt_nat :
    (exists k, H k /\ forall j, j < k -> G j) <->
    ~ ((exists k, ~ (G k \/ H k) /\ forall j, j < k -> ~ H j) \/ (forall k, ~ H k)).
  Proof.
    split.
    - intros [k [Hk Hj]] [[k' [Hk' Hj']] | Hall].
      + destruct (lt_eq_lt_dec k k') as [[Hlt|Heq]|Hgt].
        * exact (Hj' k Hlt Hk).
        * subst k'. apply Hk'. right. exact Hk.
        * apply Hk'. left. apply Hj. exact Hgt.
      + exact (Hall k Hk).
    - intros Hn.
      destruct (classic (exists k, H k)) as [Hex | Hnex].
      + destruct (least_witness H Hex) as [k [Hk Hleast]].
        exists k. split; [exact Hk|].
        intros j Hlt. apply NNPP. intros HGj.
        apply Hn. left. exists j. split.
        * intros [HG' | HH']; [exact (HGj HG') | exact (Hleast j Hlt HH')].
        * intros i Hi. apply Hleast. lia.
      + exfalso. apply Hn. right. intros k Hk. apply Hnex. exists k. exact Hk.
  Qed.

  (* g R h  ==  (h U (g /\ h))  \/  G h *)
  Lemma release_alt_nat :
    (forall k, (forall j, j < k -> ~ G j) -> H k) <->
    ((exists k, (G k /\ H k) /\ forall j, j < k -> H j) \/ (forall k, H k)).
  Proof.
    split.
    - intros HR.
      destruct (classic (exists k, G k)) as [Hex | Hnex].
      + destruct (least_witness G Hex) as [k [Hk Hleast]].
        left. exists k. split; [split; [exact Hk | apply HR; exact Hleast] |].
        intros j Hlt. apply HR. intros i Hi. apply Hleast. lia.
      + right. intros k. apply HR. intros j _ HGj. apply Hnex. exists j. exact HGj.
    - intros [[k0 [[HG0 HH0] Hbefore]] | Hall] k Hj.
      + destruct (lt_eq_lt_dec k k0) as [[Hlt|Heq]|Hgt].
        * apply Hbefore. exact Hlt.
        * subst k. exact HH0.
        * exfalso. exact (Hj k0 Hgt HG0).
      + apply Hall.
  Qed.
End NatDualities.

(* ------------------------------------------------------------------ *)
(** * Semantic equivalence of formulas and its congruences             *)
(* ------------------------------------------------------------------ *)
Definition fequiv (f g : form) : Prop := forall K p, sat K p f <-> sat K p g.

Lemma fequiv_refl f : fequiv f f.
Proof. intros K p. reflexivity. Qed.
Lemma fequiv_sym f g : fequiv f g -> fequiv g f.
Proof. intros H K p. symmetry. apply H. Qed.
Lemma fequiv_trans f g h : fequiv f g -> fequiv g h -> fequiv f h.
Proof. intros H1 H2 K p. rewrite (H1 K p). apply H2. Qed.

Lemma fequiv_FNot f g : fequiv f g -> fequiv (FNot f) (FNot g).
Proof. intros H K p. cbn [sat]. rewrite (H K p). reflexivity. Qed.

Lemma fequiv_FOr l1 l2 : Forall2 fequiv l1 l2 -> fequiv (FOr l1) (FOr l2).
Proof.
  intros H K p. cbn [sat].
  induction H as [|a b l1 l2 Hab Hl IH]; cbn [fold_right]; [reflexivity|].
  rewrite (Hab K p), IH. reflexivity.
Qed.

Lemma fequiv_FAnd l1 l2 : Forall2 fequiv l1 l2 -> fequiv (FAnd l1) (FAnd l2).
Proof.
  intros H K p. cbn [sat].
  induction H as [|a b l1 l2 Hab Hl IH]; cbn [fold_right]; [reflexivity|].
  rewrite (Hab K p), IH. reflexivity.
Qed.

Lemma fequiv_FOr2 a b a' b' : fequiv a a' -> fequiv b b' -> fequiv (FOr [a; b]) (FOr [a'; b']).
Proof. intros Ha Hb. apply fequiv_FOr. constructor; [exact Ha|]. constructor; [exact Hb|]. constructor. Qed.

Lemma fequiv_FImp a b a' b' : fequiv a a' -> fequiv b b' -> fequiv (FImp a b) (FImp a' b').
Proof. intros Ha Hb K p. cbn [sat]. rewrite (Ha K p), (Hb K p). reflexivity. Qed.

Lemma fequiv_FX f g : fequiv f g -> fequiv (FX f) (FX g).
Proof. intros H K p. cbn [sat]. apply H. Qed.

Lemma fequiv_FF f g : fequiv f g -> fequiv (FF f) (FF g).
Proof. intros H K p. cbn [sat]. split; intros [k Hk]; exists k; apply (H K (suffix p k)); exact Hk. Qed.

Lemma fequiv_FG f g : fequiv f g -> fequiv (FG f) (FG g).
Proof. intros H K p. cbn [sat]. split; intros Hk k; apply (H K (suffix p k)); apply Hk. Qed.

Lemma fequiv_FU a b a' b' : fequiv a a' -> fequiv b b' -> fequiv (FU a b) (FU a' b').
Proof.
  intros Ha Hb K p. cbn [sat].
  split; intros [k [Hk Hj]]; exists k; split;
    try (apply (Hb K (suffix p k)); exact Hk);
    intros j Hlt; apply (Ha K (suffix p j)); apply Hj; exact Hlt.
Qed.

Lemma fequiv_FR a b a' b' : fequiv a a' -> fequiv b b' -> fequiv (FR a b) (FR a' b').
Proof.
  intros Ha Hb K p. cbn [sat].
  split; intros HR k Hj; apply (Hb K (suffix p k)); apply HR;
    intros j Hlt Hs; apply (Hj j Hlt); apply (Ha K (suffix p j)); exact Hs.
Qed.

Lemma fequiv_FA f g : fequiv f g -> fequiv (FA f) (FA g).
Proof.
  intros H K p. cbn [sat].
  split; intros HA q Hq H0; apply (H K q); apply HA; assumption.
Qed.

Lemma fequiv_FE f g : fequiv f g -> fequiv (FE f) (FE g).
Proof.
  intros H K p. cbn [sat].
  split; intros [q [Hq [H0 Hs]]]; exists q; (split; [exact Hq | split; [exact H0|]]);
    apply (H K q); exact Hs.
Qed.

Lemma Forall2_map_same {A B} (R : B -> B -> Prop) (f g : A -> B) l :
  (forall x, In x l -> R (f x) (g x)) -> Forall2 R (map f l) (map g l).
Proof.
  induction l as [|a l IH]; intros H; cbn [map]; constructor.
  - apply H. left. reflexivity.
  - apply IH. intros x Hx. apply H. right. exact Hx.
Qed.

Lemma Forall2_map2 {A B} (R : A -> A -> Prop) (R' : B -> B -> Prop) (f g : A -> B) l1 l2 :
  (forall a b, R a b -> R' (f a) (g b)) -> Forall2 R l1 l2 -> Forall2 R' (map f l1) (map g l2).
Proof.
  intros Hfg H. induction H as [|a b l1 l2 Hab Hl IH]; cbn [map]; constructor; auto.
Qed.

(* ------------------------------------------------------------------ *)
(** * LNot                                                             *)
(* ------------------------------------------------------------------ *)
Definition not_neg (f : form) : Prop := forall g, f <> FNot g.

(* the graph of LNot as an elimination principle *)
Lemma LNot_elim (P : form -> form -> Prop) :
  (forall f, not_neg f -> P f (FNot f)) ->
  (forall f, not_neg f -> P (FNot f) f) ->
  (forall f r, P f r -> P (FNot (FNot f)) r) ->
  forall f, P f (LNot f).
Proof.
  intros H1 H2 H3.
  assert (H : forall f, P f (LNot f) /\ P (FNot f) (LNot (FNot f))).
  { induction f as [b|a|g IH|fs|fs|g _ h _|g _|g _|g _|g _ h _|g _ h _|g _|g _];
      try (split; [apply H1 | apply H2]; intros g0 E; discriminate E).
    destruct IH as [Ha Hb]. split; [exact Hb|].
    change (LNot (FNot (FNot g))) with (LNot g). apply H3. exact Ha. }
  intros f. apply H.
Qed.

Lemma LNot_sem : LNot_sem_stmt.
Proof.
  intros K p. apply (LNot_elim (fun f r => sat K p r <-> ~ sat K p f)).
  - intros f _. reflexivity.
  - intros f _. cbn [sat]. split; [tauto | apply NNPP].
  - intros f r IH. cbn [sat]. rewrite IH. tauto.
Qed.

Lemma LNot_sat K p f : sat K p (LNot f) <-> ~ sat K p f.
Proof. apply LNot_sem. Qed.

Lemma LNot_fequiv f : fequiv (LNot f) (FNot f).
Proof. intros K p. apply LNot_sat. Qed.

Lemma fequiv_LNot f g : fequiv f g -> fequiv (LNot f) (LNot g).
Proof. intros H K p. rewrite !LNot_sat. rewrite (H K p). reflexivity. Qed.

Lemma LNot_head : forall f, starts_with_two_nots (LNot f) = false.
Proof.
  apply (LNot_elim (fun _ r => starts_with_two_nots r = false)).
  - intros f Hn. destruct f; try reflexivity. exfalso. eapply Hn. reflexivity.
  - intros f Hn. destruct f; try reflexivity. exfalso. eapply Hn. reflexivity.
  - intros f r IH. exact IH.
Qed.

Lemma LNot_height f : height (LNot f) <= S (height f).
Proof.
  revert f. apply (LNot_elim (fun f r => height r <= S (height f))).
  - intros f _. cbn [height]. lia.
  - intros f _. cbn [height]. lia.
  - intros f r IH. cbn [height]. lia.
Qed.

(* every predicate that looks through negations is invariant under LNot *)
Lemma LNot_pres (Q : form -> bool) :
  (forall g, Q (FNot g) = Q g) -> forall f, Q (LNot f) = Q f.
Proof.
  intros HQ. apply (LNot_elim (fun f r => Q r = Q f)).
  - intros f _. apply HQ.
  - intros f _. symmetry. apply HQ.
  - intros f r IH. rewrite !HQ. exact IH.
Qed.

Lemma LNot_restricted f : restricted (LNot f) = restricted f.
Proof. apply LNot_pres. reflexivity. Qed.
Lemma LNot_restricted_ctl f : restricted_ctl (LNot f) = restricted_ctl f.
Proof. apply LNot_pres. reflexivity. Qed.
Lemma LNot_ctl_state f : ctl_state (LNot f) = ctl_state f.
Proof. apply LNot_pres. reflexivity. Qed.
Lemma LNot_ctls_state f : ctls_state (LNot f) = ctls_state f.
Proof. apply LNot_pres. reflexivity. Qed.
Lemma LNot_ltl_path_eq f : ltl_path (LNot f) = ltl_path f.
Proof. apply LNot_pres. reflexivity. Qed.
Lemma LNot_tableau_ok_eq f : tableau_ok (LNot f) = tableau_ok f.
Proof. apply LNot_pres. reflexivity. Qed.
Lemma LNot_pl_ok f : pl_ok (LNot f) = pl_ok f.
Proof. apply LNot_pres. reflexivity. Qed.
Lemma LNot_arity_ok f : arity_ok (LNot f) = arity_ok f.
Proof. apply LNot_pres. reflexivity. Qed.

Lemma LNot_ltl_path : forall f, ltl_path f = true -> ltl_path (LNot f) = true.
Proof. intros f H. rewrite LNot_ltl_path_eq. exact H. Qed.
Lemma LNot_tableau_ok : forall f, tableau_ok f = true -> tableau_ok (LNot f) = true.
Proof. intros f H. rewrite LNot_tableau_ok_eq. exact H. Qed.

(* LNot is an involution up to the stripping of double negations *)
Lemma LNot_not_neg f : not_neg f -> LNot f = FNot f.
Proof. intros Hn. destruct f; try reflexivity. exfalso. eapply Hn. reflexivity. Qed.

(* ------------------------------------------------------------------ *)
(** * One lemma per rewrite rule (all pathwise equivalences)           *)
(* ------------------------------------------------------------------ *)
Lemma rule_F g : fequiv (FF g) (FU (FBool true) g).
Proof.
  intros K p. cbn [sat]. split.
  - intros [k Hk]. exists k. split; [exact Hk | intros; reflexivity].
  - intros [k [Hk _]]. exists k. exact Hk.
Qed.

Lemma rule_G g : fequiv (FG g) (FNot (FU (FBool true) (LNot g))).
Proof.
  intros K p. cbn [sat]. split.
  - intros HG [k [Hk _]]. apply LNot_sat in Hk. apply Hk. apply HG.
  - intros Hn k. apply NNPP. intros Hk. apply Hn. exists k.
    split; [apply LNot_sat; exact Hk | intros; reflexivity].
Qed.

Lemma rule_R g h : fequiv (FR g h) (FNot (FU (LNot g) (LNot h))).
Proof.
  intros K p. cbn [sat]. split.
  - intros HR [k [Hk Hj]]. apply LNot_sat in Hk. apply Hk. apply HR.
    intros j Hlt. apply LNot_sat. apply Hj. exact Hlt.
  - intros Hn k Hj. apply NNPP. intros Hk. apply Hn. exists k.
    split; [apply LNot_sat; exact Hk|].
    intros j Hlt. apply LNot_sat. apply Hj. exact Hlt.
Qed.

Lemma rule_And fs : fequiv (FAnd fs) (FNot (FOr (map LNot fs))).
Proof.
  intros K p. cbn [sat]. induction fs as [|a fs IH]; cbn [map fold_right].
  - tauto.
  - rewrite LNot_sat. destruct (classic (sat K p a)); tauto.
Qed.

Lemma rule_Imp g h : fequiv (FImp g h) (FOr [LNot g; h]).
Proof. intros K p. cbn [sat fold_right]. rewrite LNot_sat. tauto. Qed.

(* A f == ~E g as soon as f == ~g pathwise *)
Lemma rule_A_gen f g : fequiv f (FNot g) -> fequiv (FA f) (FNot (FE g)).
Proof.
  intros H K p. cbn [sat]. split.
  - intros HA [q [Hq [H0 Hs]]]. specialize (HA q Hq H0). apply (H K q) in HA. exact (HA Hs).
  - intros Hn q Hq H0. apply (H K q). cbn [sat]. intros Hs. apply Hn.
    exists q. split; [exact Hq | split; [exact H0 | exact Hs]].
Qed.

Lemma fequiv_NNot g : fequiv g (FNot (LNot g)).
Proof. intros K p. cbn [sat]. rewrite LNot_sat. split; [tauto | apply NNPP]. Qed.

Lemma rule_A g : fequiv (FA g) (FNot (FE (LNot g))).
Proof. apply rule_A_gen. apply fequiv_NNot. Qed.

(* E distributes over a binary disjunction *)
Lemma rule_E_or a b : fequiv (FE (FOr [a; b])) (FOr [FE a; FE b]).
Proof.
  intros K p. cbn [sat fold_right]. split.
  - intros [q [Hq [H0 [Ha | [Hb | []]]]]].
    + left. exists q. split; [exact Hq | split; [exact H0 | exact Ha]].
    + right. left. exists q. split; [exact Hq | split; [exact H0 | exact Hb]].
  - intros [[q [Hq [H0 Ha]]] | [[q [Hq [H0 Hb]]] | []]].
    + exists q. split; [exact Hq | split; [exact H0 | left; exact Ha]].
    + exists q. split; [exact Hq | split; [exact H0 | right; left; exact Hb]].
Qed.

Lemma path_X_dual g : fequiv (FX g) (FNot (FX (LNot g))).
Proof. intros K p. cbn [sat]. rewrite LNot_sat. split; [tauto | apply NNPP]. Qed.

Lemma path_F_dual g : fequiv (FF g) (FNot (FG (LNot g))).
Proof.
  intros K p. cbn [sat]. split.
  - intros [k Hk] Hall. specialize (Hall k). apply LNot_sat in Hall. exact (Hall Hk).
  - intros Hn. apply NNPP. intros Hex. apply Hn. intros k. apply LNot_sat.
    intros Hk. apply Hex. exists k. exact Hk.
Qed.

(* g U h == ~ ( (~h U ~(g \/ h)) \/ G ~h ) *)
Lemma path_U_alt g h :
  fequiv (FU g h) (FNot (FOr [FU (LNot h) (FNot (FOr [g; h])); FG (LNot h)])).
Proof.
  intros K p. cbn [sat fold_right].
  rewrite (until_alt_nat (fun j => sat K (suffix p j) g) (fun j => sat K (suffix p j) h)).
  cbn beta. apply not_iff_compat. split.
  - intros [[k [Hk Hj]] | Hall].
    + left. exists k. split; [tauto|]. intros j Hlt. apply LNot_sat. exact (Hj j Hlt).
    + right. left. intros k. apply LNot_sat. apply Hall.
  - intros [[k [Hk Hj]] | [Hall | []]].
    + left. exists k. split; [tauto|]. intros j Hlt. apply LNot_sat. exact (Hj j Hlt).
    + right. intros k. apply LNot_sat. apply Hall.
Qed.

(* g R h == (h U (g /\ h)) \/ G h *)
Lemma path_R_alt g h :
  fequiv (FR g h) (FOr [FU h (FNot (FOr [LNot g; LNot h])); FG h]).
Proof.
  intros K p. cbn [sat fold_right].
  rewrite (release_alt_nat (fun j => sat K (suffix p j) g) (fun j => sat K (suffix p j) h)).
  cbn beta. split.
  - intros [[k [[Hg Hh] Hj]] | Hall].
    + left. exists k. split; [rewrite !LNot_sat; tauto | exact Hj].
    + right. left. exact Hall.
  - intros [[k [Hk Hj]] | [Hall | []]].
    + left. exists k. split; [|exact Hj].
      rewrite !LNot_sat in Hk. split; apply NNPP; tauto.
    + right. exact Hall.
Qed.

(* the CTL rules, on the original subformulas *)
Lemma ctl_AX g : fequiv (FA (FX g)) (FNot (EX (LNot g))).
Proof. apply rule_A_gen. apply path_X_dual. Qed.
Lemma ctl_AF g : fequiv (FA (FF g)) (FNot (EG (LNot g))).
Proof. apply rule_A_gen. apply path_F_dual. Qed.
Lemma ctl_AG g : fequiv (FA (FG g)) (FNot (EU (FBool true) (LNot g))).
Proof. apply rule_A_gen. apply rule_G. Qed.
Lemma ctl_AR g h : fequiv (FA (FR g h)) (FNot (EU (LNot g) (LNot h))).
Proof. apply rule_A_gen. apply rule_R. Qed.
Lemma ctl_AU g h :
  fequiv (FA (FU g h)) (FNot (FOr [EU (LNot h) (FNot (FOr [g; h])); EG (LNot h)])).
Proof.
  eapply fequiv_trans; [apply rule_A_gen; apply path_U_alt|].
  apply fequiv_FNot. apply rule_E_or.
Qed.
Lemma ctl_EF g : fequiv (FE (FF g)) (EU (FBool true) g).
Proof. apply fequiv_FE. apply rule_F. Qed.
Lemma ctl_ER g h :
  fequiv (FE (FR g h)) (FOr [EU h (FNot (FOr [LNot g; LNot h])); EG h]).
Proof.
  eapply fequiv_trans; [apply fequiv_FE; apply path_R_alt|]. apply rule_E_or.
Qed.

(* ------------------------------------------------------------------ *)
(** * restrict                                                         *)
(* ------------------------------------------------------------------ *)
Lemma Forall2_map_l {A} (R : A -> A -> Prop) (f : A -> A) l :
  (forall x, In x l -> R (f x) x) -> Forall2 R (map f l) l.
Proof.
  induction l as [|a l IH]; intros H; cbn [map]; constructor.
  - apply H. left. reflexivity.
  - apply IH. intros x Hx. apply H. right. exact Hx.
Qed.

Lemma restrict_fequiv f : fequiv (restrict f) f.
Proof.
  induction f as [b|a|g IH|fs IH|fs IH|g h IHg IHh|g IH|g IH|g IH|g h IHg IHh|g h IHg IHh|g IH|g IH]
    using form_ind'; cbn [restrict].
  - apply fequiv_refl.
  - apply fequiv_refl.
  - eapply fequiv_trans; [apply LNot_fequiv | apply fequiv_FNot; exact IH].
  - apply fequiv_FOr. apply Forall2_map_l. rewrite Forall_forall in IH. exact IH.
  - eapply fequiv_trans; [| apply fequiv_sym; apply rule_And].
    apply fequiv_FNot. apply fequiv_FOr. apply Forall2_map_same.
    rewrite Forall_forall in IH. intros x Hx. apply fequiv_LNot. apply IH. exact Hx.
  - eapply fequiv_trans; [| apply fequiv_sym; apply rule_Imp].
    apply fequiv_FOr2; [apply fequiv_LNot; exact IHg | exact IHh].
  - apply fequiv_FX. exact IH.
  - eapply fequiv_trans; [| apply fequiv_sym; apply rule_F].
    apply fequiv_FU; [apply fequiv_refl | exact IH].
  - eapply fequiv_trans; [| apply fequiv_sym; apply rule_G].
    apply fequiv_FNot. apply fequiv_FU; [apply fequiv_refl | apply fequiv_LNot; exact IH].
  - apply fequiv_FU; assumption.
  - eapply fequiv_trans; [| apply fequiv_sym; apply rule_R].
    apply fequiv_FNot. apply fequiv_FU; apply fequiv_LNot; assumption.
  - eapply fequiv_trans; [| apply fequiv_sym; apply rule_A].
    apply fequiv_FNot. apply fequiv_FE. apply fequiv_LNot. exact IH.
  - apply fequiv_FE. exact IH.
Qed.

Lemma restrict_sem : restrict_sem_stmt.
Proof. intros K p f. apply restrict_fequiv. Qed.

Lemma restrict_sat K p f : sat K p (restrict f) <-> sat K p f.
Proof. apply restrict_fequiv. Qed.

Lemma forallb_map_In {A B} (Q : B -> bool) (f : A -> B) l :
  (forall x, In x l -> Q (f x) = true) -> forallb Q (map f l) = true.
Proof.
  intros H. apply forallb_forall. intros y Hy. apply in_map_iff in Hy.
  destruct Hy as [x [<- Hx]]. apply H. exact Hx.
Qed.

Lemma restrict_restricted : forall f, restricted (restrict f) = true.
Proof.
  induction f as [b|a|g IH|fs IH|fs IH|g h IHg IHh|g IH|g IH|g IH|g h IHg IHh|g h IHg IHh|g IH|g IH]
    using form_ind'; cbn [restrict restricted forallb];
    rewrite ?LNot_restricted; try rewrite Forall_forall in IH;
    rewrite ?IH, ?IHg, ?IHh; try reflexivity.
  - apply forallb_map_In. exact IH.
  - apply forallb_map_In. intros x Hx. rewrite LNot_restricted. apply IH. exact Hx.
Qed.

Lemma restrict_ltl_path : forall f, ltl_path f = true -> ltl_path (restrict f) = true.
Proof.
  induction f as [b|a|g IH|fs IH|fs IH|g h IHg IHh|g IH|g IH|g IH|g h IHg IHh|g h IHg IHh|g IH|g IH]
    using form_ind'; cbn [restrict ltl_path forallb]; intros Hl;
    rewrite ?LNot_ltl_path_eq; try discriminate Hl;
    try (apply andb_true_iff in Hl; destruct Hl as [Hg Hh]);
    try rewrite Forall_forall in IH; try rewrite forallb_forall in Hl;
    rewrite ?IH, ?IHg, ?IHh by assumption; try reflexivity.
  - apply forallb_map_In. intros x Hx. apply IH; [exact Hx | apply Hl; exact Hx].
  - apply forallb_map_In. intros x Hx. rewrite LNot_ltl_path_eq. apply IH; [exact Hx | apply Hl; exact Hx].
Qed.

Lemma restrict_tableau_ok : forall f, ltl_path f = true -> tableau_ok (restrict f) = true.
Proof.
  induction f as [b|a|g IH|fs IH|fs IH|g h IHg IHh|g IH|g IH|g IH|g h IHg IHh|g h IHg IHh|g IH|g IH]
    using form_ind'; cbn [restrict ltl_path tableau_ok forallb]; intros Hl;
    rewrite ?LNot_tableau_ok_eq; try discriminate Hl;
    try (apply andb_true_iff in Hl; destruct Hl as [Hg Hh]);
    try rewrite Forall_forall in IH; try rewrite forallb_forall in Hl;
    rewrite ?IH, ?IHg, ?IHh by assumption; try reflexivity.
  - apply forallb_map_In. intros x Hx. apply IH; [exact Hx | apply Hl; exact Hx].
  - apply forallb_map_In. intros x Hx. rewrite LNot_tableau_ok_eq. apply IH; [exact Hx | apply Hl; exact Hx].
Qed.

(* restricted formulas without quantifier are exactly what the tableau accepts *)
Lemma restricted_ltl_tableau_ok f : restricted f = true -> ltl_path f = true -> tableau_ok f = true.
Proof.
  induction f as [b|a|g IH|fs IH|fs IH|g h IHg IHh|g IH|g IH|g IH|g h IHg IHh|g h IHg IHh|g IH|g IH]
    using form_ind'; cbn [restricted ltl_path tableau_ok]; intros Hr Hl;
    try discriminate; try reflexivity; auto.
  - rewrite Forall_forall in IH. rewrite forallb_forall in *.
    intros x Hx. apply IH; auto.
  - apply andb_true_iff in Hr, Hl. destruct Hr, Hl. rewrite IHg, IHh by assumption. reflexivity.
Qed.

(* ------------------------------------------------------------------ *)
(** * restrict_ctl                                                     *)
(* ------------------------------------------------------------------ *)
Fixpoint all_ctl (fs : list form) : option (list form) :=
  match fs with
  | [] => Some []
  | g :: r => omap2 cons (restrict_ctl g) (all_ctl r)
  end.

Lemma restrict_ctl_FOr fs : restrict_ctl (FOr fs) = option_map FOr (all_ctl fs).
Proof.
  reflexivity.   (* the inner [fix all] is convertible with [all_ctl] *)
Qed.

Lemma restrict_ctl_FAnd fs :
  restrict_ctl (FAnd fs) = option_map (fun l => FNot (FOr (map LNot l))) (all_ctl fs).
Proof.
  reflexivity.   (* the inner [fix all] is convertible with [all_ctl] *)
Qed.

(* what restrict_ctl_spec promises about an (input, output) pair *)
Definition rc_ok (f r : form) : Prop :=
  restricted_ctl r = true /\ ctl_state r = true /\ height r <= 3 * height f /\ fequiv r f.

Lemma Forall2_In_r {A B} (R : A -> B -> Prop) l1 l2 :
  Forall2 R l1 l2 -> forall b, In b l2 -> exists a, In a l1 /\ R a b.
Proof.
  intros H. induction H as [|x y l1 l2 Hxy Hl IH]; intros b Hb; [destruct Hb|].
  destruct Hb as [<-|Hb].
  - exists x. split; [left; reflexivity | exact Hxy].
  - destruct (IH b Hb) as [a [Ha HR]]. exists a. split; [right; exact Ha | exact HR].
Qed.

Lemma Forall2_flip_impl {A B} (R : A -> B -> Prop) (R' : B -> A -> Prop) l1 l2 :
  (forall a b, R a b -> R' b a) -> Forall2 R l1 l2 -> Forall2 R' l2 l1.
Proof. intros HRR H. induction H; constructor; auto. Qed.

Lemma all_ctl_ok fs :
  (forall g, In g fs -> exists r, restrict_ctl g = Some r /\ rc_ok g r) ->
  exists rs, all_ctl fs = Some rs /\ Forall2 rc_ok fs rs.
Proof.
  induction fs as [|a fs IH]; intros H.
  - exists []. split; [reflexivity | constructor].
  - destruct (H a (or_introl eq_refl)) as [r [Er Hr]].
    destruct IH as [rs [Ers Hrs]]; [intros g Hg; apply H; right; exact Hg|].
    exists (r :: rs). split.
    + cbn [all_ctl]. rewrite Er, Ers. reflexivity.
    + constructor; assumption.
Qed.

Ltac fe_cong :=
  repeat first [ assumption | apply fequiv_refl | apply fequiv_LNot | apply fequiv_FNot
               | apply fequiv_FE | apply fequiv_FX | apply fequiv_FG | apply fequiv_FU
               | apply fequiv_FOr2 ].

Ltac rc_height :=
  cbn [height fold_right];
  repeat match goal with
         | |- context [height (LNot ?s)] =>
             let n := fresh "n" in
             let H := fresh "H" in
             let E := fresh "E" in
             pose proof (LNot_height s) as H;
             remember (height (LNot s)) as n eqn:E; clear E
         end;
  lia.

Ltac rc_start :=
  unfold rc_ok in *;
  repeat match goal with H : _ /\ _ |- _ => destruct H end;
  unfold EX, EU, EG;
  split; [| split; [| split]];
  [ cbn [restricted_ctl forallb]; rewrite ?LNot_restricted_ctl;
    repeat match goal with H : restricted_ctl _ = true |- _ => rewrite H end; reflexivity
  | cbn [ctl_state forallb]; rewrite ?LNot_ctl_state;
    repeat match goal with H : ctl_state _ = true |- _ => rewrite H end; reflexivity
  | rc_height
  | ].

Lemma ok_Bool b : rc_ok (FBool b) (FBool b).
Proof. rc_start. apply fequiv_refl. Qed.
Lemma ok_Atom a : rc_ok (FAtom a) (FAtom a).
Proof. rc_start. apply fequiv_refl. Qed.

Lemma ok_Not g s : rc_ok g s -> rc_ok (FNot g) (LNot s).
Proof.
  intros Hs. rc_start.
  eapply fequiv_trans; [apply LNot_fequiv | apply fequiv_FNot; assumption].
Qed.

Lemma ok_Imp g h s0 s1 : rc_ok g s0 -> rc_ok h s1 -> rc_ok (FImp g h) (FOr [LNot s0; s1]).
Proof.
  intros H0 H1. rc_start.
  eapply fequiv_trans; [| apply fequiv_sym; apply rule_Imp]. fe_cong.
Qed.

Lemma ok_Or fs rs : Forall2 rc_ok fs rs -> rc_ok (FOr fs) (FOr rs).
Proof.
  intros H. pose proof (Forall2_In_r _ _ _ H) as Hin.
  split; [| split; [| split]].
  - cbn [restricted_ctl]. apply forallb_forall. intros r Hr.
    destruct (Hin r Hr) as [f [_ Hok]]. apply Hok.
  - cbn [ctl_state]. apply forallb_forall. intros r Hr.
    destruct (Hin r Hr) as [f [_ Hok]]. apply Hok.
  - rewrite !height_FOr.
    assert (hmax rs <= 3 * hmax fs); [|lia].
    apply hmax_le. intros r Hr. destruct (Hin r Hr) as [f [Hf (_ & _ & Hh & _)]].
    pose proof (hmax_In f fs Hf). lia.
  - apply fequiv_FOr. apply (Forall2_flip_impl rc_ok); [|exact H].
    intros a b Hab. apply Hab.
Qed.

Lemma ok_And fs rs : Forall2 rc_ok fs rs -> rc_ok (FAnd fs) (FNot (FOr (map LNot rs))).
Proof.
  intros H. pose proof (Forall2_In_r _ _ _ H) as Hin.
  split; [| split; [| split]].
  - cbn [restricted_ctl]. apply forallb_map_In. intros r Hr. rewrite LNot_restricted_ctl.
    destruct (Hin r Hr) as [f [_ Hok]]. apply Hok.
  - cbn [ctl_state]. apply forallb_map_In. intros r Hr. rewrite LNot_ctl_state.
    destruct (Hin r Hr) as [f [_ Hok]]. apply Hok.
  - rewrite height_FAnd. cbn [height]. fold (hmax (map LNot rs)).
    assert (hmax (map LNot rs) <= S (3 * hmax fs)); [|lia].
    apply hmax_le. intros x Hx. apply in_map_iff in Hx. destruct Hx as [r [<- Hr]].
    destruct (Hin r Hr) as [f [Hf (_ & _ & Hh & _)]].
    pose proof (hmax_In f fs Hf). pose proof (LNot_height r). lia.
  - eapply fequiv_trans; [| apply fequiv_sym; apply rule_And].
    apply fequiv_FNot. apply fequiv_FOr.
    apply (Forall2_map2 (fun r f => rc_ok f r)).
    + intros a b Hab. apply fequiv_LNot. apply Hab.
    + apply (Forall2_flip_impl rc_ok); [|exact H]. intros a b Hab. exact Hab.
Qed.

Lemma ok_AX g s0 : rc_ok g s0 -> rc_ok (FA (FX g)) (FNot (EX (LNot s0))).
Proof.
  intros H0. rc_start.
  eapply fequiv_trans; [| apply fequiv_sym; apply ctl_AX]. unfold EX. fe_cong.
Qed.
Lemma ok_AF g s0 : rc_ok g s0 -> rc_ok (FA (FF g)) (FNot (EG (LNot s0))).
Proof.
  intros H0. rc_start.
  eapply fequiv_trans; [| apply fequiv_sym; apply ctl_AF]. unfold EG. fe_cong.
Qed.
Lemma ok_AG g s0 : rc_ok g s0 -> rc_ok (FA (FG g)) (FNot (EU (FBool true) (LNot s0))).
Proof.
  intros H0. rc_start.
  eapply fequiv_trans; [| apply fequiv_sym; apply ctl_AG]. unfold EU. fe_cong.
Qed.
Lemma ok_AU g h s0 s1 : rc_ok g s0 -> rc_ok h s1 ->
  rc_ok (FA (FU g h)) (FNot (FOr [EU (LNot s1) (FNot (FOr [s0; s1])); EG (LNot s1)])).
Proof.
  intros H0 H1. rc_start.
  eapply fequiv_trans; [| apply fequiv_sym; apply ctl_AU]. unfold EU, EG. fe_cong.
Qed.
Lemma ok_AR g h s0 s1 : rc_ok g s0 -> rc_ok h s1 ->
  rc_ok (FA (FR g h)) (FNot (EU (LNot s0) (LNot s1))).
Proof.
  intros H0 H1. rc_start.
  eapply fequiv_trans; [| apply fequiv_sym; apply ctl_AR]. unfold EU. fe_cong.
Qed.
Lemma ok_EX g s0 : rc_ok g s0 -> rc_ok (FE (FX g)) (EX s0).
Proof. intros H0. rc_start. fe_cong. Qed.
Lemma ok_EF g s0 : rc_ok g s0 -> rc_ok (FE (FF g)) (EU (FBool true) s0).
Proof.
  intros H0. rc_start.
  eapply fequiv_trans; [| apply fequiv_sym; apply ctl_EF]. unfold EU. fe_cong.
Qed.
Lemma ok_EG g s0 : rc_ok g s0 -> rc_ok (FE (FG g)) (EG s0).
Proof. intros H0. rc_start. fe_cong. Qed.
Lemma ok_EU g h s0 s1 : rc_ok g s0 -> rc_ok h s1 -> rc_ok (FE (FU g h)) (EU s0 s1).
Proof. intros H0 H1. rc_start. fe_cong. Qed.
Lemma ok_ER g h s0 s1 : rc_ok g s0 -> rc_ok h s1 ->
  rc_ok (FE (FR g h)) (FOr [EU s1 (FNot (FOr [LNot s0; LNot s1])); EG s1]).
Proof.
  intros H0 H1. rc_start.
  eapply fequiv_trans; [| apply fequiv_sym; apply ctl_ER]. unfold EU, EG. fe_cong.
Qed.

Lemma restrict_ctl_ok : forall f, ctl_state f = true ->
  exists r, restrict_ctl f = Some r /\ rc_ok f r.
Proof.
  apply (form_height_ind
           (fun f => ctl_state f = true -> exists r, restrict_ctl f = Some r /\ rc_ok f r)).
  intros f IH Hc.
  destruct f as [b|a|g|fs|fs|g h|g|g|g|g h|g h|q|q]; cbn [ctl_state] in Hc; try discriminate Hc.
  - exists (FBool b). split; [reflexivity | apply ok_Bool].
  - exists (FAtom a). split; [reflexivity | apply ok_Atom].
  - destruct (IH g ltac:(cbn [height]; lia) Hc) as [s [Es Hs]].
    exists (LNot s). split; [cbn [restrict_ctl]; rewrite Es; reflexivity | apply ok_Not; exact Hs].
  - rewrite forallb_forall in Hc.
    destruct (all_ctl_ok fs) as [rs [Ers Hrs]].
    { intros g Hg. apply IH; [apply height_In_lt_Or; exact Hg | apply Hc; exact Hg]. }
    exists (FOr rs). split; [rewrite restrict_ctl_FOr, Ers; reflexivity | apply ok_Or; exact Hrs].
  - rewrite forallb_forall in Hc.
    destruct (all_ctl_ok fs) as [rs [Ers Hrs]].
    { intros g Hg. apply IH; [apply height_In_lt_And; exact Hg | apply Hc; exact Hg]. }
    exists (FNot (FOr (map LNot rs))).
    split; [rewrite restrict_ctl_FAnd, Ers; reflexivity | apply ok_And; exact Hrs].
  - apply andb_true_iff in Hc. destruct Hc as [Hg Hh].
    destruct (IH g ltac:(cbn [height]; lia) Hg) as [s0 [E0 H0]].
    destruct (IH h ltac:(cbn [height]; lia) Hh) as [s1 [E1 H1]].
    eexists. split; [cbn [restrict_ctl]; rewrite E0, E1; reflexivity | apply ok_Imp; assumption].
  - (* FA q *)
    destruct q as [b|a|g|fs|fs|g h|g|g|g|g h|g h|q|q]; try discriminate Hc.
    + destruct (IH g ltac:(cbn [height]; lia) Hc) as [s0 [E0 H0]].
      eexists. split; [cbn [restrict_ctl]; rewrite E0; reflexivity | apply ok_AX; assumption].
    + destruct (IH g ltac:(cbn [height]; lia) Hc) as [s0 [E0 H0]].
      eexists. split; [cbn [restrict_ctl]; rewrite E0; reflexivity | apply ok_AF; assumption].
    + destruct (IH g ltac:(cbn [height]; lia) Hc) as [s0 [E0 H0]].
      eexists. split; [cbn [restrict_ctl]; rewrite E0; reflexivity | apply ok_AG; assumption].
    + apply andb_true_iff in Hc. destruct Hc as [Hg Hh].
      destruct (IH g ltac:(cbn [height]; lia) Hg) as [s0 [E0 H0]].
      destruct (IH h ltac:(cbn [height]; lia) Hh) as [s1 [E1 H1]].
      eexists. split; [cbn [restrict_ctl]; rewrite E0, E1; reflexivity | apply ok_AU; assumption].
    + apply andb_true_iff in Hc. destruct Hc as [Hg Hh].
      destruct (IH g ltac:(cbn [height]; lia) Hg) as [s0 [E0 H0]].
      destruct (IH h ltac:(cbn [height]; lia) Hh) as [s1 [E1 H1]].
      eexists. split; [cbn [restrict_ctl]; rewrite E0, E1; reflexivity | apply ok_AR; assumption].
  - (* FE q *)
    destruct q as [b|a|g|fs|fs|g h|g|g|g|g h|g h|q|q]; try discriminate Hc.
    + destruct (IH g ltac:(cbn [height]; lia) Hc) as [s0 [E0 H0]].
      eexists. split; [cbn [restrict_ctl]; rewrite E0; reflexivity | apply ok_EX; assumption].
    + destruct (IH g ltac:(cbn [height]; lia) Hc) as [s0 [E0 H0]].
      eexists. split; [cbn [restrict_ctl]; rewrite E0; reflexivity | apply ok_EF; assumption].
    + destruct (IH g ltac:(cbn [height]; lia) Hc) as [s0 [E0 H0]].
      eexists. split; [cbn [restrict_ctl]; rewrite E0; reflexivity | apply ok_EG; assumption].
    + apply andb_true_iff in Hc. destruct Hc as [Hg Hh].
      destruct (IH g ltac:(cbn [height]; lia) Hg) as [s0 [E0 H0]].
      destruct (IH h ltac:(cbn [height]; lia) Hh) as [s1 [E1 H1]].
      eexists. split; [cbn [restrict_ctl]; rewrite E0, E1; reflexivity | apply ok_EU; assumption].
    + apply andb_true_iff in Hc. destruct Hc as [Hg Hh].
      destruct (IH g ltac:(cbn [height]; lia) Hg) as [s0 [E0 H0]].
      destruct (IH h ltac:(cbn [height]; lia) Hh) as [s1 [E1 H1]].
      eexists. split; [cbn [restrict_ctl]; rewrite E0, E1; reflexivity | apply ok_ER; assumption].
Qed.

Lemma restrict_ctl_spec : restrict_ctl_spec_stmt.
Proof.
  intros f Hc. destruct (restrict_ctl_ok f Hc) as [r [Er (Hr & Hs & Hh & He)]].
  exists r. repeat split; try assumption; apply He.
Qed.

(* restrict_ctl fails exactly outside the CTL state formulas *)
Lemma all_ctl_none fs :
  (forall g, In g fs -> ctl_state g = false -> restrict_ctl g = None) ->
  forallb ctl_state fs = false -> all_ctl fs = None.
Proof.
  induction fs as [|a fs IH]; cbn [forallb all_ctl]; intros H Hf; [discriminate Hf|].
  apply andb_false_iff in Hf. destruct Hf as [Ha|Hr].
  - rewrite (H a (or_introl eq_refl) Ha). reflexivity.
  - rewrite IH; [destruct (restrict_ctl a); reflexivity | | exact Hr].
    intros g Hg. apply H. right. exact Hg.
Qed.

Ltac none_un IH g Hc :=
  cbn [restrict_ctl]; rewrite (IH g ltac:(cbn [height]; lia) Hc); reflexivity.
Ltac none_bin IH g h Hc :=
  apply andb_false_iff in Hc; cbn [restrict_ctl]; destruct Hc as [Hc|Hc];
  [ rewrite (IH g ltac:(cbn [height]; lia) Hc)
  | rewrite (IH h ltac:(cbn [height]; lia) Hc); destruct (restrict_ctl g) ];
  reflexivity.

Lemma restrict_ctl_none : forall f, ctl_state f = false -> restrict_ctl f = None.
Proof.
  apply (form_height_ind (fun f => ctl_state f = false -> restrict_ctl f = None)).
  intros f IH Hc.
  destruct f as [b|a|g|fs|fs|g h|g|g|g|g h|g h|q|q]; cbn [ctl_state] in Hc;
    try discriminate Hc; try reflexivity.
  - none_un IH g Hc.
  - rewrite restrict_ctl_FOr, all_ctl_none; [reflexivity | | exact Hc].
    intros g Hg. apply IH. apply height_In_lt_Or. exact Hg.
  - rewrite restrict_ctl_FAnd, all_ctl_none; [reflexivity | | exact Hc].
    intros g Hg. apply IH. apply height_In_lt_And. exact Hg.
  - none_bin IH g h Hc.
  - destruct q as [b|a|g|fs|fs|g h|g|g|g|g h|g h|q|q]; try reflexivity.
    + none_un IH g Hc.
    + none_un IH g Hc.
    + none_un IH g Hc.
    + none_bin IH g h Hc.
    + none_bin IH g h Hc.
  - destruct q as [b|a|g|fs|fs|g h|g|g|g|g h|g h|q|q]; try reflexivity.
    + none_un IH g Hc.
    + none_un IH g Hc.
    + none_un IH g Hc.
    + none_bin IH g h Hc.
    + none_bin IH g h Hc.
Qed.

Lemma restrict_ctl_Some_iff f : (exists r, restrict_ctl f = Some r) <-> ctl_state f = true.
Proof.
  split.
  - intros [r Er]. destruct (ctl_state f) eqn:E; [reflexivity|].
    rewrite (restrict_ctl_none f E) in Er. discriminate Er.
  - intros Hc. destruct (restrict_ctl_ok f Hc) as [r [Er _]]. exists r. exact Er.
Qed.

(* restricted CTL formulas are CTL state formulas of the restricted CTL* alphabet plus G *)
Lemma restricted_ctl_ctl_state f : restricted_ctl f = true -> ctl_state f = true.
Proof.
  revert f.
  apply (form_height_ind (fun f => restricted_ctl f = true -> ctl_state f = true)).
  intros f IH Hr.
  destruct f as [b|a|g|fs|fs|g h|g|g|g|g h|g h|q|q]; cbn [restricted_ctl] in Hr;
    try discriminate Hr; cbn [ctl_state]; try reflexivity.
  - apply IH; [cbn [height]; lia | exact Hr].
  - rewrite forallb_forall in *. intros g Hg.
    apply IH; [apply height_In_lt_Or; exact Hg | apply Hr; exact Hg].
  - destruct q as [b|a|g|fs|fs|g h|g|g|g|g h|g h|q|q]; try discriminate Hr.
    + apply IH; [cbn [height]; lia | exact Hr].
    + apply IH; [cbn [height]; lia | exact Hr].
    + apply andb_true_iff in Hr. destruct Hr as [Hg Hh].
      rewrite (IH g ltac:(cbn [height]; lia) Hg), (IH h ltac:(cbn [height]; lia) Hh). reflexivity.
Qed.

Print Assumptions LNot_sem.
Print Assumptions LNot_head.
Print Assumptions restrict_sem.
Print Assumptions restrict_restricted.
Print Assumptions restrict_ctl_spec.
Print Assumptions restrict_ltl_path.
Print Assumptions LNot_ltl_path.
Print Assumptions restrict_tableau_ok.
Print Assumptions LNot_tableau_ok.
Print Assumptions restrict_ctl_none.
Print Assumptions sat_ext.
