(* CTLP.v — the CTL labelling model checker (Model/CTLmc.v) is exact w.r.t. the path
   semantics of Spec/Semantics.v  (theorem C01).
   Graph-level facts are used as Section hypotheses (statements in Spec/Lemmas.v). *)
From PMC Require Import Spec.Lemmas.
From Coq Require Import Lia.

(* ------------------------------------------------------------------ *)
(* basic list / boolean helpers (duplicated locally on purpose)        *)
(* ------------------------------------------------------------------ *)
Lemma memb_In x l : memb x l = true <-> In x l.
Proof.
  unfold memb. rewrite existsb_exists. split.
  - intros [y [Hy E]]. apply Nat.eqb_eq in E. subst. exact Hy.
  - intros H. exists x. split; [exact H | apply Nat.eqb_refl].
Qed.

Lemma memb_false x l : memb x l = false <-> ~ In x l.
Proof. rewrite <- memb_In. destruct (memb x l); intuition congruence. Qed.

Lemma mema_In x l : mema x l = true <-> In x l.
Proof.
  unfold mema. rewrite existsb_exists. split.
  - intros [y [Hy E]]. apply String.eqb_eq in E. subst. exact Hy.
  - intros H. exists x. split; [exact H | apply String.eqb_refl].
Qed.

Lemma dedup_In x l : In x (dedup l) <-> In x l.
Proof.
  induction l as [|a l IH]; simpl; [tauto|].
  destruct (memb a l) eqn:E; simpl; rewrite IH.
  - apply memb_In in E. split; [auto|]. intros [H|H]; [subst; exact E | exact H].
  - tauto.
Qed.

Lemma dedup_NoDup l : NoDup (dedup l).
Proof.
  induction l as [|a l IH]; simpl; [constructor|].
  destruct (memb a l) eqn:E; [exact IH|].
  constructor; [|exact IH]. rewrite dedup_In. apply memb_false. exact E.
Qed.

Lemma rbind_Ok {A B} (a : A) (k : A -> result B) : rbind (Ok a) k = k a.
Proof. reflexivity. Qed.

(* ------------------------------------------------------------------ *)
(* graphs                                                              *)
(* ------------------------------------------------------------------ *)
Lemma succs_not_node g v : ~ In v (nodes g) -> succs g v = [].
Proof.
  induction g as [|[x ds] g IH]; simpl; intros H; [reflexivity|].
  destruct (Nat.eqb x v) eqn:E.
  - apply Nat.eqb_eq in E. exfalso. apply H. left. exact E.
  - apply IH. intros H'. apply H. right. exact H'.
Qed.

Lemma reaches_step_l g x y z : edge g x y -> reaches g y z -> reaches g x z.
Proof.
  intros E R. induction R as [y | y a b R IH Eab].
  - eapply r_step; [apply r_refl | exact E].
  - eapply r_step; [exact (IH E) | exact Eab].
Qed.

Lemma reaches_flip g g' :
  (forall x y, edge g' x y <-> edge g y x) ->
  forall x y, reaches g' x y -> reaches g y x.
Proof.
  intros HE x y R. induction R as [x | x a b R IH Eab].
  - apply r_refl.
  - apply HE in Eab. eapply reaches_step_l; eassumption.
Qed.

Lemma reaches_nodes g a b : wf_graph g -> reaches g a b -> In a (nodes g) -> In b (nodes g).
Proof.
  intros [_ [_ W]] R Ha. induction R as [x | x y z R IH E]; [exact Ha|].
  apply W in E. tauto.
Qed.

(* ------------------------------------------------------------------ *)
(* paths                                                               *)
(* ------------------------------------------------------------------ *)
Fixpoint fpath (K : kripke) (s : nat) (i : nat) : nat :=
  match i with 0 => s | S j => hd 0 (succs (kg K) (fpath K s j)) end.

Lemma fpath_step K x : wf_kripke K -> In x (states K) ->
  edge (kg K) x (hd 0 (succs (kg K) x)).
Proof.
  intros [_ T] Hx. specialize (T x Hx). unfold edge.
  destruct (succs (kg K) x) as [|y l]; [congruence|]. simpl. left. reflexivity.
Qed.

Lemma fpath_states K s : wf_kripke K -> In s (states K) -> forall i, In (fpath K s i) (states K).
Proof.
  intros W Hs i. induction i as [|i IH]; simpl; [exact Hs|].
  pose proof (fpath_step K _ W IH) as E.
  destruct W as [[_ [_ Wg]] _]. apply Wg in E. apply E.
Qed.

Lemma fpath_is_path K s : wf_kripke K -> In s (states K) -> is_path K (fpath K s).
Proof.
  intros W Hs i. simpl. apply fpath_step; [exact W|]. apply fpath_states; assumption.
Qed.

Lemma exists_path K s : wf_kripke K -> In s (states K) -> exists p, is_path K p /\ p 0 = s.
Proof.
  intros W Hs. exists (fpath K s). split; [apply fpath_is_path; assumption | reflexivity].
Qed.

Lemma path_states K p : wf_graph (kg K) -> is_path K p -> forall i, In (p i) (states K).
Proof. intros [_ [_ W]] Hp i. specialize (Hp i). apply W in Hp. apply Hp. Qed.

Definition pcons (s : nat) (p : path) : path := fun i => match i with 0 => s | S j => p j end.

Lemma pcons_is_path K s p : is_path K p -> edge (kg K) s (p 0) -> is_path K (pcons s p).
Proof. intros Hp E i. destruct i as [|i]; simpl; [exact E | apply Hp]. Qed.

Lemma suffix_is_path K p k : is_path K p -> is_path K (suffix p k).
Proof.
  intros Hp i. unfold suffix. replace (k + S i) with (S (k + i)) by lia. apply Hp.
Qed.

Lemma suffix_0 (p : path) k : suffix p k 0 = p k.
Proof. unfold suffix. f_equal. lia. Qed.

(* ------------------------------------------------------------------ *)
(* nested induction principle for formulas                             *)
(* ------------------------------------------------------------------ *)
Section FormInd.
  Variable P : form -> Prop.
  Hypothesis HBool : forall b, P (FBool b).
  Hypothesis HAtom : forall a, P (FAtom a).
  Hypothesis HNot : forall f, P f -> P (FNot f).
  Hypothesis HOr : forall fs, Forall P fs -> P (FOr fs).
  Hypothesis HAnd : forall fs, Forall P fs -> P (FAnd fs).
  Hypothesis HImp : forall f g, P f -> P g -> P (FImp f g).
  Hypothesis HX : forall f, P f -> P (FX f).
  Hypothesis HF : forall f, P f -> P (FF f).
  Hypothesis HG : forall f, P f -> P (FG f).
  Hypothesis HU : forall f g, P f -> P g -> P (FU f g).
  Hypothesis HR : forall f g, P f -> P g -> P (FR f g).
  Hypothesis HA : forall f, P f -> P (FA f).
  Hypothesis HE : forall f, P f -> P (FE f).
  Fixpoint form_ind' (f : form) : P f :=
    let fix go (l : list form) : Forall P l :=
        match l with
        | [] => Forall_nil P
        | x :: r => Forall_cons x (form_ind' x) (go r)
        end in
    match f with
    | FBool b => HBool b
    | FAtom a => HAtom a
    | FNot g => HNot g (form_ind' g)
    | FOr fs => HOr fs (go fs)
    | FAnd fs => HAnd fs (go fs)
    | FImp g h => HImp g h (form_ind' g) (form_ind' h)
    | FX g => HX g (form_ind' g)
    | FF g => HF g (form_ind' g)
    | FG g => HG g (form_ind' g)
    | FU g h => HU g h (form_ind' g) (form_ind' h)
    | FR g h => HR g h (form_ind' g) (form_ind' h)
    | FA g => HA g (form_ind' g)
    | FE g => HE g (form_ind' g)
    end.
End FormInd.

(* ------------------------------------------------------------------ *)
(* semantics of state formulas                                         *)
(* ------------------------------------------------------------------ *)
Lemma sat_or K p fs : sat K p (FOr fs) <-> exists g, In g fs /\ sat K p g.
Proof.
  induction fs as [|a fs IH].
  - simpl. split; [tauto | intros [g [[] _]]].
  - change (sat K p (FOr (a :: fs))) with (sat K p a \/ sat K p (FOr fs)).
    rewrite IH. split.
    + intros [H | [g [Hg H]]]; [exists a; simpl; auto | exists g; simpl; auto].
    + intros [g [[E | Hg] H]]; [subst; auto | right; exists g; auto].
Qed.

Lemma sat_and K p fs : sat K p (FAnd fs) <-> forall g, In g fs -> sat K p g.
Proof.
  induction fs as [|a fs IH].
  - simpl. split; [intros _ g [] | auto].
  - change (sat K p (FAnd (a :: fs))) with (sat K p a /\ sat K p (FAnd fs)).
    rewrite IH. split.
    + intros [Ha H] g [E | Hg]; [subst; exact Ha | apply H; exact Hg].
    + intros H. split; [apply H; simpl; auto | intros g Hg; apply H; simpl; auto].
Qed.

Lemma sat_state_indep K f : forall p q,
  ctl_state f = true -> p 0 = q 0 -> (sat K p f <-> sat K q f).
Proof.
  induction f as [b | a | f IH | fs IH | fs IH | f g IHf IHg | f _ | f _ | f _
                  | f g _ _ | f g _ _ | f _ | f _] using form_ind';
    intros p q C E; try discriminate C.
  - simpl. tauto.
  - simpl. unfold labelled. rewrite E. tauto.
  - simpl in C. simpl. rewrite (IH p q C E). tauto.
  - simpl in C. rewrite !sat_or. rewrite forallb_forall in C. rewrite Forall_forall in IH.
    split; intros [g [Hg H]]; exists g; (split; [exact Hg|]).
    + apply (IH g Hg p q); auto.
    + apply (IH g Hg p q); auto.
  - simpl in C. rewrite !sat_and. rewrite forallb_forall in C. rewrite Forall_forall in IH.
    split; intros H g Hg; specialize (H g Hg).
    + apply (IH g Hg p q); auto.
    + apply (IH g Hg p q); auto.
  - simpl in C. apply andb_prop in C. destruct C as [C1 C2]. simpl.
    rewrite (IHf p q C1 E), (IHg p q C2 E). tauto.
  - simpl. rewrite E. tauto.
  - simpl. rewrite E. tauto.
Qed.

Lemma holds_sat K f p : ctl_state f = true -> is_path K p -> (holds K (p 0) f <-> sat K p f).
Proof.
  intros C Hp. split.
  - intros [q [Hq [E H]]]. apply (sat_state_indep K f q p C E). exact H.
  - intros H. exists p. auto.
Qed.

Lemma holds_suffix K f p k : ctl_state f = true -> is_path K p ->
  (sat K (suffix p k) f <-> holds K (p k) f).
Proof.
  intros C Hp. rewrite <- (suffix_0 p k). symmetry. apply holds_sat; [exact C|].
  apply suffix_is_path. exact Hp.
Qed.

(* ------------------------------------------------------------------ *)
(* [holds] for each directly handled operator                          *)
(* ------------------------------------------------------------------ *)
Lemma holds_states K s f : wf_graph (kg K) -> holds K s f -> In s (states K).
Proof. intros W [p [Hp [E _]]]. rewrite <- E. apply path_states; assumption. Qed.

Lemma holds_true K s : wf_kripke K -> In s (states K) -> holds K s (FBool true).
Proof.
  intros W Hs. destruct (exists_path K s W Hs) as [p [Hp E]].
  exists p. simpl. auto.
Qed.

Lemma holds_false K s : ~ holds K s (FBool false).
Proof. intros [p [_ [_ H]]]. simpl in H. discriminate H. Qed.

Lemma holds_atom K s a : wf_kripke K -> In s (states K) ->
  (holds K s (FAtom a) <-> In a (labels_of K s)).
Proof.
  intros W Hs. split.
  - intros [p [_ [E H]]]. simpl in H. unfold labelled in H. rewrite E in H. exact H.
  - intros H. destruct (exists_path K s W Hs) as [p [Hp E]].
    exists p. simpl. unfold labelled. rewrite E. auto.
Qed.

Lemma holds_not K s g : wf_kripke K -> In s (states K) -> ctl_state g = true ->
  (holds K s (FNot g) <-> ~ holds K s g).
Proof.
  intros W Hs C. split.
  - intros [p [Hp [E H]]] Hg. simpl in H. apply H. apply holds_sat; [exact C | exact Hp |].
    rewrite E. exact Hg.
  - intros H. destruct (exists_path K s W Hs) as [p [Hp E]].
    exists p. split; [exact Hp|]. split; [exact E|]. simpl. intros Hg. apply H.
    exists p. auto.
Qed.

Lemma holds_or K s fs : holds K s (FOr fs) <-> exists g, In g fs /\ holds K s g.
Proof.
  split.
  - intros [p [Hp [E H]]]. apply sat_or in H. destruct H as [g [Hg H]].
    exists g. split; [exact Hg|]. exists p. auto.
  - intros [g [Hg [p [Hp [E H]]]]]. exists p. split; [exact Hp|]. split; [exact E|].
    apply sat_or. exists g. auto.
Qed.

Lemma holds_EX K s g : ctl_state g = true ->
  (holds K s (FE (FX g)) <-> exists y, edge (kg K) s y /\ holds K y g).
Proof.
  intros C. split.
  - intros [p [Hp [E [q [Hq [E2 H]]]]]]. simpl in H. exists (q 1). split.
    + rewrite <- E, <- E2. apply Hq.
    + apply (holds_suffix K g q 1 C Hq). exact H.
  - intros [y [Hy [p [Hp [E H]]]]].
    assert (Hq : is_path K (pcons s p)).
    { apply pcons_is_path; [exact Hp | rewrite E; exact Hy]. }
    exists (pcons s p). split; [exact Hq|]. split; [reflexivity|].
    exists (pcons s p). split; [exact Hq|]. split; [reflexivity|].
    simpl. apply (sat_state_indep K g p (suffix (pcons s p) 1) C); [reflexivity | exact H].
Qed.

Lemma holds_EU K s g h : ctl_state g = true -> ctl_state h = true ->
  (holds K s (FE (FU g h)) <->
   exists q, is_path K q /\ q 0 = s /\
             exists k, holds K (q k) h /\ forall j, j < k -> holds K (q j) g).
Proof.
  intros Cg Ch. split.
  - intros [p [Hp [E [q [Hq [E2 [k [Hk Hj]]]]]]]].
    exists q. split; [exact Hq|]. split; [congruence|].
    exists k. split.
    + apply (holds_suffix K h q k Ch Hq). exact Hk.
    + intros j Lt. apply (holds_suffix K g q j Cg Hq). apply Hj. exact Lt.
  - intros [q [Hq [E [k [Hk Hj]]]]].
    exists q. split; [exact Hq|]. split; [exact E|].
    exists q. split; [exact Hq|]. split; [reflexivity|].
    exists k. split.
    + apply (holds_suffix K h q k Ch Hq). exact Hk.
    + intros j Lt. apply (holds_suffix K g q j Cg Hq). apply Hj. exact Lt.
Qed.

Lemma holds_EG K s g : ctl_state g = true ->
  (holds K s (FE (FG g)) <->
   exists q, is_path K q /\ q 0 = s /\ forall k, holds K (q k) g).
Proof.
  intros C. split.
  - intros [p [Hp [E [q [Hq [E2 H]]]]]].
    exists q. split; [exact Hq|]. split; [congruence|].
    intros k. apply (holds_suffix K g q k C Hq). apply H.
  - intros [q [Hq [E H]]].
    exists q. split; [exact Hq|]. split; [exact E|].
    exists q. split; [exact Hq|]. split; [reflexivity|].
    intros k. apply (holds_suffix K g q k C Hq). apply H.
Qed.

(* finite walks for E(g U h): inside A until B is hit *)
Inductive walkU (K : kripke) (A B : list nat) : nat -> Prop :=
| wu_base s : In s B -> walkU K A B s
| wu_step s t : In s A -> edge (kg K) s t -> walkU K A B t -> walkU K A B s.

Lemma walkU_path K A B s : wf_kripke K -> incl B (states K) -> walkU K A B s ->
  exists q, is_path K q /\ q 0 = s /\ exists k, In (q k) B /\ forall j, j < k -> In (q j) A.
Proof.
  intros W HB Hw. induction Hw as [s Hs | s t Hs E Hw IH].
  - destruct (exists_path K s W (HB s Hs)) as [q [Hq E]].
    exists q. split; [exact Hq|]. split; [exact E|]. exists 0. split; [rewrite E; exact Hs|].
    intros j Lt. lia.
  - destruct IH as [q [Hq [E0 [k [Hk Hj]]]]].
    exists (pcons s q). split; [apply pcons_is_path; [exact Hq | rewrite E0; exact E]|].
    split; [reflexivity|]. exists (S k). split; [exact Hk|].
    intros j Lt. destruct j as [|j]; simpl; [exact Hs | apply Hj; lia].
Qed.

Lemma path_walkU K A B : forall k q, is_path K q ->
  In (q k) B -> (forall j, j < k -> In (q j) A) -> walkU K A B (q 0).
Proof.
  induction k as [|k IH]; intros q Hq Hk Hj.
  - apply wu_base. exact Hk.
  - apply wu_step with (t := q 1); [apply Hj; lia | apply Hq |].
    rewrite <- (suffix_0 q 1). apply IH.
    + apply suffix_is_path. exact Hq.
    + unfold suffix. exact Hk.
    + intros j Lt. unfold suffix. apply (Hj (S j)). lia.
Qed.

(* ------------------------------------------------------------------ *)
(* the three graph-level operators                                     *)
(* ------------------------------------------------------------------ *)
Section Operators.
  Hypothesis reach_exact : reach_exact_stmt.
  Hypothesis edges_spec : edges_spec_stmt.
  Hypothesis reversed_spec : reversed_spec_stmt.
  Hypothesis subgraph_spec : subgraph_spec_stmt.
  Hypothesis add_node_spec : add_node_spec_stmt.
  Hypothesis add_edge_silent_spec : add_edge_silent_spec_stmt.
  Hypothesis scc_correct : scc_correct_stmt.
  Hypothesis gba : gba_stmt.

  (* ---- EX ---- *)
  Lemma checkEX_spec K X : wf_graph (kg K) ->
    NoDup (checkEX K X) /\
    forall s, In s (checkEX K X) <-> exists y, edge (kg K) s y /\ In y X.
  Proof.
    intros W. unfold checkEX. split; [apply dedup_NoDup|].
    intros s. rewrite dedup_In, in_map_iff. split.
    - intros [[a b] [E H]]. simpl in E. subst a. apply filter_In in H. destruct H as [H M].
      simpl in M. exists b. split; [apply edges_spec; assumption | apply memb_In; exact M].
    - intros [y [E Hy]]. exists (s, y). split; [reflexivity|]. apply filter_In. split.
      + apply edges_spec; assumption.
      + simpl. apply memb_In. exact Hy.
  Qed.

  (* ---- EU ---- *)
  Definition eu_inner (B : list nat) (g : graph) (v : nat) (ws : list nat) : graph :=
    fold_left (fun g w => if memb w B then add_edge_silent g w v else g) ws g.
  Definition eu_outer (K : kripke) (B : list nat) (g : graph) (vs : list nat) : graph :=
    fold_left (fun g v => eu_inner B g v (succs (kg K) v)) vs g.

  Lemma eu_inner_spec B v : forall ws g, wf_graph g ->
    wf_graph (eu_inner B g v ws) /\
    forall x y, edge (eu_inner B g v ws) x y <-> edge g x y \/ (y = v /\ In x ws /\ In x B).
  Proof.
    induction ws as [|w ws IH]; intros g Hg; simpl.
    - split; [exact Hg|]. intros x y. tauto.
    - destruct (memb w B) eqn:M.
      + destruct (add_edge_silent_spec g w v Hg) as [W1 [_ E1]].
        destruct (IH _ W1) as [W2 E2]. split; [exact W2|].
        apply memb_In in M. intros x y. rewrite E2, E1. split.
        * intros [[H | [Hx Hy]] | [Hy [Hx Hb]]]; [tauto | subst; tauto | tauto].
        * intros [H | [Hy [[Hx | Hx] Hb]]]; [tauto | subst; tauto | tauto].
      + destruct (IH _ Hg) as [W2 E2]. split; [exact W2|].
        apply memb_false in M. intros x y. rewrite E2. split.
        * tauto.
        * intros [H | [Hy [[Hx | Hx] Hb]]]; [tauto | subst; tauto | tauto].
  Qed.

  Lemma eu_outer_spec K B : forall vs g, wf_graph g ->
    wf_graph (eu_outer K B g vs) /\
    forall x y, edge (eu_outer K B g vs) x y <->
                edge g x y \/ (In y vs /\ edge (kg K) y x /\ In x B).
  Proof.
    induction vs as [|v vs IH]; intros g Hg; simpl.
    - split; [exact Hg|]. intros x y. tauto.
    - destruct (eu_inner_spec B v (succs (kg K) v) g Hg) as [W1 E1].
      destruct (IH _ W1) as [W2 E2]. split; [exact W2|].
      intros x y. rewrite E2, E1. unfold edge. split.
      + intros [[H | [Hy [Hx Hb]]] | [Hy [Hx Hb]]]; [tauto | subst; tauto | tauto].
      + intros [H | [[Hy | Hy] [Hx Hb]]]; [tauto | subst; tauto | tauto].
  Qed.

  Lemma add_nodes_spec : forall L g, wf_graph g ->
    wf_graph (fold_left add_node L g) /\
    (forall x, In x (nodes (fold_left add_node L g)) <-> In x (nodes g) \/ In x L) /\
    (forall x y, edge (fold_left add_node L g) x y <-> edge g x y).
  Proof.
    induction L as [|v L IH]; intros g Hg; simpl.
    - split; [exact Hg|]. split; intros; tauto.
    - destruct (add_node_spec g v Hg) as [W1 [N1 E1]].
      destruct (IH _ W1) as [W2 [N2 E2]]. split; [exact W2|]. split.
      + intros x. rewrite N2, N1. split; intros H; intuition.
      + intros x y. rewrite E2, E1. tauto.
  Qed.

  Lemma checkEU_unfold K A B :
    checkEU K A B =
    reach (fold_left add_node B (eu_outer K B (reversed (subgraph (kg K) A)) A)) B.
  Proof. reflexivity. Qed.

  Lemma checkEU_spec K A B : wf_graph (kg K) ->
    NoDup (checkEU K A B) /\
    forall s, In s (checkEU K A B) <-> walkU K A B s.
  Proof.
    intros W. rewrite checkEU_unfold.
    destruct (subgraph_spec (kg K) A W) as [W0 [_ E0]].
    destruct (reversed_spec _ W0) as [W1 [_ E1]].
    destruct (eu_outer_spec K B A _ W1) as [W2 E2].
    destruct (add_nodes_spec B _ W2) as [W3 [N3 E3]].
    set (sg := fold_left add_node B (eu_outer K B (reversed (subgraph (kg K) A)) A)) in *.
    assert (HE : forall w v, edge sg w v <->
                 edge (kg K) v w /\ In v A /\ (In w A \/ In w B)).
    { intros w v. rewrite E3, E2, E1, E0. tauto. }
    assert (HB : incl B (nodes sg)).
    { intros x Hx. apply N3. right. exact Hx. }
    destruct (reach_exact sg B W3 HB) as [ND R]. split; [exact ND|].
    intros s. rewrite R. split.
    - intros [x [Hx Hr]]. induction Hr as [x | x y z Hr IH Ez].
      + apply wu_base. exact Hx.
      + apply HE in Ez. destruct Ez as [Ez [Hz _]].
        apply wu_step with (t := y); [exact Hz | exact Ez | apply IH; exact Hx].
    - intros Hw. induction Hw as [s Hs | s t Hs E Hw IH].
      + exists s. split; [exact Hs | apply r_refl].
      + destruct IH as [x [Hx Hr]]. exists x. split; [exact Hx|].
        eapply r_step; [exact Hr|]. apply HE. split; [exact E|]. split; [exact Hs|].
        inversion Hw; auto.
  Qed.

  (* ---- EG ---- *)
  Lemma nontrivial_ext g g' c :
    (forall x, edge g x x <-> edge g' x x) -> nontrivial g c = nontrivial g' c.
  Proof.
    intros H. destruct c as [|v [|w r]]; simpl; try reflexivity.
    specialize (H v). unfold edge in H. rewrite <- !memb_In in H.
    destruct (memb v (succs g v)), (memb v (succs g' v)); intuition congruence.
  Qed.

  Lemma in_concat_iff (cs : list (list nat)) x : In x (concat cs) <-> exists c, In c cs /\ In x c.
  Proof.
    rewrite in_concat. split; intros [c H]; exists c; tauto.
  Qed.

  Lemma checkEG_spec K X : wf_graph (kg K) ->
    NoDup (checkEG K X) /\
    forall s, In s (checkEG K X) <->
              exists p, p 0 = s /\ forall i, edge (kg K) (p i) (p (S i)) /\ In (p i) X.
  Proof.
    intros W. unfold checkEG.
    destruct (subgraph_spec (kg K) X W) as [W0 [N0 E0]].
    set (h := subgraph (kg K) X) in *.
    destruct (reversed_spec h W0) as [W1 [N1 E1]].
    set (sg := reversed h) in *.
    pose proof (scc_correct sg W1) as Hscc.
    set (cs := compute_SCCs sg) in *.
    assert (Rfl : forall x y, reaches sg x y <-> reaches h y x).
    { intros x y. split.
      - apply reaches_flip. exact E1.
      - apply reaches_flip. intros a b. rewrite E1. tauto. }
    assert (Hscc' : scc_spec h cs).
    { destruct Hscc as [ND [Hn Hm]]. split; [exact ND|]. split.
      - intros x. rewrite <- N1. apply Hn.
      - intros c x Hc Hx y. rewrite (Hm c x Hc Hx y). unfold mutual.
        rewrite !Rfl. tauto. }
    assert (Hnt : forall c, nontrivial sg c = nontrivial h c).
    { intros c. apply nontrivial_ext. intros x. apply E1. }
    set (Y := flat_map (fun c => if nontrivial sg c then c else []) cs).
    assert (HY : forall x, In x Y <-> exists c, In c cs /\ nontrivial h c = true /\ In x c).
    { intros x. unfold Y. rewrite in_flat_map. split.
      - intros [c [Hc Hx]]. exists c. rewrite <- Hnt.
        destruct (nontrivial sg c); [tauto | destruct Hx].
      - intros [c [Hc [Hn Hx]]]. exists c. rewrite Hnt, Hn. tauto. }
    assert (HYn : incl Y (nodes sg)).
    { intros x Hx. apply HY in Hx. destruct Hx as [c [Hc [_ Hx]]].
      destruct Hscc as [_ [Hn _]]. apply Hn. apply in_concat_iff. exists c. tauto. }
    destruct (reach_exact sg Y W1 HYn) as [ND R]. split; [exact ND|].
    intros s. rewrite R.
    assert (Hgp : (exists p, gpath h p /\ p 0 = s /\ forall P, In P (@nil (list nat)) -> inf_often p P) <->
                  exists p, p 0 = s /\ forall i, edge (kg K) (p i) (p (S i)) /\ In (p i) X).
    { split.
      - intros [p [Hp [E _]]]. exists p. split; [exact E|]. intros i.
        specialize (Hp i). apply E0 in Hp. tauto.
      - intros [p [E Hp]]. exists p. split; [|split; [exact E | intros P []]].
        intros i. apply E0. destruct (Hp i) as [H1 H2]. destruct (Hp (S i)) as [_ H3]. tauto. }
    rewrite <- Hgp. split.
    - intros [x [Hx Hr]].
      assert (Hs : In s (nodes h)).
      { apply N1. eapply reaches_nodes; [exact W1 | exact Hr | apply HYn; exact Hx]. }
      apply (gba h cs [] s W0 Hscc' Hs).
      apply HY in Hx. destruct Hx as [c [Hc [Hn Hx]]].
      exists c. split; [exact Hc|]. split; [exact Hn|]. split; [intros P []|].
      exists x. split; [exact Hx | apply Rfl; exact Hr].
    - intros Hp.
      assert (Hs : In s (nodes h)).
      { destruct Hp as [p [Hp [E _]]]. rewrite <- E. destruct W0 as [_ [_ Wn]].
        apply (Wn _ _ (Hp 0)). }
      apply (gba h cs [] s W0 Hscc' Hs) in Hp.
      destruct Hp as [c [Hc [Hn [_ [x [Hx Hr]]]]]].
      exists x. split; [apply HY; exists c; tauto | apply Rfl; exact Hr].
  Qed.
End Operators.

(* ------------------------------------------------------------------ *)
(* the labelling algorithm                                             *)
(* ------------------------------------------------------------------ *)
Definition direct (f : form) : bool :=
  match f with
  | FBool _ | FAtom _ | FNot _ | FOr _ => true
  | FE (FX _) | FE (FG _) | FE (FU _ _) => true
  | _ => false
  end.

Lemma restricted_direct f : restricted_ctl f = true -> direct f = true.
Proof.
  destruct f as [b | a | f | fs | fs | f g | f | f | f | f g | f g | f | f];
    simpl; try discriminate; try reflexivity.
  destruct f; simpl; try discriminate; reflexivity.
Qed.

Lemma check_rewrite n K f : direct f = false ->
  check (S n) K f = match restrict_ctl f with Some r => check n K r | None => TypeErr end.
Proof.
  destruct f as [b | a | f | fs | fs | f g | f | f | f | f g | f g | f | f];
    simpl direct; try discriminate; try reflexivity.
  destruct f; try discriminate; reflexivity.
Qed.

Definition fuel_ok (n : nat) (f : form) : Prop :=
  (restricted_ctl f = true /\ height f < n) \/ 3 * height f + 2 <= n.

Lemma height_in g fs : In g fs -> height g <= fold_right (fun g m => Nat.max (height g) m) 0 fs.
Proof.
  induction fs as [|a fs IH]; simpl; intros H; [destruct H|].
  destruct H as [E | H]; [subst; lia | specialize (IH H); lia].
Qed.

Lemma fuel_not n g : fuel_ok (S n) (FNot g) -> fuel_ok n g.
Proof. unfold fuel_ok. simpl. intros [[R H] | H]; [left; split; [exact R | lia] | right; lia]. Qed.

Lemma fuel_or n fs g : In g fs -> fuel_ok (S n) (FOr fs) -> fuel_ok n g.
Proof.
  intros Hg. pose proof (height_in g fs Hg) as Hh. unfold fuel_ok. simpl.
  intros [[R H] | H].
  - left. split; [|lia]. rewrite forallb_forall in R. apply R. exact Hg.
  - right. lia.
Qed.

Lemma fuel_E1 n g p : (p = FX g \/ p = FG g) -> fuel_ok (S n) (FE p) -> fuel_ok n g.
Proof.
  unfold fuel_ok. intros [E | E]; subst p; simpl;
    (intros [[R H] | H]; [left; split; [exact R | lia] | right; lia]).
Qed.

Lemma fuel_EU n g h : fuel_ok (S n) (FE (FU g h)) -> fuel_ok n g /\ fuel_ok n h.
Proof.
  unfold fuel_ok. simpl. intros [[R H] | H].
  - apply andb_prop in R. destruct R as [R1 R2]. split; left; (split; [assumption | lia]).
  - split; right; lia.
Qed.

Section CTL.
  Hypothesis reach_exact : reach_exact_stmt.
  Hypothesis edges_spec : edges_spec_stmt.
  Hypothesis reversed_spec : reversed_spec_stmt.
  Hypothesis subgraph_spec : subgraph_spec_stmt.
  Hypothesis add_node_spec : add_node_spec_stmt.
  Hypothesis add_edge_silent_spec : add_edge_silent_spec_stmt.
  Hypothesis scc_correct : scc_correct_stmt.
  Hypothesis gba : gba_stmt.
  Hypothesis restrict_ctl_spec : restrict_ctl_spec_stmt.

  Variable K : kripke.
  Hypothesis WK : wf_kripke K.

  Definition exact_set (X : list nat) (f : form) : Prop :=
    NoDup X /\ forall s, In s X <-> (In s (states K) /\ holds K s f).
  Definition correct (n : nat) (f : form) : Prop :=
    exists X, check n K f = Ok X /\ exact_set X f.

  Let WG : wf_graph (kg K) := proj1 WK.

  Lemma states_NoDup : NoDup (states K).
  Proof. destruct WG as [H _]. exact H. Qed.

  Lemma exact_in_states X f s : exact_set X f -> In s X -> In s (states K).
  Proof. intros [_ H] Hs. apply H in Hs. tauto. Qed.

  Lemma correct_not n g : ctl_state g = true -> correct n g -> correct (S n) (FNot g).
  Proof.
    intros C [X [E [ND HX]]]. exists (compl K X). split; [simpl; rewrite E; reflexivity|].
    split; [apply NoDup_filter; apply states_NoDup|].
    intros s. unfold compl. rewrite filter_In. split.
    - intros [Hs M]. split; [exact Hs|]. apply holds_not; [exact WK | exact Hs | exact C |].
      apply negb_true_iff, memb_false in M. intros Hg. apply M. apply HX. tauto.
    - intros [Hs H]. split; [exact Hs|]. apply negb_true_iff, memb_false.
      intros Hx. apply HX in Hx. apply (holds_not K s g WK Hs C) in H. tauto.
  Qed.

  Lemma correct_or_fold n : forall fs X0,
    (forall g, In g fs -> correct n g) -> NoDup X0 ->
    exists X, fold_left (fun acc g => rbind acc (fun a => rbind (check n K g) (fun b => Ok (union a b))))
                        fs (Ok X0) = Ok X /\ NoDup X /\
              forall s, In s X <-> In s X0 \/ exists g, In g fs /\ In s (states K) /\ holds K s g.
  Proof.
    induction fs as [|f fs IH]; intros X0 Hc ND; simpl.
    - exists X0. split; [reflexivity|]. split; [exact ND|]. intros s. split; [tauto|].
      intros [H | [g [[] _]]]. exact H.
    - destruct (Hc f (or_introl eq_refl)) as [Y [E [NDY HY]]]. rewrite E. simpl.
      destruct (IH (union X0 Y) (fun g Hg => Hc g (or_intror Hg)) (dedup_NoDup _))
        as [X [EX [NDX HX]]].
      exists X. split; [exact EX|]. split; [exact NDX|].
      intros s. rewrite HX. unfold union. rewrite dedup_In, in_app_iff, HY. split.
      + intros [[H | H] | [g [Hg H]]]; [tauto | right; exists f; tauto | right; exists g; tauto].
      + intros [H | [g [[Eg | Hg] H]]]; [tauto | subst; tauto | right; exists g; tauto].
  Qed.

  Lemma correct_or n fs : (forall g, In g fs -> correct n g) -> correct (S n) (FOr fs).
  Proof.
    intros Hc. destruct (correct_or_fold n fs [] Hc (NoDup_nil _)) as [X [E [ND HX]]].
    exists X. split; [exact E|]. split; [exact ND|].
    intros s. rewrite HX, holds_or. split.
    - intros [[] | [g [Hg [Hs H]]]]. split; [exact Hs | exists g; tauto].
    - intros [Hs [g [Hg H]]]. right. exists g. tauto.
  Qed.

  Lemma correct_bool n b : correct (S n) (FBool b).
  Proof.
    destruct b; simpl.
    - exists (states K). split; [reflexivity|]. split; [apply states_NoDup|].
      intros s. split; [|tauto]. intros Hs. split; [exact Hs | apply holds_true; assumption].
    - exists []. split; [reflexivity|]. split; [constructor|].
      intros s. split; [intros [] | intros [_ H]; exact (holds_false K s H)].
  Qed.

  Lemma correct_atom n a : correct (S n) (FAtom a).
  Proof.
    exists (sat_atom K a). split; [reflexivity|]. split.
    - apply NoDup_filter, states_NoDup.
    - intros s. unfold sat_atom. rewrite filter_In, mema_In. split.
      + intros [Hs H]. split; [exact Hs | apply holds_atom; assumption].
      + intros [Hs H]. split; [exact Hs | apply (holds_atom K s a WK Hs); exact H].
  Qed.

  Lemma correct_EX n g : ctl_state g = true -> correct n g -> correct (S n) (FE (FX g)).
  Proof.
    intros C [X [E [ND HX]]]. exists (checkEX K X). split; [simpl; rewrite E; reflexivity|].
    destruct (checkEX_spec edges_spec K X WG) as [ND' H']. split; [exact ND'|].
    intros s. rewrite H', (holds_EX K s g C). split.
    - intros [y [Ey Hy]]. split.
      + destruct WG as [_ [_ Wn]]. apply (Wn _ _ Ey).
      + exists y. split; [exact Ey | apply HX; exact Hy].
    - intros [_ [y [Ey Hy]]]. exists y. split; [exact Ey|]. apply HX. split; [|exact Hy].
      eapply holds_states; eassumption.
  Qed.

  Lemma correct_EU n g h : ctl_state g = true -> ctl_state h = true ->
    correct n g -> correct n h -> correct (S n) (FE (FU g h)).
  Proof.
    intros Cg Ch [A [EA [NDA HA]]] [B [EB [NDB HB]]].
    exists (checkEU K A B). split; [simpl; rewrite EA, EB; reflexivity|].
    destruct (checkEU_spec reach_exact reversed_spec subgraph_spec add_node_spec
                           add_edge_silent_spec K A B WG) as [ND' H'].
    split; [exact ND'|]. intros s. rewrite H', (holds_EU K s g h Cg Ch).
    assert (HBs : incl B (states K)). { intros x Hx. apply HB in Hx. tauto. }
    split.
    - intros Hw. destruct (walkU_path K A B s WK HBs Hw) as [q [Hq [E0 [k [Hk Hj]]]]].
      split; [rewrite <- E0; apply path_states; assumption|].
      exists q. split; [exact Hq|]. split; [exact E0|]. exists k. split.
      + apply HB. exact Hk.
      + intros j Lt. apply HA. apply Hj. exact Lt.
    - intros [_ [q [Hq [E0 [k [Hk Hj]]]]]]. rewrite <- E0.
      apply (path_walkU K A B k q Hq).
      + apply HB. split; [apply path_states; assumption | exact Hk].
      + intros j Lt. apply HA. split; [apply path_states; assumption | apply Hj; exact Lt].
  Qed.

  Lemma correct_EG n g : ctl_state g = true -> correct n g -> correct (S n) (FE (FG g)).
  Proof.
    intros C [X [E [ND HX]]]. exists (checkEG K X). split; [simpl; rewrite E; reflexivity|].
    destruct (checkEG_spec reach_exact reversed_spec subgraph_spec scc_correct gba K X WG)
      as [ND' H'].
    split; [exact ND'|]. intros s. rewrite H', (holds_EG K s g C). split.
    - intros [p [E0 Hp]].
      assert (Hpath : is_path K p). { intros i. apply Hp. }
      split; [rewrite <- E0; apply path_states; assumption|].
      exists p. split; [exact Hpath|]. split; [exact E0|].
      intros k. apply HX. apply Hp.
    - intros [_ [q [Hq [E0 Hk]]]]. exists q. split; [exact E0|].
      intros i. split; [apply Hq|]. apply HX. split; [apply path_states; assumption | apply Hk].
  Qed.

  Lemma correct_equiv n f r : (forall p, sat K p r <-> sat K p f) ->
    (exists X, check n K r = Ok X /\ exact_set X r) ->
    exists X, check n K r = Ok X /\ exact_set X f.
  Proof.
    intros Hs [X [E [ND HX]]]. exists X. split; [exact E|]. split; [exact ND|].
    intros s. rewrite HX. unfold holds. split; intros [Hst [p [Hp [E0 H]]]];
      (split; [exact Hst|]); exists p; (split; [exact Hp|]); (split; [exact E0|]); apply Hs; exact H.
  Qed.

  Lemma check_correct : forall n f, ctl_state f = true -> fuel_ok n f -> correct n f.
  Proof.
    induction n as [|n IH]; intros f C Hf.
    - exfalso. destruct Hf as [[_ H] | H]; lia.
    - destruct (direct f) eqn:D.
      + destruct f as [b | a | f | fs | fs | f g | f | f | f | f g | f g | f | f];
          try discriminate D.
        * apply correct_bool.
        * apply correct_atom.
        * simpl in C. apply correct_not; [exact C|]. apply IH; [exact C|]. apply fuel_not. exact Hf.
        * simpl in C. rewrite forallb_forall in C. apply correct_or. intros g Hg.
          apply IH; [apply C; exact Hg|]. eapply fuel_or; eassumption.
        * destruct f as [b | a | f | fs | fs | f g | f | f | f | f g | f g | f | f];
            try discriminate D.
          -- simpl in C. apply correct_EX; [exact C|]. apply IH; [exact C|].
             eapply fuel_E1; [left; reflexivity | exact Hf].
          -- simpl in C. apply correct_EG; [exact C|]. apply IH; [exact C|].
             eapply fuel_E1; [right; reflexivity | exact Hf].
          -- simpl in C. apply andb_prop in C. destruct C as [C1 C2].
             apply fuel_EU in Hf. destruct Hf as [F1 F2].
             apply correct_EU; [exact C1 | exact C2 | apply IH; assumption | apply IH; assumption].
      + unfold correct. rewrite (check_rewrite n K f D).
        destruct (restrict_ctl_spec f C) as [r [Er [Rr [Cr [Hh Hs]]]]]. rewrite Er.
        apply (correct_equiv n f r (Hs K)). apply IH; [exact Cr|].
        left. split; [exact Rr|].
        destruct Hf as [[R _] | H].
        * apply restricted_direct in R. congruence.
        * lia.
  Qed.

  Lemma ctl_modelcheck_exact f : ctl_state f = true ->
    exists X, ctl_modelcheck K f = Ok X /\ NoDup X /\
              forall s, In s X <-> (In s (states K) /\ holds K s f).
  Proof.
    intros C. unfold ctl_modelcheck. rewrite C.
    apply (check_correct (ctl_fuel f) f C). right. unfold ctl_fuel. lia.
  Qed.
End CTL.

Section C01.
  Hypothesis reach_exact : reach_exact_stmt.
  Hypothesis edges_spec : edges_spec_stmt.
  Hypothesis reversed_spec : reversed_spec_stmt.
  Hypothesis subgraph_spec : subgraph_spec_stmt.
  Hypothesis add_node_spec : add_node_spec_stmt.
  Hypothesis add_edge_silent_spec : add_edge_silent_spec_stmt.
  Hypothesis scc_correct : scc_correct_stmt.
  Hypothesis gba : gba_stmt.
  Hypothesis restrict_ctl_spec : restrict_ctl_spec_stmt.

  Theorem C01_exact : C01_stmt.
  Proof.
    intros K f WK C.
    apply (ctl_modelcheck_exact reach_exact edges_spec reversed_spec subgraph_spec add_node_spec
             add_edge_silent_spec scc_correct gba restrict_ctl_spec K WK f C).
  Qed.
End C01.

Print Assumptions C01_exact.
