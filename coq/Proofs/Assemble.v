(* Assemble.v — instantiates the Section hypotheses of the checker proofs with the
   lemmas proved in the other files.  No new reasoning here. *)
From PMC Require Import Spec.Lemmas.
From PMC Require Proofs.GraphP Proofs.SccP Proofs.InfPath Proofs.RewriteP Proofs.CTLP Proofs.LTLP Proofs.BddP Proofs.BddHistP Proofs.BddPrintP.

Definition ctl_exact : C01_stmt :=
  PMC.Proofs.CTLP.C01_exact
    PMC.Proofs.GraphP.reach_exact PMC.Proofs.GraphP.edges_spec PMC.Proofs.GraphP.reversed_spec
    PMC.Proofs.GraphP.subgraph_spec PMC.Proofs.GraphP.add_node_spec
    PMC.Proofs.GraphP.add_edge_silent_spec PMC.Proofs.SccP.scc_correct PMC.Proofs.InfPath.gba
    PMC.Proofs.RewriteP.restrict_ctl_spec.

Definition ltl_exact : C02_stmt :=
  PMC.Proofs.LTLP.C02_exact
    PMC.Proofs.GraphP.reach_exact PMC.Proofs.GraphP.reversed_spec PMC.Proofs.SccP.scc_correct
    PMC.Proofs.InfPath.gba PMC.Proofs.RewriteP.LNot_sem PMC.Proofs.RewriteP.restrict_sem.

(* OBDD(str(o.root), o.ordering) == o with the identical root: the printer/parser round trip
   (BddPrintP) instantiated with the correctness of expression building (BddHistP) *)
Definition bdd_reparse_root :
  forall s r O, PMC.Proofs.BddP.wf_store s -> nodup_vars O = true -> live s r = true ->
    PMC.Proofs.BddP.ordered O s r ->
    exists s', reparse_root s (r, O) = Ok (s', (r, O)) /\ PMC.Proofs.BddP.wf_store s' /\
               PMC.Proofs.BddP.extends s s' :=
  PMC.Proofs.BddPrintP.reparse_root_spec PMC.Proofs.BddHistP.bbuild_spec.
