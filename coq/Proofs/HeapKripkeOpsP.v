(* HeapKripkeOpsP.v — constructor, clone() and get_substructure(V) on the heap model: the
   structure they return has the pure value, lives in cells that did not exist before (so no
   label set is shared with the original or with the caller's arguments), and nothing that
   existed is touched; hence edits of either side never reach the other.  Axiom-free. *)
From Coq Require Import List Arith Bool Lia String.
Import ListNotations.
From PMC Require Import Spec.Lemmas Model.Heap Model.HeapKripkeOps Proofs.HeapP.

Definition labelled_shape (r : result kripke) : Prop :=
  forall K, r = Ok K -> map fst (klab K) = nodes (kg K).

Lemma mk_kripke_shape St St0 R L : labelled_shape (mk_kripke St St0 R L).
Proof. intros K H. eapply mk_kripke_klab_fst. exact H. Qed.

Theorem build_h_spec h r h1 rc : labelled_shape r -> build_h h r = (h1, rc) ->
  (forall l, allocated h l -> hget h1 l = hget h l) /\
  (forall l, allocated h l -> allocated h1 l) /\
  match rc with
  | Ok kc => r = Ok (abs h1 kc) /\ valid h1 kc /\ (forall l, In l (locs kc) -> ~ allocated h l)
  | _ => h1 = h /\ forall K, r <> Ok K
  end.
Proof.
  intros Hs. unfold build_h. destruct r as [K| | | | | |]; simpl; intros H;
    try (inversion H; subst; repeat split; auto; intros K0 HK; discriminate HK).
  destruct (alloc_cells h (klab K)) as [h' m] eqn:Ea.
  inversion H; subst. clear H.
  destruct (alloc_cells_spec _ _ _ _ Ea) as (A & B & C & D & N & V).
  split; [exact B|]. split; [intros l Hl; apply C; auto|].
  split; [|split].
  - unfold abs. simpl. rewrite V. destruct K; reflexivity.
  - split; [|split]; simpl.
    + intros l Hl. apply C. right. exact Hl.
    + exact N.
    + rewrite A. apply Hs. reflexivity.
  - exact D.
Qed.

(* Kripke(S, S0, R, L) *)
Theorem mk_kripke_h_spec h St St0 R L h1 kc : mk_kripke_h h St St0 R L = (h1, Ok kc) ->
  mk_kripke St St0 R L = Ok (abs h1 kc) /\ valid h1 kc /\
  (forall l, In l (locs kc) -> ~ allocated h l) /\
  (forall l, allocated h l -> hget h1 l = hget h l).
Proof.
  intros H. destruct (build_h_spec _ _ _ _ (mk_kripke_shape St St0 R L) H) as (F1 & _ & A & B & C). auto.
Qed.

(* get_substructure(V) *)
Theorem substructure_h_spec h k V h1 kc : substructure_h h k V = (h1, Ok kc) ->
  substructure (abs h k) V = Ok (abs h1 kc) /\ valid h1 kc /\
  (forall l, In l (locs kc) -> ~ allocated h l) /\
  (forall l, allocated h l -> hget h1 l = hget h l).
Proof.
  intros H. unfold substructure_h in H.
  assert (Hs : labelled_shape (substructure (abs h k) V)) by (unfold substructure; apply mk_kripke_shape).
  destruct (build_h_spec _ _ _ _ Hs H) as (F1 & _ & A & B & C). auto.
Qed.

Theorem substructure_h_err h k V h1 rc : substructure_h h k V = (h1, rc) -> (forall kc, rc <> Ok kc) ->
  h1 = h /\ forall K, substructure (abs h k) V <> Ok K.
Proof.
  intros H Hn. unfold substructure_h in H.
  assert (Hs : labelled_shape (substructure (abs h k) V)) by (unfold substructure; apply mk_kripke_shape).
  destruct (build_h_spec _ _ _ _ Hs H) as (_ & _ & A).
  destruct rc; try exact A. exfalso. eapply Hn. reflexivity.
Qed.

(* independence of a structure built from a valid original: one write into a label set of the
   result leaves the original's value alone, one write into a label set of the original leaves
   the result's value alone (iterate for any number of writes) *)
Theorem built_independent h k r h1 kc : valid h k -> labelled_shape r -> build_h h r = (h1, Ok kc) ->
  abs h1 k = abs h k /\
  (forall l c, In l (locs kc) -> abs (write_label_h h1 l c) k = abs h k) /\
  (forall l c, In l (locs k) -> abs (write_label_h h1 l c) kc = abs h1 kc) /\
  (forall l, In l (locs kc) -> ~ In l (locs k)).
Proof.
  intros Hv Hs H. destruct (build_h_spec _ _ _ _ Hs H) as (F1 & F2 & _ & Hvc & Hfresh).
  destruct Hv as (Hal & _ & _).
  assert (Hdisj : forall l, In l (locs kc) -> ~ In l (locs k)).
  { intros l Hl Hk. apply (Hfresh l Hl). apply Hal. exact Hk. }
  assert (H1 : abs h1 k = abs h k).
  { apply abs_cells_eq. intros l Hl. apply F1. apply Hal. exact Hl. }
  split; [exact H1|]. split; [|split; [|exact Hdisj]].
  - intros l c Hl. rewrite <- H1. apply abs_cells_eq. intros l' Hl'. unfold write_label_h.
    apply hget_hset_other. intros E. subst. apply (Hdisj l Hl Hl').
  - intros l c Hl. apply abs_cells_eq. intros l' Hl'. unfold write_label_h.
    apply hget_hset_other. intros E. subst. apply (Hdisj l Hl' Hl).
Qed.

Corollary substructure_independent h k V h1 kc : valid h k -> substructure_h h k V = (h1, Ok kc) ->
  abs h1 k = abs h k /\
  (forall l c, In l (locs kc) -> abs (write_label_h h1 l c) k = abs h k) /\
  (forall l c, In l (locs k) -> abs (write_label_h h1 l c) kc = abs h1 kc) /\
  (forall l, In l (locs kc) -> ~ In l (locs k)).
Proof.
  intros Hv H. apply (built_independent h k (substructure (abs h k) V)); auto.
  unfold substructure. apply mk_kripke_shape.
Qed.

Corollary clone_independent_h h k h1 kc : valid h k -> clone_h h k = (h1, Ok kc) ->
  abs h1 k = abs h k /\
  (forall l c, In l (locs kc) -> abs (write_label_h h1 l c) k = abs h k) /\
  (forall l c, In l (locs k) -> abs (write_label_h h1 l c) kc = abs h1 kc) /\
  (forall l, In l (locs kc) -> ~ In l (locs k)).
Proof.
  intros Hv H. apply (built_independent h k (kclone (abs h k))); auto.
  unfold kclone. apply mk_kripke_shape.
Qed.

(* non-vacuity: a "clone" that installs a new dict over the SAME label sets is not independent *)
Module KExamples.
Import Examples.
Open Scope string_scope.
Lemma sharing_clone_refutes_independence :
  ~ (forall h k h1 kc l c, valid h k -> clone_sharing_labels_h h k = (h1, Ok kc) ->
       In l (locs kc) -> abs (write_label_h h1 l c) k = abs h k).
Proof.
  intros H.
  assert (Hv : valid h0 k0).
  { vm_compute. split; [|split; [|reflexivity]].
    - intros l [<-|[<-|[]]]; simpl; tauto.
    - repeat constructor; simpl; intuition congruence. }
  specialize (H h0 k0 h0 k0 1 ["p"; "zz"] Hv eq_refl).
  assert (Hin : In 1 (locs k0)) by (vm_compute; tauto).
  specialize (H Hin). vm_compute in H. discriminate H.
Qed.
Lemma substructure_example :
  let '(h1, r) := substructure_h h0 k0 [0; 1] in
  match r with
  | Ok kc => locs kc = [2; 3] /\ abs h1 kc = abs h0 k0 /\ abs (write_label_h h1 2 ["zz"]) k0 = abs h0 k0
  | _ => False
  end.
Proof. vm_compute. repeat split. Qed.
End KExamples.

Print Assumptions build_h_spec.
Print Assumptions built_independent.
Print Assumptions substructure_independent.
Print Assumptions clone_independent_h.
Print Assumptions KExamples.sharing_clone_refutes_independence.
