(* GraphP.v — proofs about the executable graph model (Model/Graph.v) against
   Spec/GraphSpec.v; proves the "graphs" statements of Spec/Lemmas.v.
   Axiom-free. *)
From Coq Require Import List Arith Bool Lia.
From PMC Require Import Spec.Lemmas.
From PMC Require Export Proofs.BaseP.
Import ListNotations.

(* ================= reaches ================= *)
Lemma reaches_edge g x y : edge g x y -> reaches g x y.
Proof. intros H. eapply r_step; [apply r_refl|exact H]. Qed.

Lemma reaches_trans g x y z : reaches g x y -> reaches g y z -> reaches g x z.
Proof.
  intros Hxy Hyz. induction Hyz as [y|y u v Hyu IH Huv]; [exact Hxy|].
  eapply r_step; [apply IH; exact Hxy|exact Huv].
Qed.

Lemma reaches_step_l g x y z : edge g x y -> reaches g y z -> reaches g x z.
Proof. intros H1 H2. eapply reaches_trans; [apply reaches_edge; exact H1|exact H2]. Qed.

(* inversion on the left *)
Lemma reaches_inv_l g x z : reaches g x z -> x = z \/ exists y, edge g x y /\ reaches g y z.
Proof.
  intros H. induction H as [x|x y z Hxy IH Hyz]; [left; reflexivity|].
  right. destruct IH as [->|(u & Hxu & Huy)].
  - exists z. split; [exact Hyz|apply r_refl].
  - exists u. split; [exact Hxu|]. eapply r_step; [exact Huy|exact Hyz].
Qed.

(* induction principle stepping on the left *)
Lemma reaches_ind_l g (P : nat -> nat -> Prop) :
  (forall x, P x x) ->
  (forall x y z, edge g x y -> reaches g y z -> P y z -> P x z) ->
  forall x z, reaches g x z -> P x z.
Proof.
  intros Hr Hs x z H.
  revert P Hr Hs.
  induction H as [x|x y z Hxy IH Hyz]; intros P Hr Hs; [apply Hr|].
  apply (IH (fun a b => forall c, edge g b c -> P a c)).
  - intros a c Hac. eapply Hs; [exact Hac|apply r_refl|apply Hr].
  - intros a b c Hab Hbc Hbc' d Hcd. eapply Hs; [exact Hab| |apply Hbc'; exact Hcd].
    eapply r_step; [exact Hbc|exact Hcd].
  - exact Hyz.
Qed.

Lemma reaches_in_nodes g x y : wf_graph g -> In x (nodes g) -> reaches g x y -> In y (nodes g).
Proof.
  intros (_ & _ & Hc) Hx H. induction H as [x|x y z Hxy IH Hyz]; [exact Hx|].
  apply (Hc y z Hyz).
Qed.

(* ================= succs / nodes ================= *)
Lemma succs_not_node g x : ~ In x (nodes g) -> succs g x = [].
Proof.
  induction g as [|[a ds] g IH]; simpl; intros Hn; [reflexivity|].
  destruct (Nat.eqb a x) eqn:E.
  - apply Nat.eqb_eq in E. tauto.
  - apply IH. tauto.
Qed.

Lemma edge_src_node g x y : edge g x y -> In x (nodes g).
Proof.
  unfold edge. intros H. destruct (in_dec Nat.eq_dec x (nodes g)) as [Hi|Hn]; [exact Hi|].
  rewrite (succs_not_node g x Hn) in H. destruct H.
Qed.

Lemma succs_app g1 g2 x :
  succs (g1 ++ g2) x = if memb x (nodes g1) then succs g1 x else succs g2 x.
Proof.
  induction g1 as [|[a ds] g1 IH]; [reflexivity|].
  change (nodes ((a, ds) :: g1)) with (a :: nodes g1).
  rewrite memb_cons. rewrite (Nat.eqb_sym x a). cbn [app succs].
  destruct (Nat.eqb a x); [reflexivity|exact IH].
Qed.

Lemma succs_In_assoc g x ds : NoDup (nodes g) -> In (x, ds) g -> succs g x = ds.
Proof.
  induction g as [|[a es] g IH]; simpl; intros ND Hin; [destruct Hin|].
  inversion ND as [|a' l' Ha ND']; subst.
  destruct Hin as [Heq|Hin].
  - inversion Heq; subst. rewrite Nat.eqb_refl. reflexivity.
  - destruct (Nat.eqb a x) eqn:E.
    + apply Nat.eqb_eq in E. subst. exfalso. apply Ha.
      apply (in_map fst) in Hin. exact Hin.
    + apply IH; assumption.
Qed.

Lemma succs_assoc_In g x : In x (nodes g) -> In (x, succs g x) g.
Proof.
  induction g as [|[a es] g IH]; simpl; intros Hin; [destruct Hin|].
  destruct (Nat.eqb a x) eqn:E.
  - apply Nat.eqb_eq in E. subst. left. reflexivity.
  - right. apply IH. destruct Hin as [Heq|Hin]; [|exact Hin].
    apply Nat.eqb_neq in E. congruence.
Qed.

Lemma has_node_In g v : has_node g v = true <-> In v (nodes g).
Proof. unfold has_node. apply memb_In. Qed.

Lemma has_node_false g v : has_node g v = false <-> ~ In v (nodes g).
Proof. unfold has_node. apply memb_false. Qed.

(* ================= add_node ================= *)
Lemma nodes_snoc g v ds : nodes (g ++ [(v, ds)]) = nodes g ++ [v].
Proof. unfold nodes. rewrite map_app. reflexivity. Qed.

Lemma succs_snoc_nil g v x : succs (g ++ [(v, [])]) x = succs g x.
Proof.
  rewrite succs_app. destruct (memb x (nodes g)) eqn:E; [reflexivity|].
  apply memb_false in E. rewrite (succs_not_node g x E). simpl.
  destruct (Nat.eqb v x); reflexivity.
Qed.

Lemma nodes_add_node g v x : In x (nodes (add_node g v)) <-> In x (nodes g) \/ x = v.
Proof.
  unfold add_node. destruct (has_node g v) eqn:E.
  - apply has_node_In in E. split; [tauto|]. intros [H| ->]; assumption.
  - rewrite nodes_snoc. apply in_snoc.
Qed.

Lemma succs_add_node g v x : succs (add_node g v) x = succs g x.
Proof.
  unfold add_node. destruct (has_node g v); [reflexivity|apply succs_snoc_nil].
Qed.

Lemma edge_add_node g v x y : edge (add_node g v) x y <-> edge g x y.
Proof. unfold edge. rewrite succs_add_node. tauto. Qed.

Lemma NoDup_nodes_add_node g v : NoDup (nodes g) -> NoDup (nodes (add_node g v)).
Proof.
  intros ND. unfold add_node. destruct (has_node g v) eqn:E; [exact ND|].
  rewrite nodes_snoc. apply NoDup_snoc; [exact ND|]. apply has_node_false. exact E.
Qed.

Lemma add_node_spec : add_node_spec_stmt.
Proof.
  intros g v (ND & NS & Hc). split; [|split].
  - split; [|split].
    + apply NoDup_nodes_add_node. exact ND.
    + intros x. rewrite succs_add_node. apply NS.
    + intros x y He. apply edge_add_node in He. rewrite !nodes_add_node.
      destruct (Hc x y He). tauto.
  - intros x. apply nodes_add_node.
  - intros x y. apply edge_add_node.
Qed.

(* ================= add_succ ================= *)
Lemma nodes_add_succ g s d x : In x (nodes (add_succ g s d)) <-> In x (nodes g) \/ x = s.
Proof.
  induction g as [|[a ds] g IH]; simpl.
  - split; [intros [H|[]]; auto|intros [[]|H]; auto].
  - destruct (Nat.eqb a s) eqn:E; simpl.
    + apply Nat.eqb_eq in E. subst. split; [tauto|]. intros [H| ->]; tauto.
    + rewrite IH. tauto.
Qed.

Lemma NoDup_nodes_add_succ g s d : NoDup (nodes g) -> NoDup (nodes (add_succ g s d)).
Proof.
  induction g as [|[a ds] g IH]; simpl; intros ND.
  - constructor; [intros []|constructor].
  - inversion ND as [|a' l' Ha ND']; subst.
    destruct (Nat.eqb a s) eqn:E; simpl.
    + exact ND.
    + constructor; [|apply IH; exact ND'].
      rewrite nodes_add_succ. apply Nat.eqb_neq in E. intros [H|H]; [tauto|congruence].
Qed.

Lemma succs_add_succ g s d x :
  succs (add_succ g s d) x =
  if Nat.eqb s x then (if memb d (succs g s) then succs g s else succs g s ++ [d])
  else succs g x.
Proof.
  induction g as [|[a ds] g IH]; simpl.
  - destruct (Nat.eqb s x); reflexivity.
  - destruct (Nat.eqb a s) eqn:E; simpl.
    + apply Nat.eqb_eq in E. subst a. destruct (Nat.eqb s x); reflexivity.
    + rewrite IH. destruct (Nat.eqb s x) eqn:E2.
      * apply Nat.eqb_eq in E2. subst x. rewrite E. reflexivity.
      * reflexivity.
Qed.

Lemma edge_add_succ g s d x y :
  edge (add_succ g s d) x y <-> edge g x y \/ (x = s /\ y = d).
Proof.
  unfold edge. rewrite succs_add_succ. destruct (Nat.eqb s x) eqn:E.
  - apply Nat.eqb_eq in E. subst x. destruct (memb d (succs g s)) eqn:M.
    + apply memb_In in M. split; [tauto|]. intros [H|[_ ->]]; assumption.
    + rewrite in_snoc. tauto.
  - apply Nat.eqb_neq in E. split; [tauto|]. intros [H|[-> _]]; [exact H|congruence].
Qed.

Lemma NoDup_succs_add_succ g s d :
  (forall x, NoDup (succs g x)) -> forall x, NoDup (succs (add_succ g s d) x).
Proof.
  intros NS x. rewrite succs_add_succ. destruct (Nat.eqb s x); [|apply NS].
  destruct (memb d (succs g s)) eqn:M; [apply NS|].
  apply NoDup_snoc; [apply NS|]. apply memb_false. exact M.
Qed.

(* ================= wf_graph: basic facts ================= *)
Lemma wf_nil : wf_graph [].
Proof.
  split; [constructor|split].
  - intros x. constructor.
  - intros x y [].
Qed.

Lemma wf_add_node g v : wf_graph g -> wf_graph (add_node g v).
Proof. intros WF. apply (add_node_spec g v WF). Qed.

(* one step of the edge loop of DiGraph.__init__ *)
Definition edge_step (g : graph) (e : nat * nat) : graph :=
  add_node (add_succ g (fst e) (snd e)) (snd e).

Lemma nodes_edge_step g s d x :
  In x (nodes (edge_step g (s, d))) <-> In x (nodes g) \/ x = s \/ x = d.
Proof. unfold edge_step. simpl. rewrite nodes_add_node, nodes_add_succ. tauto. Qed.

Lemma edge_edge_step g s d x y :
  edge (edge_step g (s, d)) x y <-> edge g x y \/ (x = s /\ y = d).
Proof. unfold edge_step. simpl. rewrite edge_add_node, edge_add_succ. tauto. Qed.

Lemma wf_edge_step g s d : wf_graph g -> wf_graph (edge_step g (s, d)).
Proof.
  intros (ND & NS & Hc). split; [|split].
  - unfold edge_step. simpl. apply NoDup_nodes_add_node, NoDup_nodes_add_succ, ND.
  - intros x. unfold edge_step. simpl. rewrite succs_add_node.
    apply NoDup_succs_add_succ. exact NS.
  - intros x y He. apply edge_edge_step in He. rewrite !nodes_edge_step.
    destruct He as [He|[-> ->]]; [destruct (Hc x y He)|]; tauto.
Qed.

(* ================= mk_graph ================= *)
Lemma fold_add_node_spec V : forall g, wf_graph g ->
  let g' := fold_left add_node V g in
  wf_graph g' /\
  (forall x, In x (nodes g') <-> In x (nodes g) \/ In x V) /\
  (forall x y, edge g' x y <-> edge g x y).
Proof.
  induction V as [|v V IH]; intros g WF; simpl.
  - split; [exact WF|]. split; intros; tauto.
  - destruct (IH (add_node g v) (wf_add_node g v WF)) as (A & B & C).
    split; [exact A|]. split.
    + intros x. rewrite B, nodes_add_node. split; [|intros [H|[H|H]]; auto]; intros [[H|H]|H]; auto.
    + intros x y. rewrite C. apply edge_add_node.
Qed.

Lemma fold_edge_step_spec E : forall g, wf_graph g ->
  let g' := fold_left edge_step E g in
  wf_graph g' /\
  (forall x, In x (nodes g') <-> In x (nodes g) \/ exists y, In (x, y) E \/ In (y, x) E) /\
  (forall x y, edge g' x y <-> edge g x y \/ In (x, y) E).
Proof.
  induction E as [|[s d] E IH]; intros g WF; simpl.
  - split; [exact WF|]. split.
    + intros x. split; [tauto|]. intros [H|(y & [[]|[]])]. exact H.
    + intros x y. tauto.
  - destruct (IH (edge_step g (s, d)) (wf_edge_step g s d WF)) as (A & B & C).
    split; [exact A|]. split.
    + intros x. rewrite B, nodes_edge_step. split.
      * intros [[H|[H|H]]|(y & [H|H])].
        -- left; exact H.
        -- subst. right. exists d. left. left. reflexivity.
        -- subst. right. exists s. right. left. reflexivity.
        -- right. exists y. left. right. exact H.
        -- right. exists y. right. right. exact H.
      * intros [H|(y & [[H|H]|[H|H]])].
        -- left. left. exact H.
        -- inversion H; subst. left. right. left. reflexivity.
        -- right. exists y. left. exact H.
        -- inversion H; subst. left. right. right. reflexivity.
        -- right. exists y. right. exact H.
    + intros x y. rewrite C, edge_edge_step. split.
      * intros [[H|[-> ->]]|H]; auto.
      * intros [H|[H|H]]; auto. inversion H; subst. left. right. split; reflexivity.
Qed.

Lemma mk_graph_unfold V E : mk_graph V E = fold_left edge_step E (fold_left add_node V []).
Proof. reflexivity. Qed.

Lemma mk_graph_spec : mk_graph_spec_stmt.
Proof.
  intros V E. rewrite mk_graph_unfold.
  destruct (fold_add_node_spec V [] wf_nil) as (A & B & C).
  destruct (fold_edge_step_spec E _ A) as (A' & B' & C').
  split; [exact A'|]. split.
  - intros x. rewrite B', B. simpl. tauto.
  - intros x y. rewrite C', C. unfold edge at 1. simpl. tauto.
Qed.

(* ================= edges ================= *)
Lemma in_edges g x y : In (x, y) (edges g) <-> exists ds, In (x, ds) g /\ In y ds.
Proof.
  unfold edges. rewrite in_flat_map. split.
  - intros ([a ds] & Hin & Hm). simpl in Hm. apply in_map_iff in Hm.
    destruct Hm as (d & Heq & Hd). inversion Heq; subst. exists ds. split; assumption.
  - intros (ds & Hin & Hy). exists (x, ds). split; [exact Hin|]. simpl.
    apply in_map_iff. exists y. split; [reflexivity|exact Hy].
Qed.

Lemma edges_edge g x y : NoDup (nodes g) -> (In (x, y) (edges g) <-> edge g x y).
Proof.
  intros ND. rewrite in_edges. unfold edge. split.
  - intros (ds & Hin & Hy). rewrite (succs_In_assoc g x ds ND Hin). exact Hy.
  - intros Hy. exists (succs g x). split; [|exact Hy].
    apply succs_assoc_In. apply (edge_src_node g x y). exact Hy.
Qed.

Lemma edges_spec : edges_spec_stmt.
Proof. intros g x y (ND & _). apply edges_edge. exact ND. Qed.

(* ================= reversed ================= *)
Lemma reversed_spec : reversed_spec_stmt.
Proof.
  intros g WF. unfold reversed.
  destruct (mk_graph_spec (nodes g) (map (fun e => (snd e, fst e)) (edges g))) as (A & B & C).
  assert (Hin : forall x y, In (x, y) (map (fun e : nat * nat => (snd e, fst e)) (edges g)) <-> edge g y x).
  { intros x y. rewrite in_map_iff. split.
    - intros ([a b] & Heq & Hin). simpl in Heq. inversion Heq; subst.
      apply (edges_spec g y x WF). exact Hin.
    - intros He. exists (y, x). split; [reflexivity|]. apply (edges_spec g y x WF). exact He. }
  split; [exact A|]. split.
  - intros x. rewrite B. split; [|tauto].
    destruct WF as (_ & _ & Hc).
    intros [H|(y & [H|H])]; [exact H| |]; apply Hin in H; destruct (Hc _ _ H); assumption.
  - intros x y. rewrite C. apply Hin.
Qed.

Lemma reversed_involutive : forall g, wf_graph g ->
  (forall x, In x (nodes (reversed (reversed g))) <-> In x (nodes g)) /\
  (forall x y, edge (reversed (reversed g)) x y <-> edge g x y).
Proof.
  intros g WF. destruct (reversed_spec g WF) as (A & B & C).
  destruct (reversed_spec (reversed g) A) as (A' & B' & C').
  split.
  - intros x. rewrite B'. apply B.
  - intros x y. rewrite C'. apply C.
Qed.

(* ================= subgraph ================= *)
Lemma subgraph_spec : subgraph_spec_stmt.
Proof.
  intros g X WF. unfold subgraph.
  set (V := filter (fun v => memb v X) (nodes g)).
  set (E := filter (fun e : nat * nat => memb (fst e) V && memb (snd e) V) (edges g)).
  destruct (mk_graph_spec V E) as (A & B & C).
  assert (HV : forall x, In x V <-> In x X /\ In x (nodes g)).
  { intros x. unfold V. rewrite filter_In, memb_In. tauto. }
  assert (HE : forall x y, In (x, y) E <-> edge g x y /\ In x X /\ In y X).
  { intros x y. unfold E. rewrite filter_In. simpl. rewrite andb_true_iff, !memb_In, !HV.
    rewrite (edges_spec g x y WF). destruct WF as (_ & _ & Hc). split; [tauto|].
    intros (He & Hx & Hy). destruct (Hc x y He). tauto. }
  split; [exact A|]. split.
  - intros x. rewrite B, HV. split; [|tauto].
    destruct WF as (_ & _ & Hc).
    intros [H|(y & [H|H])]; [exact H| |]; apply HE in H; destruct H as (He & Hx & Hy);
      destruct (Hc _ _ He); tauto.
  - intros x y. rewrite C. apply HE.
Qed.

(* ================= add_node_r / add_edge_r / add_edge_silent ================= *)
Lemma add_node_r_spec : forall g v,
  add_node_r g v = if has_node g v then RuntimeErr else Ok (add_node g v).
Proof.
  intros g v. unfold add_node_r, add_node. destruct (has_node g v); reflexivity.
Qed.

Lemma add_edge_r_cond g s d : has_node g s && memb d (succs g s) = true <-> edge g s d.
Proof.
  rewrite andb_true_iff, has_node_In, memb_In. unfold edge. split; [tauto|].
  intros H. split; [|exact H]. apply (edge_src_node g s d). exact H.
Qed.

Lemma add_edge_r_err : forall g s d, add_edge_r g s d = RuntimeErr <-> edge g s d.
Proof.
  intros g s d. rewrite <- add_edge_r_cond. unfold add_edge_r.
  destruct (has_node g s && memb d (succs g s)); split; congruence.
Qed.

Lemma add_edge_r_ok : forall g s d g', add_edge_r g s d = Ok g' ->
  ~ edge g s d /\ g' = add_succ (add_node (add_node g s) d) s d.
Proof.
  intros g s d g' H. unfold add_edge_r in H.
  destruct (has_node g s && memb d (succs g s)) eqn:E; [discriminate|].
  split; [|congruence]. rewrite <- add_edge_r_cond. congruence.
Qed.

Lemma add_edge_r_total g s d : add_edge_r g s d = RuntimeErr \/ exists g', add_edge_r g s d = Ok g'.
Proof.
  unfold add_edge_r. destruct (has_node g s && memb d (succs g s)); [left; reflexivity|].
  right. eexists. reflexivity.
Qed.

Lemma add_edge_r_spec : forall g s d g', wf_graph g -> add_edge_r g s d = Ok g' ->
  wf_graph g' /\
  (forall x, In x (nodes g') <-> In x (nodes g) \/ x = s \/ x = d) /\
  (forall x y, edge g' x y <-> edge g x y \/ (x = s /\ y = d)).
Proof.
  intros g s d g' WF H. apply add_edge_r_ok in H. destruct H as (_ & ->).
  assert (WF2 : wf_graph (add_node (add_node g s) d)) by (apply wf_add_node, wf_add_node, WF).
  destruct WF2 as (ND & NS & Hc).
  assert (HN : forall x, In x (nodes (add_succ (add_node (add_node g s) d) s d)) <->
                         In x (nodes g) \/ x = s \/ x = d).
  { intros x. rewrite nodes_add_succ, !nodes_add_node. tauto. }
  assert (HE : forall x y, edge (add_succ (add_node (add_node g s) d) s d) x y <->
                           edge g x y \/ (x = s /\ y = d)).
  { intros x y. rewrite edge_add_succ, !edge_add_node. tauto. }
  split; [|split; [exact HN|exact HE]].
  split; [|split].
  - apply NoDup_nodes_add_succ. exact ND.
  - apply NoDup_succs_add_succ. exact NS.
  - intros x y He. rewrite !HN. apply HE in He. destruct He as [He|[-> ->]]; [|tauto].
    destruct WF as (_ & _ & Hc0). destruct (Hc0 x y He). tauto.
Qed.

Lemma add_edge_silent_spec : add_edge_silent_spec_stmt.
Proof.
  intros g s d WF. unfold add_edge_silent.
  destruct (add_edge_r_total g s d) as [H|(g' & H)]; rewrite H.
  - apply add_edge_r_err in H. split; [exact WF|]. split.
    + intros x. split; [tauto|]. destruct WF as (_ & _ & Hc). destruct (Hc s d H).
      intros [Hx|[-> | ->]]; assumption.
    + intros x y. split; [tauto|]. intros [Hx|[-> ->]]; assumption.
  - apply (add_edge_r_spec g s d g' WF H).
Qed.

(* ================= clone ================= *)
Lemma clone_id : forall g, clone g = g.
Proof.
  unfold clone. induction g as [|[a ds] g IH]; simpl; [reflexivity|]. rewrite IH. reflexivity.
Qed.

(* ================= reach ================= *)
Lemma reach_step_fold ds : forall q R q' R', fold_left reach_step ds (q, R) = (q', R') ->
  NoDup R ->
  NoDup R' /\ (forall x, In x R' <-> In x R \/ In x ds) /\
  (forall x, In x q' <-> In x q \/ (In x ds /\ ~ In x R)) /\
  length q' + length R = length q + length R'.
Proof.
  induction ds as [|d ds IH]; intros q R q' R' H ND.
  - simpl in H. inversion H; subst. split; [assumption|].
    split; [intros x; simpl; tauto|]. split; [intros x; simpl; tauto|reflexivity].
  - cbn [fold_left] in H. unfold reach_step at 2 in H. destruct (memb d R) eqn:E.
    + apply memb_In in E. destruct (IH _ _ _ _ H ND) as (A & B & C & D).
      split; [assumption|]. split; [|split; [|assumption]].
      * intros x. rewrite B. simpl. split; [tauto|]. intros [Hx|[<-|Hx]]; tauto.
      * intros x. rewrite C. simpl. split; [tauto|]. intros [Hx|[[<-|Hx] Hn]]; tauto.
    + apply memb_false in E.
      assert (ND' : NoDup (R ++ [d])) by (apply NoDup_snoc; assumption).
      destruct (IH _ _ _ _ H ND') as (A & B & C & D).
      split; [assumption|]. split; [|split].
      * intros x. rewrite B, in_app_iff. simpl. tauto.
      * intros x. rewrite C, in_app_iff. simpl. split.
        -- intros [[<-|Hx]|[Hx Hn]]; tauto.
        -- intros [Hx|[[<-|Hx] Hn]]; try tauto.
           destruct (Nat.eq_dec x d) as [->|Hne]; [tauto|]. right. split; [exact Hx|].
           intros [?|[?|[]]]; [tauto|congruence].
      * rewrite app_length in D. simpl in *. lia.
Qed.

Lemma reach_loop_S f g s q R :
  reach_loop (S f) g (s :: q) R =
  reach_loop f g (fst (fold_left reach_step (succs g s) (q, R)))
                 (snd (fold_left reach_step (succs g s) (q, R))).
Proof. cbn [reach_loop]. destruct (fold_left reach_step (succs g s) (q, R)); reflexivity. Qed.

Section Reach.
  Variable g : graph.
  Hypothesis WF : wf_graph g.
  Variable X : list nat.

  Definition reach_sound (R : list nat) := forall y, In y R -> exists x, In x X /\ reaches g x y.
  Definition closed_but (q R : list nat) :=
    forall x y, In x R -> ~ In x q -> edge g x y -> In y R.

  Lemma reach_loop_correct fuel : forall q R,
    NoDup R -> incl R (nodes g) -> incl q R -> incl X R -> reach_sound R -> closed_but q R ->
    length q + length (nodes g) < fuel + length R ->
    let R' := reach_loop fuel g q R in
    NoDup R' /\ reach_sound R' /\ incl X R' /\ closed_but [] R'.
  Proof.
    induction fuel as [|fuel IH]; intros q R ND Hn Hq HX Hs Hc Hf.
    - assert (length R <= length (nodes g)) by (apply NoDup_incl_length; assumption). lia.
    - destruct q as [|s q].
      + simpl. repeat split; auto.
      + cbv zeta. rewrite reach_loop_S.
        destruct (fold_left reach_step (succs g s) (q, R)) as [q' R'] eqn:E.
        cbn [fst snd].
        destruct (reach_step_fold _ _ _ _ _ E ND) as (A & B & C & D).
        apply IH; auto.
        * intros x Hx. apply B in Hx. destruct Hx as [Hx|Hx]; [auto|].
          apply (proj2 (proj2 WF)) in Hx. tauto.
        * intros x Hx. apply C in Hx. apply B.
          destruct Hx as [Hx|[Hx _]]; [left; apply Hq; right; exact Hx|tauto].
        * intros x Hx. apply B. left. auto.
        * intros y Hy. apply B in Hy. destruct Hy as [Hy|Hy]; [auto|].
          destruct (Hs s) as (x & Hx & Hr); [apply Hq; left; reflexivity|].
          exists x. split; [exact Hx|]. eapply r_step; eauto.
        * intros x y Hx Hnq He. apply B. apply B in Hx.
          assert (Hold : In x R -> In y R \/ In y (succs g s)).
          { intros HxR. destruct (Nat.eq_dec x s) as [->|Hne]; [right; exact He|].
            left. apply (Hc x y); auto. intros [?|Hin]; [congruence|]. apply Hnq. apply C. tauto. }
          destruct Hx as [Hx|Hx]; [auto|].
          destruct (in_dec Nat.eq_dec x R) as [HxR|HxR]; [auto|].
          exfalso. apply Hnq. apply C. tauto.
        * simpl in Hf. lia.
  Qed.

  Hypothesis XN : incl X (nodes g).

  Lemma reach_exact_sec :
    NoDup (reach g X) /\
    forall y, In y (reach g X) <-> exists x, In x X /\ reaches g x y.
  Proof.
    unfold reach.
    destruct (reach_loop_correct (length X + length g + 1) (rev X) (dedup X)) as (S0 & S1 & S2 & S3).
    - apply dedup_NoDup.
    - intros x Hx. rewrite dedup_In in Hx. apply XN. exact Hx.
    - intros x Hx. apply in_rev in Hx. rewrite dedup_In. exact Hx.
    - intros x Hx. rewrite dedup_In. exact Hx.
    - intros y Hy. rewrite dedup_In in Hy. exists y. split; [exact Hy|constructor].
    - intros x y Hx Hnq He. exfalso. apply Hnq. rewrite <- in_rev. rewrite dedup_In in Hx. exact Hx.
    - rewrite rev_length. unfold nodes. rewrite map_length. lia.
    - split; [exact S0|]. intros y. split; [apply S1|]. intros (x & Hx & Hr).
      induction Hr as [x|x y z Hr IHr He]; [apply S2; exact Hx|].
      apply (S3 y z); auto.
  Qed.
End Reach.

Lemma reach_exact : reach_exact_stmt.
Proof. intros g X WF XN. apply reach_exact_sec; assumption. Qed.

Lemma reach_r_ok : forall g X, incl X (nodes g) -> reach_r g X = Ok (reach g X).
Proof.
  intros g X H. unfold reach_r.
  assert (E : forallb (has_node g) X = true).
  { apply forallb_forall. intros x Hx. apply has_node_In. apply H. exact Hx. }
  rewrite E. reflexivity.
Qed.

Lemma reach_r_err : forall g X x, In x X -> ~ In x (nodes g) -> reach_r g X = RuntimeErr.
Proof.
  intros g X x Hx Hn. unfold reach_r.
  destruct (forallb (has_node g) X) eqn:E; [|reflexivity].
  exfalso. apply Hn. apply has_node_In. rewrite forallb_forall in E. apply E. exact Hx.
Qed.

(* reach_r is total: Ok exactly when all start nodes are nodes *)
Lemma reach_r_ok_iff : forall g X, (exists R, reach_r g X = Ok R) <-> incl X (nodes g).
Proof.
  intros g X. split.
  - intros (R & H) x Hx. destruct (in_dec Nat.eq_dec x (nodes g)) as [Hi|Hn]; [exact Hi|].
    rewrite (reach_r_err g X x Hx Hn) in H. discriminate.
  - intros H. eexists. apply reach_r_ok. exact H.
Qed.

(* ================= reaches under edge-relation changes ================= *)
Lemma reaches_mono g h x y :
  (forall a b, edge g a b -> edge h a b) -> reaches g x y -> reaches h x y.
Proof.
  intros Hm H. induction H as [x|x y z Hxy IH Hyz]; [apply r_refl|].
  eapply r_step; [exact IH|apply Hm; exact Hyz].
Qed.

Lemma reaches_flip g h x y :
  (forall a b, edge g a b -> edge h b a) -> reaches g x y -> reaches h y x.
Proof.
  intros Hm H. induction H as [x|x y z Hxy IH Hyz]; [apply r_refl|].
  eapply reaches_step_l; [apply Hm; exact Hyz|exact IH].
Qed.

Lemma reaches_reversed g x y : wf_graph g -> (reaches (reversed g) x y <-> reaches g y x).
Proof.
  intros WF. destruct (reversed_spec g WF) as (_ & _ & C).
  split; apply reaches_flip; intros a b H; apply C; exact H.
Qed.

Print Assumptions reach_exact.
Print Assumptions mk_graph_spec.
Print Assumptions edges_spec.
Print Assumptions reversed_spec.
Print Assumptions subgraph_spec.
Print Assumptions add_node_spec.
Print Assumptions add_edge_silent_spec.
Print Assumptions clone_id.
Print Assumptions reach_r_ok.
Print Assumptions reach_r_err.
Print Assumptions reversed_involutive.
Print Assumptions add_node_r_spec.
Print Assumptions add_edge_r_spec.
Print Assumptions add_edge_r_err.
