(* PrintP.v — the formula printers of Model/Print.v are injective on well-formed formulas
   over identifier atoms; coherence of the printed-form based equality / hash.
   Axiom-free. *)
From Coq Require Import List Arith Bool Lia String Ascii.
From PMC Require Import Model.Base Model.Syntax Model.Print.
Import ListNotations.
Local Open Scope string_scope.

(* ------------------------------------------------------------------ *)
(** * Identifiers, reserved words *)

Definition ident_start (c : ascii) : bool :=
  let n := nat_of_ascii c in
  (((65 <=? n) && (n <=? 90)) || ((97 <=? n) && (n <=? 122)) || (n =? 95))%nat.
Definition ident_char (c : ascii) : bool :=
  let n := nat_of_ascii c in
  ident_start c || ((48 <=? n) && (n <=? 57))%nat.
Fixpoint all_ic (s : string) : bool :=
  match s with
  | EmptyString => true
  | String c t => ident_char c && all_ic t
  end.
(* [a-zA-Z_][a-zA-Z_0-9]* *)
Definition is_ident (a : string) : bool :=
  match a with
  | EmptyString => false
  | String c t => ident_start c && all_ic t
  end.
Definition reserved (a : string) : bool :=
  mema a ["true"; "false"; "not"; "or"; "and"; "A"; "E"; "X"; "F"; "G"; "U"; "R"].

Fixpoint ident_atoms (f : form) : bool :=
  match f with
  | FBool _ => true
  | FAtom a => is_ident a && negb (reserved a)
  | FNot g | FX g | FF g | FG g | FA g | FE g => ident_atoms g
  | FOr fs | FAnd fs => forallb ident_atoms fs
  | FImp g h | FU g h | FR g h => ident_atoms g && ident_atoms h
  end.

(* ------------------------------------------------------------------ *)
(** * Strings: associativity, tokens *)

Lemma sapp_assoc (a b c : string) : (a ++ b) ++ c = a ++ (b ++ c).
Proof. induction a as [|x a IH]; simpl; [reflexivity|]. rewrite IH. reflexivity. Qed.

Lemma sapp_nil_r (a : string) : a ++ "" = a.
Proof. induction a as [|x a IH]; simpl; [reflexivity|]. rewrite IH. reflexivity. Qed.

Lemma sapp_inv_head (a b c : string) : a ++ b = a ++ c -> b = c.
Proof.
  induction a as [|x a IH]; simpl; intros H; [exact H|].
  injection H as H. apply IH. exact H.
Qed.

(* a remainder is "delimited" when it is empty or starts with a non-identifier character *)
Definition delim (r : string) : bool :=
  match r with
  | EmptyString => true
  | String c _ => negb (ident_char c)
  end.

(* the first token is determined *)
Lemma token_unique (a b r r' : string) :
  all_ic a = true -> all_ic b = true -> delim r = true -> delim r' = true ->
  a ++ r = b ++ r' -> a = b /\ r = r'.
Proof.
  revert b. induction a as [|x a IH]; intros b Ha Hb Hr Hr' H.
  - destruct b as [|y b]; simpl in H.
    + split; [reflexivity|exact H].
    + exfalso. subst r. simpl in Hr, Hb.
      apply andb_true_iff in Hb. destruct Hb as [Hy _]. rewrite Hy in Hr. discriminate.
  - destruct b as [|y b]; simpl in H.
    + exfalso. subst r'. simpl in Hr', Ha.
      apply andb_true_iff in Ha. destruct Ha as [Hx _]. rewrite Hx in Hr'. discriminate.
    + injection H as Hxy H. subst y. simpl in Ha, Hb.
      apply andb_true_iff in Ha. destruct Ha as [_ Ha].
      apply andb_true_iff in Hb. destruct Hb as [_ Hb].
      destruct (IH b Ha Hb Hr Hr' H) as [E1 E2]. subst. split; reflexivity.
Qed.

Lemma is_ident_all_ic a : is_ident a = true -> all_ic a = true.
Proof.
  destruct a as [|c a]; simpl; [discriminate|]. intros H.
  apply andb_true_iff in H. destruct H as [Hc Ha]. rewrite Ha.
  unfold ident_char. rewrite Hc. reflexivity.
Qed.

(* an identifier atom that is not reserved cannot be followed so as to look like a keyword
   token [k] (or like the empty token, i.e. a non-identifier first character) *)
Lemma atom_tok (a r k t : string) :
  is_ident a = true -> reserved a = false -> delim r = true ->
  a ++ r = k ++ t ->
  all_ic k = true -> delim t = true -> (reserved k = true \/ k = "") -> False.
Proof.
  intros Ha Hres Hr H Hk Ht Hkk.
  destruct (token_unique a k r t (is_ident_all_ic a Ha) Hk Hr Ht H) as [E _]. subst k.
  destruct Hkk as [Hk'|Hk'].
  - rewrite Hk' in Hres. discriminate.
  - subst a. discriminate.
Qed.

(* prefix test with computable character comparison *)
Fixpoint pre (k s : string) : bool :=
  match k with
  | EmptyString => true
  | String c k' =>
      match s with
      | EmptyString => false
      | String d s' => Ascii.eqb c d && pre k' s'
      end
  end.

Lemma pre_spec k s : pre k s = true -> exists t, s = k ++ t.
Proof.
  revert s. induction k as [|c k IH]; intros s H; simpl in H.
  - exists s. reflexivity.
  - destruct s as [|d s]; [discriminate|].
    apply andb_true_iff in H. destruct H as [Hc Hk].
    apply Ascii.eqb_eq in Hc. subst d.
    destruct (IH s Hk) as [t Ht]. exists t. simpl. rewrite Ht. reflexivity.
Qed.

(* the separators that may follow an operand *)
Definition starts_kw (s : string) : bool :=
  pre "or " s || pre "and " s || pre "--> " s || pre "U " s || pre "R " s.

(* remainders that can follow a printed sub-formula: end of string, a closing parenthesis,
   or one of the infix separators *)
Definition rem (r : string) : bool :=
  match r with
  | EmptyString => true
  | String c t => Ascii.eqb c ")" || (Ascii.eqb c " " && starts_kw t)
  end.

Lemma rem_delim r : rem r = true -> delim r = true.
Proof.
  destruct r as [|c t]; simpl; [reflexivity|]. intros H.
  apply orb_true_iff in H. destruct H as [H|H].
  - apply Ascii.eqb_eq in H. subst c. reflexivity.
  - apply andb_true_iff in H. destruct H as [H _]. apply Ascii.eqb_eq in H. subst c. reflexivity.
Qed.

(* ------------------------------------------------------------------ *)
(** * Induction principle for the nested type [form] *)

Section FormInd.
  Variable P : form -> Prop.
  Hypothesis HBool : forall b, P (FBool b).
  Hypothesis HAtom : forall a, P (FAtom a).
  Hypothesis HNot : forall f, P f -> P (FNot f).
  Hypothesis HOr : forall fs, Forall P fs -> P (FOr fs).
  Hypothesis HAnd : forall fs, Forall P fs -> P (FAnd fs).
  Hypothesis HImp : forall f g, P f -> P g -> P (FImp f g).
  Hypothesis HX : forall f, P f -> P (FX f).
  Hypothesis HF : forall f, P f -> P (FF f).
  Hypothesis HG : forall f, P f -> P (FG f).
  Hypothesis HU : forall f g, P f -> P g -> P (FU f g).
  Hypothesis HR : forall f g, P f -> P g -> P (FR f g).
  Hypothesis HA : forall f, P f -> P (FA f).
  Hypothesis HE : forall f, P f -> P (FE f).

  Fixpoint form_ind' (f : form) : P f :=
    let fix go (l : list form) : Forall P l :=
        match l with
        | [] => Forall_nil P
        | x :: r => Forall_cons x (form_ind' x) (go r)
        end in
    match f with
    | FBool b => HBool b
    | FAtom a => HAtom a
    | FNot g => HNot g (form_ind' g)
    | FOr fs => HOr fs (go fs)
    | FAnd fs => HAnd fs (go fs)
    | FImp g h => HImp g h (form_ind' g) (form_ind' h)
    | FX g => HX g (form_ind' g)
    | FF g => HF g (form_ind' g)
    | FG g => HG g (form_ind' g)
    | FU g h => HU g h (form_ind' g) (form_ind' h)
    | FR g h => HR g h (form_ind' g) (form_ind' h)
    | FA g => HA g (form_ind' g)
    | FE g => HE g (form_ind' g)
    end.
End FormInd.

(* ------------------------------------------------------------------ *)
(** * Unique decomposition: generic part (parenthesised n-ary / binary forms) *)

(* [D p ok f]: a printed [f] followed by an admissible remainder can be read back in one way only *)
Definition D (p : form -> string) (ok : form -> bool) (f : form) : Prop :=
  forall g r r', ok g = true -> rem r = true -> rem r' = true ->
                 p f ++ r = p g ++ r' -> f = g /\ r = r'.

(* printed operands [y :: l] separated by [sep], then ")" and the remainder *)
Fixpoint joinr (p : form -> string) (sep : string) (y : form) (l : list form) (r : string) : string :=
  match l with
  | [] => p y ++ String ")" r
  | z :: t => p y ++ (sep ++ joinr p sep z t r)
  end.

Lemma join_joinr p sep l : forall y r,
  join sep (map p (y :: l)) ++ String ")" r = joinr p sep y l r.
Proof.
  induction l as [|z t IH]; intros y r.
  - reflexivity.
  - change (join sep (map p (y :: z :: t))) with (p y ++ sep ++ join sep (map p (z :: t))).
    rewrite !sapp_assoc. rewrite IH. reflexivity.
Qed.

Lemma print_nary_app p sym x y l r :
  print_nary sym (map p (x :: y :: l)) ++ r =
  String "(" (p x ++ ((" " ++ sym ++ " ") ++ joinr p (" " ++ sym ++ " ") y l r)).
Proof.
  rewrite <- join_joinr.
  change (map p (x :: y :: l)) with (p x :: p y :: map p l).
  change (map p (y :: l)) with (p y :: map p l).
  unfold print_nary.
  change (join (" " ++ sym ++ " ") (p x :: p y :: map p l))
    with (p x ++ (" " ++ sym ++ " ") ++ join (" " ++ sym ++ " ") (p y :: map p l)).
  generalize (join (" " ++ sym ++ " ") (p y :: map p l)). intros j.
  generalize (" " ++ sym ++ " "). intros sep.
  change (String "(" (((p x ++ sep ++ j) ++ ")") ++ r) = String "(" (p x ++ sep ++ j ++ String ")" r)).
  rewrite !sapp_assoc. reflexivity.
Qed.

Lemma rem_paren t : rem (String ")" t) = true.
Proof. reflexivity. Qed.

Lemma joinr_inj p ok sep
  (Hs : forall t, rem (sep ++ t) = true)
  (Hd : forall t t', sep ++ t <> String ")" t') :
  forall l y, Forall (D p ok) (y :: l) ->
  forall l' y' r r', forallb ok (y' :: l') = true ->
    joinr p sep y l r = joinr p sep y' l' r' -> y :: l = y' :: l' /\ r = r'.
Proof.
  induction l as [|z t IH]; intros y HD l' y' r r' Hok H.
  - inversion HD as [|? ? Dy _]; subst.
    simpl in Hok. apply andb_true_iff in Hok. destruct Hok as [Hy' Hl'].
    destruct l' as [|z' t']; simpl in H.
    + destruct (Dy y' _ _ Hy' (rem_paren _) (rem_paren _) H) as [E1 E2]. subst y'.
      injection E2 as E2. split; [reflexivity|exact E2].
    + destruct (Dy y' _ _ Hy' (rem_paren _) (Hs _) H) as [_ E2].
      exfalso. symmetry in E2. exact (Hd _ _ E2).
  - inversion HD as [|? ? Dy HD']; subst.
    simpl in Hok. apply andb_true_iff in Hok. destruct Hok as [Hy' Hl'].
    destruct l' as [|z' t']; simpl in H.
    + destruct (Dy y' _ _ Hy' (Hs _) (rem_paren _) H) as [_ E2].
      exfalso. exact (Hd _ _ E2).
    + destruct (Dy y' _ _ Hy' (Hs _) (Hs _) H) as [E1 E2]. subst y'.
      apply sapp_inv_head in E2.
      destruct (IH z HD' t' z' r r' Hl' E2) as [E3 E4].
      rewrite E3. split; [reflexivity|exact E4].
Qed.

Lemma bin_app (a sep b r : string) :
  ("(" ++ a ++ sep ++ b ++ ")") ++ r = String "(" (a ++ (sep ++ (b ++ String ")" r))).
Proof. simpl. rewrite !sapp_assoc. reflexivity. Qed.

Lemma forallb_andb {A} (a b : A -> bool) l :
  forallb (fun x => a x && b x) l = forallb a l && forallb b l.
Proof.
  induction l as [|x l IH]; simpl; [reflexivity|]. rewrite IH.
  destruct (a x), (b x), (forallb a l); reflexivity.
Qed.

Lemma Forall_imp_forallb (P : form -> Prop) (ok : form -> bool) l :
  Forall (fun f => ok f = true -> P f) l -> forallb ok l = true -> Forall P l.
Proof.
  induction 1 as [|x l Hx _ IH]; intros H; [constructor|].
  simpl in H. apply andb_true_iff in H. destruct H as [H1 H2].
  constructor; [exact (Hx H1)|exact (IH H2)].
Qed.

Lemma two_le_length {A} (l : list A) : (2 <=? List.length l)%nat = true -> exists x y t, l = x :: y :: t.
Proof.
  destruct l as [|x [|y t]]; simpl; try discriminate. intros _. exists x, y, t. reflexivity.
Qed.

(* ------------------------------------------------------------------ *)
(** * [print_std] *)

Definition okstd (f : form) : bool := ident_atoms f && arity_ok f.

Lemma okstd_bin (g h : form) :
  ident_atoms g && ident_atoms h && (arity_ok g && arity_ok h) = true ->
  okstd g = true /\ okstd h = true.
Proof.
  unfold okstd. destruct (ident_atoms g), (ident_atoms h), (arity_ok g), (arity_ok h);
    simpl; intros H; try discriminate; split; reflexivity.
Qed.

Lemma okstd_list (fs : list form) :
  forallb ident_atoms fs && ((2 <=? List.length fs)%nat && forallb arity_ok fs) = true ->
  exists x y l, fs = x :: y :: l /\ forallb okstd fs = true.
Proof.
  intros H. apply andb_true_iff in H. destruct H as [H1 H]. apply andb_true_iff in H.
  destruct H as [H2 H3]. destruct (two_le_length fs H2) as (x & y & l & E).
  exists x, y, l. split; [exact E|]. unfold okstd. rewrite forallb_andb, H1, H3. reflexivity.
Qed.

Lemma okstd_atom a : okstd (FAtom a) = true -> is_ident a = true /\ reserved a = false.
Proof.
  unfold okstd. simpl. rewrite andb_true_r. intros H. apply andb_true_iff in H.
  destruct H as [H1 H2]. split; [exact H1|]. destruct (reserved a); [discriminate|reflexivity].
Qed.

(* normal forms of [print_std f ++ r] *)
Lemma std_not g r : print_std (FNot g) ++ r = "not " ++ (print_std g ++ r).
Proof. reflexivity. Qed.
Lemma std_or x y l r :
  print_std (FOr (x :: y :: l)) ++ r
  = String "(" (print_std x ++ (" or " ++ joinr print_std " or " y l r)).
Proof. exact (print_nary_app print_std "or" x y l r). Qed.
Lemma std_and x y l r :
  print_std (FAnd (x :: y :: l)) ++ r
  = String "(" (print_std x ++ (" and " ++ joinr print_std " and " y l r)).
Proof. exact (print_nary_app print_std "and" x y l r). Qed.
Lemma std_imp g h r :
  print_std (FImp g h) ++ r = String "(" (print_std g ++ (" --> " ++ (print_std h ++ String ")" r))).
Proof. exact (bin_app _ _ _ _). Qed.
Lemma std_u g h r :
  print_std (FU g h) ++ r = String "(" (print_std g ++ (" U " ++ (print_std h ++ String ")" r))).
Proof. exact (bin_app _ _ _ _). Qed.
Lemma std_r g h r :
  print_std (FR g h) ++ r = String "(" (print_std g ++ (" R " ++ (print_std h ++ String ")" r))).
Proof. exact (bin_app _ _ _ _). Qed.
Lemma std_x g r : print_std (FX g) ++ r = "X(" ++ (print_std g ++ String ")" r).
Proof. simpl. rewrite sapp_assoc. reflexivity. Qed.
Lemma std_f g r : print_std (FF g) ++ r = "F(" ++ (print_std g ++ String ")" r).
Proof. simpl. rewrite sapp_assoc. reflexivity. Qed.
Lemma std_g g r : print_std (FG g) ++ r = "G(" ++ (print_std g ++ String ")" r).
Proof. simpl. rewrite sapp_assoc. reflexivity. Qed.
Lemma std_a g r : print_std (FA g) ++ r = "A(" ++ (print_std g ++ String ")" r).
Proof. simpl. rewrite sapp_assoc. reflexivity. Qed.
Lemma std_e g r : print_std (FE g) ++ r = "E(" ++ (print_std g ++ String ")" r).
Proof. simpl. rewrite sapp_assoc. reflexivity. Qed.

(* ------------------------------------------------------------------ *)
(** * Parenthesised forms, generically *)

Definition seps : list string := [" or "; " and "; " --> "; " U "; " R "].

Lemma seps_rem s : In s seps -> forall t, rem (s ++ t) = true.
Proof.
  unfold seps. simpl. intros [E|[E|[E|[E|[E|[]]]]]] t; subst s; reflexivity.
Qed.
Lemma seps_not_paren s : In s seps -> forall t t', s ++ t <> String ")" t'.
Proof.
  unfold seps. simpl. intros [E|[E|[E|[E|[E|[]]]]]] t t'; subst s; simpl; discriminate.
Qed.
Lemma seps_inj s s' t t' : In s seps -> In s' seps -> s ++ t = s' ++ t' -> s = s' /\ t = t'.
Proof.
  unfold seps. simpl.
  intros [E|[E|[E|[E|[E|[]]]]]] [E'|[E'|[E'|[E'|[E'|[]]]]]] H; subst s s'; simpl in H;
    try discriminate H; (split; [reflexivity|]); injection H as H; exact H.
Qed.

Lemma paren_inj p ok s s' x y l x' y' l' r r' :
  In s seps -> In s' seps ->
  Forall (D p ok) (x :: y :: l) -> forallb ok (x' :: y' :: l') = true ->
  p x ++ (s ++ joinr p s y l r) = p x' ++ (s' ++ joinr p s' y' l' r') ->
  s = s' /\ x :: y :: l = x' :: y' :: l' /\ r = r'.
Proof.
  intros Hs Hs' HD Hok H.
  inversion HD as [|? ? Dx HD']; subst.
  change (forallb ok (x' :: y' :: l')) with (ok x' && forallb ok (y' :: l')) in Hok.
  apply andb_true_iff in Hok. destruct Hok as [Hx' Hok].
  destruct (Dx x' _ _ Hx' (seps_rem s Hs _) (seps_rem s' Hs' _) H) as [E1 E2]. subst x'.
  destruct (seps_inj _ _ _ _ Hs Hs' E2) as [E3 E4]. subst s'.
  destruct (joinr_inj p ok s (seps_rem s Hs) (seps_not_paren s Hs) l y HD' l' y' r r' Hok E4)
    as [E5 E6].
  rewrite E5. split; [reflexivity|]. split; [reflexivity|exact E6].
Qed.

Ltac in_seps := unfold seps; simpl; tauto.

Ltac akill Ha Hres Hr Hr' H :=
  exfalso;
  first [ eapply (atom_tok _ _ "true" _ Ha Hres Hr H)
        | eapply (atom_tok _ _ "false" _ Ha Hres Hr H)
        | eapply (atom_tok _ _ "not" _ Ha Hres Hr H)
        | eapply (atom_tok _ _ "X" _ Ha Hres Hr H)
        | eapply (atom_tok _ _ "F" _ Ha Hres Hr H)
        | eapply (atom_tok _ _ "G" _ Ha Hres Hr H)
        | eapply (atom_tok _ _ "A" _ Ha Hres Hr H)
        | eapply (atom_tok _ _ "E" _ Ha Hres Hr H)
        | eapply (atom_tok _ _ "" _ Ha Hres Hr H) ];
  [ reflexivity | first [reflexivity | exact Hr'] | first [left; reflexivity | right; reflexivity] ].

Ltac destruct_g_std g Hg H :=
  destruct g as [b|b|g1|gs|gs|g1 g2|g1|g1|g1|g1 g2|g1 g2|g1|g1];
  [ destruct b
  |
  | rewrite std_not in H
  | destruct (okstd_list gs Hg) as (x' & y' & l' & Eg & Hgs); subst gs; rewrite std_or in H
  | destruct (okstd_list gs Hg) as (x' & y' & l' & Eg & Hgs); subst gs; rewrite std_and in H
  | rewrite std_imp in H
  | rewrite std_x in H
  | rewrite std_f in H
  | rewrite std_g in H
  | rewrite std_u in H
  | rewrite std_r in H
  | rewrite std_a in H
  | rewrite std_e in H ].

Lemma std_atom_case a g r r' :
  okstd (FAtom a) = true -> okstd g = true -> rem r = true -> rem r' = true ->
  a ++ r = print_std g ++ r' -> FAtom a = g /\ r = r'.
Proof.
  intros Hoa Hg Hr Hr' H. destruct (okstd_atom a Hoa) as [Ha Hres].
  apply rem_delim in Hr. apply rem_delim in Hr'.
  destruct_g_std g Hg H; try (akill Ha Hres Hr Hr' H).
  destruct (okstd_atom b Hg) as [Hb _].
  destruct (token_unique a b r r' (is_ident_all_ic a Ha) (is_ident_all_ic b Hb) Hr Hr' H) as [E1 E2].
  subst. split; reflexivity.
Qed.

(* g is an atom, f is not *)
Ltac asym Hg Hof Hr Hr' H :=
  let K := fresh "K" in
  symmetry in H;
  first [ rewrite <- std_not in H | rewrite <- std_or in H | rewrite <- std_and in H
        | rewrite <- std_imp in H | rewrite <- std_x in H | rewrite <- std_f in H
        | rewrite <- std_g in H | rewrite <- std_u in H | rewrite <- std_r in H
        | rewrite <- std_a in H | rewrite <- std_e in H | idtac ];
  destruct (std_atom_case _ _ _ _ Hg Hof Hr' Hr H) as [K _]; discriminate K.

(* unary "k(" forms with the same head *)
Ltac unary_same IH gg Hg H :=
  let E1 := fresh "E" in let E2 := fresh "E" in
  simpl in H; injection H as H;
  destruct (IH gg _ _ Hg (rem_paren _) (rem_paren _) H) as [E1 E2];
  injection E2 as E2; subst; split; reflexivity.

(* both sides parenthesised *)
Ltac paren_same s1 s2 yf lf yy ll HD Hok H :=
  let Es := fresh "Es" in let El := fresh "El" in let Er := fresh "Er" in
  injection H as H;
  apply (paren_inj print_std okstd s1 s2 _ yf lf _ yy ll) in H; [ | in_seps | in_seps | exact HD | exact Hok ];
  destruct H as (Es & El & Er);
  try discriminate Es; injection El as; subst; split; reflexivity.

Lemma forallb2 (ok : form -> bool) x y : ok x = true -> ok y = true -> forallb ok [x; y] = true.
Proof. intros H1 H2. simpl. rewrite H1, H2. reflexivity. Qed.

Ltac paren_nary s1 s2 yf lf HD H :=
  match goal with
  | Hgs : forallb okstd (_ :: ?yy :: ?ll) = true |- _ => paren_same s1 s2 yf lf yy ll HD Hgs H
  end.
Ltac paren_bin s1 s2 yf lf HD Hg H :=
  let Hg1 := fresh "Hg1" in let Hg2 := fresh "Hg2" in
  match type of Hg with
  | okstd (_ _ ?gg) = true =>
      destruct (okstd_bin _ _ Hg) as [Hg1 Hg2];
      paren_same s1 s2 yf lf gg (@nil form) HD (forallb2 okstd _ _ Hg1 Hg2) H
  end.
Ltac paren_cases s1 yf lf HD Hg H :=
  first [ paren_nary s1 " or " yf lf HD H
        | paren_nary s1 " and " yf lf HD H
        | paren_bin s1 " --> " yf lf HD Hg H
        | paren_bin s1 " U " yf lf HD Hg H
        | paren_bin s1 " R " yf lf HD Hg H ].

Lemma std_decomp : forall f, okstd f = true -> D print_std okstd f.
Proof.
  induction f as [b|a|f0 IH|fs IH|fs IH|f1 f2 IH1 IH2|f0 IH|f0 IH|f0 IH
                  |f1 f2 IH1 IH2|f1 f2 IH1 IH2|f0 IH|f0 IH] using form_ind';
    intros Hof g r r' Hg Hr Hr' H.
  - (* FBool *)
    destruct b; simpl in H.
    + destruct_g_std g Hg H; try (simpl in H; discriminate H);
        try (asym Hg Hof Hr Hr' H).
      simpl in H. injection H as H. split; [reflexivity|exact H].
    + destruct_g_std g Hg H; try (simpl in H; discriminate H);
        try (asym Hg Hof Hr Hr' H).
      simpl in H. injection H as H. split; [reflexivity|exact H].
  - (* FAtom *)
    exact (std_atom_case a g r r' Hof Hg Hr Hr' H).
  - (* FNot *)
    rewrite std_not in H.
    destruct_g_std g Hg H; try (simpl in H; discriminate H);
      try (asym Hg Hof Hr Hr' H).
    simpl in H. injection H as H.
    destruct (IH Hof g1 _ _ Hg Hr Hr' H) as [E1 E2]. subst. split; reflexivity.
  - (* FOr *)
    destruct (okstd_list fs Hof) as (x & y & l & Ef & Hfs). subst fs.
    assert (HD := Forall_imp_forallb _ _ _ IH Hfs).
    rewrite std_or in H.
    destruct_g_std g Hg H; try (simpl in H; discriminate H);
      try (asym Hg Hof Hr Hr' H).
    all: paren_cases " or " y l HD Hg H.
  - (* FAnd *)
    destruct (okstd_list fs Hof) as (x & y & l & Ef & Hfs). subst fs.
    assert (HD := Forall_imp_forallb _ _ _ IH Hfs).
    rewrite std_and in H.
    destruct_g_std g Hg H; try (simpl in H; discriminate H);
      try (asym Hg Hof Hr Hr' H).
    all: paren_cases " and " y l HD Hg H.
  - (* FImp *)
    destruct (okstd_bin _ _ Hof) as [Hf1 Hf2].
    assert (HD : Forall (D print_std okstd) [f1; f2])
      by (constructor; [exact (IH1 Hf1)|constructor; [exact (IH2 Hf2)|constructor]]).
    rewrite std_imp in H.
    destruct_g_std g Hg H; try (simpl in H; discriminate H);
      try (asym Hg Hof Hr Hr' H).
    all: paren_cases " --> " f2 (@nil form) HD Hg H.
  - (* FX *)
    rewrite std_x in H.
    destruct_g_std g Hg H; try (simpl in H; discriminate H);
      try (asym Hg Hof Hr Hr' H).
    unary_same (IH Hof) g1 Hg H.
  - (* FF *)
    rewrite std_f in H.
    destruct_g_std g Hg H; try (simpl in H; discriminate H);
      try (asym Hg Hof Hr Hr' H).
    unary_same (IH Hof) g1 Hg H.
  - (* FG *)
    rewrite std_g in H.
    destruct_g_std g Hg H; try (simpl in H; discriminate H);
      try (asym Hg Hof Hr Hr' H).
    unary_same (IH Hof) g1 Hg H.
  - (* FU *)
    destruct (okstd_bin _ _ Hof) as [Hf1 Hf2].
    assert (HD : Forall (D print_std okstd) [f1; f2])
      by (constructor; [exact (IH1 Hf1)|constructor; [exact (IH2 Hf2)|constructor]]).
    rewrite std_u in H.
    destruct_g_std g Hg H; try (simpl in H; discriminate H);
      try (asym Hg Hof Hr Hr' H).
    all: paren_cases " U " f2 (@nil form) HD Hg H.
  - (* FR *)
    destruct (okstd_bin _ _ Hof) as [Hf1 Hf2].
    assert (HD : Forall (D print_std okstd) [f1; f2])
      by (constructor; [exact (IH1 Hf1)|constructor; [exact (IH2 Hf2)|constructor]]).
    rewrite std_r in H.
    destruct_g_std g Hg H; try (simpl in H; discriminate H);
      try (asym Hg Hof Hr Hr' H).
    all: paren_cases " R " f2 (@nil form) HD Hg H.
  - (* FA *)
    rewrite std_a in H.
    destruct_g_std g Hg H; try (simpl in H; discriminate H);
      try (asym Hg Hof Hr Hr' H).
    unary_same (IH Hof) g1 Hg H.
  - (* FE *)
    rewrite std_e in H.
    destruct_g_std g Hg H; try (simpl in H; discriminate H);
      try (asym Hg Hof Hr Hr' H).
    unary_same (IH Hof) g1 Hg H.
Qed.

Theorem print_std_inj : forall f g,
  ident_atoms f = true -> ident_atoms g = true -> arity_ok f = true -> arity_ok g = true ->
  print_std f = print_std g -> f = g.
Proof.
  intros f g Hf Hg Af Ag H.
  assert (Hof : okstd f = true) by (unfold okstd; rewrite Hf, Af; reflexivity).
  assert (Hog : okstd g = true) by (unfold okstd; rewrite Hg, Ag; reflexivity).
  assert (H' : print_std f ++ "" = print_std g ++ "") by (rewrite H; reflexivity).
  destruct (std_decomp f Hof g "" "" Hog eq_refl eq_refl H') as [E _]. exact E.
Qed.

(* ------------------------------------------------------------------ *)
(** * [print_ctl] *)

Definition cm (f : form) : bool := ctl_state f || ctl_path f.
Definition okctl (f : form) : bool := cm f && okstd f.

Lemma okctl_split f : okctl f = true -> cm f = true /\ okstd f = true.
Proof. unfold okctl. intros H. apply andb_true_iff in H. exact H. Qed.

Lemma okctl_state f : ctl_state f = true -> okstd f = true -> okctl f = true.
Proof. intros H1 H2. unfold okctl, cm. rewrite H1, H2. reflexivity. Qed.

Lemma okctl_not g : okctl (FNot g) = true -> okctl g = true.
Proof.
  intros H. destruct (okctl_split _ H) as [H1 H2]. unfold cm in H1. simpl in H1.
  rewrite orb_false_r in H1. exact (okctl_state g H1 H2).
Qed.

Lemma okctl_un_path (k : form -> form) g :
  (forall x, ctl_state (k x) = false) -> (forall x, ctl_path (k x) = ctl_state x) ->
  (forall x, okstd (k x) = okstd x) ->
  okctl (k g) = true -> okctl g = true.
Proof.
  intros K1 K2 K3 H. destruct (okctl_split _ H) as [H1 H2]. unfold cm in H1.
  rewrite K1, K2 in H1. simpl in H1. rewrite K3 in H2. exact (okctl_state g H1 H2).
Qed.
Lemma okctl_x g : okctl (FX g) = true -> okctl g = true.
Proof. apply (okctl_un_path FX); reflexivity. Qed.
Lemma okctl_f g : okctl (FF g) = true -> okctl g = true.
Proof. apply (okctl_un_path FF); reflexivity. Qed.
Lemma okctl_g g : okctl (FG g) = true -> okctl g = true.
Proof. apply (okctl_un_path FG); reflexivity. Qed.

Lemma okctl_imp g h : okctl (FImp g h) = true -> okctl g = true /\ okctl h = true.
Proof.
  intros H. destruct (okctl_split _ H) as [H1 H2]. unfold cm in H1. simpl in H1.
  rewrite orb_false_r in H1. apply andb_true_iff in H1. destruct H1 as [Sg Sh].
  destruct (okstd_bin _ _ H2) as [Og Oh].
  split; apply okctl_state; assumption.
Qed.
Lemma okctl_u g h : okctl (FU g h) = true -> okctl g = true /\ okctl h = true.
Proof.
  intros H. destruct (okctl_split _ H) as [H1 H2]. unfold cm in H1. simpl in H1.
  apply andb_true_iff in H1. destruct H1 as [Sg Sh].
  destruct (okstd_bin _ _ H2) as [Og Oh].
  split; apply okctl_state; assumption.
Qed.
Lemma okctl_r g h : okctl (FR g h) = true -> okctl g = true /\ okctl h = true.
Proof.
  intros H. destruct (okctl_split _ H) as [H1 H2]. unfold cm in H1. simpl in H1.
  apply andb_true_iff in H1. destruct H1 as [Sg Sh].
  destruct (okstd_bin _ _ H2) as [Og Oh].
  split; apply okctl_state; assumption.
Qed.

Lemma forallb_okctl fs :
  forallb ctl_state fs = true -> forallb okstd fs = true -> forallb okctl fs = true.
Proof.
  induction fs as [|x fs IH]; simpl; intros H1 H2; [reflexivity|].
  apply andb_true_iff in H1. destruct H1 as [S1 S2].
  apply andb_true_iff in H2. destruct H2 as [O1 O2].
  rewrite (okctl_state x S1 O1), (IH S2 O2). reflexivity.
Qed.

Lemma okctl_or fs : okctl (FOr fs) = true ->
  exists x y l, fs = x :: y :: l /\ forallb okctl fs = true.
Proof.
  intros H. destruct (okctl_split _ H) as [H1 H2]. unfold cm in H1. simpl in H1.
  rewrite orb_false_r in H1.
  destruct (okstd_list fs H2) as (x & y & l & E & Hl).
  exists x, y, l. split; [exact E|]. exact (forallb_okctl fs H1 Hl).
Qed.
Lemma okctl_and fs : okctl (FAnd fs) = true ->
  exists x y l, fs = x :: y :: l /\ forallb okctl fs = true.
Proof.
  intros H. destruct (okctl_split _ H) as [H1 H2]. unfold cm in H1. simpl in H1.
  rewrite orb_false_r in H1.
  destruct (okstd_list fs H2) as (x & y & l & E & Hl).
  exists x, y, l. split; [exact E|]. exact (forallb_okctl fs H1 Hl).
Qed.

Lemma okctl_a p : okctl (FA p) = true -> ctl_path p = true /\ okctl p = true.
Proof.
  intros H. destruct (okctl_split _ H) as [H1 H2]. unfold cm in H1.
  change (ctl_path (FA p)) with false in H1. rewrite orb_false_r in H1.
  change (ctl_state (FA p)) with (ctl_path p) in H1.
  split; [exact H1|]. unfold okctl, cm. rewrite H1, orb_true_r. exact H2.
Qed.
Lemma okctl_e p : okctl (FE p) = true -> ctl_path p = true /\ okctl p = true.
Proof.
  intros H. destruct (okctl_split _ H) as [H1 H2]. unfold cm in H1.
  change (ctl_path (FE p)) with false in H1. rewrite orb_false_r in H1.
  change (ctl_state (FE p)) with (ctl_path p) in H1.
  split; [exact H1|]. unfold okctl, cm. rewrite H1, orb_true_r. exact H2.
Qed.

Lemma okctl_atom a : okctl (FAtom a) = true -> is_ident a = true /\ reserved a = false.
Proof. intros H. destruct (okctl_split _ H) as [_ H2]. exact (okstd_atom a H2). Qed.

(* normal forms of [print_ctl f ++ r] *)
Lemma ctl_not g r : print_ctl (FNot g) ++ r = "not " ++ (print_ctl g ++ r).
Proof. reflexivity. Qed.
Lemma ctl_or x y l r :
  print_ctl (FOr (x :: y :: l)) ++ r
  = String "(" (print_ctl x ++ (" or " ++ joinr print_ctl " or " y l r)).
Proof. exact (print_nary_app print_ctl "or" x y l r). Qed.
Lemma ctl_and x y l r :
  print_ctl (FAnd (x :: y :: l)) ++ r
  = String "(" (print_ctl x ++ (" and " ++ joinr print_ctl " and " y l r)).
Proof. exact (print_nary_app print_ctl "and" x y l r). Qed.
Lemma ctl_imp g h r :
  print_ctl (FImp g h) ++ r = String "(" (print_ctl g ++ (" --> " ++ (print_ctl h ++ String ")" r))).
Proof. exact (bin_app _ _ _ _). Qed.
Lemma ctl_u g h r :
  print_ctl (FU g h) ++ r = String "(" (print_ctl g ++ (" U " ++ (print_ctl h ++ String ")" r))).
Proof. exact (bin_app _ _ _ _). Qed.
Lemma ctl_r g h r :
  print_ctl (FR g h) ++ r = String "(" (print_ctl g ++ (" R " ++ (print_ctl h ++ String ")" r))).
Proof. exact (bin_app _ _ _ _). Qed.
Lemma ctl_x g r : print_ctl (FX g) ++ r = "X " ++ (print_ctl g ++ r).
Proof. reflexivity. Qed.
Lemma ctl_f g r : print_ctl (FF g) ++ r = "F " ++ (print_ctl g ++ r).
Proof. reflexivity. Qed.
Lemma ctl_g g r : print_ctl (FG g) ++ r = "G " ++ (print_ctl g ++ r).
Proof. reflexivity. Qed.
Lemma ctl_a g r : print_ctl (FA g) ++ r = String "A" (print_ctl g ++ r).
Proof. reflexivity. Qed.
Lemma ctl_e g r : print_ctl (FE g) ++ r = String "E" (print_ctl g ++ r).
Proof. reflexivity. Qed.

(* a printed formula never starts like an infix separator (after its leading blank) *)
Lemma atom_nokw a r :
  is_ident a = true -> reserved a = false -> delim r = true -> starts_kw (a ++ r) = false.
Proof.
  intros Ha Hres Hr. destruct (starts_kw (a ++ r)) eqn:E; [|reflexivity]. exfalso.
  unfold starts_kw in E. repeat rewrite orb_true_iff in E.
  destruct E as [[[[E|E]|E]|E]|E]; apply pre_spec in E; destruct E as [t Ht].
  - exact (atom_tok a r "or" (String " " t) Ha Hres Hr Ht eq_refl eq_refl (or_introl eq_refl)).
  - exact (atom_tok a r "and" (String " " t) Ha Hres Hr Ht eq_refl eq_refl (or_introl eq_refl)).
  - exact (atom_tok a r "" ("--> " ++ t) Ha Hres Hr Ht eq_refl eq_refl (or_intror eq_refl)).
  - exact (atom_tok a r "U" (String " " t) Ha Hres Hr Ht eq_refl eq_refl (or_introl eq_refl)).
  - exact (atom_tok a r "R" (String " " t) Ha Hres Hr Ht eq_refl eq_refl (or_introl eq_refl)).
Qed.

Lemma ctl_nokw s r : okstd s = true -> delim r = true -> starts_kw (print_ctl s ++ r) = false.
Proof.
  intros Hs Hr.
  destruct s as [b|a|s1|fs|fs|s1 s2|s1|s1|s1|s1 s2|s1 s2|s1|s1]; try reflexivity.
  - destruct b; reflexivity.
  - destruct (okstd_atom a Hs) as [Ha Hres]. exact (atom_nokw a r Ha Hres Hr).
  - destruct (okstd_list fs Hs) as (x & y & l & E & _). subst fs. rewrite ctl_or. reflexivity.
  - destruct (okstd_list fs Hs) as (x & y & l & E & _). subst fs. rewrite ctl_and. reflexivity.
Qed.

Ltac destruct_g_ctl g Hg H :=
  destruct g as [b|b|g1|gs|gs|g1 g2|g1|g1|g1|g1 g2|g1 g2|g1|g1];
  [ destruct b
  |
  | rewrite ctl_not in H
  | destruct (okctl_or gs Hg) as (x' & y' & l' & Eg & Hgs); subst gs; rewrite ctl_or in H
  | destruct (okctl_and gs Hg) as (x' & y' & l' & Eg & Hgs); subst gs; rewrite ctl_and in H
  | rewrite ctl_imp in H
  | rewrite ctl_x in H
  | rewrite ctl_f in H
  | rewrite ctl_g in H
  | rewrite ctl_u in H
  | rewrite ctl_r in H
  | rewrite ctl_a in H
  | rewrite ctl_e in H ].

(* an atom against a quantified path formula: "AX ...", "A(..." *)
Lemma ctl_atom_quant a p q r r' :
  q = "A"%char \/ q = "E"%char ->
  is_ident a = true -> reserved a = false -> rem r = true -> delim r' = true ->
  ctl_path p = true -> okctl p = true ->
  a ++ r = String q (print_ctl p ++ r') -> False.
Proof.
  intros Hq Ha Hres Hr Hr' Hp Hop H.
  assert (Hd := rem_delim r Hr).
  assert (Hkw : forall c s, (c = "X" \/ c = "F" \/ c = "G")%char -> okctl s = true ->
                 a ++ r = String q (String c (String " " (print_ctl s ++ r'))) -> False).
  { intros c s Hc Hs H1.
    destruct (okctl_split _ Hs) as [_ Hs'].
    assert (Hic : all_ic (String q (String c "")) = true)
      by (destruct Hq as [-> | ->]; destruct Hc as [-> | [-> | ->]]; reflexivity).
    destruct (token_unique a (String q (String c "")) r (String " " (print_ctl s ++ r'))
                (is_ident_all_ic a Ha) Hic Hd eq_refl H1) as [_ E2].
    subst r. simpl in Hr. rewrite (ctl_nokw s r' Hs' Hr') in Hr. discriminate Hr. }
  assert (Hpar : forall t, a ++ r = String q (String "(" t) -> False).
  { intros t H1.
    destruct Hq as [-> | ->].
    - exact (atom_tok a r "A" (String "(" t) Ha Hres Hd H1 eq_refl eq_refl (or_introl eq_refl)).
    - exact (atom_tok a r "E" (String "(" t) Ha Hres Hd H1 eq_refl eq_refl (or_introl eq_refl)). }
  destruct p as [b|b|g1|gs|gs|g1 g2|g1|g1|g1|g1 g2|g1 g2|g1|g1]; try discriminate Hp.
  - apply (Hkw "X"%char g1); [tauto|exact (okctl_x _ Hop)|exact H].
  - apply (Hkw "F"%char g1); [tauto|exact (okctl_f _ Hop)|exact H].
  - apply (Hkw "G"%char g1); [tauto|exact (okctl_g _ Hop)|exact H].
  - rewrite ctl_u in H. exact (Hpar _ H).
  - rewrite ctl_r in H. exact (Hpar _ H).
Qed.

Lemma ctl_atom_case a g r r' :
  okctl (FAtom a) = true -> okctl g = true -> rem r = true -> rem r' = true ->
  a ++ r = print_ctl g ++ r' -> FAtom a = g /\ r = r'.
Proof.
  intros Hoa Hg Hrr Hrr' H. destruct (okctl_atom a Hoa) as [Ha Hres].
  assert (Hr := rem_delim _ Hrr). assert (Hr' := rem_delim _ Hrr').
  destruct_g_ctl g Hg H; try (akill Ha Hres Hr Hr' H).
  - destruct (okctl_atom b Hg) as [Hb _].
    destruct (token_unique a b r r' (is_ident_all_ic a Ha) (is_ident_all_ic b Hb) Hr Hr' H) as [E1 E2].
    subst. split; reflexivity.
  - exfalso. destruct (okctl_a _ Hg) as [Hp Hop].
    exact (ctl_atom_quant a g1 "A" r r' (or_introl eq_refl) Ha Hres Hrr Hr' Hp Hop H).
  - exfalso. destruct (okctl_e _ Hg) as [Hp Hop].
    exact (ctl_atom_quant a g1 "E" r r' (or_intror eq_refl) Ha Hres Hrr Hr' Hp Hop H).
Qed.

Ltac asym_ctl Hg Hof Hr Hr' H0 :=
  let K := fresh "K" in
  symmetry in H0;
  destruct (ctl_atom_case _ _ _ _ Hg Hof Hr' Hr H0) as [K _]; discriminate K.

Ltac cparen_same s1 s2 yf lf yy ll HD Hok H :=
  let Es := fresh "Es" in let El := fresh "El" in let Er := fresh "Er" in
  injection H as H;
  apply (paren_inj print_ctl okctl s1 s2 _ yf lf _ yy ll) in H;
  [ | in_seps | in_seps | exact HD | exact Hok ];
  destruct H as (Es & El & Er);
  try discriminate Es; injection El as; subst; split; reflexivity.
Ltac cparen_nary s1 s2 yf lf HD H :=
  match goal with
  | Hgs : forallb okctl (_ :: ?yy :: ?ll) = true |- _ => cparen_same s1 s2 yf lf yy ll HD Hgs H
  end.
Ltac cparen_bin s1 s2 yf lf HD Hg H :=
  let Hg1 := fresh "Hg1" in let Hg2 := fresh "Hg2" in
  match type of Hg with
  | okctl (_ _ ?gg) = true =>
      first [ destruct (okctl_imp _ _ Hg) as [Hg1 Hg2]
            | destruct (okctl_u _ _ Hg) as [Hg1 Hg2]
            | destruct (okctl_r _ _ Hg) as [Hg1 Hg2] ];
      cparen_same s1 s2 yf lf gg (@nil form) HD (forallb2 okctl _ _ Hg1 Hg2) H
  end.
Ltac cparen_cases s1 yf lf HD Hg H :=
  first [ cparen_nary s1 " or " yf lf HD H
        | cparen_nary s1 " and " yf lf HD H
        | cparen_bin s1 " --> " yf lf HD Hg H
        | cparen_bin s1 " U " yf lf HD Hg H
        | cparen_bin s1 " R " yf lf HD Hg H ].

(* prefix forms "k " with the same head: the operand is followed by the same remainder *)
Ltac cprefix_same IH gg Hgg Hr Hr' H :=
  let E1 := fresh "E" in let E2 := fresh "E" in
  simpl in H; injection H as H;
  destruct (IH gg _ _ Hgg Hr Hr' H) as [E1 E2]; subst; split; reflexivity.

Lemma ctl_decomp : forall f, okctl f = true -> D print_ctl okctl f.
Proof.
  induction f as [b|a|f0 IH|fs IH|fs IH|f1 f2 IH1 IH2|f0 IH|f0 IH|f0 IH
                  |f1 f2 IH1 IH2|f1 f2 IH1 IH2|f0 IH|f0 IH] using form_ind';
    intros Hof g r r' Hg Hr Hr' H; assert (H0 := H).
  - (* FBool *)
    destruct b; simpl in H.
    + destruct_g_ctl g Hg H; try (simpl in H; discriminate H);
        try (asym_ctl Hg Hof Hr Hr' H0).
      simpl in H. injection H as H. split; [reflexivity|exact H].
    + destruct_g_ctl g Hg H; try (simpl in H; discriminate H);
        try (asym_ctl Hg Hof Hr Hr' H0).
      simpl in H. injection H as H. split; [reflexivity|exact H].
  - (* FAtom *)
    exact (ctl_atom_case a g r r' Hof Hg Hr Hr' H).
  - (* FNot *)
    rewrite ctl_not in H.
    destruct_g_ctl g Hg H; try (simpl in H; discriminate H);
      try (asym_ctl Hg Hof Hr Hr' H0).
    cprefix_same (IH (okctl_not _ Hof)) g1 (okctl_not _ Hg) Hr Hr' H.
  - (* FOr *)
    destruct (okctl_or fs Hof) as (x & y & l & Ef & Hfs). subst fs.
    assert (HD := Forall_imp_forallb _ _ _ IH Hfs).
    rewrite ctl_or in H.
    destruct_g_ctl g Hg H; try (simpl in H; discriminate H);
      try (asym_ctl Hg Hof Hr Hr' H0).
    all: cparen_cases " or " y l HD Hg H.
  - (* FAnd *)
    destruct (okctl_and fs Hof) as (x & y & l & Ef & Hfs). subst fs.
    assert (HD := Forall_imp_forallb _ _ _ IH Hfs).
    rewrite ctl_and in H.
    destruct_g_ctl g Hg H; try (simpl in H; discriminate H);
      try (asym_ctl Hg Hof Hr Hr' H0).
    all: cparen_cases " and " y l HD Hg H.
  - (* FImp *)
    destruct (okctl_imp _ _ Hof) as [Hf1 Hf2].
    assert (HD : Forall (D print_ctl okctl) [f1; f2])
      by (constructor; [exact (IH1 Hf1)|constructor; [exact (IH2 Hf2)|constructor]]).
    rewrite ctl_imp in H.
    destruct_g_ctl g Hg H; try (simpl in H; discriminate H);
      try (asym_ctl Hg Hof Hr Hr' H0).
    all: cparen_cases " --> " f2 (@nil form) HD Hg H.
  - (* FX *)
    rewrite ctl_x in H.
    destruct_g_ctl g Hg H; try (simpl in H; discriminate H);
      try (asym_ctl Hg Hof Hr Hr' H0).
    cprefix_same (IH (okctl_x _ Hof)) g1 (okctl_x _ Hg) Hr Hr' H.
  - (* FF *)
    rewrite ctl_f in H.
    destruct_g_ctl g Hg H; try (simpl in H; discriminate H);
      try (asym_ctl Hg Hof Hr Hr' H0).
    cprefix_same (IH (okctl_f _ Hof)) g1 (okctl_f _ Hg) Hr Hr' H.
  - (* FG *)
    rewrite ctl_g in H.
    destruct_g_ctl g Hg H; try (simpl in H; discriminate H);
      try (asym_ctl Hg Hof Hr Hr' H0).
    cprefix_same (IH (okctl_g _ Hof)) g1 (okctl_g _ Hg) Hr Hr' H.
  - (* FU *)
    destruct (okctl_u _ _ Hof) as [Hf1 Hf2].
    assert (HD : Forall (D print_ctl okctl) [f1; f2])
      by (constructor; [exact (IH1 Hf1)|constructor; [exact (IH2 Hf2)|constructor]]).
    rewrite ctl_u in H.
    destruct_g_ctl g Hg H; try (simpl in H; discriminate H);
      try (asym_ctl Hg Hof Hr Hr' H0).
    all: cparen_cases " U " f2 (@nil form) HD Hg H.
  - (* FR *)
    destruct (okctl_r _ _ Hof) as [Hf1 Hf2].
    assert (HD : Forall (D print_ctl okctl) [f1; f2])
      by (constructor; [exact (IH1 Hf1)|constructor; [exact (IH2 Hf2)|constructor]]).
    rewrite ctl_r in H.
    destruct_g_ctl g Hg H; try (simpl in H; discriminate H);
      try (asym_ctl Hg Hof Hr Hr' H0).
    all: cparen_cases " R " f2 (@nil form) HD Hg H.
  - (* FA *)
    destruct (okctl_a _ Hof) as [_ Hp].
    rewrite ctl_a in H.
    destruct_g_ctl g Hg H; try (simpl in H; discriminate H);
      try (asym_ctl Hg Hof Hr Hr' H0).
    destruct (okctl_a _ Hg) as [_ Hp'].
    cprefix_same (IH Hp) g1 Hp' Hr Hr' H.
  - (* FE *)
    destruct (okctl_e _ Hof) as [_ Hp].
    rewrite ctl_e in H.
    destruct_g_ctl g Hg H; try (simpl in H; discriminate H);
      try (asym_ctl Hg Hof Hr Hr' H0).
    destruct (okctl_e _ Hg) as [_ Hp'].
    cprefix_same (IH Hp) g1 Hp' Hr Hr' H.
Qed.

Theorem print_ctl_inj : forall f g,
  (ctl_state f || ctl_path f) = true -> (ctl_state g || ctl_path g) = true ->
  ident_atoms f = true -> ident_atoms g = true -> arity_ok f = true -> arity_ok g = true ->
  print_ctl f = print_ctl g -> f = g.
Proof.
  intros f g Mf Mg Hf Hg Af Ag H.
  assert (Hof : okctl f = true) by (unfold okctl, cm, okstd; rewrite Mf, Hf, Af; reflexivity).
  assert (Hog : okctl g = true) by (unfold okctl, cm, okstd; rewrite Mg, Hg, Ag; reflexivity).
  assert (H' : print_ctl f ++ "" = print_ctl g ++ "") by (rewrite H; reflexivity).
  destruct (ctl_decomp f Hof g "" "" Hog eq_refl eq_refl H') as [E _]. exact E.
Qed.

(* ------------------------------------------------------------------ *)
(** * Consequences for the printed-form based equality and hash *)

Definition member (L : lang) (f : form) : bool :=
  match L with
  | PL => pl_ok f
  | CTLS => true
  | CTL => ctl_state f || ctl_path f
  | LTL => ltl_path f || ltl_state f
  end.
Definition good (L : lang) (f : form) : bool := member L f && ident_atoms f && arity_ok f.

Lemma good_split L f : good L f = true ->
  member L f = true /\ ident_atoms f = true /\ arity_ok f = true.
Proof.
  unfold good. intros H. apply andb_true_iff in H. destruct H as [H H3].
  apply andb_true_iff in H. destruct H as [H1 H2]. auto.
Qed.

Theorem print_inj : forall L f g, good L f = true -> good L g = true ->
  print L f = print L g -> f = g.
Proof.
  intros L f g Hf Hg H.
  destruct (good_split L f Hf) as (Mf & If & Af).
  destruct (good_split L g Hg) as (Mg & Ig & Ag).
  destruct L; simpl in H.
  - exact (print_std_inj f g If Ig Af Ag H).
  - exact (print_std_inj f g If Ig Af Ag H).
  - exact (print_ctl_inj f g Mf Mg If Ig Af Ag H).
  - exact (print_std_inj f g If Ig Af Ag H).
Qed.

Theorem eq_obj_iff_tree : forall L f g, good L f = true -> good L g = true ->
  (eq_obj (L, f) (L, g) = true <-> f = g).
Proof.
  intros L f g Hf Hg. split.
  - intros H. unfold eq_obj, print_obj in H. simpl in H.
    destruct f as [b|a|f1|fs|fs|f1 f2|f1|f1|f1|f1 f2|f1 f2|f1|f1];
      try (apply String.eqb_eq in H; exact (print_inj L _ _ Hf Hg H)).
    destruct g as [b'|a|g1|gs|gs|g1 g2|g1|g1|g1|g1 g2|g1 g2|g1|g1]; try discriminate H.
    apply eqb_prop in H. subst. reflexivity.
  - intros E. subst g. unfold eq_obj, print_obj. simpl.
    destruct f as [b|a|f1|fs|fs|f1 f2|f1|f1|f1|f1 f2|f1 f2|f1|f1];
      try apply String.eqb_refl. apply eqb_reflx.
Qed.

Theorem eq_obj_refl : forall L f, good L f = true -> eq_obj (L, f) (L, f) = true.
Proof. intros L f Hf. apply (eq_obj_iff_tree L f f Hf Hf). reflexivity. Qed.

Theorem eq_obj_sym : forall L f g, good L f = true -> good L g = true ->
  eq_obj (L, f) (L, g) = eq_obj (L, g) (L, f).
Proof.
  intros L f g Hf Hg.
  destruct (eq_obj (L, f) (L, g)) eqn:E1; destruct (eq_obj (L, g) (L, f)) eqn:E2; try reflexivity.
  - apply (eq_obj_iff_tree L f g Hf Hg) in E1. subst g.
    rewrite (eq_obj_refl L f Hf) in E2. discriminate E2.
  - apply (eq_obj_iff_tree L g f Hg Hf) in E2. subst g.
    rewrite (eq_obj_refl L f Hf) in E1. discriminate E1.
Qed.

Theorem eq_obj_trans : forall L f g h, good L f = true -> good L g = true -> good L h = true ->
  eq_obj (L, f) (L, g) = true -> eq_obj (L, g) (L, h) = true -> eq_obj (L, f) (L, h) = true.
Proof.
  intros L f g h Hf Hg Hh H1 H2.
  apply (eq_obj_iff_tree L f g Hf Hg) in H1. apply (eq_obj_iff_tree L g h Hg Hh) in H2.
  subst. exact (eq_obj_refl L h Hh).
Qed.

Theorem eq_obj_hash : forall L f g, eq_obj (L, f) (L, g) = true ->
  good L f = true -> good L g = true -> hash_obj (L, f) = hash_obj (L, g).
Proof.
  intros L f g H Hf Hg. apply (eq_obj_iff_tree L f g Hf Hg) in H. subst. reflexivity.
Qed.

(* conversely, on good objects equal hashes of non-Bool objects mean equal objects *)
Theorem hash_obj_inj : forall L f g, good L f = true -> good L g = true ->
  hash_obj (L, f) = hash_obj (L, g) -> f = g.
Proof. intros L f g Hf Hg H. exact (print_inj L f g Hf Hg H). Qed.

Theorem eq_bool_pybool : forall L b b', eq_obj_pybool (L, FBool b) b' = Bool.eqb b b'.
Proof. reflexivity. Qed.

(* why reserved names are excluded: an atom called "true" equals Bool(true) from one side only *)
Theorem reserved_atom_breaks_symmetry : exists a b : obj, eq_obj a b <> eq_obj b a.
Proof.
  exists (PL, FAtom "true"), (PL, FBool true). vm_compute. discriminate.
Qed.

(* ------------------------------------------------------------------ *)
(** * First character of a printed formula *)

Lemma print_nary_first (c : ascii) (sym' : string) (l : list string) :
  exists s, print_nary (String c sym') l = String "(" s \/ print_nary (String c sym') l = String c s.
Proof.
  destruct l as [|x [|y l]]; simpl; eexists; eauto.
Qed.

Lemma is_ident_first a : is_ident a = true -> exists c s, a = String c s /\ ident_start c = true.
Proof.
  destruct a as [|c s]; simpl; [discriminate|]. intros H. apply andb_true_iff in H.
  destruct H as [H _]. exists c, s. auto.
Qed.

Lemma fc_intro (str : string) c s :
  str = String c s -> (ident_start c = true \/ c = "("%char) ->
  exists c s, str = String c s /\ (ident_start c = true \/ c = "("%char).
Proof. intros H1 H2. exists c, s. auto. Qed.
Ltac fc_side := first [left; reflexivity | right; reflexivity].

Theorem print_std_first_char : forall f, ident_atoms f = true ->
  exists c s, print_std f = String c s /\ (ident_start c = true \/ c = "("%char).
Proof.
  intros f Hf.
  destruct f as [b|a|f1|fs|fs|f1 f2|f1|f1|f1|f1 f2|f1 f2|f1|f1];
    try (eapply fc_intro; [reflexivity|fc_side]; fail).
  - destruct b; (eapply fc_intro; [reflexivity|fc_side]).
  - simpl in Hf. apply andb_true_iff in Hf. destruct Hf as [Ha _].
    destruct (is_ident_first a Ha) as (c & s & E & Hc). exists c, s. simpl. auto.
  - simpl. destruct (print_nary_first "o" "r" (map print_std fs)) as [s [E|E]];
      rewrite E; (eapply fc_intro; [reflexivity|fc_side]).
  - simpl. destruct (print_nary_first "a" "nd" (map print_std fs)) as [s [E|E]];
      rewrite E; (eapply fc_intro; [reflexivity|fc_side]).
Qed.

Theorem print_ctl_first_char : forall f, ident_atoms f = true ->
  exists c s, print_ctl f = String c s /\ (ident_start c = true \/ c = "("%char).
Proof.
  intros f Hf.
  destruct f as [b|a|f1|fs|fs|f1 f2|f1|f1|f1|f1 f2|f1 f2|f1|f1];
    try (eapply fc_intro; [reflexivity|fc_side]; fail).
  - destruct b; (eapply fc_intro; [reflexivity|fc_side]).
  - simpl in Hf. apply andb_true_iff in Hf. destruct Hf as [Ha _].
    destruct (is_ident_first a Ha) as (c & s & E & Hc). exists c, s. simpl. auto.
  - simpl. destruct (print_nary_first "o" "r" (map print_ctl fs)) as [s [E|E]];
      rewrite E; (eapply fc_intro; [reflexivity|fc_side]).
  - simpl. destruct (print_nary_first "a" "nd" (map print_ctl fs)) as [s [E|E]];
      rewrite E; (eapply fc_intro; [reflexivity|fc_side]).
Qed.

Theorem print_std_no_bracket : forall f, ident_atoms f = true ->
  forall s, print_std f <> String "[" s.
Proof.
  intros f Hf s H. destruct (print_std_first_char f Hf) as (c & s' & E & Hc).
  rewrite E in H. injection H as Hc' _. subst c. destruct Hc as [Hc|Hc]; discriminate Hc.
Qed.

Theorem print_std_nonempty : forall f, ident_atoms f = true -> print_std f <> "".
Proof.
  intros f Hf H. destruct (print_std_first_char f Hf) as (c & s' & E & _).
  rewrite E in H. discriminate H.
Qed.

(* ------------------------------------------------------------------ *)
(** * The hypotheses are needed *)

(* CTL's glued quantifier letter: without membership in the CTL grammar, [print_ctl] is not injective *)
Example print_ctl_not_inj_without_membership :
  print_ctl (FA (FAtom "p")) = print_ctl (FAtom "Ap") /\ FA (FAtom "p") <> FAtom "Ap"
  /\ ident_atoms (FA (FAtom "p")) = true /\ ident_atoms (FAtom "Ap") = true.
Proof. repeat split; try reflexivity. discriminate. Qed.

(* reserved atom names collide with the constants / operators *)
Example print_std_not_inj_reserved :
  print_std (FAtom "true") = print_std (FBool true) /\ FAtom "true" <> FBool true.
Proof. split; [reflexivity|discriminate]. Qed.
(* non-identifier atom names collide with compound formulas (both are CTL state formulas) *)
Example print_ctl_not_inj_nonident :
  print_ctl (FAtom "AX p") = print_ctl (FA (FX (FAtom "p"))) /\ FAtom "AX p" <> FA (FX (FAtom "p")).
Proof. split; [reflexivity|discriminate]. Qed.

(* atoms that merely start like a keyword are fine *)
Example keywordish_atoms_ok :
  forallb (fun a => is_ident a && negb (reserved a)) ["Xp"; "notp"; "true_"; "AX"; "EG"; "_"; "a9"] = true
  /\ forallb (fun a => negb (is_ident a)) [""; "9a"; "a b"; "a-b"; "(a)"; "a)"] = true.
Proof. split; reflexivity. Qed.

Print Assumptions print_std_inj.
Print Assumptions print_ctl_inj.
Print Assumptions eq_obj_iff_tree.
Print Assumptions eq_obj_hash.
Print Assumptions print_std_no_bracket.
