(* Corollaries2P.v — corollaries of the CTL* exactness theorem C03 (properties C04 / C06 / C19
   for the CTL* checker) and the lasso characterisation of the LTL result (C02).
     A.1  agreement of the CTL* checker with the CTL and the LTL checker
     A.2  boolean laws and  A g = not E not g  at the result level
     A.3  totality and subset
     A.4  invariance: presentation, renaming of states, renaming of atoms, unreachable extension
     B.5  a state is excluded from the LTL result iff an ultimately periodic path from it
          satisfies  not g
   Results are compared as SETS.  Only axiom: Classical_Prop.classic. *)
From Coq Require Import List Arith Bool Lia Classical_Prop.
From PMC Require Import Spec.Lemmas.
From PMC Require Import Proofs.RewriteP.
From PMC Require Proofs.CTLP Proofs.KripkeP Proofs.Assemble Proofs.AssembleCTLS Proofs.CTLSP Proofs.PrintP
                 Proofs.SyntaxP Proofs.LTLP Proofs.InfPath Proofs.GraphP Proofs.SccP.
From PMC Require Import Proofs.CorollariesP.
Import ListNotations.

Notation wf_K := PMC.Proofs.KripkeP.wf_K.
Notation ident_atoms := PMC.Proofs.CTLSP.ident_atoms.
Definition ctls_exact := PMC.Proofs.AssembleCTLS.ctls_exact.

Lemma wf_K_wf K : wf_K K -> wf_kripke K.
Proof. intros H. apply H. Qed.

(* the side conditions of the CTL* checker on the formula *)
Definition ctls_ok (f : form) : Prop :=
  ctls_state f = true /\ ident_atoms f = true /\ arity_ok f = true.

(* ------------------------------------------------------------------ *)
(** * C03 in [res_set] form                                             *)
(* ------------------------------------------------------------------ *)
Lemma ctls_res K f : wf_K K -> ctls_state f = true -> ident_atoms f = true -> arity_ok f = true ->
  res_set (ctls_modelcheck K f) (fun s => In s (states K) /\ holds K s f).
Proof. intros W C I A. exact (ctls_exact K f W C I A). Qed.

(* ------------------------------------------------------------------ *)
(** * A.3  Totality and subset (C19)                                    *)
(* ------------------------------------------------------------------ *)
(* from [ctls_exact] alone (which does not expose NoDup); the version with NoDup is
   [ctls_total_subset_nodup] below *)
Theorem ctls_total_subset K f : wf_K K -> ctls_state f = true -> ident_atoms f = true ->
  arity_ok f = true ->
  exists S, ctls_modelcheck K f = Ok S /\ incl S (states K).
Proof.
  intros W C I A. destruct (ctls_res K f W C I A) as [S [E H]]. exists S.
  split; [exact E|]. intros s Hs. apply H in Hs. apply Hs.
Qed.

(* The answer is a [ctl_modelcheck] result on the labelled clone, hence duplicate-free.
   [ctls_exact] does not expose this; the top part of the proof of CTLSP.C03_exact is
   redone here keeping the NoDup component of C01. *)
Theorem ctls_total_subset_nodup K f : wf_K K -> ctls_state f = true -> ident_atoms f = true ->
  arity_ok f = true ->
  exists S, ctls_modelcheck K f = Ok S /\ NoDup S /\ incl S (states K).
Proof.
  intros W Hst Hid Har.
  destruct (ctls_total_subset K f W Hst Hid Har) as [S0 [E0 Hincl]].
  destruct (KripkeP.kclone_spec GraphP.mk_graph_spec GraphP.edges_spec K W)
    as (KC & Hcl & HwfC & _).
  destruct (CTLSP.elim_ok Assemble.ctl_exact Assemble.ltl_exact PrintP.print_std_inj
              KC HwfC (ctls_fuel f) KC [] f (CTLSP.Inv_init KC HwfC) (conj Hid Har))
    as (K1 & h & env1 & He & HI & _ & _ & Hshp & _).
  { unfold ctls_fuel. lia. }
  destruct HI as (Hwf1 & _). destruct Hshp as (Hq & Hs & _).
  assert (Hctl : ctl_state h = true) by (apply CTLSP.qfree_state_ctl; auto).
  destruct (Assemble.ctl_exact K1 h (CTLSP.wf_K_wf_kripke K1 Hwf1) Hctl) as [S [H1 [ND _]]].
  assert (E : ctls_modelcheck K f = Ok S).
  { unfold ctls_modelcheck, ctls_modelcheck_in. rewrite Hcl. cbn [rbind]. rewrite He. cbn [rbind].
    exact H1. }
  exists S. split; [exact E|]. split; [exact ND|].
  rewrite E in E0. injection E0 as <-. exact Hincl.
Qed.

(* ------------------------------------------------------------------ *)
(** * Generic tools                                                     *)
(* ------------------------------------------------------------------ *)
Theorem ctls_equiv_same_result K f g : wf_K K ->
  ctls_state f = true -> ident_atoms f = true -> arity_ok f = true ->
  ctls_state g = true -> ident_atoms g = true -> arity_ok g = true ->
  (forall s, In s (states K) -> (holds K s f <-> holds K s g)) ->
  same_res (ctls_modelcheck K f) (ctls_modelcheck K g).
Proof.
  intros W Cf If Af Cg Ig Ag H.
  apply (res_set_same _ _ _ _ (ctls_res K f W Cf If Af) (ctls_res K g W Cg Ig Ag)).
  intros s. split; intros [Hs Hh]; (split; [exact Hs|]); apply (H s Hs); exact Hh.
Qed.

Lemma sequiv_holds_state K f g s : sequiv K f g -> (holds K s f <-> holds K s g).
Proof. apply sequiv_holds. Qed.

Corollary ctls_sequiv_same_result K f g : wf_K K ->
  ctls_state f = true -> ident_atoms f = true -> arity_ok f = true ->
  ctls_state g = true -> ident_atoms g = true -> arity_ok g = true ->
  sequiv K f g ->
  same_res (ctls_modelcheck K f) (ctls_modelcheck K g).
Proof.
  intros W Cf If Af Cg Ig Ag H. apply ctls_equiv_same_result; try assumption.
  intros s _. apply sequiv_holds. exact H.
Qed.

(* for a CTL* state formula, [holds] can be read on any path from the state *)
Lemma holds_on_path_s K f p : ctls_state f = true -> is_path K p -> (holds K (p 0) f <-> sat K p f).
Proof. apply CTLSP.holds_state. Qed.

(* ------------------------------------------------------------------ *)
(** * A.1  Agreement with the CTL and the LTL checker (C04)             *)
(* ------------------------------------------------------------------ *)
Theorem ctls_ctl_agree K f : wf_K K -> ident_atoms f = true -> arity_ok f = true ->
  ctl_state f = true ->
  same_res (ctls_modelcheck K f) (ctl_modelcheck K f).
Proof.
  intros W I A C.
  assert (Cs : ctls_state f = true) by (apply SyntaxP.ctl_state_ctls_state; exact C).
  apply (res_set_same _ _ _ _ (ctls_res K f W Cs I A) (ctl_res K f (wf_K_wf K W) C)).
  intros s. reflexivity.
Qed.

Theorem ctls_ltl_agree K g : wf_K K -> ident_atoms g = true -> arity_ok g = true ->
  ltl_path g = true ->
  same_res (ctls_modelcheck K (FA g)) (ltl_modelcheck K (FA g)).
Proof.
  intros W I A L.
  assert (Cs : ctls_state (FA g) = true) by reflexivity.
  apply (res_set_same _ _ _ _ (ctls_res K (FA g) W Cs I A) (ltl_res K g (wf_K_wf K W) L)).
  intros s. split; intros [Hs H]; (split; [exact Hs|]).
  - apply (holds_A K (wf_K_wf K W) s g Hs). exact H.
  - apply (holds_A K (wf_K_wf K W) s g Hs). exact H.
Qed.

(* all three checkers agree on  A g  when g is both a CTL path formula body and LTL *)
Corollary three_checkers_agree K g : wf_K K -> ident_atoms g = true -> arity_ok g = true ->
  ctl_state (FA g) = true -> ltl_path g = true ->
  exists S1 S2 S3, ctls_modelcheck K (FA g) = Ok S1 /\ ctl_modelcheck K (FA g) = Ok S2 /\
                   ltl_modelcheck K (FA g) = Ok S3 /\ same_set S1 S2 /\ same_set S1 S3.
Proof.
  intros W I A C L.
  destruct (ctls_ctl_agree K (FA g) W I A C) as [S1 [S2 [E1 [E2 H12]]]].
  destruct (ctls_ltl_agree K g W I A L) as [S1' [S3 [E1' [E3 H13]]]].
  rewrite E1 in E1'. injection E1' as <-.
  exists S1, S2, S3. auto.
Qed.

(* ------------------------------------------------------------------ *)
(** * A.2  Boolean laws at the result level (C04)                       *)
(* ------------------------------------------------------------------ *)
Lemma holds_not_s K s f : wf_kripke K -> In s (states K) -> ctls_state f = true ->
  (holds K s (FNot f) <-> ~ holds K s f).
Proof.
  intros W Hs C. destruct (CTLP.exists_path K s W Hs) as [p [Hp E]]. subst s.
  assert (C' : ctls_state (FNot f) = true) by exact C.
  rewrite (holds_on_path_s K (FNot f) p C' Hp), (holds_on_path_s K f p C Hp).
  cbn [sat]. reflexivity.
Qed.

Theorem ctls_not_compl K f : wf_K K -> ctls_state f = true -> ident_atoms f = true ->
  arity_ok f = true ->
  exists S Sf, ctls_modelcheck K (FNot f) = Ok S /\ ctls_modelcheck K f = Ok Sf /\
               forall s, In s S <-> In s (states K) /\ ~ In s Sf.
Proof.
  intros W C I A.
  destruct (ctls_res K f W C I A) as [Sf [Ef Hf]].
  destruct (ctls_res K (FNot f) W C I A) as [S [E H]].
  exists S, Sf. split; [exact E|]. split; [exact Ef|].
  intros s. rewrite H. split; intros [Hs Hh]; (split; [exact Hs|]).
  - rewrite Hf. intros [_ Hh']. apply (holds_not_s K s f (wf_K_wf K W) Hs C) in Hh. contradiction.
  - apply (holds_not_s K s f (wf_K_wf K W) Hs C). intros Hh'. apply Hh. apply Hf. split; assumption.
Qed.

(* binary connectives: read everything on one path from s *)
Lemma ctls_bin_law K f g h (R : Prop -> Prop -> Prop) : wf_K K ->
  ctls_ok f -> ctls_ok g -> ctls_ok h ->
  (forall A A' B B', (A <-> A') -> (B <-> B') -> (R A B <-> R A' B')) ->
  (forall p, sat K p h <-> R (sat K p f) (sat K p g)) ->
  exists S Sf Sg, ctls_modelcheck K h = Ok S /\ ctls_modelcheck K f = Ok Sf /\
                  ctls_modelcheck K g = Ok Sg /\
                  forall s, In s S <-> In s (states K) /\ R (In s Sf) (In s Sg).
Proof.
  intros W [Cf [If Af]] [Cg [Ig Ag]] [Ch [Ih Ah]] HR Hh.
  destruct (ctls_res K f W Cf If Af) as [Sf [Ef Hf]].
  destruct (ctls_res K g W Cg Ig Ag) as [Sg [Eg Hg]].
  destruct (ctls_res K h W Ch Ih Ah) as [S [E H]].
  exists S, Sf, Sg. split; [exact E|]. split; [exact Ef|]. split; [exact Eg|].
  intros s. rewrite H.
  assert (X : In s (states K) -> (holds K s h <-> R (In s Sf) (In s Sg))).
  { intros Hs. destruct (CTLP.exists_path K s (wf_K_wf K W) Hs) as [p [Hp Ep]]. subst s.
    rewrite (holds_on_path_s K h p Ch Hp), Hh. apply HR.
    - rewrite Hf, (holds_on_path_s K f p Cf Hp). tauto.
    - rewrite Hg, (holds_on_path_s K g p Cg Hp). tauto. }
  split; intros [Hs Hx]; (split; [exact Hs|]); apply (X Hs); exact Hx.
Qed.

Ltac ok2 := match goal with
  | Hf : ctls_ok _, Hg : ctls_ok _ |- ctls_ok _ =>
    destruct Hf as [Cf [If Af]]; destruct Hg as [Cg [Ig Ag]]; unfold ctls_ok;
    cbn [ctls_state CTLSP.ident_atoms arity_ok forallb List.length Nat.leb andb];
    rewrite ?Cf, ?Cg, ?If, ?Ig, ?Af, ?Ag; auto
  end.

Theorem ctls_and_inter K f g : wf_K K -> ctls_ok f -> ctls_ok g ->
  exists S Sf Sg, ctls_modelcheck K (FAnd [f; g]) = Ok S /\ ctls_modelcheck K f = Ok Sf /\
                  ctls_modelcheck K g = Ok Sg /\
                  forall s, In s S <-> In s (states K) /\ (In s Sf /\ In s Sg).
Proof.
  intros W Of Og. apply (ctls_bin_law K f g (FAnd [f; g]) and W Of Og).
  - ok2.
  - intros A A' B B' HA HB. tauto.
  - intros p. cbn [sat fold_right]. tauto.
Qed.

Theorem ctls_or_union K f g : wf_K K -> ctls_ok f -> ctls_ok g ->
  exists S Sf Sg, ctls_modelcheck K (FOr [f; g]) = Ok S /\ ctls_modelcheck K f = Ok Sf /\
                  ctls_modelcheck K g = Ok Sg /\
                  forall s, In s S <-> In s (states K) /\ (In s Sf \/ In s Sg).
Proof.
  intros W Of Og. apply (ctls_bin_law K f g (FOr [f; g]) or W Of Og).
  - ok2.
  - intros A A' B B' HA HB. tauto.
  - intros p. cbn [sat fold_right]. tauto.
Qed.

Theorem ctls_imp_law K f g : wf_K K -> ctls_ok f -> ctls_ok g ->
  exists S Sf Sg, ctls_modelcheck K (FImp f g) = Ok S /\ ctls_modelcheck K f = Ok Sf /\
                  ctls_modelcheck K g = Ok Sg /\
                  forall s, In s S <-> In s (states K) /\ (~ In s Sf \/ In s Sg).
Proof.
  intros W Of Og. apply (ctls_bin_law K f g (FImp f g) (fun A B => ~ A \/ B) W Of Og).
  - ok2.
  - intros A A' B B' HA HB. tauto.
  - intros p. cbn [sat]. tauto.
Qed.

(* A g  =  not E not g,  for an arbitrary path formula g *)
Lemma dual_A g : fequiv (FA g) (FNot (FE (FNot g))).
Proof.
  intros K p. cbn [sat]. split.
  - intros H [q [Hq [E N]]]. apply N. apply H; assumption.
  - intros H q Hq E. apply NNPP. intros N. apply H. exists q. auto.
Qed.

Theorem ctls_A_not_E_not K g : wf_K K -> ident_atoms g = true -> arity_ok g = true ->
  same_res (ctls_modelcheck K (FA g)) (ctls_modelcheck K (FNot (FE (FNot g)))).
Proof.
  intros W I A. apply ctls_sequiv_same_result; try assumption; try reflexivity.
  apply fequiv_sequiv. apply dual_A.
Qed.

(* E g  =  not A not g *)
Lemma dual_E g : fequiv (FE g) (FNot (FA (FNot g))).
Proof.
  intros K p. cbn [sat]. split.
  - intros [q [Hq [E H]]] N. apply (N q Hq E). exact H.
  - intros H. apply NNPP. intros N. apply H. intros q Hq E Hs. apply N. exists q. auto.
Qed.

Theorem ctls_E_not_A_not K g : wf_K K -> ident_atoms g = true -> arity_ok g = true ->
  same_res (ctls_modelcheck K (FE g)) (ctls_modelcheck K (FNot (FA (FNot g)))).
Proof.
  intros W I A. apply ctls_sequiv_same_result; try assumption; try reflexivity.
  apply fequiv_sequiv. apply dual_E.
Qed.

(* ------------------------------------------------------------------ *)
(** * A.4  Invariance (C06)                                             *)
(* ------------------------------------------------------------------ *)
Theorem presentation_invariance_ctls K K' f :
  wf_K K -> wf_K K' -> same_set (states K) (states K') ->
  (forall x y, edge (kg K) x y <-> edge (kg K') x y) ->
  (forall s a, labelled K s a <-> labelled K' s a) ->
  ctls_state f = true -> ident_atoms f = true -> arity_ok f = true ->
  same_res (ctls_modelcheck K f) (ctls_modelcheck K' f).
Proof.
  intros W W' Hst He Hl C I A.
  apply (res_set_same _ _ _ _ (ctls_res K f W C I A) (ctls_res K' f W' C I A)).
  intros s. rewrite (Hst s), (holds_same K K' He Hl f s). reflexivity.
Qed.

(* --- renaming of states --- *)
Lemma rename_wf_K rho K : injective rho -> wf_K K -> wf_K (rename_K rho K).
Proof.
  intros inj [W [Hl Hi]]. split; [apply rename_wf; assumption|]. split.
  - rewrite (states_rename rho K). rewrite <- Hl. cbn [klab rename_K].
    rewrite !map_map. apply map_ext. intros [x l]. reflexivity.
  - intros y Hy. cbn [kinit rename_K] in Hy. apply in_map_iff in Hy. destruct Hy as [x [E Hx]].
    subst y. rewrite (states_rename rho K). apply in_map. apply Hi. exact Hx.
Qed.

Theorem rename_states_ctls rho K f : injective rho -> wf_K K ->
  ctls_state f = true -> ident_atoms f = true -> arity_ok f = true ->
  exists S S', ctls_modelcheck K f = Ok S /\ ctls_modelcheck (rename_K rho K) f = Ok S' /\
               forall s', In s' S' <-> exists s, s' = rho s /\ In s S.
Proof.
  intros inj W C I A. destruct (ctls_res K f W C I A) as [S [E H]].
  destruct (ctls_res _ f (rename_wf_K rho K inj W) C I A) as [S' [E' H']].
  exists S, S'. split; [exact E|]. split; [exact E'|].
  intros s'. rewrite H', (states_rename rho K), in_map_iff. split.
  - intros [[s [Es Hs]] Hh]. subst s'. exists s. split; [reflexivity|]. apply H.
    split; [exact Hs|]. apply (holds_rename rho inj K). exact Hh.
  - intros [s [Es Hs]]. subst s'. apply H in Hs. destruct Hs as [Hs Hh].
    split; [exists s; auto|]. apply (holds_rename rho inj K). exact Hh.
Qed.

(* --- renaming of atoms --- *)
Lemma relabel_wf_K sigma K : wf_K K -> wf_K (relabel sigma K).
Proof.
  intros [W [Hl Hi]]. split; [exact W|]. split; [|exact Hi].
  change (states (relabel sigma K)) with (states K). rewrite <- Hl. cbn [klab relabel].
  rewrite map_map. apply map_ext. intros [x l]. reflexivity.
Qed.

Lemma map_atoms_ctls sigma f : ctls_state (map_atoms sigma f) = ctls_state f.
Proof.
  induction f as [b|a|g IH|fs IH|fs IH|g h IHg IHh|g IH|g IH|g IH|g h IHg IHh|g h IHg IHh|g IH|g IH]
    using form_ind'; cbn [map_atoms ctls_state]; try reflexivity; try exact IH;
    try (rewrite IHg, IHh; reflexivity).
  - apply forallb_map_eq. exact IH.
  - apply forallb_map_eq. exact IH.
Qed.

Lemma map_atoms_arity sigma f : arity_ok (map_atoms sigma f) = arity_ok f.
Proof.
  induction f as [b|a|g IH|fs IH|fs IH|g h IHg IHh|g IH|g IH|g IH|g h IHg IHh|g h IHg IHh|g IH|g IH]
    using form_ind'; cbn [map_atoms arity_ok]; try reflexivity; try exact IH;
    try (rewrite IHg, IHh; reflexivity).
  - rewrite map_length. f_equal. apply forallb_map_eq. exact IH.
  - rewrite map_length. f_equal. apply forallb_map_eq. exact IH.
Qed.

(* [ident_atoms (map_atoms sigma f)] is a hypothesis: sigma must map the atoms of f to
   identifiers that are not reserved words *)
Theorem rename_atoms_ctls sigma K f : wf_K K ->
  ctls_state f = true -> ident_atoms f = true -> arity_ok f = true ->
  ident_atoms (map_atoms sigma f) = true ->
  inj_on sigma (rel_atoms K f) ->
  same_res (ctls_modelcheck K f) (ctls_modelcheck (relabel sigma K) (map_atoms sigma f)).
Proof.
  intros W C I A I' Inj.
  assert (C' : ctls_state (map_atoms sigma f) = true) by (rewrite map_atoms_ctls; exact C).
  assert (A' : arity_ok (map_atoms sigma f) = true) by (rewrite map_atoms_arity; exact A).
  apply (res_set_same _ _ _ _ (ctls_res K f W C I A)
                      (ctls_res _ _ (relabel_wf_K sigma K W) C' I' A')).
  assert (X : forall p, sat (relabel sigma K) p (map_atoms sigma f) <-> sat K p f).
  { apply (sat_relabel sigma K (rel_atoms K f) Inj).
    - intros s a H. right. exists s. exact H.
    - intros a H. left. exact H. }
  intros s. change (states (relabel sigma K)) with (states K).
  split; intros [Hs [p [Hp [E H]]]]; (split; [exact Hs|]); exists p; (split; [exact Hp|]);
    (split; [exact E|]); apply X; exact H.
Qed.

(* a sufficient condition for the extra hypothesis *)
Lemma ident_atoms_map sigma f : (forall a, In a (atoms_of f) -> CTLSP.good_id (sigma a) = true) ->
  ident_atoms (map_atoms sigma f) = true.
Proof.
  induction f as [b|a|g IH|fs IH|fs IH|g h IHg IHh|g IH|g IH|g IH|g h IHg IHh|g h IHg IHh|g IH|g IH]
    using form_ind'; cbn [map_atoms atoms_of CTLSP.ident_atoms]; intros H;
    try reflexivity; try (apply IH; exact H);
    try (rewrite IHg, IHh; [reflexivity | |]; intros a Ha; apply H; apply in_or_app; auto).
  - apply (H a). left. reflexivity.
  - rewrite forallb_forall. intros x Hx. apply in_map_iff in Hx. destruct Hx as [g [E Hg]]. subst x.
    rewrite Forall_forall in IH. apply (IH g Hg). intros a Ha. apply H. apply in_flat_map.
    exists g. auto.
  - rewrite forallb_forall. intros x Hx. apply in_map_iff in Hx. destruct Hx as [g [E Hg]]. subst x.
    rewrite Forall_forall in IH. apply (IH g Hg). intros a Ha. apply H. apply in_flat_map.
    exists g. auto.
Qed.

(* --- extension by states that are unreachable from K --- *)
Theorem unreachable_extension_ctls K K' f :
  wf_K K -> wf_K K' -> incl (states K) (states K') ->
  (forall x y, In x (states K) -> In y (states K) -> (edge (kg K) x y <-> edge (kg K') x y)) ->
  (forall x y, In x (states K) -> edge (kg K') x y -> In y (states K)) ->
  (forall s a, In s (states K) -> (labelled K s a <-> labelled K' s a)) ->
  ctls_state f = true -> ident_atoms f = true -> arity_ok f = true ->
  exists S S', ctls_modelcheck K f = Ok S /\ ctls_modelcheck K' f = Ok S' /\
               forall s, In s S <-> In s (states K) /\ In s S'.
Proof.
  intros W W' Hincl He Hno Hl C I A.
  destruct (unreachable_extension K K' (wf_K_wf K W) (wf_K_wf K' W') Hincl He Hno Hl) as [Hh _].
  destruct (ctls_res K f W C I A) as [S [E H]]. destruct (ctls_res K' f W' C I A) as [S' [E' H']].
  exists S, S'. split; [exact E|]. split; [exact E'|].
  intros s. rewrite H, H'. split.
  - intros [Hs Hx]. split; [exact Hs|]. split; [apply Hincl; exact Hs|].
    apply (Hh s f Hs). exact Hx.
  - intros [Hs [_ Hx]]. split; [exact Hs|]. apply (Hh s f Hs). exact Hx.
Qed.

(* ------------------------------------------------------------------ *)
(** * B.5  Lasso characterisation of the LTL result (C02)               *)
(* ------------------------------------------------------------------ *)
Notation lasso := PMC.Proofs.InfPath.lasso.

(* the (<=) direction of [gba], exposing the ultimately periodic shape of the witness
   (same proof as InfPath.gba_if) *)
Lemma gba_if_lasso : forall g cs Ps v, scc_spec g cs ->
  (exists C, In C cs /\ nontrivial g C = true /\
             (forall P, In P Ps -> exists x, In x C /\ In x P) /\
             exists c, In c C /\ reaches g v c) ->
  exists l0 cyc, cyc <> [] /\ gpath g (lasso (v :: l0) cyc) /\
                 forall P, In P Ps -> inf_often (lasso (v :: l0) cyc) P.
Proof.
  intros g cs Ps v Hscc [C [HC [Hnt [Hall [c [Hc Hvc]]]]]].
  destruct (InfPath.pick_witnesses C Ps Hall) as [xs [HxsC Hxs]].
  destruct (InfPath.walk_of_reaches _ _ _ Hvc) as [l0 [Hc0 Hl0]].
  destruct (InfPath.tour g c xs) as [lt [Hct [Hlt Hint]]].
  { intros x Hx. destruct Hscc as [_ [_ Hmut]]. apply (Hmut C c HC Hc x). apply HxsC; exact Hx. }
  destruct (InfPath.nontrivial_cycle g cs C c Hscc HC Hnt Hc) as [ln [Hne [Hcn Hln]]].
  set (cyc := lt ++ ln).
  assert (Hcne : cyc <> []).
  { unfold cyc. intro E. apply app_eq_nil in E. destruct E as [_ E]. exact (Hne E). }
  assert (Hccyc : InfPath.chain g c cyc).
  { unfold cyc. apply InfPath.chain_app; [exact Hct|]. rewrite Hlt. exact Hcn. }
  assert (Hlcyc : last cyc c = c).
  { unfold cyc. rewrite InfPath.last_app2, Hlt. exact Hln. }
  assert (Hcin : In c cyc).
  { unfold cyc. apply in_or_app. right. rewrite <- Hln. apply InfPath.last_In. exact Hne. }
  exists l0, cyc. split; [exact Hcne|]. split.
  - apply InfPath.lasso_gpath.
    + exact Hcne.
    + exact Hc0.
    + rewrite Hl0. exact Hccyc.
    + rewrite Hl0. exact Hlcyc.
  - intros P HP i. destruct (Hxs P HP) as [x [Hx HxP]].
    assert (Hxc : In x cyc).
    { destruct (Hint x Hx) as [E|Hxl].
      - subst x. exact Hcin.
      - unfold cyc. apply in_or_app. left. exact Hxl. }
    destruct (InfPath.lasso_hits (v :: l0) cyc x Hxc i) as [m [Hm Em]].
    exists m. split; [exact Hm|]. rewrite Em. exact HxP.
Qed.

(* mapping a function over a lasso *)
Lemma lasso_map (f : nat -> nat) pre cyc : cyc <> [] ->
  forall i, f (lasso pre cyc i) = lasso (map f pre) (map f cyc) i.
Proof.
  intros Hne i. unfold InfPath.lasso. rewrite !map_length.
  destruct (i <? length pre) eqn:E.
  - apply Nat.ltb_lt in E. rewrite (nth_indep (map f pre) 0 (f 0)) by (rewrite map_length; exact E).
    rewrite map_nth. reflexivity.
  - assert (Hn : length cyc <> 0) by (destruct cyc; [congruence | cbn; lia]).
    pose proof (Nat.mod_upper_bound (i - length pre) (length cyc) Hn) as Hr.
    rewrite (nth_indep (map f cyc) 0 (f 0)) by (rewrite map_length; exact Hr).
    rewrite map_nth. reflexivity.
Qed.

Lemma is_path_ext K p q : (forall i, p i = q i) -> is_path K p -> is_path K q.
Proof. intros H Hp i. rewrite <- !H. apply Hp. Qed.

(* soundness of [checkE_path] with an ultimately periodic witness *)
Theorem checkE_path_sound_lasso K p : LTLP.normal p ->
  forall s, In s (checkE_path K p) ->
  exists pre cyc, cyc <> [] /\ is_path K (lasso pre cyc) /\ lasso pre cyc 0 = s /\
                  sat K (lasso pre cyc) p.
Proof.
  intros Hnorm s Hs.
  set (cl := dedupf (closure p)).
  apply LTLP.check_unfold in Hs. destruct Hs as [n [HR [Hp Hst]]].
  apply (LTLP.Rset_spec GraphP.reach_exact GraphP.reversed_spec SccP.scc_correct) in HR.
  destruct HR as [C [c [HC [Hsf [Hc Hr]]]]].
  fold cl in HC, Hsf, Hr, Hp, Hst.
  pose proof (LTLP.cs_spec SccP.scc_correct K p) as Hcs. fold cl in Hcs.
  destruct (gba_if_lasso _ _ (map (LTLP.PU K cl) cl) n Hcs) as [l0 [cyc [Hne [Hw Hinf]]]].
  { exists C. split; [exact HC|]. split.
    - apply (LTLP.self_fulfilling_spec K cl) in Hsf. apply Hsf.
    - split; [apply (LTLP.sf_meets SccP.scc_correct K p C HC Hsf) | exists c; auto]. }
  set (w := lasso (n :: l0) cyc) in *.
  assert (Hfair : forall g h, In (FU g h) cl ->
            forall i, exists j, i <= j /\ (~ LTLP.inA K cl (FU g h) (w j) \/ LTLP.inA K cl h (w j))).
  { intros g h Hf i. destruct (Hinf (LTLP.PU K cl (FU g h))) with (i := i) as [j [Hj Hin]].
    - apply in_map. exact Hf.
    - exists j. split; [exact Hj|]. unfold LTLP.PU in Hin. apply filter_In in Hin.
      destruct Hin as [_ Hin]. apply orb_true_iff in Hin. destruct Hin as [Hin|Hin].
      + left. apply negb_true_iff in Hin. unfold LTLP.inA. rewrite Hin. discriminate.
      + right. exact Hin. }
  assert (Heq : forall i, LTLP.wpath K cl w i
                          = lasso (map (LTLP.st_of K cl) (n :: l0)) (map (LTLP.st_of K cl) cyc) i).
  { intros i. unfold LTLP.wpath, w. apply lasso_map. exact Hne. }
  exists (map (LTLP.st_of K cl) (n :: l0)), (map (LTLP.st_of K cl) cyc).
  split; [|split; [|split]].
  - intros E. apply map_eq_nil in E. exact (Hne E).
  - apply (is_path_ext K _ _ Heq). apply LTLP.wpath_is_path. exact Hw.
  - cbn [map]. rewrite InfPath.lasso_0. exact Hst.
  - apply (LTLP.sat_ext K p _ _ Heq). apply LTLP.sat_suffix_0.
    apply (LTLP.walk_sat K cl (LTLP.cl_closed p Hnorm) w Hw Hfair p (LTLP.p_in_cl p Hnorm) 0).
    exact Hp.
Qed.

Theorem ltl_excluded_iff_lasso K g : wf_kripke K -> ltl_path g = true ->
  forall S, ltl_modelcheck K (FA g) = Ok S ->
  forall s, In s (states K) ->
    (~ In s S <-> exists pre cyc, cyc <> [] /\ is_path K (lasso pre cyc) /\
                                  lasso pre cyc 0 = s /\ sat K (lasso pre cyc) (FNot g)).
Proof.
  intros W L S E s Hs. split.
  - intros Hn. unfold ltl_modelcheck in E. rewrite L in E. injection E as <-.
    assert (Hin : In s (checkE_path K (restrict (LNot g)))).
    { destruct (in_dec Nat.eq_dec s (checkE_path K (restrict (LNot g)))) as [H|H]; [exact H|].
      exfalso. apply Hn. apply LTLP.compl_In. split; assumption. }
    assert (L' : ltl_path (LNot g) = true) by (apply LTLP.LNot_ltl_path_proved; exact L).
    destruct (checkE_path_sound_lasso K _ (LTLP.restrict_normal _ L') s Hin)
      as [pre [cyc [Hne [Hp [E0 Hsat]]]]].
    exists pre, cyc. split; [exact Hne|]. split; [exact Hp|]. split; [exact E0|].
    cbn [sat]. apply (RewriteP.LNot_sem K _ g). apply (RewriteP.restrict_sem K _ (LNot g)).
    exact Hsat.
  - intros [pre [cyc [_ [Hp [E0 Hsat]]]]] Hin.
    destruct (ltl_exact K g W L) as [S' [E' H']]. rewrite E in E'. injection E' as <-.
    apply H' in Hin. destruct Hin as [_ Hall]. cbn [sat] in Hsat. apply Hsat.
    apply Hall; assumption.
Qed.

(* the same, packaged with totality *)
Corollary ltl_lasso_char K g : wf_kripke K -> ltl_path g = true ->
  res_set (ltl_modelcheck K (FA g))
          (fun s => In s (states K) /\
                    ~ exists pre cyc, cyc <> [] /\ is_path K (lasso pre cyc) /\
                                      lasso pre cyc 0 = s /\ sat K (lasso pre cyc) (FNot g)).
Proof.
  intros W L. destruct (ltl_total_subset K g W L) as [S [E [_ Hincl]]]. exists S.
  split; [exact E|]. intros s. split.
  - intros Hin. split; [apply Hincl; exact Hin|]. intros Hex.
    apply (ltl_excluded_iff_lasso K g W L S E s (Hincl s Hin)) in Hex. contradiction.
  - intros [Hs Hno]. destruct (in_dec Nat.eq_dec s S) as [H|H]; [exact H|].
    exfalso. apply Hno. apply (ltl_excluded_iff_lasso K g W L S E s Hs). exact H.
Qed.

(* ------------------------------------------------------------------ *)
(** * C. Non-vacuity: the hypotheses are satisfiable and the results non-trivial *)
(* ------------------------------------------------------------------ *)
Module Examples.
  Import String.
  Local Open Scope string_scope.
  Definition Kr := mk_kripke [0; 1; 2; 3] [0] [(0, 1); (1, 1); (1, 2); (2, 0); (3, 3); (3, 0)]
                             [(0, ["p"]); (1, ["q"]); (3, ["p"; "q"])].
  Definition Kx := match Kr with Ok K => K | _ => mkK [] [] [] end.
  Definition p := FAtom "p".
  Definition q := FAtom "q".

  Lemma Kx_wf : wf_K Kx.
  Proof.
    apply (KripkeP.mk_kripke_wf_K GraphP.mk_graph_spec [0; 1; 2; 3] [0]
             [(0, 1); (1, 1); (1, 2); (2, 0); (3, 3); (3, 0)]
             [(0, ["p"]); (1, ["q"]); (3, ["p"; "q"])]).
    vm_compute. reflexivity.
  Qed.

  (* A.1: CTL* vs LTL on  A (p U q)  (a proper, non-empty subset of the states) *)
  Example ex_ltl_agree :
    ctls_modelcheck Kx (FA (FU p q)) = Ok [0; 1; 3] /\ ltl_modelcheck Kx (FA (FU p q)) = Ok [0; 1; 3].
  Proof. vm_compute. split; reflexivity. Qed.

  Example ex_ltl_agree_thm : same_res (ctls_modelcheck Kx (FA (FU p q))) (ltl_modelcheck Kx (FA (FU p q))).
  Proof. apply ctls_ltl_agree; [exact Kx_wf | reflexivity | reflexivity | reflexivity]. Qed.

  (* A.1: CTL* vs CTL on  A G (p -> A X q) *)
  Example ex_ctl_agree :
    ctls_modelcheck Kx (FA (FG (FImp p (FA (FX q))))) = Ok [0; 1; 2] /\
    ctl_modelcheck Kx (FA (FG (FImp p (FA (FX q))))) = Ok [0; 1; 2].
  Proof. vm_compute. split; reflexivity. Qed.

  (* a genuine CTL* formula (neither CTL nor LTL):  E (G F p /\ G F q)  and its negation *)
  Example ex_ctls_not :
    ctls_modelcheck Kx (FA (FG (FImp p (FX q)))) = Ok [0; 1; 2] /\
    ctls_modelcheck Kx (FNot (FA (FG (FImp p (FX q))))) = Ok [3] /\
    ctls_modelcheck Kx (FNot (FE (FNot (FG (FImp p (FX q)))))) = Ok [0; 1; 2].
  Proof. vm_compute. repeat split; reflexivity. Qed.

  Example ex_ctls_and :
    ctls_modelcheck Kx (FAnd [FA (FU p q); FA (FG (FImp p (FX q)))]) = Ok [0; 1].
  Proof. vm_compute. reflexivity. Qed.

  (* B.5: state 2 is excluded from the result of  A (p U q), hence an ultimately periodic
     path from 2 violates  p U q *)
  Example ex_lasso :
    exists pre cyc, cyc <> [] /\ is_path Kx (lasso pre cyc) /\ lasso pre cyc 0 = 2 /\
                    sat Kx (lasso pre cyc) (FNot (FU p q)).
  Proof.
    apply (ltl_excluded_iff_lasso Kx (FU p q) (wf_K_wf Kx Kx_wf) eq_refl [0; 1; 3]).
    - vm_compute. reflexivity.
    - vm_compute. auto.
    - cbn [In]. intros [H | [H | [H | []]]]; discriminate H.
  Qed.

  (* A.4: renaming of states by  s |-> s + 10 *)
  Example ex_rename :
    ctls_modelcheck (rename_K (fun s => s + 10) Kx) (FA (FU p q)) = Ok [10; 11; 13].
  Proof. vm_compute. reflexivity. Qed.

  (* A.4: renaming of atoms  p <-> q *)
  Definition swap (a : atom) : atom := if String.eqb a "p" then "q" else if String.eqb a "q" then "p" else a.
  Example ex_relabel :
    ctls_modelcheck (relabel swap Kx) (map_atoms swap (FA (FU p q))) = Ok [0; 1; 3].
  Proof. vm_compute. reflexivity. Qed.
End Examples.

(* ------------------------------------------------------------------ *)
Print Assumptions ctls_ctl_agree.
Print Assumptions ctls_ltl_agree.
Print Assumptions three_checkers_agree.
Print Assumptions ctls_total_subset.
Print Assumptions ctls_total_subset_nodup.
Print Assumptions ctls_equiv_same_result.
Print Assumptions ctls_not_compl.
Print Assumptions ctls_and_inter.
Print Assumptions ctls_or_union.
Print Assumptions ctls_imp_law.
Print Assumptions ctls_A_not_E_not.
Print Assumptions ctls_E_not_A_not.
Print Assumptions presentation_invariance_ctls.
Print Assumptions rename_wf_K.
Print Assumptions rename_states_ctls.
Print Assumptions rename_atoms_ctls.
Print Assumptions unreachable_extension_ctls.
Print Assumptions gba_if_lasso.
Print Assumptions checkE_path_sound_lasso.
Print Assumptions ltl_excluded_iff_lasso.
Print Assumptions ltl_lasso_char.
