(* FairP.v — what is TRUE and what is FALSE about the fairness support of the library
   (Model/Kripke.v get_fair_states / label_fair_states, Model/Fair.v).

   The model is faithful to the Python code, including two genuine defects:
     D8  get_fair_states rejects an SCC when `len = 1 OR no self-loop` (should be AND);
     D9  the formula reductions unfair_ctl / unfair_ctls are not the fair semantics of
         Clarke, Grumberg and Peled (Spec/FairSemantics.v).
   So "fairness restricts the path quantifiers to fair paths" is REFUTED.  This file proves
     1. the repaired fair-state computation [fair_states_ref] is exact;
     2. the code's [get_fair_states] is sound (only fair states), but
     3. incomplete, and the checkers' answers differ from the fair semantics
        (concrete witnesses);
     4. the fair checkers never fail internally on well-typed input;
     5. the label chosen by [label_fair_states] is fresh. *)
From PMC Require Import Spec.Lemmas Spec.FairSemantics.
From PMC Require Import Proofs.BaseP.
From PMC Require Proofs.GraphP Proofs.SccP Proofs.InfPath Proofs.KripkeP Proofs.CTLP
                 Proofs.RewriteP Proofs.SyntaxP Proofs.Assemble.
From Coq Require Import List Arith Bool Lia.
From Coq Require DecimalString DecimalNat FinFun.
Import ListNotations.

(* ------------------------------------------------------------------ *)
(* small helpers                                                       *)
(* ------------------------------------------------------------------ *)
Definition fairb (F : list (list nat)) (c : list nat) : bool :=
  forallb (fun P => negb (match inter c P with [] => true | _ => false end)) F.

Lemma inter_nonempty c P :
  negb (match inter c P with [] => true | _ => false end) = true <-> exists x, In x c /\ In x P.
Proof.
  destruct (inter c P) as [|y r] eqn:E; simpl; split.
  - discriminate.
  - intros [x Hx]. apply inter_In in Hx. rewrite E in Hx. destruct Hx.
  - intros _. exists y. apply inter_In. rewrite E. left; reflexivity.
  - reflexivity.
Qed.

Lemma fairb_spec F c : fairb F c = true <-> forall P, In P F -> exists x, In x c /\ In x P.
Proof.
  unfold fairb. rewrite forallb_forall. split; intros H P HP.
  - apply inter_nonempty. apply H; exact HP.
  - apply inter_nonempty. apply H; exact HP.
Qed.

(* the union of the accepted components *)
Definition pick (test : list nat -> bool) (cs : list (list nat)) : list nat :=
  flat_map (fun c => if test c then c else []) cs.

Lemma pick_In test cs x : In x (pick test cs) <-> exists c, In c cs /\ test c = true /\ In x c.
Proof.
  unfold pick. rewrite in_flat_map. split.
  - intros [c [Hc Hx]]. exists c. destruct (test c); [auto | destruct Hx].
  - intros [c [Hc [Ht Hx]]]. exists c. rewrite Ht. auto.
Qed.

Lemma get_fair_states_eq K F :
  get_fair_states K F = reach (reversed (kg K)) (pick (is_a_fair_SCC K F) (compute_SCCs (kg K))).
Proof. reflexivity. Qed.

Lemma fair_states_ref_eq K F :
  fair_states_ref K F =
  reach (reversed (kg K)) (pick (fun c => nontrivial (kg K) c && fairb F c) (compute_SCCs (kg K))).
Proof. reflexivity. Qed.

Lemma in_concat_ex (cs : list (list nat)) x : In x (concat cs) <-> exists c, In c cs /\ In x c.
Proof.
  rewrite in_concat. split; intros [c Hc]; exists c; tauto.
Qed.

(* backward reachability from a set of components *)
Lemma back_reach_spec g test : wf_graph g ->
  forall s, In s (reach (reversed g) (pick test (compute_SCCs g))) <->
            exists c x, In c (compute_SCCs g) /\ test c = true /\ In x c /\ reaches g s x.
Proof.
  intros Hwf s.
  destruct (PMC.Proofs.GraphP.reversed_spec g Hwf) as (Hwr & Hnr & Her).
  pose proof (PMC.Proofs.SccP.scc_correct g Hwf) as (Hnd & Hcov & Hmut).
  assert (Hincl : incl (pick test (compute_SCCs g)) (nodes (reversed g))).
  { intros x Hx. apply pick_In in Hx. destruct Hx as [c [Hc [_ Hx]]].
    apply Hnr. apply Hcov. apply in_concat_ex. exists c; auto. }
  destruct (PMC.Proofs.GraphP.reach_exact (reversed g) _ Hwr Hincl) as [_ Hre].
  rewrite Hre. split.
  - intros [x [Hx Hr]]. apply pick_In in Hx. destruct Hx as [c [Hc [Ht Hx]]].
    apply (PMC.Proofs.GraphP.reaches_reversed g x s Hwf) in Hr.
    exists c, x. repeat split; auto.
  - intros [c [x [Hc [Ht [Hx Hr]]]]]. exists x. split.
    + apply pick_In. exists c; auto.
    + apply PMC.Proofs.GraphP.reaches_reversed; auto.
Qed.

Lemma back_reach_nodes g test : wf_graph g ->
  forall s, In s (reach (reversed g) (pick test (compute_SCCs g))) -> In s (nodes g).
Proof.
  intros Hwf s Hs.
  destruct (PMC.Proofs.GraphP.reversed_spec g Hwf) as (Hwr & Hnr & Her).
  pose proof (PMC.Proofs.SccP.scc_correct g Hwf) as (Hnd & Hcov & Hmut).
  assert (Hincl : incl (pick test (compute_SCCs g)) (nodes (reversed g))).
  { intros x Hx. apply pick_In in Hx. destruct Hx as [c [Hc [_ Hx]]].
    apply Hnr. apply Hcov. apply in_concat_ex. exists c; auto. }
  destruct (PMC.Proofs.GraphP.reach_exact (reversed g) _ Hwr Hincl) as [_ Hre].
  apply Hre in Hs. destruct Hs as [x [Hx Hr]].
  apply Hnr. apply (PMC.Proofs.GraphP.reaches_in_nodes (reversed g) x s Hwr); auto.
Qed.

(* ------------------------------------------------------------------ *)
(* 1. the repaired computation is exact                                *)
(* ------------------------------------------------------------------ *)
Theorem fair_states_ref_exact : forall K F, wf_kripke K ->
  forall s, In s (fair_states_ref K F) <-> In s (states K) /\ fair_state K F s.
Proof.
  intros K F [Hwf Htot] s. rewrite fair_states_ref_eq.
  pose proof (PMC.Proofs.SccP.scc_correct (kg K) Hwf) as Hscc.
  split.
  - intros Hs. pose proof (back_reach_nodes _ _ Hwf s Hs) as Hn.
    split; [exact Hn|].
    apply back_reach_spec in Hs; auto. destruct Hs as [c [x [Hc [Ht [Hx Hr]]]]].
    apply andb_true_iff in Ht. destruct Ht as [Hnt Hf].
    apply (PMC.Proofs.InfPath.gba (kg K) (compute_SCCs (kg K)) F s Hwf Hscc Hn).
    exists c. split; [exact Hc|]. split; [exact Hnt|]. split.
    + apply fairb_spec. exact Hf.
    + exists x. auto.
  - intros [Hn Hfs]. apply back_reach_spec; auto.
    apply (PMC.Proofs.InfPath.gba (kg K) (compute_SCCs (kg K)) F s Hwf Hscc Hn) in Hfs.
    destruct Hfs as [c [Hc [Hnt [Hf [x [Hx Hr]]]]]].
    exists c, x. split; [exact Hc|]. split.
    + apply andb_true_iff. split; [exact Hnt|]. apply fairb_spec. exact Hf.
    + auto.
Qed.

(* ------------------------------------------------------------------ *)
(* 2. the code's computation is sound (but not complete, see 3.)       *)
(* ------------------------------------------------------------------ *)
Lemma is_a_fair_SCC_repaired K F c :
  is_a_fair_SCC K F c = true -> nontrivial (kg K) c && fairb F c = true.
Proof.
  unfold is_a_fair_SCC, nontrivial. destruct c as [|v r]; [discriminate|].
  destruct r as [|w r]; simpl orb; cbv iota.
  - discriminate.
  - destruct (negb (memb v (succs (kg K) v))); [discriminate|].
    intros H. exact H.
Qed.

Theorem get_fair_states_incl_ref : forall K F, wf_kripke K ->
  incl (get_fair_states K F) (fair_states_ref K F).
Proof.
  intros K F [Hwf _] s. rewrite get_fair_states_eq, fair_states_ref_eq.
  rewrite !back_reach_spec by exact Hwf.
  intros [c [x [Hc [Ht H]]]]. exists c, x. split; [exact Hc|]. split; [|exact H].
  apply is_a_fair_SCC_repaired. exact Ht.
Qed.

Theorem get_fair_states_sound : forall K F, wf_kripke K ->
  forall s, In s (get_fair_states K F) -> In s (states K) /\ fair_state K F s.
Proof.
  intros K F HK s Hs. apply fair_states_ref_exact; [exact HK|].
  apply get_fair_states_incl_ref; assumption.
Qed.


(* ------------------------------------------------------------------ *)
(* 3. refutations by concrete witnesses                                *)
(* ------------------------------------------------------------------ *)
(* a boolean well-formedness test, to discharge [wf_kripke] of literal structures *)
Fixpoint nodupb (l : list nat) : bool :=
  match l with [] => true | x :: r => negb (memb x r) && nodupb r end.

Lemma nodupb_NoDup l : nodupb l = true -> NoDup l.
Proof.
  induction l as [|x r IH]; simpl; intros H; [constructor|].
  apply andb_true_iff in H. destruct H as [H1 H2]. constructor; auto.
  apply memb_false. destruct (memb x r); [discriminate | reflexivity].
Qed.

Definition wf_kripkeb (K : kripke) : bool :=
  nodupb (nodes (kg K)) &&
  forallb (fun p => nodupb (snd p) && forallb (fun y => memb y (nodes (kg K))) (snd p) &&
                    match snd p with [] => false | _ => true end) (kg K).

Lemma succs_cases g x : succs g x = [] \/ In (x, succs g x) g.
Proof.
  destruct (in_dec Nat.eq_dec x (nodes g)) as [Hi|Hi].
  - right. apply PMC.Proofs.GraphP.succs_assoc_In; exact Hi.
  - left. apply PMC.Proofs.GraphP.succs_not_node; exact Hi.
Qed.

Lemma wf_kripkeb_sound K : wf_kripkeb K = true -> wf_kripke K.
Proof.
  unfold wf_kripkeb. intros H. apply andb_true_iff in H. destruct H as [Hn Hall].
  rewrite forallb_forall in Hall.
  assert (Hp : forall x, In (x, succs (kg K) x) (kg K) ->
             NoDup (succs (kg K) x) /\ (forall y, In y (succs (kg K) x) -> In y (nodes (kg K))) /\
             succs (kg K) x <> []).
  { intros x Hx. apply Hall in Hx. simpl in Hx.
    apply andb_true_iff in Hx. destruct Hx as [Hx H3].
    apply andb_true_iff in Hx. destruct Hx as [H1 H2].
    split; [apply nodupb_NoDup; exact H1|]. split.
    - intros y Hy. rewrite forallb_forall in H2. apply memb_In. apply H2; exact Hy.
    - destruct (succs (kg K) x); [discriminate | discriminate]. }
  split; [split; [|split]|].
  - apply nodupb_NoDup; exact Hn.
  - intros x. destruct (succs_cases (kg K) x) as [E|Hx].
    + rewrite E; constructor.
    + apply Hp; exact Hx.
  - intros x y Hxy. unfold edge in Hxy.
    destruct (succs_cases (kg K) x) as [E|Hx].
    + rewrite E in Hxy. destruct Hxy.
    + split.
      * change x with (fst (x, succs (kg K) x)). apply in_map. exact Hx.
      * apply (Hp x Hx). exact Hxy.
  - intros s Hs. apply Hp. apply PMC.Proofs.GraphP.succs_assoc_In. exact Hs.
Qed.

Module Witness.
  Import String.
  Local Open Scope string_scope.

  (* one state with a self loop, labelled p *)
  Definition K1 : kripke := mkK [(0, [0])] [0] [(0, ["p"])].
  (* 0 <-> 1 plus a self loop on 0; p holds at 0 only *)
  Definition K2 : kripke := mkK [(0, [0; 1]); (1, [0])] [0] [(0, ["p"]); (1, [])].
  Definition pa : atom := "p".
  Definition p : form := FAtom pa.
End Witness.
Import Witness.

Lemma K1_wf : wf_kripke K1.
Proof. apply wf_kripkeb_sound. vm_compute. reflexivity. Qed.
Lemma K2_wf : wf_kripke K2.
Proof. apply wf_kripkeb_sound. vm_compute. reflexivity. Qed.

(* 3a. D8: the single self-looping state is fair for the empty constraint (every path is
   fair), yet get_fair_states returns the empty set *)
Theorem get_fair_states_incomplete_refuted :
  exists K F s, wf_kripke K /\ fair_state K F s /\ In s (states K) /\ ~ In s (get_fair_states K F).
Proof.
  exists K1, [], 0. split; [exact K1_wf|]. split; [|split].
  - exists (fun _ => 0). split; [|split].
    + intros i. vm_compute. left; reflexivity.
    + reflexivity.
    + intros P HP. destruct HP.
  - vm_compute. left; reflexivity.
  - vm_compute. intros H; exact H.
Qed.

(* 3b. with F = [] every path is fair, so the fair answer should be the ordinary one *)
Theorem trivial_F_refuted :
  exists K f, wf_kripke K /\ ctl_state f = true /\ ctl_modelcheck_fair K f [] <> ctl_modelcheck K f.
Proof.
  exists K1, p. split; [exact K1_wf|]. split; [reflexivity|].
  vm_compute. discriminate.
Qed.

Theorem trivial_F_refuted_EG :
  exists K f, wf_kripke K /\ ctl_state f = true /\ ctl_modelcheck_fair K f [] <> ctl_modelcheck K f.
Proof.
  exists K1, (FE (FG p)). split; [exact K1_wf|]. split; [reflexivity|].
  vm_compute. discriminate.
Qed.

(* 3c. D9: the reduction itself is wrong even where the fair set is right *)
Lemma K2_labelled_p s : labelled K2 s pa -> s = 0.
Proof.
  unfold labelled, labels_of. destruct s as [|[|s]]; simpl; intros H.
  - reflexivity.
  - destruct H.
  - destruct H.
Qed.

Lemma K2_fair_set_right :
  forall s, In s (get_fair_states K2 [[1]]) <-> In s (states K2) /\ fair_state K2 [[1]] s.
Proof.
  intros s. rewrite <- (fair_states_ref_exact K2 [[1]] K2_wf s).
  assert (E : get_fair_states K2 [[1]] = fair_states_ref K2 [[1]]) by (vm_compute; reflexivity).
  rewrite E. tauto.
Qed.

(* no fair path of K2 satisfies G p: such a path is constantly 0 and never visits 1 *)
Lemma K2_no_fair_Gp q : fair_path [[1]] q -> ~ fsat K2 [[1]] q (FG p).
Proof.
  intros Hfair HG.
  destruct (Hfair [1] (or_introl eq_refl) 0) as [j [_ Hj]].
  pose proof (HG j) as Hl. simpl in Hl. destruct Hl as [Hl _].
  apply K2_labelled_p in Hl. unfold suffix in Hl. rewrite Nat.add_0_r in Hl.
  rewrite Hl in Hj. simpl in Hj. destruct Hj as [Hj|[]]. discriminate.
Qed.

Theorem reduction_refuted :
  exists K F f g, wf_kripke K /\ ctl_state f = true /\ f = FE g /\
    (* the fair set computed by the code is RIGHT for this witness *)
    (forall s, In s (get_fair_states K F) <-> In s (states K) /\ fair_state K F s) /\
    exists S, ctl_modelcheck_fair K f F = Ok S /\
      (* ... and still the answer is not the set of states with a fair path satisfying g *)
      ~ (forall s, In s S <-> In s (states K) /\
                   (exists q, is_path K q /\ q 0 = s /\ fair_path F q /\ fsat K F q g)).
Proof.
  exists K2, [[1]], (FE (FG p)), (FG p).
  split; [exact K2_wf|]. split; [reflexivity|]. split; [reflexivity|].
  split; [exact K2_fair_set_right|].
  exists [0]. split; [vm_compute; reflexivity|].
  intros H. destruct (H 0) as [H0 _].
  destruct (H0 (or_introl eq_refl)) as [_ [q [_ [_ [Hf HG]]]]].
  exact (K2_no_fair_Gp q Hf HG).
Qed.

(* the same, phrased with the fair satisfaction of the state formula f itself *)
Theorem reduction_refuted_fholds :
  exists K F f, wf_kripke K /\ ctl_state f = true /\
    (forall s, In s (get_fair_states K F) <-> In s (states K) /\ fair_state K F s) /\
    exists S, ctl_modelcheck_fair K f F = Ok S /\
      ~ (forall s, In s S <-> In s (states K) /\ fholds K F s f) /\
      (* not even for arbitrary (unfair) evaluation paths *)
      ~ (forall s, In s S <-> In s (states K) /\ exists q, is_path K q /\ q 0 = s /\ fsat K F q f).
Proof.
  exists K2, [[1]], (FE (FG p)).
  split; [exact K2_wf|]. split; [reflexivity|].
  split; [exact K2_fair_set_right|].
  exists [0]. split; [vm_compute; reflexivity|]. split.
  - intros H. destruct (H 0) as [H0 _].
    destruct (H0 (or_introl eq_refl)) as [_ [q [_ [_ [_ HE]]]]].
    simpl in HE. destruct HE as [q' [_ [_ [Hf HG]]]].
    exact (K2_no_fair_Gp q' Hf HG).
  - intros H. destruct (H 0) as [H0 _].
    destruct (H0 (or_introl eq_refl)) as [_ [q [_ [_ HE]]]].
    simpl in HE. destruct HE as [q' [_ [_ [Hf HG]]]].
    exact (K2_no_fair_Gp q' Hf HG).
Qed.


(* 3d. the LTL and CTL* fair checkers: A F (not p) holds on every fair path of K2 from 0
   (a fair path visits 1, where p fails), yet both answer [1] only *)
Lemma K2_fair_F_not_p q : fair_path [[1]] q -> fsat K2 [[1]] q (FF (FNot p)).
Proof.
  intros Hfair. destruct (Hfair [1] (or_introl eq_refl) 0) as [j [_ Hj]].
  exists j. simpl. intros [Hl _]. apply K2_labelled_p in Hl.
  unfold suffix in Hl. rewrite Nat.add_0_r in Hl. rewrite Hl in Hj.
  simpl in Hj. destruct Hj as [Hj|[]]. discriminate.
Qed.

Theorem ltl_reduction_refuted :
  exists K F g, wf_kripke K /\ ltl_path g = true /\
    (forall s, In s (get_fair_states K F) <-> In s (states K) /\ fair_state K F s) /\
    exists S, ltl_modelcheck_fair K (FA g) F = Ok S /\
      ~ (forall s, In s S <-> In s (states K) /\
                   forall q, is_path K q -> q 0 = s -> fair_path F q -> fsat K F q g).
Proof.
  exists K2, [[1]], (FF (FNot p)).
  split; [exact K2_wf|]. split; [reflexivity|]. split; [exact K2_fair_set_right|].
  exists [1]. split; [vm_compute; reflexivity|].
  intros H. destruct (H 0) as [_ H0].
  assert (Hin : In 0 [1]).
  { apply H0. split; [vm_compute; left; reflexivity|].
    intros q _ _ Hf. apply K2_fair_F_not_p. exact Hf. }
  simpl in Hin. destruct Hin as [Hin|[]]. discriminate.
Qed.

Theorem ctls_reduction_refuted :
  exists K F g, wf_kripke K /\ ctls_state (FA g) = true /\
    (forall s, In s (get_fair_states K F) <-> In s (states K) /\ fair_state K F s) /\
    exists S, ctls_modelcheck_fair K (FA g) F = Ok S /\
      ~ (forall s, In s S <-> In s (states K) /\
                   forall q, is_path K q -> q 0 = s -> fair_path F q -> fsat K F q g).
Proof.
  exists K2, [[1]], (FF (FNot p)).
  split; [exact K2_wf|]. split; [reflexivity|]. split; [exact K2_fair_set_right|].
  exists [1]. split; [vm_compute; reflexivity|].
  intros H. destruct (H 0) as [_ H0].
  assert (Hin : In 0 [1]).
  { apply H0. split; [vm_compute; left; reflexivity|].
    intros q _ _ Hf. apply K2_fair_F_not_p. exact Hf. }
  simpl in Hin. destruct Hin as [Hin|[]]. discriminate.
Qed.

(* ------------------------------------------------------------------ *)
(* 4. no internal error on well-typed input                            *)
(* ------------------------------------------------------------------ *)
Section AllUnfair.
  Variable a : atom.
  Fixpoint all_unfair (fs : list form) : option (list form) :=
    match fs with
    | [] => Some []
    | g :: r => omap2 cons (unfair_ctl a g) (all_unfair r)
    end.
End AllUnfair.

Lemma unfair_ctl_FOr a fs : unfair_ctl a (FOr fs) = option_map FOr (all_unfair a fs).
Proof. reflexivity. Qed.
Lemma unfair_ctl_FAnd a fs : unfair_ctl a (FAnd fs) = option_map FAnd (all_unfair a fs).
Proof. reflexivity. Qed.

Lemma all_unfair_ok a fs :
  (forall g, In g fs -> exists r, unfair_ctl a g = Some r /\ ctl_state r = true) ->
  exists rs, all_unfair a fs = Some rs /\ forallb ctl_state rs = true.
Proof.
  induction fs as [|x fs IH]; intros H.
  - exists []. split; reflexivity.
  - destruct (H x (or_introl eq_refl)) as [r [Er Hr]].
    destruct IH as [rs [Ers Hrs]]; [intros g Hg; apply H; right; exact Hg|].
    exists (r :: rs). split.
    + cbn [all_unfair]. rewrite Er, Ers. reflexivity.
    + cbn [forallb]. rewrite Hr, Hrs. reflexivity.
Qed.

Ltac uc_done :=
  eexists; split;
  [ cbn [unfair_ctl];
    repeat match goal with E : unfair_ctl _ _ = Some _ |- _ => rewrite E end; reflexivity
  | unfold EX, EU, EG; cbn [ctl_state forallb];
    rewrite ?PMC.Proofs.RewriteP.LNot_ctl_state;
    repeat match goal with H : ctl_state _ = true |- _ => rewrite H end; reflexivity ].

Theorem unfair_ctl_ok : forall a f, ctl_state f = true ->
  exists f', unfair_ctl a f = Some f' /\ ctl_state f' = true.
Proof.
  intros a.
  apply (PMC.Proofs.RewriteP.form_height_ind
           (fun f => ctl_state f = true -> exists r, unfair_ctl a f = Some r /\ ctl_state r = true)).
  intros f IH Hc.
  destruct f as [b|x|g|fs|fs|g h|g|g|g|g h|g h|q|q]; cbn [ctl_state] in Hc; try discriminate Hc.
  - uc_done.
  - uc_done.
  - destruct (IH g ltac:(cbn [height]; lia) Hc) as [s0 [E0 H0]]. uc_done.
  - rewrite forallb_forall in Hc.
    destruct (all_unfair_ok a fs) as [rs [Ers Hrs]].
    { intros g Hg. apply IH; [apply PMC.Proofs.RewriteP.height_In_lt_Or; exact Hg | apply Hc; exact Hg]. }
    exists (FOr rs). split; [rewrite unfair_ctl_FOr, Ers; reflexivity | exact Hrs].
  - rewrite forallb_forall in Hc.
    destruct (all_unfair_ok a fs) as [rs [Ers Hrs]].
    { intros g Hg. apply IH; [apply PMC.Proofs.RewriteP.height_In_lt_And; exact Hg | apply Hc; exact Hg]. }
    exists (FAnd rs). split; [rewrite unfair_ctl_FAnd, Ers; reflexivity | exact Hrs].
  - apply andb_true_iff in Hc. destruct Hc as [Hg Hh].
    destruct (IH g ltac:(cbn [height]; lia) Hg) as [s0 [E0 H0]].
    destruct (IH h ltac:(cbn [height]; lia) Hh) as [s1 [E1 H1]]. uc_done.
  - (* FA q *)
    destruct q as [b|x|g|fs|fs|g h|g|g|g|g h|g h|q|q]; try discriminate Hc.
    + destruct (IH g ltac:(cbn [height]; lia) Hc) as [s0 [E0 H0]]. uc_done.
    + destruct (IH g ltac:(cbn [height]; lia) Hc) as [s0 [E0 H0]]. uc_done.
    + destruct (IH g ltac:(cbn [height]; lia) Hc) as [s0 [E0 H0]]. uc_done.
    + apply andb_true_iff in Hc. destruct Hc as [Hg Hh].
      destruct (IH g ltac:(cbn [height]; lia) Hg) as [s0 [E0 H0]].
      destruct (IH h ltac:(cbn [height]; lia) Hh) as [s1 [E1 H1]]. uc_done.
    + apply andb_true_iff in Hc. destruct Hc as [Hg Hh].
      destruct (IH g ltac:(cbn [height]; lia) Hg) as [s0 [E0 H0]].
      destruct (IH h ltac:(cbn [height]; lia) Hh) as [s1 [E1 H1]]. uc_done.
  - (* FE q *)
    destruct q as [b|x|g|fs|fs|g h|g|g|g|g h|g h|q|q]; try discriminate Hc.
    + destruct (IH g ltac:(cbn [height]; lia) Hc) as [s0 [E0 H0]]. uc_done.
    + destruct (IH g ltac:(cbn [height]; lia) Hc) as [s0 [E0 H0]]. uc_done.
    + destruct (IH g ltac:(cbn [height]; lia) Hc) as [s0 [E0 H0]]. uc_done.
    + apply andb_true_iff in Hc. destruct Hc as [Hg Hh].
      destruct (IH g ltac:(cbn [height]; lia) Hg) as [s0 [E0 H0]].
      destruct (IH h ltac:(cbn [height]; lia) Hh) as [s1 [E1 H1]]. uc_done.
    + apply andb_true_iff in Hc. destruct Hc as [Hg Hh].
      destruct (IH g ltac:(cbn [height]; lia) Hg) as [s0 [E0 H0]].
      destruct (IH h ltac:(cbn [height]; lia) Hh) as [s1 [E1 H1]]. uc_done.
Qed.

(* the cloned and fair-labelled structure *)
Lemma fair_clone K F : PMC.Proofs.KripkeP.wf_K K ->
  exists KC, kclone K = Ok KC /\
    PMC.Proofs.KripkeP.wf_K (fst (label_fair_states KC F)) /\
    (forall x, In x (states (fst (label_fair_states KC F))) <-> In x (states K)).
Proof.
  intros HK.
  destruct (PMC.Proofs.KripkeP.kclone_spec PMC.Proofs.GraphP.mk_graph_spec
              PMC.Proofs.GraphP.edges_spec K HK) as [KC [E [HKC [Hst _]]]].
  exists KC. split; [exact E|].
  unfold label_fair_states. cbn [fst].
  destruct (PMC.Proofs.KripkeP.add_label_spec KC (get_fair_states KC F) (fair_label KC) HKC)
    as (Hwf & Hg & _).
  split; [exact Hwf|]. intros x. unfold states at 1. rewrite Hg. apply Hst.
Qed.

Theorem ctl_fair_no_error : forall K f F, PMC.Proofs.KripkeP.wf_K K -> ctl_state f = true ->
  exists S, ctl_modelcheck_fair K f F = Ok S /\ NoDup S /\ incl S (states K).
Proof.
  intros K f F HK Hc. unfold ctl_modelcheck_fair. rewrite Hc.
  destruct (fair_clone K F HK) as [KC [E [Hwf Hst]]]. rewrite E. cbn [rbind].
  destruct (label_fair_states KC F) as [K1 a] eqn:EL. cbn [fst] in Hwf, Hst.
  destruct (unfair_ctl_ok a f Hc) as [f' [Ef Hf']]. rewrite Ef.
  destruct (PMC.Proofs.Assemble.ctl_exact K1 f' (proj1 Hwf) Hf') as [S [ES [Hnd HS]]].
  unfold ctl_modelcheck in ES. rewrite Hf' in ES.
  exists S. split; [exact ES|]. split; [exact Hnd|].
  intros s Hs. apply Hst. apply HS in Hs. tauto.
Qed.

Theorem ltl_fair_no_error : forall K g F, PMC.Proofs.KripkeP.wf_K K -> ltl_path g = true ->
  exists S, ltl_modelcheck_fair K (FA g) F = Ok S /\ incl S (states K).
Proof.
  intros K g F HK Hg. unfold ltl_modelcheck_fair. rewrite Hg.
  destruct (fair_clone K F HK) as [KC [E [Hwf Hst]]]. rewrite E. cbn [rbind].
  destruct (label_fair_states KC F) as [K1 a] eqn:EL. cbn [fst] in Hwf, Hst.
  eexists. split; [reflexivity|].
  intros s Hs. apply Hst. unfold compl in Hs. apply filter_In in Hs. tauto.
Qed.

Theorem ctl_fair_guard : forall K f F, ctl_state f = false -> ctl_modelcheck_fair K f F = TypeErr.
Proof. intros K f F H. unfold ctl_modelcheck_fair. rewrite H. reflexivity. Qed.

Theorem ltl_fair_guard : forall K f F, ltl_state f = false -> ltl_modelcheck_fair K f F = TypeErr.
Proof.
  intros K f F H. unfold ltl_modelcheck_fair.
  destruct f; try reflexivity. cbn [ltl_state] in H. rewrite H. reflexivity.
Qed.


(* ------------------------------------------------------------------ *)
(* 5. the label chosen by label_fair_states is fresh                   *)
(* ------------------------------------------------------------------ *)
Lemma nat_to_string_inj n m : nat_to_string n = nat_to_string m -> n = m.
Proof.
  unfold nat_to_string. intros H.
  assert (E : Some (Nat.to_uint n) = Some (Nat.to_uint m)).
  { rewrite <- !DecimalString.NilEmpty.usu. rewrite H. reflexivity. }
  inversion E as [E']. rewrite <- (DecimalNat.Unsigned.of_to n), <- (DecimalNat.Unsigned.of_to m).
  rewrite E'. reflexivity.
Qed.

Module FairName.
  Import String.
  Definition cand (i : nat) : atom := String.append "fair"%string (nat_to_string i).
  Definition fair0 : atom := "fair"%string.
  Lemma cand_inj i j : cand i = cand j -> i = j.
  Proof.
    unfold cand. cbn [String.append]. intros H. apply nat_to_string_inj.
    injection H as H. exact H.
  Qed.
  Lemma fair_name_unfold fuel i used :
    fair_name fuel i used =
    match fuel with
    | 0 => cand i
    | S f => if mema (cand i) used then fair_name f (S i) used else cand i
    end.
  Proof. destruct fuel; reflexivity. Qed.
  Lemma fair_label_unfold K :
    fair_label K = if mema fair0 (all_labels K)
                   then fair_name (List.length (all_labels K)) 0 (all_labels K) else fair0.
  Proof. reflexivity. Qed.
End FairName.
Import FairName.

(* either the chosen candidate is unused, or all [fuel] candidates tried are used and the
   result is the next one *)
Lemma fair_name_spec used : forall fuel i,
  ~ In (fair_name fuel i used) used \/
  (fair_name fuel i used = cand (i + fuel) /\ forall k, i <= k < i + fuel -> In (cand k) used).
Proof.
  induction fuel as [|f IH]; intros i; rewrite fair_name_unfold.
  - right. split; [rewrite Nat.add_0_r; reflexivity|]. intros k Hk. lia.
  - destruct (mema (cand i) used) eqn:E.
    + destruct (IH (S i)) as [H|[H1 H2]]; [left; exact H|].
      right. split; [rewrite H1; f_equal; lia|].
      intros k Hk. destruct (Nat.eq_dec k i) as [->|Hne].
      * apply mema_In. exact E.
      * apply H2. lia.
    + left. apply mema_false. exact E.
Qed.

Lemma fair_name_fresh used : ~ In (fair_name (List.length used) 0 used) used.
Proof.
  destruct (fair_name_spec used (List.length used) 0) as [H|[H1 H2]]; [exact H|].
  intros Hin. rewrite H1 in Hin. simpl in Hin.
  set (n := List.length used) in *.
  assert (Hincl : incl (map cand (seq 0 (S n))) used).
  { intros x Hx. apply in_map_iff in Hx. destruct Hx as [k [<- Hk]]. apply in_seq in Hk.
    destruct (Nat.eq_dec k n) as [->|Hne]; [exact Hin|]. apply H2. lia. }
  assert (Hnd : NoDup (map cand (seq 0 (S n)))).
  { apply FinFun.Injective_map_NoDup; [intros x y Hxy; apply cand_inj; exact Hxy | apply seq_NoDup]. }
  pose proof (NoDup_incl_length Hnd Hincl) as Hlen.
  rewrite map_length, seq_length in Hlen. unfold n in Hlen. lia.
Qed.

Theorem fair_label_fresh : forall K, ~ In (fair_label K) (all_labels K).
Proof.
  intros K. rewrite fair_label_unfold.
  destruct (mema fair0 (all_labels K)) eqn:E.
  - apply fair_name_fresh.
  - apply mema_false. exact E.
Qed.

(* consequently the fair label marks exactly the computed fair states of the clone *)
Corollary fair_label_marks : forall K F, PMC.Proofs.KripkeP.wf_K K ->
  forall s, labelled (fst (label_fair_states K F)) s (snd (label_fair_states K F)) <->
            In s (get_fair_states K F) /\ In s (states K).
Proof.
  intros K F HK s. unfold label_fair_states. cbn [fst snd].
  destruct (PMC.Proofs.KripkeP.add_label_spec K (get_fair_states K F) (fair_label K) HK)
    as (_ & _ & _ & Hl).
  rewrite Hl. split.
  - intros [H|[_ H]]; [|exact H]. exfalso.
    apply (fair_label_fresh K). apply PMC.Proofs.KripkeP.all_labels_labelled; auto.
    + destruct HK as [[[Hnd _] _] _]. exact Hnd.
    + exists s. split; [|exact H].
      destruct (in_dec Nat.eq_dec s (states K)) as [Hs|Hs]; [exact Hs|].
      exfalso. unfold labelled in H.
      rewrite (PMC.Proofs.KripkeP.wf_K_labels_notin K s HK Hs) in H. exact H.
  - intros H. right. split; [reflexivity | exact H].
Qed.

Print Assumptions fair_states_ref_exact.
Print Assumptions get_fair_states_sound.
Print Assumptions get_fair_states_incomplete_refuted.
Print Assumptions trivial_F_refuted.
Print Assumptions reduction_refuted.
Print Assumptions reduction_refuted_fholds.
Print Assumptions unfair_ctl_ok.
Print Assumptions ctl_fair_no_error.
Print Assumptions ltl_fair_no_error.
Print Assumptions ctl_fair_guard.
Print Assumptions ltl_fair_guard.
Print Assumptions fair_label_fresh.
Print Assumptions fair_label_marks.
Print Assumptions ltl_reduction_refuted.
Print Assumptions ctls_reduction_refuted.
