(* HeapSessionP.v — sessions of library calls interleaved with writes of the caller
   (Model/HeapSession.v): every call answers for the labelling the caller has made so far,
   and the heap the caller sees at the end is the one it wrote itself. *)
From Coq Require Import List Arith Lia String.
Import ListNotations.
From PMC Require Import Spec.Lemmas Model.Heap Model.HeapSession Proofs.HeapP.

Lemma frame_hset hs ha l c : frame hs ha -> frame (hset hs l c) (hset ha l c).
Proof.
  intros [A B]. split; intros l' Hl'.
  - apply allocated_hset in Hl'.
    destruct (Nat.eq_dec l' l) as [->|Hne].
    + rewrite !hget_hset_same. reflexivity.
    + rewrite !hget_hset_other by exact Hne. apply A. destruct Hl' as [E|Hl']; [congruence|exact Hl'].
  - apply allocated_hset in Hl'. apply allocated_hset.
    destruct Hl' as [E|Hl']; [left; exact E|right; apply B; exact Hl'].
Qed.

Definition calls_allocated (h : heap) (ss : list step) : Prop :=
  forall c, In (SCall c) ss -> forall l, In l (locs (call_obj c)) -> allocated h l.

Lemma calls_allocated_tail h s ss : calls_allocated h (s :: ss) -> calls_allocated h ss.
Proof. intros H c Hc. apply H. right. exact Hc. Qed.

Lemma calls_allocated_hset h l c ss : calls_allocated h ss -> calls_allocated (hset h l c) ss.
Proof. intros H c0 Hc l0 Hl0. apply allocated_hset. right. apply (H c0 Hc). exact Hl0. Qed.

(* the invariant: the heap as the caller made it ([hs]) is framed by the real heap ([ha]) *)
Theorem session_gen ss : forall hs ha h' rs,
  frame hs ha -> calls_allocated hs ss ->
  run_session ha ss = (h', rs) ->
  rs = spec_session hs ss /\ frame (caller_heap hs ss) h'.
Proof.
  induction ss as [|[c|l c] r IH]; simpl; intros hs ha h' rs Hf Hal H.
  - inversion H; subst. split; [reflexivity|exact Hf].
  - destruct (run_call ha c) as [h1 x] eqn:E1.
    destruct (run_session h1 r) as [h2 xs] eqn:E2.
    inversion H; subst. clear H.
    apply run_call_correct in E1. destruct E1 as [F1 ->].
    destruct (IH hs h1 h' xs) as [-> F2].
    + eapply frame_trans; eauto.
    + eapply calls_allocated_tail; eauto.
    + exact E2.
    + split; [|exact F2]. f_equal. apply pure_call_abs.
      apply frame_abs; [exact Hf|]. intros l Hl. apply (Hal c); [left; reflexivity|exact Hl].
  - apply (IH (hset hs l c) (hset ha l c) h' rs).
    + apply frame_hset. exact Hf.
    + apply calls_allocated_hset. eapply calls_allocated_tail; eauto.
    + exact H.
Qed.

(* as used: start from one heap *)
Theorem session h0 ss h' rs :
  (forall c, In (SCall c) ss -> valid h0 (call_obj c)) ->
  run_session h0 ss = (h', rs) ->
  rs = spec_session h0 ss /\
  (forall l, allocated (caller_heap h0 ss) l -> hget h' l = hget (caller_heap h0 ss) l) /\
  (forall k, valid h0 k -> valid h' k /\ abs h' k = abs (caller_heap h0 ss) k).
Proof.
  intros Hv H.
  destruct (session_gen ss h0 h0 h' rs) as [Hr Hf]; auto.
  { apply frame_refl. }
  { intros c Hc l Hl. apply (Hv c Hc). exact Hl. }
  split; [exact Hr|]. split; [apply Hf|].
  intros k Hk.
  assert (Hmono : forall ss0 h l, allocated h l -> allocated (caller_heap h ss0) l).
  { induction ss0 as [|[c0|l0 c0] r0 IH0]; simpl; intros h l Hl; auto.
    apply IH0. apply allocated_hset. right. exact Hl. }
  assert (Hk' : valid (caller_heap h0 ss) k).
  { apply (valid_mono h0 _ k Hk). intros l. apply Hmono. }
  apply frame_valid; auto.
Qed.

(* without caller writes a session is a history: C07_history is the special case *)
Lemma spec_session_calls h cs : spec_session h (map SCall cs) = map (pure_call h) cs.
Proof. induction cs as [|c r IH]; simpl; [reflexivity|rewrite IH; reflexivity]. Qed.

Lemma run_session_calls cs : forall h, run_session h (map SCall cs) = run_calls h cs.
Proof.
  induction cs as [|c r IH]; simpl; intros h; [reflexivity|].
  destruct (run_call h c) as [h1 x]. rewrite IH. reflexivity.
Qed.

(* non-vacuity: a write of the caller between two identical calls changes the answer, and the
   model follows it (a result remembered from the first call would be wrong) *)
Module SessionExamples.
Import Examples.
Open Scope string_scope.
Definition q : call := CallCTL k0 (FAtom "p").
Definition ss : list step := [SCall q; SWrite 0 ["p"]; SCall q; SWrite 1 []; SCall q].
Lemma relabelled_answers :
  snd (run_session h0 ss) = [Ok [1]; Ok [0; 1]; Ok [0]] /\
  spec_session h0 ss = [Ok [1]; Ok [0; 1]; Ok [0]].
Proof. split; vm_compute; reflexivity. Qed.
Lemma premises_hold : forall c, In (SCall c) ss -> valid h0 (call_obj c).
Proof.
  intros c [E|[E|[E|[E|[E|[]]]]]]; inversion E; subst; vm_compute;
    (split; [|split; [|reflexivity]]).
  all: try (intros l [<-|[<-|[]]]; simpl; tauto).
  all: repeat constructor; simpl; intuition congruence.
Qed.
(* K.labels(0).add("p") is the second step of that session *)
Lemma add_is_write : add_step h0 k0 0 "p" = [SWrite 0 ["p"]].
Proof. vm_compute. reflexivity. Qed.
End SessionExamples.
