(* AssembleCTLS.v — instantiates the hypotheses of the CTL* proof. *)
From PMC Require Import Spec.Lemmas.
From PMC Require Proofs.Assemble Proofs.PrintP Proofs.CTLSP.

Definition ctls_exact :=
  PMC.Proofs.CTLSP.C03_exact PMC.Proofs.Assemble.ctl_exact PMC.Proofs.Assemble.ltl_exact
                             PMC.Proofs.PrintP.print_std_inj.
