(* GraphHeapP.v — independence of the graphs returned by clone / get_reversed_graph /
   get_subgraph, proved on the heap model of DiGraph (Model/GraphHeap.v):
     FRESHNESS     the constructor puts every successor set in a cell that did not exist;
     FRAME         no cell that existed before a call is changed by it;
     REFINEMENT    the result's abstract value is the pure function of Model/Graph.v on the
                   abstract value of G;
     INDEPENDENCE  in-place writes to a result never change G, writes to G never change a
                   result, and in a whole session of calls and caller edits of results
                   every call answers for the INITIAL value of G;
     NON-VACUITY   with a shallow clone, or with a memoised reversal, this fails.
   Axiom-free. *)
From Coq Require Import List Arith Lia.
Import ListNotations.
From PMC Require Import Model.GraphHeap.
From PMC Require Import Spec.GraphSpec Spec.Lemmas.
From PMC Require Import Proofs.BaseP Proofs.GraphP.

(* ------------------------------------------------------------------ *)
(* 0. heaps                                                            *)
(* ------------------------------------------------------------------ *)
Definition gallocated (h : gheap) (l : loc) : Prop := In l (map fst h).

Lemma gallocatedb_iff h l : gallocatedb h l = true <-> gallocated h l.
Proof. unfold gallocatedb, gallocated. apply memb_In. Qed.

Lemma gget_unallocated h l : ~ gallocated h l -> gget h l = [].
Proof.
  unfold gallocated. induction h as [|[x c] r IH]; simpl; intros H; auto.
  destruct (Nat.eqb x l) eqn:E.
  - apply Nat.eqb_eq in E. tauto.
  - apply IH. tauto.
Qed.

Lemma gget_gset_same h l c : gget (gset h l c) l = c.
Proof. unfold gset. simpl. rewrite Nat.eqb_refl. reflexivity. Qed.

Lemma gget_gset_other h l c l' : l' <> l -> gget (gset h l c) l' = gget h l'.
Proof.
  intros H. unfold gset. simpl. destruct (Nat.eqb l l') eqn:E; auto.
  apply Nat.eqb_eq in E. congruence.
Qed.

Lemma gallocated_gset h l c l' : gallocated (gset h l c) l' <-> l = l' \/ gallocated h l'.
Proof. unfold gallocated, gset. simpl. tauto. Qed.

Lemma gallocated_lt_gfresh h l : gallocated h l -> l < gfresh h.
Proof.
  unfold gallocated, gfresh. induction (map fst h) as [|x r IH]; simpl; intros H; [tauto|].
  destruct H as [H|H]; [subst; lia|]. apply IH in H. lia.
Qed.

Lemma gfresh_not_allocated h : ~ gallocated h (gfresh h).
Proof. intros H. apply gallocated_lt_gfresh in H. lia. Qed.
Local Opaque gfresh.

(* every cell that existed in h still exists in h' with the same contents *)
Definition gframe (h h' : gheap) : Prop :=
  (forall l, gallocated h l -> gget h' l = gget h l) /\
  (forall l, gallocated h l -> gallocated h' l).

Lemma gframe_refl h : gframe h h.
Proof. split; auto. Qed.

Lemma gframe_trans h1 h2 h3 : gframe h1 h2 -> gframe h2 h3 -> gframe h1 h3.
Proof.
  intros [A1 B1] [A2 B2]. split; intros l Hl; auto.
  rewrite A2 by auto. auto.
Qed.

(* ------------------------------------------------------------------ *)
(* 1. objects: validity, abstraction                                   *)
(* ------------------------------------------------------------------ *)
(* the cells of the object exist, no two nodes share a cell, dict keys are unique *)
Definition gvalid (h : gheap) (g : gobj) : Prop :=
  (forall l, In l (glocs g) -> gallocated h l) /\
  NoDup (glocs g) /\
  NoDup (map fst g).

(* the abstract value only depends on the contents of the object's cells *)
Lemma gabs_cells_eq h h' o :
  (forall l, In l (glocs o) -> gget h' l = gget h l) -> gabs h' o = gabs h o.
Proof.
  unfold gabs, glocs. induction o as [|[v l] r IH]; simpl; intros H; auto.
  rewrite H by auto. f_equal. apply IH. intros l' Hl'. apply H. auto.
Qed.

Lemma gabs_frame h h' o : gframe h h' ->
  (forall l, In l (glocs o) -> gallocated h l) -> gabs h' o = gabs h o.
Proof. intros [A _] H. apply gabs_cells_eq. intros l Hl. apply A. auto. Qed.

Lemma gabs_nodes h o : nodes (gabs h o) = map fst o.
Proof.
  unfold nodes, gabs. rewrite map_map. apply map_ext. intros [v l]. reflexivity.
Qed.

Lemma gvalid_mono h h' g :
  gvalid h g -> (forall l, gallocated h l -> gallocated h' l) -> gvalid h' g.
Proof. intros (A & B & C) H. split; [|split]; auto. Qed.

Lemma gframe_valid h h' g : gframe h h' -> gvalid h g -> gvalid h' g /\ gabs h' g = gabs h g.
Proof.
  intros Hf Hv. split.
  - apply (gvalid_mono h h' g Hv). apply Hf.
  - apply gabs_frame; auto. apply Hv.
Qed.

(* ------------------------------------------------------------------ *)
(* 2. in-place writes                                                  *)
(* ------------------------------------------------------------------ *)
Lemma gwrites_cons h w ws : gwrites h (w :: ws) = gwrites (gset h (fst w) (snd w)) ws.
Proof. reflexivity. Qed.

Lemma gget_gwrites_other ws : forall h l,
  (forall w, In w ws -> fst w <> l) -> gget (gwrites h ws) l = gget h l.
Proof.
  induction ws as [|w r IH]; intros h l H; [reflexivity|].
  rewrite gwrites_cons, IH.
  - apply gget_gset_other. intros E. apply (H w); simpl; auto.
  - intros w' Hw'. apply H. simpl. auto.
Qed.

Lemma gallocated_gwrites ws : forall h l, gallocated h l -> gallocated (gwrites h ws) l.
Proof.
  induction ws as [|w r IH]; intros h l H; [exact H|].
  rewrite gwrites_cons. apply IH. apply gallocated_gset. auto.
Qed.

(* writes that avoid the cells of an object do not change its abstract value *)
Lemma gabs_gwrites_disjoint h ws o :
  (forall w, In w ws -> ~ In (fst w) (glocs o)) -> gabs (gwrites h ws) o = gabs h o.
Proof.
  intros H. apply gabs_cells_eq. intros l Hl. apply gget_gwrites_other.
  intros w Hw E. apply (H w Hw). rewrite E. exact Hl.
Qed.

Lemma cell_of_In o s l : cell_of o s = Some l -> In l (glocs o).
Proof.
  unfold glocs. induction o as [|[x l0] r IH]; simpl; [discriminate|].
  destruct (Nat.eqb x s).
  - intros H. inversion H; subst. auto.
  - intros H. auto.
Qed.

Lemma cell_of_None o s : cell_of o s = None <-> ~ In s (map fst o).
Proof.
  induction o as [|[x l0] r IH]; simpl; [tauto|].
  destruct (Nat.eqb x s) eqn:E.
  - apply Nat.eqb_eq in E. split; [discriminate|tauto].
  - apply Nat.eqb_neq in E. rewrite IH. tauto.
Qed.

(* add_edge on an object is a (possibly empty) sequence of writes to ITS cells *)
Lemma add_edge_gh_writes h o s d :
  exists ws, add_edge_gh h o s d = gwrites h ws /\ forall w, In w ws -> In (fst w) (glocs o).
Proof.
  unfold add_edge_gh. destruct (cell_of o s) as [l|] eqn:E.
  - exists [(l, if memb d (gget h l) then gget h l else gget h l ++ [d])]. split; [reflexivity|].
    intros w [<-|[]]. simpl. eapply cell_of_In; eauto.
  - exists []. split; [reflexivity|]. intros w [].
Qed.

Lemma write_result_gh_writes h res i s d :
  exists ws, write_result_gh h res i s d = gwrites h ws /\
    forall w, In w ws -> exists o, In (Some o) res /\ In (fst w) (glocs o).
Proof.
  unfold write_result_gh. destruct (nth_error res i) as [[o|]|] eqn:E.
  - destruct (add_edge_gh_writes h o s d) as (ws & Hw & Hl).
    exists ws. split; [exact Hw|]. intros w Hin. exists o. split; [|auto].
    eapply nth_error_In; eauto.
  - exists []. split; [reflexivity|]. intros w [].
  - exists []. split; [reflexivity|]. intros w [].
Qed.

(* and it is the in-place version of the pure [add_succ] for a node of the object *)
Lemma add_edge_gh_refines o : forall h s d,
  NoDup (glocs o) -> In s (map fst o) ->
  gabs (add_edge_gh h o s d) o = add_succ (gabs h o) s d.
Proof.
  unfold add_edge_gh.
  induction o as [|[v l] r IH]; simpl; intros h s d Hnd Hin; [tauto|].
  inversion Hnd as [|x y Hnotin Hnd']; subst.
  destruct (Nat.eqb v s) eqn:E.
  - rewrite gget_gset_same. f_equal.
    apply (gabs_cells_eq h). intros l' Hl'. apply gget_gset_other. intros E'. subst. tauto.
  - apply Nat.eqb_neq in E. destruct Hin as [Hin|Hin]; [congruence|].
    specialize (IH h s d Hnd' Hin).
    destruct (cell_of r s) as [l'|] eqn:Ec.
    + assert (Hl' : In l' (glocs r)) by (eapply cell_of_In; eauto).
      rewrite gget_gset_other by (intros E'; subst; tauto).
      f_equal. exact IH.
    + apply cell_of_None in Ec. tauto.
Qed.

(* ------------------------------------------------------------------ *)
(* 3. the constructor: fresh, pairwise distinct cells                  *)
(* ------------------------------------------------------------------ *)
Lemma galloc_graph_full gr : forall h h' o, galloc_graph h gr = (h', o) ->
  map fst o = nodes gr /\
  (forall l, gallocated h l -> gget h' l = gget h l) /\
  (forall l, gallocated h' l <-> gallocated h l \/ In l (glocs o)) /\
  (forall l, In l (glocs o) -> ~ gallocated h l) /\
  NoDup (glocs o) /\
  gabs h' o = gr.
Proof.
  unfold glocs, gabs, nodes.
  induction gr as [|[v ds] r IH]; simpl; intros h h' o H.
  - inversion H; subst. simpl. repeat split; auto; try tauto. constructor.
  - destruct (galloc_graph ((gfresh h, ds) :: h) r) as [h2 o2] eqn:E.
    inversion H; subst. clear H.
    destruct (IH _ _ _ E) as (A & B & C & D & N & V). clear IH.
    pose proof (gfresh_not_allocated h) as Hf.
    assert (Hnew : gallocated ((gfresh h, ds) :: h) (gfresh h)) by (unfold gallocated; simpl; auto).
    assert (Hold : forall l, gallocated h l -> gallocated ((gfresh h, ds) :: h) l)
      by (unfold gallocated; simpl; auto).
    simpl. split; [f_equal; exact A|]. split; [|split; [|split; [|split]]].
    + intros l Hl. rewrite B by auto. simpl.
      destruct (Nat.eqb (gfresh h) l) eqn:E1; auto.
      apply Nat.eqb_eq in E1. subst. tauto.
    + intros l. rewrite C. unfold gallocated at 1. simpl. fold (gallocated h l). tauto.
    + intros l [Hl|Hl]; [subst; exact Hf|].
      intros Hc. apply (D l Hl). auto.
    + constructor; auto. intros Hc. apply (D _ Hc). exact Hnew.
    + f_equal; [|exact V]. f_equal. rewrite B by exact Hnew. simpl.
      rewrite Nat.eqb_refl. reflexivity.
Qed.

(* 1. the constructor: result cells are fresh, pairwise distinct, hold the value, and
   nothing that existed is touched *)
Theorem galloc_graph_spec gr h h' o : galloc_graph h gr = (h', o) ->
  (forall l, In l (glocs o) -> ~ gallocated h l) /\
  NoDup (glocs o) /\
  gabs h' o = gr /\
  gframe h h'.
Proof.
  intros H. destruct (galloc_graph_full _ _ _ _ H) as (A & B & C & D & N & V).
  split; [exact D|]. split; [exact N|]. split; [exact V|].
  split; [exact B|]. intros l Hl. apply C. auto.
Qed.

(* the result is a valid object whenever the value has unique keys *)
Lemma galloc_graph_valid gr h h' o : galloc_graph h gr = (h', o) ->
  NoDup (nodes gr) -> gvalid h' o.
Proof.
  intros H Hn. destruct (galloc_graph_full _ _ _ _ H) as (A & B & C & D & N & V).
  split; [|split].
  - intros l Hl. apply C. auto.
  - exact N.
  - rewrite A. exact Hn.
Qed.

(* ------------------------------------------------------------------ *)
(* 2. clone / reversed / subgraph                                      *)
(* ------------------------------------------------------------------ *)
(* any operation of the shape "pure function of the value, then the constructor" *)
Lemma gop_spec (f : graph -> graph) h g h' o :
  (forall l, In l (glocs g) -> gallocated h l) ->
  galloc_graph h (f (gabs h g)) = (h', o) ->
  gframe h h' /\
  gabs h' o = f (gabs h g) /\
  (forall l, In l (glocs o) -> ~ gallocated h l) /\
  (forall l, In l (glocs o) -> ~ In l (glocs g)) /\
  gabs h' g = gabs h g.
Proof.
  intros Hal H. destruct (galloc_graph_spec _ _ _ _ H) as (D & N & V & F).
  split; [exact F|]. split; [exact V|]. split; [exact D|]. split.
  - intros l Hl Hg. apply (D l Hl). auto.
  - apply gabs_frame; auto.
Qed.

Theorem clone_gh_spec h g h' o : gvalid h g -> clone_gh h g = (h', o) ->
  gframe h h' /\
  gabs h' o = clone (gabs h g) /\
  (forall l, In l (glocs o) -> ~ gallocated h l) /\
  (forall l, In l (glocs o) -> ~ In l (glocs g)) /\
  gabs h' g = gabs h g.
Proof. intros (A & _) H. apply (gop_spec clone); auto. Qed.

Theorem reversed_gh_spec h g h' o : gvalid h g -> reversed_gh h g = (h', o) ->
  gframe h h' /\
  gabs h' o = reversed (gabs h g) /\
  (forall l, In l (glocs o) -> ~ gallocated h l) /\
  (forall l, In l (glocs o) -> ~ In l (glocs g)) /\
  gabs h' g = gabs h g.
Proof. intros (A & _) H. apply (gop_spec reversed); auto. Qed.

Theorem subgraph_gh_spec h g X h' o : gvalid h g -> subgraph_gh h g X = (h', o) ->
  gframe h h' /\
  gabs h' o = subgraph (gabs h g) X /\
  (forall l, In l (glocs o) -> ~ gallocated h l) /\
  (forall l, In l (glocs o) -> ~ In l (glocs g)) /\
  gabs h' g = gabs h g.
Proof. intros (A & _) H. apply (gop_spec (fun gr => subgraph gr X)); auto. Qed.

(* the results are valid objects again (so the operations can be applied to them),
   and G stays valid *)
Lemma mk_graph_NoDup_nodes V E : NoDup (nodes (mk_graph V E)).
Proof. destruct (mk_graph_spec V E) as [[H _] _]. exact H. Qed.

Theorem clone_gh_valid h g h' o : gvalid h g -> clone_gh h g = (h', o) ->
  gvalid h' o /\ gvalid h' g.
Proof.
  intros Hv H. split.
  - apply (galloc_graph_valid _ _ _ _ H). rewrite clone_id, gabs_nodes. apply Hv.
  - destruct (clone_gh_spec _ _ _ _ Hv H) as (F & _). apply (gframe_valid _ _ _ F Hv).
Qed.

Theorem reversed_gh_valid h g h' o : gvalid h g -> reversed_gh h g = (h', o) ->
  gvalid h' o /\ gvalid h' g.
Proof.
  intros Hv H. split.
  - apply (galloc_graph_valid _ _ _ _ H). apply mk_graph_NoDup_nodes.
  - destruct (reversed_gh_spec _ _ _ _ Hv H) as (F & _). apply (gframe_valid _ _ _ F Hv).
Qed.

Theorem subgraph_gh_valid h g X h' o : gvalid h g -> subgraph_gh h g X = (h', o) ->
  gvalid h' o /\ gvalid h' g.
Proof.
  intros Hv H. split.
  - apply (galloc_graph_valid _ _ _ _ H). apply mk_graph_NoDup_nodes.
  - destruct (subgraph_gh_spec _ _ _ _ _ Hv H) as (F & _). apply (gframe_valid _ _ _ F Hv).
Qed.

(* ------------------------------------------------------------------ *)
(* 3. independence of a result and G                                   *)
(* ------------------------------------------------------------------ *)
(* (h', o) is what one of the three operations returned when called on g in h *)
Inductive gop_result (h : gheap) (g : gobj) (h' : gheap) (o : gobj) : Prop :=
| GR_clone : clone_gh h g = (h', o) -> gop_result h g h' o
| GR_reversed : reversed_gh h g = (h', o) -> gop_result h g h' o
| GR_subgraph X : subgraph_gh h g X = (h', o) -> gop_result h g h' o.

Lemma gop_result_spec h g h' o : gvalid h g -> gop_result h g h' o ->
  gframe h h' /\
  (forall l, In l (glocs o) -> ~ In l (glocs g)) /\
  gabs h' g = gabs h g.
Proof.
  intros Hv [H|H|X H].
  - destruct (clone_gh_spec _ _ _ _ Hv H) as (F & _ & _ & D & E). auto.
  - destruct (reversed_gh_spec _ _ _ _ Hv H) as (F & _ & _ & D & E). auto.
  - destruct (subgraph_gh_spec _ _ _ _ _ Hv H) as (F & _ & _ & D & E). auto.
Qed.

(* whatever the caller writes, in place, into the successor sets of the RESULT, G keeps its
   value; whatever is written into the successor sets of G, the result keeps its value *)
Theorem result_independent h g h' o : gvalid h g -> gop_result h g h' o ->
  (forall ws, (forall w, In w ws -> In (fst w) (glocs o)) ->
     gabs (gwrites h' ws) g = gabs h g) /\
  (forall ws, (forall w, In w ws -> In (fst w) (glocs g)) ->
     gabs (gwrites h' ws) o = gabs h' o).
Proof.
  intros Hv Hr. destruct (gop_result_spec _ _ _ _ Hv Hr) as (F & D & E). split.
  - intros ws Hws. rewrite <- E. apply gabs_gwrites_disjoint.
    intros w Hw Hg. apply (D _ (Hws w Hw)). exact Hg.
  - intros ws Hws. apply gabs_gwrites_disjoint.
    intros w Hw Ho. apply (D _ Ho). apply Hws. exact Hw.
Qed.

(* the caller's add_edge on the result / on G are such writes *)
Corollary result_independent_add_edge h g h' o s d : gvalid h g -> gop_result h g h' o ->
  gabs (add_edge_gh h' o s d) g = gabs h g /\
  gabs (add_edge_gh h' g s d) o = gabs h' o.
Proof.
  intros Hv Hr. destruct (result_independent _ _ _ _ Hv Hr) as [A B]. split.
  - destruct (add_edge_gh_writes h' o s d) as (ws & -> & Hws). apply A. exact Hws.
  - destruct (add_edge_gh_writes h' g s d) as (ws & -> & Hws). apply B. exact Hws.
Qed.

(* ------------------------------------------------------------------ *)
(* 4. sessions                                                         *)
(* ------------------------------------------------------------------ *)
(* the invariant: the cells of G exist and no result handed out so far shares a cell with G *)
Definition res_disjoint (g : gobj) (res : list (option gobj)) : Prop :=
  forall o, In (Some o) res -> forall l, In l (glocs o) -> ~ In l (glocs g).

Lemma res_disjoint_snoc g res o :
  res_disjoint g res -> (forall l, In l (glocs o) -> ~ In l (glocs g)) ->
  res_disjoint g (res ++ [Some o]).
Proof.
  intros H Ho o' Hin. apply in_app_or in Hin. destruct Hin as [Hin|[Hin|[]]].
  - apply H. exact Hin.
  - inversion Hin; subst. exact Ho.
Qed.

Lemma res_disjoint_snoc_none g res : res_disjoint g res -> res_disjoint g (res ++ [None]).
Proof.
  intros H o' Hin. apply in_app_or in Hin. destruct Hin as [Hin|[Hin|[]]].
  - apply H. exact Hin.
  - discriminate Hin.
Qed.

Lemma session_op_step (f : graph -> graph) h g res h1 o :
  (forall l, In l (glocs g) -> gallocated h l) -> res_disjoint g res ->
  galloc_graph h (f (gabs h g)) = (h1, o) ->
  (forall l, In l (glocs g) -> gallocated h1 l) /\ res_disjoint g (res ++ [Some o]) /\
  gabs h1 g = gabs h g /\ gabs h1 o = f (gabs h g).
Proof.
  intros Hal Hd H. destruct (gop_spec f _ _ _ _ Hal H) as (F & V & _ & D & E).
  split; [|split; [|split]]; auto.
  - intros l Hl. apply F. auto.
  - apply res_disjoint_snoc; auto.
Qed.

Theorem gsession_gen ss : forall h g res h' obs,
  (forall l, In l (glocs g) -> gallocated h l) -> res_disjoint g res ->
  run_gsession_from h g res ss = (h', obs) ->
  obs = spec_gsession (gabs h g) ss /\ gabs h' g = gabs h g /\
  (forall l, In l (glocs g) -> gallocated h' l).
Proof.
  induction ss as [|[| |X|X|i s d] r IH]; simpl; intros h g res h' obs Hal Hd H.
  - inversion H; subst. auto.
  - unfold clone_gh in H.
    destruct (galloc_graph h (clone (gabs h g))) as [h1 o] eqn:E1.
    destruct (run_gsession_from h1 g (res ++ [Some o]) r) as [h2 xs] eqn:E2.
    inversion H; subst. clear H.
    destruct (session_op_step clone _ _ _ _ _ Hal Hd E1) as (Hal1 & Hd1 & Eg & Eo).
    destruct (IH _ _ _ _ _ Hal1 Hd1 E2) as (-> & Eg2 & Hal2).
    rewrite Eg in *. rewrite Eo. auto.
  - unfold reversed_gh in H.
    destruct (galloc_graph h (reversed (gabs h g))) as [h1 o] eqn:E1.
    destruct (run_gsession_from h1 g (res ++ [Some o]) r) as [h2 xs] eqn:E2.
    inversion H; subst. clear H.
    destruct (session_op_step reversed _ _ _ _ _ Hal Hd E1) as (Hal1 & Hd1 & Eg & Eo).
    destruct (IH _ _ _ _ _ Hal1 Hd1 E2) as (-> & Eg2 & Hal2).
    rewrite Eg in *. rewrite Eo. auto.
  - unfold subgraph_gh in H.
    destruct (galloc_graph h (subgraph (gabs h g) X)) as [h1 o] eqn:E1.
    destruct (run_gsession_from h1 g (res ++ [Some o]) r) as [h2 xs] eqn:E2.
    inversion H; subst. clear H.
    destruct (session_op_step (fun gr => subgraph gr X) _ _ _ _ _ Hal Hd E1)
      as (Hal1 & Hd1 & Eg & Eo).
    destruct (IH _ _ _ _ _ Hal1 Hd1 E2) as (-> & Eg2 & Hal2).
    rewrite Eg in *. rewrite Eo. auto.
  - destruct (run_gsession_from h g (res ++ [None]) r) as [h2 xs] eqn:E2.
    inversion H; subst. clear H.
    destruct (IH _ _ _ _ _ Hal (res_disjoint_snoc_none _ _ Hd) E2) as (-> & Eg2 & Hal2).
    unfold reach_gh. auto.
  - destruct (write_result_gh_writes h res i s d) as (ws & Ew & Hws).
    rewrite Ew in H.
    assert (Eg : gabs (gwrites h ws) g = gabs h g).
    { apply gabs_gwrites_disjoint. intros w Hw Hg.
      destruct (Hws w Hw) as (o & Ho & Hl). apply (Hd o Ho _ Hl). exact Hg. }
    assert (Hal1 : forall l, In l (glocs g) -> gallocated (gwrites h ws) l).
    { intros l Hl. apply gallocated_gwrites. auto. }
    destruct (IH _ _ _ _ _ Hal1 Hd H) as (-> & Eg2 & Hal2).
    rewrite Eg in *. auto.
Qed.

(* whatever the caller does to the graphs it got back, every call of the session returns
   what the pure function returns on the value G had at the START, and G still has it at
   the end *)
Theorem gsession_correct : forall h0 g ss, gvalid h0 g ->
  snd (run_gsession h0 g ss) = spec_gsession (gabs h0 g) ss /\
  gabs (fst (run_gsession h0 g ss)) g = gabs h0 g.
Proof.
  intros h0 g ss (Hal & _). unfold run_gsession.
  destruct (run_gsession_from h0 g [] ss) as [h' obs] eqn:E.
  destruct (gsession_gen ss h0 g [] h' obs Hal) as (A & B & _); auto.
  intros o [].
Qed.

(* and G is still a valid object afterwards *)
Theorem gsession_valid h0 g ss : gvalid h0 g -> gvalid (fst (run_gsession h0 g ss)) g.
Proof.
  intros (Hal & Hn & Hk). unfold run_gsession.
  destruct (run_gsession_from h0 g [] ss) as [h' obs] eqn:E.
  destruct (gsession_gen ss h0 g [] h' obs Hal) as (_ & _ & C); auto.
  - intros o [].
  - simpl. split; [|split]; auto.
Qed.

(* ------------------------------------------------------------------ *)
(* 5. NON-VACUITY: fresh cells matter                                  *)
(* ------------------------------------------------------------------ *)
Module GExamples.

(* nodes 0, 1, 2; edges 0->1, 1->2, 2->0; the successor sets live in cells 0, 1, 2 *)
Definition h0 : gheap := [(2, [0]); (1, [2]); (0, [1])].
Definition g0 : gobj := [(0, 0); (1, 1); (2, 2)].

Example g0_valid : gvalid h0 g0.
Proof.
  split; [|split].
  - intros l [H|[H|[H|[]]]]; subst; unfold gallocated; simpl; auto.
  - repeat constructor; simpl; intuition discriminate.
  - repeat constructor; simpl; intuition discriminate.
Qed.

Example g0_abs : gabs h0 g0 = [(0, [1]); (1, [2]); (2, [0])].
Proof. reflexivity. Qed.

(* the real clone: add_edge(0, 2) on the clone goes to the new cell 3, G keeps its value *)
Example clone_independent :
  let '(h1, o) := clone_gh h0 g0 in
  let h2 := add_edge_gh h1 o 0 2 in
  gabs h1 o = gabs h0 g0 /\
  gabs h2 o = [(0, [1; 2]); (1, [2]); (2, [0])] /\
  gabs h2 g0 = gabs h0 g0.
Proof. vm_compute. repeat split; reflexivity. Qed.

(* a SHALLOW clone (new dict, same successor sets): one add_edge on the clone changes G *)
Example shallow_clone_not_independent :
  let '(h1, o) := clone_shallow_gh h0 g0 in
  let h2 := add_edge_gh h1 o 0 2 in
  gabs h1 o = clone (gabs h0 g0) /\
  gabs h2 g0 = [(0, [1; 2]); (1, [2]); (2, [0])] /\
  gabs h2 g0 <> gabs h0 g0.
Proof. vm_compute. repeat split; auto. intros H. discriminate H. Qed.

(* hence the independence theorem is false of the shallow clone *)
Example shallow_clone_refutes_independence :
  ~ (forall h g h' o s d, gvalid h g -> clone_shallow_gh h g = (h', o) ->
       gabs (add_edge_gh h' o s d) g = gabs h g).
Proof.
  intros H. specialize (H h0 g0 _ _ 0 2 g0_valid eq_refl). vm_compute in H. discriminate H.
Qed.

(* a MEMOISED reversal: reverse, add_edge(0, 1) on the result, reverse again — the second
   call hands out the edited object, not the reversed graph of G (G itself is untouched) *)
Example cached_reverse_not_independent :
  let '((h1, c1), o1) := rev_cached_gh (h0, None) g0 in
  let h2 := add_edge_gh h1 o1 0 1 in
  let '((h3, c3), o2) := rev_cached_gh (h2, c1) g0 in
  gabs h1 o1 = reversed (gabs h0 g0) /\
  gabs h3 g0 = gabs h0 g0 /\
  o2 = o1 /\
  gabs h3 o2 = [(0, [2; 1]); (1, [0]); (2, [1])] /\
  gabs h3 o2 <> reversed (gabs h0 g0).
Proof. vm_compute. repeat split; auto. intros H. discriminate H. Qed.

(* the real get_reversed_graph in the same scenario *)
Example reverse_independent :
  let '(h1, o1) := reversed_gh h0 g0 in
  let h2 := add_edge_gh h1 o1 0 1 in
  let '(h3, o2) := reversed_gh h2 g0 in
  gabs h2 o1 = [(0, [2; 1]); (1, [0]); (2, [1])] /\
  gabs h3 o2 = reversed (gabs h0 g0) /\
  gabs h3 g0 = gabs h0 g0.
Proof. vm_compute. repeat split; reflexivity. Qed.

(* a session: the hypotheses of [gsession_correct] are satisfiable, the writes are real
   (the first result, in cells 3..5, has been edited twice), and run = spec *)
Definition ss0 : list gstep :=
  [GRev; GWriteResult 0 0 1; GClone; GWriteResult 1 1 0; GSub [0; 1]; GReach [1];
   GWriteResult 0 1 1; GWriteResult 3 0 0; GWriteResult 7 0 0; GRev; GReach [5]].

Example session_example :
  gvalid h0 g0 /\
  snd (run_gsession h0 g0 ss0) = spec_gsession (gabs h0 g0) ss0 /\
  gabs (fst (run_gsession h0 g0 ss0)) g0 = gabs h0 g0 /\
  spec_gsession (gabs h0 g0) ss0 =
    [OGraph [(0, [2]); (1, [0]); (2, [1])];
     OGraph [(0, [1]); (1, [2]); (2, [0])];
     OGraph [(0, [1]); (1, [])];
     OSet (Ok [1; 2; 0]);
     OGraph [(0, [2]); (1, [0]); (2, [1])];
     OSet RuntimeErr] /\
  gabs (fst (run_gsession h0 g0 ss0)) [(0, 3); (1, 4); (2, 5)] =
    [(0, [2; 1]); (1, [0; 1]); (2, [1])].
Proof.
  split; [exact g0_valid|]. vm_compute. repeat split; reflexivity.
Qed.

(* the same session against the memoising reversal: the fifth observation is wrong *)
Example cached_session_wrong :
  snd (run_gsession_cached h0 g0 ss0) <> spec_gsession (gabs h0 g0) ss0 /\
  nth_error (snd (run_gsession_cached h0 g0 ss0)) 4 =
    Some (OGraph [(0, [2; 1]); (1, [0; 1]); (2, [1])]).
Proof. vm_compute. split; [intros H; discriminate H|reflexivity]. Qed.

End GExamples.

Print Assumptions galloc_graph_spec.
Print Assumptions clone_gh_spec.
Print Assumptions reversed_gh_spec.
Print Assumptions subgraph_gh_spec.
Print Assumptions clone_gh_valid.
Print Assumptions reversed_gh_valid.
Print Assumptions subgraph_gh_valid.
Print Assumptions add_edge_gh_refines.
Print Assumptions result_independent.
Print Assumptions result_independent_add_edge.
Print Assumptions gsession_correct.
Print Assumptions gsession_valid.
Print Assumptions GExamples.shallow_clone_not_independent.
Print Assumptions GExamples.shallow_clone_refutes_independence.
Print Assumptions GExamples.cached_reverse_not_independent.
Print Assumptions GExamples.session_example.
Print Assumptions GExamples.cached_session_wrong.
