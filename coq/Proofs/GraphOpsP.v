(* GraphOpsP.v — editing a DiGraph after construction (Model/GraphOps.v): whatever the order
   of the add_node / add_edge calls and whichever of them raise, the graph at the end has
   exactly the old nodes plus every node named by a call, and exactly the old edges plus
   every edge named by an add_edge call; a call raises exactly when it names something
   that is already there.  Axiom-free. *)
From Coq Require Import List Arith Bool Lia.
Import ListNotations.
From PMC Require Import Spec.GraphSpec Spec.Lemmas Model.GraphOps Proofs.BaseP Proofs.GraphP.

Definition names_node (o : gop) (x : nat) : Prop :=
  match o with OpNode v => x = v | OpEdge s d => x = s \/ x = d end.
Definition names_edge (o : gop) (x y : nat) : Prop :=
  match o with OpNode _ => False | OpEdge s d => x = s /\ y = d end.

(* one call *)
Theorem apply_gop_spec g o : wf_graph g ->
  (forall g', apply_gop g o = Ok g' ->
     wf_graph g' /\
     (forall x, In x (nodes g') <-> In x (nodes g) \/ names_node o x) /\
     (forall x y, edge g' x y <-> edge g x y \/ names_edge o x y)) /\
  (apply_gop g o = RuntimeErr \/ exists g', apply_gop g o = Ok g') /\
  (apply_gop g o = RuntimeErr <->
     match o with OpNode v => In v (nodes g) | OpEdge s d => edge g s d end).
Proof.
  intros WF. destruct o as [v|s d]; simpl.
  - rewrite add_node_r_spec. destruct (has_node g v) eqn:E.
    + split; [intros g' H; discriminate H|]. split; [left; reflexivity|].
      split; [intros _; apply has_node_In; exact E|reflexivity].
    + split.
      * intros g' H. inversion H; subst. destruct (add_node_spec g v WF) as (A & B & C).
        split; [exact A|]. split; [exact B|]. intros x y. rewrite C. tauto.
      * split; [right; eexists; reflexivity|].
        split; [intros H; discriminate H|]. intros H. apply has_node_In in H. congruence.
  - split; [|split].
    + intros g' H. destruct (add_edge_r_spec g s d g' WF H) as (A & B & C).
      split; [exact A|]. split; [exact B|exact C].
    + apply add_edge_r_total.
    + apply add_edge_r_err.
Qed.

(* any sequence of calls *)
Theorem run_gops_spec ops : forall g gf bs, wf_graph g -> run_gops g ops = (gf, bs) ->
  wf_graph gf /\
  (forall x, In x (nodes gf) <-> In x (nodes g) \/ exists o, In o ops /\ names_node o x) /\
  (forall x y, edge gf x y <-> edge g x y \/ exists o, In o ops /\ names_edge o x y) /\
  length bs = length ops.
Proof.
  induction ops as [|o r IH]; simpl; intros g gf bs WF H.
  - inversion H; subst. split; [exact WF|]. split; [|split; [|reflexivity]].
    + intros x. split; [tauto|]. intros [Hx|(o & [] & _)]. exact Hx.
    + intros x y. split; [tauto|]. intros [Hx|(o & [] & _)]. exact Hx.
  - destruct (apply_gop_spec g o WF) as (Hok & Htot & Herr).
    destruct (apply_gop g o) as [g'| | | | | |] eqn:E;
      try (destruct Htot as [Ht|(g0 & Ht)]; discriminate Ht).
    + destruct (run_gops g' r) as [gf0 bs0] eqn:E2. inversion H; subst. clear H.
      destruct (Hok g' eq_refl) as (WF' & N' & E').
      destruct (IH g' gf bs0 WF' E2) as (A & B & C & D).
      split; [exact A|]. split; [|split].
      * intros x. rewrite B, N'. split.
        -- intros [[Hx|Hx]|(o0 & Ho & Hx)]; [tauto|right; exists o; split; [left; reflexivity|exact Hx]|].
           right. exists o0. split; [right; exact Ho|exact Hx].
        -- intros [Hx|(o0 & [->|Ho] & Hx)]; [tauto|tauto|]. right. exists o0. tauto.
      * intros x y. rewrite C, E'. split.
        -- intros [[Hx|Hx]|(o0 & Ho & Hx)]; [tauto|right; exists o; split; [left; reflexivity|exact Hx]|].
           right. exists o0. split; [right; exact Ho|exact Hx].
        -- intros [Hx|(o0 & [->|Ho] & Hx)]; [tauto|tauto|]. right. exists o0. tauto.
      * simpl. rewrite D. reflexivity.
    + (* the call raised RuntimeError: the thing it names is already there *)
      destruct (run_gops g r) as [gf0 bs0] eqn:E2. inversion H; subst. clear H.
      destruct (IH g gf bs0 WF E2) as (A & B & C & D).
      assert (Hthere := proj1 Herr eq_refl).
      split; [exact A|]. split; [|split].
      * intros x. rewrite B. split.
        -- intros [Hx|(o0 & Ho & Hx)]; [tauto|]. right. exists o0. split; [right; exact Ho|exact Hx].
        -- intros [Hx|(o0 & [->|Ho] & Hx)]; [tauto| |right; exists o0; tauto].
           left. destruct o0 as [v|s d]; simpl in Hx, Hthere.
           ++ subst. exact Hthere.
           ++ destruct WF as (_ & _ & Hc). destruct (Hc s d Hthere) as [Hs Hd].
              destruct Hx as [->| ->]; assumption.
      * intros x y. rewrite C. split.
        -- intros [Hx|(o0 & Ho & Hx)]; [tauto|]. right. exists o0. split; [right; exact Ho|exact Hx].
        -- intros [Hx|(o0 & [->|Ho] & Hx)]; [tauto| |right; exists o0; tauto].
           left. destruct o0 as [v|s d]; simpl in Hx, Hthere; [destruct Hx|].
           destruct Hx as [-> ->]. exact Hthere.
      * simpl. rewrite D. reflexivity.
Qed.

Lemma wf_graph_nil : wf_graph [].
Proof.
  split; [constructor|]. split; [intros x; constructor|]. intros x y H. destruct H.
Qed.

(* incremental construction, in either order, builds the graph the constructor builds *)
Theorem incremental_is_constructor V E :
  forall gi, gi = build_nodes_first V E \/ gi = build_edges_first V E ->
  wf_graph gi /\
  (forall x, In x (nodes gi) <-> In x (nodes (mk_graph V E))) /\
  (forall x y, edge gi x y <-> edge (mk_graph V E) x y).
Proof.
  intros gi Hgi.
  destruct (mk_graph_spec V E) as (_ & MN & ME).
  assert (G : forall ops, (forall o, In o ops <-> (exists v, o = OpNode v /\ In v V) \/
                                                    (exists e, o = OpEdge (fst e) (snd e) /\ In e E)) ->
              wf_graph (fst (run_gops [] ops)) /\
              (forall x, In x (nodes (fst (run_gops [] ops))) <-> In x (nodes (mk_graph V E))) /\
              (forall x y, edge (fst (run_gops [] ops)) x y <-> edge (mk_graph V E) x y)).
  { intros ops Hops. destruct (run_gops [] ops) as [gf bs] eqn:R. simpl.
    destruct (run_gops_spec ops [] gf bs wf_graph_nil R) as (A & B & C & _).
    split; [exact A|]. split.
    - intros x. rewrite B, MN. split.
      + intros [[]|(o & Ho & Hx)]. apply Hops in Ho.
        destruct Ho as [(v & -> & Hv)|([a b] & -> & He)]; simpl in Hx.
        * subst. left. exact Hv.
        * right. destruct Hx as [->| ->]; [exists b; left; exact He|exists a; right; exact He].
      + intros [Hv|(y & [He|He])]; right.
        * exists (OpNode x). split; [apply Hops; left; exists x; tauto|reflexivity].
        * exists (OpEdge x y). split; [apply Hops; right; exists (x, y); tauto|simpl; tauto].
        * exists (OpEdge y x). split; [apply Hops; right; exists (y, x); tauto|simpl; tauto].
    - intros x y. rewrite C, ME. split.
      + intros [[]|(o & Ho & Hx)]. apply Hops in Ho.
        destruct Ho as [(v & -> & Hv)|([a b] & -> & He)]; simpl in Hx; [destruct Hx|].
        destruct Hx as [-> ->]. exact He.
      + intros He. right. exists (OpEdge x y). split; [apply Hops; right; exists (x, y); tauto|simpl; tauto]. }
  destruct Hgi as [->| ->]; unfold build_nodes_first, build_edges_first; apply G; intros o;
    rewrite in_app_iff, !in_map_iff; split.
  - intros [(v & <- & Hv)|(e & <- & He)]; [left; exists v; tauto|right; exists e; tauto].
  - intros [(v & -> & Hv)|(e & -> & He)]; [left; exists v; tauto|right; exists e; tauto].
  - intros [(e & <- & He)|(v & <- & Hv)]; [right; exists e; tauto|left; exists v; tauto].
  - intros [(v & -> & Hv)|(e & -> & He)]; [right; exists v; tauto|left; exists e; tauto].
Qed.

Example incremental_example :
  build_edges_first [3] [(1, 2); (0, 1); (2, 0)] = [(1, [2]); (2, [0]); (0, [1]); (3, [])] /\
  snd (run_gops [] [OpEdge 1 2; OpEdge 0 1; OpEdge 1 2; OpNode 1; OpNode 3]) = [true; true; false; false; true].
Proof. vm_compute. split; reflexivity. Qed.

Print Assumptions apply_gop_spec.
Print Assumptions run_gops_spec.
Print Assumptions incremental_is_constructor.
