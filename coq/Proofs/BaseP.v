(* BaseP.v — reflection lemmas for the boolean helpers of Model/Base.v
   (memb, dedup, inter, diff, subset, mema, dedupa) and a few list facts.
   Axiom-free. *)
From Coq Require Import List Arith Bool Lia.
From PMC Require Import Model.Base.
Import ListNotations.

(* ---------------- memb ---------------- *)
Lemma memb_In x l : memb x l = true <-> In x l.
Proof.
  unfold memb. rewrite existsb_exists. split.
  - intros (y & Hy & E). apply Nat.eqb_eq in E. subst. exact Hy.
  - intros H. exists x. split; [exact H|apply Nat.eqb_refl].
Qed.

Lemma memb_false x l : memb x l = false <-> ~ In x l.
Proof. rewrite <- memb_In. destruct (memb x l); split; congruence. Qed.

Lemma memb_reflect x l : reflect (In x l) (memb x l).
Proof.
  destruct (memb x l) eqn:E; constructor.
  - apply memb_In; exact E.
  - apply memb_false; exact E.
Qed.

Lemma memb_cons x a l : memb x (a :: l) = Nat.eqb x a || memb x l.
Proof. reflexivity. Qed.

Lemma memb_app x l1 l2 : memb x (l1 ++ l2) = memb x l1 || memb x l2.
Proof. unfold memb. apply existsb_app. Qed.

Lemma memb_nil x : memb x [] = false.
Proof. reflexivity. Qed.

Lemma memb_ext x l1 l2 : (In x l1 <-> In x l2) -> memb x l1 = memb x l2.
Proof.
  intros H. destruct (memb x l2) eqn:E.
  - apply memb_In. apply H. apply memb_In. exact E.
  - apply memb_false. intros Hx. apply memb_false in E. apply E. apply H. exact Hx.
Qed.

(* ---------------- dedup ---------------- *)
Lemma dedup_In x l : In x (dedup l) <-> In x l.
Proof.
  induction l as [|a l IH]; simpl; [tauto|]. destruct (memb a l) eqn:E.
  - rewrite IH. apply memb_In in E. split; [tauto|]. intros [->|H]; tauto.
  - simpl. rewrite IH. tauto.
Qed.

Lemma dedup_NoDup l : NoDup (dedup l).
Proof.
  induction l as [|a l IH]; simpl; [constructor|].
  destruct (memb a l) eqn:E; [exact IH|].
  constructor; [|exact IH]. rewrite dedup_In. apply memb_false. exact E.
Qed.

Lemma dedup_NoDup_id l : NoDup l -> dedup l = l.
Proof.
  induction l as [|a l IH]; intros ND; simpl; [reflexivity|].
  inversion ND as [|a' l' Hn ND']; subst.
  apply memb_false in Hn. rewrite Hn. f_equal. apply IH. exact ND'.
Qed.

Lemma dedup_length l : length (dedup l) <= length l.
Proof.
  induction l as [|a l IH]; simpl; [lia|]. destruct (memb a l); simpl; lia.
Qed.

(* ---------------- inter / diff / subset ---------------- *)
Lemma inter_In x a b : In x (inter a b) <-> In x a /\ In x b.
Proof. unfold inter. rewrite filter_In, memb_In. tauto. Qed.

Lemma diff_In x a b : In x (diff a b) <-> In x a /\ ~ In x b.
Proof.
  unfold diff. rewrite filter_In, negb_true_iff, memb_false. tauto.
Qed.

Lemma subset_incl a b : subset a b = true <-> incl a b.
Proof.
  unfold subset. rewrite forallb_forall. unfold incl. split.
  - intros H x Hx. apply memb_In. apply H. exact Hx.
  - intros H x Hx. apply memb_In. apply H. exact Hx.
Qed.

Lemma subset_false a b : subset a b = false <-> ~ incl a b.
Proof. rewrite <- subset_incl. destruct (subset a b); split; congruence. Qed.

Lemma inter_NoDup a b : NoDup a -> NoDup (inter a b).
Proof. intros H. unfold inter. apply NoDup_filter. exact H. Qed.

Lemma diff_NoDup a b : NoDup a -> NoDup (diff a b).
Proof. intros H. unfold diff. apply NoDup_filter. exact H. Qed.

(* ---------------- mema / dedupa ---------------- *)
Lemma mema_In x l : mema x l = true <-> In x l.
Proof.
  unfold mema. rewrite existsb_exists. split.
  - intros (y & Hy & E). apply String.eqb_eq in E. subst. exact Hy.
  - intros H. exists x. split; [exact H|apply String.eqb_refl].
Qed.

Lemma mema_false x l : mema x l = false <-> ~ In x l.
Proof. rewrite <- mema_In. destruct (mema x l); split; congruence. Qed.

Lemma mema_reflect x l : reflect (In x l) (mema x l).
Proof.
  destruct (mema x l) eqn:E; constructor.
  - apply mema_In; exact E.
  - apply mema_false; exact E.
Qed.

Lemma mema_app x l1 l2 : mema x (l1 ++ l2) = mema x l1 || mema x l2.
Proof. unfold mema. apply existsb_app. Qed.

Lemma dedupa_In x l : In x (dedupa l) <-> In x l.
Proof.
  induction l as [|a l IH]; simpl; [tauto|]. destruct (mema a l) eqn:E.
  - rewrite IH. apply mema_In in E. split; [tauto|]. intros [->|H]; tauto.
  - simpl. rewrite IH. tauto.
Qed.

Lemma dedupa_NoDup l : NoDup (dedupa l).
Proof.
  induction l as [|a l IH]; simpl; [constructor|].
  destruct (mema a l) eqn:E; [exact IH|].
  constructor; [|exact IH]. rewrite dedupa_In. apply mema_false. exact E.
Qed.

Lemma dedupa_NoDup_id l : NoDup l -> dedupa l = l.
Proof.
  induction l as [|a l IH]; intros ND; simpl; [reflexivity|].
  inversion ND as [|a' l' Hn ND']; subst.
  apply mema_false in Hn. rewrite Hn. f_equal. apply IH. exact ND'.
Qed.

(* ---------------- generic list facts ---------------- *)
Lemma NoDup_snoc {A} (l : list A) (a : A) : NoDup l -> ~ In a l -> NoDup (l ++ [a]).
Proof.
  intros ND Hn. induction l as [|b l IH]; simpl.
  - constructor; [intros []|constructor].
  - inversion ND as [|b' l' Hb ND']; subst. constructor.
    + rewrite in_app_iff. simpl. intros [H|[H|[]]]; [tauto|].
      subst. apply Hn. left. reflexivity.
    + apply IH; [exact ND'|]. intros H. apply Hn. right. exact H.
Qed.

Lemma in_snoc {A} (l : list A) (a x : A) : In x (l ++ [a]) <-> In x l \/ x = a.
Proof. rewrite in_app_iff. simpl. split; intros [H|H]; try tauto; [destruct H as [H|[]]; auto | auto]. Qed.

(* results *)
Lemma rbind_Ok_inv {A B} (r : result A) (k : A -> result B) (b : B) :
  rbind r k = Ok b -> exists a, r = Ok a /\ k a = Ok b.
Proof. destruct r; simpl; intros H; try discriminate. exists a. split; [reflexivity|exact H]. Qed.
