(* SccLoopP.v — the explicit-stack loop of compute_SCCs (Model/SccLoop.v) computes exactly
   what the recursive model (Model/Scc.v) computes:
     Theorem compute_SCCs_loop_eq : forall g, wf_graph g -> compute_SCCs_loop g = compute_SCCs g.
     Corollary scc_loop_correct   : forall g, wf_graph g -> scc_spec g (compute_SCCs_loop g).
   Proof structure: [scan f g v ws s] is "process the remaining successors ws of v with the
   recursive model (inner calls [visit f]), then finish v".  The simulation lemma [loop_sim]
   shows that the loop started on the stack (v, ws) :: stk reaches the stack stk with the
   state [scan f g v ws s] after some number n of iterations, provided the recursion fuel f
   is at least the number [white g s] of undiscovered nodes.  The same lemma bounds n by a
   potential: [W g s] = sum over the undiscovered nodes x of (1 + out-degree x), which gives
   the sufficiency of [loop_fuel g].  No part of the invariant of SccP.v is needed: only the
   measure [white] and the fact that [disc] only grows. *)
From Coq Require Import List Arith Bool Lia.
From PMC Require Import Model.Scc Model.SccLoop Spec.GraphSpec Spec.Lemmas Proofs.SccP.
Import ListNotations.

(* ------------------------------------------------------------------ *)
(* the recursive model, unfolded one level *)

Definition vstep (f : nat) (g : graph) (s : st) (w : nat) : st :=
  if has (disc s) w then s else visit f g w (discover w (S (time s)) s).

Definition scan (f : nat) (g : graph) (v : nat) (ws : list nat) (s : st) : st :=
  finish g v (fold_left (vstep f g) ws s).

Lemma visit_S f g v s : visit (S f) g v s = scan f g v (succs g v) s.
Proof. reflexivity. Qed.

Lemma scan_nil f g v s : scan f g v [] s = finish g v s.
Proof. reflexivity. Qed.

Lemma scan_cons f g v w ws s : scan f g v (w :: ws) s = scan f g v ws (vstep f g s w).
Proof. reflexivity. Qed.

(* ------------------------------------------------------------------ *)
(* disc only grows *)

Lemma disc_finish g v s : disc (finish g v s) = disc s.
Proof.
  unfold finish.
  destruct (Nat.eqb _ _); [|reflexivity].
  destruct (pop_while _ _ _ _) as [popped stk']. reflexivity.
Qed.

Lemma Dsc_discover_mono w t s x : Dsc s x -> Dsc (discover w t s) x.
Proof. intros H. apply Dsc_discover. right; exact H. Qed.

Lemma fold_Dsc_mono (F : st -> nat -> st) :
  (forall s w x, Dsc s x -> Dsc (F s w) x) ->
  forall ws s x, Dsc s x -> Dsc (fold_left F ws s) x.
Proof.
  intros HF. induction ws as [|w ws IH]; intros s x Hx; simpl; auto.
Qed.

Lemma visit_Dsc_mono g : forall f v s x, Dsc s x -> Dsc (visit f g v s) x.
Proof.
  induction f as [|f IH]; intros v s x Hx; [exact Hx|].
  cbn [visit]. unfold Dsc. rewrite disc_finish. apply fold_Dsc_mono; auto.
  clear - IH. intros s w x Hx. destruct (has (disc s) w); auto.
  apply IH. apply Dsc_discover_mono; exact Hx.
Qed.

Lemma vstep_Dsc_mono f g s w x : Dsc s x -> Dsc (vstep f g s w) x.
Proof.
  intros Hx. unfold vstep. destruct (has (disc s) w); auto.
  apply visit_Dsc_mono. apply Dsc_discover_mono; exact Hx.
Qed.

(* ------------------------------------------------------------------ *)
(* the potential: every undiscovered node still has to get a frame, which costs one
   iteration per successor plus one for the pop *)

Definition wt (g : graph) (s : st) (x : nat) : nat :=
  if has (disc s) x then 0 else S (List.length (succs g x)).

Fixpoint sum_over (h : nat -> nat) (l : list nat) : nat :=
  match l with [] => 0 | x :: r => h x + sum_over h r end.

Definition W (g : graph) (s : st) : nat := sum_over (wt g s) (nodes g).

Lemma sum_over_le h h' l : (forall x, h' x <= h x) -> sum_over h' l <= sum_over h l.
Proof.
  intros H. induction l as [|a l IH]; simpl; auto. specialize (H a). lia.
Qed.

Lemma sum_over_drop h h' l w c :
  (forall x, h' x <= h x) -> In w l -> h' w + c <= h w ->
  sum_over h' l + c <= sum_over h l.
Proof.
  intros H. induction l as [|a l IH]; simpl; intros Hw Hc; [contradiction|].
  destruct Hw as [->|Hw].
  - specialize (sum_over_le h h' l H). lia.
  - specialize (IH Hw Hc). specialize (H a). lia.
Qed.

Lemma wt_mono g s s' x : (forall y, Dsc s y -> Dsc s' y) -> wt g s' x <= wt g s x.
Proof.
  intros H. unfold wt. destruct (has (disc s) x) eqn:E.
  - specialize (H x E). unfold Dsc in H. rewrite H. lia.
  - destruct (has (disc s') x); lia.
Qed.

Lemma W_mono g s s' : (forall y, Dsc s y -> Dsc s' y) -> W g s' <= W g s.
Proof. intros H. apply sum_over_le. intros x. apply wt_mono; exact H. Qed.

Lemma W_discover g s w t : In w (nodes g) -> has (disc s) w = false ->
  W g (discover w t s) + S (List.length (succs g w)) <= W g s.
Proof.
  intros Hw E. unfold W. apply sum_over_drop with (w := w); auto.
  - intros x. apply wt_mono. intros y. apply Dsc_discover_mono.
  - unfold wt. rewrite E.
    assert (D : Dsc (discover w t s) w) by (apply Dsc_discover; left; reflexivity).
    unfold Dsc in D. rewrite D. lia.
Qed.

Lemma W_finish g v s : W g (finish g v s) = W g s.
Proof. unfold W, wt. rewrite disc_finish. reflexivity. Qed.

(* ------------------------------------------------------------------ *)
(* unfolding the loop *)

Lemma loop_run_nil fuel g s : loop_run fuel g [] s = s.
Proof. destruct fuel; reflexivity. Qed.

Lemma loop_run_pop fuel g v stk s :
  loop_run (S fuel) g ((v, []) :: stk) s = loop_run fuel g stk (finish g v s).
Proof. reflexivity. Qed.

Lemma loop_run_skip fuel g v w ws stk s : has (disc s) w = true ->
  loop_run (S fuel) g ((v, w :: ws) :: stk) s = loop_run fuel g ((v, ws) :: stk) s.
Proof. intros E. cbn [loop_run loop_step]. rewrite E. reflexivity. Qed.

Lemma loop_run_push fuel g v w ws stk s : has (disc s) w = false ->
  loop_run (S fuel) g ((v, w :: ws) :: stk) s =
  loop_run fuel g ((w, succs g w) :: (v, ws) :: stk) (discover w (S (time s)) s).
Proof. intros E. cbn [loop_run loop_step]. rewrite E. reflexivity. Qed.

(* ------------------------------------------------------------------ *)
(* the simulation lemma *)

Section SIM.
Variable g : graph.
Hypothesis succs_nodes : forall x y, In y (succs g x) -> In y (nodes g).

Lemma white_discover s w t : In w (nodes g) -> has (disc s) w = false ->
  white g (discover w t s) < white g s.
Proof.
  intros Hw E. apply white_lt with (w := w); auto.
  - intros x. apply Dsc_discover_mono.
  - unfold Dsc. congruence.
  - apply Dsc_discover. left; reflexivity.
Qed.

(* [n] iterations of the loop take the stack (v, ws) :: stk to stk, with the state the
   recursive model computes; the potential pays for the iterations *)
Lemma loop_sim : forall f v ws stk s,
  white g s <= f -> (forall w, In w ws -> In w (nodes g)) ->
  exists n, n + W g (scan f g v ws s) <= S (List.length ws) + W g s /\
    forall fuel, loop_run (n + fuel) g ((v, ws) :: stk) s = loop_run fuel g stk (scan f g v ws s).
Proof.
  induction f as [f IHf] using lt_wf_ind.
  intros v ws. induction ws as [|w ws IHws]; intros stk s Hf Hws.
  - exists 1. split.
    + rewrite scan_nil, W_finish. simpl. lia.
    + intros fuel. rewrite scan_nil. apply loop_run_pop.
  - rewrite scan_cons. unfold vstep at 1 2. destruct (has (disc s) w) eqn:E.
    + destruct (IHws stk s Hf) as (n & Hn & Hrun).
      { intros w' Hw'. apply Hws. right; exact Hw'. }
      exists (S n). split; [simpl; lia|].
      intros fuel. cbn [Nat.add]. rewrite loop_run_skip by exact E. apply Hrun.
    + assert (Hw : In w (nodes g)) by (apply Hws; left; reflexivity).
      set (s1 := discover w (S (time s)) s).
      assert (L : white g s1 < white g s) by (apply white_discover; auto).
      assert (P : W g s1 + S (List.length (succs g w)) <= W g s) by (apply W_discover; auto).
      destruct f as [|f']; [lia|].
      rewrite visit_S.
      destruct (IHf f' (Nat.lt_succ_diag_r f') w (succs g w) ((v, ws) :: stk) s1) as (n1 & Hn1 & Hrun1).
      { lia. }
      { intros y Hy. apply (succs_nodes w y Hy). }
      set (s2 := scan f' g w (succs g w) s1) in *.
      assert (M : white g s2 <= white g s1).
      { apply white_mono. intros x Hx. unfold s2. rewrite <- visit_S. apply visit_Dsc_mono; exact Hx. }
      destruct (IHws stk s2) as (n2 & Hn2 & Hrun2).
      { lia. }
      { intros w' Hw'. apply Hws. right; exact Hw'. }
      exists (S (n1 + n2)). split; [simpl; lia|].
      intros fuel. cbn [Nat.add]. rewrite loop_run_push by exact E. fold s1.
      rewrite <- Nat.add_assoc, Hrun1. apply Hrun2.
Qed.

(* the formulation with "enough fuel" *)
Corollary loop_sim_ge f v ws stk s :
  white g s <= f -> (forall w, In w ws -> In w (nodes g)) ->
  exists n, n <= S (List.length ws) + W g s /\
    forall fuel, n <= fuel ->
      loop_run fuel g ((v, ws) :: stk) s = loop_run (fuel - n) g stk (scan f g v ws s).
Proof.
  intros Hf Hws. destruct (loop_sim f v ws stk s Hf Hws) as (n & Hn & Hrun).
  exists n. split; [lia|]. intros fuel Hfuel.
  replace fuel with (n + (fuel - n)) at 1 by lia. apply Hrun.
Qed.

(* a whole frame: the loop started on a fresh frame for v computes [visit] *)
Corollary loop_visit f v stk s :
  white g s < f ->
  exists n, n <= S (List.length (succs g v)) + W g s /\
    forall fuel, n <= fuel ->
      loop_run fuel g ((v, succs g v) :: stk) s = loop_run (fuel - n) g stk (visit f g v s).
Proof.
  intros Hf. destruct f as [|f]; [lia|]. rewrite visit_S.
  apply loop_sim_ge; [lia|]. intros w Hw. apply (succs_nodes v w Hw).
Qed.

(* by-product: the result of the recursive model does not depend on its fuel, as
   soon as the fuel exceeds the number of undiscovered nodes *)
Corollary visit_fuel_indep f1 f2 v s :
  white g s < f1 -> white g s < f2 -> visit f1 g v s = visit f2 g v s.
Proof.
  intros H1 H2.
  destruct (loop_visit f1 v [] s H1) as (n1 & _ & R1).
  destruct (loop_visit f2 v [] s H2) as (n2 & _ & R2).
  specialize (R1 (n1 + n2)). specialize (R2 (n1 + n2)).
  rewrite loop_run_nil in R1, R2. rewrite <- R1, <- R2 by lia. reflexivity.
Qed.

End SIM.

(* ------------------------------------------------------------------ *)
(* [loop_fuel] suffices *)

Lemma sum_over_ext_in h h' l : (forall x, In x l -> h x = h' x) -> sum_over h l = sum_over h' l.
Proof.
  induction l as [|a l IH]; intros H; [reflexivity|].
  cbn [sum_over]. rewrite (H a) by (left; reflexivity). rewrite IH; [reflexivity|].
  intros x Hx. apply H. right; exact Hx.
Qed.

Lemma W_le_total g s : W g s <= sum_over (fun x => S (List.length (succs g x))) (nodes g).
Proof.
  apply sum_over_le. intros x. unfold wt. destruct (has (disc s) x); lia.
Qed.

Lemma total_edges : forall g, NoDup (nodes g) ->
  sum_over (fun x => S (List.length (succs g x))) (nodes g) = List.length (edges g) + List.length g.
Proof.
  induction g as [|[a ds] g IH]; intros ND; [reflexivity|].
  unfold nodes in *. cbn [map fst] in *. inversion ND as [|a' l' Ha ND']; subst.
  cbn [sum_over]. cbn [succs]. rewrite Nat.eqb_refl.
  rewrite (sum_over_ext_in _ (fun x => S (List.length (succs g x)))).
  - rewrite (IH ND'). unfold edges. cbn [flat_map fst snd List.length].
    rewrite app_length, map_length. fold (edges g). lia.
  - intros x Hx. cbn [succs]. destruct (Nat.eqb a x) eqn:E; [|reflexivity].
    apply Nat.eqb_eq in E. subst. contradiction.
Qed.

Lemma W_lt_fuel g s : NoDup (nodes g) -> W g s < loop_fuel g.
Proof.
  intros ND. specialize (W_le_total g s). rewrite (total_edges g ND). unfold loop_fuel. lia.
Qed.

(* ------------------------------------------------------------------ *)
(* top level *)

Section TOP.
Variable g : graph.
Hypothesis wf : wf_graph g.

Lemma wf_succs_nodes : forall x y, In y (succs g x) -> In y (nodes g).
Proof. intros x y H. destruct wf as (_ & _ & Hn). apply (Hn x y H). Qed.

Lemma loop_root_eq s r : In r (nodes g) -> loop_root g s r = scc_root g s r.
Proof.
  intros Hr. unfold loop_root, scc_root. destruct (has (disc s) r) eqn:E; [reflexivity|].
  set (s1 := discover r (time s) s).
  assert (Hf : white g s1 < S (List.length g)) by (specialize (white_le g s1); lia).
  destruct (loop_visit g wf_succs_nodes (S (List.length g)) r [] s1 Hf) as (n & Hn & Hrun).
  assert (P : W g s1 + S (List.length (succs g r)) <= W g s) by (apply W_discover; auto).
  assert (B : W g s < loop_fuel g) by (apply W_lt_fuel; apply wf).
  rewrite Hrun by lia. apply loop_run_nil.
Qed.

Lemma loop_fold_eq : forall l s, (forall r, In r l -> In r (nodes g)) ->
  fold_left (loop_root g) l s = fold_left (scc_root g) l s.
Proof.
  induction l as [|r l IH]; intros s Hl; [reflexivity|].
  cbn [fold_left]. rewrite loop_root_eq by (apply Hl; left; reflexivity).
  apply IH. intros r' Hr'. apply Hl. right; exact Hr'.
Qed.

Lemma scc_loop_run_eq : scc_loop_run g = scc_run g.
Proof. unfold scc_loop_run, scc_run. apply loop_fold_eq. auto. Qed.

End TOP.

(* identical output, including the order of the components and the order inside them *)
Theorem compute_SCCs_loop_eq : forall g, wf_graph g -> compute_SCCs_loop g = compute_SCCs g.
Proof.
  intros g wf. unfold compute_SCCs_loop, compute_SCCs. rewrite scc_loop_run_eq by exact wf. reflexivity.
Qed.

Corollary scc_loop_correct : forall g, wf_graph g -> scc_spec g (compute_SCCs_loop g).
Proof.
  intros g wf. rewrite compute_SCCs_loop_eq by exact wf. apply scc_correct. exact wf.
Qed.

(* ------------------------------------------------------------------ *)
(* a 5-node example: 0 -> 1 -> 2 -> 0 is a cycle, 2 -> 3 <-> 4 *)
Definition ex5 : graph := [(0, [1]); (1, [2; 3]); (2, [0]); (3, [4]); (4, [3])].

Example ex5_loop : compute_SCCs_loop ex5 = [[3; 4]; [0; 1; 2]].
Proof. vm_compute. reflexivity. Qed.

Example ex5_same : compute_SCCs_loop ex5 = compute_SCCs ex5.
Proof. vm_compute. reflexivity. Qed.

Print Assumptions loop_sim.
Print Assumptions visit_fuel_indep.
Print Assumptions compute_SCCs_loop_eq.
Print Assumptions scc_loop_correct.
