(* KripkeOpsP.v — structures grown after construction keep one label entry per state
   (the invariant of the constructor), so everything proved for constructed structures
   applies to them as soon as they are total again; without the label fill-in (the code
   before fix 8bf41ed) the invariant is lost at the first new state. *)
From Coq Require Import List Arith Bool Lia.
Import ListNotations.
From PMC Require Import Spec.GraphSpec Spec.Semantics Spec.Lemmas Model.Kripke Model.GraphOps.
From PMC Require Import Proofs.BaseP Proofs.GraphP Proofs.GraphOpsP Proofs.KripkeP.
From PMC Require Import Model.KripkeOps.

Definition labels_complete (K : kripke) : Prop := map fst (klab K) = states K.

Lemma nodes_add_node_eq g v :
  nodes (add_node g v) = if has_node g v then nodes g else nodes g ++ [v].
Proof. unfold add_node. destruct (has_node g v); [reflexivity|apply nodes_snoc]. Qed.

Lemma nodes_add_succ_eq g s d : has_node g s = true -> nodes (add_succ g s d) = nodes g.
Proof.
  induction g as [|[x ds] r IH]; intros H.
  - discriminate H.
  - simpl. destruct (Nat.eqb x s) eqn:E.
    + reflexivity.
    + simpl. f_equal. apply IH. apply has_node_In in H. simpl in H. destruct H as [H|H].
      * subst. rewrite Nat.eqb_refl in E. discriminate E.
      * apply has_node_In. exact H.
Qed.

Lemma fst_fill L s :
  map fst (fill_label L s) = if memb s (map fst L) then map fst L else map fst L ++ [s].
Proof.
  unfold fill_label. destruct (memb s (map fst L)); [reflexivity|].
  rewrite map_app. reflexivity.
Qed.

Lemma lookup_app_absent L s x : ~ In s (map fst L) ->
  lookup_lab (L ++ [(s, [])]) x = lookup_lab L x.
Proof.
  induction L as [|[y c] r IH]; simpl; intros H.
  - destruct (Nat.eqb s x); reflexivity.
  - destruct (Nat.eqb y x); [reflexivity|]. apply IH. tauto.
Qed.

(* the labelling, as a function, is unchanged by a fill-in *)
Lemma lookup_fill L s x : lookup_lab (fill_label L s) x = lookup_lab L x.
Proof.
  unfold fill_label. destruct (memb s (map fst L)) eqn:E; [reflexivity|].
  apply lookup_app_absent. apply memb_false. exact E.
Qed.

Lemma has_node_add_node_self g v : has_node (add_node g v) v = true.
Proof. apply has_node_In. apply nodes_add_node. right. reflexivity. Qed.
Lemma has_node_add_node_mono g v x : has_node g x = true -> has_node (add_node g v) x = true.
Proof. rewrite !has_node_In. intros H. apply nodes_add_node. left. exact H. Qed.

Lemma fill_add_node L g v :
  map fst L = nodes g -> map fst (fill_label L v) = nodes (add_node g v).
Proof.
  intros H. rewrite fst_fill, nodes_add_node_eq. unfold has_node. rewrite H.
  destruct (memb v (nodes g)); reflexivity.
Qed.

Theorem kapply_complete K o K' :
  labels_complete K -> kapply K o = Ok K' -> labels_complete K'.
Proof.
  unfold labels_complete, kapply, states. intros HL H.
  destruct o as [v|s d]; simpl in H.
  - unfold add_node_r in H. destruct (has_node (kg K) v) eqn:E; [discriminate H|].
    inversion H; subst. simpl. rewrite nodes_snoc, fst_fill, HL.
    unfold has_node in E. rewrite E. reflexivity.
  - unfold add_edge_r in H.
    destruct (has_node (kg K) s && memb d (succs (kg K) s)); [discriminate H|].
    inversion H; subst. simpl.
    rewrite nodes_add_succ_eq
      by (apply has_node_add_node_mono; apply has_node_add_node_self).
    apply fill_add_node. apply fill_add_node. exact HL.
Qed.

Theorem kapply_labels K o K' x : kapply K o = Ok K' -> labels_of K' x = labels_of K x.
Proof.
  unfold kapply, labels_of. intros H.
  destruct (apply_gop (kg K) o) as [g'| | | | | |]; try discriminate H.
  inversion H; subst. simpl. destruct o as [v|s d]; rewrite ?lookup_fill; reflexivity.
Qed.

Theorem kapply_graph K o K' : kapply K o = Ok K' ->
  apply_gop (kg K) o = Ok (kg K') /\ kinit K' = kinit K.
Proof.
  unfold kapply. intros H.
  destruct (apply_gop (kg K) o) as [g'| | | | | |]; try discriminate H.
  inversion H; subst. simpl. auto.
Qed.

Definition kops_post (K : kripke) (ops : list gop) (KF : kripke) (gF : graph) : Prop :=
  wf_graph (kg KF) /\ labels_complete KF /\ kinit KF = kinit K /\ kg KF = gF /\
  (forall x, In x (states K) -> In x (states KF)) /\
  (forall x, labels_of KF x = labels_of K x).

Lemma kapply_err_graph K o e : kapply K o = e -> (forall K', e <> Ok K') ->
  forall g', apply_gop (kg K) o <> Ok g'.
Proof.
  unfold kapply. intros H Hne g' Hg. rewrite Hg in H. eapply Hne. symmetry. exact H.
Qed.

Lemma run_kops_err_step K o r e :
  (forall K0, wf_graph (kg K0) -> labels_complete K0 ->
     kops_post K0 r (run_kops K0 r) (fst (run_gops (kg K0) r))) ->
  wf_graph (kg K) -> labels_complete K -> kapply K o = e -> (forall K', e <> Ok K') ->
  kops_post K (o :: r) (run_kops K r)
    (fst match apply_gop (kg K) o with
         | Ok g' => let '(gf, bs) := run_gops g' r in (gf, true :: bs)
         | _ => let '(gf, bs) := run_gops (kg K) r in (gf, false :: bs)
         end).
Proof.
  intros IH WF HL E Hne. pose proof (kapply_err_graph K o e E Hne) as Hg.
  destruct (IH K WF HL) as (A & B & C & D & M & L).
  assert (X : fst match apply_gop (kg K) o with
         | Ok g' => let '(gf, bs) := run_gops g' r in (gf, true :: bs)
         | _ => let '(gf, bs) := run_gops (kg K) r in (gf, false :: bs)
         end = fst (run_gops (kg K) r)).
  { destruct (apply_gop (kg K) o) as [g'| | | | | |] eqn:Eg;
      [exfalso; eapply Hg; reflexivity|..];
      destruct (run_gops (kg K) r) as [gf bs]; reflexivity. }
  rewrite X. unfold kops_post.
  split; [exact A|]. split; [exact B|]. split; [exact C|]. split; [exact D|]. split; [exact M|exact L].
Qed.

(* any sequence of calls *)
Theorem run_kops_spec ops : forall K,
  wf_graph (kg K) -> labels_complete K ->
  kops_post K ops (run_kops K ops) (fst (run_gops (kg K) ops)).
Proof.
  induction ops as [|o r IH]; simpl; intros K WF HL.
  - unfold kops_post. split; [exact WF|]. split; [exact HL|]. split; [reflexivity|]. split; [reflexivity|].
    split; auto.
  - destruct (kapply K o) as [K1| | | | | |] eqn:E.
    + destruct (kapply_graph _ _ _ E) as [Eg Ei]. rewrite Eg.
      destruct (apply_gop_spec (kg K) o WF) as (Hok & _ & _).
      destruct (Hok _ Eg) as (WF1 & N1 & _).
      destruct (IH K1 WF1 (kapply_complete _ _ _ HL E)) as (A & B & C & D & M & L).
      destruct (run_gops (kg K1) r) as [gf bs] eqn:E2. simpl in D. simpl. unfold kops_post.
      split; [exact A|]. split; [exact B|]. split; [congruence|]. split; [exact D|]. split.
      * intros x Hx. apply M. unfold states. apply N1. left. exact Hx.
      * intros x. rewrite L. eapply kapply_labels; eauto.
    + apply (run_kops_err_step K o r TypeErr IH WF HL E). intros K' Hc; discriminate Hc.
    + apply (run_kops_err_step K o r RuntimeErr IH WF HL E). intros K' Hc; discriminate Hc.
    + apply (run_kops_err_step K o r SyntaxErr IH WF HL E). intros K' Hc; discriminate Hc.
    + apply (run_kops_err_step K o r ValueErr IH WF HL E). intros K' Hc; discriminate Hc.
    + apply (run_kops_err_step K o r ParseErr IH WF HL E). intros K' Hc; discriminate Hc.
    + apply (run_kops_err_step K o r OutOfFuel IH WF HL E). intros K' Hc; discriminate Hc.
Qed.

(* every state of a grown structure has its entry: `self._labels[s]` cannot raise *)
Theorem grown_label_entry K ops s :
  wf_graph (kg K) -> labels_complete K ->
  In s (states (run_kops K ops)) ->
  label_entry (run_kops K ops) s = Ok (labels_of K s).
Proof.
  intros WF HL Hs. destruct (run_kops_spec ops K WF HL) as (_ & B & _ & _ & _ & L).
  unfold label_entry. rewrite B.
  apply memb_In in Hs. rewrite Hs. rewrite L. reflexivity.
Qed.

(* a grown structure that is total again is a constructed-like structure: wf_K *)
Theorem grown_wf_K K ops :
  wf_K K -> total (run_kops K ops) -> wf_K (run_kops K ops).
Proof.
  intros ((WF & _) & HL & HI) Ht.
  destruct (run_kops_spec ops K WF HL) as (A & B & C & _ & M & _).
  split; [split; [exact A|exact Ht]|]. split; [exact B|].
  intros x Hx. rewrite C in Hx. apply M. apply HI. exact Hx.
Qed.

Module KripkeOpsExamples.
Import String.
Local Open Scope string_scope.
(* K = Kripke(R=[(0,1),(1,0)], L={0:{'p'},1:{'p'}}); K.add_edge(1,2); K.add_edge(2,2) *)
Definition K0 : kripke := mkK [(0, [1]); (1, [0])] [] [(0, ["p"]); (1, ["p"])].
Definition ops : list gop := [OpEdge 1 2; OpEdge 2 2; OpEdge 1 2; OpNode 0].
Lemma grown :
  run_kops K0 ops = mkK [(0, [1]); (1, [0; 2]); (2, [2])] [] [(0, ["p"]); (1, ["p"]); (2, [])] /\
  label_entry (run_kops K0 ops) 2 = Ok [] /\
  label_entry (run_kops_nolabel K0 ops) 2 = RuntimeErr /\
  kg (run_kops_nolabel K0 ops) = kg (run_kops K0 ops).
Proof. vm_compute. auto. Qed.
Lemma K0_wf : wf_K K0.
Proof.
  split; [split|split].
  - split; [|split].
    + simpl. repeat constructor; simpl; intuition discriminate.
    + intros x. simpl. destruct x as [|[|x]]; simpl; repeat constructor; simpl; intuition discriminate.
    + intros x y. unfold edge. simpl. destruct x as [|[|x]]; simpl; intuition (subst; auto).
  - intros s [H|[H|[]]]; subst; simpl; discriminate.
  - reflexivity.
  - intros x [].
Qed.
Lemma nolabel_not_complete :
  ~ (forall K o K', labels_complete K -> kapply_nolabel K o = Ok K' -> labels_complete K').
Proof.
  intros H. specialize (H K0 (OpEdge 1 2) _ eq_refl eq_refl). vm_compute in H. discriminate H.
Qed.
End KripkeOpsExamples.
