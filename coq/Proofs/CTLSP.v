(* CTLSP.v — the CTL* model checker of Model/CTLSmc.v (elimination of quantified
   subformulas through fresh atomic propositions) is exact w.r.t. the path semantics.
   Hypotheses of the final theorem: exactness of the CTL checker (C01), of the LTL checker (C02),
   injectivity of the printer on identifier-atom formulas (print_std_inj).
   Only axiom: Classical_Prop.classic.

   Structure of the proof
   - Part A: strings.  Names handed out by [fresh_name] are [bname ps] = "[ps]" or
     [vname ps i] = "[[ps](i)]" with ps the printed formula; [fresh_name_fresh]: the name is not a
     label of the structure it was computed from (pigeonhole on [fresh_from]).
     Name hygiene is by counting '[' : the print of an identifier-atom ("clean") formula has none,
     so a name abbreviating a clean formula ([cname]) has exactly one (base) or two with a second
     '[' right at index 1 (variant); by [print_std_inj] such a name determines its formula
     ([cname_inj]).  A name requested for  A x  where x already mentions a generated name
     ([jname]) has >= 3 of them, or >= 2 and an 'A' at index 1: it can never equal a [cname].
   - Part B: [sat] depends only on edges and on the labels of the atoms of the formula;
     congruence of pathwise equivalence [peq] through [build]; shape of rewritten formulas.
   - Part C: one-step unfolding lemmas of [elim]/[check_quantified]; quantifier-free formulas are
     returned unchanged ([elim_qfree]); fuel  2 * size f + 4  suffices (<= ctls_fuel f).
   - Part D: invariant [Inv K0 K env] between the original structure K0 and the labelled one K:
     same graph; every (a, phi) in env is a [cname], a labels nothing in K0 and labels exactly the
     states of K0 satisfying phi in K; every other non-junk-shaped atom is labelled as in K0.
     Two requests returning the same name get the same formula by [cname_inj], so relabelling is
     harmless even when an earlier satisfaction set was empty; junk-shaped names (the
     immediately-consumed name of  A (LNot g')  when g' mentions generated names) are never
     referred to again.  [elim_ok]: specification of [elim] by strong induction on the fuel. *)
From PMC Require Import Spec.Lemmas.
From PMC Require Import Proofs.BaseP Proofs.GraphP Proofs.RewriteP Proofs.KripkeP.
From PMC Require Proofs.CTLP Proofs.Assemble.
From Coq Require Import List Arith Bool Lia Classical_Prop.
From Coq Require Import String Ascii DecimalString DecimalNat Decimal.
Import ListNotations.

(* ================================================================== *)
(** * Part A — strings, printed forms, names                            *)
(* ================================================================== *)
Local Open Scope string_scope.

(* the same definitions as in Proofs/PrintP.v (so that [print_std_inj] can be plugged in) *)
Definition ident_start (c : ascii) : bool :=
  let n := nat_of_ascii c in
  (((65 <=? n) && (n <=? 90)) || ((97 <=? n) && (n <=? 122)) || (n =? 95))%nat.
Definition ident_char (c : ascii) : bool :=
  let n := nat_of_ascii c in
  ident_start c || ((48 <=? n) && (n <=? 57))%nat.
Fixpoint all_ic (s : string) : bool :=
  match s with
  | EmptyString => true
  | String c t => ident_char c && all_ic t
  end.
(* [a-zA-Z_][a-zA-Z_0-9]* *)
Definition is_ident (a : string) : bool :=
  match a with
  | EmptyString => false
  | String c t => ident_start c && all_ic t
  end.
Definition reserved (a : string) : bool :=
  mema a ["true"; "false"; "not"; "or"; "and"; "A"; "E"; "X"; "F"; "G"; "U"; "R"].

Fixpoint ident_atoms (f : form) : bool :=
  match f with
  | FBool _ => true
  | FAtom a => is_ident a && negb (reserved a)
  | FNot g | FX g | FF g | FG g | FA g | FE g => ident_atoms g
  | FOr fs | FAnd fs => forallb ident_atoms fs
  | FImp g h | FU g h | FR g h => ident_atoms g && ident_atoms h
  end.

Definition good_id (a : atom) : bool := is_ident a && negb (reserved a).

(* ---- counting a character ---- *)
Fixpoint cnt (c : ascii) (s : string) : nat :=
  match s with
  | EmptyString => 0
  | String d r => (if Ascii.eqb d c then 1 else 0) + cnt c r
  end.

Lemma cnt_app c s t : cnt c (s ++ t) = cnt c s + cnt c t.
Proof. induction s as [|d s IH]; simpl; [reflexivity|]. rewrite IH. lia. Qed.

Lemma sapp_assoc (a b c : string) : (a ++ b) ++ c = a ++ (b ++ c).
Proof. induction a as [|x a IH]; simpl; [reflexivity|]. rewrite IH. reflexivity. Qed.

Lemma sapp_inv_head (a b c : string) : a ++ b = a ++ c -> b = c.
Proof.
  induction a as [|x a IH]; simpl; intros H; [exact H|].
  injection H as H. apply IH. exact H.
Qed.

(* splitting at the first occurrence of a character *)
Lemma cnt_split c s1 : forall s2 t1 t2, cnt c s1 = 0 -> cnt c s2 = 0 ->
  s1 ++ String c t1 = s2 ++ String c t2 -> s1 = s2 /\ t1 = t2.
Proof.
  induction s1 as [|d s1 IH]; intros [|e s2] t1 t2 H1 H2 H; simpl in *.
  - injection H as H. auto.
  - injection H as Hc H. subst e. rewrite Ascii.eqb_refl in H2. discriminate.
  - injection H as Hc H. subst d. rewrite Ascii.eqb_refl in H1. discriminate.
  - injection H as Hc H. subst e.
    destruct (Ascii.eqb d c); [discriminate|]. simpl in *.
    destruct (IH s2 t1 t2 H1 H2 H) as [E1 E2]. subst. auto.
Qed.

Definition special (c : ascii) : Prop := c = "["%char \/ c = "]"%char \/ c = ")"%char.

Lemma cnt_uint c d : special c -> cnt c (NilEmpty.string_of_uint d) = 0.
Proof.
  intros [-> | [-> | ->]]; induction d as [|d IH|d IH|d IH|d IH|d IH|d IH|d IH|d IH|d IH|d IH];
    simpl; auto.
Qed.

Lemma cnt_nts c i : special c -> cnt c (nat_to_string i) = 0.
Proof. intros H. unfold nat_to_string. apply cnt_uint. exact H. Qed.

Lemma nts_inj i j : nat_to_string i = nat_to_string j -> i = j.
Proof.
  unfold nat_to_string. intros H.
  assert (E : Some (Nat.to_uint i) = Some (Nat.to_uint j)).
  { rewrite <- !NilEmpty.usu. rewrite H. reflexivity. }
  injection E as E. rewrite <- (Unsigned.of_to i), <- (Unsigned.of_to j). rewrite E. reflexivity.
Qed.

(* ---- identifiers contain no bracket ---- *)
Lemma ident_char_cnt c d : (c = "["%char \/ c = "]"%char) -> ident_char d = true ->
  Ascii.eqb d c = false.
Proof.
  intros Hc Hd. destruct (Ascii.eqb d c) eqn:E; [|reflexivity].
  apply Ascii.eqb_eq in E. subst d. destruct Hc as [-> | ->]; vm_compute in Hd; discriminate.
Qed.

Lemma all_ic_cnt c s : (c = "["%char \/ c = "]"%char) -> all_ic s = true -> cnt c s = 0.
Proof.
  intros Hc. induction s as [|d s IH]; simpl; intros H; [reflexivity|].
  apply andb_true_iff in H. destruct H as [H1 H2].
  rewrite (ident_char_cnt c d Hc H1). rewrite IH by exact H2. reflexivity.
Qed.

Lemma is_ident_cnt c a : (c = "["%char \/ c = "]"%char) -> is_ident a = true -> cnt c a = 0.
Proof.
  intros Hc. destruct a as [|d s]; simpl; intros H; [reflexivity|].
  apply andb_true_iff in H. destruct H as [H1 H2].
  assert (Hd : ident_char d = true) by (unfold ident_char; rewrite H1; reflexivity).
  rewrite (ident_char_cnt c d Hc Hd). rewrite (all_ic_cnt c s Hc H2). reflexivity.
Qed.

(* ---- the fatoms of a formula ---- *)
Fixpoint fatoms (f : form) : list atom :=
  match f with
  | FBool _ => []
  | FAtom a => [a]
  | FNot g | FX g | FF g | FG g | FA g | FE g => fatoms g
  | FOr fs | FAnd fs => flat_map fatoms fs
  | FImp g h | FU g h | FR g h => (fatoms g ++ fatoms h)%list
  end.

Lemma ident_atoms_spec f : ident_atoms f = true <-> forall a, In a (fatoms f) -> good_id a = true.
Proof.
  induction f as [b|a|g IH|fs IH|fs IH|g h IHg IHh|g IH|g IH|g IH|g h IHg IHh|g h IHg IHh|g IH|g IH]
    using RewriteP.form_ind'; cbn [ident_atoms fatoms]; try exact IH.
  - split; [intros _ a []|reflexivity].
  - unfold good_id. split.
    + intros H b [<-|[]]. exact H.
    + intros H. apply H. left. reflexivity.
  - rewrite forallb_forall. rewrite Forall_forall in IH. split.
    + intros H a Ha. apply in_flat_map in Ha. destruct Ha as [g [Hg Ha]].
      apply (proj1 (IH g Hg) (H g Hg) a Ha).
    + intros H g Hg. apply IH; [exact Hg|]. intros a Ha. apply H. apply in_flat_map. exists g. auto.
  - rewrite forallb_forall. rewrite Forall_forall in IH. split.
    + intros H a Ha. apply in_flat_map in Ha. destruct Ha as [g [Hg Ha]].
      apply (proj1 (IH g Hg) (H g Hg) a Ha).
    + intros H g Hg. apply IH; [exact Hg|]. intros a Ha. apply H. apply in_flat_map. exists g. auto.
  - rewrite andb_true_iff, IHg, IHh. split.
    + intros [H1 H2] a Ha. apply in_app_iff in Ha. destruct Ha; auto.
    + intros H. split; intros a Ha; apply H; apply in_app_iff; auto.
  - rewrite andb_true_iff, IHg, IHh. split.
    + intros [H1 H2] a Ha. apply in_app_iff in Ha. destruct Ha; auto.
    + intros H. split; intros a Ha; apply H; apply in_app_iff; auto.
  - rewrite andb_true_iff, IHg, IHh. split.
    + intros [H1 H2] a Ha. apply in_app_iff in Ha. destruct Ha; auto.
    + intros H. split; intros a Ha; apply H; apply in_app_iff; auto.
Qed.

(* ---- brackets of a printed formula = brackets of its fatoms ---- *)
Definition acnt (c : ascii) (f : form) : nat := list_sum (map (cnt c) (fatoms f)).

Lemma acnt_flat c fs :
  list_sum (map (cnt c) (flat_map fatoms fs)) = list_sum (map (acnt c) fs).
Proof.
  induction fs as [|g fs IH]; [reflexivity|].
  change (flat_map fatoms (g :: fs)) with (fatoms g ++ flat_map fatoms fs)%list.
  rewrite map_app, list_sum_app.
  change (list_sum (map (acnt c) (g :: fs))) with (acnt c g + list_sum (map (acnt c) fs)).
  unfold acnt at 1. f_equal. exact IH.
Qed.

Lemma cnt_join c sep l : cnt c sep = 0 -> cnt c (join sep l) = list_sum (map (cnt c) l).
Proof.
  intros Hs. induction l as [|x l IH]; [reflexivity|].
  destruct l as [|y l].
  - simpl. lia.
  - change (join sep (x :: y :: l)) with (x ++ sep ++ join sep (y :: l)).
    rewrite !cnt_app, Hs, IH.
    change (list_sum (map (cnt c) (x :: y :: l))) with (cnt c x + list_sum (map (cnt c) (y :: l))).
    lia.
Qed.

Lemma cnt_print_nary c sym l : (c = "["%char \/ c = "]"%char) -> cnt c sym = 0 ->
  cnt c (print_nary sym l) = list_sum (map (cnt c) l).
Proof.
  intros Hc Hs.
  assert (Hsp : cnt c " " = 0) by (destruct Hc as [-> | ->]; reflexivity).
  assert (Hlp : cnt c "(" = 0) by (destruct Hc as [-> | ->]; reflexivity).
  assert (Hrp : cnt c ")" = 0) by (destruct Hc as [-> | ->]; reflexivity).
  assert (Hgen : cnt c ("(" ++ join (" " ++ sym ++ " ") l ++ ")") = list_sum (map (cnt c) l)).
  { rewrite !cnt_app, Hlp, Hrp. rewrite cnt_join; [lia|]. rewrite !cnt_app, Hsp, Hs. reflexivity. }
  destruct l as [|x [|y l]]; try exact Hgen.
  unfold print_nary. rewrite !cnt_app, Hs, Hsp. simpl. lia.
Qed.

Ltac fin Hc :=
  unfold atom in *;
  repeat match goal with |- context [list_sum ?l] => generalize (list_sum l) end;
  intros; destruct Hc as [-> | ->]; simpl; lia.

Lemma cnt_print c f : (c = "["%char \/ c = "]"%char) -> cnt c (print_std f) = acnt c f.
Proof.
  intros Hc. unfold acnt.
  induction f as [b|a|g IH|fs IH|fs IH|g h IHg IHh|g IH|g IH|g IH|g h IHg IHh|g h IHg IHh|g IH|g IH]
    using RewriteP.form_ind'; cbn [print_std fatoms].
  - destruct b; destruct Hc as [-> | ->]; reflexivity.
  - simpl. lia.
  - rewrite cnt_app, IH. destruct Hc as [-> | ->]; reflexivity.
  - rewrite cnt_print_nary; [|exact Hc|destruct Hc as [-> | ->]; reflexivity].
    rewrite acnt_flat, map_map. f_equal. apply map_ext_in. intros g Hg.
    rewrite Forall_forall in IH. apply IH. exact Hg.
  - rewrite cnt_print_nary; [|exact Hc|destruct Hc as [-> | ->]; reflexivity].
    rewrite acnt_flat, map_map. f_equal. apply map_ext_in. intros g Hg.
    rewrite Forall_forall in IH. apply IH. exact Hg.
  - rewrite !cnt_app, IHg, IHh, map_app, list_sum_app. fin Hc.
  - rewrite !cnt_app, IH. fin Hc.
  - rewrite !cnt_app, IH. fin Hc.
  - rewrite !cnt_app, IH. fin Hc.
  - rewrite !cnt_app, IHg, IHh, map_app, list_sum_app. fin Hc.
  - rewrite !cnt_app, IHg, IHh, map_app, list_sum_app. fin Hc.
  - rewrite !cnt_app, IH. fin Hc.
  - rewrite !cnt_app, IH. fin Hc.
Qed.

Lemma list_sum_zero l : (forall x, In x l -> x = 0) -> list_sum l = 0.
Proof.
  induction l as [|x l IH]; intros H; [reflexivity|].
  change (list_sum (x :: l)) with (x + list_sum l).
  rewrite (H x (or_introl eq_refl)), IH; [reflexivity|].
  intros y Hy. apply H. right. exact Hy.
Qed.

Lemma list_sum_ge l x : In x l -> x <= list_sum l.
Proof.
  induction l as [|y l IH]; intros H; [destruct H|].
  change (list_sum (y :: l)) with (y + list_sum l).
  destruct H as [->|H]; [lia|]. specialize (IH H). lia.
Qed.

Lemma acnt_ident c f : (c = "["%char \/ c = "]"%char) -> ident_atoms f = true -> acnt c f = 0.
Proof.
  intros Hc Hf. unfold acnt. apply list_sum_zero. intros x Hx.
  apply in_map_iff in Hx. destruct Hx as [a [<- Ha]].
  apply is_ident_cnt; [exact Hc|].
  pose proof (proj1 (ident_atoms_spec f) Hf a Ha) as Hg. unfold good_id in Hg.
  apply andb_true_iff in Hg. tauto.
Qed.

Lemma acnt_ge c f a : In a (fatoms f) -> cnt c a <= acnt c f.
Proof. intros Ha. unfold acnt. apply list_sum_ge. apply in_map. exact Ha. Qed.

Definition lbc : ascii := "["%char.
Definition rbc : ascii := "]"%char.
Definition lb (s : string) : nat := cnt lbc s.
Definition rb (s : string) : nat := cnt rbc s.

(* ---- the names handed out by fresh_name ---- *)
Definition bname (ps : string) : string := "[" ++ ps ++ "]".
Definition vname (ps : string) (i : nat) : string := "[" ++ bname ps ++ "(" ++ nat_to_string i ++ ")]".

Lemma fresh_from_shape fstr used : forall fuel i, exists j,
  fresh_from fuel i fstr used = "[" ++ fstr ++ "(" ++ nat_to_string j ++ ")]".
Proof.
  induction fuel as [|n IH]; intros i; cbn [fresh_from].
  - exists i. reflexivity.
  - destruct (mema _ used); [apply IH | exists i; reflexivity].
Qed.

Lemma fresh_name_shape K f :
  fresh_name CTLS K f = bname (print_std f) \/ exists i, fresh_name CTLS K f = vname (print_std f) i.
Proof.
  unfold fresh_name. cbn [print].
  destruct (mema _ (all_labels K)); [right|left; reflexivity].
  apply fresh_from_shape.
Qed.

Lemma cand_inj fstr i j :
  "[" ++ fstr ++ "(" ++ nat_to_string i ++ ")]" = "[" ++ fstr ++ "(" ++ nat_to_string j ++ ")]" -> i = j.
Proof.
  intros H. apply sapp_inv_head in H. apply sapp_inv_head in H. apply sapp_inv_head in H.
  apply nts_inj.
  change (nat_to_string i ++ String ")"%char "]" = nat_to_string j ++ String ")"%char "]") in H.
  apply cnt_split in H; [tauto| |]; apply cnt_nts; right; right; reflexivity.
Qed.

Lemma fresh_from_fresh fstr : forall fuel i used used',
  (forall j, i <= j -> (In ("[" ++ fstr ++ "(" ++ nat_to_string j ++ ")]") used <->
                        In ("[" ++ fstr ++ "(" ++ nat_to_string j ++ ")]") used')) ->
  List.length used' <= fuel ->
  ~ In (fresh_from fuel i fstr used) used.
Proof.
  induction fuel as [|n IH]; intros i used used' Hsame Hlen; cbn [fresh_from].
  - destruct used' as [|x r]; [|simpl in Hlen; lia].
    intros H. apply (Hsame i (le_n i)) in H. destruct H.
  - destruct (mema _ used) eqn:E.
    + apply mema_In in E.
      apply (IH (S i) used (remove string_dec ("[" ++ fstr ++ "(" ++ nat_to_string i ++ ")]") used')).
      * intros j Hj. rewrite (Hsame j) by lia. split.
        -- intros H. apply in_in_remove; [|exact H].
           intros Heq. apply cand_inj in Heq. lia.
        -- intros H. apply in_remove in H. tauto.
      * apply (Hsame i (le_n i)) in E.
        pose proof (remove_length_lt string_dec used' _ E). lia.
    + apply mema_false in E. exact E.
Qed.

Lemma fresh_name_fresh L K f : ~ In (fresh_name L K f) (all_labels K).
Proof.
  unfold fresh_name. cbv zeta. destruct (mema _ (all_labels K)) eqn:E.
  - apply (fresh_from_fresh _ _ 0 _ (all_labels K)); [tauto|apply le_n].
  - apply mema_false in E. exact E.
Qed.

(* ---- classification of names ---- *)
Definition clean (f : form) : Prop := ident_atoms f = true /\ arity_ok f = true.

(* a name that abbreviates the clean quantified formula phi *)
Definition cname (a : atom) (phi : form) : Prop :=
  clean phi /\ is_quantified phi = true /\
  (a = bname (print_std phi) \/ exists i, a = vname (print_std phi) i).

(* the shape of a name requested for a formula that already contains bracket fatoms *)
Definition jname (a : atom) : Prop :=
  3 <= lb a \/ (2 <= lb a /\ get 1 a <> Some lbc).

Lemma lb_bname ps : lb (bname ps) = 1 + lb ps.
Proof. unfold lb, bname. rewrite !cnt_app. simpl. lia. Qed.

Lemma lb_vname ps i : lb (vname ps i) = 2 + lb ps.
Proof.
  unfold vname. unfold lb at 1. rewrite !cnt_app. fold (lb (bname ps)). rewrite lb_bname.
  rewrite cnt_nts by (left; reflexivity). simpl. lia.
Qed.

Lemma get1_vname ps i : get 1 (vname ps i) = Some lbc.
Proof. reflexivity. Qed.

Lemma clean_lb f : clean f -> lb (print_std f) = 0.
Proof. intros [H _]. unfold lb. rewrite cnt_print by (left; reflexivity). apply acnt_ident; auto. Qed.

Lemma clean_rb f : clean f -> rb (print_std f) = 0.
Proof. intros [H _]. unfold rb. rewrite cnt_print by (right; reflexivity). apply acnt_ident; auto. Qed.

Lemma cname_lb a phi : cname a phi -> lb a = 1 \/ (lb a = 2 /\ get 1 a = Some lbc).
Proof.
  intros (Hc & _ & [-> | [i ->]]).
  - left. rewrite lb_bname, clean_lb by exact Hc. reflexivity.
  - right. rewrite lb_vname, clean_lb by exact Hc. split; reflexivity.
Qed.

Lemma cname_not_jname a phi : cname a phi -> ~ jname a.
Proof.
  intros H [J | [J1 J2]]; destruct (cname_lb a phi H) as [E | [E1 E2]]; try lia. auto.
Qed.

Lemma cname_not_ident a phi : cname a phi -> good_id a = false.
Proof.
  intros H. destruct (good_id a) eqn:E; [|reflexivity].
  unfold good_id in E. apply andb_true_iff in E. destruct E as [E _].
  pose proof (is_ident_cnt lbc a (or_introl eq_refl) E) as Hz. fold (lb a) in Hz.
  destruct (cname_lb a phi H) as [E1 | [E1 _]]; lia.
Qed.

Lemma good_id_not_jname a : good_id a = true -> ~ jname a.
Proof.
  intros E. unfold good_id in E. apply andb_true_iff in E. destruct E as [E _].
  pose proof (is_ident_cnt lbc a (or_introl eq_refl) E) as Hz. fold (lb a) in Hz.
  intros [J | [J _]]; lia.
Qed.

Section NameInj.
  Hypothesis print_std_inj : forall f g, ident_atoms f = true -> ident_atoms g = true ->
    arity_ok f = true -> arity_ok g = true -> print_std f = print_std g -> f = g.

  Lemma cname_inj a phi psi : cname a phi -> cname a psi -> phi = psi.
  Proof.
    intros H1 H2.
    pose proof (cname_lb a phi H1) as L1. pose proof (cname_lb a psi H2) as L2.
    destruct H1 as ((I1 & A1) & _ & N1). destruct H2 as ((I2 & A2) & _ & N2).
    assert (R1 : rb (print_std phi) = 0) by (apply clean_rb; split; assumption).
    assert (R2 : rb (print_std psi) = 0) by (apply clean_rb; split; assumption).
    assert (B1 : lb (print_std phi) = 0) by (apply clean_lb; split; assumption).
    assert (B2 : lb (print_std psi) = 0) by (apply clean_lb; split; assumption).
    apply print_std_inj; try assumption.
    destruct N1 as [-> | [i ->]]; destruct N2 as [E | [j E]].
    - unfold bname in E. apply sapp_inv_head in E.
      change (print_std phi ++ String rbc "" = print_std psi ++ String rbc "") in E.
      apply cnt_split in E; [tauto|exact R1|exact R2].
    - exfalso. pose proof (f_equal lb E) as X. rewrite lb_bname, lb_vname, B1, B2 in X. lia.
    - exfalso. pose proof (f_equal lb E) as X. rewrite lb_bname, lb_vname, B1, B2 in X. lia.
    - unfold vname, bname in E. apply sapp_inv_head in E.
      rewrite !sapp_assoc in E. apply sapp_inv_head in E.
      change (print_std phi ++ String rbc ("(" ++ nat_to_string i ++ ")]") =
              print_std psi ++ String rbc ("(" ++ nat_to_string j ++ ")]")) in E.
      apply cnt_split in E; [tauto|exact R1|exact R2].
  Qed.
End NameInj.

(* a request for  A x  where x contains an atom with a bracket gives a junk-shaped name *)
Lemma lb_print_FA x : lb (print_std (FA x)) = lb (print_std x).
Proof.
  cbn [print_std]. unfold lb, lbc. rewrite !cnt_app.
  generalize (cnt "[" (print_std x)). intros n. simpl. lia.
Qed.

Lemma get1_bname_FA x : get 1 (bname (print_std (FA x))) <> Some lbc.
Proof. cbn [print_std]. unfold bname. simpl. intros H. discriminate H. Qed.

Lemma fresh_jname K x : 1 <= lb (print_std x) -> jname (fresh_name CTLS K (FA x)).
Proof.
  intros Hx. destruct (fresh_name_shape K (FA x)) as [E | [i E]]; rewrite E.
  - right. split.
    + rewrite lb_bname, lb_print_FA. lia.
    + apply get1_bname_FA.
  - left. rewrite lb_vname, lb_print_FA. lia.
Qed.

Lemma fresh_cname K f : clean f -> is_quantified f = true -> cname (fresh_name CTLS K f) f.
Proof. intros Hc Hq. split; [exact Hc|]. split; [exact Hq|]. apply fresh_name_shape. Qed.

Local Close Scope string_scope.

(* ================================================================== *)
(** * Part B — semantic toolkit                                         *)
(* ================================================================== *)

Lemma is_path_edges K K' p :
  (forall x y, edge (kg K') x y <-> edge (kg K) x y) -> (is_path K' p <-> is_path K p).
Proof. intros He. unfold is_path. split; intros H i; apply He; apply H. Qed.

Lemma is_path_kg K K' p : kg K' = kg K -> (is_path K' p <-> is_path K p).
Proof. intros E. unfold is_path. rewrite E. reflexivity. Qed.

(* [sat] only depends on the edges and on the labels of the atoms of the formula *)
Lemma sat_agree K K' f :
  (forall x y, edge (kg K') x y <-> edge (kg K) x y) ->
  (forall s a, In a (fatoms f) -> (labelled K' s a <-> labelled K s a)) ->
  forall p, sat K' p f <-> sat K p f.
Proof.
  intros He.
  induction f as [b|a|g IH|fs IH|fs IH|g h IHg IHh|g IH|g IH|g IH|g h IHg IHh|g h IHg IHh|g IH|g IH]
    using RewriteP.form_ind'; cbn [fatoms]; intros Hl p.
  - reflexivity.
  - cbn [sat]. apply Hl. left. reflexivity.
  - cbn [sat]. rewrite (IH Hl p). reflexivity.
  - rewrite !sat_FOr. rewrite Forall_forall in IH.
    split; intros [g [Hg Hs]]; exists g; (split; [exact Hg|]);
      apply (IH g Hg (fun s a Ha => Hl s a (proj2 (in_flat_map _ _ _) (ex_intro _ g (conj Hg Ha))))); exact Hs.
  - rewrite !sat_FAnd. rewrite Forall_forall in IH.
    split; intros H g Hg;
      apply (IH g Hg (fun s a Ha => Hl s a (proj2 (in_flat_map _ _ _) (ex_intro _ g (conj Hg Ha))))); apply H; exact Hg.
  - cbn [sat].
    rewrite (IHg (fun s a Ha => Hl s a (proj2 (in_app_iff _ _ _) (or_introl Ha))) p).
    rewrite (IHh (fun s a Ha => Hl s a (proj2 (in_app_iff _ _ _) (or_intror Ha))) p). reflexivity.
  - cbn [sat]. apply (IH Hl).
  - cbn [sat]. split; intros [k Hk]; exists k; apply (IH Hl); exact Hk.
  - cbn [sat]. split; intros H k; apply (IH Hl); apply H.
  - cbn [sat].
    pose proof (IHg (fun s a Ha => Hl s a (proj2 (in_app_iff _ _ _) (or_introl Ha)))) as Eg.
    pose proof (IHh (fun s a Ha => Hl s a (proj2 (in_app_iff _ _ _) (or_intror Ha)))) as Eh.
    split; intros [k [Hk Hj]]; exists k; (split; [apply Eh; exact Hk|]);
      intros j Hlt; apply Eg; apply Hj; exact Hlt.
  - cbn [sat].
    pose proof (IHg (fun s a Ha => Hl s a (proj2 (in_app_iff _ _ _) (or_introl Ha)))) as Eg.
    pose proof (IHh (fun s a Ha => Hl s a (proj2 (in_app_iff _ _ _) (or_intror Ha)))) as Eh.
    split; intros H k Hj; apply Eh; apply H; intros j Hlt Hs; apply (Hj j Hlt); apply Eg; exact Hs.
  - cbn [sat]. split; intros H q Hq E; apply (IH Hl); apply H; try exact E;
      apply (is_path_edges K K' q He); exact Hq.
  - cbn [sat]. split; intros [q [Hq [E Hs]]]; exists q;
      (split; [apply (is_path_edges K K' q He); exact Hq | split; [exact E|apply (IH Hl); exact Hs]]).
Qed.

Lemma holds_FE K s g : holds K s (FE g) <-> exists p, is_path K p /\ p 0 = s /\ sat K p g.
Proof.
  unfold holds. cbn [sat]. split.
  - intros [p [Hp [E [q [Hq [E' Hs]]]]]]. exists q. split; [exact Hq|]. split; [congruence|exact Hs].
  - intros [p [Hp [E Hs]]]. exists p. split; [exact Hp|]. split; [exact E|].
    exists p. auto.
Qed.

Lemma holds_FA K s g : holds K s (FA g) <->
  (exists p, is_path K p /\ p 0 = s) /\ forall p, is_path K p -> p 0 = s -> sat K p g.
Proof.
  unfold holds. cbn [sat]. split.
  - intros [p [Hp [E H]]]. split; [exists p; auto|].
    intros q Hq E'. apply H; [exact Hq|congruence].
  - intros [[p [Hp E]] H]. exists p. split; [exact Hp|]. split; [exact E|].
    intros q Hq E'. apply H; [exact Hq|congruence].
Qed.

Lemma holds_state K f p : ctls_state f = true -> is_path K p -> (holds K (p 0) f <-> sat K p f).
Proof.
  intros Hs Hp. split.
  - intros [q [Hq [E H]]]. apply (sat_state_head K f Hs q p E). exact H.
  - intros H. exists p. auto.
Qed.

Lemma holds_agree K K' s f :
  (forall x y, edge (kg K') x y <-> edge (kg K) x y) ->
  (forall s a, labelled K' s a <-> labelled K s a) ->
  (holds K' s f <-> holds K s f).
Proof.
  intros He Hl. unfold holds. split; intros [p [Hp [E H]]]; exists p.
  - split; [apply (is_path_edges K K' p He); exact Hp|]. split; [exact E|].
    apply (sat_agree K K' f He (fun s a _ => Hl s a) p). exact H.
  - split; [apply (is_path_edges K K' p He); exact Hp|]. split; [exact E|].
    apply (sat_agree K K' f He (fun s a _ => Hl s a) p). exact H.
Qed.

(* ---- pathwise equivalence between a formula over K' and a formula over K ---- *)
Definition peq (K' K : kripke) (f' f : form) : Prop :=
  forall p, is_path K p -> (sat K' p f' <-> sat K p f).

Section Peq.
  Variables K' K : kripke.
  Hypothesis Hkg : kg K' = kg K.

  Lemma peq_FNot a' a : peq K' K a' a -> peq K' K (FNot a') (FNot a).
  Proof. intros H p Hp. cbn [sat]. rewrite (H p Hp). reflexivity. Qed.
  Lemma peq_FImp a' a b' b : peq K' K a' a -> peq K' K b' b -> peq K' K (FImp a' b') (FImp a b).
  Proof. intros Ha Hb p Hp. cbn [sat]. rewrite (Ha p Hp), (Hb p Hp). reflexivity. Qed.
  Lemma peq_FOr l' l : Forall2 (peq K' K) l' l -> peq K' K (FOr l') (FOr l).
  Proof.
    intros H p Hp. cbn [sat]. induction H as [|a' a l' l Ha Hl IH]; cbn [fold_right]; [reflexivity|].
    rewrite (Ha p Hp), IH. reflexivity.
  Qed.
  Lemma peq_FAnd l' l : Forall2 (peq K' K) l' l -> peq K' K (FAnd l') (FAnd l).
  Proof.
    intros H p Hp. cbn [sat]. induction H as [|a' a l' l Ha Hl IH]; cbn [fold_right]; [reflexivity|].
    rewrite (Ha p Hp), IH. reflexivity.
  Qed.
  Lemma peq_FX a' a : peq K' K a' a -> peq K' K (FX a') (FX a).
  Proof. intros H p Hp. cbn [sat]. apply H. apply is_path_suffix. exact Hp. Qed.
  Lemma peq_FF a' a : peq K' K a' a -> peq K' K (FF a') (FF a).
  Proof.
    intros H p Hp. cbn [sat].
    split; intros [k Hk]; exists k; apply (H _ (is_path_suffix K p k Hp)); exact Hk.
  Qed.
  Lemma peq_FG a' a : peq K' K a' a -> peq K' K (FG a') (FG a).
  Proof.
    intros H p Hp. cbn [sat].
    split; intros Hk k; apply (H _ (is_path_suffix K p k Hp)); apply Hk.
  Qed.
  Lemma peq_FU a' a b' b : peq K' K a' a -> peq K' K b' b -> peq K' K (FU a' b') (FU a b).
  Proof.
    intros Ha Hb p Hp. cbn [sat].
    split; intros [k [Hk Hj]]; exists k;
      (split; [apply (Hb _ (is_path_suffix K p k Hp)); exact Hk|]);
      intros j Hlt; apply (Ha _ (is_path_suffix K p j Hp)); apply Hj; exact Hlt.
  Qed.
  Lemma peq_FR a' a b' b : peq K' K a' a -> peq K' K b' b -> peq K' K (FR a' b') (FR a b).
  Proof.
    intros Ha Hb p Hp. cbn [sat].
    split; intros H k Hj; apply (Hb _ (is_path_suffix K p k Hp)); apply H;
      intros j Hlt Hs; apply (Hj j Hlt); apply (Ha _ (is_path_suffix K p j Hp)); exact Hs.
  Qed.
  Lemma peq_FA a' a : peq K' K a' a -> peq K' K (FA a') (FA a).
  Proof.
    intros H p Hp. cbn [sat]. split; intros HA q Hq E.
    - apply (H q Hq). apply HA; [apply (is_path_kg K K' q Hkg); exact Hq|exact E].
    - apply (is_path_kg K K' q Hkg) in Hq. apply (H q Hq). apply HA; [exact Hq|exact E].
  Qed.
  Lemma peq_FE a' a : peq K' K a' a -> peq K' K (FE a') (FE a).
  Proof.
    intros H p Hp. cbn [sat]. split; intros [q [Hq [E Hs]]]; exists q.
    - apply (is_path_kg K K' q Hkg) in Hq. split; [exact Hq|]. split; [exact E|].
      apply (H q Hq). exact Hs.
    - split; [apply (is_path_kg K K' q Hkg); exact Hq|]. split; [exact E|].
      apply (H q Hq). exact Hs.
  Qed.
  Lemma peq_refl_bool b : peq K' K (FBool b) (FBool b).
  Proof. intros p Hp. reflexivity. Qed.

  Lemma build_peq o cs' cs : is_leaf_op o = false ->
    Forall2 (peq K' K) cs' cs -> peq K' K (build o cs') (build o cs).
  Proof.
    intros Hl H. destruct o as [ob|oa| | | | | | | | | | | ]; try discriminate Hl;
      cbn [build]; try apply peq_refl_bool;
      try (apply peq_FOr; exact H); try (apply peq_FAnd; exact H);
      try (intros p Hp; reflexivity);
      destruct H as [|a' a l1' l1 Ha [|b' b l2' l2 Hb [|c' c l3' l3 Hc Hr]]];
      try apply peq_refl_bool.
    - apply peq_FNot; assumption.
    - apply peq_FImp; assumption.
    - apply peq_FX; assumption.
    - apply peq_FF; assumption.
    - apply peq_FG; assumption.
    - apply peq_FU; assumption.
    - apply peq_FR; assumption.
    - apply peq_FA; assumption.
    - apply peq_FE; assumption.
  Qed.
End Peq.

Lemma build_children f : build (root_op f) (children f) = f.
Proof. destruct f; reflexivity. Qed.

(* ---- shape of the rewritten formula ---- *)
Definition shp (f f' : form) : Prop :=
  ltl_path f' = true /\
  (ctls_state f = true -> ctls_state f' = true) /\
  (arity_ok f = true -> arity_ok f' = true) /\
  size f' <= size f.

Definition lsize (fs : list form) : nat := fold_right (fun g m => size g + m) 0 fs.

Lemma shp_list cs cs' : Forall2 shp cs cs' ->
  forallb ltl_path cs' = true /\
  (forallb ctls_state cs = true -> forallb ctls_state cs' = true) /\
  (forallb arity_ok cs = true -> forallb arity_ok cs' = true) /\
  List.length cs' = List.length cs /\
  lsize cs' <= lsize cs.
Proof.
  induction 1 as [|a a' l l' (H1 & H2 & H3 & H4) Hl (I1 & I2 & I3 & I4 & I5)];
    cbn [forallb List.length lsize fold_right].
  - repeat split; auto.
  - fold (lsize l). fold (lsize l').
    rewrite H1, I1, !andb_true_iff. repeat split; try tauto; try lia.
Qed.

Lemma build_shp o cs cs' : is_leaf_op o = false -> is_quant_op o = false ->
  Forall2 shp cs cs' -> shp (build o cs) (build o cs').
Proof.
  intros Hl Hq H.
  assert (Hb : shp (FBool false) (FBool false)) by (unfold shp; cbn; repeat split; auto).
  destruct o as [ob|oa| | | | | | | | | | | ]; try discriminate Hl; try discriminate Hq; cbn [build].
  - destruct H as [|a a' l1 l1' (H1 & H2 & H3 & H4) [|b b' l2 l2' Hb' Hr]]; try exact Hb.
    unfold shp. cbn [ltl_path ctls_state arity_ok size]. repeat split; auto. lia.
  - destruct (shp_list cs cs' H) as (I1 & I2 & I3 & I4 & I5).
    unfold shp. cbn [ltl_path ctls_state arity_ok size]. fold (lsize cs). fold (lsize cs').
    rewrite I4, !andb_true_iff. repeat split; try tauto; lia.
  - destruct (shp_list cs cs' H) as (I1 & I2 & I3 & I4 & I5).
    unfold shp. cbn [ltl_path ctls_state arity_ok size]. fold (lsize cs). fold (lsize cs').
    rewrite I4, !andb_true_iff. repeat split; try tauto; lia.
  - destruct H as [|a a' l1 l1' (H1 & H2 & H3 & H4) [|b b' l2 l2' (G1 & G2 & G3 & G4) [|c c' l3 l3' Hc Hr]]];
      try exact Hb.
    unfold shp. cbn [ltl_path ctls_state arity_ok size]. rewrite H1, G1, !andb_true_iff.
    repeat split; try tauto; lia.
  - destruct H as [|a a' l1 l1' (H1 & H2 & H3 & H4) [|b b' l2 l2' Hb' Hr]]; try exact Hb.
    unfold shp. cbn [ltl_path ctls_state arity_ok size]. repeat split; auto; try discriminate. lia.
  - destruct H as [|a a' l1 l1' (H1 & H2 & H3 & H4) [|b b' l2 l2' Hb' Hr]]; try exact Hb.
    unfold shp. cbn [ltl_path ctls_state arity_ok size]. repeat split; auto; try discriminate. lia.
  - destruct H as [|a a' l1 l1' (H1 & H2 & H3 & H4) [|b b' l2 l2' Hb' Hr]]; try exact Hb.
    unfold shp. cbn [ltl_path ctls_state arity_ok size]. repeat split; auto; try discriminate. lia.
  - destruct H as [|a a' l1 l1' (H1 & H2 & H3 & H4) [|b b' l2 l2' (G1 & G2 & G3 & G4) [|c c' l3 l3' Hc Hr]]];
      try exact Hb.
    unfold shp. cbn [ltl_path ctls_state arity_ok size]. rewrite H1, G1, !andb_true_iff.
    repeat split; try tauto; try discriminate; lia.
  - destruct H as [|a a' l1 l1' (H1 & H2 & H3 & H4) [|b b' l2 l2' (G1 & G2 & G3 & G4) [|c c' l3 l3' Hc Hr]]];
      try exact Hb.
    unfold shp. cbn [ltl_path ctls_state arity_ok size]. rewrite H1, G1, !andb_true_iff.
    repeat split; try tauto; try discriminate; lia.
Qed.

Ltac bf_un cs :=
  let x := fresh "x" in let y := fresh "y" in let r := fresh "r" in let H := fresh "H" in
  destruct cs as [|x [|y r]]; cbn [fatoms]; intros H; try (destruct H; fail);
  exists x; split; [left; reflexivity|exact H].
Ltac bf_bin cs :=
  let x := fresh "x" in let y := fresh "y" in let z := fresh "z" in let r := fresh "r" in
  let H := fresh "H" in
  destruct cs as [|x [|y [|z r]]]; cbn [fatoms]; intros H; try (destruct H; fail);
  apply in_app_iff in H; destruct H as [H|H];
  [exists x; split; [left; reflexivity|exact H] | exists y; split; [right; left; reflexivity|exact H]].

Lemma build_fatoms o cs b : is_leaf_op o = false -> In b (fatoms (build o cs)) ->
  exists c, In c cs /\ In b (fatoms c).
Proof.
  intros Hl. destruct o as [ob|oa| | | | | | | | | | | ]; try discriminate Hl; cbn [build].
  - bf_un cs.
  - cbn [fatoms]; intros H; apply in_flat_map in H; exact H.
  - cbn [fatoms]; intros H; apply in_flat_map in H; exact H.
  - bf_bin cs.
  - bf_un cs.
  - bf_un cs.
  - bf_un cs.
  - bf_bin cs.
  - bf_bin cs.
  - bf_un cs.
  - bf_un cs.
Qed.

Lemma size_pos f : 1 <= size f.
Proof. destruct f; cbn [size]; lia. Qed.

Lemma LNot_size f : size (LNot f) <= S (size f).
Proof.
  apply (LNot_elim (fun f r => size r <= S (size f))).
  - intros g _. cbn [size]. lia.
  - intros g _. cbn [size]. lia.
  - intros g r H. cbn [size]. lia.
Qed.

Lemma LNot_ident_atoms f : ident_atoms (LNot f) = ident_atoms f.
Proof. apply LNot_pres. reflexivity. Qed.

Lemma LNot_fatoms f : fatoms (LNot f) = fatoms f.
Proof.
  apply (LNot_elim (fun f r => fatoms r = fatoms f)).
  - intros g _. reflexivity.
  - intros g _. reflexivity.
  - intros g r H. exact H.
Qed.

(* a quantifier-free state formula is a CTL state formula *)
Lemma qfree_state_ctl f : ltl_path f = true -> ctls_state f = true -> ctl_state f = true.
Proof.
  induction f as [b|a|g IH|fs IH|fs IH|g h IHg IHh|g IH|g IH|g IH|g h IHg IHh|g h IHg IHh|g IH|g IH]
    using RewriteP.form_ind'; cbn [ltl_path ctls_state ctl_state]; intros H1 H2;
    try reflexivity; try discriminate; auto.
  - rewrite forallb_forall in *. rewrite Forall_forall in IH. intros g Hg. auto.
  - rewrite forallb_forall in *. rewrite Forall_forall in IH. intros g Hg. auto.
  - apply andb_true_iff in H1, H2. destruct H1, H2. rewrite IHg, IHh; auto.
Qed.

(* ================================================================== *)
(** * Part C — unfolding the fuelled functions                          *)
(* ================================================================== *)
Definition elim_list (n : nat) (L : lang) :=
  fix go (K : kripke) (fs : list form) : result (kripke * list form) :=
    match fs with
    | [] => Ok (K, [])
    | g :: r => rbind (elim n L K g) (fun '(K1, g') =>
                rbind (go K1 r) (fun '(K2, r') => Ok (K2, g' :: r')))
    end.

Lemma elim_list_nil n L K : elim_list n L K [] = Ok (K, []).
Proof. reflexivity. Qed.

Lemma elim_list_cons n L K g r :
  elim_list n L K (g :: r) =
  rbind (elim n L K g) (fun '(K1, g') =>
  rbind (elim_list n L K1 r) (fun '(K2, r') => Ok (K2, g' :: r'))).
Proof. reflexivity. Qed.

Lemma elim_S n L K f : elim (S n) L K f =
  match f with
  | FBool _ | FAtom _ => Ok (K, f)
  | FA _ | FE _ =>
      rbind (check_quantified n L K f)
            (fun '(K1, Sat) => Ok (add_label K1 Sat (fresh_name L K f), FAtom (fresh_name L K f)))
  | _ => rbind (elim_list n L K (children f)) (fun '(K1, gs) => Ok (K1, build (root_op f) gs))
  end.
Proof. destruct f; reflexivity. Qed.

Lemma elim_S_other n L K f : is_atomic f = false -> is_quantified f = false ->
  elim (S n) L K f =
  rbind (elim_list n L K (children f)) (fun '(K1, gs) => Ok (K1, build (root_op f) gs)).
Proof. intros H1 H2. rewrite elim_S. destruct f; try discriminate; reflexivity. Qed.

Lemma cq_S_A n L K g : check_quantified (S n) L K (FA g) =
  rbind (elim n L K g) (fun '(K1, g') =>
    if ctl_state (FA g') then rmap (fun Sat => (K1, Sat)) (ctl_modelcheck K1 (FA g'))
    else rmap (fun Sat => (K1, Sat)) (ltl_modelcheck K1 (FA g'))).
Proof. reflexivity. Qed.

Lemma cq_S_E n L K g : check_quantified (S n) L K (FE g) =
  rbind (elim n L K g) (fun '(K1, g') =>
    if ctl_state (FE g') then rmap (fun Sat => (K1, Sat)) (ctl_modelcheck K1 (FE g'))
    else rbind (elim n L K1 (LNot (FA (LNot g')))) (fun '(K2, h) =>
           rmap (fun Sat => (K2, Sat)) (ctl_modelcheck K2 h))).
Proof. reflexivity. Qed.

Lemma children_size f g : In g (children f) -> size g < size f.
Proof.
  destruct f; cbn [children size]; intros H;
    try (destruct H; fail);
    try (destruct H as [<-|[]]; lia);
    try (destruct H as [<-|[<-|[]]]; lia).
  - induction fs as [|a fs IH]; [destruct H|]. cbn [fold_right].
    destruct H as [<-|H]; [lia|]. specialize (IH H). lia.
  - induction fs as [|a fs IH]; [destruct H|]. cbn [fold_right].
    destruct H as [<-|H]; [lia|]. specialize (IH H). lia.
Qed.

Lemma children_qfree f g : ltl_path f = true -> In g (children f) -> ltl_path g = true.
Proof.
  destruct f; cbn [children ltl_path]; intros Hq H;
    try (destruct H; fail); try discriminate;
    try (destruct H as [<-|[]]; exact Hq);
    try (apply andb_true_iff in Hq; destruct Hq as [Hq1 Hq2]; destruct H as [<-|[<-|[]]]; assumption).
  - rewrite forallb_forall in Hq. apply Hq. exact H.
  - rewrite forallb_forall in Hq. apply Hq. exact H.
Qed.

Lemma children_clean f g : clean f -> In g (children f) -> clean g.
Proof.
  unfold clean. destruct f; cbn [children ident_atoms arity_ok]; intros [Hi Ha] H;
    try (destruct H; fail);
    try (destruct H as [<-|[]]; split; assumption);
    try (apply andb_true_iff in Hi; apply andb_true_iff in Ha; destruct Hi, Ha;
         destruct H as [<-|[<-|[]]]; split; assumption).
  - apply andb_true_iff in Ha. destruct Ha as [_ Ha]. rewrite forallb_forall in Hi, Ha. auto.
  - apply andb_true_iff in Ha. destruct Ha as [_ Ha]. rewrite forallb_forall in Hi, Ha. auto.
Qed.

Lemma elim_list_same n L fs : forall K,
  (forall K g, In g fs -> elim n L K g = Ok (K, g)) -> elim_list n L K fs = Ok (K, fs).
Proof.
  induction fs as [|g r IH]; intros K H; [reflexivity|].
  rewrite elim_list_cons. rewrite (H K g (or_introl eq_refl)). cbn [rbind].
  rewrite IH; [reflexivity|]. intros K' g' Hg'. apply H. right. exact Hg'.
Qed.

(* a quantifier-free formula is left alone *)
Lemma elim_qfree L : forall n K h, ltl_path h = true -> size h <= n -> elim n L K h = Ok (K, h).
Proof.
  induction n as [|n IH]; intros K h Hq Hs.
  - pose proof (size_pos h). lia.
  - destruct (is_atomic h) eqn:Ea.
    + rewrite elim_S. destruct h; try discriminate Ea; reflexivity.
    + assert (Eq : is_quantified h = false) by (destruct h; try reflexivity; discriminate Hq).
      rewrite (elim_S_other n L K h Ea Eq).
      rewrite elim_list_same.
      * cbn [rbind]. rewrite build_children. reflexivity.
      * intros K' g Hg. apply IH; [apply (children_qfree h g Hq Hg)|].
        pose proof (children_size h g Hg). lia.
Qed.

Lemma LNot_FA x : LNot (FA x) = FNot (FA x).
Proof. reflexivity. Qed.

(* the derived formula  not A x  (x quantifier-free) *)
Lemma elim_derived n K x : ltl_path x = true -> size x <= n ->
  elim (S (S (S n))) CTLS K (FNot (FA x)) =
  rbind (if ctl_state (FA x) then ctl_modelcheck K (FA x) else ltl_modelcheck K (FA x))
        (fun Sat => Ok (add_label K Sat (fresh_name CTLS K (FA x)),
                        FNot (FAtom (fresh_name CTLS K (FA x))))).
Proof.
  intros Hq Hs. rewrite elim_S. cbn [children root_op]. rewrite elim_list_cons.
  rewrite elim_S, cq_S_A. rewrite (elim_qfree CTLS n K x Hq Hs). cbn [rbind].
  destruct (ctl_state (FA x)).
  - destruct (ctl_modelcheck K (FA x)); reflexivity.
  - destruct (ltl_modelcheck K (FA x)); reflexivity.
Qed.

(* ================================================================== *)
(** * Part D — the invariant and the elimination                        *)
(* ================================================================== *)
Lemma forallb_false_ex {A} (q : A -> bool) l : forallb q l = false -> exists x, In x l /\ q x = false.
Proof.
  induction l as [|x l IH]; cbn [forallb]; intros H; [discriminate|].
  destruct (q x) eqn:E.
  - destruct (IH H) as [y [Hy Hq]]. exists y. split; [right; exact Hy|exact Hq].
  - exists x. split; [left; reflexivity|exact E].
Qed.

Lemma ident_atoms_false f : ident_atoms f = false -> exists a, In a (fatoms f) /\ good_id a = false.
Proof.
  intros H. apply forallb_false_ex.
  destruct (forallb good_id (fatoms f)) eqn:E; [|reflexivity].
  rewrite forallb_forall in E. apply ident_atoms_spec in E. congruence.
Qed.

Lemma states_kg K K' : kg K' = kg K -> states K' = states K.
Proof. unfold states. intros ->. reflexivity. Qed.

Lemma wf_K_wf_kripke K : wf_K K -> wf_kripke K.
Proof. intros [H _]. exact H. Qed.

Lemma unlab_all K a : wf_K K -> ~ In a (all_labels K) -> forall s, ~ labelled K s a.
Proof.
  intros Hwf Hn s Hl. destruct (in_dec Nat.eq_dec s (states K)) as [Hs|Hs].
  - apply Hn. apply all_labels_labelled; [exact Hwf| |exists s; auto].
    destruct Hwf as [[[Hnd _] _] _]. exact Hnd.
  - unfold labelled in Hl. rewrite (wf_K_labels_notin K s Hwf Hs) in Hl. destruct Hl.
Qed.

Lemma holds_in_states K s f : wf_K K -> holds K s f -> In s (states K).
Proof.
  intros [[Hg _] _] [p [Hp [E _]]]. subst s. apply (CTLP.path_states K p Hg Hp 0).
Qed.

Lemma holds_FA_peq K1 K s g' g : kg K1 = kg K -> peq K1 K g' g ->
  (holds K1 s (FA g') <-> holds K s (FA g)).
Proof.
  intros Hkg Hpe. rewrite !holds_FA. split; intros [[p [Hp E]] H].
  - apply (is_path_kg K K1 p Hkg) in Hp. split; [exists p; auto|].
    intros q Hq E'. apply (Hpe q Hq). apply H; [apply (is_path_kg K K1 q Hkg); exact Hq|exact E'].
  - split; [exists p; split; [apply (is_path_kg K K1 p Hkg); exact Hp|exact E]|].
    intros q Hq E'. apply (is_path_kg K K1 q Hkg) in Hq. apply (Hpe q Hq). apply H; auto.
Qed.

Lemma holds_FE_peq K1 K s g' g : kg K1 = kg K -> peq K1 K g' g ->
  (holds K1 s (FE g') <-> holds K s (FE g)).
Proof.
  intros Hkg Hpe. rewrite !holds_FE. split; intros [p [Hp [E H]]]; exists p.
  - apply (is_path_kg K K1 p Hkg) in Hp. split; [exact Hp|]. split; [exact E|]. apply (Hpe p Hp). exact H.
  - split; [apply (is_path_kg K K1 p Hkg); exact Hp|]. split; [exact E|]. apply (Hpe p Hp). exact H.
Qed.

Lemma holds_peq K1 K s f' f : kg K1 = kg K -> peq K1 K f' f -> (holds K1 s f' <-> holds K s f).
Proof.
  intros Hkg Hpe. unfold holds. split; intros [p [Hp [E H]]]; exists p.
  - apply (is_path_kg K K1 p Hkg) in Hp. split; [exact Hp|]. split; [exact E|]. apply (Hpe p Hp). exact H.
  - split; [apply (is_path_kg K K1 p Hkg); exact Hp|]. split; [exact E|]. apply (Hpe p Hp). exact H.
Qed.

Section CTLS.
  Hypothesis C01 : C01_stmt.
  Hypothesis C02 : C02_stmt.
  Hypothesis print_std_inj : forall f g, ident_atoms f = true -> ident_atoms g = true ->
    arity_ok f = true -> arity_ok g = true -> print_std f = print_std g -> f = g.

  (* A x for quantifier-free x: CTL checker when castable, LTL checker otherwise *)
  Lemma check_A K x : wf_kripke K -> ltl_path x = true ->
    exists Sat, (if ctl_state (FA x) then ctl_modelcheck K (FA x) else ltl_modelcheck K (FA x)) = Ok Sat /\
                forall s, In s Sat <-> In s (states K) /\ holds K s (FA x).
  Proof.
    intros Hwf Hq. destruct (ctl_state (FA x)) eqn:E.
    - destruct (C01 K (FA x) Hwf E) as [Sat [H1 [_ H2]]]. exists Sat. split; [exact H1|exact H2].
    - destruct (C02 K x Hwf Hq) as [Sat [H1 H2]]. exists Sat. split; [exact H1|].
      intros s. rewrite H2, holds_FA. split.
      + intros [Hs H]. split; [exact Hs|]. split; [|exact H].
        apply CTLP.exists_path; assumption.
      + intros [Hs [_ H]]. split; assumption.
  Qed.

  Section Fix.
    Variable K0 : kripke.
    Hypothesis wfK0 : wf_K K0.

    Definition den (phi : form) (s : nat) : Prop := In s (states K0) /\ holds K0 s phi.

    Definition Inv (K : kripke) (env : list (atom * form)) : Prop :=
      wf_K K /\ kg K = kg K0 /\
      (forall a phi, In (a, phi) env ->
         cname a phi /\ (forall s, ~ labelled K0 s a) /\ forall s, labelled K s a <-> den phi s) /\
      (forall b, (forall phi, ~ In (b, phi) env) -> ~ jname b ->
         forall s, labelled K s b <-> labelled K0 s b).

    Definition good_atom (env : list (atom * form)) (b : atom) : Prop :=
      good_id b = true \/ exists phi, In (b, phi) env.

    Lemma Inv_init : Inv K0 [].
    Proof.
      split; [exact wfK0|]. split; [reflexivity|]. split.
      - intros a phi [].
      - intros b _ _ s. reflexivity.
    Qed.

    Lemma env_dec (env : list (atom * form)) a :
      (exists phi, In (a, phi) env) \/ (forall phi, ~ In (a, phi) env).
    Proof.
      destruct (in_dec string_dec a (map fst env)) as [H|H].
      - left. apply in_map_iff in H. destruct H as [[b phi] [E H]]. simpl in E. subst b.
        exists phi. exact H.
      - right. intros phi Hin. apply H. apply in_map_iff. exists (a, phi). auto.
    Qed.

    Lemma good_atom_mono env env' b : incl env env' -> good_atom env b -> good_atom env' b.
    Proof. intros Hi [H|[phi H]]; [left; exact H|right; exists phi; apply Hi; exact H]. Qed.

    Lemma good_stable K1 env1 K2 env2 b : Inv K1 env1 -> Inv K2 env2 -> incl env1 env2 ->
      good_atom env1 b -> forall s, labelled K1 s b <-> labelled K2 s b.
    Proof.
      intros (_ & _ & He1 & Ho1) (_ & _ & He2 & Ho2) Hi [Hg|[phi Hin]] s.
      - rewrite (Ho1 b), (Ho2 b); [reflexivity| | | |];
          try (apply good_id_not_jname; exact Hg).
        + intros phi Hin. destruct (He2 b phi Hin) as [Hc _].
          pose proof (cname_not_ident b phi Hc). congruence.
        + intros phi Hin. destruct (He1 b phi Hin) as [Hc _].
          pose proof (cname_not_ident b phi Hc). congruence.
      - destruct (He1 b phi Hin) as (_ & _ & H1). destruct (He2 b phi (Hi _ Hin)) as (_ & _ & H2).
        rewrite H1, H2. reflexivity.
    Qed.

    Lemma sat_stable K1 env1 K2 env2 f : Inv K1 env1 -> Inv K2 env2 -> incl env1 env2 ->
      (forall b, In b (fatoms f) -> good_atom env1 b) ->
      forall p, sat K2 p f <-> sat K1 p f.
    Proof.
      intros I1 I2 Hi Hg. apply sat_agree.
      - destruct I1 as (_ & E1 & _). destruct I2 as (_ & E2 & _). rewrite E1, E2. tauto.
      - intros s a Ha. symmetry. apply (good_stable K1 env1 K2 env2 a I1 I2 Hi (Hg a Ha)).
    Qed.

    Lemma peq_stable K1 env1 K2 env2 f' f : Inv K1 env1 -> Inv K2 env2 -> incl env1 env2 ->
      (forall b, In b (fatoms f') -> good_atom env1 b) ->
      peq K1 K0 f' f -> peq K2 K0 f' f.
    Proof.
      intros I1 I2 Hi Hg Hp p Hpath.
      rewrite (sat_stable K1 env1 K2 env2 f' I1 I2 Hi Hg p). apply Hp. exact Hpath.
    Qed.

    Lemma add_label_inv K env a phi X : Inv K env -> cname a phi ->
      (forall s, ~ labelled K0 s a) -> (forall s, In s X <-> den phi s) ->
      Inv (add_label K X a) ((a, phi) :: env).
    Proof.
      intros (Hwf & Hkg & He & Ho) Hc Hun HX.
      destruct (add_label_spec K X a Hwf) as (Hwf' & Hkg' & _ & Hlab).
      assert (Hold : forall s, labelled K s a -> den phi s).
      { intros s Hl. destruct (env_dec env a) as [[psi Hin]|Hno].
        - destruct (He a psi Hin) as (Hc' & _ & H).
          rewrite (cname_inj print_std_inj a phi psi Hc Hc'). apply H. exact Hl.
        - exfalso. apply (Hun s). apply (Ho a Hno (cname_not_jname a phi Hc) s). exact Hl. }
      assert (Hkey : forall s, labelled (add_label K X a) s a <-> den phi s).
      { intros s. rewrite Hlab. split.
        - intros [Hl|(_ & Hs & _)]; [apply Hold; exact Hl|apply HX; exact Hs].
        - intros Hd. right. split; [reflexivity|]. split; [apply HX; exact Hd|].
          rewrite (states_kg K0 K Hkg). destruct Hd as [Hd _]. exact Hd. }
      split; [exact Hwf'|]. split; [rewrite Hkg'; exact Hkg|]. split.
      - intros b psi [E|Hin].
        + injection E as <- <-. split; [exact Hc|]. split; [exact Hun|exact Hkey].
        + destruct (He b psi Hin) as (Hc' & Hun' & H). split; [exact Hc'|]. split; [exact Hun'|].
          intros s. destruct (string_dec b a) as [->|Hne].
          * rewrite (cname_inj print_std_inj a psi phi Hc' Hc). apply Hkey.
          * rewrite Hlab, H. split; [|tauto]. intros [Hd|[E _]]; [exact Hd|congruence].
      - intros b Hno Hj s.
        assert (Hne : b <> a).
        { intros ->. apply (Hno phi). left. reflexivity. }
        rewrite Hlab. rewrite <- (Ho b); [|intros psi Hin; apply (Hno psi); right; exact Hin|exact Hj].
        split; [|tauto]. intros [Hd|[E _]]; [exact Hd|congruence].
    Qed.

    Lemma add_label_junk K env a X : Inv K env -> jname a -> Inv (add_label K X a) env.
    Proof.
      intros (Hwf & Hkg & He & Ho) Hj.
      destruct (add_label_spec K X a Hwf) as (Hwf' & Hkg' & _ & Hlab).
      split; [exact Hwf'|]. split; [rewrite Hkg'; exact Hkg|]. split.
      - intros b psi Hin. destruct (He b psi Hin) as (Hc' & Hun' & H).
        split; [exact Hc'|]. split; [exact Hun'|]. intros s.
        rewrite Hlab, H. split; [|tauto]. intros [Hd|[E _]]; [exact Hd|].
        subst b. exfalso. apply (cname_not_jname a psi Hc' Hj).
      - intros b Hno Hnj s. rewrite Hlab, <- (Ho b Hno Hnj s).
        split; [|tauto]. intros [Hd|[E _]]; [exact Hd|]. subst b. exfalso. exact (Hnj Hj).
    Qed.

    Lemma fresh_unlab K env a phi : Inv K env -> cname a phi -> ~ In a (all_labels K) ->
      forall s, ~ labelled K0 s a.
    Proof.
      intros (Hwf & Hkg & He & Ho) Hc Hn s.
      destruct (env_dec env a) as [[psi Hin]|Hno].
      - destruct (He a psi Hin) as (_ & Hun & _). apply Hun.
      - intros Hl. apply (unlab_all K a Hwf Hn s).
        apply (Ho a Hno (cname_not_jname a phi Hc) s). exact Hl.
    Qed.

    (* the meaning of a label standing for a state formula *)
    Lemma atom_peq K env a phi : Inv K env -> In (a, phi) env -> ctls_state phi = true ->
      peq K K0 (FAtom a) phi.
    Proof.
      intros (Hwf & Hkg & He & Ho) Hin Hs p Hp. cbn [sat].
      destruct (He a phi Hin) as (_ & _ & H). rewrite H. unfold den.
      rewrite (holds_state K0 phi p Hs Hp). split; [tauto|]. intros Hsat. split; [|exact Hsat].
      destruct wfK0 as [[Hg _] _]. apply (CTLP.path_states K0 p Hg Hp 0).
    Qed.

    (* ---- the satisfaction set of a quantified formula whose body is already rewritten ---- *)
    Lemma cq_A K1 env1 g' g : Inv K1 env1 -> peq K1 K0 g' g -> ltl_path g' = true ->
      exists Sat,
        (if ctl_state (FA g') then rmap (fun Sat => (K1, Sat)) (ctl_modelcheck K1 (FA g'))
         else rmap (fun Sat => (K1, Sat)) (ltl_modelcheck K1 (FA g'))) = Ok (K1, Sat) /\
        forall s, In s Sat <-> den (FA g) s.
    Proof.
      intros (Hwf & Hkg & _) Hpe Hq.
      destruct (check_A K1 g' (wf_K_wf_kripke K1 Hwf) Hq) as [Sat [H1 H2]].
      exists Sat. split.
      - destruct (ctl_state (FA g')); rewrite H1; reflexivity.
      - intros s. rewrite H2. unfold den. rewrite (states_kg K0 K1 Hkg).
        rewrite (holds_FA_peq K1 K0 s g' g Hkg Hpe). reflexivity.
    Qed.

    Lemma cq_E n K1 env1 g' g : Inv K1 env1 -> peq K1 K0 g' g -> ltl_path g' = true ->
      arity_ok g' = true -> (forall b, In b (fatoms g') -> good_atom env1 b) ->
      size g' + 4 <= n ->
      exists K2 Sat env2,
        (if ctl_state (FE g') then rmap (fun Sat => (K1, Sat)) (ctl_modelcheck K1 (FE g'))
         else rbind (elim n CTLS K1 (LNot (FA (LNot g')))) (fun '(K2, h) =>
                rmap (fun Sat => (K2, Sat)) (ctl_modelcheck K2 h))) = Ok (K2, Sat) /\
        Inv K2 env2 /\ incl env1 env2 /\ forall s, In s Sat <-> den (FE g) s.
    Proof.
      intros HI Hpe Hq Har Hgood Hn.
      pose proof HI as (Hwf & Hkg & He & Ho).
      destruct (ctl_state (FE g')) eqn:Ectl.
      - (* CTL-castable *)
        destruct (C01 K1 (FE g') (wf_K_wf_kripke K1 Hwf) Ectl) as [Sat [H1 [_ H2]]].
        exists K1, Sat, env1. split; [rewrite H1; reflexivity|]. split; [exact HI|].
        split; [apply incl_refl|].
        intros s. rewrite H2. unfold den. rewrite (states_kg K0 K1 Hkg).
        rewrite (holds_FE_peq K1 K0 s g' g Hkg Hpe). reflexivity.
      - (* E g' ~> not A (LNot g') *)
        set (x := LNot g').
        assert (Hqx : ltl_path x = true) by (unfold x; rewrite LNot_ltl_path_eq; exact Hq).
        assert (Hsx : size x <= S (size g')) by (apply LNot_size).
        destruct n as [|[|[|n]]]; try lia.
        rewrite LNot_FA. rewrite (elim_derived n K1 x Hqx) by lia.
        destruct (check_A K1 x (wf_K_wf_kripke K1 Hwf) Hqx) as [Sat2 [H1 H2]].
        rewrite H1. cbn [rbind].
        set (a2 := fresh_name CTLS K1 (FA x)).
        set (K2 := add_label K1 Sat2 a2).
        destruct (add_label_spec K1 Sat2 a2 Hwf) as (Hwf2 & Hkg2 & _ & Hlab2). fold K2 in Hwf2, Hkg2, Hlab2.
        assert (Hfr : forall s, ~ labelled K1 s a2).
        { apply unlab_all; [exact Hwf|]. apply fresh_name_fresh. }
        (* the final CTL check of  not a2 *)
        destruct (C01 K2 (FNot (FAtom a2)) (wf_K_wf_kripke K2 Hwf2) eq_refl) as [Sat [H3 [_ H4]]].
        assert (HSat : forall s, In s Sat <-> den (FE g) s).
        { intros s. rewrite H4. unfold den. rewrite (states_kg K1 K2 Hkg2), (states_kg K0 K1 Hkg).
          rewrite <- (holds_FE_peq K1 K0 s g' g Hkg Hpe).
          split; intros [Hs Hh]; (split; [exact Hs|]).
          - (* not labelled a2 at s, hence not all paths satisfy x *)
            destruct Hh as [p [Hp [E Hnl]]]. cbn [sat] in Hnl. rewrite E in Hnl.
            apply NNPP. intros Hne. apply Hnl. apply Hlab2. right. split; [reflexivity|].
            rewrite (states_kg K0 K1 Hkg). split; [|exact Hs].
            apply H2. rewrite (states_kg K0 K1 Hkg). split; [exact Hs|].
            apply holds_FA. apply (is_path_kg K1 K2 p Hkg2) in Hp. split; [exists p; auto|].
            intros q Hq' E'. unfold x. apply LNot_sat. intros Hsat. apply Hne.
            apply holds_FE. exists q. auto.
          - rewrite holds_FE in Hh. destruct Hh as [p [Hp [E Hsat]]].
            exists p. split; [apply (is_path_kg K1 K2 p Hkg2); exact Hp|]. split; [exact E|].
            cbn [sat]. rewrite E. intros Hl. apply Hlab2 in Hl. destruct Hl as [Hl|(_ & Hl & _)].
            + exact (Hfr s Hl).
            + apply H2 in Hl. destruct Hl as [_ Hl]. apply holds_FA in Hl. destruct Hl as [_ Hl].
              specialize (Hl p Hp E). unfold x in Hl. apply LNot_sat in Hl. exact (Hl Hsat). }
        destruct (ident_atoms g') eqn:Eid.
        + (* the derived formula is an identifier-atom formula: its name is meaningful *)
          assert (Hcl : clean (FA x)).
          { split; cbn [ident_atoms arity_ok]; unfold x.
            - rewrite LNot_ident_atoms. exact Eid.
            - rewrite LNot_arity_ok. exact Har. }
          assert (Hcn : cname a2 (FA x)) by (apply fresh_cname; [exact Hcl|reflexivity]).
          exists K2, Sat, ((a2, FA x) :: env1).
          split; [rewrite H3; reflexivity|]. split; [|split; [apply incl_tl; apply incl_refl|exact HSat]].
          apply add_label_inv; [exact HI|exact Hcn| |].
          * apply (fresh_unlab K1 env1 a2 (FA x) HI Hcn). apply fresh_name_fresh.
          * intros s. rewrite H2. unfold den. rewrite (states_kg K0 K1 Hkg).
            assert (Hst : peq K1 K0 (FA x) (FA x)).
            { intros p Hp. apply (sat_stable K0 [] K1 env1 (FA x) Inv_init HI (incl_nil_l _)).
              intros b Hb. left. destruct Hcl as [Hcl _].
              apply (proj1 (ident_atoms_spec (FA x)) Hcl b Hb). }
            rewrite (holds_peq K1 K0 s (FA x) (FA x) Hkg Hst). reflexivity.
        + (* the derived formula mentions a generated name: junk-shaped name *)
          exists K2, Sat, env1.
          split; [rewrite H3; reflexivity|]. split; [|split; [apply incl_refl|exact HSat]].
          apply add_label_junk; [exact HI|]. apply fresh_jname.
          destruct (ident_atoms_false g' Eid) as [b [Hb Hgb]].
          destruct (Hgood b Hb) as [Hg|[phi Hin]]; [congruence|].
          destruct (He b phi Hin) as (Hcb & _).
          assert (Hlb : 1 <= lb b) by (destruct (cname_lb b phi Hcb) as [E|[E _]]; lia).
          unfold lb at 1. rewrite cnt_print by (left; reflexivity).
          assert (Hbx : In b (fatoms x)) by (unfold x; rewrite LNot_fatoms; exact Hb).
          pose proof (acnt_ge lbc x b Hbx). unfold lb in Hlb. lia.
    Qed.

    Lemma clean_peq K env f : Inv K env -> ident_atoms f = true -> peq K K0 f f.
    Proof.
      intros HI Hid p Hp. apply (sat_stable K0 [] K env f Inv_init HI (incl_nil_l _)).
      intros b Hb. left. apply (proj1 (ident_atoms_spec f) Hid b Hb).
    Qed.

    (* ---- specification of [elim] ---- *)
    Definition espec (n : nat) : Prop :=
      forall K env f, Inv K env -> clean f -> 2 * size f + 4 <= n ->
      exists K2 f' env2, elim n CTLS K f = Ok (K2, f') /\ Inv K2 env2 /\ incl env env2 /\
        peq K2 K0 f' f /\ shp f f' /\ (forall b, In b (fatoms f') -> good_atom env2 b).

    Lemma elim_list_spec n : espec n -> forall fs K env, Inv K env ->
      (forall g, In g fs -> clean g /\ 2 * size g + 4 <= n) ->
      exists K2 fs' env2, elim_list n CTLS K fs = Ok (K2, fs') /\ Inv K2 env2 /\ incl env env2 /\
        Forall2 (peq K2 K0) fs' fs /\ Forall2 shp fs fs' /\
        (forall g' b, In g' fs' -> In b (fatoms g') -> good_atom env2 b).
    Proof.
      intros Hspec. induction fs as [|g r IH]; intros K env HI Hfs.
      - exists K, [], env. split; [reflexivity|]. split; [exact HI|]. split; [apply incl_refl|].
        split; [constructor|]. split; [constructor|]. intros g' b [].
      - destruct (Hfs g (or_introl eq_refl)) as [Hcg Hng].
        destruct (Hspec K env g HI Hcg Hng) as (K1 & g' & env1 & He1 & HI1 & Hi1 & Hp1 & Hs1 & Ha1).
        destruct (IH K1 env1 HI1 (fun h Hh => Hfs h (or_intror Hh)))
          as (K2 & r' & env2 & He2 & HI2 & Hi2 & Hp2 & Hs2 & Ha2).
        exists K2, (g' :: r'), env2. split.
        { rewrite elim_list_cons, He1. cbn [rbind]. rewrite He2. reflexivity. }
        split; [exact HI2|]. split; [eapply incl_tran; eassumption|].
        split; [constructor; [|exact Hp2]|].
        { apply (peq_stable K1 env1 K2 env2 g' g HI1 HI2 Hi2 Ha1 Hp1). }
        split; [constructor; assumption|].
        intros h b [<-|Hh] Hb.
        + apply (good_atom_mono env1 env2 b Hi2). apply Ha1. exact Hb.
        + apply (Ha2 h b Hh Hb).
    Qed.

    Lemma shp_atomic f : is_atomic f = true -> shp f f.
    Proof. destruct f; try discriminate; intros _; unfold shp; cbn; repeat split; auto. Qed.

    Lemma elim_ok : forall n, espec n.
    Proof.
      induction n as [n IH] using lt_wf_ind. intros K env f HI Hcl Hn.
      destruct n as [|n]; [lia|].
      destruct (is_atomic f) eqn:Ea.
      - (* leaves *)
        exists K, f, env. split; [rewrite elim_S; destruct f; try discriminate Ea; reflexivity|].
        split; [exact HI|]. split; [apply incl_refl|].
        split; [apply (clean_peq K env f HI); destruct Hcl; assumption|].
        split; [apply shp_atomic; exact Ea|].
        intros b Hb. left. destruct Hcl as [Hid _]. apply (proj1 (ident_atoms_spec f) Hid b Hb).
      - destruct (is_quantified f) eqn:Eq.
        + (* quantified subformula *)
          destruct n as [|m]; [pose proof (size_pos f); lia|].
          destruct f as [ | | | | | | | | | | |g|g]; try discriminate Eq.
          * (* A g *)
            assert (Hcg : clean g) by (apply (children_clean (FA g) g Hcl); left; reflexivity).
            cbn [size] in Hn.
            destruct (IH m (ltac:(lia)) K env g HI Hcg ltac:(lia))
              as (K1 & g' & env1 & He1 & HI1 & Hi1 & Hp1 & (Hq1 & _ & _ & _) & Ha1).
            destruct (cq_A K1 env1 g' g HI1 Hp1 Hq1) as (Sat & Hck & HSat).
            set (a := fresh_name CTLS K (FA g)).
            assert (Hcn : cname a (FA g)) by (apply fresh_cname; [exact Hcl|reflexivity]).
            assert (HI2 : Inv (add_label K1 Sat a) ((a, FA g) :: env1)).
            { apply add_label_inv; [exact HI1|exact Hcn| |exact HSat].
              apply (fresh_unlab K env a (FA g) HI Hcn). apply fresh_name_fresh. }
            exists (add_label K1 Sat a), (FAtom a), ((a, FA g) :: env1). split.
            { rewrite elim_S, cq_S_A, He1. cbn [rbind]. rewrite Hck. reflexivity. }
            split; [exact HI2|]. split; [apply incl_tl; exact Hi1|].
            split; [apply (atom_peq _ _ a (FA g) HI2 (in_eq _ _) eq_refl)|].
            split; [unfold shp; cbn [ltl_path ctls_state arity_ok size]; repeat split; auto; lia|].
            intros b [<-|[]]. right. exists (FA g). left. reflexivity.
          * (* E g *)
            assert (Hcg : clean g) by (apply (children_clean (FE g) g Hcl); left; reflexivity).
            cbn [size] in Hn.
            destruct (IH m (ltac:(lia)) K env g HI Hcg ltac:(lia))
              as (K1 & g' & env1 & He1 & HI1 & Hi1 & Hp1 & (Hq1 & _ & Har1 & Hsz1) & Ha1).
            destruct Hcg as [Hidg Harg].
            destruct (cq_E m K1 env1 g' g HI1 Hp1 Hq1 (Har1 Harg) Ha1 ltac:(lia))
              as (K2 & Sat & env2 & Hck & HI2 & Hi2 & HSat).
            set (a := fresh_name CTLS K (FE g)).
            assert (Hcn : cname a (FE g)) by (apply fresh_cname; [exact Hcl|reflexivity]).
            assert (HI3 : Inv (add_label K2 Sat a) ((a, FE g) :: env2)).
            { apply add_label_inv; [exact HI2|exact Hcn| |exact HSat].
              apply (fresh_unlab K env a (FE g) HI Hcn). apply fresh_name_fresh. }
            exists (add_label K2 Sat a), (FAtom a), ((a, FE g) :: env2). split.
            { rewrite elim_S, cq_S_E, He1. cbn [rbind]. rewrite Hck. reflexivity. }
            split; [exact HI3|]. split; [apply incl_tl; eapply incl_tran; eassumption|].
            split; [apply (atom_peq _ _ a (FE g) HI3 (in_eq _ _) eq_refl)|].
            split; [unfold shp; cbn [ltl_path ctls_state arity_ok size]; repeat split; auto; lia|].
            intros b [<-|[]]. right. exists (FE g). left. reflexivity.
        + (* Boolean / temporal node *)
          assert (Hlo : is_leaf_op (root_op f) = false) by (destruct f; try discriminate Ea; reflexivity).
          assert (Hqo : is_quant_op (root_op f) = false) by (destruct f; try discriminate Eq; reflexivity).
          destruct (elim_list_spec n (IH n (Nat.lt_succ_diag_r n)) (children f) K env HI)
            as (K2 & fs' & env2 & He2 & HI2 & Hi2 & Hp2 & Hs2 & Ha2).
          { intros g Hg. split; [apply (children_clean f g Hcl Hg)|].
            pose proof (children_size f g Hg). lia. }
          exists K2, (build (root_op f) fs'), env2. split.
          { rewrite (elim_S_other n CTLS K f Ea Eq), He2. reflexivity. }
          split; [exact HI2|]. split; [exact Hi2|].
          destruct HI2 as (_ & Hkg2 & _).
          pose proof (build_peq K2 K0 Hkg2 (root_op f) fs' (children f) Hlo Hp2) as Hp.
          pose proof (build_shp (root_op f) (children f) fs' Hlo Hqo Hs2) as Hs.
          rewrite build_children in Hp, Hs.
          split; [exact Hp|]. split; [exact Hs|].
          intros b Hb. destruct (build_fatoms (root_op f) fs' b Hlo Hb) as [c [Hc Hbc]].
          apply (Ha2 c b Hc Hbc).
    Qed.
  End Fix.

  Theorem C03_exact : forall K f, wf_K K -> ctls_state f = true -> ident_atoms f = true ->
    arity_ok f = true ->
    exists S, ctls_modelcheck K f = Ok S /\ forall s, In s S <-> (In s (states K) /\ holds K s f).
  Proof.
    intros K f Hwf Hst Hid Har.
    destruct (kclone_spec GraphP.mk_graph_spec GraphP.edges_spec K Hwf)
      as (KC & Hcl & HwfC & Hstates & Hedges & _ & Hlabs).
    destruct (elim_ok KC HwfC (ctls_fuel f) KC [] f (Inv_init KC HwfC) (conj Hid Har))
      as (K1 & h & env1 & He & HI & _ & Hpe & Hshp & _).
    { unfold ctls_fuel. lia. }
    destruct HI as (Hwf1 & Hkg1 & _). destruct Hshp as (Hq & Hs & _).
    assert (Hctl : ctl_state h = true) by (apply qfree_state_ctl; auto).
    destruct (C01 K1 h (wf_K_wf_kripke K1 Hwf1) Hctl) as [S [H1 [_ H2]]].
    exists S. split.
    - unfold ctls_modelcheck, ctls_modelcheck_in. rewrite Hcl. cbn [rbind]. rewrite He. cbn [rbind].
      exact H1.
    - intros s. rewrite H2. rewrite (states_kg KC K1 Hkg1).
      rewrite (holds_peq K1 KC s h f Hkg1 Hpe). rewrite Hstates.
      rewrite (holds_agree K KC s f Hedges Hlabs). reflexivity.
  Qed.
End CTLS.

Print Assumptions C03_exact.

(* with the CTL exactness theorem of Proofs/Assemble.v plugged in *)
Definition C03_exact_ctl :
  C02_stmt ->
  (forall f g, ident_atoms f = true -> ident_atoms g = true ->
     arity_ok f = true -> arity_ok g = true -> print_std f = print_std g -> f = g) ->
  forall K f, wf_K K -> ctls_state f = true -> ident_atoms f = true -> arity_ok f = true ->
  exists S, ctls_modelcheck K f = Ok S /\ forall s, In s S <-> (In s (states K) /\ holds K s f)
  := C03_exact Assemble.ctl_exact.
Print Assumptions C03_exact_ctl.

(* ---- regression examples: the names generated when a satisfaction set is empty ---- *)
Section Examples.
  Import String.
  Local Open Scope string_scope.
  Let Kex := mk_kripke [0; 1] [0] [(0, 1); (1, 1)] [(0, ["p"]); (1, ["q"])].
  Let run (f : form) := rbind Kex (fun K => rbind (elim (ctls_fuel f) CTLS K f) (fun '(K1, h) => Ok h)).
  (* E F G p is unsatisfiable here: its name is not recorded as a label and is handed out twice *)
  Example same_name_twice :
    run (FOr [FE (FF (FG (FAtom "p"))); FE (FF (FG (FAtom "p")))])
    = Ok (FOr [FAtom "[E(F(G(p)))]"; FAtom "[E(F(G(p)))]"]).
  Proof. vm_compute. reflexivity. Qed.
  (* E F G q holds everywhere: the second occurrence gets the variant name *)
  Example variant_name :
    run (FOr [FE (FF (FG (FAtom "q"))); FE (FF (FG (FAtom "q")))])
    = Ok (FOr [FAtom "[E(F(G(q)))]"; FAtom "[[E(F(G(q)))](0)]"]).
  Proof. vm_compute. reflexivity. Qed.
  (* the derived  A not F G q  (empty) and the later original  A not F G q  share a name *)
  Example derived_then_original :
    run (FOr [FE (FG (FE (FF (FG (FAtom "q"))))); FA (FNot (FF (FG (FAtom "q"))))])
    = Ok (FOr [FAtom "[E(G(E(F(G(q)))))]"; FAtom "[A(not F(G(q)))]"]).
  Proof. vm_compute. reflexivity. Qed.
End Examples.
