(* BddCacheP.v — the memo dictionaries of BDD.py are a pure optimisation.

   Model/BddCache.v threads the result caches through apply / cache_restrict /
   __invert__ exactly as the Python code does; Model/Bdd.v omits them.  Here we
   prove that, started from the empty cache (as every top-level call is), the
   cached functions return EXACTLY the same store and the same node as the
   uncached ones.  Axiom-free.

   Main results (s well-formed, arguments live, fuel >= nfuel a (+ nfuel b)):
     apply_top_eq      : ordered O s a -> ordered O s b -> apply_top .. = apply ..
     apply_top_eq_gen  : the same WITHOUT the ordered hypotheses (RuntimeErr included)
     apply_top_ok      : apply .. = Ok r -> apply_top .. = Ok r   (any fuel)
     neg_top_eq, cofactor_top_eq : neg_top .. = neg .., cofactor_top .. = cofactor ..
     apply_c_same_op_reuse : a cache satisfying the (operator-indexed) invariant
                         [cache_ok O op s c] may be reused; the returned cache satisfies it
     cache_reuse_across_operators_wrong, cache_reuse_sub_entry_wrong : reusing a cache
                         with a different operator gives wrong answers (vm_compute)
     C17_*_cached      : the functional-correctness theorems transfer to the cached code.

   Proof idea: [apply_stable] — a call computed once in s0 (ending in s1) and recomputed
   in any well-formed s extending s1 returns the same node and leaves s unchanged
   (every mknode finds its isomorph: [mknode_stable]).  The cache invariant says every
   entry is such a stable result; [apply_c_sim] is the simulation. *)
From PMC Require Import Model.BddCache Spec.BoolFun Proofs.BddP.
From Coq Require Import Lia.

(* ------------------------------------------------------------------ *)
(** * Generic helpers *)

Lemma rbind_mono {A B} (r1 r1' : result A) (k k' : A -> result B) (r : result B) :
  rbind r1 k = r -> r <> OutOfFuel ->
  (r1 <> OutOfFuel -> r1' = r1) ->
  (forall x, r1 = Ok x -> k x <> OutOfFuel -> k' x = k x) ->
  rbind r1' k' = r.
Proof.
  intros H Hr H1 Hk.
  destruct r1; cbn in H; subst r;
    try (rewrite H1 by discriminate; cbn; try reflexivity); try congruence.
  apply Hk; auto.
Qed.

Lemma lookup_same s0 s n : sorted_ids s0 -> sorted_ids s -> extends s0 s ->
  live s0 n = true -> lookup s n = lookup s0 n.
Proof.
  intros Hs0 Hs He Hl. destruct (live_cases s0 n Hl) as [Ht|[_ (v & l & h & Hk)]].
  - rewrite !lookup_terminal; auto.
  - rewrite Hk. apply He; exact Hk.
Qed.

Lemma sel_same s0 s n : lookup s n = lookup s0 n ->
  nvar s n = nvar s0 n /\ nlow s n = nlow s0 n /\ nhigh s n = nhigh s0 n.
Proof. intros H. unfold nvar, nlow, nhigh. rewrite H. auto. Qed.

Lemma live_children s n : wf_store s -> live s n = true -> is_terminal n = false ->
  lookup s n = Some (nvar s n, nlow s n, nhigh s n) /\
  live s (nlow s n) = true /\ live s (nhigh s n) = true /\ nlow s n < n /\ nhigh s n < n.
Proof.
  intros Hw Hl Ht. destruct (live_cases s n Hl) as [Ht'|[_ (v & l & h & Hk)]]; [congruence|].
  pose proof (wf_children s Hw _ _ _ _ Hk) as (_ & H2 & H3 & H4 & H5).
  unfold nvar, nlow, nhigh. rewrite Hk. auto.
Qed.

(* hash-consing is complete: a stored triple is found, and it is found at its own id *)
Lemma find_iso_complete s n t : wf_store s -> lookup s n = Some t -> find_iso s t = Some n.
Proof.
  intros Hw Hk. destruct (find_iso s t) as [m|] eqn:Ef.
  - f_equal. apply find_iso_lookup in Ef; [|apply wf_sorted; exact Hw].
    eapply triple_unique; eauto using wf_nodup.
  - apply find_iso_none in Ef. apply lookup_existsb in Hk. congruence.
Qed.

(* a node made once is found again, without allocation, in every later store *)
Lemma mknode_stable s0 x l h s1 n s :
  sorted_ids s0 -> mknode s0 x l h = (s1, n) -> wf_store s -> extends s1 s ->
  mknode s x l h = (s, n).
Proof.
  intros Hs0 Hmk Hw He.
  destruct (mknode_shape s0 x l h s1 n Hs0 Hmk) as [(-> & -> & _)|[Hne Hk]].
  - unfold mknode. rewrite Nat.eqb_refl. reflexivity.
  - unfold mknode. destruct (Nat.eqb_spec l h) as [E|_]; [contradiction|].
    rewrite (find_iso_complete s n (x, l, h) Hw (He _ _ Hk)). reflexivity.
Qed.

Definition wf_post (s : store) (r : result (store * nat)) : Prop :=
  forall s' n, r = Ok (s', n) -> wf_store s' /\ extends s s' /\ live s' n = true.

(* ------------------------------------------------------------------ *)
(** * [apply]: the case analysis of [compute], factored out *)

Inductive plan : Type :=
| PTerm (n : nat)
| PSons (x : var) (a1 b1 a2 b2 : nat)
| PErr.

Definition plan_of (O : ordering) (op : bool -> bool -> bool) (s : store) (a b : nat) : plan :=
  if is_terminal a then
    if is_terminal b then PTerm (term_of (op (val_of a) (val_of b)))
    else PSons (nvar s b) a (nlow s b) a (nhigh s b)
  else if is_terminal b || in_order O (nvar s a) (nvar s b)
       then PSons (nvar s a) (nlow s a) b (nhigh s a) b
  else if Nat.eqb (nvar s a) (nvar s b)
       then PSons (nvar s a) (nlow s a) (nlow s b) (nhigh s a) (nhigh s b)
  else if in_order O (nvar s b) (nvar s a)
       then PSons (nvar s b) a (nlow s b) a (nhigh s b)
  else PErr.

Lemma apply_plan f O op s a b :
  apply (S f) O op s a b =
  match plan_of O op s a b with
  | PTerm n => Ok (s, n)
  | PSons x a1 b1 a2 b2 => sons f O op s x a1 b1 a2 b2
  | PErr => RuntimeErr
  end.
Proof.
  rewrite apply_S. unfold plan_of.
  repeat match goal with |- context [if ?c then _ else _] => destruct c end; reflexivity.
Qed.

Definition sons_c (f : nat) (O : ordering) (op : bool -> bool -> bool) (s : store) (c : cache2)
           (x : var) (a1 b1 a2 b2 : nat) : result (store * cache2 * nat) :=
  rbind (apply_c f O op s c a1 b1) (fun '(s1, c1, l) =>
  rbind (apply_c f O op s1 c1 a2 b2) (fun '(s2, c2, h) =>
  let '(s3, n) := mknode s2 x l h in Ok (s3, c2, n))).

Lemma apply_c_plan f O op s c a b :
  apply_c (S f) O op s c a b =
  match find2 c a b with
  | Some n => Ok (s, c, n)
  | None =>
      rbind (match plan_of O op s a b with
             | PTerm n => Ok (s, c, n)
             | PSons x a1 b1 a2 b2 => sons_c f O op s c x a1 b1 a2 b2
             | PErr => RuntimeErr
             end) (fun '(s', c', n) => Ok (s', ((a, b), n) :: c', n))
  end.
Proof.
  cbn [apply_c]. destruct (find2 c a b); [reflexivity|]. unfold plan_of.
  repeat match goal with |- context [if ?c then _ else _] => destruct c end; reflexivity.
Qed.

Lemma plan_same O op s0 s a b : lookup s a = lookup s0 a -> lookup s b = lookup s0 b ->
  plan_of O op s a b = plan_of O op s0 a b.
Proof.
  intros Ha Hb. destruct (sel_same s0 s a Ha) as (Ea1 & Ea2 & Ea3).
  destruct (sel_same s0 s b Hb) as (Eb1 & Eb2 & Eb3).
  unfold plan_of. rewrite Ea1, Ea2, Ea3, Eb1, Eb2, Eb3. reflexivity.
Qed.

Lemma plan_live O op s a b x a1 b1 a2 b2 : wf_store s -> live s a = true -> live s b = true ->
  plan_of O op s a b = PSons x a1 b1 a2 b2 ->
  live s a1 = true /\ live s b1 = true /\ live s a2 = true /\ live s b2 = true /\
  nfuel a1 + nfuel b1 < nfuel a + nfuel b /\ nfuel a2 + nfuel b2 < nfuel a + nfuel b.
Proof.
  intros Hw Hla Hlb. unfold plan_of, nfuel.
  destruct (is_terminal a) eqn:Eta.
  - destruct (is_terminal b) eqn:Etb; [discriminate|].
    destruct (live_children s b Hw Hlb Etb) as (_ & H1 & H2 & H3 & H4).
    intros H; injection H as <- <- <- <- <-. splits; auto; lia.
  - destruct (live_children s a Hw Hla Eta) as (_ & H1 & H2 & H3 & H4).
    destruct (is_terminal b || in_order O (nvar s a) (nvar s b)) eqn:E1.
    + intros H; injection H as <- <- <- <- <-. splits; auto; lia.
    + apply orb_false_iff in E1. destruct E1 as [Etb _].
      destruct (live_children s b Hw Hlb Etb) as (_ & H1' & H2' & H3' & H4').
      destruct (Nat.eqb (nvar s a) (nvar s b)).
      * intros H; injection H as <- <- <- <- <-. splits; auto; lia.
      * destruct (in_order O (nvar s b) (nvar s a)); [|discriminate].
        intros H; injection H as <- <- <- <- <-. splits; auto; lia.
Qed.

Section Apply.
Variables (O : ordering) (op : bool -> bool -> bool).

(* -- fuel monotonicity (for every result but OutOfFuel) -- *)
Lemma apply_fuel_mono : forall f f' s a b r,
  apply f O op s a b = r -> r <> OutOfFuel -> f <= f' -> apply f' O op s a b = r.
Proof.
  induction f as [|f IH]; intros f' s a b r H Hr Hf; [cbn in H; congruence|].
  destruct f' as [|f']; [lia|]. rewrite apply_plan in *.
  destruct (plan_of O op s a b) as [n|x a1 b1 a2 b2|]; auto.
  unfold sons in *. eapply rbind_mono; [exact H|exact Hr| |].
  - intros H1. eapply IH; eauto; lia.
  - intros [s1 l] E1 H2. eapply rbind_mono; [reflexivity|exact H2| |].
    + intros H3. eapply IH; eauto; lia.
    + reflexivity.
Qed.

(* -- well-formedness is preserved, whatever the ordering -- *)
Lemma sons_wf f s x a1 b1 a2 b2 :
  (forall s a b, wf_store s -> live s a = true -> live s b = true ->
                 wf_post s (apply f O op s a b)) ->
  wf_store s -> live s a1 = true -> live s b1 = true -> live s a2 = true -> live s b2 = true ->
  forall s' n, sons f O op s x a1 b1 a2 b2 = Ok (s', n) ->
  exists s1 l s2 h, apply f O op s a1 b1 = Ok (s1, l) /\ apply f O op s1 a2 b2 = Ok (s2, h) /\
    mknode s2 x l h = (s', n) /\
    wf_store s1 /\ extends s s1 /\ live s1 l = true /\
    wf_store s2 /\ extends s1 s2 /\ live s2 h = true /\
    wf_store s' /\ extends s2 s' /\ live s' n = true.
Proof.
  intros IH Hw Ha1 Hb1 Ha2 Hb2 s' n H. unfold sons in H.
  destruct (apply f O op s a1 b1) as [[s1 l]| | | | | |] eqn:E1; try discriminate.
  cbn [rbind] in H.
  destruct (apply f O op s1 a2 b2) as [[s2 h]| | | | | |] eqn:E2; try discriminate.
  cbn [rbind] in H. injection H as H.
  destruct (IH s a1 b1 Hw Ha1 Hb1 _ _ E1) as (Hw1 & He1 & Hl1).
  destruct (IH s1 a2 b2 Hw1 (live_extends _ _ _ He1 Ha2) (live_extends _ _ _ He1 Hb2) _ _ E2)
    as (Hw2 & He2 & Hl2).
  destruct (mknode_spec s2 x l h s' n Hw2 (live_extends _ _ _ He2 Hl1) Hl2 H)
    as (Hw' & He' & Hln & _).
  exists s1, l, s2, h. splits; auto.
Qed.

Lemma apply_wf : forall f s a b, wf_store s -> live s a = true -> live s b = true ->
  wf_post s (apply f O op s a b).
Proof.
  induction f as [|f IH]; intros s a b Hw Hla Hlb s' n H; [discriminate|].
  rewrite apply_plan in H. destruct (plan_of O op s a b) as [t|x a1 b1 a2 b2|] eqn:Ep.
  - injection H as <- <-. splits; auto using extends_refl.
    unfold plan_of in Ep.
    destruct (is_terminal a); [destruct (is_terminal b); [|discriminate]|].
    + injection Ep as <-. apply live_terminal, term_of_terminal.
    + repeat match type of Ep with (if ?c then _ else _) = _ => destruct c end; discriminate.
  - destruct (plan_live O op s a b _ _ _ _ _ Hw Hla Hlb Ep) as (H1 & H2 & H3 & H4 & _).
    destruct (sons_wf f s x a1 b1 a2 b2 IH Hw H1 H2 H3 H4 _ _ H)
      as (s1 & l & s2 & h & _ & _ & _ & _ & He1 & _ & _ & He2 & _ & Hw' & He' & Hl').
    splits; eauto using extends_trans.
  - discriminate.
Qed.

(* -- stability: once computed in a store, recomputing the same call in any later
      store finds every node again and allocates nothing -- *)
Lemma apply_stable : forall f s0 a b s1 n s,
  wf_store s0 -> live s0 a = true -> live s0 b = true ->
  apply f O op s0 a b = Ok (s1, n) -> wf_store s -> extends s1 s ->
  apply f O op s a b = Ok (s, n).
Proof.
  induction f as [|f IH]; intros s0 a b s1 n s Hw0 Hla Hlb H Hw He; [discriminate|].
  destruct (apply_wf (S f) s0 a b Hw0 Hla Hlb _ _ H) as (Hw1 & He01 & Hl1).
  assert (He0 : extends s0 s) by eauto using extends_trans.
  rewrite apply_plan in *.
  rewrite (plan_same O op s0 s a b)
    by (apply lookup_same; auto using wf_sorted).
  destruct (plan_of O op s0 a b) as [t|x a1 b1 a2 b2|] eqn:Ep.
  - injection H as _ <-. reflexivity.
  - destruct (plan_live O op s0 a b _ _ _ _ _ Hw0 Hla Hlb Ep) as (H1 & H2 & H3 & H4 & _).
    destruct (sons_wf f s0 x a1 b1 a2 b2 (apply_wf f) Hw0 H1 H2 H3 H4 _ _ H)
      as (s1' & l & s2' & h & E1 & E2 & Emk & Hw1' & He1' & Hll & Hw2' & He2' & Hlh & _ & He' & _).
    unfold sons.
    rewrite (IH s0 a1 b1 s1' l s Hw0 H1 H2 E1 Hw) by eauto using extends_trans.
    cbn [rbind].
    rewrite (IH s1' a2 b2 s2' h s Hw1' (live_extends _ _ _ He1' H3) (live_extends _ _ _ He1' H4)
               E2 Hw) by eauto using extends_trans.
    cbn [rbind]. f_equal.
    eapply mknode_stable; eauto using wf_sorted.
  - discriminate.
Qed.

(* -- the cache invariant -- *)
Definition cache_ok (s : store) (c : cache2) : Prop :=
  forall a b n, In ((a, b), n) c ->
    live s a = true /\ live s b = true /\ exists f0, apply f0 O op s a b = Ok (s, n).

Lemma find2_In c a b n : find2 c a b = Some n -> In ((a, b), n) c.
Proof.
  induction c as [|[[a' b'] n'] r IH]; cbn; intros H; [discriminate|].
  destruct (Nat.eqb_spec a' a) as [->|Ha]; cbn in H; auto.
  destruct (Nat.eqb_spec b' b) as [->|Hb]; cbn in H; auto.
  injection H as ->. auto.
Qed.

Lemma cache_ok_nil s : cache_ok s [].
Proof. intros a b n []. Qed.

Lemma cache_ok_extends s s' c : wf_store s -> wf_store s' -> extends s s' ->
  cache_ok s c -> cache_ok s' c.
Proof.
  intros Hw Hw' He Hc a b n Hin. destruct (Hc a b n Hin) as (Hla & Hlb & f0 & Hf).
  splits; eauto using live_extends.
  exists f0. exact (apply_stable f0 s a b s n s' Hw Hla Hlb Hf Hw' He).
Qed.

Lemma cache_ok_cons s c a b n f0 : cache_ok s c -> live s a = true -> live s b = true ->
  apply f0 O op s a b = Ok (s, n) -> cache_ok s (((a, b), n) :: c).
Proof.
  intros Hc Hla Hlb Hf a' b' n' [H|H]; [|auto].
  injection H as <- <- <-. eauto.
Qed.

(* -- simulation: with an invariant-respecting cache, [apply_c] computes the store and
      node of [apply], and re-establishes the invariant -- *)
Lemma sons_c_sim f s c x a1 b1 a2 b2 :
  (forall s c a b, wf_store s -> live s a = true -> live s b = true -> cache_ok s c ->
     forall s' n, apply f O op s a b = Ok (s', n) ->
     exists c', apply_c f O op s c a b = Ok (s', c', n) /\ cache_ok s' c') ->
  wf_store s -> live s a1 = true -> live s b1 = true -> live s a2 = true -> live s b2 = true ->
  cache_ok s c ->
  forall s' n, sons f O op s x a1 b1 a2 b2 = Ok (s', n) ->
  exists c', sons_c f O op s c x a1 b1 a2 b2 = Ok (s', c', n) /\ cache_ok s' c'.
Proof.
  intros IH Hw H1 H2 H3 H4 Hc s' n H.
  destruct (sons_wf f s x a1 b1 a2 b2 (apply_wf f) Hw H1 H2 H3 H4 _ _ H)
    as (s1 & l & s2 & h & E1 & E2 & Emk & Hw1 & He1 & Hll & Hw2 & He2 & Hlh & Hw' & He' & _).
  destruct (IH s c a1 b1 Hw H1 H2 Hc _ _ E1) as (c1 & Ec1 & Hc1).
  destruct (IH s1 c1 a2 b2 Hw1 (live_extends _ _ _ He1 H3) (live_extends _ _ _ He1 H4) Hc1 _ _ E2)
    as (c2 & Ec2 & Hc2).
  exists c2. split.
  - unfold sons_c. rewrite Ec1. cbn [rbind]. rewrite Ec2. cbn [rbind]. rewrite Emk. reflexivity.
  - eapply cache_ok_extends; [exact Hw2|exact Hw'|exact He'|exact Hc2].
Qed.

Lemma apply_c_sim : forall f s c a b,
  wf_store s -> live s a = true -> live s b = true -> cache_ok s c ->
  forall s' n, apply f O op s a b = Ok (s', n) ->
  exists c', apply_c f O op s c a b = Ok (s', c', n) /\ cache_ok s' c'.
Proof.
  induction f as [|f IH]; intros s c a b Hw Hla Hlb Hc s' n H; [discriminate|].
  rewrite apply_c_plan. destruct (find2 c a b) as [n0|] eqn:Ef.
  - (* hit *)
    apply find2_In in Ef. destruct (Hc a b n0 Ef) as (_ & _ & f0 & Hf0).
    apply (apply_fuel_mono _ (max (S f) f0)) in H; [|discriminate|lia].
    apply (apply_fuel_mono _ (max (S f) f0)) in Hf0; [|discriminate|lia].
    rewrite H in Hf0. injection Hf0 as -> ->. exists c. auto.
  - (* miss *)
    pose proof H as H0. rewrite apply_plan in H.
    destruct (apply_wf (S f) s a b Hw Hla Hlb _ _ H0) as (Hw' & He & Hln).
    assert (Hst : apply (S f) O op s' a b = Ok (s', n)).
    { exact (apply_stable (S f) s a b s' n s' Hw Hla Hlb H0 Hw' (extends_refl s')). }
    destruct (plan_of O op s a b) as [t|x a1 b1 a2 b2|] eqn:Ep.
    + injection H as <- <-. exists (((a, b), t) :: c). split; [reflexivity|].
      eapply cache_ok_cons; eauto.
    + destruct (plan_live O op s a b _ _ _ _ _ Hw Hla Hlb Ep) as (H1 & H2 & H3 & H4 & _).
      destruct (sons_c_sim f s c x a1 b1 a2 b2 IH Hw H1 H2 H3 H4 Hc _ _ H) as (c2 & Ec2 & Hc2).
      exists (((a, b), n) :: c2). split; [rewrite Ec2; reflexivity|].
      eapply cache_ok_cons; eauto using live_extends.
    + discriminate.
Qed.

(* the cached top-level call returns whatever the uncached one returns, when that is a value *)
Theorem apply_top_ok fuel s a b r :
  wf_store s -> live s a = true -> live s b = true ->
  apply fuel O op s a b = Ok r -> apply_top fuel O op s a b = Ok r.
Proof.
  intros Hw Hla Hlb H. destruct r as [s' n].
  destruct (apply_c_sim fuel s [] a b Hw Hla Hlb (cache_ok_nil s) _ _ H) as (c' & E & _).
  unfold apply_top, rmap. rewrite E. reflexivity.
Qed.

(* MAIN THEOREM for apply: same store, same node *)
Theorem apply_top_eq fuel s a b :
  wf_store s -> ordered O s a -> ordered O s b -> live s a = true -> live s b = true ->
  nfuel a + nfuel b <= fuel ->
  apply_top fuel O op s a b = apply fuel O op s a b.
Proof.
  intros Hw Hoa Hob Hla Hlb Hf.
  destruct (apply_ok_all O op fuel s a b Hw Hoa Hob Hla Hlb Hf) as (s' & n & E & _).
  rewrite E. apply apply_top_ok; auto.
Qed.

(* -- beyond the brief: no [ordered] hypothesis, errors included.  On diagrams that do not
      respect the ordering [apply] may raise RuntimeError; the cached version then raises
      the same error. -- *)
Lemma apply_no_oof : forall f s a b, wf_store s -> live s a = true -> live s b = true ->
  nfuel a + nfuel b <= f -> apply f O op s a b <> OutOfFuel.
Proof.
  induction f as [|f IH]; intros s a b Hw Hla Hlb Hf; [unfold nfuel in Hf; lia|].
  rewrite apply_plan. destruct (plan_of O op s a b) as [t|x a1 b1 a2 b2|] eqn:Ep; try discriminate.
  destruct (plan_live O op s a b _ _ _ _ _ Hw Hla Hlb Ep) as (H1 & H2 & H3 & H4 & Hf1 & Hf2).
  unfold sons.
  destruct (apply f O op s a1 b1) as [[s1 l]| | | | | |] eqn:E1; cbn [rbind]; try discriminate.
  - destruct (apply_wf f s a1 b1 Hw H1 H2 _ _ E1) as (Hw1 & He1 & _).
    destruct (apply f O op s1 a2 b2) as [[s2 h]| | | | | |] eqn:E2; cbn [rbind]; try discriminate.
    exfalso. apply (IH s1 a2 b2 Hw1 (live_extends _ _ _ He1 H3) (live_extends _ _ _ He1 H4));
      [lia|exact E2].
  - exfalso. apply (IH s a1 b1 Hw H1 H2); [lia|exact E1].
Qed.

Definition erase2 (r : result (store * cache2 * nat)) : result (store * nat) :=
  rmap (fun '(s', _, n) => (s', n)) r.

Lemma erase2_err (X : result (store * cache2 * nat)) (e : result (store * nat))
      (k : store * cache2 * nat -> result (store * cache2 * nat)) :
  erase2 X = e -> (forall x, e <> Ok x) -> erase2 (rbind X k) = e.
Proof.
  intros H He. destruct X as [[[s1 c1] n1]| | | | | |]; cbn in *; subst e; try reflexivity.
  exfalso. eapply He; reflexivity.
Qed.

Lemma apply_c_full : forall f s c a b,
  wf_store s -> live s a = true -> live s b = true -> cache_ok s c ->
  nfuel a + nfuel b <= f ->
  erase2 (apply_c f O op s c a b) = apply f O op s a b.
Proof.
  induction f as [|f IH]; intros s c a b Hw Hla Hlb Hc Hf; [reflexivity|].
  destruct (apply (S f) O op s a b) as [[s' n]| | | | | |] eqn:E;
    try (destruct (apply_c_sim (S f) s c a b Hw Hla Hlb Hc _ _ E) as (c' & Ec & _);
         rewrite Ec; reflexivity);
    try (exfalso; exact (apply_no_oof (S f) s a b Hw Hla Hlb Hf E)).
  all: rewrite <- E.
  all: assert (Hne : forall x, apply (S f) O op s a b <> Ok x) by (intros x; rewrite E; discriminate).
  all: clear E; rewrite apply_c_plan; destruct (find2 c a b) as [n0|] eqn:Ef.
  all: try (exfalso; apply find2_In in Ef; destruct (Hc a b n0 Ef) as (_ & _ & f0 & Hf0);
            apply (apply_fuel_mono _ (max (S f) f0)) in Hf0; [|discriminate|lia];
            pose proof (apply_fuel_mono (S f) (max (S f) f0) s a b _ eq_refl
                          (apply_no_oof (S f) s a b Hw Hla Hlb Hf) ltac:(lia)) as Hm;
            rewrite Hf0 in Hm; eapply Hne; symmetry; exact Hm).
  all: rewrite apply_plan in *.
  all: destruct (plan_of O op s a b) as [t|x a1 b1 a2 b2|] eqn:Ep;
    [exfalso; eapply Hne; reflexivity| |reflexivity].
  all: destruct (plan_live O op s a b _ _ _ _ _ Hw Hla Hlb Ep) as (H1 & H2 & H3 & H4 & Hf1 & Hf2).
  all: apply erase2_err; [|exact Hne].
  all: unfold sons, sons_c in *.
  all: pose proof (IH s c a1 b1 Hw H1 H2 Hc ltac:(lia)) as IH1.
  all: destruct (apply f O op s a1 b1) as [[s1 l]| | | | | |] eqn:E1; cbn [rbind] in *;
    try (apply erase2_err; [exact IH1|discriminate]).
  all: destruct (apply_wf f s a1 b1 Hw H1 H2 _ _ E1) as (Hw1 & He1 & _).
  all: destruct (apply_c_sim f s c a1 b1 Hw H1 H2 Hc _ _ E1) as (c1 & Ec1 & Hc1).
  all: rewrite Ec1; cbn [rbind].
  all: pose proof (IH s1 c1 a2 b2 Hw1 (live_extends _ _ _ He1 H3) (live_extends _ _ _ He1 H4) Hc1
                      ltac:(lia)) as IH2.
  all: destruct (apply f O op s1 a2 b2) as [[s2 h]| | | | | |] eqn:E2; cbn [rbind] in *;
    try (apply erase2_err; [exact IH2|discriminate]).
  all: exfalso; eapply Hne; reflexivity.
Qed.

Theorem apply_top_eq_gen fuel s a b :
  wf_store s -> live s a = true -> live s b = true -> nfuel a + nfuel b <= fuel ->
  apply_top fuel O op s a b = apply fuel O op s a b.
Proof.
  intros Hw Hla Hlb Hf.
  exact (apply_c_full fuel s [] a b Hw Hla Hlb (cache_ok_nil s) Hf).
Qed.

End Apply.

(* ------------------------------------------------------------------ *)
(** * Unary recursions ([neg], [cofactor]), treated once *)

Inductive uplan : Type :=
| UTerm (n : nat)                       (* answer immediately *)
| UJump (a' : nat)                      (* tail call on a son (restrict: bdd.var == var) *)
| USons (x : var) (c1 c2 : nat).        (* BDDNonTerminalNode(x, rec(c1), rec(c2)) *)

Definition un_sons (R : store -> nat -> result (store * nat)) (s : store) (x : var) (c1 c2 : nat)
  : result (store * nat) :=
  rbind (R s c1) (fun '(s1, l) => rbind (R s1 c2) (fun '(s2, h) => Ok (mknode s2 x l h))).

Definition un_sons_c (Rc : store -> cache1 -> nat -> result (store * cache1 * nat))
           (s : store) (c : cache1) (x : var) (c1 c2 : nat) : result (store * cache1 * nat) :=
  rbind (Rc s c c1) (fun '(s1, k1, l) => rbind (Rc s1 k1 c2) (fun '(s2, k2, h) =>
  let '(s3, r) := mknode s2 x l h in Ok (s3, k2, r))).

Lemma find1_In c a n : find1 c a = Some n -> In (a, n) c.
Proof.
  induction c as [|[a' n'] r IH]; cbn; intros H; [discriminate|].
  destruct (Nat.eqb_spec a' a) as [->|Ha]; auto. injection H as ->. auto.
Qed.

Section Unary.
Variable F : nat -> store -> nat -> result (store * nat).
Variable Fc : nat -> store -> cache1 -> nat -> result (store * cache1 * nat).
Variable uplan_of : store -> nat -> uplan.

Hypothesis F_0 : forall s a, F 0 s a = OutOfFuel.
Hypothesis F_S : forall f s a, F (S f) s a =
  match uplan_of s a with
  | UTerm n => Ok (s, n)
  | UJump a' => F f s a'
  | USons x c1 c2 => un_sons (F f) s x c1 c2
  end.
Hypothesis Fc_S : forall f s c a, Fc (S f) s c a =
  match find1 c a with
  | Some r => Ok (s, c, r)
  | None =>
      rbind (match uplan_of s a with
             | UTerm n => Ok (s, c, n)
             | UJump a' => Fc f s c a'
             | USons x c1 c2 => un_sons_c (Fc f) s c x c1 c2
             end) (fun '(s', c', r) => Ok (s', (a, r) :: c', r))
  end.
Hypothesis uplan_same : forall s0 s a, lookup s a = lookup s0 a -> uplan_of s a = uplan_of s0 a.
Hypothesis uplan_live : forall s a, wf_store s -> live s a = true ->
  match uplan_of s a with
  | UTerm n => live s n = true
  | UJump a' => live s a' = true /\ a' < a
  | USons x c1 c2 => live s c1 = true /\ live s c2 = true /\ c1 < a /\ c2 < a
  end.

Lemma un_fuel_mono : forall f f' s a r,
  F f s a = r -> r <> OutOfFuel -> f <= f' -> F f' s a = r.
Proof.
  induction f as [|f IH]; intros f' s a r H Hr Hf; [rewrite F_0 in H; congruence|].
  destruct f' as [|f']; [lia|]. rewrite F_S in *.
  destruct (uplan_of s a) as [n|a'|x c1 c2]; auto.
  - eapply IH; eauto; lia.
  - unfold un_sons in *. eapply rbind_mono; [exact H|exact Hr| |].
    + intros H1. eapply IH; eauto; lia.
    + intros [s1 l] E1 H2. eapply rbind_mono; [reflexivity|exact H2| |].
      * intros H3. eapply IH; eauto; lia.
      * reflexivity.
Qed.

Lemma un_sons_wf f s x c1 c2 :
  (forall s a, wf_store s -> live s a = true -> wf_post s (F f s a)) ->
  wf_store s -> live s c1 = true -> live s c2 = true ->
  forall s' n, un_sons (F f) s x c1 c2 = Ok (s', n) ->
  exists s1 l s2 h, F f s c1 = Ok (s1, l) /\ F f s1 c2 = Ok (s2, h) /\
    mknode s2 x l h = (s', n) /\
    wf_store s1 /\ extends s s1 /\ live s1 l = true /\
    wf_store s2 /\ extends s1 s2 /\ live s2 h = true /\
    wf_store s' /\ extends s2 s' /\ live s' n = true.
Proof.
  intros IH Hw H1 H2 s' n H. unfold un_sons in H.
  destruct (F f s c1) as [[s1 l]| | | | | |] eqn:E1; try discriminate.
  cbn [rbind] in H.
  destruct (F f s1 c2) as [[s2 h]| | | | | |] eqn:E2; try discriminate.
  cbn [rbind] in H. injection H as H.
  destruct (IH s c1 Hw H1 _ _ E1) as (Hw1 & He1 & Hl1).
  destruct (IH s1 c2 Hw1 (live_extends _ _ _ He1 H2) _ _ E2) as (Hw2 & He2 & Hl2).
  destruct (mknode_spec s2 x l h s' n Hw2 (live_extends _ _ _ He2 Hl1) Hl2 H)
    as (Hw' & He' & Hln & _).
  exists s1, l, s2, h. splits; auto.
Qed.

Lemma un_wf : forall f s a, wf_store s -> live s a = true -> wf_post s (F f s a).
Proof.
  induction f as [|f IH]; intros s a Hw Hl s' n H; [rewrite F_0 in H; discriminate|].
  rewrite F_S in H. pose proof (uplan_live s a Hw Hl) as Hp.
  destruct (uplan_of s a) as [t|a'|x c1 c2].
  - injection H as <- <-. splits; auto using extends_refl.
  - destruct Hp as [Hp _]. exact (IH s a' Hw Hp _ _ H).
  - destruct Hp as (H1 & H2 & _).
    destruct (un_sons_wf f s x c1 c2 IH Hw H1 H2 _ _ H)
      as (s1 & l & s2 & h & _ & _ & _ & _ & He1 & _ & _ & He2 & _ & Hw' & He' & Hl').
    splits; eauto using extends_trans.
Qed.

(* with enough fuel the recursion returns a value *)
Lemma un_total : forall f s a, wf_store s -> live s a = true -> a < f ->
  exists s' n, F f s a = Ok (s', n).
Proof.
  induction f as [|f IH]; intros s a Hw Hl Hf; [lia|].
  rewrite F_S. pose proof (uplan_live s a Hw Hl) as Hp.
  destruct (uplan_of s a) as [t|a'|x c1 c2]; eauto.
  - destruct Hp as [Hp Hlt]. apply IH; auto; lia.
  - destruct Hp as (H1 & H2 & Hlt1 & Hlt2).
    destruct (IH s c1 Hw H1 ltac:(lia)) as (s1 & l & E1).
    destruct (un_wf f s c1 Hw H1 _ _ E1) as (Hw1 & He1 & _).
    destruct (IH s1 c2 Hw1 (live_extends _ _ _ He1 H2) ltac:(lia)) as (s2 & h & E2).
    unfold un_sons. rewrite E1. cbn [rbind]. rewrite E2. cbn [rbind].
    destruct (mknode s2 x l h) as [s3 r]. eauto.
Qed.

Lemma un_stable : forall f s0 a s1 n s,
  wf_store s0 -> live s0 a = true -> F f s0 a = Ok (s1, n) -> wf_store s -> extends s1 s ->
  F f s a = Ok (s, n).
Proof.
  induction f as [|f IH]; intros s0 a s1 n s Hw0 Hl H Hw He; [rewrite F_0 in H; discriminate|].
  destruct (un_wf (S f) s0 a Hw0 Hl _ _ H) as (Hw1 & He01 & Hl1).
  assert (He0 : extends s0 s) by eauto using extends_trans.
  rewrite F_S in *.
  rewrite (uplan_same s0 s a) by (apply lookup_same; auto using wf_sorted).
  pose proof (uplan_live s0 a Hw0 Hl) as Hp.
  destruct (uplan_of s0 a) as [t|a'|x c1 c2].
  - injection H as _ <-. reflexivity.
  - destruct Hp as [Hp _]. exact (IH s0 a' s1 n s Hw0 Hp H Hw He).
  - destruct Hp as (H1 & H2 & _).
    destruct (un_sons_wf f s0 x c1 c2 (un_wf f) Hw0 H1 H2 _ _ H)
      as (s1' & l & s2' & h & E1 & E2 & Emk & Hw1' & He1' & Hll & Hw2' & He2' & Hlh & _ & He' & _).
    unfold un_sons.
    rewrite (IH s0 c1 s1' l s Hw0 H1 E1 Hw) by eauto using extends_trans.
    cbn [rbind].
    rewrite (IH s1' c2 s2' h s Hw1' (live_extends _ _ _ He1' H2) E2 Hw) by eauto using extends_trans.
    cbn [rbind]. f_equal.
    eapply mknode_stable; eauto using wf_sorted.
Qed.

Definition cache1_ok (s : store) (c : cache1) : Prop :=
  forall a n, In (a, n) c -> live s a = true /\ exists f0, F f0 s a = Ok (s, n).

Lemma cache1_ok_nil s : cache1_ok s [].
Proof. intros a n []. Qed.

Lemma cache1_ok_extends s s' c : wf_store s -> wf_store s' -> extends s s' ->
  cache1_ok s c -> cache1_ok s' c.
Proof.
  intros Hw Hw' He Hc a n Hin. destruct (Hc a n Hin) as (Hl & f0 & Hf).
  split; [eauto using live_extends|].
  exists f0. exact (un_stable f0 s a s n s' Hw Hl Hf Hw' He).
Qed.

Lemma cache1_ok_cons s c a n f0 : cache1_ok s c -> live s a = true ->
  F f0 s a = Ok (s, n) -> cache1_ok s ((a, n) :: c).
Proof.
  intros Hc Hl Hf a' n' [H|H]; [|auto].
  injection H as <- <-. eauto.
Qed.

Lemma un_sim : forall f s c a,
  wf_store s -> live s a = true -> cache1_ok s c ->
  forall s' n, F f s a = Ok (s', n) ->
  exists c', Fc f s c a = Ok (s', c', n) /\ cache1_ok s' c'.
Proof.
  induction f as [|f IH]; intros s c a Hw Hl Hc s' n H; [rewrite F_0 in H; discriminate|].
  rewrite Fc_S. destruct (find1 c a) as [n0|] eqn:Ef.
  - apply find1_In in Ef. destruct (Hc a n0 Ef) as (_ & f0 & Hf0).
    apply (un_fuel_mono _ (max (S f) f0)) in H; [|discriminate|lia].
    apply (un_fuel_mono _ (max (S f) f0)) in Hf0; [|discriminate|lia].
    rewrite H in Hf0. injection Hf0 as -> ->. exists c. auto.
  - pose proof H as H0. rewrite F_S in H.
    destruct (un_wf (S f) s a Hw Hl _ _ H0) as (Hw' & He & Hln).
    assert (Hst : F (S f) s' a = Ok (s', n)).
    { exact (un_stable (S f) s a s' n s' Hw Hl H0 Hw' (extends_refl s')). }
    pose proof (live_extends _ _ _ He Hl) as Hl'.
    pose proof (uplan_live s a Hw Hl) as Hp.
    destruct (uplan_of s a) as [t|a'|x c1 c2].
    + injection H as <- <-. exists ((a, t) :: c). split; [reflexivity|].
      eapply cache1_ok_cons; eauto.
    + destruct Hp as [Hp _].
      destruct (IH s c a' Hw Hp Hc _ _ H) as (c2 & Ec2 & Hc2).
      exists ((a, n) :: c2). split; [rewrite Ec2; reflexivity|].
      eapply cache1_ok_cons; eauto.
    + destruct Hp as (H1 & H2 & _).
      destruct (un_sons_wf f s x c1 c2 (un_wf f) Hw H1 H2 _ _ H)
        as (s1 & l & s2 & h & E1 & E2 & Emk & Hw1 & He1 & Hll & Hw2 & He2 & Hlh & _ & He' & _).
      destruct (IH s c c1 Hw H1 Hc _ _ E1) as (k1 & Ek1 & Hk1).
      destruct (IH s1 k1 c2 Hw1 (live_extends _ _ _ He1 H2) Hk1 _ _ E2) as (k2 & Ek2 & Hk2).
      exists ((a, n) :: k2). split.
      * unfold un_sons_c. rewrite Ek1. cbn [rbind]. rewrite Ek2. cbn [rbind]. rewrite Emk.
        reflexivity.
      * eapply cache1_ok_cons; eauto.
        eapply cache1_ok_extends; [exact Hw2|exact Hw'|exact He'|exact Hk2].
Qed.

Theorem un_top_eq fuel s a : wf_store s -> live s a = true -> nfuel a <= fuel ->
  rmap (fun '(s', _, r) => (s', r)) (Fc fuel s [] a) = F fuel s a.
Proof.
  intros Hw Hl Hf. unfold nfuel in Hf.
  destruct (un_total fuel s a Hw Hl ltac:(lia)) as (s' & n & E).
  destruct (un_sim fuel s [] a Hw Hl (cache1_ok_nil s) _ _ E) as (c' & Ec & _).
  rewrite E, Ec. reflexivity.
Qed.

End Unary.

(* ------------------------------------------------------------------ *)
(** * [neg] *)

Definition neg_plan (s : store) (n : nat) : uplan :=
  if is_terminal n then UTerm (term_of (negb (val_of n)))
  else USons (nvar s n) (nlow s n) (nhigh s n).

Theorem neg_top_eq fuel s a : wf_store s -> live s a = true -> nfuel a <= fuel ->
  neg_top fuel s a = neg fuel s a.
Proof.
  intros Hw Hl Hf. unfold neg_top.
  apply (un_top_eq neg neg_c neg_plan); auto.
  - intros f s0 n. rewrite neg_S. unfold neg_plan. destruct (is_terminal n); reflexivity.
  - intros f s0 c n. cbn [neg_c]. destruct (find1 c n); [reflexivity|].
    unfold neg_plan. destruct (is_terminal n); reflexivity.
  - intros s0 s1 n H. destruct (sel_same s0 s1 n H) as (E1 & E2 & E3).
    unfold neg_plan. rewrite E1, E2, E3. reflexivity.
  - intros s0 n Hw0 Hl0. unfold neg_plan. destruct (is_terminal n) eqn:Et.
    + apply live_terminal, term_of_terminal.
    + destruct (live_children s0 n Hw0 Hl0 Et) as (_ & H1 & H2 & H3 & H4). auto.
Qed.

(* ------------------------------------------------------------------ *)
(** * [cofactor] (restrict) *)

Definition cof_plan (v : var) (b : bool) (s : store) (n : nat) : uplan :=
  if is_terminal n then UTerm n
  else if Nat.eqb (nvar s n) v then UJump (if b then nhigh s n else nlow s n)
  else USons (nvar s n) (nlow s n) (nhigh s n).

Theorem cofactor_top_eq fuel s a v b : wf_store s -> live s a = true -> nfuel a <= fuel ->
  cofactor_top fuel s a v b = cofactor fuel s a v b.
Proof.
  intros Hw Hl Hf. unfold cofactor_top.
  apply (un_top_eq (fun f s n => cofactor f s n v b) (fun f s c n => cofactor_c f s c n v b)
                   (cof_plan v b)); auto.
  - intros f s0 n. rewrite cofactor_S. unfold cof_plan.
    destruct (is_terminal n); [reflexivity|]. destruct (Nat.eqb (nvar s0 n) v); reflexivity.
  - intros f s0 c n. cbn [cofactor_c]. destruct (find1 c n); [reflexivity|].
    unfold cof_plan. destruct (is_terminal n); [reflexivity|].
    destruct (Nat.eqb (nvar s0 n) v); reflexivity.
  - intros s0 s1 n H. destruct (sel_same s0 s1 n H) as (E1 & E2 & E3).
    unfold cof_plan. rewrite E1, E2, E3. reflexivity.
  - intros s0 n Hw0 Hl0. unfold cof_plan. destruct (is_terminal n) eqn:Et; [exact Hl0|].
    destruct (live_children s0 n Hw0 Hl0 Et) as (_ & H1 & H2 & H3 & H4).
    destruct (Nat.eqb (nvar s0 n) v); [destruct b|]; auto.
Qed.

(* ------------------------------------------------------------------ *)
(** * The cache key of [apply] does not contain the operator: why this is harmless *)

(* 1. A top-level call always starts from the empty dictionary (OBDD.apply:
      `result_cache = dict()`), and the operator is a parameter of the whole recursion:
      every entry of the cache threaded through one call was written by that call, for
      that call's operator.  In the model this is definitional. *)
Remark apply_top_fresh_cache fuel O op s a b :
  apply_top fuel O op s a b = erase2 (apply_c fuel O op s [] a b).
Proof. reflexivity. Qed.

(* 2. The invariant that makes a cache sound is indexed by the operator:
      [cache_ok O op s c] says every entry (a, b) |-> n of c is what the uncached
      [apply ... op ...] returns (without allocating) in s.  The empty cache satisfies it for
      every operator ([cache_ok_nil]); a non-empty one in general only for the operator that
      filled it.  Reusing a cache for the SAME operator (even across top-level calls, as long
      as the store only grew) is sound, and the cache handed back is again sound: *)
Theorem apply_c_same_op_reuse O op fuel s c a b :
  wf_store s -> live s a = true -> live s b = true -> cache_ok O op s c ->
  nfuel a + nfuel b <= fuel ->
  erase2 (apply_c fuel O op s c a b) = apply fuel O op s a b /\
  forall s' c' n, apply_c fuel O op s c a b = Ok (s', c', n) -> cache_ok O op s' c'.
Proof.
  intros Hw Hla Hlb Hc Hf.
  pose proof (apply_c_full O op fuel s c a b Hw Hla Hlb Hc Hf) as Hfull.
  split; [exact Hfull|]. intros s' c' n E. rewrite E in Hfull. cbn in Hfull.
  destruct (apply_c_sim O op fuel s c a b Hw Hla Hlb Hc s' n (eq_sym Hfull)) as (c'' & E' & Hc'').
  rewrite E in E'. injection E' as <-. exact Hc''.
Qed.

(* 3. Reusing a cache across two DIFFERENT operators is wrong, and the model exposes it.
      Store: node 2 = variable x0, node 3 = variable x1, ordering [x0; x1]. *)
Definition ex_s0 : store := [(3, (1, 0, 1)); (2, (0, 0, 1))].
Definition ex_O : ordering := [0; 1].

(* (a) and(x0, x1) fills the cache with (2,3) |-> 4; or(x0, x1) run with that cache answers
       node 4 (= x0 /\ x1), whereas the correct answer is the new node 5 (= x0 \/ x1). *)
Example cache_reuse_across_operators_wrong :
  exists s1 c1,
    apply_c 10 ex_O andb ex_s0 [] 2 3 = Ok (s1, c1, 4) /\
    erase2 (apply_c 10 ex_O orb s1 c1 2 3) = Ok (s1, 4) /\
    apply 10 ex_O orb s1 2 3 = Ok ((5, (0, 3, 1)) :: s1, 5) /\
    denote s1 4 (fun v => Nat.eqb v 0) = false /\               (* x0=1, x1=0: and *)
    denote ((5, (0, 3, 1)) :: s1) 5 (fun v => Nat.eqb v 0) = true.   (* or *)
Proof.
  exists [(4, (0, 0, 3)); (3, (1, 0, 1)); (2, (0, 0, 1))],
         [(2, 3, 4); (1, 3, 3); (1, 1, 1); (1, 0, 0); (0, 3, 0); (0, 1, 0); (0, 0, 0)].
  vm_compute. repeat split.
Qed.

(* (b) a subtler instance: and(False, x1) leaves the sub-entry (0,3) |-> 0; then or(x0, x1)
       with that cache hits it for its low branch or(False, x1) and answers x0 (node 2)
       instead of x0 \/ x1 (node 4). *)
Example cache_reuse_sub_entry_wrong :
  exists c1,
    apply_c 10 ex_O andb ex_s0 [] 0 3 = Ok (ex_s0, c1, 0) /\
    erase2 (apply_c 10 ex_O orb ex_s0 c1 2 3) = Ok (ex_s0, 2) /\
    apply 10 ex_O orb ex_s0 2 3 = Ok ((4, (0, 3, 1)) :: ex_s0, 4).
Proof.
  exists [(0, 3, 0); (0, 1, 0); (0, 0, 0)].
  vm_compute. repeat split.
Qed.

(* ------------------------------------------------------------------ *)
(** * Consequence: the C17 functional-correctness theorems hold for the cached code *)

Corollary C17_apply_cached O op fuel s a b :
  wf_store s -> NoDup O -> ordered O s a -> ordered O s b ->
  live s a = true -> live s b = true -> nfuel a + nfuel b <= fuel ->
  exists s' n, apply_top fuel O op s a b = Ok (s', n) /\ wf_store s' /\ extends s s' /\
    live s' n = true /\ ordered O s' n /\
    (forall x, below O s x a -> below O s x b -> below O s' x n) /\
    forall env, denote s' n env = op (denote s a env) (denote s b env).
Proof.
  intros Hw Hnd Hoa Hob Hla Hlb Hf. rewrite apply_top_eq by assumption.
  apply C17_apply; assumption.
Qed.

Corollary C17_neg_cached O fuel s a :
  wf_store s -> ordered O s a -> live s a = true -> nfuel a <= fuel ->
  exists s' n, neg_top fuel s a = Ok (s', n) /\ wf_store s' /\ extends s s' /\
    live s' n = true /\ ordered O s' n /\
    (forall x, below O s x a -> below O s' x n) /\
    forall env, denote s' n env = negb (denote s a env).
Proof.
  intros Hw Ho Hl Hf. rewrite neg_top_eq by assumption. apply C17_neg; assumption.
Qed.

Corollary C17_cofactor_cached O fuel s a v b :
  wf_store s -> ordered O s a -> live s a = true -> nfuel a <= fuel ->
  exists s' n, cofactor_top fuel s a v b = Ok (s', n) /\ wf_store s' /\ extends s s' /\
    live s' n = true /\ ordered O s' n /\
    (forall x, below O s x a -> below O s' x n) /\
    forall env, denote s' n env = denote s a (env_upd env v b).
Proof.
  intros Hw Ho Hl Hf. rewrite cofactor_top_eq by assumption. apply C17_cofactor; assumption.
Qed.

Print Assumptions apply_top_eq.
Print Assumptions apply_top_eq_gen.
Print Assumptions apply_c_same_op_reuse.
Print Assumptions neg_top_eq.
Print Assumptions cofactor_top_eq.
Print Assumptions cache_reuse_across_operators_wrong.
Print Assumptions C17_apply_cached.
