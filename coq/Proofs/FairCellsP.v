(* FairCellsP.v — the fairness argument as an object of the caller: every call answers for
   the contents its container has at the moment of the call; a library that remembers
   constraints per container ADDRESS is right only as long as no address is reused or edited,
   and wrong as soon as one is. *)
From Coq Require Import List Arith Bool Lia.
Import ListNotations.
From PMC Require Import Spec.Lemmas Model.Heap Model.HeapSession Proofs.KripkeP Proofs.HeapP Proofs.HeapSessionP.
From PMC Require Import Model.FairCells.

Definition query_obj (q : fquery) : hk :=
  match q with QCTLS k _ | QCTL k _ | QLTL k _ => k end.

Lemma call_obj_with_F q F : call_obj (with_F q F) = query_obj q.
Proof. destruct q; reflexivity. Qed.

Lemma run_lower ss : forall h fh, run_fsession h fh ss = run_session h (lower fh ss).
Proof.
  induction ss as [|[a F|a F|q a|l c] r IH]; simpl; intros h fh; auto.
  destruct (run_call h (with_F q (fget fh a))) as [h1 x]. rewrite IH. reflexivity.
Qed.

Lemma spec_lower ss : forall h fh, spec_fsession h fh ss = spec_session h (lower fh ss).
Proof.
  induction ss as [|[a F|a F|q a|l c] r IH]; simpl; intros h fh; auto.
  rewrite IH. reflexivity.
Qed.

Lemma lower_calls ss : forall fh c, In (SCall c) (lower fh ss) ->
  exists q a F, c = with_F q F /\ In (FCall q a) ss.
Proof.
  induction ss as [|[a F|a F|q a|l c0] r IH]; simpl; intros fh c H.
  - contradiction.
  - destruct (IH _ _ H) as (q & a' & F' & -> & Hin). exists q, a', F'. auto.
  - destruct (IH _ _ H) as (q & a' & F' & -> & Hin). exists q, a', F'. auto.
  - destruct H as [H|H].
    + inversion H; subst. exists q, a, (fget fh a). auto.
    + destruct (IH _ _ H) as (q' & a' & F' & -> & Hin). exists q', a', F'. auto.
  - destruct H as [H|H]; [discriminate H|].
    destruct (IH _ _ H) as (q & a' & F' & -> & Hin). exists q, a', F'. auto.
Qed.

(* the caller's heap: only FWrite steps count *)
Definition fcaller_heap (h : heap) (fh : fheap) (ss : list fstep) : heap :=
  caller_heap h (lower fh ss).

Theorem fsession h0 fh ss h' rs :
  (forall q a, In (FCall q a) ss -> valid h0 (query_obj q)) ->
  run_fsession h0 fh ss = (h', rs) ->
  rs = spec_fsession h0 fh ss /\
  (forall l, allocated (fcaller_heap h0 fh ss) l -> hget h' l = hget (fcaller_heap h0 fh ss) l) /\
  (forall k, valid h0 k -> valid h' k /\ abs h' k = abs (fcaller_heap h0 fh ss) k).
Proof.
  intros Hv H. rewrite run_lower in H. rewrite spec_lower. unfold fcaller_heap.
  apply session; [|exact H].
  intros c Hc. destruct (lower_calls _ _ _ Hc) as (q & a & F & -> & Hin).
  rewrite call_obj_with_F. eapply Hv; eauto.
Qed.

(* the answer of a call is a function of the CONTENTS of its container: two sessions that
   differ only in the addresses at which the same contents live give the same answers *)
Lemma spec_fsession_contents ss1 : forall ss2 h fh1 fh2,
  lower fh1 ss1 = lower fh2 ss2 -> spec_fsession h fh1 ss1 = spec_fsession h fh2 ss2.
Proof. intros. rewrite !spec_lower. congruence. Qed.

Lemma run_fsession_contents ss1 ss2 h fh1 fh2 :
  lower fh1 ss1 = lower fh2 ss2 -> run_fsession h fh1 ss1 = run_fsession h fh2 ss2.
Proof. intros. rewrite !run_lower. congruence. Qed.

(* ---- the address-keyed cache ---- *)
Lemma fget_fset_other fh a F x : x <> a -> fget (fset fh a F) x = fget fh x.
Proof.
  intros Hx. unfold fset. simpl. destruct (Nat.eqb a x) eqn:E; [|reflexivity].
  apply Nat.eqb_eq in E. congruence.
Qed.

Definition cache_sound (used : list loc) (fh cache : fheap) : Prop :=
  forall a F, cache_get cache a = Some F -> In a used /\ F = fget fh a.

Lemma memb_nat_false a l : memb a l = false -> ~ In a l.
Proof. intros H Hin. apply kp_memb_In in Hin. congruence. Qed.

Theorem idcache_ok_without_reuse ss : forall used h fh cache,
  no_reuse used ss = true -> cache_sound used fh cache ->
  run_fsession_idcache h fh cache ss = run_fsession h fh ss.
Proof.
  induction ss as [|[a F|a F|q a|l c] r IH]; simpl; intros used h fh cache Hn Hc; auto.
  - apply andb_true_iff in Hn. destruct Hn as [Ha Hn]. apply negb_true_iff in Ha.
    apply (IH used); [exact Hn|].
    intros x G Hx. destruct (Hc x G Hx) as [Hin ->]. split; [exact Hin|].
    symmetry. apply fget_fset_other. intros ->. exact (memb_nat_false _ _ Ha Hin).
  - apply andb_true_iff in Hn. destruct Hn as [Ha Hn]. apply negb_true_iff in Ha.
    apply (IH used); [exact Hn|].
    intros x G Hx. destruct (Hc x G Hx) as [Hin ->]. split; [exact Hin|].
    symmetry. apply fget_fset_other. intros ->. exact (memb_nat_false _ _ Ha Hin).
  - destruct (cache_get cache a) as [G|] eqn:E.
    + destruct (Hc a G E) as [Hin ->].
      destruct (run_call h (with_F q (fget fh a))) as [h1 x].
      rewrite (IH (a :: used) h1 fh cache); [reflexivity|exact Hn|].
      intros y G Hy. destruct (Hc y G Hy) as [Hy1 ->]. split; [right; exact Hy1|reflexivity].
    + destruct (run_call h (with_F q (fget fh a))) as [h1 x].
      rewrite (IH (a :: used) h1 fh ((a, fget fh a) :: cache)); [reflexivity|exact Hn|].
      intros y G Hy. simpl in Hy. destruct (Nat.eqb a y) eqn:Ey.
      * apply Nat.eqb_eq in Ey. subst y. inversion Hy; subst. split; [left; reflexivity|reflexivity].
      * destruct (Hc y G Hy) as [Hy1 ->]. split; [right; exact Hy1|reflexivity].
  - apply (IH used); assumption.
Qed.

Module FairCellExamples.
Import Examples.
(* E G true on the two-state structure of Examples (one strongly connected component {0, 1}) *)
Definition q : fquery := QCTL k0 (FE (FG (FBool true))).
(* a temporary container at address 7 asking for state 0 infinitely often; it dies; the next
   temporary gets the same address and holds the EMPTY constraint, which no path can meet *)
Definition temporaries : list fstep := [FNew 7 [[0]]; FCall q 7; FNew 7 [[]]; FCall q 7].
(* the same with ONE container edited in place *)
Definition edited : list fstep := [FNew 7 [[0]]; FCall q 7; FEdit 7 [[]]; FCall q 7].

Lemma temporaries_answers :
  snd (run_fsession h0 [] temporaries) = [Ok [0; 1]; Ok []] /\
  spec_fsession h0 [] temporaries = [Ok [0; 1]; Ok []] /\
  snd (run_fsession h0 [] edited) = [Ok [0; 1]; Ok []].
Proof. vm_compute. auto. Qed.

Lemma idcache_answers :
  snd (run_fsession_idcache h0 [] [] temporaries) = [Ok [0; 1]; Ok [0; 1]] /\
  snd (run_fsession_idcache h0 [] [] edited) = [Ok [0; 1]; Ok [0; 1]].
Proof. vm_compute. auto. Qed.

Lemma premises_hold : forall q0 a, In (FCall q0 a) temporaries -> valid h0 (query_obj q0).
Proof.
  intros q0 a [H|[H|[H|[H|[]]]]]; try discriminate H; inversion H; subst; exact k0_valid.
Qed.

Lemma idcache_not_spec :
  ~ (forall h fh ss, snd (run_fsession_idcache h fh [] ss) = spec_fsession h fh ss).
Proof.
  intros H. specialize (H h0 [] temporaries).
  rewrite (proj1 idcache_answers) in H. rewrite (proj1 (proj2 temporaries_answers)) in H.
  discriminate H.
Qed.

(* the proviso of idcache_ok_without_reuse holds for sessions that use every address once *)
Lemma fresh_addresses_ok :
  no_reuse [] [FNew 7 [[0]]; FCall q 7; FNew 8 [[]]; FCall q 8] = true /\
  no_reuse [] temporaries = false /\ no_reuse [] edited = false.
Proof. vm_compute. auto. Qed.
End FairCellExamples.
