(* SccP.v — correctness of the model of compute_SCCs (Model/Scc.v):
     Theorem scc_correct : scc_correct_stmt.
   Proof structure: a state invariant [Inv gs s] ([gs] = gray nodes = the current
   call stack, newest first) plus a relational post-condition [Post] for [visit]
   (Chen-Cohen-Levy-Merz-Thery style): the part of [sstk] pushed during a visit of v
   only has edges to older unassigned nodes whose disc is >= the stored lowlink of v.
   Notes: (1) in this variant a node is pushed on [sstk] when it FINISHES, so [sstk] is in
   post-order and NOT sorted by disc; [pop_while] is handled through the split
   sstk = new ++ old (all of new newer than v, all of old older) instead.
   (2) [i_low] merges "lowlink soundness" and "every sstk node reaches an older gray node":
   x on sstk reaches a gray y with disc y <= low x < disc x.
   (3) fuel: [white s] = number of undiscovered nodes of g, strictly below the fuel. *)
From Coq Require Import List Arith Bool Lia.
From PMC Require Import Model.Scc Spec.GraphSpec.
Import ListNotations.

(* ------------------------------------------------------------------ *)
(* generic helpers *)

Lemma memb_In x l : memb x l = true <-> In x l.
Proof.
  unfold memb. rewrite existsb_exists. split.
  - intros (y & Hy & E). apply Nat.eqb_eq in E. subst; auto.
  - intros H. exists x. split; auto. apply Nat.eqb_refl.
Qed.

Lemma memb_nIn x l : memb x l = false <-> ~ In x l.
Proof.
  rewrite <- memb_In. destruct (memb x l); split; congruence.
Qed.

Lemma reaches_trans g x y z : reaches g x y -> reaches g y z -> reaches g x z.
Proof.
  intros H1 H2. induction H2 as [y|y z w H2 IH He].
  - exact H1.
  - eapply r_step; [apply IH; exact H1|exact He].
Qed.

Lemma reaches_edge g x y : edge g x y -> reaches g x y.
Proof. intros H. eapply r_step; [apply r_refl|exact H]. Qed.

Lemma has_upd m k v x : has (upd m k v) x = true <-> x = k \/ has m x = true.
Proof.
  unfold has, upd. destruct (Nat.eqb x k) eqn:E.
  - apply Nat.eqb_eq in E. split; auto.
  - apply Nat.eqb_neq in E. split; auto. intros [H|H]; [contradiction|exact H].
Qed.

Lemma get_upd_eq m k v : get (upd m k v) k = v.
Proof. unfold get, upd. rewrite Nat.eqb_refl. reflexivity. Qed.

Lemma get_upd_neq m k v x : x <> k -> get (upd m k v) x = get m x.
Proof. intros H. unfold get, upd. apply Nat.eqb_neq in H. rewrite H. reflexivity. Qed.

Lemma upd_neq m k v x : x <> k -> upd m k v x = m x.
Proof. intros H. unfold upd. apply Nat.eqb_neq in H. rewrite H. reflexivity. Qed.

(* strictly decreasing w.r.t. a key function, newest (largest key) first *)
Fixpoint dsorted (f : nat -> nat) (l : list nat) : Prop :=
  match l with
  | [] => True
  | a :: r => (forall y, In y r -> f y < f a) /\ dsorted f r
  end.

Lemma dsorted_ext f f' l : (forall x, In x l -> f' x = f x) -> dsorted f l -> dsorted f' l.
Proof.
  induction l as [|a r IH]; simpl; intros He Hs; auto.
  destruct Hs as [H1 H2]. split.
  - intros y Hy. rewrite !He by auto. auto.
  - apply IH; auto.
Qed.

(* pop_while removes exactly a prefix of newer nodes *)
Lemma pop_while_app (dm : nmap) dv : forall pre rest acc,
  (forall k, In k pre -> dv < get dm k) ->
  (forall k, In k rest -> get dm k <= dv) ->
  pop_while dm dv (pre ++ rest) acc = (acc ++ pre, rest).
Proof.
  induction pre as [|k pre IH]; intros rest acc Hp Hr.
  - rewrite app_nil_r. simpl. destruct rest as [|k rest]; auto.
    simpl. assert (E : Nat.ltb dv (get dm k) = false).
    { apply Nat.ltb_ge. apply Hr. left; auto. }
    rewrite E. reflexivity.
  - simpl. assert (E : Nat.ltb dv (get dm k) = true).
    { apply Nat.ltb_lt. apply Hp. left; auto. }
    rewrite E. rewrite IH; auto.
    + rewrite <- app_assoc. reflexivity.
    + intros k' Hk'. apply Hp. right; auto.
Qed.

(* ------------------------------------------------------------------ *)
Section SCC.
Variable g : graph.
Hypothesis wf : wf_graph g.

Definition Dsc (s : st) x := has (disc s) x = true.
Definition dn (s : st) x := get (disc s) x.
Definition ln (s : st) x := get (low s) x.
Definition Un (gs : list nat) (s : st) x := In x gs \/ In x (sstk s).

Record Inv (gs : list nat) (s : st) : Prop := {
  i_dom    : forall x, Dsc s x <-> In x (inscc s) \/ In x (sstk s) \/ In x gs;
  i_dis1   : forall x, In x (inscc s) -> In x (sstk s) -> False;
  i_dis2   : forall x, In x (inscc s) -> In x gs -> False;
  i_dis3   : forall x, In x (sstk s) -> In x gs -> False;
  i_nds    : NoDup (sstk s);
  i_nodes  : forall x, Dsc s x -> In x (nodes g);
  i_flat   : forall x, In x (inscc s) <-> In x (concat (out s));
  i_nodup  : NoDup (concat (out s));
  i_scc    : forall c x, In c (out s) -> In x c -> forall y, In y c <-> mutual g x y;
  i_closed : forall x y, In x (inscc s) -> edge g x y -> In y (inscc s);
  i_black  : forall x y, In x (sstk s) -> edge g x y -> Dsc s y;
  i_greach : forall y x, In y gs -> Un gs s x -> dn s y <= dn s x -> reaches g y x;
  i_low    : forall x, In x (sstk s) ->
               ln s x < dn s x /\ exists y, In y gs /\ dn s y <= ln s x /\ reaches g x y;
  i_time   : forall x, Dsc s x -> dn s x <= time s;
  i_gsort  : dsorted (dn s) gs;
  i_glow   : forall y, In y gs -> ln s y = dn s y
}.

Lemma Un_Dsc gs s x : Inv gs s -> Un gs s x -> Dsc s x.
Proof. intros I [H|H]; apply (i_dom _ _ I); auto. Qed.

Lemma Inv_nil_sstk s : Inv [] s -> sstk s = [].
Proof.
  intros I. destruct (sstk s) as [|x r] eqn:E; auto.
  destruct (i_low _ _ I x) as (_ & y & [] & _). rewrite E. left; auto.
Qed.

(* ---------------- discover ---------------- *)
Lemma Dsc_discover w t s x : Dsc (discover w t s) x <-> x = w \/ Dsc s x.
Proof. unfold Dsc, discover. cbn [disc]. apply has_upd. Qed.

Lemma dn_discover_eq w t s : dn (discover w t s) w = t.
Proof. unfold dn, discover. cbn [disc]. apply get_upd_eq. Qed.
Lemma dn_discover_neq w t s x : x <> w -> dn (discover w t s) x = dn s x.
Proof. unfold dn, discover. cbn [disc]. apply get_upd_neq. Qed.
Lemma ln_discover_eq w t s : ln (discover w t s) w = t.
Proof. unfold ln, discover. cbn [low]. apply get_upd_eq. Qed.
Lemma ln_discover_neq w t s x : x <> w -> ln (discover w t s) x = ln s x.
Proof. unfold ln, discover. cbn [low]. apply get_upd_neq. Qed.

Lemma discover_inv gs s w t :
  Inv gs s -> ~ Dsc s w -> In w (nodes g) -> time s <= t ->
  (forall x, Un gs s x -> dn s x < t) ->
  (forall y, In y gs -> reaches g y w) ->
  Inv (w :: gs) (discover w t s).
Proof.
  intros I Hw Hn Ht Hlt Hr.
  assert (Hne : forall x, Dsc s x -> x <> w) by (intros x Hx ->; auto).
  assert (HgD : forall x, In x gs -> x <> w).
  { intros x Hx. apply Hne. apply (i_dom _ _ I); auto. }
  assert (HsD : forall x, In x (sstk s) -> x <> w).
  { intros x Hx. apply Hne. apply (i_dom _ _ I); auto. }
  assert (HiD : forall x, In x (inscc s) -> x <> w).
  { intros x Hx. apply Hne. apply (i_dom _ _ I); auto. }
  constructor.
  - intros x. rewrite Dsc_discover, (i_dom _ _ I). cbn [discover inscc sstk]. simpl. intuition.
  - cbn [discover inscc sstk]. apply (i_dis1 _ _ I).
  - cbn [discover inscc sstk]. intros x Hx [<-|H].
    + eapply HiD; eauto.
    + eapply (i_dis2 _ _ I); eauto.
  - cbn [discover inscc sstk]. intros x Hx [<-|H].
    + eapply HsD; eauto.
    + eapply (i_dis3 _ _ I); eauto.
  - cbn [discover sstk]. apply (i_nds _ _ I).
  - intros x Hx. apply Dsc_discover in Hx. destruct Hx as [->|Hx]; auto. apply (i_nodes _ _ I); auto.
  - cbn [discover inscc out]. apply (i_flat _ _ I).
  - cbn [discover out]. apply (i_nodup _ _ I).
  - cbn [discover out]. apply (i_scc _ _ I).
  - cbn [discover inscc]. apply (i_closed _ _ I).
  - cbn [discover sstk]. intros x y Hx He. apply Dsc_discover. right. eapply (i_black _ _ I); eauto.
  - intros y x Hy Hx Hle.
    assert (Hx' : x = w \/ Un gs s x).
    { destruct Hx as [[<-|Hx]|Hx]; [left; auto|right; left; auto|right; right; exact Hx]. }
    destruct Hy as [<-|Hy].
    + destruct Hx' as [->|Hx']; [apply r_refl|].
      exfalso. rewrite dn_discover_eq in Hle.
      assert (x <> w) by (apply Hne; eapply Un_Dsc; eauto).
      rewrite dn_discover_neq in Hle by auto. specialize (Hlt x Hx'). lia.
    + destruct Hx' as [->|Hx']; [apply Hr; auto|].
      assert (x <> w) by (apply Hne; eapply Un_Dsc; eauto).
      rewrite !dn_discover_neq in Hle by auto.
      apply (i_greach _ _ I); auto.
  - cbn [discover sstk]. intros x Hx. specialize (HsD x Hx).
    rewrite ln_discover_neq, dn_discover_neq by auto.
    destruct (i_low _ _ I x Hx) as (H1 & y & Hy & H2 & H3). split; auto.
    exists y. split; [right; auto|]. rewrite dn_discover_neq by auto. auto.
  - intros x Hx. cbn [discover time]. apply Dsc_discover in Hx. destruct Hx as [->|Hx].
    + rewrite dn_discover_eq. lia.
    + rewrite dn_discover_neq by auto. specialize (i_time _ _ I x Hx). lia.
  - simpl. split.
    + intros y Hy. rewrite dn_discover_eq, dn_discover_neq by auto. apply Hlt. left; auto.
    + apply dsorted_ext with (f := dn s); [|apply (i_gsort _ _ I)].
      intros x Hx. apply dn_discover_neq; auto.
  - intros y [<-|Hy].
    + rewrite ln_discover_eq, dn_discover_eq. reflexivity.
    + rewrite ln_discover_neq, dn_discover_neq by auto. apply (i_glow _ _ I); auto.
Qed.

(* ---------------- finish: the lowlink fold ---------------- *)
Lemma low_step_spec s dv i w :
  low_step s dv i w <= i /\
  (~ In w (inscc s) -> (dv < dn s w -> low_step s dv i w <= ln s w) /\
                       (dn s w <= dv -> low_step s dv i w <= dn s w)) /\
  (low_step s dv i w = i \/
   (~ In w (inscc s) /\ ((dv < dn s w /\ low_step s dv i w = ln s w) \/
                         (dn s w <= dv /\ low_step s dv i w = dn s w)))).
Proof.
  unfold low_step, dn, ln. destruct (memb w (inscc s)) eqn:E.
  - apply memb_In in E. split; [lia|]. split; [tauto|]. left; auto.
  - apply memb_nIn in E. destruct (Nat.ltb dv (get (disc s) w)) eqn:E2.
    + apply Nat.ltb_lt in E2. split; [lia|]. split; [intros _; split; lia|].
      destruct (Nat.min_spec i (get (low s) w)) as [[H1 H2]|[H1 H2]]; rewrite H2.
      * left; auto.
      * right. split; auto.
    + apply Nat.ltb_ge in E2. split; [lia|]. split; [intros _; split; lia|].
      destruct (Nat.min_spec i (get (disc s) w)) as [[H1 H2]|[H1 H2]]; rewrite H2.
      * left; auto.
      * right. split; auto.
Qed.

Lemma low_fold_spec s dv : forall ws i,
  fold_left (low_step s dv) ws i <= i /\
  (forall w, In w ws -> ~ In w (inscc s) ->
     (dv < dn s w -> fold_left (low_step s dv) ws i <= ln s w) /\
     (dn s w <= dv -> fold_left (low_step s dv) ws i <= dn s w)) /\
  (fold_left (low_step s dv) ws i = i \/
   exists w, In w ws /\ ~ In w (inscc s) /\
     ((dv < dn s w /\ fold_left (low_step s dv) ws i = ln s w) \/
      (dn s w <= dv /\ fold_left (low_step s dv) ws i = dn s w))).
Proof.
  induction ws as [|w ws IH]; intros i.
  - simpl. split; [lia|]. split; [intros w []|left; auto].
  - simpl. destruct (IH (low_step s dv i w)) as (A & B & C).
    destruct (low_step_spec s dv i w) as (A' & B' & C').
    split; [lia|]. split.
    + intros w' [<-|Hw'] Hn.
      * destruct (B' Hn) as [B1 B2]. split; intros H; [specialize (B1 H)|specialize (B2 H)]; lia.
      * apply B; auto.
    + destruct C as [C|(w' & Hw' & Hn & C)].
      * rewrite C. destruct C' as [C'|(Hn & C')]; [left; auto|].
        right. exists w. split; [left; auto|]. split; auto.
      * right. exists w'. split; [right; auto|]. split; auto.
Qed.

Definition lowv (v : nat) (s : st) : nat :=
  fold_left (low_step s (get (disc s) v)) (succs g v) (get (low s) v).

Lemma finish_nonroot v s : lowv v s <> dn s v ->
  finish g v s = mkst (disc s) (upd (low s) v (lowv v s)) (inscc s) (v :: sstk s) (time s) (out s).
Proof.
  intros H. apply Nat.eqb_neq in H. unfold finish, lowv, dn in *. cbv zeta. rewrite H. reflexivity.
Qed.

Lemma finish_root v s popped stk' : lowv v s = dn s v ->
  pop_while (disc s) (dn s v) (sstk s) [] = (popped, stk') ->
  finish g v s = mkst (disc s) (upd (low s) v (lowv v s)) (popped ++ v :: inscc s) stk'
                      (time s) (out s ++ [v :: popped]).
Proof.
  intros H Hp. apply Nat.eqb_eq in H. unfold finish, lowv, dn in *. cbv zeta. rewrite H, Hp. reflexivity.
Qed.


Lemma inscc_reach gs s x y : Inv gs s -> In x (inscc s) -> reaches g x y -> In y (inscc s).
Proof.
  intros I Hx Hr. induction Hr as [x|x y z Hr IH He]; auto.
  apply (i_closed _ _ I y z); auto.
Qed.

Lemma NoDup_app_intro (a b : list nat) :
  NoDup a -> NoDup b -> (forall x, In x a -> In x b -> False) -> NoDup (a ++ b).
Proof.
  induction a as [|x a IH]; simpl; intros Ha Hb Hd; auto.
  inversion Ha as [|x' a' Hx Ha']; subst. constructor.
  - rewrite in_app_iff. intros [H|H]; [auto|]. eapply Hd; eauto.
  - apply IH; auto. intros y Hy. apply Hd. auto.
Qed.

Lemma NoDup_app_inv (a b : list nat) : NoDup (a ++ b) -> NoDup a /\ NoDup b.
Proof.
  induction a as [|x a IH]; simpl; intros H.
  - split; [constructor|auto].
  - inversion H as [|x' l' Hx Hl]; subst. destruct (IH Hl) as [Ha Hb]. split; auto.
    constructor; auto. intros Hi. apply Hx. apply in_or_app; auto.
Qed.

(* ---------------- post-condition of visit / loop invariant ---------------- *)
Definition Post (s0 : st) (v : nat) (gs : list nat) (s' : st) : Prop :=
  Inv gs s' /\
  (forall x, Dsc s0 x -> disc s' x = disc s0 x) /\
  (forall x, Dsc s0 x -> x <> v -> low s' x = low s0 x) /\
  time s0 <= time s' /\
  (forall x, Dsc s' x -> ~ Dsc s0 x -> dn s0 v < dn s' x) /\
  exists new, sstk s' = new ++ sstk s0 /\
    (forall x, In x new -> dn s0 v <= dn s' x) /\
    (forall x, In x new ->
       In v new /\ forall z, edge g x z -> Un gs s0 z -> ln s' v <= dn s0 z).

Definition Q (s0 : st) (v : nat) (gs : list nat) (s : st) : Prop :=
  Inv (v :: gs) s /\
  (forall x, Dsc s0 x -> disc s x = disc s0 x) /\
  (forall x, Dsc s0 x -> low s x = low s0 x) /\
  time s0 <= time s /\
  (forall x, Dsc s x -> ~ Dsc s0 x -> dn s0 v < dn s x) /\
  exists new, sstk s = new ++ sstk s0 /\
    (forall x, In x new -> dn s0 v < dn s x) /\
    (forall x z, In x new -> edge g x z -> Un gs s0 z ->
       exists w, edge g v w /\ In w new /\ ln s w <= dn s0 z).

Section Finish.
Variables (s0 : st) (v : nat) (gs : list nat) (s : st) (new : list nat).
Hypothesis I0 : Inv (v :: gs) s0.
Hypothesis Hold : forall x, In x (sstk s0) -> dn s0 x < dn s0 v.
Hypothesis I : Inv (v :: gs) s.
Hypothesis Hdisc : forall x, Dsc s0 x -> disc s x = disc s0 x.
Hypothesis Hlow : forall x, Dsc s0 x -> low s x = low s0 x.
Hypothesis Htime : time s0 <= time s.
Hypothesis Hnewer : forall x, Dsc s x -> ~ Dsc s0 x -> dn s0 v < dn s x.
Hypothesis Hstk : sstk s = new ++ sstk s0.
Hypothesis Hnew : forall x, In x new -> dn s0 v < dn s x.
Hypothesis Hcomp : forall x z, In x new -> edge g x z -> Un gs s0 z ->
   exists w, edge g v w /\ In w new /\ ln s w <= dn s0 z.
Hypothesis Hsucc : forall w, edge g v w -> Dsc s w.

Lemma f_Dv0 : Dsc s0 v.
Proof. apply (i_dom _ _ I0). right; right; left; auto. Qed.

Lemma f_dn x : Dsc s0 x -> dn s x = dn s0 x.
Proof. intros H. unfold dn, get. rewrite Hdisc; auto. Qed.

Lemma f_dv : dn s v = dn s0 v.
Proof. apply f_dn, f_Dv0. Qed.

Lemma f_new_stk x : In x new -> In x (sstk s).
Proof. intros H. rewrite Hstk. apply in_or_app; auto. Qed.

Lemma f_old_stk x : In x (sstk s0) -> In x (sstk s).
Proof. intros H. rewrite Hstk. apply in_or_app; auto. Qed.

Lemma f_old z : Un gs s0 z ->
  Dsc s0 z /\ dn s z = dn s0 z /\ dn s0 z < dn s0 v /\ ~ In z (inscc s) /\ Un gs s z.
Proof.
  intros Hz.
  assert (HD : Dsc s0 z).
  { eapply Un_Dsc; [exact I0|]. destruct Hz as [H|H]; [left; right; auto|right; auto]. }
  split; auto. split; [apply f_dn; auto|]. split; [|split].
  - destruct Hz as [H|H]; [|apply Hold; auto].
    destruct (i_gsort _ _ I0) as [H1 _]. apply H1; auto.
  - intros Hi. destruct Hz as [H|H].
    + eapply (i_dis2 _ _ I); [exact Hi|right; auto].
    + eapply (i_dis1 _ _ I); [exact Hi|apply f_old_stk; auto].
  - destruct Hz as [H|H]; [left; auto|right; apply f_old_stk; auto].
Qed.

Lemma f_gs_lt y : In y gs -> dn s y < dn s v.
Proof. intros H. destruct (i_gsort _ _ I) as [H1 _]. apply H1; auto. Qed.

Lemma f_lv_le : lowv v s <= dn s v.
Proof.
  unfold lowv. destruct (low_fold_spec s (get (disc s) v) (succs g v) (get (low s) v)) as (A & _).
  assert (E : ln s v = dn s v) by (apply (i_glow _ _ I); left; auto).
  unfold ln, dn in *. lia.
Qed.

Lemma f_lv_succ w : edge g v w -> ~ In w (inscc s) ->
  (dn s v < dn s w -> lowv v s <= ln s w) /\ (dn s w <= dn s v -> lowv v s <= dn s w).
Proof.
  intros He Hn. unfold lowv.
  destruct (low_fold_spec s (get (disc s) v) (succs g v) (get (low s) v)) as (_ & B & _).
  apply B; auto.
Qed.

Lemma f_complete x z : In x (v :: new) -> edge g x z -> Un gs s0 z -> lowv v s <= dn s0 z.
Proof.
  intros Hx He Hz. destruct (f_old z Hz) as (HD & E & Hlt & Hn & HU).
  destruct Hx as [<-|Hx].
  - destruct (f_lv_succ z He Hn) as [_ H]. rewrite <- E. apply H. rewrite E, f_dv. lia.
  - destruct (Hcomp x z Hx He Hz) as (w & Hw & Hwn & Hle).
    assert (Hnw : ~ In w (inscc s)).
    { intros Hi. eapply (i_dis1 _ _ I); [exact Hi|apply f_new_stk; auto]. }
    destruct (f_lv_succ w Hw Hnw) as [H _].
    specialize (Hnew w Hwn). rewrite <- f_dv in Hnew. specialize (H Hnew). lia.
Qed.

Lemma f_sound : lowv v s < dn s v ->
  exists y, In y gs /\ dn s y <= lowv v s /\ reaches g v y.
Proof.
  intros Hlt. unfold lowv in *.
  destruct (low_fold_spec s (get (disc s) v) (succs g v) (get (low s) v)) as (_ & _ & C).
  set (lv := fold_left (low_step s (get (disc s) v)) (succs g v) (get (low s) v)) in *.
  assert (Eg : ln s v = dn s v) by (apply (i_glow _ _ I); left; auto).
  destruct C as [C|(w & Hw & Hn & C)].
  - exfalso. unfold ln, dn in *. lia.
  - fold (dn s v) in C.
    assert (HDw : Dsc s w) by (apply Hsucc; exact Hw).
    apply (i_dom _ _ I) in HDw. destruct HDw as [Hi|[Hk|Hg]]; [contradiction| |].
    + (* w on sstk *)
      destruct (i_low _ _ I w Hk) as (L1 & y & Hy & L2 & L3).
      assert (Hyv : dn s y < dn s v) by (destruct C as [[C1 C2]|[C1 C2]]; lia).
      destruct Hy as [<-|Hy]; [lia|].
      exists y. split; auto. split.
      * destruct C as [[C1 C2]|[C1 C2]]; lia.
      * eapply reaches_trans; [apply reaches_edge; exact Hw|exact L3].
    + (* w gray *)
      destruct Hg as [<-|Hg].
      * exfalso. destruct C as [[C1 C2]|[C1 C2]]; lia.
      * specialize (f_gs_lt w Hg). intros Hwv.
        exists w. split; auto. split.
        -- destruct C as [[C1 C2]|[C1 C2]]; lia.
        -- apply reaches_edge; exact Hw.
Qed.

Lemma nonroot_post s' :
  lowv v s <> dn s v ->
  disc s' = disc s -> low s' = upd (low s) v (lowv v s) -> inscc s' = inscc s ->
  sstk s' = v :: sstk s -> time s' = time s -> out s' = out s ->
  Post s0 v gs s'.
Proof.
  intros Hne E1 E2 E3 E4 E5 E6.
  assert (Hlt : lowv v s < dn s v) by (specialize f_lv_le; lia).
  assert (Ed : forall x, dn s' x = dn s x) by (intros x; unfold dn; rewrite E1; reflexivity).
  assert (ED : forall x, Dsc s' x <-> Dsc s x) by (intros x; unfold Dsc; rewrite E1; tauto).
  assert (El : forall x, x <> v -> ln s' x = ln s x).
  { intros x Hx. unfold ln. rewrite E2. apply get_upd_neq; auto. }
  assert (Elv : ln s' v = lowv v s) by (unfold ln; rewrite E2; apply get_upd_eq).
  assert (Hvg : forall y, In y gs -> y <> v).
  { intros y Hy ->. specialize (f_gs_lt v Hy). lia. }
  assert (Hvs : forall x, In x (sstk s) -> x <> v).
  { intros x Hx ->. eapply (i_dis3 _ _ I); [exact Hx|left; auto]. }
  destruct (f_sound Hlt) as (y0 & Hy0 & Ly0 & Ry0).
  split; [|split; [|split; [|split; [|split]]]].
  - constructor; rewrite ?E3, ?E4, ?E5, ?E6.
    + intros x. rewrite ED, (i_dom _ _ I). simpl. tauto.
    + intros x Hx [<-|H].
      * eapply (i_dis2 _ _ I); [exact Hx|left; auto].
      * eapply (i_dis1 _ _ I); eauto.
    + intros x Hx H. eapply (i_dis2 _ _ I); [exact Hx|right; auto].
    + intros x [<-|Hx] H.
      * eapply Hvg; eauto.
      * eapply (i_dis3 _ _ I); [exact Hx|right; auto].
    + constructor; [|apply (i_nds _ _ I)]. intros H. eapply Hvs; eauto.
    + intros x Hx. apply ED in Hx. apply (i_nodes _ _ I); auto.
    + apply (i_flat _ _ I).
    + apply (i_nodup _ _ I).
    + apply (i_scc _ _ I).
    + apply (i_closed _ _ I).
    + intros x y [<-|Hx] He; apply ED.
      * apply Hsucc; auto.
      * eapply (i_black _ _ I); eauto.
    + intros y x Hy Hx Hle. rewrite !Ed in Hle. apply (i_greach _ _ I); auto.
      * right; auto.
      * unfold Un in *. rewrite E4 in Hx. simpl in *. tauto.
    + intros x [<-|Hx].
      * rewrite Elv, Ed. split; auto. exists y0. rewrite Ed. auto.
      * rewrite El, Ed by auto.
        destruct (i_low _ _ I x Hx) as (L1 & y & Hy & L2 & L3). split; auto.
        destruct Hy as [<-|Hy].
        -- exists y0. rewrite Ed. split; auto. split; [lia|].
           eapply reaches_trans; eauto.
        -- exists y. rewrite Ed. auto.
    + intros x Hx. apply ED in Hx. rewrite Ed. apply (i_time _ _ I); auto.
    + apply dsorted_ext with (f := dn s); [intros; apply Ed|]. apply (i_gsort _ _ I).
    + intros y Hy. rewrite El, Ed by auto. apply (i_glow _ _ I). right; auto.
  - intros x Hx. rewrite E1. apply Hdisc; auto.
  - intros x Hx Hxv. rewrite E2, upd_neq by auto. apply Hlow; auto.
  - lia.
  - intros x Hx Hn. apply ED in Hx. rewrite Ed. apply Hnewer; auto.
  - exists (v :: new). split; [rewrite E4, Hstk; reflexivity|]. split.
    + intros x [<-|Hx]; rewrite Ed; [rewrite f_dv; lia|]. specialize (Hnew x Hx). lia.
    + intros x Hx. split; [left; auto|]. intros z He Hz. rewrite Elv.
      eapply f_complete; eauto.
Qed.

Lemma f_pop : pop_while (disc s) (dn s v) (sstk s) [] = (new, sstk s0).
Proof.
  rewrite Hstk. rewrite pop_while_app; auto.
  - intros k Hk. specialize (Hnew k Hk). rewrite f_dv. exact Hnew.
  - intros k Hk. destruct (f_old k) as (_ & E & Hlt & _); [right; auto|].
    fold (dn s k). rewrite E, f_dv. lia.
Qed.

Section Root.
Hypothesis Hroot : lowv v s = dn s v.

Lemma f_closed x y : In x (new ++ v :: inscc s) -> edge g x y -> In y (new ++ v :: inscc s).
Proof.
  intros Hx He.
  assert (Hx' : In x (inscc s) \/ In x (v :: new)).
  { apply in_app_or in Hx. simpl in *. tauto. }
  destruct Hx' as [Hx'|Hx'].
  { apply in_or_app. right. right. eapply (i_closed _ _ I); eauto. }
  assert (HDy : Dsc s y).
  { destruct Hx' as [<-|Hx']; [apply Hsucc; auto|].
    eapply (i_black _ _ I); [apply f_new_stk; exact Hx'|exact He]. }
  assert (Hcontra : Un gs s0 y -> False).
  { intros Hy. specialize (f_complete x y Hx' He Hy). intros Hle.
    destruct (f_old y Hy) as (_ & _ & Hlt & _). rewrite Hroot, f_dv in Hle. lia. }
  apply (i_dom _ _ I) in HDy. destruct HDy as [Hi|[Hk|Hg]].
  - apply in_or_app. right. right. auto.
  - rewrite Hstk in Hk. apply in_app_or in Hk. destruct Hk as [Hk|Hk].
    + apply in_or_app. left; auto.
    + exfalso. apply Hcontra. right; auto.
  - destruct Hg as [<-|Hg].
    + apply in_or_app. right. left. auto.
    + exfalso. apply Hcontra. left; auto.
Qed.

Lemma f_reach_closed x y :
  reaches g x y -> In x (new ++ v :: inscc s) -> In y (new ++ v :: inscc s).
Proof.
  intros Hr Hx. induction Hr as [x|x y z Hr IH He]; auto.
  apply (f_closed y z); auto.
Qed.

Lemma f_class_sound x : In x (v :: new) -> mutual g v x.
Proof.
  intros [<-|Hx]; [split; apply r_refl|].
  assert (Hk : In x (sstk s)) by (apply f_new_stk; auto).
  split.
  - apply (i_greach _ _ I); [left; auto|right; auto|]. specialize (Hnew x Hx). rewrite f_dv. lia.
  - destruct (i_low _ _ I x Hk) as (_ & y & Hy & _ & L3).
    destruct Hy as [<-|Hy]; auto.
    eapply reaches_trans; [exact L3|].
    apply (i_greach _ _ I); [right; auto|left; left; auto|]. specialize (f_gs_lt y Hy). lia.
Qed.

Lemma f_class_complete y : mutual g v y -> In y (v :: new).
Proof.
  intros [H1 H2]. apply f_reach_closed in H1; [|apply in_or_app; right; left; auto].
  apply in_app_or in H1.
  destruct H1 as [H1|[H1|H1]]; [right; auto|left; auto|].
  exfalso. eapply (i_dis2 _ _ I v); [|left; auto].
  eapply inscc_reach; eauto.
Qed.

Lemma root_post s' :
  disc s' = disc s -> low s' = upd (low s) v (lowv v s) -> inscc s' = new ++ v :: inscc s ->
  sstk s' = sstk s0 -> time s' = time s -> out s' = out s ++ [v :: new] ->
  Post s0 v gs s'.
Proof.
  intros E1 E2 E3 E4 E5 E6.
  assert (Ed : forall x, dn s' x = dn s x) by (intros x; unfold dn; rewrite E1; reflexivity).
  assert (ED : forall x, Dsc s' x <-> Dsc s x) by (intros x; unfold Dsc; rewrite E1; tauto).
  assert (El : forall x, x <> v -> ln s' x = ln s x).
  { intros x Hx. unfold ln. rewrite E2. apply get_upd_neq; auto. }
  assert (Hvg : forall y, In y gs -> y <> v).
  { intros y Hy ->. specialize (f_gs_lt v Hy). lia. }
  assert (Hvs : forall x, In x (sstk s) -> x <> v).
  { intros x Hx ->. eapply (i_dis3 _ _ I); [exact Hx|left; auto]. }
  assert (Hnd : NoDup (new ++ sstk s0)) by (rewrite <- Hstk; apply (i_nds _ _ I)).
  split; [|split; [|split; [|split; [|split]]]].
  - constructor; rewrite ?E3, ?E4, ?E5, ?E6.
    + intros x. rewrite ED, (i_dom _ _ I), Hstk, !in_app_iff. simpl. tauto.
    + intros x Hx Hk. destruct (f_old x) as (_ & E & Hlt & Hni & _); [right; auto|].
      apply in_app_or in Hx. destruct Hx as [Hx|[<-|Hx]].
      * specialize (Hnew x Hx). lia.
      * lia.
      * contradiction.
    + intros x Hx Hg. apply in_app_or in Hx. destruct Hx as [Hx|[<-|Hx]].
      * eapply (i_dis3 _ _ I); [apply f_new_stk; exact Hx|right; auto].
      * eapply Hvg; eauto.
      * eapply (i_dis2 _ _ I); [exact Hx|right; auto].
    + intros x Hx Hg. eapply (i_dis3 _ _ I); [apply f_old_stk; exact Hx|right; auto].
    + apply (NoDup_app_inv _ _ Hnd).
    + intros x Hx. apply ED in Hx. apply (i_nodes _ _ I); auto.
    + intros x. rewrite concat_app. simpl. rewrite app_nil_r, !in_app_iff. simpl.
      rewrite (i_flat _ _ I). tauto.
    + rewrite concat_app. simpl. rewrite app_nil_r. apply NoDup_app_intro.
      * apply (i_nodup _ _ I).
      * constructor.
        -- intros H. eapply Hvs; [apply f_new_stk; exact H|reflexivity].
        -- apply (NoDup_app_inv _ _ Hnd).
      * intros x Hx Hc. apply (i_flat _ _ I) in Hx. destruct Hc as [<-|Hc].
        -- eapply (i_dis2 _ _ I); [exact Hx|left; auto].
        -- eapply (i_dis1 _ _ I); [exact Hx|apply f_new_stk; auto].
    + intros c x Hc Hx y. apply in_app_or in Hc. destruct Hc as [Hc|[<-|[]]].
      * apply (i_scc _ _ I c); auto.
      * destruct (f_class_sound x Hx) as [X1 X2]. split.
        -- intros Hy. destruct (f_class_sound y Hy) as [Y1 Y2].
           split; eapply reaches_trans; eauto.
        -- intros [Y1 Y2]. apply f_class_complete. split; eapply reaches_trans; eauto.
    + apply f_closed.
    + intros x y Hx He. apply ED. eapply (i_black _ _ I); [apply f_old_stk; exact Hx|exact He].
    + intros y x Hy Hx Hle. rewrite !Ed in Hle. apply (i_greach _ _ I); auto.
      * right; auto.
      * unfold Un in *. rewrite E4 in Hx. destruct Hx as [Hx|Hx].
        -- left; right; auto.
        -- right. apply f_old_stk; auto.
    + intros x Hx. assert (Hk : In x (sstk s)) by (apply f_old_stk; auto).
      rewrite El, Ed by auto.
      destruct (i_low _ _ I x Hk) as (L1 & y & Hy & L2 & L3). split; auto.
      destruct (f_old x) as (_ & E & Hlt & _); [right; auto|].
      destruct Hy as [<-|Hy].
      * exfalso. rewrite f_dv in L2. lia.
      * exists y. rewrite Ed. auto.
    + intros x Hx. apply ED in Hx. rewrite Ed. apply (i_time _ _ I); auto.
    + apply dsorted_ext with (f := dn s); [intros; apply Ed|]. apply (i_gsort _ _ I).
    + intros y Hy. rewrite El, Ed by auto. apply (i_glow _ _ I). right; auto.
  - intros x Hx. rewrite E1. apply Hdisc; auto.
  - intros x Hx Hxv. rewrite E2, upd_neq by auto. apply Hlow; auto.
  - lia.
  - intros x Hx Hn. apply ED in Hx. rewrite Ed. apply Hnewer; auto.
  - exists []. split; [rewrite E4; reflexivity|]. split; intros x [].
Qed.

End Root.

Lemma finish_post : Post s0 v gs (finish g v s).
Proof.
  destruct (Nat.eq_dec (lowv v s) (dn s v)) as [E|E].
  - rewrite (finish_root v s new (sstk s0) E f_pop). apply root_post; auto.
  - rewrite (finish_nonroot v s E). apply nonroot_post; auto.
Qed.

End Finish.

(* ---------------- the fuel measure: undiscovered nodes ---------------- *)
Definition white (s : st) : nat :=
  List.length (filter (fun x => negb (has (disc s) x)) (nodes g)).

Lemma filter_len_mono (f f' : nat -> bool) (l : list nat) :
  (forall x, f' x = true -> f x = true) ->
  List.length (filter f' l) <= List.length (filter f l).
Proof.
  intros H. induction l as [|a l IH]; simpl; auto.
  destruct (f' a) eqn:E'.
  - rewrite (H a E'). simpl. lia.
  - destruct (f a); simpl; lia.
Qed.

Lemma filter_len_lt (f f' : nat -> bool) (l : list nat) w :
  (forall x, f' x = true -> f x = true) -> In w l -> f w = true -> f' w = false ->
  List.length (filter f' l) < List.length (filter f l).
Proof.
  intros H. induction l as [|a l IH]; simpl; intros Hw Hf Hf'; [contradiction|].
  destruct Hw as [->|Hw].
  - rewrite Hf, Hf'. simpl. specialize (filter_len_mono f f' l H). lia.
  - specialize (IH Hw Hf Hf'). destruct (f' a) eqn:E'.
    + rewrite (H a E'). simpl. lia.
    + destruct (f a); simpl; lia.
Qed.

Lemma filter_len_le (f : nat -> bool) (l : list nat) : List.length (filter f l) <= List.length l.
Proof. induction l as [|a l IH]; simpl; auto. destruct (f a); simpl; lia. Qed.

Lemma white_le s : white s <= List.length g.
Proof. unfold white. rewrite <- (map_length fst g). apply filter_len_le. Qed.

Lemma white_mono s s' : (forall x, Dsc s x -> Dsc s' x) -> white s' <= white s.
Proof.
  intros H. unfold white. apply filter_len_mono. intros x Hx.
  apply negb_true_iff in Hx. apply negb_true_iff.
  destruct (has (disc s) x) eqn:E; auto. specialize (H x E). unfold Dsc in H. congruence.
Qed.

Lemma white_lt s s' w : (forall x, Dsc s x -> Dsc s' x) -> In w (nodes g) ->
  ~ Dsc s w -> Dsc s' w -> white s' < white s.
Proof.
  intros H Hn Hw Hw'. unfold white. apply filter_len_lt with (w := w); auto.
  - intros x Hx. apply negb_true_iff in Hx. apply negb_true_iff.
    destruct (has (disc s) x) eqn:E; auto. specialize (H x E). unfold Dsc in H. congruence.
  - apply negb_true_iff. unfold Dsc in Hw. destruct (has (disc s) w); congruence.
  - apply negb_false_iff. exact Hw'.
Qed.

(* ---------------- one iteration of the successor loop ---------------- *)
Lemma child_pre v gs s1 w :
  Inv (v :: gs) s1 -> edge g v w -> ~ Dsc s1 w ->
  Inv (w :: v :: gs) (discover w (S (time s1)) s1) /\
  (forall x, In x (sstk (discover w (S (time s1)) s1)) ->
     dn (discover w (S (time s1)) s1) x < dn (discover w (S (time s1)) s1) w).
Proof.
  intros I1 He Hw. split.
  - apply discover_inv; auto.
    + destruct wf as (_ & _ & H). apply (H v w He).
    + intros x Hx. specialize (i_time _ _ I1 x (Un_Dsc _ _ _ I1 Hx)). lia.
    + intros y [<-|Hy]; [apply reaches_edge; auto|].
      eapply reaches_trans; [|apply reaches_edge; exact He].
      apply (i_greach _ _ I1); [right; auto|left; left; auto|].
      destruct (i_gsort _ _ I1) as [H _]. specialize (H y Hy). lia.
  - cbn [discover sstk]. intros x Hx.
    assert (HD : Dsc s1 x) by (apply (i_dom _ _ I1); auto).
    assert (x <> w) by (intros ->; auto).
    rewrite dn_discover_eq, dn_discover_neq by auto.
    specialize (i_time _ _ I1 x HD). lia.
Qed.

Lemma Q_step s0 v gs s1 w s2 :
  Inv (v :: gs) s0 -> Q s0 v gs s1 -> edge g v w -> ~ Dsc s1 w ->
  Post (discover w (S (time s1)) s1) w (v :: gs) s2 ->
  Q s0 v gs s2 /\ (forall x, Dsc s1 x -> Dsc s2 x) /\ Dsc s2 w.
Proof.
  intros I0 (I1 & Qd & Ql & Qt & Qn & new & Qs & Qnw & Qc) He Hw
         (I2 & Pd & Pl & Pt & Pn & new' & Ps & Pnw & Pc).
  set (s1' := discover w (S (time s1)) s1) in *.
  assert (A : forall x, Dsc s1 x -> x <> w) by (intros x Hx ->; auto).
  assert (B : forall x, Dsc s1 x -> Dsc s1' x) by (intros x Hx; apply Dsc_discover; auto).
  assert (C : forall x, Dsc s1 x -> disc s2 x = disc s1 x).
  { intros x Hx. rewrite (Pd x (B x Hx)). unfold s1', discover. cbn [disc]. apply upd_neq; auto. }
  assert (CD : forall x, Dsc s1 x -> Dsc s2 x).
  { intros x Hx. unfold Dsc, has in *. rewrite (C x Hx). exact Hx. }
  assert (Cd : forall x, Dsc s1 x -> dn s2 x = dn s1 x).
  { intros x Hx. unfold dn, get. rewrite (C x Hx). reflexivity. }
  assert (Cl : forall x, Dsc s1 x -> ln s2 x = ln s1 x).
  { intros x Hx. unfold ln, get. rewrite (Pl x (B x Hx) (A x Hx)).
    unfold s1', discover. cbn [low]. rewrite upd_neq; auto. }
  assert (Cl' : forall x, Dsc s1 x -> low s2 x = low s1 x).
  { intros x Hx. rewrite (Pl x (B x Hx) (A x Hx)).
    unfold s1', discover. cbn [low]. rewrite upd_neq; auto. }
  assert (Dw' : Dsc s1' w) by (apply Dsc_discover; auto).
  assert (Ew : disc s2 w = disc s1' w) by (apply Pd; auto).
  assert (Dw : Dsc s2 w) by (unfold Dsc, has in *; rewrite Ew; exact Dw').
  assert (dw' : dn s1' w = S (time s1)) by apply dn_discover_eq.
  assert (dw : dn s2 w = S (time s1)) by (rewrite <- dw'; unfold dn, get; rewrite Ew; reflexivity).
  assert (D0 : forall x, Dsc s0 x -> Dsc s1 x).
  { intros x Hx. unfold Dsc, has in *. rewrite (Qd x Hx). exact Hx. }
  assert (d01 : forall x, Dsc s0 x -> dn s1 x = dn s0 x).
  { intros x Hx. unfold dn, get. rewrite (Qd x Hx). reflexivity. }
  assert (Hv0 : Dsc s0 v) by (apply (i_dom _ _ I0); right; right; left; auto).
  assert (Hdv : dn s0 v <= time s1) by (specialize (i_time _ _ I0 v Hv0); lia).
  assert (Ek : sstk s1' = sstk s1) by reflexivity.
  assert (Et : time s1' = S (time s1)) by reflexivity.
  split; [|split; auto].
  split; [exact I2|]. split; [|split; [|split; [|split]]].
  - intros x Hx. rewrite (C x (D0 x Hx)). apply Qd; auto.
  - intros x Hx. rewrite (Cl' x (D0 x Hx)). apply Ql; auto.
  - lia.
  - intros x Hx Hn0. destruct (has (disc s1) x) eqn:E.
    + rewrite (Cd x E). apply Qn; auto.
    + assert (Hn1 : ~ Dsc s1 x) by (unfold Dsc; congruence).
      destruct (Nat.eq_dec x w) as [->|Hxw]; [lia|].
      assert (Hn1' : ~ Dsc s1' x).
      { intros H. apply Dsc_discover in H. tauto. }
      specialize (Pn x Hx Hn1'). lia.
  - exists (new' ++ new). split; [rewrite Ps, Ek, Qs, app_assoc; reflexivity|]. split.
    + intros x Hx. apply in_app_or in Hx. destruct Hx as [Hx|Hx].
      * specialize (Pnw x Hx). lia.
      * assert (HD : Dsc s1 x).
        { apply (i_dom _ _ I1). right; left. rewrite Qs. apply in_or_app; auto. }
        rewrite (Cd x HD). apply Qnw; auto.
    + intros x z Hx Hxz Hz.
      assert (HDz : Dsc s0 z).
      { eapply Un_Dsc; [exact I0|]. destruct Hz as [H|H]; [left; right; auto|right; auto]. }
      apply in_app_or in Hx. destruct Hx as [Hx|Hx].
      * destruct (Pc x Hx) as (Hwn & Hc). exists w. split; auto. split; [apply in_or_app; auto|].
        assert (Hz' : Un (v :: gs) s1' z).
        { destruct Hz as [H|H]; [left; right; auto|right].
          rewrite Ek, Qs. apply in_or_app; auto. }
        specialize (Hc z Hxz Hz').
        assert (z <> w) by (apply A; auto).
        unfold s1' in Hc. rewrite dn_discover_neq in Hc by auto. rewrite d01 in Hc by auto. exact Hc.
      * destruct (Qc x z Hx Hxz Hz) as (w0 & H1 & H2 & H3).
        exists w0. split; auto. split; [apply in_or_app; auto|].
        assert (HD : Dsc s1 w0).
        { apply (i_dom _ _ I1). right; left. rewrite Qs. apply in_or_app; auto. }
        rewrite (Cl w0 HD). exact H3.
Qed.

Lemma Q_init v gs s : Inv (v :: gs) s -> Q s v gs s.
Proof.
  intros I. split; auto. split; auto. split; auto. split; auto. split; [tauto|].
  exists []. split; auto. split; intros x; [intros []|intros z []].
Qed.

Lemma finish_Q s0 v gs s :
  Inv (v :: gs) s0 -> (forall x, In x (sstk s0) -> dn s0 x < dn s0 v) ->
  Q s0 v gs s -> (forall w, edge g v w -> Dsc s w) ->
  Post s0 v gs (finish g v s).
Proof.
  intros I0 Hold (I1 & Qd & Ql & Qt & Qn & new & Qs & Qnw & Qc) Hsucc.
  eapply finish_post; eauto.
Qed.

(* ---------------- visit ---------------- *)
Lemma visit_post : forall fuel v gs s,
  white s < fuel -> Inv (v :: gs) s -> (forall x, In x (sstk s) -> dn s x < dn s v) ->
  Post s v gs (visit fuel g v s).
Proof.
  induction fuel as [|fuel IH]; intros v gs s Hf I0 Hold; [lia|].
  cbn [visit].
  set (F := fun (s : st) (w : nat) =>
              if has (disc s) w then s else visit fuel g w (discover w (S (time s)) s)).
  assert (loop : forall ws s1, (forall w, In w ws -> edge g v w) -> Q s v gs s1 ->
            Q s v gs (fold_left F ws s1) /\
            (forall x, Dsc s1 x -> Dsc (fold_left F ws s1) x) /\
            (forall w, In w ws -> Dsc (fold_left F ws s1) w)).
  { induction ws as [|w ws IHws]; intros s1 Hws HQ; simpl.
    - split; auto. split; auto. intros w [].
    - assert (step : Q s v gs (F s1 w) /\ (forall x, Dsc s1 x -> Dsc (F s1 w) x) /\ Dsc (F s1 w) w).
      { unfold F. destruct (has (disc s1) w) eqn:E.
        - split; auto.
        - assert (Hw : ~ Dsc s1 w) by (unfold Dsc; congruence).
          assert (He : edge g v w) by (apply Hws; left; auto).
          assert (I1 : Inv (v :: gs) s1) by (destruct HQ; auto).
          destruct (child_pre v gs s1 w I1 He Hw) as [Ic Hc].
          apply Q_step; auto. apply IH; auto.
          assert (M : white s1 <= white s).
          { apply white_mono. intros x Hx. destruct HQ as (_ & Qd & _).
            unfold Dsc, has in *. rewrite (Qd x Hx). exact Hx. }
          assert (L : white (discover w (S (time s1)) s1) < white s1).
          { apply white_lt with (w := w); auto.
            - intros x Hx. apply Dsc_discover; auto.
            - destruct wf as (_ & _ & H). apply (H v w He).
            - apply Dsc_discover; auto. }
          lia. }
      destruct step as (Q1 & M1 & Dw).
      destruct (IHws (F s1 w)) as (Q2 & M2 & D2); auto.
      { intros w' Hw'. apply Hws. right; auto. }
      split; auto. split; [auto|]. intros w' [<-|H]; auto. }
  destruct (loop (succs g v) s) as (Q1 & _ & D1); auto.
  { apply Q_init; auto. }
  apply finish_Q; auto.
Qed.

(* ---------------- top level ---------------- *)
Lemma Inv_st0 : Inv [] st0.
Proof.
  constructor; simpl; try tauto; try (intros; contradiction).
  - intros x. unfold Dsc. simpl. split; [discriminate|tauto].
  - constructor.
  - unfold Dsc. simpl. discriminate.
  - constructor.
  - unfold Dsc. simpl. discriminate.
Qed.

Lemma root_step s r :
  Inv [] s -> In r (nodes g) ->
  Inv [] (scc_root g s r) /\ (forall x, Dsc s x -> Dsc (scc_root g s r) x) /\ Dsc (scc_root g s r) r.
Proof.
  intros I Hr. unfold scc_root. destruct (has (disc s) r) eqn:E.
  - split; auto.
  - assert (Hw : ~ Dsc s r) by (unfold Dsc; congruence).
    assert (Hk : sstk s = []) by (apply Inv_nil_sstk; auto).
    set (s1 := discover r (time s) s).
    assert (I1 : Inv [r] s1).
    { apply discover_inv; auto.
      - intros x [[]|Hx]. rewrite Hk in Hx. destruct Hx.
      - intros y []. }
    assert (P : Post s1 r [] (visit (S (List.length g)) g r s1)).
    { apply visit_post; auto.
      - specialize (white_le s1). lia.
      - unfold s1. cbn [discover sstk]. rewrite Hk. intros x []. }
    destruct P as (I2 & Pd & _).
    assert (M : forall x, Dsc s1 x -> Dsc (visit (S (List.length g)) g r s1) x).
    { intros x Hx. unfold Dsc, has in *. rewrite (Pd x Hx). exact Hx. }
    split; auto. split.
    + intros x Hx. apply M. apply Dsc_discover; auto.
    + apply M. apply Dsc_discover; auto.
Qed.

Lemma run_inv : forall l s,
  Inv [] s -> (forall r, In r l -> In r (nodes g)) ->
  Inv [] (fold_left (scc_root g) l s) /\
  (forall x, Dsc s x -> Dsc (fold_left (scc_root g) l s) x) /\
  (forall r, In r l -> Dsc (fold_left (scc_root g) l s) r).
Proof.
  induction l as [|r l IH]; intros s I Hl; simpl.
  - split; auto. split; auto. intros r [].
  - destruct (root_step s r I) as (I1 & M1 & D1); [apply Hl; left; auto|].
    destruct (IH (scc_root g s r) I1) as (I2 & M2 & D2).
    { intros r' Hr'. apply Hl. right; auto. }
    split; auto. split; auto. intros r' [<-|Hr']; auto.
Qed.

Lemma scc_correct_g : scc_spec g (compute_SCCs g).
Proof.
  unfold compute_SCCs, scc_run.
  destruct (run_inv (nodes g) st0 Inv_st0) as (I & _ & HD); auto.
  set (s := fold_left (scc_root g) (nodes g) st0) in *.
  assert (Hk : sstk s = []) by (apply Inv_nil_sstk; auto).
  split; [apply (i_nodup _ _ I)|]. split; [|apply (i_scc _ _ I)].
  intros x. split.
  - intros Hx. apply (i_flat _ _ I). specialize (HD x Hx).
    apply (i_dom _ _ I) in HD. rewrite Hk in HD. simpl in HD. tauto.
  - intros Hx. apply (i_nodes _ _ I). apply (i_dom _ _ I). left. apply (i_flat _ _ I). exact Hx.
Qed.

End SCC.

From PMC Require Import Spec.Lemmas.

Theorem scc_correct : scc_correct_stmt.
Proof. intros g Hwf. apply scc_correct_g. exact Hwf. Qed.

Print Assumptions scc_correct.
