(* InfPath.v — infinite walks in finite graphs and generalised Buechi acceptance:
   proof of [gba_stmt] (Spec/Lemmas.v).

   Reusable exports:
     chain g x l            finite walk  x -> l1 -> l2 -> ...   (ends in [last l x])
     walk_of_reaches        reaches g x y -> exists l, chain g x l /\ last l x = y
     reaches_of_chain       the converse
     lasso pre cyc          the infinite sequence  pre . cyc^omega
     lasso_gpath            it is a [gpath] when pre/cyc are consecutive walks and cyc is closed
     lasso_hits             every element of cyc occurs infinitely often
     reaches_of_gpath       gpath g p -> i <= j -> reaches g (p i) (p j)
     inf_pigeonhole         infinite pigeonhole principle (uses [classic])
   Only the (=>) direction of [gba] uses [Classical_Prop.classic]. *)
From PMC Require Import Spec.Lemmas.
From Coq Require Import List Arith Bool Lia.
From Coq Require Import Classical_Prop.
Import ListNotations.

(* ------------------------------------------------------------------ *)
(* small list facts *)

Lemma last_cons : forall (l : list nat) a x, last (a :: l) x = last l a.
Proof.
  induction l as [|b l IH]; intros a x.
  - reflexivity.
  - change (last (a :: b :: l) x) with (last (b :: l) x).
    rewrite (IH b x), (IH b a). reflexivity.
Qed.

Lemma last_app2 : forall (l1 l2 : list nat) x, last (l1 ++ l2) x = last l2 (last l1 x).
Proof.
  induction l1 as [|a l1 IH]; intros l2 x.
  - reflexivity.
  - rewrite <- app_comm_cons. rewrite !last_cons. apply IH.
Qed.

Lemma last_nth0 : forall (l : list nat) x, last l x = nth (length l) (x :: l) 0.
Proof.
  induction l as [|a l IH]; intros x.
  - reflexivity.
  - rewrite last_cons. rewrite IH. reflexivity.
Qed.

Lemma last_In : forall (l : list nat) x, l <> [] -> In (last l x) l.
Proof.
  induction l as [|a l IH]; intros x Hne.
  - congruence.
  - rewrite last_cons. destruct l as [|b l'].
    + left; reflexivity.
    + right. apply IH. discriminate.
Qed.

Lemma memb_In : forall x l, memb x l = true <-> In x l.
Proof.
  intros x l. unfold memb. rewrite existsb_exists. split.
  - intros [y [Hy E]]. apply Nat.eqb_eq in E. subst y. exact Hy.
  - intros H. exists x. split; [exact H|apply Nat.eqb_refl].
Qed.

Lemma NoDup_app_both : forall (a b : list nat), NoDup (a ++ b) -> NoDup a /\ NoDup b.
Proof.
  induction a as [|x a IH]; intros b H.
  - split; [constructor|exact H].
  - rewrite <- app_comm_cons in H. inversion H as [|? ? Hni Hnd]. subst.
    destruct (IH b Hnd) as [Ha Hb]. split; [|exact Hb].
    constructor; [|exact Ha]. intro Hx. apply Hni. apply in_or_app. left; exact Hx.
Qed.

Lemma NoDup_concat_in : forall (cs : list (list nat)) C,
  NoDup (concat cs) -> In C cs -> NoDup C.
Proof.
  induction cs as [|a cs IH]; intros C Hnd HC.
  - destruct HC.
  - cbn in Hnd. destruct HC as [E|HC].
    + subst a. apply NoDup_app_both in Hnd. apply Hnd.
    + apply IH; [|exact HC]. apply NoDup_app_both in Hnd. apply Hnd.
Qed.

(* ------------------------------------------------------------------ *)
(* finite walks *)

Fixpoint chain (g : graph) (x : nat) (l : list nat) : Prop :=
  match l with
  | [] => True
  | y :: r => edge g x y /\ chain g y r
  end.

Lemma chain_app : forall g l1 x l2,
  chain g x l1 -> chain g (last l1 x) l2 -> chain g x (l1 ++ l2).
Proof.
  induction l1 as [|a l1 IH]; intros x l2 H1 H2.
  - exact H2.
  - destruct H1 as [He H1]. rewrite <- app_comm_cons. split; [exact He|].
    apply IH; [exact H1|]. rewrite last_cons in H2. exact H2.
Qed.

Lemma walk_of_reaches : forall g x y, reaches g x y -> exists l, chain g x l /\ last l x = y.
Proof.
  intros g x y H. induction H as [x|x y z Hr IH He].
  - exists []. split; [exact I|reflexivity].
  - destruct IH as [l [Hc Hl]]. exists (l ++ [z]). split.
    + apply chain_app; [exact Hc|]. rewrite Hl. split; [exact He|exact I].
    + rewrite last_app2. reflexivity.
Qed.

Lemma reaches_trans : forall g x y z, reaches g x y -> reaches g y z -> reaches g x z.
Proof.
  intros g x y z Hxy Hyz. induction Hyz as [y|y u w Hr IH He].
  - exact Hxy.
  - eapply r_step; [apply IH; exact Hxy|exact He].
Qed.

Lemma reaches_of_chain : forall g l x, chain g x l -> reaches g x (last l x).
Proof.
  induction l as [|a l IH]; intros x Hc.
  - apply r_refl.
  - destruct Hc as [He Hc]. rewrite last_cons.
    apply reaches_trans with a; [|apply IH; exact Hc].
    eapply r_step; [apply r_refl|exact He].
Qed.

Lemma chain_nth : forall g l x, chain g x l ->
  forall i, i < length l -> edge g (nth i (x :: l) 0) (nth i l 0).
Proof.
  induction l as [|a l IH]; intros x Hc i Hi.
  - cbn in Hi. lia.
  - destruct Hc as [He Hc]. destruct i as [|i].
    + exact He.
    + change (edge g (nth i (a :: l) 0) (nth i l 0)). apply IH; [exact Hc|].
      cbn in Hi. lia.
Qed.

(* ------------------------------------------------------------------ *)
(* the lasso  pre . cyc^omega *)

Definition lasso (pre cyc : list nat) (i : nat) : nat :=
  if i <? length pre then nth i pre 0
  else nth ((i - length pre) mod length cyc) cyc 0.

Lemma mod_S_lt : forall k n, S (k mod n) < n -> S k mod n = S (k mod n).
Proof.
  intros k n H. symmetry. apply Nat.mod_unique with (q := k / n); [exact H|].
  assert (Hn : n <> 0) by lia.
  pose proof (Nat.div_mod k n Hn) as E. lia.
Qed.

Lemma mod_S_eq : forall k n, S (k mod n) = n -> S k mod n = 0.
Proof.
  intros k n H. symmetry. apply Nat.mod_unique with (q := S (k / n)); [lia|].
  assert (Hn : n <> 0) by lia.
  pose proof (Nat.div_mod k n Hn) as E. rewrite Nat.mul_succ_r. lia.
Qed.

Lemma lasso_0 : forall x l0 cyc, lasso (x :: l0) cyc 0 = x.
Proof. reflexivity. Qed.

(* [x :: l0] is a walk ending in c = last l0 x, and cyc is a non-empty closed walk from c *)
Lemma lasso_gpath : forall g x l0 cyc,
  cyc <> [] ->
  chain g x l0 ->
  chain g (last l0 x) cyc ->
  last cyc (last l0 x) = last l0 x ->
  gpath g (lasso (x :: l0) cyc).
Proof.
  intros g x l0 cyc Hne Hpre Hcyc Hclosed.
  remember (last l0 x) as c eqn:Ec.
  assert (Hn : length cyc <> 0).
  { destruct cyc; [congruence|cbn; lia]. }
  assert (Hc0 : edge g c (nth 0 cyc 0)).
  { destruct cyc as [|a cyc']; [congruence|]. destruct Hcyc as [He _]. exact He. }
  intro i. unfold lasso. cbn [length].
  destruct (Nat.lt_total i (length l0)) as [Hlt|[Heq|Hgt]].
  - (* both inside the prefix *)
    assert (E1 : (i <? S (length l0)) = true) by (apply Nat.ltb_lt; lia).
    assert (E2 : (S i <? S (length l0)) = true) by (apply Nat.ltb_lt; lia).
    rewrite E1, E2.
    change (nth (S i) (x :: l0) 0) with (nth i l0 0).
    apply chain_nth; assumption.
  - (* last of the prefix to first of the cycle *)
    assert (E1 : (i <? S (length l0)) = true) by (apply Nat.ltb_lt; lia).
    assert (E2 : (S i <? S (length l0)) = false) by (apply Nat.ltb_ge; lia).
    rewrite E1, E2. subst i.
    rewrite <- last_nth0, <- Ec.
    replace (S (length l0) - S (length l0)) with 0 by lia.
    rewrite Nat.mod_0_l by exact Hn. exact Hc0.
  - (* inside the cycle *)
    assert (E1 : (i <? S (length l0)) = false) by (apply Nat.ltb_ge; lia).
    assert (E2 : (S i <? S (length l0)) = false) by (apply Nat.ltb_ge; lia).
    rewrite E1, E2.
    replace (S i - S (length l0)) with (S (i - S (length l0))) by lia.
    set (k := i - S (length l0)).
    pose proof (Nat.mod_upper_bound k (length cyc) Hn) as Hr.
    destruct (Nat.eq_dec (S (k mod length cyc)) (length cyc)) as [Hwrap|Hnowrap].
    + rewrite (mod_S_eq k (length cyc) Hwrap).
      assert (El : nth (k mod length cyc) cyc 0 = c).
      { transitivity (last cyc c); [|exact Hclosed]. rewrite last_nth0.
        generalize (k mod length cyc) Hwrap. intros r0 Hr0. rewrite <- Hr0. reflexivity. }
      rewrite El. exact Hc0.
    + rewrite (mod_S_lt k (length cyc)) by lia.
      change (nth (k mod length cyc) cyc 0) with (nth (S (k mod length cyc)) (c :: cyc) 0).
      apply chain_nth; [exact Hcyc|lia].
Qed.

Lemma lasso_hits_nth : forall pre cyc j, j < length cyc ->
  forall i, exists m, i <= m /\ lasso pre cyc m = nth j cyc 0.
Proof.
  intros pre cyc j Hj i.
  exists (length pre + (j + i * length cyc)). split.
  - destruct (length cyc) as [|n]; [lia|]. rewrite Nat.mul_succ_r. lia.
  - unfold lasso.
    assert (E : (length pre + (j + i * length cyc) <? length pre) = false)
      by (apply Nat.ltb_ge; lia).
    rewrite E.
    replace (length pre + (j + i * length cyc) - length pre) with (j + i * length cyc) by lia.
    rewrite Nat.mod_add by lia. rewrite Nat.mod_small by exact Hj. reflexivity.
Qed.

Lemma lasso_hits : forall pre cyc x, In x cyc ->
  forall i, exists m, i <= m /\ lasso pre cyc m = x.
Proof.
  intros pre cyc x Hx i.
  destruct (In_nth cyc x 0 Hx) as [j [Hj Ej]].
  destruct (lasso_hits_nth pre cyc j Hj i) as [m [Hm Em]].
  exists m. split; [exact Hm|]. rewrite Em. exact Ej.
Qed.

(* ------------------------------------------------------------------ *)
(* infinite walks *)

Lemma reaches_of_gpath : forall g p, gpath g p ->
  forall i j, i <= j -> reaches g (p i) (p j).
Proof.
  intros g p Hp i j Hij. induction Hij as [|j Hij IH].
  - apply r_refl.
  - eapply r_step; [exact IH|apply Hp].
Qed.

Lemma gpath_nodes : forall g p, wf_graph g -> gpath g p -> forall i, In (p i) (nodes g).
Proof.
  intros g p [_ [_ Hwf]] Hp i. destruct (Hwf _ _ (Hp i)) as [H _]. exact H.
Qed.

Lemma inf_pigeonhole : forall (A : Type) (l : list A) (f : nat -> A),
  (forall i, In (f i) l) ->
  exists x, In x l /\ forall i, exists j, i <= j /\ f j = x.
Proof.
  intros A. induction l as [|a l IH]; intros f Hf.
  - destruct (Hf 0).
  - destruct (classic (forall i, exists j, i <= j /\ f j = a)) as [Ha|Ha].
    + exists a. split; [left; reflexivity|exact Ha].
    + assert (Hex : exists i0, forall j, i0 <= j -> f j <> a).
      { apply NNPP. intro Hno. apply Ha. intro i. apply NNPP. intro Hnj.
        apply Hno. exists i. intros j Hj E. apply Hnj. exists j. split; assumption. }
      destruct Hex as [i0 Hn].
      destruct (IH (fun j => f (i0 + j))) as [x [Hx Hinf]].
      { intro j. destruct (Hf (i0 + j)) as [E|E]; [|exact E].
        exfalso. apply (Hn (i0 + j)); [lia|symmetry; exact E]. }
      exists x. split; [right; exact Hx|].
      intro i. destruct (Hinf i) as [j [Hj Ej]].
      exists (i0 + j). split; [lia|exact Ej].
Qed.

(* ------------------------------------------------------------------ *)
(* cycles inside a component *)

(* a closed walk from c visiting every node of a list of nodes mutually reachable with c *)
Lemma tour : forall g c xs, (forall x, In x xs -> mutual g c x) ->
  exists l, chain g c l /\ last l c = c /\ forall x, In x xs -> x = c \/ In x l.
Proof.
  intros g c. induction xs as [|a xs IH]; intros Hm.
  - exists []. split; [exact I|]. split; [reflexivity|]. intros x [].
  - destruct IH as [l [Hc [Hl Hin]]].
    { intros x Hx. apply Hm. right; exact Hx. }
    destruct (Hm a (or_introl eq_refl)) as [Hca Hac].
    destruct (walk_of_reaches _ _ _ Hca) as [l1 [Hc1 Hl1]].
    destruct (walk_of_reaches _ _ _ Hac) as [l2 [Hc2 Hl2]].
    exists (l1 ++ l2 ++ l). split; [|split].
    + apply chain_app; [exact Hc1|]. rewrite Hl1.
      apply chain_app; [exact Hc2|]. rewrite Hl2. exact Hc.
    + rewrite !last_app2. rewrite Hl1, Hl2. exact Hl.
    + intros x [E|Hx].
      * subst x. destruct l1 as [|b l1'].
        -- left. cbn in Hl1. symmetry; exact Hl1.
        -- right. apply in_or_app. left. rewrite <- Hl1. apply last_In. discriminate.
      * destruct (Hin x Hx) as [E|Hxl]; [left; exact E|].
        right. apply in_or_app. right. apply in_or_app. right. exact Hxl.
Qed.

(* a non-trivial component has a non-empty closed walk through each of its nodes *)
Lemma nontrivial_cycle : forall g cs C c,
  scc_spec g cs -> In C cs -> nontrivial g C = true -> In c C ->
  exists l, l <> [] /\ chain g c l /\ last l c = c.
Proof.
  intros g cs C c [Hnd [_ Hmut]] HC Hnt Hc.
  destruct C as [|h r]; [destruct Hc|].
  destruct r as [|w r'].
  - cbn in Hnt. apply memb_In in Hnt.
    destruct Hc as [E|[]]. subst h.
    exists [c]. split; [discriminate|]. split; [|reflexivity].
    split; [exact Hnt|exact I].
  - assert (HndC : NoDup (h :: w :: r')) by (eapply NoDup_concat_in; eassumption).
    assert (Hother : exists c', In c' (h :: w :: r') /\ c' <> c).
    { destruct (Nat.eq_dec h c) as [E|E].
      - exists w. split; [right; left; reflexivity|].
        subst h. intro E. subst w. inversion HndC as [|? ? Hni _]. apply Hni. left; reflexivity.
      - exists h. split; [left; reflexivity|exact E]. }
    destruct Hother as [c' [Hc' Hneq]].
    destruct (proj1 (Hmut _ c HC Hc c') Hc') as [H1 H2].
    destruct (walk_of_reaches _ _ _ H1) as [l1 [Hc1 Hl1]].
    destruct (walk_of_reaches _ _ _ H2) as [l2 [Hc2 Hl2]].
    exists (l1 ++ l2). split; [|split].
    + destruct l1 as [|b l1']; [|discriminate].
      cbn in Hl1. exfalso. apply Hneq. symmetry; exact Hl1.
    + apply chain_app; [exact Hc1|]. rewrite Hl1. exact Hc2.
    + rewrite last_app2. rewrite Hl1. exact Hl2.
Qed.

Lemma pick_witnesses : forall (C : list nat) (Ps : list (list nat)),
  (forall P, In P Ps -> exists x, In x C /\ In x P) ->
  exists xs, (forall x, In x xs -> In x C) /\
             (forall P, In P Ps -> exists x, In x xs /\ In x P).
Proof.
  intros C. induction Ps as [|P Ps IH]; intros H.
  - exists []. split; [intros x []|intros P []].
  - destruct IH as [xs [HxsC Hxs]].
    { intros Q HQ. apply H. right; exact HQ. }
    destruct (H P (or_introl eq_refl)) as [x [HxC HxP]].
    exists (x :: xs). split.
    + intros y [E|Hy]; [subst y; exact HxC|apply HxsC; exact Hy].
    + intros Q [E|HQ].
      * subst Q. exists x. split; [left; reflexivity|exact HxP].
      * destruct (Hxs Q HQ) as [y [Hy HyQ]]. exists y. split; [right; exact Hy|exact HyQ].
Qed.

(* ------------------------------------------------------------------ *)
(* the two directions *)

Lemma gba_if : forall g cs Ps v, scc_spec g cs ->
  (exists C, In C cs /\ nontrivial g C = true /\
             (forall P, In P Ps -> exists x, In x C /\ In x P) /\
             exists c, In c C /\ reaches g v c) ->
  exists p, gpath g p /\ p 0 = v /\ forall P, In P Ps -> inf_often p P.
Proof.
  intros g cs Ps v Hscc [C [HC [Hnt [Hall [c [Hc Hvc]]]]]].
  destruct (pick_witnesses C Ps Hall) as [xs [HxsC Hxs]].
  destruct (walk_of_reaches _ _ _ Hvc) as [l0 [Hc0 Hl0]].
  destruct (tour g c xs) as [lt [Hct [Hlt Hint]]].
  { intros x Hx. destruct Hscc as [_ [_ Hmut]]. apply (Hmut C c HC Hc x). apply HxsC; exact Hx. }
  destruct (nontrivial_cycle g cs C c Hscc HC Hnt Hc) as [ln [Hne [Hcn Hln]]].
  set (cyc := lt ++ ln).
  assert (Hcne : cyc <> []).
  { unfold cyc. intro E. apply app_eq_nil in E. destruct E as [_ E]. exact (Hne E). }
  assert (Hccyc : chain g c cyc).
  { unfold cyc. apply chain_app; [exact Hct|]. rewrite Hlt. exact Hcn. }
  assert (Hlcyc : last cyc c = c).
  { unfold cyc. rewrite last_app2, Hlt. exact Hln. }
  assert (Hcin : In c cyc).
  { unfold cyc. apply in_or_app. right. rewrite <- Hln. apply last_In. exact Hne. }
  exists (lasso (v :: l0) cyc). split; [|split].
  - apply lasso_gpath.
    + exact Hcne.
    + exact Hc0.
    + rewrite Hl0. exact Hccyc.
    + rewrite Hl0. exact Hlcyc.
  - apply lasso_0.
  - intros P HP i. destruct (Hxs P HP) as [x [Hx HxP]].
    assert (Hxc : In x cyc).
    { destruct (Hint x Hx) as [E|Hxl].
      - subst x. exact Hcin.
      - unfold cyc. apply in_or_app. left. exact Hxl. }
    destruct (lasso_hits (v :: l0) cyc x Hxc i) as [m [Hm Em]].
    exists m. split; [exact Hm|]. rewrite Em. exact HxP.
Qed.

Lemma gba_only_if : forall g cs Ps v, wf_graph g -> scc_spec g cs ->
  (exists p, gpath g p /\ p 0 = v /\ forall P, In P Ps -> inf_often p P) ->
  exists C, In C cs /\ nontrivial g C = true /\
            (forall P, In P Ps -> exists x, In x C /\ In x P) /\
            exists c, In c C /\ reaches g v c.
Proof.
  intros g cs Ps v Hwf Hscc [p [Hp [Hp0 Hinf]]].
  destruct (inf_pigeonhole nat (nodes g) p (gpath_nodes g p Hwf Hp)) as [c [Hcn Hcinf]].
  destruct Hscc as [Hnd [Hcover Hmut]].
  apply Hcover in Hcn. apply in_concat in Hcn. destruct Hcn as [C [HC Hc]].
  destruct (Hcinf 0) as [i [_ Ei]].
  exists C. split; [exact HC|]. split; [|split].
  - (* non-trivial *)
    destruct C as [|h r]; [destruct Hc|].
    destruct r as [|w r']; [|reflexivity].
    cbn. apply memb_In.
    destruct Hc as [E|[]]. subst h.
    destruct (Hcinf (S i)) as [j [Hj Ej]].
    assert (Hm : mutual g c (p (S i))).
    { split.
      - rewrite <- Ei. apply (reaches_of_gpath g p Hp). lia.
      - rewrite <- Ej. apply (reaches_of_gpath g p Hp). exact Hj. }
    apply (Hmut [c] c HC (or_introl eq_refl)) in Hm.
    destruct Hm as [E|[]].
    pose proof (Hp i) as He. rewrite <- E, Ei in He. exact He.
  - (* meets every P *)
    intros P HP. destruct (Hinf P HP i) as [j [Hj HjP]].
    destruct (Hcinf j) as [k [Hk Ek]].
    exists (p j). split; [|exact HjP].
    apply (Hmut C c HC Hc). split.
    + rewrite <- Ei. apply (reaches_of_gpath g p Hp). exact Hj.
    + rewrite <- Ek. apply (reaches_of_gpath g p Hp). exact Hk.
  - exists c. split; [exact Hc|].
    rewrite <- Hp0, <- Ei. apply (reaches_of_gpath g p Hp). lia.
Qed.

Theorem gba : gba_stmt.
Proof.
  intros g cs Ps v Hwf Hscc Hv. split.
  - apply gba_only_if; assumption.
  - apply (gba_if g cs Ps v Hscc).
Qed.

Print Assumptions lasso_gpath.
Print Assumptions gba_if.
Print Assumptions gba.
