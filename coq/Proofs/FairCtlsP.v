(* FairCtlsP.v — CTLS.modelcheck(kripke, formula, F=F) (Model/Fair.v ctls_modelcheck_fair)
   never fails internally on a CTL* state formula: the fuel suffices, every intermediate
   call is well typed, the result is a duplicate-free set of states.
   (Its ANSWER is not the fair semantics: Proofs/FairP.v ctls_reduction_refuted.)
   At the end: what the fair CTL and LTL checkers DO compute (the ordinary semantics of the
   reduced formula on the clone carrying the fair label). *)
From PMC Require Import Spec.Lemmas Spec.FairSemantics.
From PMC Require Import Proofs.BaseP.
From PMC Require Proofs.GraphP Proofs.KripkeP Proofs.CTLP Proofs.RewriteP Proofs.SyntaxP
                 Proofs.Assemble Proofs.FairP.
From Coq Require Import List Arith Bool Lia.
Import ListNotations.

Notation wf_K := PMC.Proofs.KripkeP.wf_K.
Notation form_ind' := PMC.Proofs.CTLP.form_ind'.
Notation hmax := PMC.Proofs.RewriteP.hmax.

(* ------------------------------------------------------------------ *)
(* sizes and heights                                                   *)
(* ------------------------------------------------------------------ *)
Definition smax (fs : list form) : nat := fold_right (fun g m => size g + m) 0 fs.

Lemma height_le_size : forall f, height f <= size f.
Proof.
  apply form_ind'; intros; cbn [height size]; try lia.
  - induction H as [|x l Hx Hl IH]; cbn [fold_right] in *; lia.
  - induction H as [|x l Hx Hl IH]; cbn [fold_right] in *; lia.
Qed.

Lemma size_pos f : 1 <= size f.
Proof. destruct f; cbn [size]; lia. Qed.

Lemma smax_In g fs : In g fs -> size g <= smax fs.
Proof.
  induction fs as [|x r IH]; intros H; [destruct H|].
  cbn [smax fold_right]. fold (smax r). destruct H as [<-|H]; [lia|]. apply IH in H. lia.
Qed.

Lemma children_size f g : In g (children f) -> size g < size f.
Proof.
  destruct f; cbn [children size]; intros H;
    try (destruct H as [<-|H]; [lia|]); try (destruct H as [<-|H]; [lia|]); try destruct H.
  - fold (smax fs). apply smax_In in H. lia.
  - fold (smax fs). apply smax_In in H. lia.
Qed.

Lemma children_height f g : In g (children f) -> height g < height f.
Proof.
  destruct f; cbn [children height]; intros H;
    try (destruct H as [<-|H]; [lia|]); try (destruct H as [<-|H]; [lia|]); try destruct H.
  - apply PMC.Proofs.RewriteP.hmax_In in H. unfold hmax in H. lia.
  - apply PMC.Proofs.RewriteP.hmax_In in H. unfold hmax in H. lia.
Qed.

Lemma children_qf f g : ltl_path f = true -> In g (children f) -> ltl_path g = true.
Proof.
  destruct f; cbn [children ltl_path]; intros Hq H; try discriminate Hq;
    try (apply andb_true_iff in Hq; destruct Hq as [Hq1 Hq2]);
    try (destruct H as [<-|H]; [assumption|]); try (destruct H as [<-|H]; [assumption|]);
    try (destruct H; fail).
  - rewrite forallb_forall in Hq. apply Hq; exact H.
  - rewrite forallb_forall in Hq. apply Hq; exact H.
Qed.

(* ------------------------------------------------------------------ *)
(* unfair_ctls on quantifier-free formulas                             *)
(* ------------------------------------------------------------------ *)
Lemma forallb_map_Forall {A} (Q R : A -> bool) (f : A -> A) l :
  Forall (fun x => Q x = true -> R (f x) = true) l ->
  forallb Q l = true -> forallb R (map f l) = true.
Proof.
  induction 1 as [|x r Hx Hr IH]; cbn [forallb map]; intros H; [reflexivity|].
  apply andb_true_iff in H. destruct H as [H1 H2]. rewrite (Hx H1), (IH H2). reflexivity.
Qed.

Lemma unfair_ctls_qf a : forall f, ltl_path f = true -> ltl_path (unfair_ctls a f) = true.
Proof.
  apply (form_ind' (fun f => ltl_path f = true -> ltl_path (unfair_ctls a f) = true)); intros; cbn [unfair_ctls ltl_path forallb] in *; try reflexivity;
    try discriminate; auto.
  - apply (forallb_map_Forall ltl_path ltl_path); assumption.
  - apply (forallb_map_Forall ltl_path ltl_path); assumption.
  - apply andb_true_iff in H1. destruct H1 as [H1 H2]. rewrite H, H0; auto.
  - apply andb_true_iff in H1. destruct H1 as [H1 H2]. rewrite H, H0; auto.
  - apply andb_true_iff in H1. destruct H1 as [H1 H2]. rewrite H, H0; auto.
Qed.

Lemma unfair_ctls_pl a : forall f, pl_ok f = true -> ctl_state (unfair_ctls a f) = true.
Proof.
  apply (form_ind' (fun f => pl_ok f = true -> ctl_state (unfair_ctls a f) = true)); intros; cbn [unfair_ctls pl_ok ctl_state forallb] in *; try reflexivity;
    try discriminate; auto.
  - apply (forallb_map_Forall pl_ok ctl_state); assumption.
  - apply (forallb_map_Forall pl_ok ctl_state); assumption.
  - apply andb_true_iff in H1. destruct H1 as [H1 H2]. rewrite H, H0; auto.
Qed.

Lemma hmax_map_le (f : form -> form) l :
  Forall (fun x => ltl_path x = true -> height (f x) <= S (height x)) l ->
  forallb ltl_path l = true -> hmax (map f l) <= S (hmax l).
Proof.
  induction 1 as [|x r Hx Hr IH]; cbn [forallb map]; intros H.
  - unfold hmax; cbn [fold_right]; lia.
  - apply andb_true_iff in H. destruct H as [H1 H2]. specialize (Hx H1). specialize (IH H2).
    unfold hmax in *. cbn [fold_right]. lia.
Qed.

Lemma unfair_ctls_height a : forall f, ltl_path f = true ->
  height (unfair_ctls a f) <= S (height f).
Proof.
  apply (form_ind' (fun f => ltl_path f = true -> height (unfair_ctls a f) <= S (height f))); intros; cbn [ltl_path] in *; try discriminate;
    try (apply andb_true_iff in H1; destruct H1 as [H1 H2]; specialize (H H1); specialize (H0 H2));
    try specialize (H H0);
    cbn [unfair_ctls height fold_right]; try lia.
  - pose proof (hmax_map_le (unfair_ctls a) fs H H0) as Hm. unfold hmax in Hm. lia.
  - pose proof (hmax_map_le (unfair_ctls a) fs H H0) as Hm. unfold hmax in Hm. lia.
Qed.

(* ------------------------------------------------------------------ *)
(* unfolding the fuelled eliminations                                  *)
(* ------------------------------------------------------------------ *)
Definition elim_list (n : nat) (L : lang) :=
  fix go (K : kripke) (fs : list form) : result (kripke * list form) :=
    match fs with
    | [] => Ok (K, [])
    | g :: r => rbind (elim n L K g) (fun '(K1, g') =>
                rbind (go K1 r) (fun '(K2, r') => Ok (K2, g' :: r')))
    end.

Lemma elim_S n L K f :
  elim (S n) L K f =
  match f with
  | FBool _ | FAtom _ => Ok (K, f)
  | FA g | FE g =>
      rbind (check_quantified n L K f)
            (fun '(K1, Sat) => Ok (add_label K1 Sat (fresh_name L K f), FAtom (fresh_name L K f)))
  | _ => rbind (elim_list n L K (children f)) (fun '(K1, gs) => Ok (K1, build (root_op f) gs))
  end.
Proof. destruct f; reflexivity. Qed.

Lemma check_quantified_S_A n L K g :
  check_quantified (S n) L K (FA g) =
  rbind (elim n L K g) (fun '(K1, g') =>
    if ctl_castable_state (FA g') then rmap (fun Sat => (K1, Sat)) (ctl_modelcheck K1 (FA g'))
    else rmap (fun Sat => (K1, Sat)) (ltl_modelcheck K1 (FA g'))).
Proof. reflexivity. Qed.

Definition elim_fair_list (n : nat) (a : atom) :=
  fix go (K : kripke) (fs : list form) : result (kripke * list form) :=
    match fs with
    | [] => Ok (K, [])
    | g :: r => rbind (elim_fair n a K g) (fun '(K1, g') =>
                rbind (go K1 r) (fun '(K2, r') => Ok (K2, g' :: r')))
    end.

Definition fair_quant (n : nat) (a : atom) (K1 : kripke) (q : form) : result (kripke * list nat) :=
  if ctl_castable_state q then
    match unfair_ctl a q with
    | Some q' => rmap (fun Sat => (K1, Sat)) (ctl_modelcheck K1 q')
    | None => TypeErr
    end
  else
    match unfair_ctls a q with
    | FA _ => rmap (fun Sat => (K1, Sat)) (ltl_modelcheck K1 (unfair_ctls a q))
    | FE h => rbind (elim n CTLS K1 (LNot (FA (LNot h)))) (fun '(K2, h') =>
                rmap (fun Sat => (K2, Sat)) (ctl_modelcheck K2 h'))
    | _ => TypeErr
    end.

Lemma elim_fair_S n a K f :
  elim_fair (S n) a K f =
  match f with
  | FBool _ | FAtom _ => Ok (K, f)
  | FA g =>
      rbind (elim_fair n a K g) (fun '(K1, g') =>
        rbind (fair_quant n a K1 (FA g'))
              (fun '(K3, Sat) => Ok (add_label K3 Sat (fresh_name CTLS K f), FAtom (fresh_name CTLS K f))))
  | FE g =>
      rbind (elim_fair n a K g) (fun '(K1, g') =>
        rbind (fair_quant n a K1 (FE g'))
              (fun '(K3, Sat) => Ok (add_label K3 Sat (fresh_name CTLS K f), FAtom (fresh_name CTLS K f))))
  | _ => rbind (elim_fair_list n a K (children f)) (fun '(K1, gs) => Ok (K1, build (root_op f) gs))
  end.
Proof. destruct f; reflexivity. Qed.

(* ------------------------------------------------------------------ *)
(* the plain elimination on a quantifier-free formula is the identity  *)
(* ------------------------------------------------------------------ *)
Lemma build_root_children_id f : build (root_op f) (children f) = f.
Proof. destruct f; reflexivity. Qed.

Lemma elim_qf L K : forall n f, ltl_path f = true -> height f < n -> elim n L K f = Ok (K, f).
Proof.
  induction n as [|n IH]; intros f Hq Hh; [lia|].
  assert (Hl : forall fs, (forall g, In g fs -> ltl_path g = true /\ height g < n) ->
                          elim_list n L K fs = Ok (K, fs)).
  { induction fs as [|x r IHr]; intros H; [reflexivity|].
    cbn [elim_list]. destruct (H x (or_introl eq_refl)) as [Hx1 Hx2].
    rewrite (IH x Hx1 Hx2). cbn [rbind]. fold (elim_list n L).
    rewrite IHr; [reflexivity|]. intros g Hg. apply H. right; exact Hg. }
  assert (Hc : elim_list n L K (children f) = Ok (K, children f)).
  { apply Hl. intros g Hg. split; [apply (children_qf f); assumption|].
    apply children_height in Hg. lia. }
  rewrite elim_S.
  destruct f; try reflexivity; try discriminate Hq;
    rewrite Hc; cbn [rbind]; rewrite build_root_children_id; reflexivity.
Qed.

(* not A m, m quantifier-free: one LTL or CTL call, one fresh label *)
Lemma elim_notA K m n : wf_K K -> ltl_path m = true -> height m + 4 <= n ->
  exists Sat nm, elim n CTLS K (FNot (FA m)) = Ok (add_label K Sat nm, FNot (FAtom nm)).
Proof.
  intros HK Hq Hn.
  destruct n as [|[|[|n]]]; try lia.
  rewrite elim_S. cbn [children elim_list].
  rewrite elim_S. rewrite check_quantified_S_A.
  rewrite (elim_qf CTLS K n m Hq) by lia. cbn [rbind].
  unfold ctl_castable_state.
  destruct (ctl_state (FA m)) eqn:Ec.
  - destruct (PMC.Proofs.Assemble.ctl_exact K (FA m) (proj1 HK) Ec) as [S [ES _]].
    rewrite ES. cbn [rmap rbind]. eexists; eexists; reflexivity.
  - unfold ltl_modelcheck. rewrite Hq. cbn [rmap rbind]. eexists; eexists; reflexivity.
Qed.

(* ------------------------------------------------------------------ *)
(* the fair elimination                                                *)
(* ------------------------------------------------------------------ *)
(* what the elimination promises about (input, output) *)
Definition rel (g g' : form) : Prop :=
  ltl_path g' = true /\ height g' <= height g /\ (ctls_state g = true -> pl_ok g' = true).

Lemma rel_list fs gs : Forall2 rel fs gs ->
  forallb ltl_path gs = true /\ hmax gs <= hmax fs /\
  (forallb ctls_state fs = true -> forallb pl_ok gs = true).
Proof.
  induction 1 as [|x y l l' (H1 & H2 & H3) Hl (IH1 & IH2 & IH3)].
  - repeat split; auto.
  - cbn [forallb]. unfold hmax in *. cbn [fold_right]. rewrite H1, IH1.
    split; [reflexivity|]. split; [lia|].
    intros H. apply andb_true_iff in H. destruct H as [Ha Hb]. rewrite (H3 Ha), (IH3 Hb). reflexivity.
Qed.

Lemma build_rel f gs : is_quantified f = false -> Forall2 rel (children f) gs ->
  rel f (build (root_op f) gs).
Proof.
  intros Hnq H.
  destruct f; cbn [children root_op] in H; try discriminate Hnq.
  - inversion H; subst. repeat split; auto.
  - inversion H; subst. repeat split; auto.
  - inversion H as [|x y l l' (H1 & H2 & H3) Hl]; subst. inversion Hl; subst.
    cbn [build root_op]. unfold rel. cbn [ltl_path height ctls_state pl_ok]. repeat split; auto; lia.
  - apply rel_list in H. destruct H as (H1 & H2 & H3). cbn [build root_op]. unfold rel.
    cbn [ltl_path height ctls_state pl_ok]. fold (hmax gs). fold (hmax fs). repeat split; auto; lia.
  - apply rel_list in H. destruct H as (H1 & H2 & H3). cbn [build root_op]. unfold rel.
    cbn [ltl_path height ctls_state pl_ok]. fold (hmax gs). fold (hmax fs). repeat split; auto; lia.
  - inversion H as [|x y l l' (H1 & H2 & H3) Hl]; subst.
    inversion Hl as [|x' y' l2 l2' (H1' & H2' & H3') Hl2]; subst. inversion Hl2; subst.
    cbn [build root_op]. unfold rel. cbn [ltl_path height ctls_state pl_ok]. rewrite H1, H1'.
    split; [reflexivity|]. split; [lia|].
    intros Hs. apply andb_true_iff in Hs. destruct Hs as [Ha Hb]. rewrite (H3 Ha), (H3' Hb). reflexivity.
  - inversion H as [|x y l l' (H1 & H2 & H3) Hl]; subst. inversion Hl; subst.
    cbn [build root_op]. unfold rel. cbn [ltl_path height ctls_state pl_ok].
    repeat split; auto; try lia; discriminate.
  - inversion H as [|x y l l' (H1 & H2 & H3) Hl]; subst. inversion Hl; subst.
    cbn [build root_op]. unfold rel. cbn [ltl_path height ctls_state pl_ok].
    repeat split; auto; try lia; discriminate.
  - inversion H as [|x y l l' (H1 & H2 & H3) Hl]; subst. inversion Hl; subst.
    cbn [build root_op]. unfold rel. cbn [ltl_path height ctls_state pl_ok].
    repeat split; auto; try lia; discriminate.
  - inversion H as [|x y l l' (H1 & H2 & H3) Hl]; subst.
    inversion Hl as [|x' y' l2 l2' (H1' & H2' & H3') Hl2]; subst. inversion Hl2; subst.
    cbn [build root_op]. unfold rel. cbn [ltl_path height ctls_state pl_ok]. rewrite H1, H1'.
    split; [reflexivity|]. split; [lia|]. discriminate.
  - inversion H as [|x y l l' (H1 & H2 & H3) Hl]; subst.
    inversion Hl as [|x' y' l2 l2' (H1' & H2' & H3') Hl2]; subst. inversion Hl2; subst.
    cbn [build root_op]. unfold rel. cbn [ltl_path height ctls_state pl_ok]. rewrite H1, H1'.
    split; [reflexivity|]. split; [lia|]. discriminate.
Qed.

Lemma add_label_wf K X a : wf_K K -> wf_K (add_label K X a).
Proof. intros H. apply PMC.Proofs.KripkeP.add_label_spec; exact H. Qed.

(* the model-checking call made for one quantified subformula *)
Lemma fair_quant_ok n a K1 g' q : wf_K K1 -> ltl_path g' = true -> height g' + 8 <= n ->
  q = FA g' \/ q = FE g' ->
  exists K3 Sat, fair_quant n a K1 q = Ok (K3, Sat) /\ wf_K K3 /\ kg K3 = kg K1.
Proof.
  intros HK Hq Hn Hshape. unfold fair_quant, ctl_castable_state.
  destruct (ctl_state q) eqn:Ec.
  - destruct (PMC.Proofs.FairP.unfair_ctl_ok a q Ec) as [q' [Eq Hq']]. rewrite Eq.
    destruct (PMC.Proofs.Assemble.ctl_exact K1 q' (proj1 HK) Hq') as [S [ES _]].
    rewrite ES. cbn [rmap rbind]. exists K1, S. auto.
  - pose proof (unfair_ctls_qf a g' Hq) as Hu.
    pose proof (unfair_ctls_height a g' Hq) as Hh.
    destruct Hshape as [-> | ->]; cbn [unfair_ctls].
    + unfold ltl_modelcheck.
      rewrite PMC.Proofs.RewriteP.LNot_ltl_path_eq. cbn [ltl_path forallb].
      rewrite PMC.Proofs.RewriteP.LNot_ltl_path_eq, Hu. cbn [andb rmap rbind].
      eexists; eexists. split; [reflexivity|]. auto.
    + cbn [LNot].
      destruct (elim_notA K1 (FNot (FAnd [FAtom a; unfair_ctls a g'])) n HK) as [Sat [nm E]].
      * cbn [ltl_path forallb]. rewrite Hu. reflexivity.
      * cbn [height fold_right]. lia.
      * rewrite E. cbn [rbind].
        pose proof (add_label_wf K1 Sat nm HK) as HK2.
        destruct (PMC.Proofs.Assemble.ctl_exact (add_label K1 Sat nm) (FNot (FAtom nm))
                    (proj1 HK2) eq_refl) as [S [ES _]].
        rewrite ES. cbn [rmap rbind]. eexists; eexists. split; [reflexivity|]. auto.
Qed.

Lemma elim_fair_ok a : forall n f K, wf_K K -> 4 * size f + 4 <= n ->
  exists K1 h, elim_fair n a K f = Ok (K1, h) /\ wf_K K1 /\ kg K1 = kg K /\ rel f h.
Proof.
  induction n as [|n IH]; intros f K HK Hn; [lia|].
  assert (Hl : forall fs K0, wf_K K0 -> (forall g, In g fs -> 4 * size g + 4 <= n) ->
             exists K1 gs, elim_fair_list n a K0 fs = Ok (K1, gs) /\ wf_K K1 /\ kg K1 = kg K0 /\
                           Forall2 rel fs gs).
  { induction fs as [|x r IHr]; intros K0 HK0 H.
    - exists K0, []. cbn [elim_fair_list]. split; [reflexivity|]. split; [exact HK0|].
      split; [reflexivity | constructor].
    - cbn [elim_fair_list]. fold (elim_fair_list n a).
      destruct (IH x K0 HK0 (H x (or_introl eq_refl))) as [K1 [x' [E1 [HK1 [Hg1 Hr1]]]]].
      rewrite E1. cbn [rbind].
      destruct (IHr K1 HK1) as [K2 [r' [E2 [HK2 [Hg2 Hr2]]]]].
      { intros g Hg. apply H. right; exact Hg. }
      rewrite E2. cbn [rbind]. exists K2, (x' :: r'). split; [reflexivity|].
      split; [exact HK2|]. split; [congruence|]. constructor; assumption. }
  assert (Hgen : is_quantified f = false ->
             exists K1 h, rbind (elim_fair_list n a K (children f))
                                (fun '(K1, gs) => Ok (K1, build (root_op f) gs)) = Ok (K1, h) /\
                          wf_K K1 /\ kg K1 = kg K /\ rel f h).
  { intros Hnq. destruct (Hl (children f) K HK) as [K1 [gs [E [HK1 [Hg Hr]]]]].
    - intros g Hg. apply children_size in Hg. lia.
    - rewrite E. cbn [rbind]. exists K1, (build (root_op f) gs). split; [reflexivity|].
      split; [exact HK1|]. split; [exact Hg|]. apply build_rel; assumption. }
  assert (Hquant : forall g (q : form -> form), (forall x, q x = FA x) \/ (forall x, q x = FE x) ->
             size f = S (size g) ->
             exists K1 h,
               rbind (elim_fair n a K g) (fun '(K1, g') =>
                 rbind (fair_quant n a K1 (q g'))
                   (fun '(K3, Sat) => Ok (add_label K3 Sat (fresh_name CTLS K f),
                                          FAtom (fresh_name CTLS K f)))) = Ok (K1, h) /\
               wf_K K1 /\ kg K1 = kg K /\ ltl_path h = true /\ height h = 0 /\ pl_ok h = true).
  { intros g q Hq Hs.
    destruct (IH g K HK ltac:(lia)) as [K1 [g' [E1 [HK1 [Hg1 (Hr1 & Hr2 & _)]]]]].
    rewrite E1. cbn [rbind].
    pose proof (height_le_size g) as Hhs. pose proof (size_pos g) as Hsp.
    destruct (fair_quant_ok n a K1 g' (q g') HK1 Hr1 ltac:(lia)) as [K3 [Sat [E3 [HK3 Hg3]]]].
    { destruct Hq as [Hq|Hq]; rewrite Hq; auto. }
    rewrite E3. cbn [rbind]. eexists; eexists. split; [reflexivity|].
    split; [apply add_label_wf; exact HK3|]. split; [cbn [add_label kg]; congruence|].
    split; [reflexivity|]. split; reflexivity. }
  rewrite elim_fair_S.
  destruct f as [b|x|g|fs|fs|g h|g|g|g|g h|g h|g|g]; try (apply Hgen; reflexivity).
  - destruct (Hquant g FA (or_introl (fun x => eq_refl)) eq_refl)
      as [K1 [h [E [HK1 [Hg (H1 & H2 & H3)]]]]].
    exists K1, h. split; [exact E|]. split; [exact HK1|]. split; [exact Hg|].
    unfold rel. split; [exact H1|]. split; [lia|]. intros _. exact H3.
  - destruct (Hquant g FE (or_intror (fun x => eq_refl)) eq_refl)
      as [K1 [h [E [HK1 [Hg (H1 & H2 & H3)]]]]].
    exists K1, h. split; [exact E|]. split; [exact HK1|]. split; [exact Hg|].
    unfold rel. split; [exact H1|]. split; [lia|]. intros _. exact H3.
Qed.

(* ------------------------------------------------------------------ *)
(* CTLS.modelcheck(kripke, f, F=F) never fails on a CTL* state formula  *)
(* ------------------------------------------------------------------ *)
Theorem ctls_fair_no_error : forall K f F, wf_K K -> ctls_state f = true ->
  exists S, ctls_modelcheck_fair K f F = Ok S /\ NoDup S /\ incl S (states K).
Proof.
  intros K f F HK Hs. unfold ctls_modelcheck_fair.
  destruct (PMC.Proofs.FairP.fair_clone K F HK) as [KC [E [Hwf Hst]]]. rewrite E. cbn [rbind].
  destruct (label_fair_states KC F) as [K0 a] eqn:EL. cbn [fst] in Hwf, Hst.
  destruct (elim_fair_ok a (ctls_fuel f) f K0 Hwf) as [K1 [h [E1 [HK1 [Hg (_ & _ & Hpl)]]]]].
  { unfold ctls_fuel. lia. }
  rewrite E1. cbn [rbind].
  destruct (PMC.Proofs.Assemble.ctl_exact K1 (unfair_ctls a h) (proj1 HK1)
              (unfair_ctls_pl a h (Hpl Hs))) as [S [ES [Hnd HS]]].
  exists S. split; [exact ES|]. split; [exact Hnd|].
  intros s Hin. apply Hst. apply HS in Hin. destruct Hin as [Hin _].
  unfold states in *. rewrite <- Hg. exact Hin.
Qed.

(* for an arbitrary tree the final CTL call answers or raises TypeError; in particular the
   fuel never runs out *)
Theorem ctls_fair_total : forall K f F, wf_K K ->
  (exists S, ctls_modelcheck_fair K f F = Ok S) \/ ctls_modelcheck_fair K f F = TypeErr.
Proof.
  intros K f F HK. unfold ctls_modelcheck_fair.
  destruct (PMC.Proofs.FairP.fair_clone K F HK) as [KC [E [Hwf Hst]]]. rewrite E. cbn [rbind].
  destruct (label_fair_states KC F) as [K0 a] eqn:EL. cbn [fst] in Hwf, Hst.
  destruct (elim_fair_ok a (ctls_fuel f) f K0 Hwf) as [K1 [h [E1 [HK1 _]]]].
  { unfold ctls_fuel. lia. }
  rewrite E1. cbn [rbind].
  destruct (ctl_state (unfair_ctls a h)) eqn:Ec.
  - destruct (PMC.Proofs.Assemble.ctl_exact K1 (unfair_ctls a h) (proj1 HK1) Ec) as [S [ES _]].
    left. exists S. exact ES.
  - right. unfold ctl_modelcheck. rewrite Ec. reflexivity.
Qed.

Print Assumptions ctls_fair_no_error.
Print Assumptions ctls_fair_total.

(* ------------------------------------------------------------------ *)
(* what the fair CTL / LTL checkers DO compute: the ordinary semantics  *)
(* of the reduced formula on the clone labelled with the fair label     *)
(* ------------------------------------------------------------------ *)
Theorem ctl_fair_characterised : forall K f F, wf_K K -> ctl_state f = true ->
  exists KC f' S,
    kclone K = Ok KC /\ unfair_ctl (fair_label KC) f = Some f' /\ ctl_state f' = true /\
    ctl_modelcheck_fair K f F = Ok S /\ NoDup S /\
    forall s, In s S <->
              In s (states K) /\ holds (add_label KC (get_fair_states KC F) (fair_label KC)) s f'.
Proof.
  intros K f F HK Hc. unfold ctl_modelcheck_fair. rewrite Hc.
  destruct (PMC.Proofs.FairP.fair_clone K F HK) as [KC [E [Hwf Hst]]]. rewrite E. cbn [rbind].
  unfold label_fair_states in *. cbn [fst] in Hwf, Hst.
  destruct (PMC.Proofs.FairP.unfair_ctl_ok (fair_label KC) f Hc) as [f' [Ef Hf']]. rewrite Ef.
  destruct (PMC.Proofs.Assemble.ctl_exact _ f' (proj1 Hwf) Hf') as [S [ES [Hnd HS]]].
  unfold ctl_modelcheck in ES. rewrite Hf' in ES.
  exists KC, f', S. split; [reflexivity|]. split; [exact Ef|]. split; [exact Hf'|].
  split; [exact ES|]. split; [exact Hnd|].
  intros s. rewrite HS, Hst. tauto.
Qed.

Definition ltl_fair_reduct (a : atom) (g : form) : form :=
  FNot (FAnd [FAtom a; unfair_ctls a (restrict (LNot g))]).

Lemma ltl_fair_reduct_path a g : ltl_path g = true -> ltl_path (ltl_fair_reduct a g) = true.
Proof.
  intros Hg. unfold ltl_fair_reduct. cbn [ltl_path forallb].
  rewrite unfair_ctls_qf; [reflexivity|].
  apply PMC.Proofs.RewriteP.restrict_ltl_path. rewrite PMC.Proofs.RewriteP.LNot_ltl_path_eq. exact Hg.
Qed.

(* LTL.modelcheck(K, A g, F) is LTL.modelcheck(K1, A not (fair and unfair(not g))) *)
Theorem ltl_fair_is_plain : forall K g F KC, ltl_path g = true -> kclone K = Ok KC ->
  ltl_modelcheck_fair K (FA g) F =
  ltl_modelcheck (add_label KC (get_fair_states KC F) (fair_label KC))
                 (FA (ltl_fair_reduct (fair_label KC) g)).
Proof.
  intros K g F KC Hg E. unfold ltl_modelcheck_fair, ltl_modelcheck.
  rewrite Hg, E, (ltl_fair_reduct_path _ g Hg). reflexivity.
Qed.

Theorem ltl_fair_characterised : forall K g F, wf_K K -> ltl_path g = true ->
  exists KC S,
    kclone K = Ok KC /\ ltl_modelcheck_fair K (FA g) F = Ok S /\
    forall s, In s S <->
      In s (states K) /\
      forall p, is_path (add_label KC (get_fair_states KC F) (fair_label KC)) p -> p 0 = s ->
                sat (add_label KC (get_fair_states KC F) (fair_label KC)) p
                    (ltl_fair_reduct (fair_label KC) g).
Proof.
  intros K g F HK Hg.
  destruct (PMC.Proofs.FairP.fair_clone K F HK) as [KC [E [Hwf Hst]]].
  unfold label_fair_states in *. cbn [fst] in Hwf, Hst.
  destruct (PMC.Proofs.Assemble.ltl_exact _ _ (proj1 Hwf) (ltl_fair_reduct_path (fair_label KC) g Hg))
    as [S [ES HS]].
  exists KC, S. split; [exact E|]. split.
  - rewrite (ltl_fair_is_plain K g F KC Hg E). exact ES.
  - intros s. rewrite HS, Hst. tauto.
Qed.

Print Assumptions ctl_fair_characterised.
Print Assumptions ltl_fair_is_plain.
Print Assumptions ltl_fair_characterised.
