(* GrammarP.v — the parser model of Model/Parse.v is SOUND for the documented grammars of
   Spec/Grammar.v: every string accepted by [parse_string L] is in the context-free language
   of the grammar text of L (free tokenisation), with the same AST.
     C10_sound       parse_string L s = Ok f -> in_language L s f
     parse_sound     parse L toks = Ok f -> wfs toks -> exists ts, spells_ptoks toks ts /\ derives L ts f
     grammar_member  derives L ts f -> member L f = true
   The inclusion is strict (examples ex_ctl_AXp).  Axiom-free.

   Structure:  [lex_layout]  lex s = Some toks -> the string is the texts of the tokens with
   optional white space around them, words being identifier words and quoted texts well
   escaped ([layout]; maximality of words is not needed for soundness);
   [spells rest toks ts]  the tokens of toks before rest read as the terminals ts, a word
   being read whole or cut into a keyword prefix and the reading of the rest;
   [spells_tokenises]  layout + reading = a tokenisation of the string;
   [sound N p]  what the parser function p consumes reads as terminals derived from the
   nonterminal N: [tail_sound], [chain_step_sound] (shared), [g_sound] (PL, CTL*, LTL by
   instantiation), [c_sound] (CTL). *)
From Coq Require Import List Arith Bool Lia String Ascii.
From PMC Require Import Model.Base Model.Syntax Model.Parse Proofs.PrintP Proofs.ParseP.
(* imported last: PrintP.v has an unrelated lemma also called ctl_u *)
From PMC Require Import Spec.Grammar.
Import ListNotations.
Local Open Scope string_scope.
Local Open Scope list_scope.
Notation "a +++ b" := (String.append a b) (at level 60, right associativity).

(* ------------------------------------------------------------------ *)
(** * Strings *)

Lemma sapp_assoc (a b c : string) : (a +++ b) +++ c = a +++ (b +++ c).
Proof. induction a as [|x a IH]; simpl; [reflexivity|rewrite IH; reflexivity]. Qed.
Lemma sapp_nil_r (a : string) : a +++ "" = a.
Proof. induction a as [|x a IH]; simpl; [reflexivity|rewrite IH; reflexivity]. Qed.

Lemma all_wc_app a b : all_word_char (a +++ b) = all_word_char a && all_word_char b.
Proof.
  induction a as [|x a IH]; simpl; [reflexivity|]. rewrite IH. apply andb_assoc.
Qed.

Lemma q_scan_app a : forall e b,
  q_scan e (a +++ b) = match q_scan e a with Some e' => q_scan e' b | None => None end.
Proof.
  induction a as [|x a IH]; intros e b; simpl; [reflexivity|].
  destruct (Ascii.eqb x "010"); [reflexivity|].
  destruct e; [apply IH|].
  destruct (Ascii.eqb x "\"); [apply IH|].
  destruct (Ascii.eqb x """"); [reflexivity|apply IH].
Qed.

(* ------------------------------------------------------------------ *)
(** * The text of a token and what the lexer guarantees about it *)

Definition sym_text (y : sym) : string :=
  match y with SNot => "~" | SOr => "|" | SAnd => "&" | SImp => "-->" end.
Definition tok_text (t : ptok) : string :=
  match t with
  | PWord w => w
  | PQuoted s => quote s
  | PLp => "("
  | PRp => ")"
  | PSym y => sym_text y
  end.
Definition tok_wf (t : ptok) : Prop :=
  match t with
  | PWord w => is_id_word w = true
  | PQuoted s => q_ok s
  | _ => True
  end.
Definition wfs (ts : list ptok) : Prop := Forall tok_wf ts.

(* s = ws text(t1) ws text(t2) ... ws text(tn) ws, every token well formed *)
Inductive layout : string -> list ptok -> Prop :=
| lay_nil : forall w, all_ws w = true -> layout w []
| lay_cons : forall w p s r,
    all_ws w = true -> tok_wf p -> layout s r -> layout (w +++ tok_text p +++ s) (p :: r).

Lemma layout_ws c s r : is_ws c = true -> layout s r -> layout (String c s) r.
Proof.
  intros Hc H. destruct H as [w Hw|w p s r Hw Hp H].
  - apply lay_nil. simpl. rewrite Hc, Hw. reflexivity.
  - apply (lay_cons (String c w) p s r); [simpl; rewrite Hc, Hw; reflexivity|exact Hp|exact H].
Qed.

Lemma layout_tok p s r : tok_wf p -> layout s r -> layout (tok_text p +++ s) (p :: r).
Proof. intros Hp H. apply (lay_cons "" p s r); [reflexivity|exact Hp|exact H]. Qed.

Lemma layout_wfs s r : layout s r -> wfs r.
Proof. induction 1 as [w Hw|w p s r Hw Hp H IH]; constructor; assumption. Qed.

(* the lexer state holds a partial token; it is consistent when ... *)
Definition st_ok (st : lstate) : Prop :=
  match st with
  | LSWord acc => is_id_word acc = true
  | LSQuote acc esc => q_scan false acc = Some esc
  | _ => True
  end.
(* ... and a successful run from that state completes the token and lays out the rest *)
Definition lex_inv (st : lstate) (s : string) (toks : list ptok) : Prop :=
  match st with
  | LS0 => layout s toks
  | LSWord acc => exists w s' r,
      s = w +++ s' /\ all_word_char w = true /\ toks = PWord (acc +++ w) :: r /\ layout s' r
  | LSQuote acc esc => exists q s' r,
      s = q +++ String """" s' /\ q_scan esc q = Some false /\
      toks = PQuoted (acc +++ q) :: r /\ layout s' r
  | LSDash1 => exists s' r, s = "->" +++ s' /\ toks = PSym SImp :: r /\ layout s' r
  | LSDash2 => exists s' r, s = ">" +++ s' /\ toks = PSym SImp :: r /\ layout s' r
  end.

Lemma omap_app_some {A} (out : list A) x toks :
  option_map (app out) x = Some toks -> exists t', x = Some t' /\ toks = out ++ t'.
Proof.
  destruct x as [t'|]; simpl; intros H; [|discriminate].
  injection H as H. exists t'. auto.
Qed.

Lemma ascii_eqb_true a b : Ascii.eqb a b = true -> a = b.
Proof. apply Ascii.eqb_eq. Qed.

Lemma is_id_word_snoc acc c :
  is_id_word acc = true -> is_word_char c = true -> is_id_word (snoc acc c) = true.
Proof.
  unfold snoc. destruct acc as [|x acc]; simpl; [discriminate|].
  intros H Hc. apply andb_true_iff in H. destruct H as [H1 H2].
  rewrite H1, all_wc_app, H2. simpl. rewrite Hc. reflexivity.
Qed.

Lemma lex_go_inv : forall s st toks,
  st_ok st -> lex_go st s = Some toks -> lex_inv st s toks.
Proof.
  induction s as [|c r IH]; intros st toks Hst H.
  - (* end of input *)
    destruct st as [|acc|acc esc| |]; simpl in H; try discriminate; injection H as H; subst toks.
    + simpl. apply lay_nil. reflexivity.
    + simpl. exists "", "", []. rewrite !sapp_nil_r. repeat split. apply lay_nil. reflexivity.
  - (* LS0 on a non-empty input, used twice below *)
    assert (A0 : forall toks0, lex_go LS0 (String c r) = Some toks0 -> layout (String c r) toks0).
    { intros toks0 H0. simpl in H0. unfold lex_start in H0.
      destruct (is_ws c) eqn:Ews.
      { apply omap_app_some in H0. destruct H0 as (t' & E & ->). simpl.
        apply layout_ws; [exact Ews|]. exact (IH LS0 t' I E). }
      destruct (is_word_start c) eqn:Est.
      { apply omap_app_some in H0. destruct H0 as (t' & E & ->). simpl.
        assert (Hok : st_ok (LSWord (String c ""))) by (simpl; rewrite Est; reflexivity).
        destruct (IH _ t' Hok E) as (w & s' & r0 & -> & Hw & -> & Hl).
        apply (layout_tok (PWord (String c w)) s' r0); [|exact Hl].
        simpl. rewrite Est, Hw. reflexivity. }
      destruct (Ascii.eqb c "(") eqn:E1.
      { apply ascii_eqb_true in E1. subst c.
        apply omap_app_some in H0. destruct H0 as (t' & E & ->).
        apply (layout_tok PLp r t' I). exact (IH LS0 t' I E). }
      destruct (Ascii.eqb c ")") eqn:E2.
      { apply ascii_eqb_true in E2. subst c.
        apply omap_app_some in H0. destruct H0 as (t' & E & ->).
        apply (layout_tok PRp r t' I). exact (IH LS0 t' I E). }
      destruct (Ascii.eqb c "~") eqn:E3.
      { apply ascii_eqb_true in E3. subst c.
        apply omap_app_some in H0. destruct H0 as (t' & E & ->).
        apply (layout_tok (PSym SNot) r t' I). exact (IH LS0 t' I E). }
      destruct (Ascii.eqb c "|") eqn:E4.
      { apply ascii_eqb_true in E4. subst c.
        apply omap_app_some in H0. destruct H0 as (t' & E & ->).
        apply (layout_tok (PSym SOr) r t' I). exact (IH LS0 t' I E). }
      destruct (Ascii.eqb c "&") eqn:E5.
      { apply ascii_eqb_true in E5. subst c.
        apply omap_app_some in H0. destruct H0 as (t' & E & ->).
        apply (layout_tok (PSym SAnd) r t' I). exact (IH LS0 t' I E). }
      destruct (Ascii.eqb c "-") eqn:E6.
      { apply ascii_eqb_true in E6. subst c.
        apply omap_app_some in H0. destruct H0 as (t' & E & ->).
        destruct (IH LSDash1 t' I E) as (s' & r0 & -> & -> & Hl).
        apply (layout_tok (PSym SImp) s' r0 I Hl). }
      destruct (Ascii.eqb c """") eqn:E7; [|discriminate].
      apply ascii_eqb_true in E7. subst c.
      apply omap_app_some in H0. destruct H0 as (t' & E & ->).
      assert (Hok : st_ok (LSQuote "" false)) by reflexivity.
      destruct (IH _ t' Hok E) as (q & s' & r0 & -> & Hq & -> & Hl).
      replace (String """" (q +++ String """" s')) with (tok_text (PQuoted q) +++ s').
      - apply layout_tok; [exact Hq|exact Hl].
      - simpl. unfold quote. simpl. rewrite sapp_assoc. reflexivity. }
    destruct st as [|acc|acc esc| |].
    + exact (A0 toks H).
    + (* inside a word *)
      simpl in H. destruct (is_word_char c) eqn:Ewc.
      * apply omap_app_some in H. destruct H as (t' & E & ->).
        assert (Hok : st_ok (LSWord (snoc acc c))) by (apply is_id_word_snoc; assumption).
        destruct (IH _ t' Hok E) as (w & s' & r0 & -> & Hw & -> & Hl).
        exists (String c w), s', r0. repeat split.
        -- simpl. rewrite Ewc, Hw. reflexivity.
        -- simpl. unfold snoc. rewrite sapp_assoc. reflexivity.
        -- exact Hl.
      * assert (E0 : exists t', lex_go LS0 (String c r) = Some t' /\ toks = PWord acc :: t').
        { simpl. destruct (lex_start c) as [[out st']|]; [|discriminate].
          apply omap_app_some in H. destruct H as (t' & E & ->).
          exists (out ++ t'). rewrite E. simpl. auto. }
        destruct E0 as (t' & E & ->).
        exists "", (String c r), t'. rewrite !sapp_nil_r. repeat split. exact (A0 t' E).
    + (* inside a quoted string *)
      simpl in H. simpl in Hst.
      destruct (Ascii.eqb c "010") eqn:Enl; [discriminate|].
      assert (Hsn : forall e', q_scan esc (String c "") = Some e' ->
                q_scan false (snoc acc c) = Some e').
      { intros e' He. unfold snoc. rewrite q_scan_app, Hst. exact He. }
      destruct esc.
      * apply omap_app_some in H. destruct H as (t' & E & ->).
        assert (Hok : st_ok (LSQuote (snoc acc c) false)).
        { apply Hsn. simpl. rewrite Enl. reflexivity. }
        destruct (IH _ t' Hok E) as (q & s' & r0 & -> & Hq & -> & Hl).
        exists (String c q), s', r0. repeat split.
        -- simpl. rewrite Enl. exact Hq.
        -- simpl. unfold snoc. rewrite sapp_assoc. reflexivity.
        -- exact Hl.
      * destruct (Ascii.eqb c "\") eqn:Ebs.
        { apply omap_app_some in H. destruct H as (t' & E & ->).
          assert (Hok : st_ok (LSQuote (snoc acc c) true)).
          { apply Hsn. simpl. rewrite Enl, Ebs. reflexivity. }
          destruct (IH _ t' Hok E) as (q & s' & r0 & -> & Hq & -> & Hl).
          exists (String c q), s', r0. repeat split.
          -- simpl. rewrite Enl, Ebs. exact Hq.
          -- simpl. unfold snoc. rewrite sapp_assoc. reflexivity.
          -- exact Hl. }
        destruct (Ascii.eqb c """") eqn:Eq.
        { apply ascii_eqb_true in Eq. subst c.
          apply omap_app_some in H. destruct H as (t' & E & ->).
          exists "", r, t'. rewrite !sapp_nil_r. repeat split. exact (IH LS0 t' I E). }
        apply omap_app_some in H. destruct H as (t' & E & ->).
        assert (Hok : st_ok (LSQuote (snoc acc c) false)).
        { apply Hsn. simpl. rewrite Enl, Ebs, Eq. reflexivity. }
        destruct (IH _ t' Hok E) as (q & s' & r0 & -> & Hq & -> & Hl).
        exists (String c q), s', r0. repeat split.
        -- simpl. rewrite Enl, Ebs, Eq. exact Hq.
        -- simpl. unfold snoc. rewrite sapp_assoc. reflexivity.
        -- exact Hl.
    + simpl in H. destruct (Ascii.eqb c "-") eqn:E1; [|discriminate].
      apply ascii_eqb_true in E1. subst c.
      apply omap_app_some in H. destruct H as (t' & E & ->).
      destruct (IH LSDash2 t' I E) as (s' & r0 & -> & -> & Hl).
      exists s', r0. repeat split. exact Hl.
    + simpl in H. destruct (Ascii.eqb c ">") eqn:E1; [|discriminate].
      apply ascii_eqb_true in E1. subst c.
      apply omap_app_some in H. destruct H as (t' & E & ->).
      exists r, t'. repeat split. exact (IH LS0 t' I E).
Qed.

Theorem lex_layout s toks : lex s = Some toks -> layout s toks.
Proof. intros H. exact (lex_go_inv s LS0 toks I H). Qed.

(* ------------------------------------------------------------------ *)
(** * Reading a token list as a terminal list *)

(* [spells rest toks ts]: the tokens of [toks] before [rest] read as the terminals [ts].
   A token reads as any terminal that its text spells; a word may also be cut: a terminal
   spelled by a prefix, then the reading of the rest of the word (operator-position prefix
   splitting; the cut-off rest must again be a well-formed word). *)
Inductive spells (rest : list ptok) : list ptok -> list term -> Prop :=
| sp_done : spells rest rest []
| sp_tok : forall p r t ts,
    spell t (tok_text p) -> spells rest r ts -> spells rest (p :: r) (t :: ts)
| sp_split : forall w x w' r t ts,
    spell t x -> w = x +++ w' -> tok_wf (PWord w') ->
    spells rest (PWord w' :: r) ts -> spells rest (PWord w :: r) (t :: ts).
Definition spells_ptoks (toks : list ptok) (ts : list term) : Prop := spells [] toks ts.

Lemma spells_trans mid rest toks ts1 ts2 :
  spells mid toks ts1 -> spells rest mid ts2 -> spells rest toks (ts1 ++ ts2).
Proof.
  intros H1 H2. induction H1 as [|p r t ts Hs H IH|w x w' r t ts Hs Hw Hwf H IH]; simpl.
  - exact H2.
  - apply sp_tok; assumption.
  - apply (sp_split rest w x w'); assumption.
Qed.

Lemma spells_one rest p t : spell t (tok_text p) -> spells rest (p :: rest) [t].
Proof. intros H. apply sp_tok; [exact H|apply sp_done]. Qed.

Lemma spells_wfs rest toks ts : spells rest toks ts -> wfs toks -> wfs rest.
Proof.
  induction 1 as [|p r t ts Hs H IH|w x w' r t ts Hs Hw Hwf H IH]; intros Hwfs.
  - exact Hwfs.
  - apply IH. inversion Hwfs; assumption.
  - apply IH. inversion Hwfs; subst. constructor; assumption.
Qed.

(* a laid-out token list, read as terminals, tokenises the string *)
Lemma spells_tokenises toks ts : spells_ptoks toks ts ->
  forall s, layout s toks -> tokenises s ts.
Proof.
  unfold spells_ptoks.
  induction 1 as [|p r t ts Hs H IH|w x w' r t ts Hs Hw Hwf H IH]; intros s Hl.
  - inversion Hl; subst. apply tk_nil. assumption.
  - inversion Hl as [|w0 p0 s0 r0 Hw0 Hp0 Hl0]; subst.
    apply tk_cons; [assumption|exact Hs|apply IH; exact Hl0].
  - inversion Hl as [|w0 p0 s0 r0 Hw0 Hp0 Hl0]; subst. simpl.
    rewrite sapp_assoc. apply tk_cons; [assumption|exact Hs|].
    apply IH. apply (layout_tok (PWord w') s0 r Hwf Hl0).
Qed.

(* ------------------------------------------------------------------ *)
(** * Classification of tokens: which terminal the parser reads *)

Definition kwu (u : uop) : kw :=
  match u with UNot => KNot | UX => KX | UF => KF | UG => KG | UA => KA | UE => KE end.
Definition kwb (b : bop) : kw :=
  match b with BOr => KOr | BAnd => KAnd | BImp => KImp | BU => KU | BR => KR end.

Lemma uop_of_word_spell w u : uop_of_word w = Some u -> In w (kw_texts (kwu u)).
Proof.
  unfold uop_of_word.
  destruct (w =? "not") eqn:E1; [apply String.eqb_eq in E1; intros H; injection H as <-; subst; simpl; auto|].
  destruct (w =? "X") eqn:E2; [apply String.eqb_eq in E2; intros H; injection H as <-; subst; simpl; auto|].
  destruct (w =? "F") eqn:E3; [apply String.eqb_eq in E3; intros H; injection H as <-; subst; simpl; auto|].
  destruct (w =? "G") eqn:E4; [apply String.eqb_eq in E4; intros H; injection H as <-; subst; simpl; auto|].
  destruct (w =? "A") eqn:E5; [apply String.eqb_eq in E5; intros H; injection H as <-; subst; simpl; auto|].
  destruct (w =? "E") eqn:E6; [apply String.eqb_eq in E6; intros H; injection H as <-; subst; simpl; auto|].
  discriminate.
Qed.

Lemma classify_inv ok t : tok_wf t ->
  match classify ok t with
  | HBool b => spell (TKw (if b then KTrue else KFalse)) (tok_text t)
  | HAtom a => spell (TId a) (tok_text t) \/ spell (TQ a) (tok_text t)
  | HPre u => spell (TKw (kwu u)) (tok_text t)
  | HLp => t = PLp
  | HBad => True
  end.
Proof.
  intros Hwf. destruct t as [w|s| | |y]; simpl.
  - destruct (w =? "true") eqn:E1; [apply String.eqb_eq in E1; subst; simpl; auto|].
    destruct (w =? "false") eqn:E2; [apply String.eqb_eq in E2; subst; simpl; auto|].
    assert (Hat : spell (TId w) w \/ spell (TQ w) w) by (left; split; [reflexivity|exact Hwf]).
    destruct (uop_of_word w) as [u|] eqn:E3; [|exact Hat].
    destruct (ok u); [|exact Hat]. exact (uop_of_word_spell w u E3).
  - right. split; [reflexivity|exact Hwf].
  - reflexivity.
  - exact I.
  - destruct y; simpl; auto.
Qed.

Lemma strip_prefix_eq k : forall w r, strip_prefix k w = Some r -> w = k +++ r.
Proof.
  induction k as [|a k IH]; intros w r H; simpl in H.
  - injection H as H. subst. reflexivity.
  - destruct w as [|b w]; [discriminate|]. destruct (Ascii.eqb a b) eqn:E; [|discriminate].
    apply ascii_eqb_true in E. subst b. simpl. rewrite (IH w r H). reflexivity.
Qed.

Lemma split_kw_spec ur w b rest : split_kw ur w = Some (b, rest) ->
  rest_ok rest = true /\ exists k, In k (kw_texts (kwb b)) /\ w = k +++ rest.
Proof.
  unfold split_kw.
  destruct (strip_prefix "or" w) as [r1|] eqn:E1.
  { destruct (rest_ok r1) eqn:R; [|discriminate]. intros H. injection H as <- <-.
    split; [exact R|]. exists "or". split; [simpl; auto|exact (strip_prefix_eq _ _ _ E1)]. }
  destruct (strip_prefix "and" w) as [r2|] eqn:E2.
  { destruct (rest_ok r2) eqn:R; [|discriminate]. intros H. injection H as <- <-.
    split; [exact R|]. exists "and". split; [simpl; auto|exact (strip_prefix_eq _ _ _ E2)]. }
  destruct ur; [|discriminate].
  destruct (strip_prefix "U" w) as [r3|] eqn:E3.
  { destruct (rest_ok r3) eqn:R; [|discriminate]. intros H. injection H as <- <-.
    split; [exact R|]. exists "U". split; [simpl; auto|exact (strip_prefix_eq _ _ _ E3)]. }
  destruct (strip_prefix "R" w) as [r4|] eqn:E4; [|discriminate].
  destruct (rest_ok r4) eqn:R; [|discriminate]. intros H. injection H as <- <-.
  split; [exact R|]. exists "R". split; [simpl; auto|exact (strip_prefix_eq _ _ _ E4)].
Qed.

Lemma id_word_all_wc w : is_id_word w = true -> all_word_char w = true.
Proof.
  destruct w as [|c w]; simpl; [reflexivity|]. intros H. apply andb_true_iff in H.
  destruct H as [H1 H2]. unfold is_word_char. rewrite H1, H2. reflexivity.
Qed.

(* the rest of a split word is again a word *)
Lemma rest_wf k c r : is_id_word (k +++ String c r) = true -> rest_ok (String c r) = true ->
  is_id_word (String c r) = true.
Proof.
  intros Hw Hr. apply id_word_all_wc in Hw. rewrite all_wc_app in Hw.
  apply andb_true_iff in Hw. destruct Hw as [_ Hw]. simpl in Hw, Hr |- *.
  apply andb_true_iff in Hw. destruct Hw as [Hc Hw]. rewrite Hw.
  unfold is_word_char in Hc. destruct (is_word_start c); [reflexivity|].
  simpl in Hc. rewrite Hc in Hr. discriminate.
Qed.

(* an operator read by [binop] is one keyword terminal, possibly cut off a longer word *)
Lemma binop_spells ur toks b r : binop ur toks = Some (b, r) -> wfs toks ->
  spells r toks [TKw (kwb b)].
Proof.
  intros H Hwf. destruct toks as [|t toks]; [discriminate|].
  destruct t as [w|s| | |y]; simpl in H; try discriminate.
  - destruct (split_kw ur w) as [[b' rest]|] eqn:E; [|discriminate].
    destruct (split_kw_spec ur w b' rest E) as (Hr & k & Hk & Hw).
    destruct rest as [|c rest]; injection H as <- <-.
    + rewrite sapp_nil_r in Hw. subst k. apply spells_one. exact Hk.
    + apply (sp_split _ w k (String c rest)); [exact Hk|exact Hw| |apply sp_done].
      simpl. inversion Hwf as [|? ? Hw1 _]; subst. simpl in Hw1. exact (rest_wf k c rest Hw1 Hr).
  - destruct y; try discriminate; injection H as <- <-; apply spells_one; simpl; auto.
Qed.

(* ------------------------------------------------------------------ *)
(** * Soundness of the shared pieces: [tail] and [chain_step] *)

Lemma rbind_ok {A B} (r : result A) (k : A -> result B) y :
  rbind r k = Ok y -> exists x, r = Ok x /\ k x = Ok y.
Proof. destruct r as [a| | | | | |]; simpl; intros H; try discriminate. exists a. auto. Qed.

Lemma bop_eqb_eq a b : bop_eqb a b = true -> a = b.
Proof. destruct a, b; simpl; intros H; try discriminate; reflexivity. Qed.

Lemma expect_rp_ok {A} (x y : A) ts rest : expect_rp x ts = Ok (y, rest) -> y = x /\ ts = PRp :: rest.
Proof.
  destruct ts as [|[] ts]; simpl; intros H; try discriminate. injection H as <- <-. auto.
Qed.

(* [sound N p]: what [p] consumes reads as terminals derived from the nonterminal N *)
Definition sound {A} (N : list term -> A -> Prop) (p : list ptok -> pres A) : Prop :=
  forall toks x rest, p toks = Ok (x, rest) -> wfs toks ->
    exists ts, spells rest toks ts /\ N ts x.

Lemma sound_weaken {A} (N N' : list term -> A -> Prop) p :
  (forall ts x, N ts x -> N' ts x) -> sound N p -> sound N' p.
Proof.
  intros HN H toks x rest E Hwf. destruct (H toks x rest E Hwf) as (ts & Hs & Hn).
  exists ts. split; [exact Hs|apply HN; exact Hn].
Qed.

Section Tail.
  (* NS: the operand nonterminal; NRep k: the repetition ( k NS )+ *)
  Variables (NS : list term -> form -> Prop) (NRep : kw -> list term -> list form -> Prop).
  Hypothesis rep_one : forall k ts f, NS ts f -> NRep k (TKw k :: ts) [f].
  Hypothesis rep_more : forall k ts f ts' fs,
    NS ts f -> NRep k ts' fs -> NRep k (TKw k :: ts ++ ts') (f :: fs).

  (* ( k NS )* *)
  Definition star (k : kw) (ts : list term) (fs : list form) : Prop :=
    (ts = [] /\ fs = []) \/ NRep k ts fs.

  Lemma rep_build k ts g ts' gs :
    NS ts g -> star k ts' gs -> NRep k (TKw k :: ts ++ ts') (g :: gs).
  Proof.
    intros Hg [[-> ->]|Hr].
    - rewrite app_nil_r. apply rep_one. exact Hg.
    - apply rep_more; assumption.
  Qed.

  (* what may follow a first operand f, and the value built *)
  Inductive tshape (ur : bool) (f : form) : list term -> form -> Prop :=
  | ts_none : tshape ur f [] f
  | ts_or : forall ts fs, NRep KOr ts fs -> tshape ur f ts (FOr (f :: fs))
  | ts_and : forall ts fs, NRep KAnd ts fs -> tshape ur f ts (FAnd (f :: fs))
  | ts_imp : forall ts g, NS ts g -> tshape ur f (TKw KImp :: ts) (FImp f g)
  | ts_u : forall ts g, ur = true -> NS ts g -> tshape ur f (TKw KU :: ts) (FU f g)
  | ts_r : forall ts g, ur = true -> NS ts g -> tshape ur f (TKw KR :: ts) (FR f g).

  Variable operand : list ptok -> pres form.
  Hypothesis Hop : sound NS operand.

  Lemma chain_step_sound op (ch : list ptok -> pres (list form)) :
    sound (star (kwb op)) ch -> sound (star (kwb op)) (chain_step operand ch op).
  Proof.
    intros Hch toks x rest H Hwf. unfold chain_step in H.
    assert (Hnone : Ok ([], toks) = Ok (x, rest) ->
              exists ts, spells rest toks ts /\ star (kwb op) ts x).
    { intros E. injection E as <- <-. exists []. split; [apply sp_done|left; auto]. }
    destruct (binop false toks) as [[b r]|] eqn:E; [|exact (Hnone H)].
    destruct (bop_eqb b op) eqn:Eb; [|exact (Hnone H)].
    apply bop_eqb_eq in Eb. subst b.
    pose proof (binop_spells _ _ _ _ E Hwf) as S0.
    pose proof (spells_wfs _ _ _ S0 Hwf) as W0.
    apply rbind_ok in H. destruct H as ([g r1] & E1 & H).
    destruct (Hop r g r1 E1 W0) as (ts1 & S1 & N1).
    pose proof (spells_wfs _ _ _ S1 W0) as W1.
    apply rbind_ok in H. destruct H as ([gs r2] & E2 & H). injection H as <- <-.
    destruct (Hch r1 gs r2 E2 W1) as (ts2 & S2 & N2).
    exists (TKw (kwb op) :: ts1 ++ ts2). split.
    - exact (spells_trans _ _ _ _ _ S0 (spells_trans _ _ _ _ _ S1 S2)).
    - right. apply rep_build; assumption.
  Qed.

  Variable chain : bop -> list ptok -> pres (list form).
  Hypothesis Hch : forall op, sound (star (kwb op)) (chain op).

  Lemma tail_sound ur f toks g rest :
    tail ur operand chain f toks = Ok (g, rest) -> wfs toks ->
    exists ts, spells rest toks ts /\ tshape ur f ts g.
  Proof.
    intros H Hwf. unfold tail in H.
    destruct (binop ur toks) as [[b r]|] eqn:E.
    2:{ injection H as <- <-. exists []. split; [apply sp_done|apply ts_none]. }
    pose proof (binop_spells _ _ _ _ E Hwf) as S0.
    pose proof (spells_wfs _ _ _ S0 Hwf) as W0.
    assert (Hur : ur = true \/ (b = BOr \/ b = BAnd \/ b = BImp)).
    { destruct ur; [left; reflexivity|right; exact (binop_false_kind _ _ _ E)]. }
    assert (Hnary : forall (k : list form -> form) op, b = op ->
              rbind (operand r) (fun '(g0, r1) =>
                rbind (chain op r1) (fun '(gs, r2) => Ok (k (f :: g0 :: gs), r2))) = Ok (g, rest) ->
              exists ts fs, spells rest toks ts /\ NRep (kwb op) ts fs /\ g = k (f :: fs)).
    { intros k op Eop H0. subst b.
      apply rbind_ok in H0. destruct H0 as ([g1 r1] & E1 & H0).
      destruct (Hop r g1 r1 E1 W0) as (ts1 & S1 & N1).
      pose proof (spells_wfs _ _ _ S1 W0) as W1.
      apply rbind_ok in H0. destruct H0 as ([gs r2] & E2 & H0). injection H0 as <- <-.
      destruct (Hch op r1 gs r2 E2 W1) as (ts2 & S2 & N2).
      exists (TKw (kwb op) :: ts1 ++ ts2), (g1 :: gs). split; [|split; [|reflexivity]].
      - exact (spells_trans _ _ _ _ _ S0 (spells_trans _ _ _ _ _ S1 S2)).
      - apply rep_build; assumption. }
    assert (Hbin : forall (k : form -> form -> form),
              rbind (operand r) (fun '(g0, r1) => Ok (k f g0, r1)) = Ok (g, rest) ->
              exists ts h, spells rest toks (TKw (kwb b) :: ts) /\ NS ts h /\ g = k f h).
    { intros k H0.
      apply rbind_ok in H0. destruct H0 as ([g1 r1] & E1 & H0). injection H0 as <- <-.
      destruct (Hop r g1 r1 E1 W0) as (ts1 & S1 & N1).
      exists ts1, g1. split; [|split; [exact N1|reflexivity]].
      exact (spells_trans _ _ _ _ _ S0 S1). }
    destruct b.
    - destruct (Hnary FOr BOr eq_refl H) as (ts & fs & S & N & ->).
      exists ts. split; [exact S|apply ts_or; exact N].
    - destruct (Hnary FAnd BAnd eq_refl H) as (ts & fs & S & N & ->).
      exists ts. split; [exact S|apply ts_and; exact N].
    - destruct (Hbin FImp H) as (ts & h & S & N & ->).
      exists (TKw KImp :: ts). split; [exact S|apply ts_imp; exact N].
    - destruct Hur as [Hur|[Hur|[Hur|Hur]]]; try discriminate Hur.
      destruct (Hbin FU H) as (ts & h & S & N & ->).
      exists (TKw KU :: ts). split; [exact S|apply ts_u; assumption].
    - destruct Hur as [Hur|[Hur|[Hur|Hur]]]; try discriminate Hur.
      destruct (Hbin FR H) as (ts & h & S & N & ->).
      exists (TKw KR :: ts). split; [exact S|apply ts_r; assumption].
  Qed.
End Tail.

(* ------------------------------------------------------------------ *)
(** * PL, CTL* and LTL: the shared parser [gu] / [gp] / [gchain] *)

Lemma pre_ok_not L : pre_ok L UNot = true.
Proof. destruct L; reflexivity. Qed.

Section G.
  Variable L : lang.
  (* NU / NP: the nonterminals u_formula and b_formula (PL) or p_formula (CTL*, LTL) *)
  Variables (NU NP : list term -> form -> Prop) (NRep : kw -> list term -> list form -> Prop).
  Hypothesis rep_one : forall k ts f, NU ts f -> NRep k (TKw k :: ts) [f].
  Hypothesis rep_more : forall k ts f ts' fs,
    NU ts f -> NRep k ts' fs -> NRep k (TKw k :: ts ++ ts') (f :: fs).
  Hypothesis c_bool : forall b : bool, NU [TKw (if b then KTrue else KFalse)] (FBool b).
  Hypothesis c_id : forall a, NU [TId a] (FAtom a).
  Hypothesis c_q : forall a, NU [TQ a] (FAtom a).
  Hypothesis c_pre : forall u ts f,
    pre_ok L u = true -> NU ts f -> NU (TKw (kwu u) :: ts) (apply_uop u f).
  Hypothesis c_par : forall ts f, NP ts f -> NU (TLpar :: ts ++ [TRpar]) f.
  Hypothesis c_tail : forall ts0 f ts g,
    NU ts0 f -> tshape NU NRep (has_ur L) f ts g -> NP (ts0 ++ ts) g.

  Lemma g_sound : forall n,
    sound NU (gu L n) /\ sound NP (gp L n) /\
    (forall op, sound (star NRep (kwb op)) (gchain L n op)).
  Proof.
    induction n as [|n (IHu & IHp & IHc)].
    - repeat split; intros; intros toks x rest H; simpl in H; discriminate.
    - split; [|split].
      + intros toks x rest H Hwf. rewrite gu_S in H. unfold gu_body in H.
        destruct toks as [|t r]; [discriminate|].
        inversion Hwf as [|? ? Ht Hr]; subst.
        pose proof (classify_inv (pre_ok L) t Ht) as C.
        destruct (classify (pre_ok L) t) as [b|a|u| |] eqn:Ec.
        * injection H as <- <-. exists [TKw (if b then KTrue else KFalse)].
          split; [apply spells_one; exact C|apply c_bool].
        * injection H as <- <-. destruct C as [C|C].
          -- exists [TId a]. split; [apply spells_one; exact C|apply c_id].
          -- exists [TQ a]. split; [apply spells_one; exact C|apply c_q].
        * apply rbind_ok in H. destruct H as ([f1 r1] & E1 & H). injection H as <- <-.
          destruct (IHu r f1 r1 E1 Hr) as (ts1 & S1 & N1).
          exists (TKw (kwu u) :: ts1). split; [apply sp_tok; assumption|].
          apply c_pre; [|exact N1]. exact (classify_pre _ _ _ Ec (pre_ok_not L)).
        * subst t. apply rbind_ok in H. destruct H as ([f1 r1] & E1 & H).
          apply expect_rp_ok in H. destruct H as [-> ->].
          destruct (IHp r f1 (PRp :: rest) E1 Hr) as (ts1 & S1 & N1).
          exists (TLpar :: ts1 ++ [TRpar]). split; [|apply c_par; exact N1].
          apply sp_tok; [reflexivity|].
          exact (spells_trans _ _ _ _ _ S1 (spells_one rest PRp TRpar eq_refl)).
        * discriminate.
      + intros toks x rest H Hwf. rewrite gp_S in H.
        apply rbind_ok in H. destruct H as ([f0 r0] & E0 & H).
        destruct (IHu toks f0 r0 E0 Hwf) as (ts0 & S0 & N0).
        pose proof (spells_wfs _ _ _ S0 Hwf) as W0.
        destruct (tail_sound NU NRep rep_one rep_more (gu L n) IHu (gchain L n) IHc
                    (has_ur L) f0 r0 x rest H W0) as (ts & S & T).
        exists (ts0 ++ ts). split; [exact (spells_trans _ _ _ _ _ S0 S)|].
        exact (c_tail ts0 f0 ts x N0 T).
      + intros op. intros toks x rest H Hwf. rewrite gchain_S in H.
        exact (chain_step_sound NU NRep rep_one rep_more (gu L n) IHu op (gchain L n op)
                 (IHc op) toks x rest H Hwf).
  Qed.
End G.

(* the three instances *)
Lemma pl_sound n : sound pl_b (gp PL n).
Proof.
  refine (proj1 (proj2 (g_sound PL pl_u pl_b pl_rep pl_rep_one pl_rep_more _ _ _ _ _ _ n))).
  - intros [|]; apply pl_u_s; constructor.
  - intros a. apply pl_u_s, pl_s_id.
  - intros a. apply pl_u_s, pl_s_q.
  - intros [] ts f Hu Hf; try discriminate Hu. apply pl_u_not. exact Hf.
  - exact pl_u_par.
  - intros ts0 f ts g Hf T. destruct T as [|ts fs R|ts fs R|ts h Hh|ts h Hur Hh|ts h Hur Hh].
    + rewrite app_nil_r. apply pl_b_u. exact Hf.
    + apply pl_b_or; assumption.
    + apply pl_b_and; assumption.
    + apply pl_b_imp; assumption.
    + discriminate Hur.
    + discriminate Hur.
Qed.

Lemma ctls_sound n : sound ctls_p (gp CTLS n).
Proof.
  refine (proj1 (proj2 (g_sound CTLS ctls_u ctls_p ctls_rep ctls_rep_one ctls_rep_more
                          _ _ _ _ _ _ n))).
  - intros [|]; apply ctls_u_s; constructor.
  - intros a. apply ctls_u_s, ctls_s_id.
  - intros a. apply ctls_u_s, ctls_s_q.
  - intros [] ts f _ Hf; simpl.
    + apply ctls_u_not. exact Hf.
    + apply ctls_u_X. exact Hf.
    + apply ctls_u_F. exact Hf.
    + apply ctls_u_G. exact Hf.
    + apply ctls_u_s, ctls_s_A. exact Hf.
    + apply ctls_u_s, ctls_s_E. exact Hf.
  - exact ctls_u_par.
  - intros ts0 f ts g Hf T. destruct T as [|ts fs R|ts fs R|ts h Hh|ts h Hur Hh|ts h Hur Hh].
    + rewrite app_nil_r. apply ctls_p_u. exact Hf.
    + apply ctls_p_or; assumption.
    + apply ctls_p_and; assumption.
    + apply ctls_p_imp; assumption.
    + apply ctls_p_U; assumption.
    + apply ctls_p_R; assumption.
Qed.

Lemma ltl_sound n : sound ltl_u (gu LTL n) /\ sound ltl_p (gp LTL n).
Proof.
  assert (H : sound ltl_u (gu LTL n) /\ sound ltl_p (gp LTL n) /\
              (forall op, sound (star ltl_rep (kwb op)) (gchain LTL n op))).
  { apply (g_sound LTL ltl_u ltl_p ltl_rep ltl_rep_one ltl_rep_more).
    - intros [|]; constructor.
    - exact ltl_u_id.
    - exact ltl_u_q.
    - intros [] ts f Hu Hf; try discriminate Hu; simpl.
      + apply ltl_u_not. exact Hf.
      + apply ltl_u_X. exact Hf.
      + apply ltl_u_F. exact Hf.
      + apply ltl_u_G. exact Hf.
    - exact ltl_u_par.
    - intros ts0 f ts g Hf T. destruct T as [|ts fs R|ts fs R|ts h Hh|ts h Hur Hh|ts h Hur Hh].
      + rewrite app_nil_r. apply ltl_p_u. exact Hf.
      + apply ltl_p_or; assumption.
      + apply ltl_p_and; assumption.
      + apply ltl_p_imp; assumption.
      + apply ltl_p_U; assumption.
      + apply ltl_p_R; assumption. }
  destruct H as (H1 & H2 & _). split; assumption.
Qed.

(* ------------------------------------------------------------------ *)
(** * CTL: [cs] / [cu] / [cchain] / [cf] *)

(* s_formula and u_formula never build a temporal root; [cf] returns a p_formula exactly when
   the root is temporal, and a u_formula otherwise *)
Definition ns (ts : list term) (f : form) : Prop := ctl_s ts f /\ is_path_root f = false.
Definition nu (ts : list term) (f : form) : Prop := ctl_u ts f /\ is_path_root f = false.
Definition nf (ts : list term) (f : form) : Prop :=
  (is_path_root f = true /\ ctl_p ts f) \/ (is_path_root f = false /\ ctl_u ts f).

Lemma cu_finish ts0 f ts g :
  ctl_s ts0 f -> is_path_root f = false -> tshape ctl_s ctl_rep false f ts g -> nu (ts0 ++ ts) g.
Proof.
  intros Hf Hr T. destruct T as [|ts fs R|ts fs R|ts h Hh|ts h Hur Hh|ts h Hur Hh].
  - rewrite app_nil_r. split; [apply ctl_u_s; exact Hf|exact Hr].
  - split; [apply ctl_u_or; assumption|reflexivity].
  - split; [apply ctl_u_and; assumption|reflexivity].
  - split; [apply ctl_u_imp; assumption|reflexivity].
  - discriminate Hur.
  - discriminate Hur.
Qed.

Lemma cf_finish ts0 f ts g :
  ctl_s ts0 f -> is_path_root f = false -> tshape ctl_s ctl_rep true f ts g -> nf (ts0 ++ ts) g.
Proof.
  intros Hf Hr T. destruct T as [|ts fs R|ts fs R|ts h Hh|ts h Hur Hh|ts h Hur Hh].
  - rewrite app_nil_r. right. split; [exact Hr|apply ctl_u_s; exact Hf].
  - right. split; [reflexivity|apply ctl_u_or; assumption].
  - right. split; [reflexivity|apply ctl_u_and; assumption].
  - right. split; [reflexivity|apply ctl_u_imp; assumption].
  - left. split; [reflexivity|apply ctl_p_U; assumption].
  - left. split; [reflexivity|apply ctl_p_R; assumption].
Qed.

Lemma c_sound : forall n,
  sound ns (cs n) /\ sound nu (cu n) /\
  (forall op, sound (star ctl_rep (kwb op)) (cchain n op)) /\ sound nf (cf n).
Proof.
  induction n as [|n (IHs & IHu & IHc & IHf)].
  - repeat split; intros; intros toks x rest H; simpl in H; discriminate.
  - assert (IHs' : sound ctl_s (cs n)).
    { apply (sound_weaken ns); [|exact IHs]. intros ts x [H _]. exact H. }
    pose proof (tail_sound ctl_s ctl_rep ctl_rep_one ctl_rep_more (cs n) IHs' (cchain n) IHc)
      as Htail.
    (* a quantifier applied to the result of [cf] *)
    assert (Hquant : forall (k : form -> form) (q : kw) t r x rest,
              (forall ts f, ctl_p ts f -> ctl_s (TKw q :: ts) (k f)) ->
              is_path_root (k x) = false -> spell (TKw q) (tok_text t) -> wfs r ->
              forall f1 r1, cf n r = Ok (f1, r1) ->
              (if is_path_root f1 then Ok (k f1, r1) else ParseErr) = Ok (k x, rest) ->
              (forall a b, k a = k b -> a = b) ->
              exists ts, spells rest (t :: r) ts /\ ns ts (k x)).
    { intros k q t r x rest Hk Hroot C Hr f1 r1 E1 H Hinj.
      destruct (IHf r f1 r1 E1 Hr) as (ts1 & S1 & N1).
      destruct (is_path_root f1) eqn:Ep; [|discriminate].
      injection H as H <-. apply Hinj in H. subst f1.
      destruct N1 as [[_ N1]|[N1 _]]; [|rewrite N1 in Ep; discriminate].
      exists (TKw q :: ts1). split; [apply sp_tok; assumption|].
      split; [apply Hk; exact N1|exact Hroot]. }
    split; [|split; [|split]].
    + (* cs *)
      intros toks x rest H Hwf. rewrite cs_S in H. unfold cs_body in H.
      destruct toks as [|t r]; [discriminate|].
      inversion Hwf as [|? ? Ht Hr]; subst.
      pose proof (classify_inv ctl_s_ok t Ht) as C.
      destruct (classify ctl_s_ok t) as [b|a|u| |] eqn:Ec.
      * injection H as <- <-. exists [TKw (if b then KTrue else KFalse)].
        split; [apply spells_one; exact C|]. split; [destruct b; constructor|reflexivity].
      * injection H as <- <-. destruct C as [C|C].
        -- exists [TId a]. split; [apply spells_one; exact C|]. split; [constructor|reflexivity].
        -- exists [TQ a]. split; [apply spells_one; exact C|]. split; [constructor|reflexivity].
      * destruct u; cbv beta iota in H; try discriminate H.
        -- apply rbind_ok in H. destruct H as ([f1 r1] & E1 & H). injection H as <- <-.
           destruct (IHs r f1 r1 E1 Hr) as (ts1 & S1 & N1 & _).
           exists (TKw KNot :: ts1). split; [apply sp_tok; assumption|].
           split; [apply ctl_s_not; exact N1|reflexivity].
        -- apply rbind_ok in H. destruct H as ([f1 r1] & E1 & H).
           assert (Hx : exists x0, x = FA x0).
           { destruct (is_path_root f1); [|discriminate]. injection H as <- _. eauto. }
           destruct Hx as [x0 ->].
           apply (Hquant FA KA t r x0 rest ctl_s_A eq_refl C Hr f1 r1 E1 H).
           intros a b E. injection E as E. exact E.
        -- apply rbind_ok in H. destruct H as ([f1 r1] & E1 & H).
           assert (Hx : exists x0, x = FE x0).
           { destruct (is_path_root f1); [|discriminate]. injection H as <- _. eauto. }
           destruct Hx as [x0 ->].
           apply (Hquant FE KE t r x0 rest ctl_s_E eq_refl C Hr f1 r1 E1 H).
           intros a b E. injection E as E. exact E.
      * subst t. apply rbind_ok in H. destruct H as ([f1 r1] & E1 & H).
        apply expect_rp_ok in H. destruct H as [-> ->].
        destruct (IHu r f1 (PRp :: rest) E1 Hr) as (ts1 & S1 & N1 & R1).
        exists (TLpar :: ts1 ++ [TRpar]). split; [|split; [apply ctl_s_par; exact N1|exact R1]].
        apply sp_tok; [reflexivity|].
        exact (spells_trans _ _ _ _ _ S1 (spells_one rest PRp TRpar eq_refl)).
      * discriminate.
    + (* cu *)
      intros toks x rest H Hwf. rewrite cu_S in H.
      apply rbind_ok in H. destruct H as ([f0 r0] & E0 & H).
      destruct (IHs toks f0 r0 E0 Hwf) as (ts0 & S0 & N0 & R0).
      pose proof (spells_wfs _ _ _ S0 Hwf) as W0.
      destruct (Htail false f0 r0 x rest H W0) as (ts & S & T).
      exists (ts0 ++ ts). split; [exact (spells_trans _ _ _ _ _ S0 S)|].
      exact (cu_finish ts0 f0 ts x N0 R0 T).
    + (* cchain *)
      intros op toks x rest H Hwf. rewrite cchain_S in H.
      exact (chain_step_sound ctl_s ctl_rep ctl_rep_one ctl_rep_more (cs n) IHs' op (cchain n op)
               (IHc op) toks x rest H Hwf).
    + (* cf *)
      intros toks x rest H Hwf. rewrite cf_S in H. unfold cf_body in H.
      destruct toks as [|t r]; [discriminate|].
      assert (Hdef : rbind (cs n (t :: r)) (fun '(f, r1) => tail true (cs n) (cchain n) f r1)
                     = Ok (x, rest) -> exists ts, spells rest (t :: r) ts /\ nf ts x).
      { intros H0. apply rbind_ok in H0. destruct H0 as ([f0 r0] & E0 & H0).
        destruct (IHs (t :: r) f0 r0 E0 Hwf) as (ts0 & S0 & N0 & R0).
        pose proof (spells_wfs _ _ _ S0 Hwf) as W0.
        destruct (Htail true f0 r0 x rest H0 W0) as (ts & S & T).
        exists (ts0 ++ ts). split; [exact (spells_trans _ _ _ _ _ S0 S)|].
        exact (cf_finish ts0 f0 ts x N0 R0 T). }
      inversion Hwf as [|? ? Ht Hr]; subst.
      pose proof (classify_inv ctl_p_ok t Ht) as C.
      assert (Hun : forall (k : form -> form) (q : kw),
                (forall ts f, ctl_s ts f -> ctl_p (TKw q :: ts) (k f)) ->
                (forall f, is_path_root (k f) = true) -> spell (TKw q) (tok_text t) ->
                rbind (cs n r) (fun '(f, r1) => Ok (k f, r1)) = Ok (x, rest) ->
                exists ts, spells rest (t :: r) ts /\ nf ts x).
      { intros k q Hk Hroot Cq H0.
        apply rbind_ok in H0. destruct H0 as ([f1 r1] & E1 & H0). injection H0 as <- <-.
        destruct (IHs r f1 r1 E1 Hr) as (ts1 & S1 & N1 & _).
        exists (TKw q :: ts1). split; [apply sp_tok; assumption|].
        left. split; [apply Hroot|apply Hk; exact N1]. }
      destruct (classify ctl_p_ok t) as [b|a|u| |] eqn:Ec.
      * exact (Hdef H).
      * exact (Hdef H).
      * destruct u; cbv beta iota in H; try exact (Hdef H).
        -- exact (Hun FX KX ctl_p_X (fun _ => eq_refl) C H).
        -- exact (Hun FF KF ctl_p_F (fun _ => eq_refl) C H).
        -- exact (Hun FG KG ctl_p_G (fun _ => eq_refl) C H).
      * subst t. apply rbind_ok in H. destruct H as ([f1 r1] & E1 & H).
        apply rbind_ok in H. destruct H as ([f2 r2] & E2 & H).
        apply expect_rp_ok in E2. destruct E2 as [-> ->].
        destruct (IHf r f1 (PRp :: r2) E1 Hr) as (ts1 & S1 & N1).
        assert (S2 : spells r2 (PLp :: r) (TLpar :: ts1 ++ [TRpar])).
        { apply sp_tok; [reflexivity|].
          exact (spells_trans _ _ _ _ _ S1 (spells_one r2 PRp TRpar eq_refl)). }
        destruct (is_path_root f1) eqn:Ep.
        -- injection H as <- <-. exists (TLpar :: ts1 ++ [TRpar]). split; [exact S2|].
           destruct N1 as [[_ N1]|[N1 _]]; [|rewrite N1 in Ep; discriminate].
           left. split; [exact Ep|apply ctl_p_par; exact N1].
        -- destruct N1 as [[N1 _]|[_ N1]]; [rewrite N1 in Ep; discriminate|].
           pose proof (spells_wfs _ _ _ S2 Hwf) as W2.
           destruct (Htail true f1 r2 x rest H W2) as (ts & S & T).
           exists ((TLpar :: ts1 ++ [TRpar]) ++ ts).
           split; [exact (spells_trans _ _ _ _ _ S2 S)|].
           apply (cf_finish _ f1); [apply ctl_s_par; exact N1|exact Ep|exact T].
      * discriminate.
Qed.

(* ------------------------------------------------------------------ *)
(** * Soundness of the parsers *)

(* token level *)
Theorem parse_sound : forall L toks f,
  parse L toks = Ok f -> wfs toks -> exists ts, spells_ptoks toks ts /\ derives L ts f.
Proof.
  intros L toks f H Hwf. unfold parse in H. cbv zeta in H. unfold spells_ptoks.
  destruct L; simpl derives.
  - apply finish_ok in H. exact (pl_sound _ toks f [] H Hwf).
  - apply finish_ok in H. exact (ctls_sound _ toks f [] H Hwf).
  - apply finish_ok in H.
    destruct (proj2 (proj2 (proj2 (c_sound _))) toks f [] H Hwf) as (ts & S & N).
    exists ts. split; [exact S|].
    destruct N as [[_ N]|[_ N]]; [apply ctl_formula_p|apply ctl_formula_u]; exact N.
  - assert (Hp : finish (gp LTL (parse_fuel toks) toks) = Ok f ->
                 exists ts, spells [] toks ts /\ ltl_formula ts f).
    { intros H0. apply finish_ok in H0.
      destruct (proj2 (ltl_sound _) toks f [] H0 Hwf) as (ts & S & N).
      exists ts. split; [exact S|apply ltl_formula_p; exact N]. }
    destruct toks as [|[w|q| | |y] r]; try exact (Hp H).
    destruct (w =? "A") eqn:Ew; [|exact (Hp H)].
    apply String.eqb_eq in Ew. subst w. apply finish_ok in H.
    apply rbind_ok in H. destruct H as ([f1 r1] & E1 & H). injection H as <- ->.
    inversion Hwf as [|? ? _ Hr]; subst.
    destruct (proj1 (ltl_sound _) r f1 [] E1 Hr) as (ts & S & N).
    exists (TKw KA :: ts). split.
    + apply sp_tok; [simpl; auto|exact S].
    + apply ltl_formula_s, ltl_s_A. exact N.
Qed.

(* character level: every accepted string is in the documented language, with the same AST *)
Theorem C10_sound : forall L s f, parse_string L s = Ok f -> in_language L s f.
Proof.
  intros L s f H. unfold parse_string in H.
  destruct (lex s) as [toks|] eqn:El; [|discriminate].
  pose proof (lex_layout s toks El) as Hl.
  destruct (parse_sound L toks f H (layout_wfs s toks Hl)) as (ts & S & D).
  exists ts. split; [exact (spells_tokenises toks ts S s Hl)|exact D].
Qed.

(* ------------------------------------------------------------------ *)
(** * The documented grammars derive formulas of their logic only *)

Scheme pl_s_mind := Minimality for pl_s Sort Prop
  with pl_u_mind := Minimality for pl_u Sort Prop
  with pl_b_mind := Minimality for pl_b Sort Prop
  with pl_rep_mind := Minimality for pl_rep Sort Prop.
Combined Scheme pl_mutind from pl_s_mind, pl_u_mind, pl_b_mind, pl_rep_mind.

Scheme ctl_s_mind := Minimality for ctl_s Sort Prop
  with ctl_u_mind := Minimality for Grammar.ctl_u Sort Prop
  with ctl_p_mind := Minimality for ctl_p Sort Prop
  with ctl_rep_mind := Minimality for ctl_rep Sort Prop.
Combined Scheme ctl_mutind from ctl_s_mind, ctl_u_mind, ctl_p_mind, ctl_rep_mind.

Scheme ltl_p_mind := Minimality for ltl_p Sort Prop
  with ltl_u_mind := Minimality for ltl_u Sort Prop
  with ltl_rep_mind := Minimality for ltl_rep Sort Prop.
Combined Scheme ltl_mutind from ltl_p_mind, ltl_u_mind, ltl_rep_mind.

Ltac rew_true :=
  repeat match goal with H : _ = true |- _ => rewrite H; clear H end.

Lemma pl_member :
  (forall ts f, pl_s ts f -> pl_ok f = true) /\
  (forall ts f, pl_u ts f -> pl_ok f = true) /\
  (forall ts f, pl_b ts f -> pl_ok f = true) /\
  (forall k ts fs, pl_rep k ts fs -> forallb pl_ok fs = true).
Proof. apply pl_mutind; intros; simpl; rew_true; reflexivity. Qed.

Lemma ctl_member :
  (forall ts f, ctl_s ts f -> ctl_state f = true) /\
  (forall ts f, Grammar.ctl_u ts f -> ctl_state f = true) /\
  (forall ts f, ctl_p ts f -> ctl_path f = true) /\
  (forall k ts fs, ctl_rep k ts fs -> forallb ctl_state fs = true).
Proof.
  apply ctl_mutind; intros; rewrite ?ctl_state_A, ?ctl_state_E; simpl; rew_true; reflexivity.
Qed.

Lemma ltl_member :
  (forall ts f, ltl_p ts f -> ltl_path f = true) /\
  (forall ts f, ltl_u ts f -> ltl_path f = true) /\
  (forall k ts fs, ltl_rep k ts fs -> forallb ltl_path fs = true).
Proof. apply ltl_mutind; intros; simpl; rew_true; reflexivity. Qed.

Theorem grammar_member : forall L ts f, derives L ts f -> member L f = true.
Proof.
  intros L ts f H. destruct L; simpl in *.
  - exact (proj1 (proj2 (proj2 pl_member)) ts f H).
  - reflexivity.
  - destruct H as [ts f H|ts f H].
    + rewrite (proj1 (proj2 (proj2 ctl_member)) ts f H). apply orb_true_r.
    + rewrite (proj1 (proj2 ctl_member) ts f H). reflexivity.
  - destruct H as [ts f H|ts f H].
    + destruct H as [ts f H]. simpl. rewrite (proj1 (proj2 ltl_member) ts f H). reflexivity.
    + rewrite (proj1 ltl_member ts f H). reflexivity.
Qed.

(* ------------------------------------------------------------------ *)
(** * Examples *)

(* surprising acceptances of the parsers that ARE inside the documented grammars *)
Example ex_pl_orb_in : in_language PL "p orb" (FOr [FAtom "p"; FAtom "b"]).
Proof.
  exists [TId "p"; TKw KOr; TId "b"]. split.
  - apply (tk_cons "" "p" " orb"); [reflexivity|split; reflexivity|].
    apply (tk_cons " " "or" "b"); [reflexivity|simpl; auto|].
    apply (tk_cons "" "b" ""); [reflexivity|split; reflexivity|].
    apply tk_nil. reflexivity.
  - apply (pl_b_or [TId "p"] (FAtom "p") [TKw KOr; TId "b"] [FAtom "b"]).
    + apply pl_u_s, pl_s_id.
    + apply pl_rep_one. apply pl_u_s, pl_s_id.
Qed.

Example ex_ctls_UUU_in : in_language CTLS "U U U" (FU (FAtom "U") (FAtom "U")).
Proof.
  exists [TId "U"; TKw KU; TId "U"]. split.
  - apply (tk_cons "" "U" " U U"); [reflexivity|split; reflexivity|].
    apply (tk_cons " " "U" " U"); [reflexivity|simpl; auto|].
    apply (tk_cons " " "U" ""); [reflexivity|split; reflexivity|].
    apply tk_nil. reflexivity.
  - apply (ctls_p_U [TId "U"] (FAtom "U") [TId "U"] (FAtom "U")); apply ctls_u_s, ctls_s_id.
Qed.

Example ex_ctl_AFG_in : in_language CTL "A F G" (FA (FF (FAtom "G"))).
Proof.
  exists [TKw KA; TKw KF; TId "G"]. split.
  - apply (tk_cons "" "A" " F G"); [reflexivity|simpl; auto|].
    apply (tk_cons " " "F" " G"); [reflexivity|simpl; auto|].
    apply (tk_cons " " "G" ""); [reflexivity|split; reflexivity|].
    apply tk_nil. reflexivity.
  - apply ctl_formula_u, ctl_u_s, ctl_s_A, ctl_p_F, ctl_s_id.
Qed.

(* the same three, as instances of the theorem *)
Example ex_by_theorem :
  in_language PL "p orb" (FOr [FAtom "p"; FAtom "b"]) /\
  in_language CTLS "U U U" (FU (FAtom "U") (FAtom "U")) /\
  in_language CTL "A F G" (FA (FF (FAtom "G"))).
Proof. repeat split; apply C10_sound; vm_compute; reflexivity. Qed.

(* quoted atoms: the raw text between the quotes, escapes kept *)
Example ex_pl_quoted_in :
  in_language PL """a\""b"" & c" (FAnd [FAtom "a\""b"; FAtom "c"]).
Proof. apply C10_sound. vm_compute. reflexivity. Qed.

(* the inclusion is strict: the grammar text of CTL, freely tokenised, reads "AX p" as
   A / X / p, whereas the parser (maximal words) reads the identifier AX and rejects *)
Example ex_ctl_AXp_in : in_language CTL "AX p" (FA (FX (FAtom "p"))).
Proof.
  exists [TKw KA; TKw KX; TId "p"]. split.
  - apply (tk_cons "" "A" "X p"); [reflexivity|simpl; auto|].
    apply (tk_cons "" "X" " p"); [reflexivity|simpl; auto|].
    apply (tk_cons " " "p" ""); [reflexivity|split; reflexivity|].
    apply tk_nil. reflexivity.
  - apply ctl_formula_u, ctl_u_s, ctl_s_A, ctl_p_X, ctl_s_id.
Qed.
Example ex_ctl_AXp_rejected : parse_string CTL "AX p" = ParseErr.
Proof. vm_compute. reflexivity. Qed.
Example ex_ctl_AXp_strict :
  exists s f, in_language CTL s f /\ parse_string CTL s <> Ok f.
Proof.
  exists "AX p", (FA (FX (FAtom "p"))). split; [exact ex_ctl_AXp_in|].
  rewrite ex_ctl_AXp_rejected. discriminate.
Qed.

Print Assumptions C10_sound.
Print Assumptions parse_sound.
Print Assumptions grammar_member.
Print Assumptions ex_ctl_AXp_strict.
