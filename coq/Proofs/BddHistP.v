(* BddHistP.v — expression building (Model/BExp.v) and client histories over the BDD
   store (Model/BddHist.v): functional correctness of [bbuild], its error behaviour,
   canonicity across expressions, the history invariant (every pool root stays live and
   ordered through any sequence of operations, drops and collections), stability of
   the semantics of pool entries, and the functional specification of every operation.
   Axiom-free. *)
From PMC Require Import Spec.BoolFun Model.BddHist Proofs.BddP.
From Coq Require Import Lia.

Ltac splits := repeat match goal with |- _ /\ _ => split end.

(* ------------------------------------------------------------------ *)
(** * Nested induction principle for [bexp] *)

Section BexpInd.
  Variable P : bexp -> Prop.
  Hypothesis HV : forall v, P (BVar v).
  Hypothesis HC : forall b, P (BConst b).
  Hypothesis HN : forall e, P e -> P (BNot e).
  Hypothesis HA : forall a b, P a -> P b -> P (BAnd a b).
  Hypothesis HO : forall a b, P a -> P b -> P (BOr a b).
  Hypothesis HAL : forall es, Forall P es -> P (BAndL es).
  Hypothesis HOL : forall es, Forall P es -> P (BOrL es).
  Hypothesis HB : P BBad.

  Fixpoint bexp_ind' (e : bexp) : P e :=
    match e with
    | BVar v => HV v
    | BConst b => HC b
    | BNot e1 => HN e1 (bexp_ind' e1)
    | BAnd a b => HA a b (bexp_ind' a) (bexp_ind' b)
    | BOr a b => HO a b (bexp_ind' a) (bexp_ind' b)
    | BAndL es => HAL es ((fix go (l : list bexp) : Forall P l :=
                             match l with
                             | [] => Forall_nil P
                             | x :: r => Forall_cons x (bexp_ind' x) (go r)
                             end) es)
    | BOrL es => HOL es ((fix go (l : list bexp) : Forall P l :=
                             match l with
                             | [] => Forall_nil P
                             | x :: r => Forall_cons x (bexp_ind' x) (go r)
                             end) es)
    | BBad => HB
    end.
End BexpInd.

(* ------------------------------------------------------------------ *)
(** * Variables, syntactic validity, and the status of a build *)

Fixpoint bvars (e : bexp) : list var :=
  match e with
  | BVar v => [v]
  | BConst _ => []
  | BNot e1 => bvars e1
  | BAnd a b | BOr a b => bvars a ++ bvars b
  | BAndL es | BOrL es => flat_map bvars es
  | BBad => []
  end.

Fixpoint no_bad (e : bexp) : bool :=
  match e with
  | BVar _ | BConst _ => true
  | BNot e1 => no_bad e1
  | BAnd a b | BOr a b => no_bad a && no_bad b
  | BAndL es | BOrL es => forallb no_bad es
  | BBad => false
  end.

(* outcome of [bbuild]: decided by the first failing leaf in left-to-right order *)
Inductive bstat := SOk | SRun | SSyn.
Definition seq_stat (a b : bstat) : bstat := match a with SOk => b | x => x end.
Fixpoint bstatus (O : ordering) (e : bexp) : bstat :=
  match e with
  | BVar v => if in_ord O v then SOk else SRun
  | BConst _ => SOk
  | BNot e1 => bstatus O e1
  | BAnd a b | BOr a b => seq_stat (bstatus O a) (bstatus O b)
  | BAndL es | BOrL es => fold_right (fun x acc => seq_stat (bstatus O x) acc) SOk es
  | BBad => SSyn
  end.

(* the inner loop of [bbuild] for [BAndL]/[BOrL] as a top-level function *)
Fixpoint bfold (O : ordering) (op : bool -> bool -> bool) (s : store) (acc : nat)
         (es : list bexp) : result (store * nat) :=
  match es with
  | [] => Ok (s, acc)
  | e1 :: r => rbind (bbuild O s e1) (fun '(s1, b) =>
               rbind (apply (nfuel acc + nfuel b) O op s1 acc b) (fun '(s2, c) =>
               bfold O op s2 c r))
  end.

Lemma bbuild_AndL O es s : bbuild O s (BAndL es) = bfold O andb_op s 1 es.
Proof.
  cbn [bbuild]. generalize 1. revert s.
  induction es as [|e1 r IH]; intros s acc; [reflexivity|].
  cbn [bfold]. destruct (bbuild O s e1) as [[s1 b]| | | | | |]; cbn [rbind]; try reflexivity.
  destruct (apply (nfuel acc + nfuel b) O andb_op s1 acc b) as [[s2 c]| | | | | |];
    cbn [rbind]; try reflexivity.
  apply IH.
Qed.

Lemma bbuild_OrL O es s : bbuild O s (BOrL es) = bfold O orb_op s 0 es.
Proof.
  cbn [bbuild]. generalize 0. revert s.
  induction es as [|e1 r IH]; intros s acc; [reflexivity|].
  cbn [bfold]. destruct (bbuild O s e1) as [[s1 b]| | | | | |]; cbn [rbind]; try reflexivity.
  destruct (apply (nfuel acc + nfuel b) O orb_op s1 acc b) as [[s2 c]| | | | | |];
    cbn [rbind]; try reflexivity.
  apply IH.
Qed.

(* ------------------------------------------------------------------ *)
(** * Complete characterisation of [bbuild] *)

Definition build_post (O : ordering) (s : store) (F : env -> bool)
           (r : result (store * nat)) : Prop :=
  exists s' n, r = Ok (s', n) /\ wf_store s' /\ extends s s' /\ live s' n = true /\
    ordered O s' n /\ forall env, denote s' n env = F env.

Definition build_res (st : bstat) (O : ordering) (s : store) (F : env -> bool)
           (r : result (store * nat)) : Prop :=
  match st with
  | SOk => build_post O s F r
  | SRun => r = RuntimeErr
  | SSyn => r = SyntaxErr
  end.

Definition build_ok (O : ordering) (e : bexp) : Prop :=
  forall s, wf_store s -> build_res (bstatus O e) O s (beval e) (bbuild O s e).

Lemma live_0 s : live s 0 = true. Proof. reflexivity. Qed.
Lemma live_1 s : live s 1 = true. Proof. reflexivity. Qed.
Lemma ordered_term_of O s b : ordered O s (term_of b).
Proof. apply ord_term. apply term_of_terminal. Qed.
Lemma denote_term_of s b env : wf_store s -> denote s (term_of b) env = b.
Proof.
  intros Hw. rewrite denote_terminal; [apply val_term_of|apply wf_sorted; exact Hw|apply term_of_terminal].
Qed.

Lemma bfold_spec O op es :
  Forall (build_ok O) es ->
  forall s acc, wf_store s -> live s acc = true -> ordered O s acc ->
    build_res (fold_right (fun x a => seq_stat (bstatus O x) a) SOk es) O s
      (fun env => fold_left (fun a x => op a (beval x env)) es (denote s acc env))
      (bfold O op s acc es).
Proof.
  induction 1 as [|e1 r He1 Hr IH]; intros s acc Hw Hl Ho.
  - cbn. exists s, acc. splits; auto using extends_refl.
  - cbn [fold_right bfold fold_left]. specialize (He1 s Hw).
    destruct (bstatus O e1); cbn [seq_stat build_res] in *.
    + destruct He1 as (s1 & b & E1 & Hw1 & He1 & Hlb & Hob & Hdb).
      rewrite E1. cbn [rbind].
      assert (Hl1 : live s1 acc = true) by (eapply live_extends; eauto).
      assert (Ho1 : ordered O s1 acc) by (apply (ordered_extends O s s1 acc Hw He1 Ho)).
      destruct (apply_ok_all O op (nfuel acc + nfuel b) s1 acc b Hw1 Ho1 Hob Hl1 Hlb (le_n _))
        as (s2 & c & E2 & Hw2 & He2 & Hlc & Hoc & _ & Hdc).
      rewrite E2. cbn [rbind].
      specialize (IH s2 c Hw2 Hlc Hoc).
      assert (Hd : forall env, denote s2 c env = op (denote s acc env) (beval e1 env)).
      { intros env. rewrite Hdc, Hdb. f_equal. apply denote_extends; auto. }
      destruct (fold_right (fun x a => seq_stat (bstatus O x) a) SOk r); cbn [build_res] in *; auto.
      destruct IH as (s' & n & E & Hw' & He' & Hl' & Ho' & Hd').
      exists s', n. splits; auto.
      * eapply extends_trans; [exact He1|]. eapply extends_trans; eauto.
      * intros env. rewrite Hd', Hd. reflexivity.
    + rewrite He1. reflexivity.
    + rewrite He1. reflexivity.
Qed.

Lemma fold_left_andb (f : bexp -> bool) es : forall a,
  fold_left (fun a x => andb_op a (f x)) es a = a && forallb f es.
Proof.
  induction es as [|x r IH]; intros a; cbn; [rewrite andb_true_r; reflexivity|].
  rewrite IH. unfold andb_op. rewrite andb_assoc. reflexivity.
Qed.
Lemma fold_left_orb (f : bexp -> bool) es : forall a,
  fold_left (fun a x => orb_op a (f x)) es a = a || existsb f es.
Proof.
  induction es as [|x r IH]; intros a; cbn; [rewrite orb_false_r; reflexivity|].
  rewrite IH. unfold orb_op. rewrite orb_assoc. reflexivity.
Qed.

Lemma build_res_ext st O s F G r : (forall env, F env = G env) ->
  build_res st O s F r -> build_res st O s G r.
Proof.
  intros HFG. destruct st; cbn; auto.
  intros (s' & n & E & Hw & He & Hl & Ho & Hd). exists s', n. splits; auto.
  intros env. rewrite Hd. apply HFG.
Qed.

(* binary node: build both sides, then apply *)
Lemma build_bin O op e1 e2 s :
  build_ok O e1 -> build_ok O e2 -> wf_store s ->
  build_res (seq_stat (bstatus O e1) (bstatus O e2)) O s
    (fun env => op (beval e1 env) (beval e2 env))
    (rbind (bbuild O s e1) (fun '(s1, a) =>
     rbind (bbuild O s1 e2) (fun '(s2, b) => apply (nfuel a + nfuel b) O op s2 a b))).
Proof.
  intros H1 H2 Hw. specialize (H1 s Hw).
  destruct (bstatus O e1); cbn [seq_stat build_res] in *; try (rewrite H1; reflexivity).
  destruct H1 as (s1 & a & E1 & Hw1 & He1 & Hla & Hoa & Hda). rewrite E1. cbn [rbind].
  specialize (H2 s1 Hw1).
  destruct (bstatus O e2); cbn [build_res] in *; try (rewrite H2; reflexivity).
  destruct H2 as (s2 & b & E2 & Hw2 & He2 & Hlb & Hob & Hdb). rewrite E2. cbn [rbind].
  assert (Hla2 : live s2 a = true) by (eapply live_extends; eauto).
  assert (Hoa2 : ordered O s2 a) by (apply (ordered_extends O s1 s2 a Hw1 He2 Hoa)).
  destruct (apply_ok_all O op (nfuel a + nfuel b) s2 a b Hw2 Hoa2 Hob Hla2 Hlb (le_n _))
    as (s3 & c & E3 & Hw3 & He3 & Hlc & Hoc & _ & Hdc).
  exists s3, c. splits; auto.
  - eapply extends_trans; [exact He1|]. eapply extends_trans; eauto.
  - intros env. rewrite Hdc, Hdb. f_equal. rewrite <- Hda. apply denote_extends; auto.
Qed.

Theorem bbuild_total O e : build_ok O e.
Proof.
  induction e as [v|b|e IH|a b IHa IHb|a b IHa IHb|es IH|es IH|] using bexp_ind'; intros s Hw.
  - cbn [bstatus bbuild beval]. destruct (in_ord O v) eqn:Ev; cbn [build_res]; [|reflexivity].
    destruct (mknode s v 0 1) as [s' n] eqn:E.
    destruct (mknode_spec s v 0 1 s' n Hw (live_0 s) (live_1 s) E) as (Hw' & He & Hl & _ & Hd).
    destruct (mknode_ordered O s v 0 1 s' n Hw (live_0 s) (live_1 s) E Ev) as [Ho _];
      try (apply below_terminal; reflexivity); try (apply ord_term; reflexivity).
    exists s', n. splits; auto.
    intros env. rewrite Hd. pose proof (wf_sorted s Hw) as Hs.
    rewrite !denote_terminal by (auto; reflexivity). destruct (env v); reflexivity.
  - cbn. exists s, (term_of b). splits; auto using extends_refl, ordered_term_of.
    + apply live_terminal. apply term_of_terminal.
    + intros env. apply denote_term_of; exact Hw.
  - cbn [bstatus bbuild beval]. specialize (IH s Hw).
    destruct (bstatus O e); cbn [build_res] in *; try (rewrite IH; reflexivity).
    destruct IH as (s1 & n & E1 & Hw1 & He1 & Hl1 & Ho1 & Hd1). rewrite E1. cbn [rbind].
    destruct (C17_neg O (nfuel n) s1 n Hw1 Ho1 Hl1 (le_n _))
      as (s2 & m & E2 & Hw2 & He2 & Hl2 & Ho2 & _ & Hd2).
    exists s2, m. splits; auto.
    + eapply extends_trans; eauto.
    + intros env. rewrite Hd2, Hd1. reflexivity.
  - cbn [bstatus bbuild beval]. apply (build_bin O andb_op a b s IHa IHb Hw).
  - cbn [bstatus bbuild beval]. apply (build_bin O orb_op a b s IHa IHb Hw).
  - rewrite bbuild_AndL. cbn [bstatus beval].
    eapply build_res_ext; [|apply (bfold_spec O andb_op es IH s 1 Hw (live_1 s)); apply ord_term; reflexivity].
    intros env. cbn beta. rewrite fold_left_andb. rewrite denote_terminal by (auto using wf_sorted).
    reflexivity.
  - rewrite bbuild_OrL. cbn [bstatus beval].
    eapply build_res_ext; [|apply (bfold_spec O orb_op es IH s 0 Hw (live_0 s)); apply ord_term; reflexivity].
    intros env. cbn beta. rewrite fold_left_orb. rewrite denote_terminal by (auto using wf_sorted).
    reflexivity.
  - reflexivity.
Qed.

(* ------------------------------------------------------------------ *)
(** * [bstatus] in terms of [bvars] / [no_bad] *)

Lemma seq_stat_ok a b : seq_stat a b = SOk <-> a = SOk /\ b = SOk.
Proof. destruct a, b; cbn; split; try tauto; try discriminate; intros [? ?]; discriminate. Qed.
Lemma seq_stat_ne x a b : a <> x -> b <> x -> seq_stat a b <> x.
Proof. destruct a; cbn; auto. Qed.

Definition vars_in (O : ordering) (e : bexp) : Prop := forall v, In v (bvars e) -> in_ord O v = true.

Lemma vars_in_app O (l1 l2 : list var) :
  (forall v, In v (l1 ++ l2) -> in_ord O v = true) <->
  (forall v, In v l1 -> in_ord O v = true) /\ (forall v, In v l2 -> in_ord O v = true).
Proof.
  split.
  - intros H; split; intros v Hv; apply H; apply in_or_app; auto.
  - intros [H1 H2] v Hv. apply in_app_or in Hv. destruct Hv; auto.
Qed.

Lemma fold_stat_ok O es :
  fold_right (fun x a => seq_stat (bstatus O x) a) SOk es = SOk <->
  Forall (fun x => bstatus O x = SOk) es.
Proof.
  induction es as [|x r IH]; cbn [fold_right].
  - split; auto.
  - rewrite seq_stat_ok, IH. split.
    + intros [H1 H2]; constructor; auto.
    + intros H; inversion H; subst; auto.
Qed.

Lemma list_vars_nobad O es :
  Forall (fun x => bstatus O x = SOk <-> vars_in O x /\ no_bad x = true) es ->
  (Forall (fun x => bstatus O x = SOk) es <->
   (forall v, In v (flat_map bvars es) -> in_ord O v = true) /\ forallb no_bad es = true).
Proof.
  induction 1 as [|x r Hx Hr IH]; cbn [flat_map forallb].
  - split; [intros _; split; [intros v []|reflexivity]|constructor].
  - rewrite vars_in_app, andb_true_iff. split.
    + intros H. inversion H as [|x' r' H1 H2]; subst. apply Hx in H1. apply IH in H2. tauto.
    + intros [[H1 H2] [H3 H4]]. constructor; [apply Hx; split; auto|apply IH; auto].
Qed.

Lemma bstatus_ok_iff O e : bstatus O e = SOk <-> vars_in O e /\ no_bad e = true.
Proof.
  induction e as [v|b|e IH|a b IHa IHb|a b IHa IHb|es IH|es IH|] using bexp_ind';
    unfold vars_in in *; cbn [bstatus bvars no_bad].
  - destruct (in_ord O v) eqn:E; split.
    + intros _; split; auto. intros w [<-|[]]; exact E.
    + reflexivity.
    + discriminate.
    + intros [H _]. rewrite (H v) in E by (left; reflexivity). discriminate.
  - split; auto; intros _; split; auto; intros v [].
  - exact IH.
  - rewrite seq_stat_ok, IHa, IHb, vars_in_app, andb_true_iff. tauto.
  - rewrite seq_stat_ok, IHa, IHb, vars_in_app, andb_true_iff. tauto.
  - rewrite fold_stat_ok. apply list_vars_nobad. exact IH.
  - rewrite fold_stat_ok. apply list_vars_nobad. exact IH.
  - split; [discriminate|intros [_ H]; discriminate].
Qed.

Lemma fold_stat_ne O x es :
  Forall (fun e => bstatus O e <> x) es -> x <> SOk ->
  fold_right (fun e a => seq_stat (bstatus O e) a) SOk es <> x.
Proof.
  intros H Hx. induction H as [|e r He Hr IH]; cbn [fold_right]; [congruence|].
  apply seq_stat_ne; auto.
Qed.

Lemma bstatus_not_syn O e : no_bad e = true -> bstatus O e <> SSyn.
Proof.
  induction e as [v|b|e IH|a b IHa IHb|a b IHa IHb|es IH|es IH|] using bexp_ind';
    cbn [bstatus no_bad]; intros Hn.
  - destruct (in_ord O v); discriminate.
  - discriminate.
  - auto.
  - apply andb_true_iff in Hn. apply seq_stat_ne; tauto.
  - apply andb_true_iff in Hn. apply seq_stat_ne; tauto.
  - apply fold_stat_ne; [|discriminate]. rewrite forallb_forall in Hn.
    rewrite Forall_forall in *. auto.
  - apply fold_stat_ne; [|discriminate]. rewrite forallb_forall in Hn.
    rewrite Forall_forall in *. auto.
  - discriminate.
Qed.

Lemma bstatus_not_run O e : vars_in O e -> bstatus O e <> SRun.
Proof.
  induction e as [v|b|e IH|a b IHa IHb|a b IHa IHb|es IH|es IH|] using bexp_ind';
    unfold vars_in in *; cbn [bstatus bvars]; intros Hv.
  - rewrite (Hv v) by (left; reflexivity). discriminate.
  - discriminate.
  - auto.
  - apply vars_in_app in Hv. apply seq_stat_ne; tauto.
  - apply vars_in_app in Hv. apply seq_stat_ne; tauto.
  - apply fold_stat_ne; [|discriminate]. rewrite Forall_forall in *.
    intros x Hx. apply IH; auto. intros v Hin. apply Hv. apply in_flat_map. exists x; auto.
  - apply fold_stat_ne; [|discriminate]. rewrite Forall_forall in *.
    intros x Hx. apply IH; auto. intros v Hin. apply Hv. apply in_flat_map. exists x; auto.
  - discriminate.
Qed.

(* ------------------------------------------------------------------ *)
(** * Theorem 1: functional correctness of [bbuild] *)

Theorem bbuild_spec O s e :
  wf_store s -> (forall v, In v (bvars e) -> in_ord O v = true) -> no_bad e = true ->
  exists s' n, bbuild O s e = Ok (s', n) /\ wf_store s' /\ extends s s' /\ live s' n = true /\
    ordered O s' n /\ forall env, denote s' n env = beval e env.
Proof.
  intros Hw Hv Hn. pose proof (bbuild_total O e s Hw) as H.
  replace (bstatus O e) with SOk in H by (symmetry; apply bstatus_ok_iff; split; auto).
  exact H.
Qed.

(* whenever [bbuild] succeeds, the result is as specified *)
Theorem bbuild_ok_inv O s e s' n :
  wf_store s -> bbuild O s e = Ok (s', n) ->
  wf_store s' /\ extends s s' /\ live s' n = true /\ ordered O s' n /\
  (forall env, denote s' n env = beval e env) /\
  (forall v, In v (bvars e) -> in_ord O v = true) /\ no_bad e = true.
Proof.
  intros Hw E. pose proof (bbuild_total O e s Hw) as H.
  destruct (bstatus O e) eqn:Es; cbn [build_res] in H; try congruence.
  destruct H as (s2 & m & E2 & Hw2 & He2 & Hl2 & Ho2 & Hd2).
  rewrite E in E2. injection E2 as <- <-.
  apply bstatus_ok_iff in Es. destruct Es as [Hv Hn]. splits; auto.
Qed.

(** * Theorem 2: errors *)

Theorem bbuild_runtime_err O s e :
  wf_store s -> no_bad e = true -> (exists v, In v (bvars e) /\ in_ord O v = false) ->
  bbuild O s e = RuntimeErr.
Proof.
  intros Hw Hn (v & Hin & Hv). pose proof (bbuild_total O e s Hw) as H.
  destruct (bstatus O e) eqn:Es; cbn [build_res] in H.
  - apply bstatus_ok_iff in Es. destruct Es as [Hall _]. rewrite (Hall v Hin) in Hv. discriminate.
  - exact H.
  - elim (bstatus_not_syn O e Hn Es).
Qed.

Theorem bbuild_syntax_err O s e :
  wf_store s -> (forall v, In v (bvars e) -> in_ord O v = true) -> no_bad e = false ->
  bbuild O s e = SyntaxErr.
Proof.
  intros Hw Hv Hn. pose proof (bbuild_total O e s Hw) as H.
  destruct (bstatus O e) eqn:Es; cbn [build_res] in H.
  - apply bstatus_ok_iff in Es. destruct Es as [_ Hn']. congruence.
  - elim (bstatus_not_run O e Hv Es).
  - exact H.
Qed.

(* the mixed case: the first failing leaf in evaluation order decides *)
Theorem bbuild_mixed_err O s e :
  wf_store s -> (no_bad e = false \/ exists v, In v (bvars e) /\ in_ord O v = false) ->
  bbuild O s e = RuntimeErr \/ bbuild O s e = SyntaxErr.
Proof.
  intros Hw Hbad. pose proof (bbuild_total O e s Hw) as H.
  destruct (bstatus O e) eqn:Es; cbn [build_res] in H; auto.
  apply bstatus_ok_iff in Es. destruct Es as [Hall Hn]. destruct Hbad as [Hb|(v & Hin & Hv)].
  - congruence.
  - rewrite (Hall v Hin) in Hv. discriminate.
Qed.

(* exact error, as a function of the expression and the ordering only *)
Theorem bbuild_errors O s e : wf_store s ->
  match bstatus O e with
  | SOk => exists s' n, bbuild O s e = Ok (s', n)
  | SRun => bbuild O s e = RuntimeErr
  | SSyn => bbuild O s e = SyntaxErr
  end.
Proof.
  intros Hw. pose proof (bbuild_total O e s Hw) as H.
  destruct (bstatus O e); cbn [build_res] in H; auto.
  destruct H as (s' & n & E & _). eauto.
Qed.

(* both orders do occur *)
Example mixed_syntax_first :
  bbuild [0] [] (BAnd BBad (BVar 7)) = SyntaxErr /\ bbuild [0] [] (BAnd (BVar 7) BBad) = RuntimeErr.
Proof. split; reflexivity. Qed.

Theorem obdd_parse_repeated s e O : nodup_vars O = false -> obdd_parse s e O = RuntimeErr.
Proof. intros H. unfold obdd_parse. rewrite H. reflexivity. Qed.

Theorem obdd_parse_spec s e O :
  wf_store s -> nodup_vars O = true ->
  (forall v, In v (bvars e) -> in_ord O v = true) -> no_bad e = true ->
  exists s' n, obdd_parse s e O = Ok (s', (n, O)) /\ wf_store s' /\ extends s s' /\
    live s' n = true /\ ordered O s' n /\ forall env, denote s' n env = beval e env.
Proof.
  intros Hw Hnd Hv Hn. destruct (bbuild_spec O s e Hw Hv Hn) as (s' & n & E & H).
  exists s', n. split; [|exact H]. unfold obdd_parse. rewrite Hnd, E. reflexivity.
Qed.

Theorem obdd_parse_ok_inv s e O s' o :
  wf_store s -> obdd_parse s e O = Ok (s', o) ->
  snd o = O /\ nodup_vars O = true /\ bbuild O s e = Ok (s', fst o) /\
  wf_store s' /\ extends s s' /\ live s' (fst o) = true /\ ordered O s' (fst o) /\
  forall env, denote s' (fst o) env = beval e env.
Proof.
  intros Hw. unfold obdd_parse. destruct (nodup_vars O); cbn [negb]; [|discriminate].
  destruct (bbuild O s e) as [[s1 n]| | | | | |] eqn:E; cbn; try discriminate.
  intros H. injection H as <- <-. cbn [fst snd].
  destruct (bbuild_ok_inv O s e s1 n Hw E) as (H1 & H2 & H3 & H4 & H5 & _). splits; auto.
Qed.

(** * Theorem 3: lambda form, synonyms, canonicity across expressions *)

Theorem lambda_is_parse s args e : obdd_lambda s args e = obdd_parse s e args.
Proof. reflexivity. Qed.

Theorem synonym_and a b env : beval (BAndL [a; b]) env = beval (BAnd a b) env.
Proof. cbn. rewrite andb_true_r. reflexivity. Qed.
Theorem synonym_or a b env : beval (BOrL [a; b]) env = beval (BOr a b) env.
Proof. cbn. rewrite orb_false_r. reflexivity. Qed.

Theorem build_same_function_same_node O s e1 e2 s1 n1 s2 n2 :
  wf_store s -> bbuild O s e1 = Ok (s1, n1) -> bbuild O s1 e2 = Ok (s2, n2) ->
  (forall env, beval e1 env = beval e2 env) -> n1 = n2.
Proof.
  intros Hw E1 E2 Heq.
  destruct (bbuild_ok_inv O s e1 s1 n1 Hw E1) as (Hw1 & He1 & Hl1 & Ho1 & Hd1 & _).
  destruct (bbuild_ok_inv O s1 e2 s2 n2 Hw1 E2) as (Hw2 & He2 & Hl2 & Ho2 & Hd2 & _).
  destruct (Nat.eq_dec n1 n2) as [E|E]; [exact E|exfalso].
  destruct (distinguish O s2 n1 n2 Hw2 (ordered_extends O s1 s2 n1 Hw1 He2 Ho1) Ho2
              (live_extends s1 s2 n1 He2 Hl1) Hl2 E) as [env H].
  apply H. rewrite Hd2, <- Heq, <- Hd1. apply denote_extends; auto.
Qed.

(* the same, for the synonyms *)
Corollary synonyms_same_node O s a b s1 n1 s2 n2 :
  wf_store s -> bbuild O s (BAndL [a; b]) = Ok (s1, n1) -> bbuild O s1 (BAnd a b) = Ok (s2, n2) ->
  n1 = n2.
Proof.
  intros Hw E1 E2. eapply build_same_function_same_node; eauto. intros env. apply synonym_and.
Qed.

(* ------------------------------------------------------------------ *)
(** * Pools *)

Lemma pool_get_set p : forall k x i,
  pool_get (pool_set p k x) i = if Nat.eqb i k && (k <? length p) then x else pool_get p i.
Proof.
  unfold pool_get. induction p as [|y r IH]; intros k x i.
  - cbn [pool_set length]. replace (k <? 0) with false by (symmetry; apply Nat.ltb_ge; lia).
    rewrite andb_false_r. reflexivity.
  - destruct k as [|k], i as [|i]; cbn [pool_set nth]; try reflexivity.
    rewrite IH. cbn [length]. reflexivity.
Qed.

Lemma pool_get_set_same p k x : k < length p -> pool_get (pool_set p k x) k = x.
Proof.
  intros H. rewrite pool_get_set, Nat.eqb_refl. apply Nat.ltb_lt in H. rewrite H. reflexivity.
Qed.
Lemma pool_get_set_other p k x i : i <> k -> pool_get (pool_set p k x) i = pool_get p i.
Proof.
  intros H. rewrite pool_get_set. apply Nat.eqb_neq in H. rewrite H. reflexivity.
Qed.
Lemma pool_set_length p : forall k x, length (pool_set p k x) = length p.
Proof. induction p as [|y r IH]; intros [|k] x; cbn; auto. Qed.

Lemma pool_get_In p i o : pool_get p i = Some o -> In (Some o) p.
Proof.
  unfold pool_get. revert i. induction p as [|y r IH]; intros [|i] H; cbn in *; try discriminate; eauto.
Qed.

Lemma pool_roots_In p r : In r (pool_roots p) <-> exists i O, pool_get p i = Some (r, O).
Proof.
  unfold pool_roots. rewrite in_flat_map. split.
  - intros (o & Hin & Hr). destruct o as [[r' O]|]; [|destruct Hr].
    destruct Hr as [<-|[]]. destruct (In_nth p _ None Hin) as (i & _ & Hi). exists i, O. exact Hi.
  - intros (i & O & Hi). exists (Some (r, O)). split; [eapply pool_get_In; eauto|left; reflexivity].
Qed.

(* ------------------------------------------------------------------ *)
(** * Theorem 4: the history invariant *)

Definition wf_h (h : hstate) : Prop :=
  wf_store (hstore h) /\
  forall i r O, pool_get (hpool h) i = Some (r, O) ->
    live (hstore h) r = true /\ ordered O (hstore h) r.

(* what every store-extending operation guarantees when it succeeds *)
Definition good_result (s : store) (res : result (store * obdd)) : Prop :=
  forall s' o, res = Ok (s', o) ->
    wf_store s' /\ extends s s' /\ live s' (fst o) = true /\ ordered (snd o) s' (fst o).

Lemma good_err {s} (res : result (store * obdd)) :
  (forall x, res <> Ok x) -> good_result s res.
Proof. intros H s' o E. elim (H _ E). Qed.

Lemma commit_inv h k res : wf_h h -> good_result (hstore h) res -> wf_h (commit h k res).
Proof.
  intros [Hw Hp] Hg. destruct res as [[s' o]| | | | | |]; cbn [commit]; try (split; assumption).
  destruct (Hg s' o eq_refl) as (Hw' & He & Hl & Ho). cbn [fst snd]. split; cbn [hstore hpool]; [exact Hw'|].
  intros i r O. rewrite pool_get_set.
  destruct (Nat.eqb i k && (k <? length (hpool h))).
  - intros E. injection E as ->. cbn [fst snd] in *. auto.
  - intros E. destruct (Hp i r O E) as [Hl1 Ho1]. split.
    + eapply live_extends; eauto.
    + apply (ordered_extends O (hstore h) s' r Hw He Ho1).
Qed.

Lemma good_parse s e O : wf_store s -> good_result s (obdd_parse s e O).
Proof.
  intros Hw s' o E. destruct (obdd_parse_ok_inv s e O s' o Hw E) as (H1 & _ & _ & H2 & H3 & H4 & H5 & _).
  rewrite H1. auto.
Qed.

Lemma good_apply op s a b : wf_store s ->
  live s (fst a) = true -> ordered (snd a) s (fst a) ->
  live s (fst b) = true -> ordered (snd b) s (fst b) ->
  good_result s (obdd_apply op s a b).
Proof.
  intros Hw Hla Hoa Hlb Hob s' o E. destruct a as [ra Oa], b as [rb Ob]. cbn [fst snd] in *.
  destruct (list_eq_dec Nat.eq_dec Oa Ob) as [<-|Hne].
  - destruct (obdd_apply_spec op s ra rb Oa Hw Hoa Hob Hla Hlb) as (s1 & n & E1 & H1 & H2 & H3 & H4 & _).
    rewrite E1 in E. injection E as <- <-. cbn [fst snd]. auto.
  - rewrite obdd_apply_mismatch in E by (cbn; exact Hne). discriminate.
Qed.

Lemma good_neg s a : wf_store s -> live s (fst a) = true -> ordered (snd a) s (fst a) ->
  good_result s (obdd_neg s a).
Proof.
  intros Hw Hla Hoa s' o E. destruct a as [ra Oa]. cbn [fst snd] in *.
  destruct (obdd_neg_spec s ra Oa Hw Hoa Hla) as (s1 & n & E1 & H1 & H2 & H3 & H4 & _).
  rewrite E1 in E. injection E as <- <-. cbn [fst snd]. auto.
Qed.

Lemma good_restrict s a v b : wf_store s -> live s (fst a) = true -> ordered (snd a) s (fst a) ->
  good_result s (obdd_restrict s a v b).
Proof.
  intros Hw Hla Hoa s' o E. destruct a as [ra Oa]. cbn [fst snd] in *.
  destruct (obdd_restrict_spec s ra Oa v b Hw Hoa Hla) as (s1 & n & E1 & H1 & H2 & H3 & H4 & _).
  rewrite E1 in E. injection E as <- <-. cbn [fst snd]. auto.
Qed.

(* needs nothing about the printer: whatever was parsed, a successful build is good *)
Lemma good_reparse s a : wf_store s -> good_result s (reparse_root s a).
Proof.
  intros Hw. unfold reparse_root. destruct (pyparse (print_root s (fst a))) as [e|].
  - apply good_parse; exact Hw.
  - apply good_err. discriminate.
Qed.

(* every step is a commit of a good result, a drop, or a collection *)
Definition gc_roots (h : hstate) (keep : list nat) : list nat :=
  pool_roots (hpool h) ++ filter (live (hstore h)) keep.

Lemma hstep_shape h op : wf_h h ->
  (exists k res, hstep h op = commit h k res /\ good_result (hstore h) res) \/
  (exists i, op = HDrop i /\ hstep h op = mkH (hstore h) (pool_set (hpool h) i None)) \/
  (exists keep, op = HGc keep /\ hstep h op = mkH (collect (hstore h) (gc_roots h keep)) (hpool h)).
Proof.
  intros [Hw Hp].
  assert (Hnop : exists k res, h = commit h k res /\ good_result (hstore h) res).
  { exists 0, RuntimeErr. split; [reflexivity|apply good_err; discriminate]. }
  destruct op as [k O e|k args e|o i j k|i k|i v b k|i k|i|keep]; cbn [hstep].
  - left. exists k, (obdd_parse (hstore h) e O). split; [reflexivity|apply good_parse; exact Hw].
  - left. exists k, (obdd_parse (hstore h) e args). split; [reflexivity|apply good_parse; exact Hw].
  - left. destruct (pool_get (hpool h) i) as [[ra Oa]|] eqn:Ei; [|exact Hnop].
    destruct (pool_get (hpool h) j) as [[rb Ob]|] eqn:Ej; [|exact Hnop].
    destruct (Hp i ra Oa Ei) as [H1 H2]. destruct (Hp j rb Ob Ej) as [H3 H4].
    eexists _, _. split; [reflexivity|apply good_apply; auto].
  - left. destruct (pool_get (hpool h) i) as [[ra Oa]|] eqn:Ei; [|exact Hnop].
    destruct (Hp i ra Oa Ei) as [H1 H2].
    eexists _, _. split; [reflexivity|apply good_neg; auto].
  - left. destruct (pool_get (hpool h) i) as [[ra Oa]|] eqn:Ei; [|exact Hnop].
    destruct (Hp i ra Oa Ei) as [H1 H2].
    eexists _, _. split; [reflexivity|apply good_restrict; auto].
  - left. destruct (pool_get (hpool h) i) as [[ra Oa]|] eqn:Ei; [|exact Hnop].
    eexists _, _. split; [reflexivity|apply good_reparse; auto].
  - right; left. exists i. auto.
  - right; right. exists keep. auto.
Qed.

Lemma drop_inv h i : wf_h h -> wf_h (mkH (hstore h) (pool_set (hpool h) i None)).
Proof.
  intros [Hw Hp]. split; cbn [hstore hpool]; [exact Hw|].
  intros j r O. rewrite pool_get_set. destruct (Nat.eqb j i && (i <? length (hpool h))); [discriminate|].
  apply Hp.
Qed.

Lemma gc_roots_live h keep : wf_h h -> forall r, In r (gc_roots h keep) -> live (hstore h) r = true.
Proof.
  intros [Hw Hp] r Hin. unfold gc_roots in Hin. apply in_app_or in Hin. destruct Hin as [Hin|Hin].
  - apply pool_roots_In in Hin. destruct Hin as (i & O & Hi). apply (Hp i r O Hi).
  - apply filter_In in Hin. tauto.
Qed.

Lemma pool_root_reachable h keep i r O : pool_get (hpool h) i = Some (r, O) ->
  reachable_from (hstore h) (gc_roots h keep) r.
Proof.
  intros Hi. exists r. split; [|apply reach_refl].
  unfold gc_roots. apply in_or_app. left. apply pool_roots_In. eauto.
Qed.

Lemma gc_inv h keep : wf_h h -> wf_h (mkH (collect (hstore h) (gc_roots h keep)) (hpool h)).
Proof.
  intros Hh. pose proof Hh as [Hw Hp].
  destruct (collect_spec (hstore h) (gc_roots h keep) Hw (gc_roots_live h keep Hh)) as (Hw' & _ & Hr).
  split; cbn [hstore hpool]; [exact Hw'|].
  intros i r O Hi. destruct (Hr r (pool_root_reachable h keep i r O Hi)) as (Hl & _ & _ & Ho).
  split; [exact Hl|]. apply Ho. apply (Hp i r O Hi).
Qed.

Theorem hstep_inv h op : wf_h h -> wf_h (hstep h op).
Proof.
  intros Hh. destruct (hstep_shape h op Hh) as [(k & res & -> & Hg)|[(i & _ & ->)|(keep & _ & ->)]].
  - apply commit_inv; auto.
  - apply drop_inv; auto.
  - apply gc_inv; auto.
Qed.

Lemma hinit_inv n : wf_h (hinit n).
Proof.
  split; cbn [hinit hstore hpool]; [apply wf_nil|].
  intros i r O H. unfold pool_get in H.
  assert (E : nth i (repeat (@None obdd) n) None = None).
  { destruct (nth_in_or_default i (repeat (@None obdd) n) None) as [Hin|E]; [|exact E].
    apply repeat_spec in Hin. exact Hin. }
  rewrite E in H. discriminate.
Qed.

Lemma fold_hstep_inv ops : forall h, wf_h h -> wf_h (fold_left hstep ops h).
Proof. induction ops as [|op r IH]; intros h Hh; cbn [fold_left]; auto using hstep_inv. Qed.

Theorem hrun_inv n ops : wf_h (hrun n ops).
Proof. apply fold_hstep_inv. apply hinit_inv. Qed.

(* failing operations leave the state unchanged *)
Theorem hstep_fail_unchanged h op : hstatus h op <> Ok tt -> hstep h op = h.
Proof.
  assert (Hc : forall k res, rmap (fun _ : store * obdd => tt) res <> Ok tt -> commit h k res = h).
  { intros k [x| | | | | |] H; try reflexivity. elim H. reflexivity. }
  destruct op as [k O e|k args e|o i j k|i k|i v b k|i k|i|keep]; cbn [hstep hstatus]; intros H;
    try (elim H; reflexivity); auto;
    destruct (pool_get (hpool h) i); auto; try (destruct (pool_get (hpool h) j)); auto.
Qed.

(* ------------------------------------------------------------------ *)
(** * Theorem 5: canonicity along histories *)

Theorem C16_no_dup h : wf_h h -> no_dup_triples (hstore h) = true.
Proof. intros [Hw _]. apply wf_nodup; exact Hw. Qed.

Theorem obdd_eq_true a b : obdd_eq a b = true <-> fst a = fst b /\ snd a = snd b.
Proof. unfold obdd_eq. rewrite andb_true_iff, Nat.eqb_eq, ordering_eqb_eq. tauto. Qed.

Corollary obdd_eq_sound a b : obdd_eq a b = true -> snd a = snd b /\ fst a = fst b.
Proof. intros H. apply obdd_eq_true in H. tauto. Qed.

Theorem C16_eq h i j a b :
  wf_h h -> pool_get (hpool h) i = Some a -> pool_get (hpool h) j = Some b -> snd a = snd b ->
  (obdd_eq a b = true <->
   forall env, denote (hstore h) (fst a) env = denote (hstore h) (fst b) env).
Proof.
  intros [Hw Hp] Hi Hj HO. destruct a as [ra Oa], b as [rb Ob]. cbn [fst snd] in *. subst Ob.
  destruct (Hp i ra Oa Hi) as [Hla Hoa]. destruct (Hp j rb Oa Hj) as [Hlb Hob].
  rewrite obdd_eq_true. cbn [fst snd]. split.
  - intros [-> _] env. reflexivity.
  - intros Hd. split; [|reflexivity].
    destruct (Nat.eq_dec ra rb) as [E|E]; [exact E|exfalso].
    destruct (distinguish Oa (hstore h) ra rb Hw Hoa Hob Hla Hlb E) as [env H]. apply H, Hd.
Qed.

(* ------------------------------------------------------------------ *)
(** * Theorem 6: semantics are stable along histories; functional spec of each operation *)

(* every pool root keeps its meaning across any operation (whether or not its slot is
   overwritten afterwards), including any collection *)
Theorem hstep_denote_stable_strong h op i r O :
  wf_h h -> pool_get (hpool h) i = Some (r, O) ->
  forall env, denote (hstore (hstep h op)) r env = denote (hstore h) r env.
Proof.
  intros Hh Hi env. pose proof Hh as [Hw Hp]. destruct (Hp i r O Hi) as [Hl Ho].
  destruct (hstep_shape h op Hh) as [(k & res & -> & Hg)|[(j & _ & ->)|(keep & _ & ->)]].
  - destruct res as [[s' o]| | | | | |]; cbn [commit hstore]; try reflexivity.
    destruct (Hg s' o eq_refl) as (Hw' & He & _). cbn [fst]. apply denote_extends; auto.
  - reflexivity.
  - cbn [hstore].
    destruct (collect_spec (hstore h) (gc_roots h keep) Hw (gc_roots_live h keep Hh)) as (_ & _ & Hr).
    destruct (Hr r (pool_root_reachable h keep i r O Hi)) as (_ & _ & Hd & _). apply Hd.
Qed.

Theorem hstep_denote_stable h op i r O :
  wf_h h -> pool_get (hpool h) i = Some (r, O) ->
  pool_get (hpool (hstep h op)) i = Some (r, O) ->
  forall env, denote (hstore (hstep h op)) r env = denote (hstore h) r env.
Proof. intros Hh Hi _. eapply hstep_denote_stable_strong; eauto. Qed.

(* and the slots an operation does not write are unchanged *)
Theorem hstep_pool_other h op i :
  match op with
  | HParse k _ _ | HLambda k _ _ | HApply _ _ _ k | HNot _ k | HRestrict _ _ _ k | HReparse _ k
  | HDrop k => i <> k
  | HGc _ => True
  end -> pool_get (hpool (hstep h op)) i = pool_get (hpool h) i.
Proof.
  assert (Hc : forall k res, i <> k -> pool_get (hpool (commit h k res)) i = pool_get (hpool h) i).
  { intros k [[s' o]| | | | | |] H; cbn [commit hpool]; try reflexivity. apply pool_get_set_other; exact H. }
  destruct op as [k O e|k args e|o a b k|a k|a v b k|a k|k|keep]; cbn [hstep]; intros H; auto.
  - destruct (pool_get (hpool h) a); auto. destruct (pool_get (hpool h) b); auto.
  - destruct (pool_get (hpool h) a); auto.
  - destruct (pool_get (hpool h) a); auto.
  - destruct (pool_get (hpool h) a); auto.
  - cbn [hpool]. apply pool_get_set_other; exact H.
Qed.

Theorem hstep_drop_spec h i : i < length (hpool h) -> pool_get (hpool (hstep h (HDrop i))) i = None.
Proof. intros H. cbn [hstep hpool]. apply pool_get_set_same; exact H. Qed.

Theorem hstep_pool_length h op : length (hpool (hstep h op)) = length (hpool h).
Proof.
  assert (Hc : forall k res, length (hpool (commit h k res)) = length (hpool h)).
  { intros k [[s' o]| | | | | |]; cbn [commit hpool]; try reflexivity. apply pool_set_length. }
  destruct op as [k O e|k args e|o a b k|a k|a v b k|a k|k|keep]; cbn [hstep]; auto.
  - destruct (pool_get (hpool h) a); auto. destruct (pool_get (hpool h) b); auto.
  - destruct (pool_get (hpool h) a); auto.
  - destruct (pool_get (hpool h) a); auto.
  - destruct (pool_get (hpool h) a); auto.
  - cbn [hpool]. apply pool_set_length.
Qed.

(* HApply: equal orderings guarantee success *)
Theorem hstep_apply_spec h o i j k ra rb O :
  wf_h h -> pool_get (hpool h) i = Some (ra, O) -> pool_get (hpool h) j = Some (rb, O) ->
  k < length (hpool h) ->
  hstatus h (HApply o i j k) = Ok tt /\
  exists n, pool_get (hpool (hstep h (HApply o i j k))) k = Some (n, O) /\
    forall env, denote (hstore (hstep h (HApply o i j k))) n env =
                bop_fun o (denote (hstore h) ra env) (denote (hstore h) rb env).
Proof.
  intros [Hw Hp] Hi Hj Hk. cbn [hstep hstatus]. rewrite Hi, Hj.
  destruct (Hp i ra O Hi) as [Hla Hoa]. destruct (Hp j rb O Hj) as [Hlb Hob].
  destruct (obdd_apply_spec (bop_fun o) (hstore h) ra rb O Hw Hoa Hob Hla Hlb)
    as (s' & n & E & _ & _ & _ & _ & Hd).
  rewrite E. cbn [commit fst snd hpool hstore]. split; [reflexivity|].
  exists n. split; [apply pool_get_set_same; exact Hk|exact Hd].
Qed.

(* different orderings: RuntimeError, nothing changes *)
Theorem hstep_apply_mismatch h o i j k a b :
  pool_get (hpool h) i = Some a -> pool_get (hpool h) j = Some b -> snd a <> snd b ->
  hstatus h (HApply o i j k) = RuntimeErr /\ hstep h (HApply o i j k) = h.
Proof.
  intros Hi Hj Hne. cbn [hstep hstatus]. rewrite Hi, Hj.
  rewrite (obdd_apply_mismatch (bop_fun o) (hstore h) a b Hne). split; reflexivity.
Qed.

Theorem hstep_not_spec h i k ra O :
  wf_h h -> pool_get (hpool h) i = Some (ra, O) -> k < length (hpool h) ->
  hstatus h (HNot i k) = Ok tt /\
  exists n, pool_get (hpool (hstep h (HNot i k))) k = Some (n, O) /\
    forall env, denote (hstore (hstep h (HNot i k))) n env = negb (denote (hstore h) ra env).
Proof.
  intros [Hw Hp] Hi Hk. cbn [hstep hstatus]. rewrite Hi. destruct (Hp i ra O Hi) as [Hla Hoa].
  destruct (obdd_neg_spec (hstore h) ra O Hw Hoa Hla) as (s' & n & E & _ & _ & _ & _ & Hd).
  rewrite E. cbn [commit fst snd hpool hstore]. split; [reflexivity|].
  exists n. split; [apply pool_get_set_same; exact Hk|exact Hd].
Qed.

Theorem hstep_restrict_spec h i v b k ra O :
  wf_h h -> pool_get (hpool h) i = Some (ra, O) -> k < length (hpool h) ->
  hstatus h (HRestrict i v b k) = Ok tt /\
  exists n, pool_get (hpool (hstep h (HRestrict i v b k))) k = Some (n, O) /\
    forall env, denote (hstore (hstep h (HRestrict i v b k))) n env =
                denote (hstore h) ra (env_upd env v b).
Proof.
  intros [Hw Hp] Hi Hk. cbn [hstep hstatus]. rewrite Hi. destruct (Hp i ra O Hi) as [Hla Hoa].
  destruct (obdd_restrict_spec (hstore h) ra O v b Hw Hoa Hla) as (s' & n & E & _ & _ & _ & _ & Hd).
  rewrite E. cbn [commit fst snd hpool hstore]. split; [reflexivity|].
  exists n. split; [apply pool_get_set_same; exact Hk|exact Hd].
Qed.

(* HParse: success is characterised; on success slot k denotes the expression *)
Theorem hstep_parse_status h k O e : wf_h h ->
  hstatus h (HParse k O e) =
    if negb (nodup_vars O) then RuntimeErr
    else match bstatus O e with SOk => Ok tt | SRun => RuntimeErr | SSyn => SyntaxErr end.
Proof.
  intros [Hw _]. cbn [hstatus]. unfold obdd_parse. destruct (nodup_vars O); cbn [negb]; [|reflexivity].
  pose proof (bbuild_total O e (hstore h) Hw) as H.
  destruct (bstatus O e); cbn [build_res] in H; try (rewrite H; reflexivity).
  destruct H as (s' & n & -> & _). reflexivity.
Qed.

Theorem hstep_parse_spec h k O e :
  wf_h h -> k < length (hpool h) -> hstatus h (HParse k O e) = Ok tt ->
  exists n, pool_get (hpool (hstep h (HParse k O e))) k = Some (n, O) /\
    forall env, denote (hstore (hstep h (HParse k O e))) n env = beval e env.
Proof.
  intros [Hw Hp] Hk Hs. cbn [hstep hstatus] in *.
  destruct (obdd_parse (hstore h) e O) as [[s' o]| | | | | |] eqn:E; try discriminate.
  destruct (obdd_parse_ok_inv _ _ _ _ _ Hw E) as (HO & _ & _ & _ & _ & _ & _ & Hd).
  destruct o as [n O']. cbn [fst snd] in *. subst O'. cbn [commit fst snd hpool hstore].
  exists n. split; [apply pool_get_set_same; exact Hk|exact Hd].
Qed.

Corollary hstep_parse_ok h k O e :
  wf_h h -> k < length (hpool h) -> nodup_vars O = true ->
  (forall v, In v (bvars e) -> in_ord O v = true) -> no_bad e = true ->
  exists n, pool_get (hpool (hstep h (HParse k O e))) k = Some (n, O) /\
    forall env, denote (hstore (hstep h (HParse k O e))) n env = beval e env.
Proof.
  intros Hh Hk Hnd Hv Hn. apply hstep_parse_spec; auto.
  rewrite hstep_parse_status by exact Hh. rewrite Hnd. cbn [negb].
  replace (bstatus O e) with SOk by (symmetry; apply bstatus_ok_iff; split; auto). reflexivity.
Qed.

Theorem hstep_lambda_is_parse h k args e : hstep h (HLambda k args e) = hstep h (HParse k args e).
Proof. reflexivity. Qed.

(* two slots parsed from equivalent expressions under one ordering hold the same root *)
Theorem parse_equiv_same_root h k1 k2 O e1 e2 :
  wf_h h -> k1 < length (hpool h) -> k2 < length (hpool h) -> k1 <> k2 ->
  let h1 := hstep h (HParse k1 O e1) in
  let h2 := hstep h1 (HParse k2 O e2) in
  hstatus h (HParse k1 O e1) = Ok tt -> hstatus h1 (HParse k2 O e2) = Ok tt ->
  (forall env, beval e1 env = beval e2 env) ->
  exists n, pool_get (hpool h2) k1 = Some (n, O) /\ pool_get (hpool h2) k2 = Some (n, O).
Proof.
  intros Hh Hk1 Hk2 Hne h1 h2 Hs1 Hs2 Heq.
  destruct (hstep_parse_spec h k1 O e1 Hh Hk1 Hs1) as (n1 & Hp1 & Hd1). fold h1 in Hp1, Hd1.
  assert (Hh1 : wf_h h1) by (apply hstep_inv; exact Hh).
  assert (Hk2' : k2 < length (hpool h1)) by (unfold h1; rewrite hstep_pool_length; exact Hk2).
  destruct (hstep_parse_spec h1 k2 O e2 Hh1 Hk2' Hs2) as (n2 & Hp2 & Hd2). fold h2 in Hp2, Hd2.
  assert (Hp1' : pool_get (hpool h2) k1 = Some (n1, O)).
  { unfold h2. rewrite (hstep_pool_other h1 (HParse k2 O e2) k1 Hne). exact Hp1. }
  assert (Hh2 : wf_h h2) by (apply hstep_inv; exact Hh1).
  assert (E : obdd_eq (n1, O) (n2, O) = true).
  { apply (C16_eq h2 k1 k2 (n1, O) (n2, O) Hh2 Hp1' Hp2 eq_refl). cbn [fst]. intros env.
    rewrite Hd2, <- Heq, <- Hd1. unfold h2. eapply hstep_denote_stable_strong; eauto. }
  apply obdd_eq_true in E. cbn [fst] in E. destruct E as [-> _]. eauto.
Qed.

(* ------------------------------------------------------------------ *)
(** * HReparse: the only place where the printer / parser round trip matters.
      The invariant above needs nothing about it; only the statement "the reparsed
      diagram is the same object" does. *)

(* the statement suggested for the round trip *)
Definition reparse_ok_stmt : Prop :=
  forall s r O, wf_store s -> live s r = true -> ordered O s r ->
  forall s' o', reparse_root s (r, O) = Ok (s', o') ->
    wf_store s' /\ extends s s' /\ o' = (r, O).
(* what is really needed (the rest of [reparse_ok_stmt] is provable outright) *)
Definition reparse_same_stmt : Prop :=
  forall s r O, wf_store s -> live s r = true -> ordered O s r ->
  forall s' o', reparse_root s (r, O) = Ok (s', o') -> fst o' = r.
(* a purely semantic form about printer and parser, which suffices by canonicity *)
Definition print_parse_sem_stmt : Prop :=
  forall s r O e, wf_store s -> live s r = true -> ordered O s r ->
    pyparse (print_root s r) = Some e -> forall env, beval e env = denote s r env.

Lemma reparse_snd s o s' o' : wf_store s -> reparse_root s o = Ok (s', o') -> snd o' = snd o.
Proof.
  intros Hw. unfold reparse_root. destruct (pyparse (print_root s (fst o))) as [e|]; [|discriminate].
  intros E. apply (obdd_parse_ok_inv s e (snd o) s' o' Hw E).
Qed.

Lemma reparse_ok_of_same : reparse_same_stmt -> reparse_ok_stmt.
Proof.
  intros H s r O Hw Hl Ho s' o' E.
  destruct (good_reparse s (r, O) Hw s' o' E) as (Hw' & He & _). splits; auto.
  pose proof (reparse_snd s (r, O) s' o' Hw E) as Hs. pose proof (H s r O Hw Hl Ho s' o' E) as Hf.
  destruct o' as [r' O']. cbn [fst snd] in *. congruence.
Qed.

Lemma reparse_same_of_ok : reparse_ok_stmt -> reparse_same_stmt.
Proof. intros H s r O Hw Hl Ho s' o' E. destruct (H s r O Hw Hl Ho s' o' E) as (_ & _ & ->). reflexivity. Qed.

Lemma reparse_same_of_sem : print_parse_sem_stmt -> reparse_same_stmt.
Proof.
  intros H s r O Hw Hl Ho s' o'. unfold reparse_root. cbn [fst snd].
  destruct (pyparse (print_root s r)) as [e|] eqn:Ep; [|discriminate]. intros E.
  destruct (obdd_parse_ok_inv s e O s' o' Hw E) as (_ & _ & _ & Hw' & He & Hl' & Ho' & Hd).
  destruct (Nat.eq_dec (fst o') r) as [En|En]; [exact En|exfalso].
  destruct (distinguish O s' (fst o') r Hw' Ho' (ordered_extends O s s' r Hw He Ho) Hl'
              (live_extends s s' r He Hl) En) as [env Hne].
  apply Hne. rewrite Hd, (H s r O e Hw Hl Ho Ep env). symmetry. apply denote_extends; auto.
Qed.

Section Reparse.
  Hypothesis reparse_same : reparse_same_stmt.

  Theorem hstep_reparse_spec h i k r O :
    wf_h h -> pool_get (hpool h) i = Some (r, O) -> k < length (hpool h) ->
    hstatus h (HReparse i k) = Ok tt ->
    pool_get (hpool (hstep h (HReparse i k))) k = Some (r, O) /\
    forall env, denote (hstore (hstep h (HReparse i k))) r env = denote (hstore h) r env.
  Proof.
    intros Hh Hi Hk Hs. split; [|intros env; eapply hstep_denote_stable_strong; eauto].
    destruct Hh as [Hw Hp]. destruct (Hp i r O Hi) as [Hl Ho].
    cbn [hstep hstatus] in *. rewrite Hi in *.
    destruct (reparse_root (hstore h) (r, O)) as [[s' o']| | | | | |] eqn:E; try discriminate.
    destruct (reparse_ok_of_same reparse_same _ _ _ Hw Hl Ho _ _ E) as (_ & _ & ->).
    cbn [commit fst snd hpool]. apply pool_get_set_same; exact Hk.
  Qed.
End Reparse.

(* ------------------------------------------------------------------ *)
(** * Theorem 7: non-vacuity *)

Definition ex_ops : list hop :=
  [ HParse 0 [0; 1] (BAnd (BVar 0) (BVar 1));                              (* x0 & x1 *)
    HParse 1 [0; 1] (BNot (BOrL [BNot (BVar 0); BNot (BVar 1)]));          (* not (~x0 or ~x1) *)
    HApply OpOr 0 1 2;                                                     (* same function again *)
    HLambda 3 [0; 1] (BOr (BVar 0) (BVar 1));                              (* a different one *)
    HApply OpXor 0 3 3 ].                                                  (* x0 xor x1 *)

(* the three descriptions of x0 & x1 share one root; 8 nodes were created on the way *)
Example ex_same_roots :
  let h := hrun 4 ex_ops in
  pool_get (hpool h) 0 = Some (4, [0; 1]) /\ pool_get (hpool h) 1 = pool_get (hpool h) 0 /\
  pool_get (hpool h) 2 = pool_get (hpool h) 0 /\ pool_get (hpool h) 3 = Some (9, [0; 1]) /\
  live_count (hstore h) = 8 /\ no_dup_triples (hstore h) = true.
Proof. vm_compute. repeat split. Qed.

(* dropping the xor and collecting leaves exactly the two nodes of x0 & x1 *)
Example ex_drop_gc :
  let h := hrun 4 (ex_ops ++ [HDrop 3; HGc []]) in
  hpool h = [Some (4, [0; 1]); Some (4, [0; 1]); Some (4, [0; 1]); None] /\
  hstore h = [(4, (0, 0, 3)); (3, (1, 0, 1))] /\ live_count (hstore h) = 2.
Proof. vm_compute. repeat split. Qed.

(* a collection that happens to spare one more (garbage) node *)
Example ex_gc_keep :
  live_count (hstore (hrun 4 (ex_ops ++ [HDrop 3; HGc [5]]))) = 3.
Proof. vm_compute. reflexivity. Qed.

(* without a drop nothing referenced is lost, a dropped reference alone does not free
   shared nodes, and once every reference is gone the store empties *)
Example ex_gc_all :
  live_count (hstore (hrun 4 (ex_ops ++ [HGc []]))) = 4 /\
  live_count (hstore (hrun 4 (ex_ops ++ [HDrop 3; HGc []; HDrop 0; HDrop 1; HGc []]))) = 2 /\
  hstore (hrun 4 (ex_ops ++ [HDrop 3; HGc []; HDrop 0; HDrop 1; HGc []; HDrop 2; HGc []])) = [].
Proof. vm_compute. repeat split. Qed.

(* after the collection the same function is rebuilt into the same (surviving) root; the
   intermediate node for the literal x0 is garbage and goes with the next collection *)
Example ex_rebuild_after_gc :
  let ops := ex_ops ++ [HDrop 3; HGc []; HParse 3 [0; 1] (BAndL [BVar 1; BVar 0; BConst true])] in
  let h := hrun 4 ops in
  pool_get (hpool h) 3 = pool_get (hpool h) 0 /\ live_count (hstore h) = 3 /\
  live_count (hstore (hrun 4 (ops ++ [HGc []]))) = 2.
Proof. vm_compute. repeat split. Qed.

(* the error cases *)
Example ex_errors :
  let h := hrun 4 ex_ops in
  map (hstatus h) [HParse 0 [0; 0] (BVar 0); HParse 0 [0] (BVar 1); HParse 0 [0] BBad;
                   HParse 0 [0] (BAnd BBad (BVar 1)); HParse 0 [0] (BAnd (BVar 1) BBad)]
  = [RuntimeErr; RuntimeErr; SyntaxErr; SyntaxErr; RuntimeErr] /\
  hstatus (hstep h (HParse 1 [1; 0] (BVar 0))) (HApply OpAnd 0 1 2) = RuntimeErr /\
  hstep (hstep h (HParse 1 [1; 0] (BVar 0))) (HApply OpAnd 0 1 2) = hstep h (HParse 1 [1; 0] (BVar 0)).
Proof. vm_compute. repeat split. Qed.

Print Assumptions bbuild_total.
Print Assumptions bbuild_spec.
Print Assumptions bbuild_errors.
Print Assumptions bbuild_runtime_err.
Print Assumptions bbuild_syntax_err.
Print Assumptions bbuild_mixed_err.
Print Assumptions build_same_function_same_node.
Print Assumptions hstep_inv.
Print Assumptions hrun_inv.
Print Assumptions C16_no_dup.
Print Assumptions C16_eq.
Print Assumptions hstep_denote_stable_strong.
Print Assumptions hstep_apply_spec.
Print Assumptions hstep_not_spec.
Print Assumptions hstep_restrict_spec.
Print Assumptions hstep_parse_spec.
Print Assumptions parse_equiv_same_root.
Print Assumptions reparse_same_of_sem.
Print Assumptions hstep_reparse_spec.
